"""encoding of values for the driver's line protocol (floats as 16-hex-digit IEEE bit patterns)"""
import struct
import numpy as np


def fhex(x):
    return struct.pack(">d", float(x)).hex()


def unhex(s):
    return struct.unpack(">d", bytes.fromhex(s))[0]


def floats(a):
    a = np.asarray(a, dtype=np.float64).reshape(-1)
    return "%d %s" % (a.size, " ".join(fhex(x) for x in a)) if a.size else "0"


def rawfloats(a):
    a = np.asarray(a, dtype=np.float64).reshape(-1)
    return " ".join(fhex(x) for x in a)


def verts(v):
    v = np.asarray(v, dtype=np.float64)
    return "%d %s" % (v.shape[0], " ".join(fhex(x) for x in v.reshape(-1))) if v.size else "0"


def elems(t):
    t = np.asarray(t)
    return "%d %s" % (t.shape[0], " ".join(str(int(x)) for x in t.reshape(-1))) if t.size else "0"


def nats(a):
    a = np.asarray(a).reshape(-1)
    return "%d %s" % (a.size, " ".join(str(int(x)) for x in a)) if a.size else "0"


class Reply:
    """cursor over the tokens of a reply"""

    def __init__(self, line):
        self.raw = line
        self.t = line.split(" ")
        self.i = 0
        self.status = self.tok()

    def tok(self):
        s = self.t[self.i]
        self.i += 1
        return s

    def nat(self):
        return int(self.tok())

    def flt(self):
        return unhex(self.tok())

    def floats(self):
        n = self.nat()
        return np.array([self.flt() for _ in range(n)])

    def nats(self):
        n = self.nat()
        return np.array([self.nat() for _ in range(n)], dtype=np.int64)

    def ints(self):
        return self.nats()

    def v3s(self):
        n = self.nat()
        return np.array([self.flt() for _ in range(3 * n)]).reshape(n, 3)

    def coo(self):
        n = self.nat()
        i = np.empty(n, dtype=np.int64); j = np.empty(n, dtype=np.int64); d = np.empty(n)
        for k in range(n):
            i[k] = self.nat(); j[k] = self.nat(); d[k] = self.flt()
        return i, j, d

    def done(self):
        return self.i == len(self.t)
