"""Base class of the per-property checks."""
from . import core


class BaseCheck:
    id = "C00"
    audit_mod = None
    rule = ""
    trusted = []
    assumptions = []
    leanchecker_mods = None

    def __init__(self, tier, seed):
        self.tier = tier
        self.seed = seed
        self.quick = tier == "quick"

    # -- steps
    def translate(self):
        pass

    def correspond(self, drv, stats):
        return []

    def search(self, failures, stats):
        """failing-input search on the implementation: cases attached to broken ties first, then the generator stream.
        Violations that match an open known finding are remembered (self.known_hits) and the search continues."""
        known = [k for k in core.load_known() if k.get("property") == self.id and k.get("status") == "open"]
        self.known_hits = []

        def is_known(v):
            for k in known:
                if k.get("clause") == v.clause and (k.get("input_class") is None or k.get("input_class") == (v.case or {}).get("input_class")):
                    if k not in self.known_hits:
                        self.known_hits.append(k)
                    return True
            return False

        cases = [f.case for f in failures if f.case is not None]
        from . import gen
        try:
            for case in list(cases) + list(self.search_cases()):
                gen.use(case)            # meshes are handed to the implementation in the presentation the case records
                try:
                    if isinstance(case, dict) and case.get("kind") == "reuse":
                        from . import reuse
                        v = reuse.oracle(case)
                    else:
                        v = self.oracle(case)
                except Exception:  # noqa: BLE001  (a case attached to a broken tie may lack what the oracle needs: go on with the stream)
                    self.search_errors = getattr(self, "search_errors", 0) + 1
                    continue
                if v is not None and not is_known(v):
                    return v
        finally:
            gen.use(None)
        return None

    def search_cases(self):
        return []

    def oracle(self, case):
        """evaluate the property directly on the implementation; None if it holds on this case"""
        return None

    def known_finding(self, k):
        return False

    def replay(self, rp):
        if rp.get("kind") == "failing-input":
            from . import gen
            gen.use(rp["input"])
            try:
                if isinstance(rp["input"], dict) and rp["input"].get("kind") == "reuse":
                    from . import reuse
                    v = reuse.oracle(rp["input"])
                else:
                    v = self.oracle(rp["input"])
            finally:
                gen.use(None)
            return None if v is None else "%s: %s" % (v.clause, v.what)
        # broken obligation: re-run the ties
        from . import lean
        self.translate()
        aud = lean.audit(self.audit_mod)
        if aud["failed"]:
            return "obligations still failing: " + ", ".join(list(aud["failed"])[:5])
        drv = lean.Driver()
        try:
            fs = self.correspond(drv, core.Stats())
        finally:
            drv.close()
        return None if not fs else "correspondence still failing: " + fs[0].name
