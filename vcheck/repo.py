"""Locate the code under test: LaPy is imported from the working tree of $LAPY_REPO (default /repo),
never from site-packages (/venv holds an installed copy that is deliberately bypassed)."""
import os
import sys

REPO = os.environ.get("LAPY_REPO", "/repo")
VERIF = os.path.dirname(os.path.dirname(os.path.abspath(__file__)))

if sys.path[0] != REPO:
    sys.path.insert(0, REPO)
for m in list(sys.modules):
    if m == "lapy" or m.startswith("lapy."):
        del sys.modules[m]

import lapy  # noqa: E402

assert os.path.realpath(lapy.__file__).startswith(os.path.realpath(REPO) + os.sep), (
    "lapy imported from %s, expected under %s" % (lapy.__file__, REPO))


def src(rel):
    """text of a source file of the repository"""
    with open(os.path.join(REPO, rel)) as f:
        return f.read()
