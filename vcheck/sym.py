"""Translator 1: symbolic tracing of the real NumPy kernels.

The kernels of LaPy are dtype-generic NumPy.  They are *executed* on arrays of dtype=object whose
entries are `Sym` nodes (a hash-consed expression DAG).  Every comparison a kernel asks for is
answered with the non-degenerate branch and recorded as a path condition.  The result is the exact
real-arithmetic expression the code computes for a generic element, which is emitted as Lean.
"""
from fractions import Fraction
import math
import numpy as np


class Tracer:
    def __init__(self, sample_seed=12345, sample=None):
        """Concolic: every variable carries a generic sample value (seeded, or given in `sample`); a comparison
        is decided by evaluating both sides at the sample point and recorded as a path condition."""
        self.nodes = []          # (op, args)   args: tuple of node ids / payload
        self.index = {}
        self.val = []            # float value of every node at the sample point
        self.pc = []             # list of (relation, lhs id, rhs id, truth answered)
        self.sample = dict(sample or {})
        import random
        self._rnd = random.Random(sample_seed)

    def mk(self, op, *args):
        key = (op,) + args
        i = self.index.get(key)
        if i is None:
            i = len(self.nodes)
            self.nodes.append(key)
            self.index[key] = i
            self.val.append(self._value(key))
        return Sym(self, i)

    def _value(self, key):
        k = key[0]
        if k == "var":
            if key[1] not in self.sample:
                self.sample[key[1]] = self._rnd.uniform(-1.0, 1.0)
            return float(self.sample[key[1]])
        if k == "const":
            return float(key[1])
        a = [self.val[x] for x in key[1:]]
        try:
            if k == "neg": return -a[0]
            if k == "abs": return abs(a[0])
            if k == "sqrt": return math.sqrt(a[0]) if a[0] >= 0 else float("nan")
            if k == "exp": return math.exp(a[0])
            if k == "add": return a[0] + a[1]
            if k == "sub": return a[0] - a[1]
            if k == "mul": return a[0] * a[1]
            if k == "div": return a[0] / a[1] if a[1] != 0 else float("nan")
            if k == "rpow": return a[0] ** a[1] if a[0] > 0 else float("nan")
        except OverflowError:
            return float("nan")
        raise ValueError(k)

    def var(self, name):
        return self.mk("var", name)

    def const(self, x):
        return self.mk("const", snap(x))

    def lift(self, x):
        if isinstance(x, Sym):
            return x
        if isinstance(x, (bool, np.bool_)):
            raise TypeError("bool in arithmetic")
        if isinstance(x, (int, np.integer)):
            return self.mk("const", Fraction(int(x)))
        if isinstance(x, (float, np.floating)):
            return self.const(float(x))
        if isinstance(x, Fraction):
            return self.mk("const", x)
        raise TypeError("cannot lift %r" % (type(x),))


def snap(x):
    """smallest-denominator fraction (by decades) that rounds to the double x"""
    if isinstance(x, Fraction):
        return x
    x = float(x)
    if x != x or x in (math.inf, -math.inf):
        raise ValueError("non-finite constant")
    fx = Fraction(x)
    for k in range(0, 19):
        fr = fx.limit_denominator(10 ** k)
        if float(fr) == x:
            return fr
    return fx


class Sym:
    __slots__ = ("tr", "id")

    def __init__(self, tr, i):
        self.tr = tr
        self.id = i

    # -- arithmetic
    def _bin(self, op, other, swap=False):
        try:
            o = self.tr.lift(other)
        except TypeError:
            return NotImplemented
        a, b = (o, self) if swap else (self, o)
        return self.tr.mk(op, a.id, b.id)

    def __add__(self, o): return self._bin("add", o)
    def __radd__(self, o): return self._bin("add", o, True)
    def __sub__(self, o): return self._bin("sub", o)
    def __rsub__(self, o): return self._bin("sub", o, True)
    def __mul__(self, o): return self._bin("mul", o)
    def __rmul__(self, o): return self._bin("mul", o, True)
    def __truediv__(self, o): return self._bin("div", o)
    def __rtruediv__(self, o): return self._bin("div", o, True)
    def __neg__(self): return self.tr.mk("neg", self.id)
    def __pos__(self): return self
    def __abs__(self): return self.tr.mk("abs", self.id)

    def __pow__(self, k):
        if isinstance(k, (int, np.integer)) and k >= 1:
            r = self
            for _ in range(int(k) - 1):
                r = r * self
            return r
        if isinstance(k, (float, np.floating)) and float(k) == 0.5:
            return self.sqrt()
        if isinstance(k, (float, np.floating)):
            fr = snap(float(k))
            if fr == 1:
                return self
            if fr.denominator == 1 and fr.numerator >= 1:
                return self.__pow__(int(fr.numerator))
            return self.tr.mk("rpow", self.id, self.tr.mk("const", fr).id)      # real power: emitted through the binder `pw`
        return NotImplemented

    # NumPy's object-dtype ufunc protocol
    def sqrt(self): return self.tr.mk("sqrt", self.id)
    def exp(self): return self.tr.mk("exp", self.id)
    def conjugate(self): return self

    # -- comparisons become path conditions
    def _cmp(self, rel, other):
        o = self.tr.lift(other)
        a, b = self.tr.val[self.id], self.tr.val[o.id]
        ans = bool({"lt": a < b, "gt": a > b, "le": a <= b, "ge": a >= b, "eq": a == b}[rel])
        self.tr.pc.append((rel, self.id, o.id, ans))
        return ans

    def __lt__(self, o): return self._cmp("lt", o)
    def __gt__(self, o): return self._cmp("gt", o)
    def __le__(self, o): return self._cmp("le", o)
    def __ge__(self, o): return self._cmp("ge", o)
    def __eq__(self, o): return self._cmp("eq", o)
    def __ne__(self, o): return not self._cmp("eq", o)
    def __hash__(self): return hash(self.id)
    def __bool__(self): raise TypeError("truth value of a symbolic scalar")
    def __float__(self): raise TypeError("float() of a symbolic scalar (kernel is not dtype-generic)")
    def __repr__(self): return "Sym#%d" % self.id


def sym_array(tr, prefix, shape):
    a = np.empty(shape, dtype=object)
    for idx in np.ndindex(*shape):
        a[idx] = tr.var(prefix + "_".join(str(k) for k in idx))
    return a


# ------------------------------------------------------------------ evaluation of a DAG

def evaluate(tr, ids, env, mode="fraction"):
    """evaluate nodes `ids` under env {name: value}.  mode 'fraction' (sqrt/exp unsupported unless perfect
    square) or 'float'."""
    cache = {}

    def ev(i):
        if i in cache:
            return cache[i]
        op = tr.nodes[i]
        k = op[0]
        if k == "var":
            r = env[op[1]]
        elif k == "const":
            r = op[1] if mode == "fraction" else float(op[1])
        elif k == "neg":
            r = -ev(op[1])
        elif k == "abs":
            r = abs(ev(op[1]))
        elif k == "sqrt":
            x = ev(op[1])
            if mode == "float":
                r = math.sqrt(x) if x >= 0 else float("nan")
            else:
                r = frac_sqrt(x)
        elif k == "exp":
            r = math.exp(ev(op[1]))
        else:
            a, b = ev(op[1]), ev(op[2])
            if k == "add": r = a + b
            elif k == "sub": r = a - b
            elif k == "mul": r = a * b
            elif k == "div":
                r = a / b
            else:
                raise ValueError(k)
        cache[i] = r
        return r

    import sys
    sys.setrecursionlimit(max(10000, sys.getrecursionlimit()))
    return [ev(i) for i in ids]


def frac_sqrt(x):
    x = Fraction(x)
    if x < 0:
        raise ValueError("sqrt of negative")
    n, d = x.numerator, x.denominator
    rn, rd = math.isqrt(n), math.isqrt(d)
    if rn * rn == n and rd * rd == d:
        return Fraction(rn, rd)
    raise ValueError("irrational sqrt")


# ------------------------------------------------------------------ Lean emission

def lean_const(fr):
    fr = Fraction(fr)
    if fr.denominator == 1:
        s = "(%d : ℝ)" % abs(fr.numerator)
    else:
        s = "((%d : ℝ) / (%d : ℝ))" % (abs(fr.numerator), fr.denominator)
    return "(-%s)" % s if fr < 0 else s


def emit_term(tr, root, names):
    """Lean term (a `let` chain over the part of the DAG reachable from root); shared nodes are bound once."""
    order = []
    seen = set()
    uses = {}

    def visit(i):
        uses[i] = uses.get(i, 0) + 1
        if i in seen:
            return
        seen.add(i)
        op = tr.nodes[i]
        if op[0] not in ("var", "const"):
            for a in op[1:]:
                visit(a)
        order.append(i)

    import sys
    sys.setrecursionlimit(max(10000, sys.getrecursionlimit()))
    visit(root)
    ref = {}
    lines = []

    def expr(i):
        op = tr.nodes[i]
        k = op[0]
        if k == "var":
            return names[op[1]]
        if k == "const":
            return lean_const(op[1])
        a = [ref[x] for x in op[1:]]
        if k == "neg": return "(-%s)" % a[0]
        if k == "abs": return "|%s|" % a[0]
        if k == "sqrt": return "Real.sqrt %s" % a[0]
        if k == "exp": return "Real.exp %s" % a[0]
        if k == "rpow":
            return "(pw %s %s)" % (a[0], a[1])
        sym = {"add": "+", "sub": "-", "mul": "*", "div": "/"}[k]
        return "(%s %s %s)" % (a[0], sym, a[1])

    for i in order:
        op = tr.nodes[i]
        e = expr(i)
        if op[0] in ("var", "const") or (uses[i] == 1 and len(e) < 400) or i == root:
            ref[i] = e
        else:
            nm = "n%d" % i
            lines.append("  let %s : ℝ := %s;" % (nm, e))
            ref[i] = nm
    return "\n".join(lines + ["  " + ref[root]])


def emit_pc(tr, names):
    """the recorded path condition as a Lean proposition (conjunction)"""
    rels = {"lt": "<", "gt": ">", "le": "≤", "ge": "≥", "eq": "="}
    seen = []
    for rel, a, b, ans in tr.pc:
        key = (rel, a, b, ans)
        if key not in seen:
            seen.append(key)
    parts = []
    for rel, a, b, ans in seen:
        ta = emit_term(tr, a, names).strip()
        tb = emit_term(tr, b, names).strip()
        p = "(%s) %s (%s)" % (ta.replace("\n", " "), rels[rel], tb.replace("\n", " "))
        parts.append(p if ans else "¬ (%s)" % p)
    return parts
