"""Runs the tracer (sym.py) on the kernels of /repo and writes lean/LapyVerif/Generated/*.lean.

Each generated module contains, over ℝ: the path condition `pc`, one `def` per output entry (a `let` chain over
the traced DAG) and the assembled output in the order the code produced it (triplet lists for sparse matrices).
Output is deterministic: on an unchanged tree the files are byte-identical and lake has nothing to rebuild.
"""
import os
import types
import contextlib
import numpy as np

from . import repo
from .sym import Tracer, Sym, sym_array, emit_term, emit_pc

GEN_DIR = os.path.join(repo.VERIF, "lean", "LapyVerif", "Generated")
AX = "xyz"


class CooRec:
    """stand-in for scipy.sparse.csc_matrix((data, (i, j))): records the triplets, sums duplicates symbolically"""

    def __init__(self, arg, shape=None, dtype=None):
        data, (i, j) = arg
        self.trip = [(int(a), int(b), d) for a, b, d in zip(np.asarray(i).reshape(-1), np.asarray(j).reshape(-1),
                                                           np.asarray(data, dtype=object).reshape(-1))]
        self.shape = shape
        self.out_dtype = dtype

    def _scaled(self, c):
        r = CooRec.__new__(CooRec)
        r.trip = [(a, b, c * d) for a, b, d in self.trip]
        r.shape = self.shape
        r.out_dtype = self.out_dtype
        return r

    def __rmul__(self, c):
        return self._scaled(c)

    def __mul__(self, c):
        return self._scaled(c)

    def todense(self):
        n = (max(a for a, _, _ in self.trip) + 1) if self.shape is None else self.shape[0]
        m = (max(b for _, b, _ in self.trip) + 1) if self.shape is None else self.shape[1]
        out = np.zeros((n, m), dtype=object)
        first = {}
        for a, b, d in self.trip:
            if (a, b) in first:
                out[a, b] = out[a, b] + d
            else:
                out[a, b] = d
                first[(a, b)] = True
        return out


@contextlib.contextmanager
def shim(module, np_proxy=False):
    """replace `sparse` (and optionally `np`) inside one module of lapy while tracing"""
    saved = {}
    fake = types.SimpleNamespace(csc_matrix=CooRec, csr_matrix=CooRec)
    if hasattr(module, "sparse"):
        saved["sparse"] = module.sparse
        module.sparse = fake
    if np_proxy:
        saved["np"] = module.np
        module.np = NpProxy()
    try:
        yield
    finally:
        for k, v in saved.items():
            setattr(module, k, v)


class NpProxy:
    """numpy with a `sqrt` that keeps `np.sqrt(<python number>)` symbolic (set `tracer` before use)"""
    tracer = None

    def __getattr__(self, name):
        return getattr(np, name)

    def sqrt(self, x):
        if isinstance(x, (int, float)) and NpProxy.tracer is not None:
            return NpProxy.tracer.lift(x).sqrt()
        return np.sqrt(x)

    def bincount(self, x, weights=None, minlength=0):
        """`np.bincount` casts its weights to float64; with symbolic weights the same accumulation (in index order of the
        input, as bincount does) is carried out on the expression DAG"""
        if weights is not None and np.asarray(weights).dtype == object and NpProxy.tracer is not None:
            x = np.asarray(x).reshape(-1)
            w = np.asarray(weights, dtype=object).reshape(-1)
            n = max(int(x.max()) + 1 if len(x) else 0, minlength)
            out = np.empty(n, dtype=object)
            seen = [False] * n
            for i, wi in zip(x, w):
                out[i] = (out[i] + wi) if seen[i] else wi
                seen[i] = True
            for i in range(n):
                if not seen[i]:
                    out[i] = NpProxy.tracer.lift(0)
            return out
        return np.bincount(x, weights, minlength)

    def nan_to_num(self, x, *a, **k):
        """`np.nan_to_num` of a symbolic array: identity (the real-number model has no NaN; zero gradients are excluded by the property)"""
        if isinstance(x, np.ndarray) and x.dtype == object:
            return x
        return np.nan_to_num(x, *a, **k)

    def count_nonzero(self, x, *a, **k):
        """`np.count_nonzero` of a symbolic array asks each entry whether it is zero (recorded as path conditions)"""
        if isinstance(x, np.ndarray) and x.dtype == object:
            return sum(0 if (e == 0) else 1 for e in x.reshape(-1))
        return np.count_nonzero(x, *a, **k)

    trace_hook = None

    def trace(self, x, *a, **k):
        """`np.trace` of a symbolic matrix (the flow's stopping quantity is reported through `trace_hook`)"""
        r = np.trace(x, *a, **k)
        if NpProxy.trace_hook is not None:
            r = NpProxy.trace_hook(r)
        return r

    def float32(self, x):
        """`np.float32(b0)` of a symbolic right-hand side is rounding: identity for the real-number model"""
        if isinstance(x, np.ndarray) and x.dtype == object:
            return x
        return np.float32(x)

    def empty(self, shape, dtype=float, **kw):
        """a float `np.empty` buffer whose columns are assigned symbolic values"""
        if NpProxy.tracer is not None and dtype is float:
            return self.zeros(shape)
        return np.empty(shape, dtype=dtype, **kw)

    def zeros(self, shape, dtype=float, **kw):
        """a float `np.zeros` buffer that receives symbolic values through `np.add.at` / item assignment"""
        if NpProxy.tracer is not None and dtype is float:
            out = np.empty(shape, dtype=object)
            z = NpProxy.tracer.lift(0)
            for idx in np.ndindex(*out.shape):
                out[idx] = z
            return out
        return np.zeros(shape, dtype=dtype, **kw)


# ---------------------------------------------------------------- module writer

def v3_names(prefix, count):
    """variable names `p{k}_{c}` ↦ Lean projections `p{k}.x`"""
    return {"%s%d_%d" % (prefix, k, c): "%s%d.%s" % (prefix, k, AX[c]) for k in range(count) for c in range(3)}


def write_if_changed(path, text):
    os.makedirs(os.path.dirname(path), exist_ok=True)
    try:
        with open(path) as f:
            if f.read() == text:
                return False
    except FileNotFoundError:
        pass
    tmp = path + ".tmp%d" % os.getpid()
    with open(tmp, "w") as f:
        f.write(text)
    os.replace(tmp, path)
    return True


class GenModule:
    def __init__(self, name, source, binder):
        self.name = name
        self.lines = [
            "import LapyVerif.Lemmas.RealInst",
            "import LapyVerif.Model.Coo",
            "/-  GENERATED by vcheck/extract.py from %s -- do not edit.  Rewritten on every run. -/" % source,
            "set_option linter.unusedVariables false",
            "namespace LapyVerif.Gen.%s" % name,
            "noncomputable section",
            "",
        ]
        self.binder = binder     # e.g. "(v0 v1 v2 : V3 ℝ)"
        self.args = " ".join(a for a in binder.replace("(", " ").replace(")", " ").split(":")[0].split()) if binder.count("(") == 1 else None

    def set_args(self, args):
        self.args = args

    def scalar(self, nm, tr, node, names):
        self.lines.append("def %s %s : ℝ :=\n%s\n" % (nm, self.binder, emit_term(tr, node, names)))

    def pc(self, tr, names, nm="pc"):
        parts = emit_pc(tr, names)
        body = " ∧\n  ".join(parts) if parts else "True"
        self.lines.append("/-- path condition answered while tracing (non-degenerate branch) -/")
        self.lines.append("def %s %s : Prop :=\n  %s\n" % (nm, self.binder, body))
        self.lines.append("/-- number of distinct data-dependent decisions the code took while it was traced (census: a new branch on the data shows here) -/")
        self.lines.append("def %sCount : Nat := %d\n" % (nm, len(parts)))

    def coo(self, nm, tr, trip, names):
        for k, (_, _, d) in enumerate(trip):
            self.scalar("%s_%d" % (nm, k), tr, d.id, names)
        items = ", ".join("((%d, %d), %s_%d %s)" % (a, b, nm, k, self.args) for k, (a, b, _) in enumerate(trip))
        self.lines.append("def %s %s : Coo ℝ := [%s]\n" % (nm, self.binder, items))

    def vec(self, nm, tr, syms, names):
        for k, d in enumerate(syms):
            self.scalar("%s_%d" % (nm, k), tr, d.id, names)
        items = ", ".join("%s_%d %s" % (nm, k, self.args) for k in range(len(syms)))
        self.lines.append("def %s %s : List ℝ := [%s]\n" % (nm, self.binder, items))

    def raw(self, text):
        self.lines.append(text)

    def write(self):
        text = "\n".join(self.lines + ["end", "end LapyVerif.Gen.%s" % self.name, ""])
        return write_if_changed(os.path.join(GEN_DIR, self.name + ".lean"), text)


def as_sym(tr, x):
    return x if isinstance(x, Sym) else tr.lift(x)


# ---------------------------------------------------------------- kernels of solver.py

def gen_fem():
    """_fem_tria (both lumpings), fem_tria_mass, _fem_tria_aniso, _fem_tetra on one generic element"""
    import lapy.solver as S
    written = []
    # ---- triangles
    tr = Tracer()
    v = sym_array(tr, "v", (3, 3))
    mesh = types.SimpleNamespace(v=v, t=np.array([[0, 1, 2]]))
    names = v3_names("v", 3)
    with shim(S):
        a, b = S.Solver._fem_tria(mesh, False)
        a2, bl = S.Solver._fem_tria(mesh, True)
    g = GenModule("FemTria", "lapy/solver.py::Solver._fem_tria", "(v0 v1 v2 : V3 ℝ)")
    g.pc(tr, names)
    g.coo("A", tr, a.trip, names)
    g.coo("B", tr, b.trip, names)
    g.coo("AL", tr, a2.trip, names)
    g.coo("BL", tr, bl.trip, names)
    written.append(g.write())
    # ---- stand-alone mass
    tr = Tracer()
    v = sym_array(tr, "v", (3, 3))
    mesh = types.SimpleNamespace(v=v, t=np.array([[0, 1, 2]]))
    with shim(S):
        b = S.Solver.fem_tria_mass(mesh, False)
        bl = S.Solver.fem_tria_mass(mesh, True)
    g = GenModule("FemTriaMass", "lapy/solver.py::Solver.fem_tria_mass", "(v0 v1 v2 : V3 ℝ)")
    g.pc(tr, names)
    g.coo("B", tr, b.trip, names)
    g.coo("BL", tr, bl.trip, names)
    written.append(g.write())
    # ---- anisotropic
    tr = Tracer()
    v = sym_array(tr, "v", (3, 3))
    u1 = sym_array(tr, "a", (1, 3))
    u2 = sym_array(tr, "b", (1, 3))
    d = sym_array(tr, "d", (1, 2))
    mesh = types.SimpleNamespace(v=v, t=np.array([[0, 1, 2]]))
    nm = dict(names)
    nm.update({"a0_%d" % c: "u1.%s" % AX[c] for c in range(3)})
    nm.update({"b0_%d" % c: "u2.%s" % AX[c] for c in range(3)})
    nm.update({"d0_0": "d0", "d0_1": "d1"})
    with shim(S):
        a, b = S.Solver._fem_tria_aniso(mesh, u1, u2, d, False)
    g = GenModule("FemTriaAniso", "lapy/solver.py::Solver._fem_tria_aniso", "(v0 v1 v2 u1 u2 : V3 ℝ) (d0 d1 : ℝ)")
    g.set_args("v0 v1 v2 u1 u2 d0 d1")
    g.pc(tr, nm)
    g.coo("A", tr, a.trip, nm)
    g.coo("B", tr, b.trip, nm)
    written.append(g.write())
    # ---- tetrahedra
    tr = Tracer()
    v = sym_array(tr, "v", (4, 3))
    mesh = types.SimpleNamespace(v=v, t=np.array([[0, 1, 2, 3]]))
    names4 = v3_names("v", 4)
    with shim(S):
        a, b = S.Solver._fem_tetra(mesh, False)
        a2, bl = S.Solver._fem_tetra(mesh, True)
    g = GenModule("FemTet", "lapy/solver.py::Solver._fem_tetra", "(v0 v1 v2 v3 : V3 ℝ)")
    g.pc(tr, names4)
    g.coo("A", tr, a.trip, names4)
    g.coo("B", tr, b.trip, names4)
    g.coo("BL", tr, bl.trip, names4)
    written.append(g.write())
    return written


# ---------------------------------------------------------------- kernels of diffgeo.py

def _tracer_with_orientation(positive, nverts=4):
    """a tracer whose sample tetrahedron v0..v3 has the requested sign of det(v1-v0, v2-v0, v3-v0)"""
    for seed in range(1000, 1100):
        tr = Tracer(sample_seed=seed)
        v = sym_array(tr, "v", (nverts, 3))
        p = np.array([[tr.val[v[i, c].id] for c in range(3)] for i in range(nverts)])
        det = np.dot(np.cross(p[1] - p[0], p[2] - p[0]), p[3] - p[0])
        if abs(det) > 0.05 and (det > 0) == positive:
            return tr, v
    raise RuntimeError("no sample found")


def gen_diffgeo():
    import lapy.diffgeo as D
    written = []
    names = v3_names("v", 3)
    # ---- triangle gradient / divergences
    tr = Tracer()
    v = sym_array(tr, "v", (3, 3))
    f = sym_array(tr, "f", (3,))
    X = sym_array(tr, "X", (1, 3))
    mesh = types.SimpleNamespace(v=v, t=np.array([[0, 1, 2]]))
    nm = dict(names)
    nm.update({"f%d" % k: "f%d" % k for k in range(3)})
    nm.update({"X0_%d" % c: "X.%s" % AX[c] for c in range(3)})
    with shim(D):
        grad = D.tria_compute_gradient(mesh, f)
        div = D.tria_compute_divergence(mesh, X)
        div2 = D.tria_compute_divergence2(mesh, X)
    g = GenModule("DiffTri", "lapy/diffgeo.py::tria_compute_gradient/divergence/divergence2",
                  "(v0 v1 v2 : V3 ℝ) (f0 f1 f2 : ℝ) (X : V3 ℝ)")
    g.set_args("v0 v1 v2 f0 f1 f2 X")
    g.pc(tr, nm)
    g.vec("grad", tr, [as_sym(tr, x) for x in np.asarray(grad).reshape(-1)], nm)
    g.vec("div", tr, [as_sym(tr, x) for x in np.asarray(div).reshape(-1)], nm)
    g.vec("div2", tr, [as_sym(tr, x) for x in np.asarray(div2).reshape(-1)], nm)
    written.append(g.write())
    # ---- tetra gradient / divergence, one module per orientation of the sample element
    names4 = v3_names("v", 4)
    for positive, modname in ((True, "DiffTetPos"), (False, "DiffTetNeg")):
        tr, v = _tracer_with_orientation(positive)
        f = sym_array(tr, "f", (4,))
        X = sym_array(tr, "X", (1, 3))
        mesh = types.SimpleNamespace(v=v, t=np.array([[0, 1, 2, 3]]))
        nm = dict(names4)
        nm.update({"f%d" % k: "f%d" % k for k in range(4)})
        nm.update({"X0_%d" % c: "X.%s" % AX[c] for c in range(3)})
        with shim(D):
            grad = D.tet_compute_gradient(mesh, f)
            div = D.tet_compute_divergence(mesh, X)
        g = GenModule(modname, "lapy/diffgeo.py::tet_compute_gradient/divergence (sample element %s oriented)" % (
            "positively" if positive else "negatively"), "(v0 v1 v2 v3 : V3 ℝ) (f0 f1 f2 f3 : ℝ) (X : V3 ℝ)")
        g.set_args("v0 v1 v2 v3 f0 f1 f2 f3 X")
        g.pc(tr, nm)
        g.vec("grad", tr, [as_sym(tr, x) for x in np.asarray(grad).reshape(-1)], nm)
        g.vec("div", tr, [as_sym(tr, x) for x in np.asarray(div).reshape(-1)], nm)
        written.append(g.write())
    return written


# ---------------------------------------------------------------- measures of tria_mesh.py (real TriaMesh, symbolic vertices)

def gen_measures():
    """tria_areas, area, volume, tria_normals, tria_qualities, centroid, normalize_ traced on the boundary of a
    tetrahedron (4 triangles, closed, oriented) with generic symbolic coordinates"""
    import lapy.tria_mesh as TM
    tr = Tracer()
    NpProxy.tracer = tr
    v = sym_array(tr, "v", (4, 3))
    t = np.array([[0, 1, 2], [0, 3, 1], [0, 2, 3], [1, 3, 2]])
    names = v3_names("v", 4)
    written = []
    with shim(TM, np_proxy=True):
        # the sparse shim must not replace the adjacency construction: build the mesh with the real scipy
        pass
    m = TM.TriaMesh(v, t)
    saved_np = TM.np
    TM.np = NpProxy()
    try:
        areas = m.tria_areas()
        area = m.area()
        vol = m.volume()
        normals = m.tria_normals()
        qual = m.tria_qualities()
        cen, tot = m.centroid()
        m2 = TM.TriaMesh(v, t)
        m2.normalize_()
        vnorm = m2.v
    finally:
        TM.np = saved_np
        NpProxy.tracer = None
    g = GenModule("Measures", "lapy/tria_mesh.py::tria_areas/area/volume/tria_normals/tria_qualities/centroid/normalize_ "
                  "on the tetrahedron boundary [[0,1,2],[0,3,1],[0,2,3],[1,3,2]]", "(v0 v1 v2 v3 : V3 ℝ)")
    g.pc(tr, names)
    g.vec("areas", tr, [as_sym(tr, x) for x in areas], names)
    g.scalar("area", tr, as_sym(tr, area).id, names)
    g.scalar("volume", tr, as_sym(tr, vol).id, names)
    g.vec("normal0", tr, [as_sym(tr, x) for x in normals[0]], names)
    g.vec("qualities", tr, [as_sym(tr, x) for x in qual], names)
    g.vec("centroid", tr, [as_sym(tr, x) for x in cen], names)
    g.scalar("total", tr, as_sym(tr, tot).id, names)
    g.vec("normalized0", tr, [as_sym(tr, x) for x in vnorm[0]], names)
    written.append(g.write())
    return written


# ---------------------------------------------------------------- vertex-based measures and function transfer (tria_mesh.py)

T4 = [[0, 1, 2], [0, 3, 1], [0, 2, 3], [1, 3, 2]]


@contextlib.contextmanager
def np_proxied(module, tr):
    saved = module.np
    module.np = NpProxy()
    NpProxy.tracer = tr
    try:
        yield
    finally:
        module.np = saved
        NpProxy.tracer = None


def flat_syms(tr, arr):
    return [as_sym(tr, x) for x in np.asarray(arr, dtype=object).reshape(-1)]


def gen_vertex_measures():
    """vertex_areas, avg_edge_length, vertex_normals, normal_offset_ traced on the boundary of a generic tetrahedron"""
    import lapy.tria_mesh as TM
    tr = Tracer()
    v = sym_array(tr, "v", (4, 3))
    t = np.array(T4)
    names = v3_names("v", 4)
    names["d"] = "d"
    m = TM.TriaMesh(v, t)
    with np_proxied(TM, tr):
        vareas = m.vertex_areas()
        avg = m.avg_edge_length()
        vn = m.vertex_normals()
        m2 = TM.TriaMesh(v, t)
        m2.normal_offset_(tr.var("d"))
        off = m2.v
    g = GenModule("VertexMeasures", "lapy/tria_mesh.py::vertex_areas/avg_edge_length/vertex_normals/normal_offset_ "
                  "on the tetrahedron boundary [[0,1,2],[0,3,1],[0,2,3],[1,3,2]]", "(v0 v1 v2 v3 : V3 ℝ) (d : ℝ)")
    g.set_args("v0 v1 v2 v3 d")
    g.pc(tr, names)
    g.vec("vareas", tr, flat_syms(tr, vareas), names)
    g.scalar("avg", tr, as_sym(tr, avg).id, names)
    g.vec("vnormal0", tr, flat_syms(tr, vn[0]), names)
    g.vec("vnormal3", tr, flat_syms(tr, vn[3]), names)
    g.vec("offset0", tr, flat_syms(tr, off[0]), names)
    return [g.write()]


def gen_transfer():
    """map_tfunc_to_vfunc (plain / weighted) and map_vfunc_to_tfunc traced on the tetrahedron boundary, two columns"""
    import lapy.tria_mesh as TM
    tr = Tracer()
    v = sym_array(tr, "v", (4, 3))
    t = np.array(T4)
    names = v3_names("v", 4)
    f = sym_array(tr, "f", (4, 2))
    names.update({"f%d_%d" % (k, c): "f%d%d" % (k, c) for k in range(4) for c in range(2)})
    m = TM.TriaMesh(v, t)
    with np_proxied(TM, tr):
        t2v = m.map_tfunc_to_vfunc(f)
        t2vw = m.map_tfunc_to_vfunc(f, weighted=True)
        v2t = m.map_vfunc_to_tfunc(f)
        t2v1 = m.map_tfunc_to_vfunc(f[:, 0])
    fb = " ".join("f%d%d" % (k, c) for k in range(4) for c in range(2))
    g = GenModule("TransferTri", "lapy/tria_mesh.py::map_tfunc_to_vfunc/map_vfunc_to_tfunc on the tetrahedron boundary, "
                  "function with two columns", "(v0 v1 v2 v3 : V3 ℝ) (%s : ℝ)" % fb)
    g.set_args("v0 v1 v2 v3 " + fb)
    g.pc(tr, names)
    g.vec("t2v", tr, flat_syms(tr, t2v), names)
    g.vec("t2vw", tr, flat_syms(tr, t2vw), names)
    g.vec("v2t", tr, flat_syms(tr, v2t), names)
    g.vec("t2v1", tr, flat_syms(tr, t2v1), names)
    return [g.write()]


def gen_heat():
    """heat.kernel / heat.diagonal on symbolic spectra: 3 vertices, 3 eigenpairs of which n = 2 are used, 2 times"""
    import lapy.heat as H
    tr = Tracer()
    E = sym_array(tr, "e", (3, 3))
    lam = sym_array(tr, "l", (3,))
    ts = sym_array(tr, "t", (2,))
    names = {"e%d_%d" % (i, j): "e%d%d" % (i, j) for i in range(3) for j in range(3)}
    names.update({"l%d" % j: "l%d" % j for j in range(3)})
    names.update({"t%d" % j: "t%d" % j for j in range(2)})
    k = H.kernel(ts, 1, E, lam, 2)
    dg = H.diagonal(ts, np.array([2, 0]), E, lam, 2)
    k1 = H.kernel(ts[0], 0, E, lam, 3)
    eb = " ".join("e%d%d" % (i, j) for i in range(3) for j in range(3))
    g = GenModule("HeatKernel", "lapy/heat.py::kernel/diagonal (3 vertices, 3 eigenpairs, n = 2, two times; scalar time, n = 3)",
                  "(%s l0 l1 l2 t0 t1 : ℝ)" % eb)
    g.set_args(eb + " l0 l1 l2 t0 t1")
    g.pc(tr, names)
    g.vec("kernel", tr, flat_syms(tr, k), names)
    g.vec("diagonal", tr, flat_syms(tr, dg), names)
    g.vec("kernel1", tr, flat_syms(tr, k1), names)
    return [g.write()]


def gen_misc():
    """inverse_stereographic (two-column input), reweight_ev, TetMesh.avg_edge_length (one tetrahedron)"""
    import lapy.conformal as CF
    import lapy.shapedna as SD
    import lapy.tet_mesh as TT
    tr = Tracer()
    w = sym_array(tr, "w", (1, 2))
    ev = sym_array(tr, "l", (4,))
    v = sym_array(tr, "v", (4, 3))
    names = v3_names("v", 4)
    names.update({"w0_0": "x", "w0_1": "y"})
    names.update({"l%d" % j: "l%d" % j for j in range(4)})
    inv = CF.inverse_stereographic(w)
    rw = SD.reweight_ev(ev)
    tm = TT.TetMesh(v, np.array([[0, 1, 2, 3]]))
    with np_proxied(TT, tr):
        avg = tm.avg_edge_length()
    g = GenModule("Misc", "lapy/conformal.py::inverse_stereographic, lapy/shapedna.py::reweight_ev, "
                  "lapy/tet_mesh.py::TetMesh.avg_edge_length", "(v0 v1 v2 v3 : V3 ℝ) (x y l0 l1 l2 l3 : ℝ)")
    g.set_args("v0 v1 v2 v3 x y l0 l1 l2 l3")
    g.pc(tr, names)
    g.vec("invstereo", tr, flat_syms(tr, inv), names)
    g.vec("reweight", tr, flat_syms(tr, rw), names)
    g.scalar("tetavg", tr, as_sym(tr, avg).id, names)
    return [g.write()]


def gen_level():
    """level_length traced on the tetrahedron boundary for two crossing patterns (concolic samples): A — vertex 0 alone above the
    level (three crossed triangles, one flag each); B — vertices 0, 1 above (four crossed triangles, two of them through the
    'invert the flags' branch)"""
    import lapy.tria_mesh as TM
    g = GenModule("LevelLength", "lapy/tria_mesh.py::level_length on the tetrahedron boundary [[0,1,2],[0,3,1],[0,2,3],[1,3,2]], "
                  "two crossing patterns", "(v0 v1 v2 v3 : V3 ℝ) (f0 f1 f2 f3 lev : ℝ)")
    g.set_args("v0 v1 v2 v3 f0 f1 f2 f3 lev")
    for tag, samp in (("A", {"f0": 0.9, "f1": -0.2, "f2": -0.5, "f3": -0.7, "lev": 0.1}),
                      ("B", {"f0": 0.9, "f1": 0.6, "f2": -0.5, "f3": -0.7, "lev": 0.1})):
        tr = Tracer(sample=samp)
        v = sym_array(tr, "v", (4, 3))
        f = sym_array(tr, "f", (4,))
        lev = tr.var("lev")
        names = v3_names("v", 4)
        names.update({"f%d" % k: "f%d" % k for k in range(4)})
        names["lev"] = "lev"
        m = TM.TriaMesh(v, np.array(T4))
        with np_proxied(TM, tr):
            ll = m.level_length(f, lev)
            ll2 = m.level_length(f, np.array([lev, lev], dtype=object))
        g.pc(tr, names, nm="pc" + tag)
        g.scalar("len" + tag, tr, as_sym(tr, ll).id, names)
        g.vec("lens" + tag, tr, flat_syms(tr, ll2), names)
    return [g.write()]


def gen_solver_aniso():
    """`Solver.__init__` for a triangle mesh with `aniso=(a0, a1)` and with a scalar `aniso`, given a symbolic per-triangle output
    `(u1, u2, c1, c2)` of `curvature_tria` (external here: its eigen-decomposition is C17's subject): dispatch on the type name, the
    weights `exp(-a*|c|)`, the column they are written to, the call of `_fem_tria_aniso` and the `lump` flag passed on"""
    import lapy.solver as S
    written = []
    tr = Tracer()
    v = sym_array(tr, "v", (3, 3))
    u1 = sym_array(tr, "a", (1, 3))
    u2 = sym_array(tr, "b", (1, 3))
    c1 = sym_array(tr, "c", (1,))
    c2 = sym_array(tr, "e", (1,))
    a0, a1 = tr.var("a0"), tr.var("a1")
    names = v3_names("v", 3)
    names.update({"a0_%d" % c: "u1.%s" % AX[c] for c in range(3)})
    names.update({"b0_%d" % c: "u2.%s" % AX[c] for c in range(3)})
    names.update({"c0": "c1", "e0": "c2", "a0": "a0", "a1": "a1"})

    class TriaMesh:          # `Solver.__init__` dispatches on the NAME of the geometry's type
        def __init__(self):
            self.v = v
            self.t = np.array([[0, 1, 2]])
            self.smooth_seen = []

        def curvature_tria(self, smoothit=3):
            self.smooth_seen.append(smoothit)
            return u1, u2, c1, c2

    out = {}
    with shim(S), core_quiet():
        with np_proxied(S, tr):
            for tag, an, lump in (("pair", (a0, a1), False), ("scalar", a0, False), ("pairL", [a0, a1], True)):
                g0 = TriaMesh()
                s = S.Solver(g0, lump=lump, aniso=an, aniso_smooth=7)
                out[tag] = (s.stiffness, s.mass, list(g0.smooth_seen))
    g = GenModule("SolverAniso", "lapy/solver.py::Solver.__init__ (TriaMesh, aniso) given the output of curvature_tria",
                  "(v0 v1 v2 u1 u2 : V3 ℝ) (c1 c2 a0 a1 : ℝ)")
    g.set_args("v0 v1 v2 u1 u2 c1 c2 a0 a1")
    g.pc(tr, names)
    g.coo("A", tr, out["pair"][0].trip, names)
    g.coo("B", tr, out["pair"][1].trip, names)
    g.coo("As", tr, out["scalar"][0].trip, names)
    g.coo("AL", tr, out["pairL"][0].trip, names)
    g.coo("BL", tr, out["pairL"][1].trip, names)
    g.raw("/-- the `smoothit` values handed to `curvature_tria` by the three constructor calls (`aniso_smooth = 7`) -/")
    g.raw("def smoothSeen : List (List Nat) := [%s]\n" % ", ".join("[%s]" % ", ".join(str(int(x)) for x in out[k][2]) for k in ("pair", "scalar", "pairL")))
    written.append(g.write())
    return written


@contextlib.contextmanager
def core_quiet():
    from . import core
    with core.quiet():
        yield


def gen_curv_tria():
    """`curvature_tria` given a symbolic per-vertex output of `curvature()` (external here: LAPACK's eigen-decomposition and its
    post-processing are C17's other half): pooling to triangles, projection onto the triangle plane, normalisation with the
    `max(., 1e-8)` floors, second direction by a cross product; traced on the tetrahedron boundary, reported for triangle 0"""
    import lapy.tria_mesh as TM
    tr = Tracer()
    v = sym_array(tr, "v", (4, 3))
    um = sym_array(tr, "p", (4, 3))
    uM = sym_array(tr, "q", (4, 3))
    cm = sym_array(tr, "c", (4,))
    cM = sym_array(tr, "e", (4,))
    names = v3_names("v", 4)
    names.update(v3_names("p", 4))
    names.update(v3_names("q", 4))
    names.update({"c%d" % k: "c%d" % k for k in range(4)})
    names.update({"e%d" % k: "e%d" % k for k in range(4)})
    m = TM.TriaMesh(v, np.array(T4))
    seen = []

    def curv(smoothit=3):
        seen.append(int(smoothit))
        return um, uM, cm, cM, None, None, None
    m.curvature = curv
    with np_proxied(TM, tr):
        tumin, tumax, tcmin, tcmax = m.curvature_tria(5)
    g = GenModule("CurvTria", "lapy/tria_mesh.py::curvature_tria given the output of curvature(), tetrahedron boundary, triangle 0",
                  "(v0 v1 v2 v3 p0 p1 p2 p3 q0 q1 q2 q3 : V3 ℝ) (c0 c1 c2 c3 e0 e1 e2 e3 : ℝ)")
    g.set_args("v0 v1 v2 v3 p0 p1 p2 p3 q0 q1 q2 q3 c0 c1 c2 c3 e0 e1 e2 e3")
    g.pc(tr, names)
    g.vec("umin0", tr, flat_syms(tr, tumin[0]), names)
    g.vec("umax0", tr, flat_syms(tr, tumax[0]), names)
    g.scalar("cmin0", tr, as_sym(tr, tcmin[0]).id, names)
    g.scalar("cmax0", tr, as_sym(tr, tcmax[0]).id, names)
    g.raw("def smoothSeen : List Nat := [%s]\n" % ", ".join(str(x) for x in seen))
    return [g.write()]


# ---------------------------------------------------------------- Solver.poisson: glue around the sparse solve

class SymVec(np.ndarray):
    """dense object array of expressions; `astype` is the identity (the float32 cast of the right-hand side is rounding, which the
    real-number model does not see)"""

    def astype(self, *a, **k):
        return self


class SymMat:
    """stand-in for a scipy sparse matrix holding expressions (dense storage): the operations `poisson` uses"""
    __array_ufunc__ = None

    def __init__(self, M, fmt="csc"):
        self.M = np.asarray(M, dtype=object)
        self.fmt = fmt
        self.shape = self.M.shape

    @classmethod
    def from_coo(cls, arg, shape=None, dtype=None):
        data, (i, j) = arg
        tr = NpProxy.tracer
        M = np.empty(shape, dtype=object)
        for idx in np.ndindex(*shape):
            M[idx] = tr.lift(0)
        seen = set()
        for a, b, d in zip(np.asarray(i).reshape(-1), np.asarray(j).reshape(-1), np.asarray(data, dtype=object).reshape(-1)):
            key = (int(a), int(b))
            M[key] = (M[key] + d) if key in seen else as_sym(tr, d)
            seen.add(key)
        return cls(M)

    def getformat(self):
        return self.fmt

    def tocsr(self):
        return SymMat(self.M, "csr")

    def tocsc(self):
        return SymMat(self.M, "csc")

    def _matmul(self, X):
        n, m = self.M.shape
        X2 = X.reshape(m, -1)
        out = np.empty((n, X2.shape[1]), dtype=object)
        for r in range(n):
            for c in range(X2.shape[1]):
                acc = None
                for k in range(m):
                    term = self.M[r, k] * X2[k, c]
                    acc = term if acc is None else acc + term
                out[r, c] = acc
        return out

    def __mul__(self, other):
        if isinstance(other, SymMat):
            return SymMat(self._matmul(other.M), self.fmt)
        other = np.asarray(other, dtype=object)
        out = self._matmul(other)
        return (out if other.ndim == 2 else out.reshape(-1)).view(SymVec)

    def dot(self, other):
        return self.__mul__(other)

    def __rsub__(self, other):           # dense - sparse  (scipy returns a dense matrix)
        return (np.asarray(other, dtype=object) - self.M).view(SymVec)

    def __getitem__(self, key):
        return SymMat(self.M[key], self.fmt)


class _LU:
    def __init__(self, rec, a):
        self.rec = rec
        rec["a"] = a

    def solve(self, b):
        self.rec["b"] = b
        tr = NpProxy.tracer
        x = np.empty(np.shape(b), dtype=object)
        for k, idx in enumerate(np.ndindex(*x.shape)):
            x[idx] = tr.var("x%d" % k)
        return x


def gen_poisson():
    """`Solver.poisson` on symbolic 4x4 matrices A, B: (i) Dirichlet data at the unsorted indices [2, 0] and Neumann data at [3, 2];
    (ii) Neumann data only (no elimination).  The matrix and right-hand side handed to `splu(...).solve` and the vector returned for
    a symbolic solver output x are emitted."""
    import lapy.solver as S
    import scipy.sparse.linalg as SL
    tr = Tracer()
    NpProxy.tracer = tr
    A = sym_array(tr, "a", (4, 4))
    B = sym_array(tr, "b", (4, 4))
    h = sym_array(tr, "h", (4,))
    d = sym_array(tr, "d", (2,))
    nv = sym_array(tr, "n", (2,))
    names = {"a%d_%d" % (i, j): "a%d%d" % (i, j) for i in range(4) for j in range(4)}
    names.update({"b%d_%d" % (i, j): "b%d%d" % (i, j) for i in range(4) for j in range(4)})
    names.update({"h%d" % i: "h%d" % i for i in range(4)})
    names.update({"d0": "d0", "d1": "d1", "n0": "n0", "n1": "n1"})
    names.update({"x%d" % i: "x%d" % i for i in range(4)})
    for i in range(4):
        tr.var("x%d" % i)
    s = S.Solver.__new__(S.Solver)
    s.stiffness = SymMat(A)
    s.mass = SymMat(B)
    s.use_cholmod = False
    rec1, rec2 = {}, {}
    saved_splu = SL.splu
    saved_sparse = S.sparse
    S.sparse = types.SimpleNamespace(csc_matrix=SymMat.from_coo, csr_matrix=SymMat.from_coo)
    try:
        with np_proxied(S, tr), core_quiet():
            SL.splu = lambda a: _LU(rec1, a)
            x1 = s.poisson(h, (np.array([2, 0]), d), (np.array([3, 2]), nv))
            SL.splu = lambda a: _LU(rec2, a)
            x2 = s.poisson(h, (), (np.array([3, 2]), nv))
    finally:
        SL.splu = saved_splu
        S.sparse = saved_sparse
        NpProxy.tracer = None
    ab = " ".join("a%d%d" % (i, j) for i in range(4) for j in range(4))
    bb = " ".join("b%d%d" % (i, j) for i in range(4) for j in range(4))
    g = GenModule("PoissonSys", "lapy/solver.py::Solver.poisson on symbolic 4x4 matrices (Dirichlet at [2,0] + Neumann at [3,2]; Neumann only)",
                  "(%s %s h0 h1 h2 h3 d0 d1 n0 n1 x0 x1 x2 x3 : ℝ)" % (ab, bb))
    g.set_args("%s %s h0 h1 h2 h3 d0 d1 n0 n1 x0 x1 x2 x3" % (ab, bb))
    g.pc(tr, names)

    def coo_of(M):
        return [(i, j, as_sym(tr, M[i, j])) for i in range(M.shape[0]) for j in range(M.shape[1])]
    g.coo("sysA", tr, coo_of(rec1["a"].M), names)
    g.vec("sysB", tr, flat_syms(tr, rec1["b"]), names)
    g.vec("result", tr, flat_syms(tr, x1), names)
    g.coo("sysA2", tr, coo_of(rec2["a"].M), names)
    g.vec("sysB2", tr, flat_syms(tr, rec2["b"]), names)
    g.vec("result2", tr, flat_syms(tr, x2), names)
    g.raw("def fmtA : String := \"%s\"\n" % rec1["a"].getformat())
    return [g.write()]


def _symmat_arith():
    """sparse +, -, scalar * for the stand-in (what `eigs` and `diffusion` use)"""
    def add(self, other):
        return SymMat(self.M + other.M, self.fmt)

    def sub(self, other):
        return SymMat(self.M - other.M, self.fmt)

    def rmul(self, c):
        return SymMat(c * self.M, self.fmt)
    SymMat.__add__ = add
    SymMat.__sub__ = sub
    SymMat.__rmul__ = rmul
    SymMat.dtype = np.dtype("float64")


_symmat_arith()


def gen_solver_glue():
    """`Solver.eigs` and `heat.diffusion` on symbolic 3x3 matrices: what is factorised, what is handed to `eigsh` / `solve`, what
    is returned (the external kernels are replaced by recorders that return fresh symbols)"""
    import lapy
    import lapy.solver as S
    import lapy.heat as H
    import scipy.sparse.linalg as SL
    tr = Tracer()
    NpProxy.tracer = tr
    A = sym_array(tr, "a", (3, 3))
    B = sym_array(tr, "b", (3, 3))
    names = {"a%d_%d" % (i, j): "a%d%d" % (i, j) for i in range(3) for j in range(3)}
    names.update({"b%d_%d" % (i, j): "b%d%d" % (i, j) for i in range(3) for j in range(3)})
    names.update({"m": "m", "ell": "ell"})
    s = S.Solver.__new__(S.Solver)
    s.stiffness = SymMat(A)
    s.mass = SymMat(B)
    s.use_cholmod = False
    rec, call = {}, {}
    saved = (SL.splu, SL.eigsh, lapy.Solver)
    # what the recorder hands back as "ARPACK output": ordinary arrays (so that any post-processing in `eigs` runs), among them a tiny
    # positive eigenvalue and a tiny negative one (round-off of a zero eigenvalue)
    ret_vals = np.array([-2.0e-15, 3.0e-9, 0.5])
    ret_vecs = np.arange(9.0).reshape(3, 3) * 0.37 - 1.0
    saved_vals, saved_vecs = ret_vals.copy(), ret_vecs.copy()

    def fake_eigsh(*args, **kw):
        call["args"] = args
        call["kw"] = kw
        return ret_vals, ret_vecs

    class FakeGeometry:
        def __init__(self):
            self.v = np.zeros((3, 3))

        def avg_edge_length(self):
            return tr.var("ell")

    made = {}

    def fake_solver(geometry, lump=False, aniso=None, **kw):
        made["geometry"] = geometry
        made["lump"] = lump
        made["aniso"] = aniso
        made["extra"] = sorted(kw)
        return s

    rec2 = {}
    try:
        with core_quiet():
            SL.splu = lambda a: _LU(rec, a)
            SL.eigsh = fake_eigsh
            out = s.eigs(k=2)
            # --- diffusion
            SL.splu = lambda a: _LU(rec2, a)
            lapy.Solver = fake_solver
            geo = FakeGeometry()
            with np_proxied(H, tr):
                u = H.diffusion(geo, [2, 0], m=tr.var("m"), aniso=5)
    finally:
        SL.splu, SL.eigsh, lapy.Solver = saved
        NpProxy.tracer = None
    ka = call.get("args", ())
    kw = call.get("kw", {})
    op = kw.get("OPinv")
    facts = [
        ("eigsh.A is self.stiffness", len(ka) > 0 and ka[0] is s.stiffness),
        ("eigsh.k is k", len(ka) > 1 and ka[1] == 2),
        ("eigsh.M is self.mass", len(ka) > 2 and ka[2] is s.mass),
        ("eigsh positional args = 3", len(ka) == 3),
        ("eigsh keywords = OPinv, sigma", sorted(kw) == ["OPinv", "sigma"]),
        ("OPinv.matvec is lu.solve", op is not None and isinstance(getattr(getattr(op, "_CustomLinearOperator__matvec_impl", None), "__self__", None), _LU)
         and getattr(op, "_CustomLinearOperator__matvec_impl").__func__ is _LU.solve and getattr(op, "_CustomLinearOperator__matvec_impl").__self__.rec is rec),
        ("OPinv.shape = shape of A", op is not None and tuple(op.shape) == (3, 3)),
        ("eigs returns eigsh's output unchanged", isinstance(out, tuple) and len(out) == 2 and np.array_equal(np.asarray(out[0]), saved_vals)
         and np.array_equal(np.asarray(out[1]), saved_vecs)),
        ("diffusion: Solver(geometry, lump=True, aniso=aniso)", made.get("geometry") is geo and made.get("lump") is True and made.get("aniso") == 5 and made.get("extra") == []),
        ("diffusion returns the solver output unchanged", isinstance(u, np.ndarray) and [getattr(x, "id", None) for x in u.reshape(-1)] ==
         [tr.var("x%d" % i).id for i in range(3)]),
        ("diffusion: matrix format csc", rec2["a"].getformat() == "csc"),
    ]
    sig = kw.get("sigma")
    ab = " ".join("a%d%d" % (i, j) for i in range(3) for j in range(3))
    bb = " ".join("b%d%d" % (i, j) for i in range(3) for j in range(3))
    g = GenModule("SolverGlue", "lapy/solver.py::Solver.eigs and lapy/heat.py::diffusion on symbolic 3x3 matrices (external kernels recorded)",
                  "(%s %s m ell : ℝ)" % (ab, bb))
    g.set_args("%s %s m ell" % (ab, bb))
    g.pc(tr, names)

    def coo_of(M):
        return [(i, j, as_sym(tr, M[i, j])) for i in range(M.shape[0]) for j in range(M.shape[1])]
    g.coo("shifted", tr, coo_of(rec["a"].M), names)
    g.scalar("sigma", tr, as_sym(tr, sig).id, names)
    g.coo("heatMat", tr, coo_of(rec2["a"].M), names)
    g.vec("heatRhs", tr, flat_syms(tr, rec2["b"]), names)
    g.raw("/-- facts about the calls of the external kernels observed while tracing -/")
    g.raw("def callFacts : List (String × Bool) := [%s]\n" % ", ".join('("%s", %s)' % (n, "true" if v else "false") for n, v in facts))
    return [g.write()]


def gen_flow():
    """`tria_mean_curvature_flow` as a protocol: the mesh class, the Solver and `spsolve` are replaced by recorders working on symbols
    (4 vertices, `max_iter = 2`, symbolic `step` / `stop_eps`; concolic sample: the first `diff` is above `stop_eps`, the second below).
    Emitted: the order of the calls, both linear systems, the stopping quantity, what is returned."""
    import lapy.diffgeo as D
    import scipy.sparse.linalg as SL
    tr = Tracer(sample={"stop": 1e-7})
    NpProxy.tracer = tr
    nv = 4
    events = []
    counter = {"w": 0, "y": 0, "m": 0}
    names = {"step": "step", "stop": "stop"}
    A = sym_array(tr, "a", (nv, nv))
    names.update({"a%d_%d" % (i, j): "a%d%d" % (i, j) for i in range(nv) for j in range(nv)})

    def fresh(prefix, shape, sample_scale):
        k = counter[prefix]
        counter[prefix] += 1
        out = np.empty(shape, dtype=object)
        for idx in np.ndindex(*shape):
            nm = "%s%d_%s" % (prefix, k, "_".join(str(x) for x in idx))
            if prefix == "w" and k >= 2:       # the iterate after the second step nearly repeats the previous one: the concolic run stops there
                tr.sample[nm] = tr.sample["w%d_%s" % (k - 1, "_".join(str(x) for x in idx))] + 1e-9
            else:
                tr.sample[nm] = sample_scale * (0.3 + (0.37 * len(tr.sample)) % 0.6)
            out[idx] = tr.var(nm)
            names[nm] = "%s%d%s" % (prefix, k, "".join(str(x) for x in idx))
        return out

    class StubMesh:
        def __init__(self, v, t, fsinfo=None):
            self.v = v
            self.t = t
            events.append("mesh(v, t) constructed from the argument's arrays" if v is v_in and t is t_in else "mesh constructed from other arrays")

        def normalize_(self):
            events.append("normalize_")
            # second normalisation result close to the first: the concolic run stops after iteration 2
            self.v = fresh("w", (nv, 3), 1.0)

    class StubSolver:
        def __init__(self, geometry, lump=False, **kw):
            events.append("Solver(normalised mesh, lump=%s%s)" % (lump, "".join(", %s" % k for k in sorted(kw))) if isinstance(geometry, StubMesh) and counter["w"] == 1
                          else "Solver(other)")
            self.stiffness = SymMat(A)

        @staticmethod
        def fem_tria_mass(geometry, lump=False):
            events.append("fem_tria_mass(current mesh, lump=%s)" % lump)
            d = fresh("m", (nv,), 1.0)
            M = np.empty((nv, nv), dtype=object)
            for i in range(nv):
                for j in range(nv):
                    M[i, j] = d[i] if i == j else tr.lift(0)
            return SymMat(M)

    systems = []

    def fake_spsolve(a, b):
        events.append("spsolve")
        systems.append((a, b))
        return fresh("y", (nv, 3), 1.0)

    v_in = sym_array(tr, "v", (nv, 3))
    t_in = np.array(T4)
    arg = types.SimpleNamespace(v=v_in, t=t_in)
    saved = (D.TriaMesh, D.Solver, SL.spsolve)
    D.TriaMesh, D.Solver, SL.spsolve = StubMesh, StubSolver, fake_spsolve
    diffs = []
    real_trace = np.trace
    try:
        with np_proxied(D, tr), core_quiet():
            NpProxy.trace_hook = lambda x: (diffs.append(x), x)[1]
            out = D.tria_mean_curvature_flow(arg, max_iter=3, step=tr.var("step"), stop_eps=tr.var("stop"))
    finally:
        D.TriaMesh, D.Solver, SL.spsolve = saved
        NpProxy.tracer = None
        NpProxy.trace_hook = None
    events.append("returns the working mesh" if isinstance(out, StubMesh) else "returns something else")
    events.append("argument arrays untouched" if arg.v is v_in and arg.t is t_in else "argument modified")
    allnames = sorted(set(names.values()), key=lambda s: (len(s), s))
    binder = "(%s : ℝ)" % " ".join(allnames)
    g = GenModule("FlowGlue", "lapy/diffgeo.py::tria_mean_curvature_flow with recorded mesh / Solver / spsolve (4 vertices, two iterations)", binder)
    g.set_args(" ".join(allnames))
    g.pc(tr, names)

    def coo_of(M):
        return [(i, j, as_sym(tr, M[i, j])) for i in range(M.shape[0]) for j in range(M.shape[1])]
    for k, (a, b) in enumerate(systems):
        g.coo("sysA%d" % (k + 1), tr, coo_of(a.M), names)
        g.vec("sysB%d" % (k + 1), tr, flat_syms(tr, b), names)
    for k, dsym in enumerate(diffs):
        g.scalar("diff%d" % (k + 1), tr, as_sym(tr, dsym).id, names)
    g.raw("def events : List String := [%s]\n" % ", ".join('"%s"' % e for e in events))
    g.raw("def nSystems : Nat := %d\n" % len(systems))
    return [g.write()]


def gen_geo_glue():
    """`compute_geodesic_f`, `tria_compute_geodesic_f`, `tria_compute_rotated_f` as protocols: gradient / divergence / Solver replaced by
    recorders on symbols (2 elements, 3 vertices): what is handed to the divergence, how the Solver is built, what `poisson` receives,
    what is returned."""
    import lapy.diffgeo as D
    tr = Tracer(sample={"x0": 0.4, "x1": -0.3, "x2": 0.9})
    NpProxy.tracer = tr
    G = sym_array(tr, "g", (2, 3))
    TN = sym_array(tr, "n", (2, 3))
    names = v3_names("g", 2)
    names.update(v3_names("n", 2))
    names.update({"x%d" % i: "x%d" % i for i in range(3)})
    for i in range(3):
        tr.var("x%d" % i)
    log = {}

    class Geom:
        v = np.zeros((3, 3))
        t = np.array([[0, 1, 2], [0, 2, 1]])

        def tria_normals(self):
            return TN

    def make(tag):
        rec = dict(events=[])
        divout = np.array([tr.lift(0)] * 3, dtype=object)     # opaque: identity of the object is what is checked

        def grad(geom, vfunc):
            rec["events"].append("gradient(geom, vfunc)" if geom is geo and vfunc is vf_in else "gradient(other)")
            return G

        def div(geom, field):
            rec["events"].append("divergence(geom, field)" if geom is geo else "divergence(other)")
            rec["field"] = field
            return divout

        class StubSolver:
            def __init__(self, geometry, lump=False, **kw):
                rec["events"].append("Solver(geom, lump=%s%s)" % (lump, "".join(", " + k for k in sorted(kw))) if geometry is geo else "Solver(other)")
                self.stiffness = SymMat(sym_array(tr, "a", (3, 3)))
                self.mass = "assembled"

            def poisson(self, h=0.0, dtup=(), ntup=()):
                rec["events"].append("poisson")
                rec["h_is_div"] = h is divout
                rec["dtup"] = dtup
                rec["ntup"] = ntup
                rec["mass"] = self.mass
                return np.array([tr.var("x%d" % i) for i in range(3)], dtype=object)
        return rec, grad, div, StubSolver

    geo = Geom()
    vf_in = np.array([1.0, 2.0, 3.0])
    saved = {k: getattr(D, k) for k in ("compute_gradient", "compute_divergence", "tria_compute_gradient", "tria_compute_divergence", "Solver", "sparse")}
    eye_calls = []

    def fake_eye(n, *a, **k):
        eye_calls.append(int(n))
        return "identity(%d)" % int(n)
    out = {}
    try:
        with np_proxied(D, tr), core_quiet():
            D.sparse = types.SimpleNamespace(eye=fake_eye)
            for tag, fn, gname, dname in (("geo", "compute_geodesic_f", "compute_gradient", "compute_divergence"),
                                          ("tgeo", "tria_compute_geodesic_f", "tria_compute_gradient", "tria_compute_divergence"),
                                          ("rot", "tria_compute_rotated_f", "tria_compute_gradient", "tria_compute_divergence")):
                rec, grad, div, stub = make(tag)
                setattr(D, gname, grad)
                setattr(D, dname, div)
                D.Solver = stub
                res = getattr(D, fn)(geo, vf_in)
                for k, v in saved.items():
                    if k != "sparse":
                        setattr(D, k, v)
                rec["result"] = res
                log[tag] = rec
    finally:
        for k, v in saved.items():
            setattr(D, k, v)
        NpProxy.tracer = None
    g = GenModule("GeoGlue", "lapy/diffgeo.py::compute_geodesic_f / tria_compute_geodesic_f / tria_compute_rotated_f with recorded gradient, "
                  "divergence, Solver", "(g0 g1 n0 n1 : V3 ℝ) (x0 x1 x2 : ℝ)")
    g.set_args("g0 g1 n0 n1 x0 x1 x2")
    g.pc(tr, names)
    for tag in ("geo", "tgeo", "rot"):
        g.vec(tag + "Field", tr, flat_syms(tr, log[tag]["field"]), names)
        g.vec(tag + "Result", tr, flat_syms(tr, log[tag]["result"]), names)

    def facts(tag):
        r = log[tag]
        dt = r["dtup"]
        return [("%s: events" % tag, " > ".join(r["events"])),
                ("%s: poisson h is the divergence output" % tag, str(bool(r["h_is_div"]))),
                ("%s: poisson mass" % tag, str(r["mass"])),
                ("%s: Dirichlet data" % tag, "none" if not dt else "idx=%s val=%s" % (np.asarray(dt[0]).tolist(), np.asarray(dt[1], float).tolist())),
                ("%s: Neumann data" % tag, "none" if not r["ntup"] else "some")]
    allf = facts("geo") + facts("tgeo") + facts("rot")
    g.raw("def facts : List (String × String) := [%s]\n" % ", ".join('("%s", "%s")' % f for f in allf))
    return [g.write()]


def gen_shapedna():
    """`compute_shapedna` and `normalize_ev` (lapy/shapedna.py) as protocols: the geometry classes and the Solver are recorders.
    Emitted: the dictionary fields, how the Solver is built and used, what each normalisation method multiplies by (the real power is the
    binder `pw`), on which object `orient_` is called."""
    import lapy.shapedna as SD
    tr = Tracer(sample={"ar": 2.5, "vol": 1.7})
    NpProxy.tracer = tr
    ev = sym_array(tr, "l", (3,))
    names = {"l%d" % j: "l%d" % j for j in range(3)}
    names.update({"ar": "ar", "vol": "vol"})
    log = []

    def mk_geom(clsname):
        class Surf:
            def __init__(self, v=None, t=None, origin="boundary_tria()"):
                self.v, self.t = v, t
                self.origin = origin

            def orient_(self):
                log.append("orient_ on %s" % self.origin)

            def volume(self):
                log.append("volume of %s" % self.origin)
                return tr.var("vol")

        class G:
            def __init__(self, v, t):
                self.v, self.t = v, t
                self.origin = "a copy built from (v, t)" if len(log) and log[-1] == "__copy__" else "the argument"

            def area(self):
                log.append("area of %s" % self.origin)
                return tr.var("ar")

            def orient_(self):
                log.append("orient_ on %s" % self.origin)

            def volume(self):
                log.append("volume of %s" % self.origin)
                return tr.var("vol")

            def boundary_tria(self):
                log.append("boundary_tria of %s" % self.origin)
                return Surf()
        G.__name__ = clsname
        orig_init = G.__init__

        def init(self, v, t):
            log.append("__copy__") if getattr(init, "armed", False) else None
            orig_init(self, v, t)
            if getattr(init, "armed", False):
                log.pop(-1) if log and log[-1] == "__copy__" else None
                self.origin = "a copy built from (v, t)"
        G.__init__ = init
        g = G(np.zeros((5, 3)), np.zeros((7, 3 if clsname == "TriaMesh" else 4), dtype=int))
        init.armed = True
        return g

    results = {}
    facts = []
    for clsname in ("TriaMesh", "TetMesh"):
        for meth in ("surface", "volume", "geometry"):
            if clsname == "TetMesh" and meth == "surface":
                continue
            del log[:]
            g = mk_geom(clsname)
            res = SD.normalize_ev(g, ev, method=meth)
            results[(clsname, meth)] = res
            facts.append(("normalize_ev %s %s" % (clsname, meth), " > ".join(log)))
    # compute_shapedna
    rec = {}
    vals, vecs = object(), object()

    class StubSolver:
        def __init__(self, geometry, **kw):
            rec["geometry"] = geometry
            rec["kw"] = dict(kw)

        def eigs(self, **kw):
            rec["eigs_kw"] = dict(kw)
            return vals, vecs
    saved = SD.Solver
    SD.Solver = StubSolver
    try:
        for clsname in ("TriaMesh", "TetMesh"):
            g = mk_geom(clsname)
            with core_quiet():
                d = SD.compute_shapedna(g, k=6, lump=True, aniso=(1.0, 2.0), aniso_smooth=4)
            ints = ", ".join("%s=%s" % (kk, d[kk]) for kk in ("Refine", "Degree", "Dimension", "Elements", "DoF", "NumEW"))
            facts.append(("compute_shapedna %s fields" % clsname, ints))
            facts.append(("compute_shapedna %s keys" % clsname, " ".join(sorted(d))))
            facts.append(("compute_shapedna %s solver" % clsname, "Solver(geom%s) eigs(%s) outputs passed on: %s" % (
                "".join(", %s=%s" % (kk, rec["kw"][kk]) for kk in sorted(rec["kw"])) if rec["geometry"] is g else " OTHER",
                ", ".join("%s=%s" % kv for kv in sorted(rec["eigs_kw"].items())), d["Eigenvalues"] is vals and d["Eigenvectors"] is vecs)))
    finally:
        SD.Solver = saved
        NpProxy.tracer = None
    g = GenModule("ShapeDNA", "lapy/shapedna.py::normalize_ev / compute_shapedna with recorded geometry classes and Solver",
                  "(pw : ℝ → ℝ → ℝ) (l0 l1 l2 ar vol : ℝ)")
    g.set_args("pw l0 l1 l2 ar vol")
    g.pc(tr, names)
    for (clsname, meth), res in results.items():
        g.vec("norm%s%s" % (clsname[:3], meth.capitalize()), tr, flat_syms(tr, res), names)
    g.raw("def facts : List (String × String) := [%s]\n" % ", ".join('("%s", "%s")' % f for f in facts))
    return [g.write()]


def gen_dispatch():
    """the generic entry points of lapy/diffgeo.py (`compute_gradient`, `compute_divergence`, `compute_rotated_f`) and the geometry dispatch of
    `Solver.__init__`: which kernel receives which arguments for objects whose type is NAMED TriaMesh / TetMesh / anything else"""
    import lapy.diffgeo as D
    import lapy.solver as S
    facts = []
    names_fn = ("tria_compute_gradient", "tet_compute_gradient", "tria_compute_divergence", "tet_compute_divergence", "tria_compute_rotated_f")
    saved = {k: getattr(D, k) for k in names_fn}
    calls = []

    def rec(nm):
        def f(geom, arg):
            calls.append((nm, geom, arg))
            return ("result of", nm)
        return f
    geos = {}
    for cn in ("TriaMesh", "TetMesh", "VoxelGrid", "Mesh", "Tria", "Tet", "TriaMesh2", "triamesh"):
        geos[cn] = type(cn, (), {})()
    arg = object()
    try:
        for k in names_fn:
            setattr(D, k, rec(k))
        for entry in ("compute_gradient", "compute_divergence", "compute_rotated_f"):
            for cn, g in geos.items():
                del calls[:]
                try:
                    r = getattr(D, entry)(g, arg)
                    ok = len(calls) == 1 and calls[0][1] is g and calls[0][2] is arg and r == ("result of", calls[0][0])
                    facts.append(("%s(%s)" % (entry, cn), ("-> %s(geom, arg), result passed on" % calls[0][0]) if ok else "UNEXPECTED"))
                except ValueError:
                    facts.append(("%s(%s)" % (entry, cn), "ValueError" + (" after a kernel call" if calls else "")))
    finally:
        for k, v in saved.items():
            setattr(D, k, v)
    # Solver.__init__ dispatch
    saved_s = {k: S.Solver.__dict__[k] for k in ("_fem_tria", "_fem_tria_aniso", "_fem_tetra")}
    try:
        def mk(nm):
            def f(*a, **k):
                calls.append((nm, a, k))
                return ("A of " + nm, "B of " + nm)
            return staticmethod(f)
        for k in saved_s:
            setattr(S.Solver, k, mk(k))
        for cn, g in geos.items():
            for lump in (False, True):
                del calls[:]
                try:
                    with core_quiet():
                        s = S.Solver(g, lump=lump)
                    ok = len(calls) == 1 and calls[0][1][0] is g and (calls[0][1][1] is lump if len(calls[0][1]) > 1 else calls[0][2].get("lump") is lump)
                    facts.append(("Solver(%s, lump=%s)" % (cn, lump), ("-> %s(geom, lump), stiffness / mass = its outputs: %s" % (
                        calls[0][0], s.stiffness == "A of " + calls[0][0] and s.mass == "B of " + calls[0][0])) if ok else "UNEXPECTED"))
                except ValueError:
                    facts.append(("Solver(%s, lump=%s)" % (cn, lump), "ValueError" + (" after a kernel call" if calls else "")))
    finally:
        for k, v in saved_s.items():
            setattr(S.Solver, k, v)
    lines = ["/-  GENERATED by vcheck/extract.py from lapy/diffgeo.py (generic entry points) and lapy/solver.py::Solver.__init__ -- do not edit. -/",
             "namespace LapyVerif.Gen.Dispatch",
             "def facts : List (String × String) := [%s]" % ", ".join('("%s", "%s")' % f for f in facts),
             "end LapyVerif.Gen.Dispatch", ""]
    return [write_if_changed(os.path.join(GEN_DIR, "Dispatch.lean"), "\n".join(lines))]


def gen_tet_orient():
    """`TetMesh.orient_` and `TetMesh.is_oriented` traced on two tetrahedra sharing a face, the first positively and the second negatively
    oriented at the concolic sample: the volumes the code compares with 0, the decisions, the rewritten element array and the count"""
    import lapy.tet_mesh as TT
    sample = {}
    p = np.array([[0.0, 0.0, 0.0], [1.0, 0.0, 0.1], [0.1, 1.0, 0.0], [0.2, 0.1, 1.0], [0.9, 0.8, 0.7]])
    for i in range(5):
        for c in range(3):
            sample["v%d_%d" % (i, c)] = float(p[i, c])
    t_in = np.array([[0, 1, 2, 3], [1, 3, 2, 4]])
    names = v3_names("v", 5)
    g = GenModule("TetOrient", "lapy/tet_mesh.py::TetMesh.orient_ / is_oriented on the tetrahedra [[0,1,2,3],[1,3,2,4]] (first positive, second negative "
                  "at the sample point)", "(v0 v1 v2 v3 v4 : V3 ℝ)")
    # --- orient_
    tr = Tracer(sample=sample)
    v = sym_array(tr, "v", (5, 3))
    with core_quiet():
        m = TT.TetMesh(v, t_in.copy())
        n = m.orient_()
        t_out = np.array(m.t)
    g.pc(tr, names, nm="pcOrient")
    # the two volumes `orient_` compared with zero, in element order
    vols = [a for (rel, a, b, ans) in tr.pc if rel == "lt"]
    seen = []
    for a in vols:
        if a not in seen:
            seen.append(a)
    for k, a in enumerate(seen[:2]):
        g.scalar("vol%d" % k, tr, a, names)
    g.raw("def orientResult : List (Nat × Nat × Nat × Nat) := [%s]" % ", ".join("(%d, %d, %d, %d)" % tuple(int(x) for x in r) for r in t_out))
    g.raw("def orientCount : Nat := %d\n" % int(n))
    # --- is_oriented before / after, and on an all-negative pair
    res = []
    for tag, tt in (("mixed", t_in), ("oriented", t_out), ("allneg", np.array([[0, 2, 1, 3], [1, 3, 2, 4]]))):
        tr2 = Tracer(sample=sample)
        v2 = sym_array(tr2, "v", (5, 3))
        with core_quiet(), np_proxied(TT, tr2):
            r = bool(TT.TetMesh(v2, np.array(tt)).is_oriented())
        res.append((tag, r, len(emit_pc(tr2, names))))
    g.raw("def isOrientedFacts : List (String × Bool) := [%s]\n" % ", ".join('("%s", %s)' % (a, "true" if b else "false") for a, b, _ in res))
    return [g.write()]


def gen_tri_orient():
    """`TriaMesh.orient_` traced on the tetrahedron boundary with symbolic vertices: (A) all triangles reversed — the flood changes nothing,
    the enclosed volume is negative at the sample point and everything is flipped; (B) one triangle reversed — the flood repairs it, the volume
    is positive.  The only data-dependent decision is the sign of the volume."""
    import lapy.tria_mesh as TM
    p = np.array([[0.0, 0.0, 0.0], [1.0, 0.0, 0.1], [0.1, 1.0, 0.0], [0.2, 0.1, 1.0]])
    sample = {"v%d_%d" % (i, c): float(p[i, c]) for i in range(4) for c in range(3)}
    names = v3_names("v", 4)
    t4 = np.array(T4)
    with core_quiet():
        outward = TM.TriaMesh(p, t4).volume() > 0
    base = t4 if outward else t4[:, [0, 2, 1]]
    tB = base.copy()
    tB[2] = tB[2][[1, 0, 2]]
    g = GenModule("TriOrient", "lapy/tria_mesh.py::TriaMesh.orient_ on the tetrahedron boundary (A: inside-out, B: one triangle reversed)", "(v0 v1 v2 v3 : V3 ℝ)")
    for tag, tin in (("A", base[:, [0, 2, 1]]), ("B", tB)):
        tr = Tracer(sample=sample)
        v = sym_array(tr, "v", (4, 3))
        with core_quiet():
            m = TM.TriaMesh(v, np.array(tin))
            with np_proxied(TM, tr):
                n = m.orient_()
        g.pc(tr, names, nm="pc" + tag)
        vols = [a for (rel, a, b, ans) in tr.pc if rel == "lt"]
        g.scalar("vol" + tag, tr, vols[0], names)
        g.raw("def input%s : List (Nat × Nat × Nat) := [%s]" % (tag, ", ".join("(%d, %d, %d)" % tuple(int(x) for x in r) for r in tin)))
        g.raw("def result%s : List (Nat × Nat × Nat) := [%s]" % (tag, ", ".join("(%d, %d, %d)" % tuple(int(x) for x in r) for r in np.array(m.t))))
        g.raw("def count%s : Nat := %d\n" % (tag, int(n)))
    return [g.write()]


def gen_refine():
    """`TriaMesh.refine_` traced on the tetrahedron boundary with symbolic vertices: new vertex coordinates (edge midpoints, as expressions)
    and the new triangle array (concrete indices)"""
    import lapy.tria_mesh as TM
    tr = Tracer()
    v = sym_array(tr, "v", (4, 3))
    names = v3_names("v", 4)
    with core_quiet():
        m = TM.TriaMesh(v, np.array(T4))
        with np_proxied(TM, tr):
            m.refine_(1)
    g = GenModule("RefineTri", "lapy/tria_mesh.py::TriaMesh.refine_(1) on the tetrahedron boundary [[0,1,2],[0,3,1],[0,2,3],[1,3,2]]", "(v0 v1 v2 v3 : V3 ℝ)")
    g.pc(tr, names)
    g.vec("verts", tr, flat_syms(tr, m.v), names)
    g.raw("def nVerts : Nat := %d" % len(m.v))
    g.raw("def trias : List (Nat × Nat × Nat) := [%s]\n" % ", ".join("(%d, %d, %d)" % tuple(int(x) for x in r) for r in np.array(m.t)))
    return [g.write()]
