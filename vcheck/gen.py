"""Seeded generators of meshes, functions and transformations.  Every random choice derives from one
numpy Generator seeded by VERIF_SEED, so a disagreement replays exactly.

A triangle-mesh case is a dict: v (n,3 float64), t (m,3 int64), tags (set of strings describing its class).
TriaMesh cannot hold fewer than 3 triangles (the constructor's transposition heuristic); generators respect it.
"""
import itertools
import numpy as np


def rng_for(seed, *salt):
    """one PRNG per (seed, salt): salts are hashed with crc32 (Python's hash() of strings changes from process to process)"""
    import zlib
    return np.random.default_rng([int(seed) & 0xFFFFFFFF] + [zlib.crc32(str(s).encode()) if not isinstance(s, (int, np.integer)) else int(s) & 0xFFFFFFFF for s in salt])


# ------------------------------------------------------------------ base triangle meshes

def grid(nx, ny, diag="same"):
    xs, ys = np.meshgrid(np.arange(nx + 1.0), np.arange(ny + 1.0))
    v = np.column_stack([xs.ravel(), ys.ravel(), np.zeros(xs.size)])
    t = []
    for y in range(ny):
        for x in range(nx):
            a = y * (nx + 1) + x
            b, c, d = a + 1, a + nx + 2, a + nx + 1
            if diag == "same" or (diag == "alt" and (x + y) % 2 == 0):
                t += [[a, b, c], [a, c, d]]
            else:
                t += [[a, b, d], [b, c, d]]
    return v, np.array(t, dtype=np.int64)


def icosahedron():
    p = (1 + 5 ** 0.5) / 2
    v = np.array([[-1, p, 0], [1, p, 0], [-1, -p, 0], [1, -p, 0], [0, -1, p], [0, 1, p],
                  [0, -1, -p], [0, 1, -p], [p, 0, -1], [p, 0, 1], [-p, 0, -1], [-p, 0, 1]], float)
    t = np.array([[0, 11, 5], [0, 5, 1], [0, 1, 7], [0, 7, 10], [0, 10, 11], [1, 5, 9], [5, 11, 4],
                  [11, 10, 2], [10, 7, 6], [7, 1, 8], [3, 9, 4], [3, 4, 2], [3, 2, 6], [3, 6, 8],
                  [3, 8, 9], [4, 9, 5], [2, 4, 11], [6, 2, 10], [8, 6, 7], [9, 8, 1]], dtype=np.int64)
    return v / np.linalg.norm(v[0]), t


def octahedron():
    v = np.array([[1, 0, 0], [-1, 0, 0], [0, 1, 0], [0, -1, 0], [0, 0, 1], [0, 0, -1]], float)
    t = np.array([[0, 2, 4], [2, 1, 4], [1, 3, 4], [3, 0, 4], [2, 0, 5], [1, 2, 5], [3, 1, 5], [0, 3, 5]], dtype=np.int64)
    return v, t


def tetra_surface():
    v = np.array([[1, 1, 1], [1, -1, -1], [-1, 1, -1], [-1, -1, 1]], float)
    t = np.array([[0, 1, 2], [0, 3, 1], [0, 2, 3], [1, 3, 2]], dtype=np.int64)
    return v, t


def subdivide(v, t):
    """1-to-4 subdivision (independent of LaPy's refine_)"""
    edge = {}
    v = [tuple(p) for p in v]
    out = []

    def mid(a, b):
        k = (min(a, b), max(a, b))
        if k not in edge:
            edge[k] = len(v)
            v.append(tuple((np.array(v[a]) + np.array(v[b])) / 2))
        return edge[k]

    for a, b, c in t:
        ab, bc, ca = mid(a, b), mid(b, c), mid(c, a)
        out += [[a, ab, ca], [b, bc, ab], [c, ca, bc], [ab, bc, ca]]
    return np.array(v, float), np.array(out, dtype=np.int64)


def icosphere(level):
    v, t = icosahedron()
    for _ in range(level):
        v, t = subdivide(v, t)
        v = v / np.linalg.norm(v, axis=1)[:, None]
    return v, t


def torus(nu, nv_, R=2.0, r=0.7):
    v = []
    for i in range(nu):
        for j in range(nv_):
            a, b = 2 * np.pi * i / nu, 2 * np.pi * j / nv_
            v.append([(R + r * np.cos(b)) * np.cos(a), (R + r * np.cos(b)) * np.sin(a), r * np.sin(b)])
    t = []
    for i in range(nu):
        for j in range(nv_):
            a = i * nv_ + j
            b = ((i + 1) % nu) * nv_ + j
            c = ((i + 1) % nu) * nv_ + (j + 1) % nv_
            d = i * nv_ + (j + 1) % nv_
            t += [[a, b, c], [a, c, d]]
    return np.array(v), np.array(t, dtype=np.int64)


def cylinder(nu, nh, r=1.0, h=2.0):
    """open cylinder (2 boundary loops)"""
    v = []
    for k in range(nh + 1):
        for i in range(nu):
            a = 2 * np.pi * i / nu
            v.append([r * np.cos(a), r * np.sin(a), h * k / nh])
    t = []
    for k in range(nh):
        for i in range(nu):
            a = k * nu + i
            b = k * nu + (i + 1) % nu
            c = (k + 1) * nu + (i + 1) % nu
            d = (k + 1) * nu + i
            t += [[a, b, c], [a, c, d]]
    return np.array(v), np.array(t, dtype=np.int64)


def mobius(nu):
    """non-orientable strip with nu quads"""
    v = []
    for i in range(nu):
        a = 2 * np.pi * i / nu
        for s in (-0.4, 0.4):
            v.append([(1 + s * np.cos(a / 2)) * np.cos(a), (1 + s * np.cos(a / 2)) * np.sin(a), s * np.sin(a / 2)])
    t = []
    for i in range(nu):
        a, b = 2 * i, 2 * i + 1
        if i + 1 < nu:
            c, d = 2 * i + 2, 2 * i + 3
        else:
            c, d = 1, 0
        t += [[a, c, b], [b, c, d]]
    return np.array(v), np.array(t, dtype=np.int64)


def fan(k):
    """k triangles around one edge (non-manifold for k >= 3)"""
    v = [[0, 0, 0], [0, 0, 1]]
    t = []
    for i in range(k):
        a = 2 * np.pi * i / k
        v.append([np.cos(a), np.sin(a), 0.5])
        t.append([0, 1, 2 + i])
    return np.array(v, float), np.array(t, dtype=np.int64)


def glued_tetras():
    """two tetrahedron surfaces sharing one edge: no boundary edge, the common edge lies in four triangles (closed, non-manifold)"""
    v = np.array([[0, 0, 0], [0, 0, 1], [1, 0, 0.5], [0.3, 1, 0.5], [-1, 0.2, 0.5], [-0.4, -1, 0.5]], float)
    t = np.array([[0, 1, 2], [1, 0, 3], [0, 2, 3], [2, 1, 3], [1, 0, 4], [0, 1, 5], [0, 4, 5], [4, 1, 5]], dtype=np.int64)
    return v, t


def theta(k=5):
    """three discs (cones over the same k-gon from three apexes): every rim edge lies in three triangles, no boundary edge"""
    v = [[np.cos(2 * np.pi * i / k), np.sin(2 * np.pi * i / k), 0.0] for i in range(k)] + [[0, 0, 1.0], [0, 0, -1.0], [0.1, 0.05, 0.0]]
    t = []
    for apex, flip in ((k, False), (k + 1, True), (k + 2, False)):
        for i in range(k):
            a, b = i, (i + 1) % k
            t.append([b, a, apex] if flip else [a, b, apex])
    return np.array(v, float), np.array(t, dtype=np.int64)


def lens(n=12, h=0.08, ring=0.8, dz=0.048, twist=0.0):
    """thin closed lens with a sharp rim: two large triangles per rim vertex on the upper cap, three small ones on the lower cap
    (area-weighted and equally weighted averages of the incident triangle normals point to opposite sides at the rim)"""
    ang = 2 * np.pi * np.arange(n) / n
    rim = np.column_stack([np.cos(ang), np.sin(ang), np.zeros(n)])
    inner = np.column_stack([ring * np.cos(ang + twist * np.pi / n), ring * np.sin(ang + twist * np.pi / n), -dz * np.ones(n)])
    v = np.vstack([rim, inner, [[0, 0, h]], [[0, 0, -h]]])
    top, bot = 2 * n, 2 * n + 1
    t = []
    for i in range(n):
        j = (i + 1) % n
        t.append([top, i, j])                     # upper cap (outward = +z)
        t.append([i, n + i, j])                   # lower strip (outward = -z)
        t.append([j, n + i, n + j])
        t.append([n + i, bot, n + j])             # lower cone
    return v, np.array(t, dtype=np.int64)


def sliver(rng, h=1e-6):
    """a fan around an interior point plus one flat triangle (base 1, height h: one vertex almost on the opposite edge), generic
    position; oriented, edge-manifold, no unused vertices.  Formulas that are fine for well-shaped triangles lose digits here."""
    x = float(rng.uniform(0.2, 0.8))
    v = np.array([[0.0, 0.0, 0.0], [1.0, 0.0, 0.0], [1.0, 1.0, 0.0], [0.0, 1.0, 0.0], [0.4, 0.45, 0.1], [x, -h, 0.0]])
    t = np.array([[0, 1, 4], [1, 2, 4], [2, 3, 4], [3, 0, 4], [1, 0, 5]], dtype=np.int64)
    return v @ random_rotation(rng).T + rng.uniform(-1, 1, 3), t


def pinched(closed=True):
    """two parts that touch in exactly one vertex (edge-manifold, not vertex-manifold): two octahedra / two fans sharing a vertex"""
    if closed:
        v1, t1 = octahedron()
        v2 = v1 + np.array([2.0, 0.0, 0.0])          # vertex 1 of the second (-1,0,0)+(2,0,0) = (1,0,0) = vertex 0 of the first
        t2 = t1 + len(v1)
        t2 = np.where(t2 == len(v1) + 1, 0, t2)
        keep = [i for i in range(2 * len(v1)) if i != len(v1) + 1]
        ren = {old: new for new, old in enumerate(keep)}
        v = np.vstack([v1, v2])[keep]
        t = np.vectorize(ren.get)(np.vstack([t1, t2]))
        return v, t.astype(np.int64)
    v = np.array([[0, 0, 0], [1, 0, 0], [1, 1, 0.2], [0, 1, 0], [-1, 0, 0.1], [-1, -1, 0], [0, -1, 0.3]], float)
    t = np.array([[0, 1, 2], [0, 2, 3], [0, 4, 5], [0, 5, 6]], dtype=np.int64)
    return v, t


def delaunay_patch(rng, n):
    from scipy.spatial import Delaunay
    while True:
        p = rng.uniform(0, 4, size=(n, 2))
        d = Delaunay(p)
        t = d.simplices.astype(np.int64)
        # make counter-clockwise, drop slivers
        e1 = p[t[:, 1]] - p[t[:, 0]]; e2 = p[t[:, 2]] - p[t[:, 0]]
        ar = e1[:, 0] * e2[:, 1] - e1[:, 1] * e2[:, 0]
        t[ar < 0] = t[ar < 0][:, [0, 2, 1]]
        keep = np.abs(ar) > 1e-3
        t = t[keep]
        if len(t) >= 4 and len(np.unique(t)) == n:
            return np.column_stack([p, np.zeros(n)]), t


def disk_with_holes(rng, nx, ny, holes):
    v, t = grid(nx, ny)
    rm = set()
    cand = [(x, y) for x in range(1, nx - 1, 2) for y in range(1, ny - 1, 2)]
    rng.shuffle(cand)
    for x, y in cand[:holes]:
        q = y * nx + x
        rm |= {2 * q, 2 * q + 1}
    t = np.array([tt for k, tt in enumerate(t) if k not in rm], dtype=np.int64)
    return v, t


def graded_disc(rings=12, seg=8, ratio=0.45):
    """disc refined geometrically towards its centre on a shallow cone: well-shaped triangles whose areas span many orders of
    magnitude (smallest / mean area ~ ratio^(2*rings))"""
    v = [[0.0, 0.0, 0.0]]
    for k in range(rings):
        r = ratio ** (rings - 1 - k)
        for j in range(seg):
            a = 2 * np.pi * (j + 0.5 * (k % 2)) / seg
            v.append([r * np.cos(a), r * np.sin(a), 0.3 * r])
    t = [[0, 1 + j, 1 + (j + 1) % seg] for j in range(seg)]
    for k in range(rings - 1):
        a0 = 1 + k * seg; b0 = 1 + (k + 1) * seg
        for j in range(seg):
            a, a1 = a0 + j, a0 + (j + 1) % seg
            if k % 2 == 0:
                b, b1 = b0 + j, b0 + (j + 1) % seg
                t += [[a, b, a1], [a1, b, b1]]
            else:
                b, b1 = b0 + (j + 1) % seg, b0 + (j + 2) % seg
                bm = b0 + j
                t += [[a, bm, b], [a, b, a1]]
    return np.array(v), np.array(t, dtype=np.int64)


def union(m1, m2, shift=(5.0, 0.0, 0.0)):
    v1, t1 = m1
    v2, t2 = m2
    return np.vstack([v1, v2 + np.array(shift)]), np.vstack([t1, t2 + len(v1)])


# ------------------------------------------------------------------ modifiers

def lift(rng, v, amp=0.3):
    v = v.copy()
    a, b, c = rng.uniform(0.3, 1.5, 3)
    v[:, 2] = v[:, 2] + amp * (np.sin(a * v[:, 0]) + np.cos(b * v[:, 1]) + 0.1 * c * v[:, 0] * v[:, 1])
    return v


def jitter(rng, v, amp=0.05):
    return v + rng.normal(0, amp, v.shape)


def random_rotation(rng, reflect=False):
    q, r = np.linalg.qr(rng.normal(size=(3, 3)))
    q = q * np.sign(np.diag(r))
    if (np.linalg.det(q) < 0) != reflect:
        q[:, 0] = -q[:, 0]
    return q


def rigid(rng, v, reflect=False):
    return v @ random_rotation(rng, reflect).T + rng.uniform(-3, 3, 3)


def flip_some(rng, t, p=0.3):
    t = t.copy()
    m = rng.random(len(t)) < p
    t[m] = t[m][:, [1, 0, 2]] if t.shape[1] == 3 else t[m][:, [0, 2, 1, 3]]
    return t


def rotate_rows(rng, t):
    t = t.copy()
    if t.shape[1] != 3:
        return t
    for k in range(len(t)):
        t[k] = np.roll(t[k], rng.integers(0, 3))
    return t


def relabel(rng, v, t):
    p = rng.permutation(len(v))          # new index of old vertex i is p[i]
    v2 = np.empty_like(v)
    v2[p] = v
    return v2, p[t], p


def permute_elems(rng, t):
    return t[rng.permutation(len(t))]


def add_free(rng, v, t, k=2):
    """insert k unused vertices at random positions of the vertex array"""
    v = v.copy(); t = t.copy()
    for _ in range(k):
        pos = int(rng.integers(0, len(v) + 1))
        v = np.insert(v, pos, rng.uniform(-1, 1, 3), axis=0)
        t = np.where(t >= pos, t + 1, t)
    return v, t


NARROW = ["t-int32", "t-int8", "t-uint8", "t-int16", "t-uint16", "t-uint32"]      # index dtype (used when the indices fit)
PRES = ["plain", "t-fortran", "vt-fortran", "transposed", "strided"] + NARROW


def arrays(case, keep_int=True):
    """the arrays handed to the implementation for a generated case: same values as case['v'], case['t'], presented as the case says
    (Fortran order, int32 indices, 3 x n transposed input, strided views, integer vertex dtype)"""
    return present(case["v"], case["t"], case.get("pres") or "plain", keep_int and case.get("vdtype") == "int64")


def present(v, t, pres="plain", vint=False):
    v = np.asarray(v, dtype=np.float64); t = np.asarray(t, dtype=np.int64)
    if vint:
        v = v.astype(np.int64)
    if pres == "transposed" and (t.shape[1] != 3 or len(v) < 4 or len(t) < 4):
        pres = "t-fortran"
    if pres == "t-fortran":
        t = np.asfortranarray(t)
    elif pres == "vt-fortran":
        t = np.asfortranarray(t); v = np.asfortranarray(v)
    elif pres in NARROW:
        dt = np.dtype(pres[2:])
        if t.size and int(t.max()) <= np.iinfo(dt).max and int(t.min()) >= 0:
            t = t.astype(dt)
    elif pres == "transposed":
        t = np.ascontiguousarray(t.T); v = np.ascontiguousarray(v.T)
    elif pres == "strided":
        tt = np.zeros((len(t), 2 * t.shape[1]), dtype=np.int64); tt[:, ::2] = t; t = tt[:, ::2]
        vv = np.zeros((2 * len(v), 3), dtype=v.dtype); vv[::2] = v; v = vv[::2]
    return v, t


# ---- presentation of every mesh the implementation constructs while a case is being evaluated
_ACTIVE = {"pres": None, "vint": False, "installed": False}


def relayout(v, t, pres, vint):
    """same values and dtypes (except index width for 't-int32' / integer coordinates for `vint`), different memory presentation"""
    v = np.asarray(v); t = np.asarray(t)
    if v.ndim != 2 or t.ndim != 2 or v.shape[1] != 3 or t.shape[1] not in (3, 4) or not np.issubdtype(t.dtype, np.integer):
        return v, t
    if vint and np.issubdtype(v.dtype, np.floating) and v.dtype == np.float64 and np.all(v == np.round(v)) and np.abs(v).max() < 1e9:
        v = v.astype(np.int64)
    if pres == "transposed" and (t.shape[1] != 3 or len(v) < 4 or len(t) < 4):
        pres = "t-fortran"
    if pres == "t-fortran":
        t = np.asfortranarray(t)
    elif pres == "vt-fortran":
        t = np.asfortranarray(t); v = np.asfortranarray(v)
    elif pres in NARROW:
        dt = np.dtype(pres[2:])
        if t.size and int(t.max()) <= np.iinfo(dt).max and int(t.min()) >= 0:
            t = t.astype(dt)
    elif pres == "transposed":
        t = np.ascontiguousarray(t.T); v = np.ascontiguousarray(v.T)
    elif pres == "strided":
        tt = np.zeros((len(t), 2 * t.shape[1]), dtype=t.dtype); tt[:, ::2] = t; t = tt[:, ::2]
        vv = np.zeros((2 * len(v), 3), dtype=v.dtype); vv[::2] = v; v = vv[::2]
    return v, t


def use(case):
    """from now on every TriaMesh / TetMesh the harness (or LaPy itself) constructs receives its arrays in the presentation recorded in
    `case` (keys `pres`, `vdtype`); `use(None)` switches it off.  Values are never changed, so results must not change either."""
    case = case if isinstance(case, dict) else {}
    _ACTIVE["pres"] = case.get("pres") or None
    _ACTIVE["vint"] = case.get("vdtype") == "int64"
    if not _ACTIVE["installed"]:
        from lapy import TriaMesh, TetMesh
        for cls in (TriaMesh, TetMesh):
            orig = cls.__init__

            def init(self, v, t, *a, _orig=orig, **kw):
                if _ACTIVE["pres"] or _ACTIVE["vint"]:
                    try:
                        v, t = relayout(v, t, _ACTIVE["pres"], _ACTIVE["vint"])
                    except Exception:  # noqa: BLE001
                        pass
                _orig(self, v, t, *a, **kw)
            cls.__init__ = init
        _ACTIVE["installed"] = True


def big_cases(seed, thorough=False, huge=False):
    """a few meshes well above the sizes of the random families (size-dependent code paths: > 256, > 2^15 elements ... )"""
    import os
    if os.environ.get("VERIF_ESCALATED") == "1":
        thorough = False            # quick tier escalated by source drift: thorough streams, but not the very large meshes
    rng = rng_for(seed, "big")
    out = []
    fams = [("icosphere3", icosphere(3)), ("torus24x20", torus(24, 20)), ("grid20x15-lifted", (lift(rng, grid(20, 15)[0]), grid(20, 15)[1]))]
    if thorough:
        fams += [("icosphere5", icosphere(5)), ("torus150x120", torus(150, 120))]          # 10242 / 18000 vertices, > 2^15 triangles
    if huge:
        fams += [("torus220x190", torus(220, 190))]          # > 2^15 vertices, > 2^16 triangles
    for name, (v, t) in fams:
        v = jitter(rng, np.asarray(v, float) * rng.uniform(0.7, 1.4, 3), 0.002)
        out.append(dict(v=v, t=np.asarray(t, np.int64), tags={name, "big"}, name=name))
    return out


def int_cases():
    """meshes given by integer coordinates (as one writes small examples / voxel meshes), vertex array of integer dtype"""
    ov, ot = octahedron()
    gv, gt = grid(3, 2)
    gv = gv.copy(); gv[:, 2] = (gv[:, 0] * gv[:, 1]) % 2
    return [dict(v=np.round(2 * ov), t=ot, tags={"int-octahedron", "int-coords"}, name="int-octahedron", vdtype="int64"),
            dict(v=gv, t=gt, tags={"int-grid", "int-coords"}, name="int-grid", vdtype="int64", pres="t-fortran")]


def narrow_cases():
    """meshes whose element / vertex counts exceed what their (legitimately narrow) index dtype can count or square"""
    out = []
    for name, (v, t), pres in (("torus10x10", torus(10, 10), "t-int8"), ("torus12x11", torus(12, 11), "t-uint8"), ("torus14x14", torus(14, 14), "t-int16"),
                               ("grid3x3", grid(3, 3), "t-int8")):
        out.append(dict(v=np.asarray(v, float), t=np.asarray(t, np.int64), tags={name, "pres:" + pres, "narrow-index"}, name=name + ":" + pres, pres=pres))
    return out


def add_trailing_free(rng, v, t, k=2):
    """append k unused vertices at the END of the vertex array"""
    return np.vstack([v, rng.uniform(-1, 1, (k, 3))]), t.copy()


# ------------------------------------------------------------------ streams of triangle meshes

def tria_bases(rng, size="small"):
    """named base meshes (oriented where orientable)"""
    big = size != "small"
    out = []
    out.append(("grid", grid(int(rng.integers(2, 5 if not big else 9)), int(rng.integers(2, 5 if not big else 9)), rng.choice(["same", "alt", "other"]))))
    g = grid(int(rng.integers(2, 5 if not big else 8)), int(rng.integers(2, 4 if not big else 8)))
    out.append(("lifted", (lift(rng, g[0]), g[1])))
    out.append(("delaunay", delaunay_patch(rng, int(rng.integers(6, 14 if not big else 60)))))
    d = delaunay_patch(rng, int(rng.integers(6, 14 if not big else 60)))
    out.append(("delaunay-lifted", (lift(rng, d[0]), d[1])))
    out.append(("icosphere", icosphere(0 if not big else int(rng.integers(0, 3)))))
    s = icosphere(1 if not big else 2)
    out.append(("ellipsoid", (jitter(rng, s[0] * rng.uniform(0.5, 2.0, 3), 0.02), s[1])))
    out.append(("octahedron", octahedron()))
    out.append(("tetra-surface", tetra_surface()))
    out.append(("torus", torus(int(rng.integers(3, 6 if not big else 12)), int(rng.integers(3, 6 if not big else 10)))))
    out.append(("cylinder", cylinder(int(rng.integers(3, 7 if not big else 14)), int(rng.integers(1, 3 if not big else 6)))))
    out.append(("mobius", mobius(int(rng.integers(5, 9)))))
    out.append(("fan3", fan(int(rng.integers(3, 6)))))
    out.append(("holes", disk_with_holes(rng, 5 if not big else 9, 5 if not big else 7, int(rng.integers(1, 3)))))
    out.append(("two-components", union(icosphere(0), grid(2, 2))))
    out.append(("two-spheres", union(icosphere(0), octahedron())))
    out.append(("graded", graded_disc(int(rng.integers(9, 14)), int(rng.integers(6, 10)))))
    out.append(("glued-tetras", glued_tetras()))
    out.append(("pinched-closed", pinched(True)))
    out.append(("pinched-open", pinched(False)))
    out.append(("theta", theta(int(rng.integers(3, 7)))))
    return out


def tria_stream(seed, n, size="small", classes=None, modifiers=True, first=()):
    """yield n triangle-mesh cases; `classes` restricts base names; families named in `first` lead the first round, so that
    even a short stream contains them"""
    k = 0
    rnd = 0
    while k < n:
        rng = rng_for(seed, "tria", rnd)
        rnd += 1
        bases = tria_bases(rng, size)
        order = rng.permutation(len(bases))        # every prefix of the stream mixes the families
        if first and rnd == 1:
            order = sorted(order, key=lambda i: 0 if bases[i][0] in first else 1)
        for name, (v, t) in [bases[i] for i in order]:
            if classes is not None and name not in classes:
                continue
            tags = {name}
            v = np.array(v, dtype=np.float64); t = np.array(t, dtype=np.int64)
            if modifiers:
                if rng.random() < 0.5:
                    v = rigid(rng, v, reflect=rng.random() < 0.3); tags.add("rigid")
                r2 = np.random.default_rng([int(seed) & 0xFFFFFFFF, rnd, k, 77])       # separate PRNG: does not shift the other choices
                if r2.random() < 0.15:           # the same shape far away from the origin (10^4 x its size): differences lose 4 digits, no more
                    u = r2.normal(size=3); v = v + 1e4 * np.ptp(v, axis=0).max() * u / np.linalg.norm(u); tags.update({"rigid", "far-offset"})
                elif r2.random() < 0.15:         # another unit of length
                    sc = float(r2.choice([1e-4, 1e3])); v = v * sc; tags.update({"rigid", "unit:%g" % sc})
                if rng.random() < 0.3:
                    t = flip_some(rng, t); tags.add("flipped")
                if rng.random() < 0.3:
                    t = rotate_rows(rng, t); tags.add("rotated-rows")
                if rng.random() < 0.3:
                    v, t, _ = relabel(rng, v, t); tags.add("relabelled")
                if rng.random() < 0.3:
                    t = permute_elems(rng, t); tags.add("permuted")
            case = dict(v=v, t=t, tags=tags, name=name)
            if True:
                # how the same mesh is handed to the implementation (values unchanged): memory layout, index dtype, integer coordinates
                pres = ["plain", "plain", "plain", "t-fortran", "vt-fortran", "t-int32", "transposed", "strided", "t-int8", "t-uint8", "t-int16", "t-uint32"][int(rng.integers(0, 12))]
                if pres == "transposed" and (len(v) < 4 or len(t) < 4 or len(v) == 3 or len(t) == 3):
                    pres = "t-fortran"
                if pres != "plain":
                    case["pres"] = pres; tags.add("pres:" + pres)
                if "rigid" not in tags and np.all(v == np.round(v)) and rng.random() < 0.6:
                    case["vdtype"] = "int64"; tags.add("int-coords")
            yield case
            k += 1
            if k >= n:
                return


# ------------------------------------------------------------------ tetrahedral meshes

CUBE5 = [[0, 1, 3, 4], [1, 2, 3, 6], [1, 3, 4, 6], [1, 4, 5, 6], [3, 4, 6, 7]]
CUBE6 = [[0, 1, 2, 6], [0, 2, 3, 6], [0, 3, 7, 6], [0, 7, 4, 6], [0, 4, 5, 6], [0, 5, 1, 6]]
CUBEV = [[0, 0, 0], [1, 0, 0], [1, 1, 0], [0, 1, 0], [0, 0, 1], [1, 0, 1], [1, 1, 1], [0, 1, 1]]


def cube_grid(nx, ny, nz, split=6):
    """grid of cubes, each split into 6 tetrahedra along the main diagonal (conforming)"""
    idx = lambda x, y, z: (z * (ny + 1) + y) * (nx + 1) + x  # noqa: E731
    v = np.array([[x, y, z] for z in range(nz + 1) for y in range(ny + 1) for x in range(nx + 1)], float)
    t = []
    for z in range(nz):
        for y in range(ny):
            for x in range(nx):
                c = [idx(x, y, z), idx(x + 1, y, z), idx(x + 1, y + 1, z), idx(x, y + 1, z),
                     idx(x, y, z + 1), idx(x + 1, y, z + 1), idx(x + 1, y + 1, z + 1), idx(x, y + 1, z + 1)]
                for q in CUBE6:
                    t.append([c[i] for i in q])
    return v, np.array(t, dtype=np.int64)


def cube5():
    return np.array(CUBEV, float), np.array(CUBE5, dtype=np.int64)


def delaunay_fill(rng, n):
    from scipy.spatial import Delaunay
    while True:
        p = rng.uniform(0, 2, size=(n, 3))
        d = Delaunay(p)
        t = d.simplices.astype(np.int64)
        e = p[t[:, 1:]] - p[t[:, :1]]
        vol = np.einsum("ij,ij->i", np.cross(e[:, 0], e[:, 1]), e[:, 2])
        t = t[np.abs(vol) > 1e-3]
        if len(t) >= 2 and len(np.unique(t)) == n:
            return p, t


def orient_tets_positive(v, t):
    t = t.copy()
    e = v[t[:, 1:]] - v[t[:, :1]]
    vol = np.einsum("ij,ij->i", np.cross(e[:, 0], e[:, 1]), e[:, 2])
    t[vol < 0] = t[vol < 0][:, [0, 2, 1, 3]]
    return t


def tet_stream(seed, n, size="small", modifiers=True):
    k = 0
    rnd = 0
    big = size != "small"
    while k < n:
        rng = rng_for(seed, "tet", rnd)
        rnd += 1
        bases = [("cube5", cube5()),
                 ("cube6-grid", cube_grid(int(rng.integers(1, 3 if not big else 4)), int(rng.integers(1, 3)), int(rng.integers(1, 2 if not big else 4)))),
                 ("delaunay3", delaunay_fill(rng, int(rng.integers(5, 10 if not big else 40))))]
        # elements of very different size in one mesh (volume ratio ~1e13): thresholds relative to the largest element must not exist
        if rnd % 2:
            mg = cube_grid(2, 2, 2)
            ticks = np.array([0.0, 10.0 ** rng.uniform(-4.8, -4.2), 1.0])
        else:
            mg = cube_grid(3, 3, 3)
            ticks = np.array([0.0, 10.0 ** rng.uniform(-3.5, -2.5), 1.0, 10.0 ** rng.uniform(2.5, 3.2)])
        bases.append(("multi-scale", (ticks[mg[0].astype(int)], mg[1])))
        g = cube_grid(2, 2, 1 if not big else 2)
        sub = rng.random(len(g[1])) < 0.6
        if sub.sum() >= 2:
            bases.append(("sub-collection", (g[0], g[1][sub])))
        for name, (v, t) in bases:
            tags = {name}
            v = np.array(v, float); t = orient_tets_positive(v, np.array(t, dtype=np.int64))
            if modifiers:
                if rng.random() < 0.5:
                    vj = jitter(rng, v, 0.03)
                    e = vj[t[:, 1:]] - vj[t[:, :1]]
                    if np.all(np.einsum("ij,ij->i", np.cross(e[:, 0], e[:, 1]), e[:, 2]) > 1e-3):   # stays a valid (non-inverted) mesh
                        v = vj; tags.add("jitter")
                if rng.random() < 0.5:
                    v = rigid(rng, v, reflect=False); tags.add("rigid")
                if rng.random() < 0.4:
                    t = flip_some(rng, t, 0.4); tags.add("flipped")
                if rng.random() < 0.3:
                    v, t, _ = relabel(rng, v, t); tags.add("relabelled")
                if rng.random() < 0.3:
                    t = permute_elems(rng, t); tags.add("permuted")
            case = dict(v=v, t=t, tags=tags, name=name)
            if True:
                # how the same mesh is handed to the implementation (values unchanged): memory layout, index dtype, integer coordinates
                pres = ["plain", "plain", "plain", "t-fortran", "vt-fortran", "t-int32", "transposed", "strided", "t-int8", "t-uint8", "t-int16", "t-uint32"][int(rng.integers(0, 12))]
                if pres == "transposed" and (len(v) < 4 or len(t) < 4 or len(v) == 3 or len(t) == 3):
                    pres = "t-fortran"
                if pres != "plain":
                    case["pres"] = pres; tags.add("pres:" + pres)
                if "rigid" not in tags and np.all(v == np.round(v)) and rng.random() < 0.6:
                    case["vdtype"] = "int64"; tags.add("int-coords")
            yield case
            k += 1
            if k >= n:
                return


# ------------------------------------------------------------------ functions

def vfuncs(rng, v, k=1):
    """k random smooth-ish vertex functions"""
    out = []
    for _ in range(k):
        a = rng.normal(size=3); b = rng.normal()
        out.append(v @ a + b + 0.3 * np.sin(v @ rng.normal(size=3)))
    return out


def histogram(cases, key=lambda c: c["name"]):
    h = {}
    for c in cases:
        h[key(c)] = h.get(key(c), 0) + 1
    return h
