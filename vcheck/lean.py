"""Lean side of a check: lake build (file-locked), axiom audit, source hygiene grep, driver process, leanchecker."""
import fcntl
import os
import re
import subprocess
import time

from . import repo

LEAN_DIR = os.path.join(repo.VERIF, "lean")
DRV = os.path.join(LEAN_DIR, ".lake", "build", "bin", "lapydrv")
ALLOWED_AXIOMS = {"propext", "Classical.choice", "Quot.sound"}
FORBIDDEN = re.compile(r"\bsorry\b|\badmit\b|^axiom |native_decide|bv_decide|implemented_by|\bunsafe |maxHeartbeats 0")


class _Lock:
    def __enter__(self):
        self.f = open(os.path.join(LEAN_DIR, ".lake.lock"), "w")
        fcntl.flock(self.f, fcntl.LOCK_EX)
        return self

    def __exit__(self, *a):
        fcntl.flock(self.f, fcntl.LOCK_UN)
        self.f.close()


def _run(cmd, timeout=3000):
    env = dict(os.environ)
    env.pop("LEAN_PATH", None)
    p = subprocess.run(cmd, cwd=LEAN_DIR, capture_output=True, text=True, timeout=timeout, env=env)
    return p.returncode, p.stdout + p.stderr


def build(targets, timeout=3000):
    """lake build of the given targets; returns (ok, log)"""
    with _Lock():
        rc, out = _run(["lake", "build"] + list(targets), timeout)
    return rc == 0, out


def strip_comments(text):
    text = re.sub(r"/-.*?-/", "", text, flags=re.S)
    return "\n".join(l.split("--")[0] for l in text.split("\n"))


def hygiene(files):
    """forbidden constructs (sorry, admit, axiom, native_decide, ...) outside comments"""
    hits = []
    for fn in files:
        with open(fn) as f:
            body = strip_comments(f.read())
        for n, l in enumerate(body.split("\n"), 1):
            if FORBIDDEN.search(l):
                hits.append("%s:%d: %s" % (os.path.relpath(fn, LEAN_DIR), n, l.strip()[:100]))
    return hits


def module_file(mod):
    return os.path.join(LEAN_DIR, *mod.split(".")) + ".lean"


def local_imports(mod, seen=None):
    """transitive LapyVerif.* imports of a module (file paths)"""
    seen = {} if seen is None else seen
    if mod in seen:
        return seen
    fn = module_file(mod)
    seen[mod] = fn
    try:
        with open(fn) as f:
            for l in f:
                m = re.match(r"\s*import\s+(LapyVerif\.\S+)", l)
                if m:
                    local_imports(m.group(1), seen)
    except FileNotFoundError:
        pass
    return seen


def audit(audit_mod, timeout=3000):
    """Build the audit module of a property and read the axioms of every listed theorem.

    returns dict(obligations=[names], discharged=[names], failed={name: reason}, log=str, build_ok=bool)
    """
    fn = module_file(audit_mod)
    with open(fn) as f:
        names = re.findall(r"^#print axioms\s+(\S+)", f.read(), flags=re.M)
    res = dict(obligations=names, discharged=[], failed={}, log="", build_ok=False)
    t0 = time.time()
    ok, out = build([audit_mod], timeout)
    res["build_s"] = round(time.time() - t0, 1)
    res["log"] = out
    res["build_ok"] = ok
    mods = local_imports(audit_mod)
    hits = hygiene([p for p in mods.values() if os.path.exists(p)])
    if hits:
        for n in names:
            res["failed"][n] = "forbidden construct in sources: " + "; ".join(hits[:3])
        return res
    if not ok:
        # which modules failed?  every theorem of the audit is undischarged; name the failing declarations
        errs = re.findall(r"error: ([^\n]*\.lean:\d+:\d+: [^\n]*)", out)
        bad_mods = re.findall(r"^- (LapyVerif\.\S+)", out, flags=re.M)
        res["bad_modules"] = bad_mods
        res["errors"] = errs[:20]
        res["failed_decls"] = failing_decls(out)
        for d in res["failed_decls"] or ["lake build " + audit_mod]:
            res["failed"]["lean: " + d] = "does not check any more (build of %s failed)" % ",".join(bad_mods or ["?"])
        return res
    with _Lock():
        rc, out2 = _run(["lake", "env", "lean", fn], timeout)
    res["log"] += out2
    ax = {}
    for m in re.finditer(r"'(\S+)' depends on axioms: \[([^\]]*)\]", out2):
        ax[m.group(1)] = {a.strip() for a in m.group(2).replace("\n", " ").split(",") if a.strip()}
    for m in re.finditer(r"'(\S+)' does not depend on any axioms", out2):
        ax[m.group(1)] = set()
    for n in names:
        if n not in ax:
            res["failed"][n] = "no axiom report (declaration missing?)"
        elif not ax[n] <= ALLOWED_AXIOMS:
            res["failed"][n] = "axioms: " + ", ".join(sorted(ax[n] - ALLOWED_AXIOMS))
        else:
            res["discharged"].append(n)
    return res


def failing_decls(log):
    """names of the theorems in which Lean reported an error (by locating the error line in the file)"""
    out = []
    for m in re.finditer(r"error: (\S+\.lean):(\d+):\d+:", log):
        path = os.path.join(LEAN_DIR, m.group(1))
        line = int(m.group(2))
        try:
            with open(path) as f:
                lines = f.read().split("\n")
        except OSError:
            continue
        name = None
        for k in range(min(line, len(lines)) - 1, -1, -1):
            mm = re.match(r"\s*(?:private\s+|protected\s+)?(?:theorem|lemma|def|example|instance)\s+(\S+)?", lines[k])
            if mm:
                name = mm.group(1) or "example"
                break
        tag = "%s:%s" % (m.group(1), name)
        if tag not in out:
            out.append(tag)
    return out


def leanchecker(mods, timeout=3000):
    with _Lock():
        rc, out = _run(["lake", "env", "leanchecker"] + list(mods), timeout)
    return rc == 0, out


class Driver:
    """the compiled model driver, spoken to through the line protocol"""

    def __init__(self):
        ok, out = build(["lapydrv"])
        if not ok or not os.path.exists(DRV):
            raise RuntimeError("driver build failed:\n" + out[-3000:])
        self.p = subprocess.Popen([DRV], stdin=subprocess.PIPE, stdout=subprocess.PIPE, text=True, bufsize=1 << 20)
        self.n = 0

    def ask(self, line):
        self.n += 1
        self.p.stdin.write(line + "\n")
        self.p.stdin.flush()
        r = self.p.stdout.readline()
        if not r:
            raise RuntimeError("driver died on: " + line[:200])
        return r.rstrip("\n")

    def close(self):
        try:
            self.p.stdin.close()
            self.p.wait(5)
        except Exception:
            self.p.kill()
