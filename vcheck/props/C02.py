"""C02 — mass matrix is the exact piecewise-linear L2 inner product."""
import numpy as np

from .. import repo, core, gen, extract, corr_fem, wire
from ..base import BaseCheck
from lapy import TriaMesh, Solver


def quad_l2(kind, v, t, x, y):
    """independent evaluation of the integral of x_h*y_h: degree-2 exact quadrature at interior points"""
    if kind == "tri":
        area = corr_fem.tri_geom(v, t)[4]
        # 3-point interior rule (1/6,1/6,2/3) - exact for degree 2
        bary = np.array([[2 / 3, 1 / 6, 1 / 6], [1 / 6, 2 / 3, 1 / 6], [1 / 6, 1 / 6, 2 / 3]])
        xs = x[t] @ bary.T; ys = y[t] @ bary.T
        return float(np.sum(area[:, None] / 3 * xs * ys))
    _, det = corr_fem.tet_geom(v, t)
    vol = np.abs(det) / 6
    a = (5 + 3 * 5 ** 0.5) / 20; b = (5 - 5 ** 0.5) / 20          # 4-point degree-2 rule
    bary = np.full((4, 4), b); np.fill_diagonal(bary, a)
    xs = x[t] @ bary.T; ys = y[t] @ bary.T
    return float(np.sum(vol[:, None] / 4 * xs * ys))


class Check(BaseCheck):
    id = "C02"
    audit_mod = "LapyVerif.Audit.C02"
    leanchecker_mods = ["LapyVerif.Props.C02"]
    rule = ("same generator families as C01 x lump x dtype x entry point (Solver.mass, Solver.fem_tria_mass); a case is "
            "non-trivial if it has >= 3 elements and is distinct by hash of (vertices, elements, lump, dtype, entry point)")
    trusted = ["'exact integral' is expressed by the barycentric moment formula (= edge-midpoint rule, proved equal); the formula itself is adopted as definition",
               "generalisation from the traced one-element topology to all meshes; cross-checked differentially"]
    assumptions = ["NonDegen: complement of the code's own guards"]

    def translate(self):
        extract.gen_fem()

    def correspond(self, drv, stats):
        fails = []
        n_tri, n_tet, size = (24, 8, "small") if self.quick else (500, 150, "large")
        corr_fem.run_stream(drv, stats, self.seed + 7, n_tri, n_tet, size, fails, "fem correspondence (stiffness/mass vs model)",
                            dtypes=("f64", "f32", "f64"))
        fails += corr_fem.huge_postconditions("mass", stats)
        # stand-alone routine
        k = 0
        rs = gen.rng_for(self.seed, "c02-sliver-sa")
        slivers = []
        for h in (1e-5, 1e-6, 1e-7):
            sv, st = gen.sliver(rs, h)
            slivers += [dict(v=sv, t=np.roll(st, rot, axis=1), name="sliver", tags={"sliver"}) for rot in range(3)]
        stream = list(gen.tria_stream(self.seed + 8, n_tri, size))
        # every presentation at least once, on meshes with non-uniform triangle areas
        nonuni = [c for c in stream if np.ptp(corr_fem.tri_geom(c["v"], c["t"])[4]) > 0.05 * corr_fem.tri_geom(c["v"], c["t"])[4].mean()][:len(gen.PRES)]
        extra = [dict(c, pres=p, tags=set(c["tags"]) | {"pres:" + p}) for c, p in zip(nonuni * 3, gen.PRES) if nonuni]
        for c in slivers + extra + stream:
            for lump in (False, True):
                k += 1
                v, t = c["v"], c["t"]
                with core.quiet():
                    b = Solver.fem_tria_mass(TriaMesh(*gen.arrays(c, keep_int=False)), lump)
                r = wire.Reply(drv.ask("mass_tria %d %s %s" % (int(lump), wire.verts(v), wire.elems(t))))
                stats.case(core.mesh_key(v, t, lump, "standalone"), cls=["standalone:" + c["name"]],
                           sample=dict(entry="fem_tria_mass", name=c["name"], nv=len(v), nt=len(t), lump=lump) if k == 1 else None)
                if r.status != "ok":
                    fails.append(core.Failure("correspondence", "fem_tria_mass vs model", r.raw[:200]))
                    continue
                mb = core.sparse_from(*r.coo(), len(v))[: b.shape[0], : b.shape[1]]
                e = core.sparse_relerr(b, mb)
                if not e <= 1e-9:
                    fails.append(core.Failure("correspondence", "fem_tria_mass vs model", "%s lump=%s rel.err %.3g" % (c["name"], lump, e),
                                              corr_fem.case_dict("tri", v, t, lump=lump, name=c["name"], pres=c.get("pres"))))
        return fails

    def search_cases(self):
        for k, c in enumerate(gen.tria_stream(self.seed + 1, 40 if self.quick else 300, "small")):
            for lump in (False, True):
                yield corr_fem.case_dict("tri", c["v"] * corr_fem.SCALES[k % len(corr_fem.SCALES)], c["t"], lump=lump, dt="f64", name=c["name"], pres=c.get("pres"))
        for c in gen.tet_stream(self.seed + 1, 12 if self.quick else 100, "small"):
            for lump in (False, True):
                yield corr_fem.case_dict("tet", c["v"], c["t"], lump=lump, name=c["name"])
        rs = gen.rng_for(self.seed, "c02-sliver")
        for h in (1e-5, 1e-6, 1e-7):
            v, t = gen.sliver(rs, h)
            for rot in range(3):
                yield corr_fem.case_dict("tri", v, np.roll(t, rot, axis=1), lump=bool(rot % 2), dt="f64", name="sliver")

    def oracle(self, case):
        if case.get("input_class") == "huge":
            for f in corr_fem.huge_postconditions("mass"):
                return core.Violation("huge-mesh", f.detail + " (mesh generated by corr_fem.huge_meshes)", case)
            return None
        kind = case["kind"]
        v = np.asarray(case["v"], dtype=np.float64); t = np.asarray(case["t"], dtype=np.int64)
        if len(np.unique(t)) != len(v):
            return None
        if kind == "tri" and np.min(np.linalg.norm(corr_fem.tri_geom(v, t)[3], axis=1)) < 4 * np.finfo(float).eps:
            return None            # below the kernel's own absolute degeneracy guard (2^-52): outside the property's quantifier
        try:
            _, sf = corr_fem.impl_fem(kind, v, t, False, pres=case.get("pres"))
            _, sl = corr_fem.impl_fem(kind, v, t, True, pres=case.get("pres"))
        except Exception as e:  # noqa: BLE001
            return core.Violation("mass", "Solver raised %s: %s" % (type(e).__name__, e), case)
        b = sf.mass.astype(np.float64); bl = sl.mass.astype(np.float64)
        n = b.shape[0]
        scale = max(abs(b).max(), 1e-300)
        if abs(b - b.T).max() > 1e-12 * scale:
            return core.Violation("symmetric", "mass not symmetric", case)
        if not (np.all(b.data > 0) and np.all(bl.data > 0)):
            return core.Violation("positive", "non-positive stored mass entry", case)
        meas = corr_fem.tri_geom(v, t)[4].sum() if kind == "tri" else (np.abs(corr_fem.tet_geom(v, t)[1]) / 6).sum()
        for nm, mm in (("full", b), ("lumped", bl)):
            if abs(mm.sum() - meas) > 1e-9 * meas:
                return core.Violation("total", "%s mass entries sum to %.12g, total measure %.12g" % (nm, mm.sum(), meas), case,
                                      observed=float(mm.sum()), expected=float(meas))
        rng = gen.rng_for(self.seed, "c02-oracle", n)
        for _ in range(3):
            x = rng.normal(size=n); y = rng.normal(size=n)
            lhs = float(x @ (b @ y)); rhs = quad_l2(kind, v, t, x, y)
            if abs(lhs - rhs) > 1e-9 * max(abs(lhs), abs(rhs), scale):
                return core.Violation("l2-form", "x·B·y = %.12g, quadrature of x_h*y_h = %.12g" % (lhs, rhs), case, observed=lhs, expected=rhs)
        rows = np.asarray(b.sum(axis=1)).ravel()
        if (bl - bl.multiply(__import__("scipy").sparse.eye(n))).nnz != 0 or np.max(np.abs(bl.diagonal() - rows)) > 1e-10 * scale:
            return core.Violation("lumped", "lumped mass is not the diagonal of row sums of the full mass", case)
        if kind == "tri":
            for lump, ref in ((False, b), (True, bl)):
                with core.quiet():
                    bs = Solver.fem_tria_mass(TriaMesh(*gen.present(v, t, case.get("pres") or "plain")), lump)
                if bs.shape != ref.shape or abs(bs - ref).max() > 1e-12 * scale:
                    return core.Violation("standalone", "fem_tria_mass(lump=%s) differs from Solver.mass" % lump, case)
        return None
