"""C03 — eigs returns the smallest generalized eigenpairs, ordered and B-orthonormal."""
import numpy as np
import scipy.linalg

from .. import repo, core, gen, wire, extract, capture, astx
from ..base import BaseCheck
from .C05 import components
from lapy import TriaMesh, TetMesh, Solver


def mk(kind, v, t):
    with core.quiet():
        return TriaMesh(v, t) if kind == "tri" else TetMesh(v, t)


def run_eigs(kind, v, t, lump, k, dt=np.float64, pre=None):
    """`pre`: what was done with the same Solver object before: None (fresh), "poisson" (a Poisson solve without Dirichlet data,
    as diffgeo does), "poisson-d" (with Dirichlet data), "eigs" (another eigs call with a different k)"""
    with core.quiet():
        s = Solver(mk(kind, np.asarray(v, dtype=dt), t), lump=lump)
        n = len(v)
        try:
            if pre == "poisson":
                s.poisson(np.sin(np.arange(n)) - np.mean(np.sin(np.arange(n))))
            elif pre == "poisson-d":
                s.poisson(1.0, (np.array([0]), np.array([0.5])))
            elif pre == "eigs":
                s.eigs(max(1, min(n - 1, k + 1 if k + 1 < n else k - 1)))
        except RuntimeError:
            pass           # singular factor (finding F15 of C08): the object is still usable
        with capture.capture() as calls:
            ev, evec = s.eigs(k)
    return s, calls, np.asarray(ev, dtype=float), np.asarray(evec, dtype=float)


def monitor(s, ev, evec, kind, v, t, k):
    """the contract of the external eigensolver + the property's clauses, evaluated on one call; returns (clause, message) or None"""
    A = s.stiffness.astype(float); B = s.mass.astype(float)
    n = A.shape[0]
    scaleA = max(abs(A).max(), 1e-300)
    if ev.shape != (k,) or evec.shape != (n, k):
        return ("shape", "eigs(%d) returned shapes %s %s" % (k, ev.shape, evec.shape))
    if np.any(np.diff(ev) < -1e-8 * max(1.0, abs(ev).max())):
        return ("ascending", "eigenvalues not ascending: %s" % ev[:6])
    res = A @ evec - (B @ evec) * ev[None, :]
    rn = np.max(np.abs(res)) / max(scaleA * np.abs(evec).max(), 1e-300)
    if rn > 1e-6:
        return ("residual", "A x = lambda B x violated: relative residual %.3g" % rn)
    G = evec.T @ (B @ evec)
    if np.max(np.abs(G - np.eye(k))) > 1e-6:
        return ("B-orthonormal", "eigenvectors not orthonormal in the mass inner product (max dev %.3g)" % np.max(np.abs(G - np.eye(k))))
    if n <= 120:
        # dense reference on the diagonally equilibrated pencil (same eigenvalues; graded meshes / small units make B badly scaled)
        dsc = 1.0 / np.sqrt(np.maximum(B.diagonal(), 1e-300))
        w = scipy.linalg.eigh(dsc[:, None] * A.toarray() * dsc[None, :], dsc[:, None] * B.toarray() * dsc[None, :], eigvals_only=True)
        tol = 1e-6 * max(1.0, abs(w[:k]).max()) + 1e-7 + 1e-11 * abs(w).max()          # the dense solver is accurate to ~eps * largest eigenvalue
        if np.max(np.abs(w[:k] - ev)) > tol:
            return ("smallest", "returned values differ from the k smallest of the dense reference: %s vs %s" % (ev[:5], w[:5]))
    comp = components(n, t)
    ncomp = len(set(comp))
    # "numerically zero" is judged against the first eigenvalue that must be positive (index = number of components), not against
    # the largest returned one (graded meshes have spectra spanning ten orders of magnitude)
    lam_max = float(np.max(A.diagonal() / np.maximum(np.asarray(B.sum(axis=1)).ravel(), 1e-300)))       # scale of the largest eigenvalue
    nz = int(np.sum(np.abs(ev) < 1e-7 * max(1.0, abs(ev[min(k - 1, ncomp)])) + 1e-13 * lam_max))
    if nz != min(ncomp, k):
        return ("zero-eigenvalues", "%d numerically zero eigenvalues, %d components (k=%d)" % (nz, ncomp, k))
    for j in range(nz):
        x = evec[:, j]
        # the zero eigenspace is spanned by the component indicators: x must be constant on each component
        for r in set(comp):
            vals = x[[i for i in range(n) if comp[i] == r]]
            if np.ptp(vals) > 1e-5 * max(np.abs(x).max(), 1e-30):
                return ("zero-eigenvector", "zero eigenvector %d not constant on components" % j)
    return None


# ARPACK's Lanczos iteration starts from a random vector that scipy draws anew for every call; on EXACTLY repeated eigenvalues (perfectly
# symmetric meshes, congruent components) a single run occasionally misses a copy (observed on the unmodified library: of the order of 1 call
# in 100).  Completeness is the assumed contract of the external kernel; a deviation that depends on the start vector is filtered by repeating
# the call: the clause is reported only if it fails in the majority of three independent calls (a defect of LaPy's own code persists).
START_VECTOR_CLAUSES = ("smallest", "zero-eigenvalues", "zero-eigenvector")


def majority(case, first, stats):
    bad = [first]
    for _ in range(2):
        try:
            s2, _, ev2, evec2 = run_eigs(case["kind"], np.asarray(case["v"], float), np.asarray(case["t"], dtype=np.int64), bool(case["lump"]), int(case["k"]),
                                         pre=case.get("pre"))
        except Exception as e:  # noqa: BLE001
            bad.append(("runs", "eigs raised %s on a repeated call: %s" % (type(e).__name__, e)))
            continue
        m2 = monitor(s2, ev2, evec2, case["kind"], np.asarray(case["v"], float), np.asarray(case["t"], dtype=np.int64), int(case["k"]))
        if m2 is not None:
            bad.append(m2)
    if len(bad) >= 2:
        return first
    if stats is not None:
        stats.monitor("eigsh deviations that did not repeat with another random start vector (contract of the external kernel)")
    return None


class Check(BaseCheck):
    id = "C03"
    audit_mod = "LapyVerif.Audit.C03"
    rule = ("triangle and tetra generator families without unused vertices (closed, with boundary, several components) x k (quick: 3 values per "
            "mesh; thorough: every k in 1..N-1 on small meshes) x lump x vertex dtype; the matrix factorised by SuperLU and the arguments of "
            "eigsh are captured and compared with the model's A - sigma*B / call shape; distinct by hash of (mesh, k, lump, dtype)")
    trusted = ["ARPACK eigsh in shift-invert mode: converged, complete (no skipped eigenvalue), B-orthonormal output — assumed by the theorems, "
               "monitored on every call (residual, Gram matrix, order, dense scipy.linalg.eigh reference, zero-eigenvalue count vs components)",
               "SuperLU factorisation of the positive definite A - sigma*B"]
    assumptions = ["contract of eigsh/splu as above; theorems cover the shift-invert algebra, positivity, ordering, B-orthogonality and the kernel"]

    def translate(self):
        extract.gen_fem()
        extract.gen_solver_glue()
        self.sigma = float(astx.gen_eigs()[1])

    def problems(self, seed, n_tri, n_tet):
        rng = gen.rng_for(seed, "c03")
        # several components, each much larger than k (the Krylov space must reach every component)
        a, ta = gen.icosphere(1); b, tb = gen.torus(7, 6)
        v2, t2 = gen.union((a * rng.uniform(0.8, 1.2, 3), ta), (b, tb))
        for k in (2, 3, int(rng.integers(4, 8))):
            yield dict(kind="tri", v=v2, t=t2, k=k, lump=bool(rng.random() < 0.5), name="two-large-components", dt="f64", pre=None)
        for kind, stream in (("tri", gen.tria_stream(seed + 91, n_tri, "small", first=("two-components", "two-spheres"))), ("tet", gen.tet_stream(seed + 92, n_tet, "small"))):
            for c in stream:
                n = len(c["v"])
                if len(np.unique(c["t"])) != n or n < 5:
                    continue
                if kind == "tri":
                    from .. import corr_fem
                    if np.min(np.linalg.norm(corr_fem.tri_geom(c["v"], c["t"])[3], axis=1)) < 4 * np.finfo(float).eps:
                        continue          # triangles below the kernel's absolute 2^-52 guard are replaced by design: outside the quantifier
                ks = sorted({1, int(rng.integers(2, max(3, n - 1))), min(n - 1, 6)}) if self.quick or n > 30 else list(range(1, n))
                multi = c["name"] in ("two-components", "two-spheres")
                for k in ks:
                    if 1 <= k < n:
                        yield dict(kind=kind, v=c["v"], t=c["t"], k=int(k), lump=bool(rng.random() < 0.5), name=c["name"],
                                   dt="f64" if (multi or c["name"] == "multi-scale" or any(str(x).startswith(("far-offset", "unit:")) for x in c["tags"])) else ("f32" if rng.random() < 0.2 else "f64"), pres=c.get("pres"), vdtype=c.get("vdtype"), pre=[None, None, "poisson", "poisson-d", "eigs"][int(rng.integers(0, 5))])

    def correspond(self, drv, stats):
        fails = []
        if not hasattr(self, "sigma"):
            self.sigma = float(astx.gen_eigs()[1])
        n_tri, n_tet = (12, 4) if self.quick else (150, 40)
        for case in self.problems(self.seed, n_tri, n_tet):
            v, t, k = case["v"], case["t"], case["k"]
            gen.use(case)
            dt = np.float32 if case["dt"] == "f32" else np.float64
            stats.case(core.mesh_key(v, t, k, case["lump"], case["dt"]), cls=[case["kind"] + ":" + case["name"], "lump:%s" % case["lump"], "dtype:" + case["dt"], "solver-used-before:%s" % case.get("pre")],
                       sample=dict(kind=case["kind"], name=case["name"], n=len(v), k=k, lump=case["lump"]))
            try:
                s, calls, ev, evec = run_eigs(case["kind"], v, t, case["lump"], k, dt, case.get("pre"))
            except Exception as e:  # noqa: BLE001
                fails.append(core.Failure("correspondence", "eigs vs model", "impl raised %s: %s" % (type(e).__name__, e), case)); continue
            if len(calls.splu) != 1 or len(calls.eigsh) != 1:
                fails.append(core.Failure("correspondence", "eigs: external calls", "%d splu, %d eigsh calls" % (len(calls.splu), len(calls.eigsh)), case)); continue
            vv = np.asarray(v, dtype=dt).astype(float)
            r = wire.Reply(drv.ask("shift_sys %s %d %s %s %s" % (case["kind"], int(case["lump"]), wire.verts(vv), wire.elems(t), wire.fhex(self.sigma))))
            sm = core.sparse_from(*r.coo(), len(v)) if r.status == "ok" else None
            e = core.sparse_relerr(calls.splu[0]["a"].astype(float), sm) if sm is not None and sm.shape == calls.splu[0]["a"].shape else float("inf")
            if e > (1e-9 if case["dt"] == "f64" else 2e-4):
                fails.append(core.Failure("correspondence", "eigs: matrix factorised vs model A - sigma*B", "rel.err %.3g" % e, case))
            ca = calls.eigsh[0]
            okargs = (ca["args"][0] is s.stiffness and ca["args"][1] == k and ca["args"][2] is s.mass and ca["kwargs"].get("sigma") == self.sigma
                      and "OPinv" in ca["kwargs"] and ca["kwargs"].get("which", "LM") == "LM")
            if not okargs:
                fails.append(core.Failure("correspondence", "eigs: arguments of eigsh vs model", "args %s kwargs %s" % (str(ca["args"][1]), sorted(ca["kwargs"])), case))
            if case["dt"] == "f64":
                mon = monitor(s, ev, evec, case["kind"], v, t, k)
                stats.monitor("eigsh contract checked")
                if mon is not None and mon[0] in START_VECTOR_CLAUSES:
                    mon = majority(case, mon, stats)
                if mon is not None:
                    fails.append(core.Failure("monitor", "eigsh contract: " + mon[0], mon[1], case))
            if len(fails) > 5:
                break
        return fails

    def search_cases(self):
        yield from self.problems(self.seed + 7, 14 if self.quick else 100, 5 if self.quick else 30)
        # failing-input search only: a large, finely sampled float64 surface with two components (> 50000 vertices in a unit of area:
        # size- and conditioning-dependent code paths of the eigen-solve show here, nowhere on the small meshes)
        gv, gt = gen.grid(165, 165)
        gv = np.array(gv, float); gv = gv / gv.max() * 0.8
        gv[:, 2] = 0.02 * np.sin(9 * gv[:, 0]) * np.cos(7 * gv[:, 1])
        v2, t2 = gen.union((gv, gt), (gv * np.array([1.0, 0.9, 1.0]), gt), shift=(2.0, 0.0, 0.0))
        yield dict(kind="tri", v=v2, t=t2, k=4, lump=False, name="two-fine-sheets", dt="f64", pre=None)

    def oracle(self, case):
        v = np.asarray(case["v"], float); t = np.asarray(case["t"], dtype=np.int64); k = int(case["k"])
        try:
            s, calls, ev, evec = run_eigs(case["kind"], v, t, bool(case["lump"]), k, pre=case.get("pre"))
        except Exception as e:  # noqa: BLE001
            return core.Violation("runs", "eigs raised %s: %s" % (type(e).__name__, e), case)
        mon = monitor(s, ev, evec, case["kind"], v, t, k)
        if mon is not None and mon[0] in START_VECTOR_CLAUSES:
            mon = majority(dict(case, v=v, t=t), mon, None)
        return None if mon is None else core.Violation(mon[0], mon[1], case)
