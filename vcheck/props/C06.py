"""C06 — gradient and divergence are exact on linear data and mutually adjoint."""
import itertools
import numpy as np

from .. import repo, core, gen, extract, corr_fem, wire
from ..base import BaseCheck
from lapy import TriaMesh, TetMesh, Solver, diffgeo


def vec_from_coo(i, j, d, n):
    out = np.zeros(n)
    np.add.at(out, i, d)
    return out


def mk(kind, v, t):
    with core.quiet():
        return TriaMesh(v, t) if kind == "tri" else TetMesh(v, t)


class Check(BaseCheck):
    id = "C06"
    audit_mod = "LapyVerif.Audit.C06"
    leanchecker_mods = ["LapyVerif.Props.C06", "LapyVerif.Bridge.DiffGeo"]
    rule = ("generator families of C01 (triangle and tetra meshes incl. unoriented, non-manifold, mixed orientation) x random vertex "
            "functions x random element vector fields (generic, not only tangential); distinct by hash of (mesh, function)")
    trusted = ["generalisation from the traced one-element topology (two orientations for tetrahedra) to all meshes; cross-checked differentially"]
    assumptions = ["complement of the kernels' own guards (|n| >= 2^-52, |det| >= 2^-52)"]

    def translate(self):
        extract.gen_fem()
        extract.gen_diffgeo()
        extract.gen_dispatch()

    def correspond(self, drv, stats):
        fails = []
        n_tri, n_tet, size = (24, 18, "small") if self.quick else (400, 150, "large")
        rng = gen.rng_for(self.seed, "c06")
        p6 = np.array([[0, 0, 0], [1, 0, 0], [0, 1, 0], [0, 0, 1], [1, 1, 1], [-1, 0.2, 0.3]], float) + 0.05 * rng.normal(size=(6, 3))
        tiny_tets = [dict(v=p6, t=gen.orient_tets_positive(p6, np.array([[0, 1, 2, 3], [1, 2, 3, 4], [0, 2, 1, 5]])), name="three-tets", tags={"three-tets"}),
                     dict(v=p6[:5], t=gen.orient_tets_positive(p6[:5], np.array([[0, 1, 2, 3], [1, 2, 3, 4], [0, 1, 2, 4], [0, 1, 3, 4]])[:4]), name="four-tets", tags={"four-tets"})]
        for kind, stream in (("tri", gen.tria_stream(self.seed + 3, n_tri, size, first=("fan3", "tetra-surface"))), ("tet", itertools.chain(tiny_tets, gen.tet_stream(self.seed + 3, n_tet, size)))):
            for kk, c in enumerate(stream):
                sc = corr_fem.SCALES[kk % len(corr_fem.SCALES)]
                v, t = c["v"] * sc, c["t"]
                vint = c.get("vdtype") == "int64" and sc == 1.0
                m = mk(kind, *gen.present(v, t, c.get("pres") or "plain", vint))
                f = gen.vfuncs(rng, v)[0]
                X = rng.normal(size=(len(t), 3))
                # dtype of the function / field handed to the implementation (the model sees the same values)
                fdt = str(rng.choice(["float64", "float64", "int64", "int64", "uint8", "float32"]))
                if fdt == "float32" and (c["name"] == "multi-scale" or any(str(x).startswith(("far-offset", "unit:")) for x in c["tags"])):
                    fdt = "float64"          # single-precision function values on elements of size 1e-5: conditioning, not the property
                xdt = str(rng.choice(["float64", "float64", "int64"]))
                if fdt in ("int64", "uint8"):
                    f = np.round(4 * f / max(np.abs(f).max(), 1e-30)) + (4 if fdt == "uint8" else 0)
                elif fdt == "float32":
                    f = f.astype(np.float32).astype(np.float64)
                if xdt == "int64":
                    X = np.round(3 * X)
                f_in = f.astype(fdt); X_in = X.astype(xdt)
                tag = "%s:%s" % (kind, c["name"])
                stats.case(core.mesh_key(v, t, f[:3]), cls=[tag, "f-dtype:" + fdt, "X-dtype:" + xdt, "int-coords:%s" % vint] + ["mod:" + x for x in c["tags"] if x != c["name"]],
                           sample=dict(kind=kind, name=c["name"], nv=len(v), nt=len(t)))
                sfx = "tri" if kind == "tri" else "tet"
                with core.quiet():
                    g_i = diffgeo.compute_gradient(m, f_in)
                    d_i = diffgeo.compute_divergence(m, X_in)
                r = wire.Reply(drv.ask("grad_%s %s %s %s" % (sfx, wire.verts(v), wire.elems(t), wire.rawfloats(f))))
                g_m = r.v3s() if r.status == "ok" else None
                r2 = wire.Reply(drv.ask("div_%s %s %s %s" % (sfx, wire.verts(v), wire.elems(t), wire.rawfloats(X))))
                d_m = vec_from_coo(*r2.coo(), len(d_i)) if r2.status == "ok" else None
                case = dict(kind=kind, v=v, t=t, f=f, X=X, name=c["name"], fdt=fdt, xdt=xdt, pres=c.get("pres"), vint=vint)
                tolg = 1e-9 if fdt != "float32" else 1e-5
                if g_m is None or core.relerr(g_i, g_m) > tolg:
                    fails.append(core.Failure("correspondence", "gradient kernel vs model", "%s rel.err %s" % (tag, None if g_m is None else core.relerr(g_i, g_m)), case))
                if d_m is None or core.relerr(d_i, d_m) > 1e-9:
                    fails.append(core.Failure("correspondence", "divergence kernel vs model", "%s rel.err %s" % (tag, None if d_m is None else core.relerr(d_i, d_m)), case))
                if kind == "tri":
                    with core.quiet():
                        d2_i = diffgeo.tria_compute_divergence2(m, X_in)
                    r3 = wire.Reply(drv.ask("div_tri2 %s %s %s" % (wire.verts(v), wire.elems(t), wire.rawfloats(X))))
                    d2_m = vec_from_coo(*r3.coo(), len(d2_i)) if r3.status == "ok" else None
                    if d2_m is None or core.relerr(d2_i, d2_m) > 1e-9:
                        fails.append(core.Failure("correspondence", "divergence2 kernel vs model", tag, case))
                if len(fails) > 6:
                    return fails
        # dispatch
        class Other:
            pass
        def lookalike(nm, tet=False):
            """an object of a foreign class with mesh-like attributes whose type NAME merely resembles a supported one"""
            src = mk("tet", *gen.cube5()) if tet else mk("tri", *gen.grid(2, 2))
            o = type(nm, (), {})()
            o.v, o.t = np.array(src.v), np.array(src.t)
            return o
        for obj, name in ((mk("tri", *gen.grid(2, 2)), "TriaMesh"), (mk("tet", *gen.cube5()), "TetMesh"), (Other(), "Other"), (None, "NoneType"),
                          (lookalike("Mesh", True), "Mesh"), (lookalike("Tria"), "Tria"), (lookalike("Tet"), "Tet"), (lookalike("TriaMesh2"), "TriaMesh2"),
                          (lookalike("triamesh"), "triamesh")):
            r = drv.ask("dispatch " + name)
            for fn in (diffgeo.compute_gradient, diffgeo.compute_divergence):
                res = core.call(fn, obj, np.zeros((len(obj.v) if hasattr(obj, "v") else 1,)) if fn is diffgeo.compute_gradient
                                else np.zeros((len(obj.t) if hasattr(obj, "t") else 1, 3)))
                got = "ok " + ("tri" if name == "TriaMesh" else "tet") if res[0] == "ok" else "err " + res[1]
                stats.case("dispatch" + name + fn.__name__, cls="dispatch")
                if got != r:
                    fails.append(core.Failure("correspondence", "dispatch of %s" % fn.__name__, "type %s: impl %s model %s" % (name, got, r),
                                              dict(kind="dispatch", name=name, fn=fn.__name__)))
        return fails

    # ---- oracle
    def search_cases(self):
        rng = gen.rng_for(self.seed, "c06s")
        p6 = np.array([[0, 0, 0], [1, 0, 0], [0, 1, 0], [0, 0, 1], [1, 1, 1], [-1, 0.2, 0.3]], float) + 0.05 * rng.normal(size=(6, 3))
        three = [dict(v=p6, t=gen.orient_tets_positive(p6, np.array([[0, 1, 2, 3], [1, 2, 3, 4], [0, 2, 1, 5]])), name="three-tets", tags={"three-tets"})]
        # cap triangles (one vertex almost on the opposite edge, height/base 1e-6 .. 1e-7, far above the kernels' absolute guard): formulas that
        # are algebraically equal to the cross-product ones (Heron, Lagrange) lose half of their digits here
        for h in (1e-6, 3e-7, 1e-7):
            sv, st = gen.sliver(rng, h)
            for rot in range(3):
                yield dict(kind="tri", v=sv, t=np.roll(st, rot, axis=1), f=gen.vfuncs(rng, sv)[0], X=rng.normal(size=(len(st), 3)), name="sliver", fdt="float64", xdt="float64")
        for kind, stream in (("tri", gen.tria_stream(self.seed + 4, 30 if self.quick else 200, "small", first=("fan3", "tetra-surface"))),
                             ("tet", itertools.chain(three, gen.tet_stream(self.seed + 4, 16 if self.quick else 100, "small")))):
            for kk, c in enumerate(stream):
                v = c["v"] * corr_fem.SCALES[kk % len(corr_fem.SCALES)]
                f = gen.vfuncs(rng, v)[0]; X = rng.normal(size=(len(c["t"]), 3))
                fdt = ["float64", "int64", "float64", "uint8"][kk % 4]; xdt = ["float64", "float64", "int64"][kk % 3]
                if fdt != "float64":
                    f = np.round(4 * f / max(np.abs(f).max(), 1e-30)) + (4 if fdt == "uint8" else 0)
                if xdt == "int64":
                    X = np.round(3 * X)
                yield dict(kind=kind, v=v, t=c["t"], f=f, X=X, name=c["name"], fdt=fdt, xdt=xdt, pres=c.get("pres"),
                           vint=bool(c.get("vdtype") == "int64" and corr_fem.SCALES[kk % len(corr_fem.SCALES)] == 1.0))

    def oracle(self, case):
        if case.get("kind") == "dispatch":
            nm = case["name"]
            if nm in ("TriaMesh", "TetMesh", "NoneType"):
                return None
            src = mk("tet", *gen.cube5()) if nm == "Mesh" else mk("tri", *gen.grid(2, 2))
            o = type(nm, (), {})()
            o.v, o.t = np.array(src.v), np.array(src.t)
            for fn, arg in ((diffgeo.compute_gradient, np.zeros(len(o.v))), (diffgeo.compute_divergence, np.zeros((len(o.t), 3)))):
                res = core.call(fn, o, arg)
                if not (res[0] == "err" and res[1] == "ValueError"):
                    return core.Violation("dispatch", "%s does not reject an object of the foreign class `%s` with ValueError: %s" % (fn.__name__, nm, res[0] if res[0] == "ok" else res[1]), case)
            return None
        kind = case["kind"]
        v = np.asarray(case["v"], float); t = np.asarray(case["t"], dtype=np.int64)
        f = np.asarray(case["f"], float); X = np.asarray(case["X"], float)
        m = mk(kind, *gen.present(v, t, case.get("pres") or "plain", bool(case.get("vint"))))
        f_in = f.astype(case.get("fdt") or "float64"); X_in = X.astype(case.get("xdt") or "float64")
        # the property (and the theorems) quantify over elements above the kernels' own absolute degeneracy guard (2^-52)
        if kind == "tri":
            if np.min(np.linalg.norm(corr_fem.tri_geom(v, t)[3], axis=1)) < 4 * np.finfo(float).eps:
                return None
        elif np.min(np.abs(corr_fem.tet_geom(v, t)[1])) < 4 * np.finfo(float).eps:
            return None
        # conditioning: coordinates far from the origin / tiny elements lose digits in the differences the kernels form
        el = np.concatenate([np.linalg.norm(v[t[:, i]] - v[t[:, j]], axis=1) for i in range(t.shape[1]) for j in range(i)])
        kappa = max(1.0, float(np.abs(v).max() / max(el.min(), 1e-300)) * 1e-2, 1e-8 * float(el.max() / max(el.min(), 1e-300)) ** 2)
        rng = gen.rng_for(self.seed, "c06o", len(v))
        a = rng.normal(size=3); b = rng.normal()
        try:
            with core.quiet():
                ga = diffgeo.compute_gradient(m, v @ a + b)
                gf = diffgeo.compute_gradient(m, f_in)
                dX = diffgeo.compute_divergence(m, X_in)
                dg = diffgeo.compute_divergence(m, gf)
                A = Solver(m).stiffness
        except Exception as e:  # noqa: BLE001
            return core.Violation("runs", "raised %s: %s" % (type(e).__name__, e), case)
        if kind == "tri":
            _, _, _, cr, area = corr_fem.tri_geom(v, t)
            nh = cr / np.linalg.norm(cr, axis=1)[:, None]
            exp = a - (nh @ a)[:, None] * nh
            if np.max(np.abs(ga - exp)) > 1e-8 * kappa * max(1, np.abs(a).max()):
                return core.Violation("affine", "gradient of a·x+b is not the in-plane projection of a (max dev %.3g)" % np.max(np.abs(ga - exp)), case)
            if np.max(np.abs(np.einsum("ij,ij->i", gf, nh))) > 1e-8 * max(1, np.abs(gf).max()):
                return core.Violation("tangent", "gradient not tangent to its triangle", case)
            meas = area
            gref = corr_fem.tri_grad(v, t, f)
        else:
            # orientation by the library's own convention and any other orientation: gradient must be a
            if np.max(np.abs(ga - a)) > 1e-8 * kappa * max(1, np.abs(a).max()):
                return core.Violation("affine", "tetra gradient of a·x+b is not a (max dev %.3g)" % np.max(np.abs(ga - a)), case)
            meas = np.abs(corr_fem.tet_geom(v, t)[1]) / 6
            gref = corr_fem.tet_grad(v, t, f)
        lhs = float(f[: len(dX)] @ dX) if len(dX) <= len(f) else float("nan")
        rhs = -float(np.sum(meas * np.einsum("ij,ij->i", X, gref)))
        sc = max(abs(lhs), abs(rhs), np.sum(meas) * np.abs(X).max() * max(np.abs(gref).max(), 1e-12), np.abs(f).max() * np.abs(dX).sum(), 1e-12)
        if len(np.unique(t)) == len(v) and abs(lhs - rhs) > 1e-8 * sc:
            return core.Violation("adjoint", "sum f_i div(X)_i = %.10g but -sum meas X.grad f = %.10g" % (lhs, rhs), case, observed=lhs, expected=rhs)
        if abs(dX.sum()) > 1e-8 * max(np.abs(dX).max(), 1e-12) * len(dX):
            return core.Violation("sum-zero", "entries of div(X) sum to %.3g" % dX.sum(), case)
        if len(np.unique(t)) == len(v):
            r = dg + A @ f
            if np.max(np.abs(r)) > 1e-7 * max(np.abs(A @ f).max(), abs(A).max() * np.abs(f).max() * 1e-3, 1e-12):
                return core.Violation("div-grad", "div(grad f) != -A f (max dev %.3g)" % np.max(np.abs(r)), case)
        if kind == "tri":
            _, _, _, cr, _ = corr_fem.tri_geom(v, t)
            nh = cr / np.linalg.norm(cr, axis=1)[:, None]
            Xt = X - np.einsum("ij,ij->i", X, nh)[:, None] * nh
            with core.quiet():
                d1 = diffgeo.tria_compute_divergence(m, Xt); d2 = diffgeo.tria_compute_divergence2(m, Xt)
            if np.max(np.abs(d1 - d2)) > 1e-8 * max(np.abs(d1).max(), 1e-12):
                return core.Violation("div-variants", "the two triangle divergences disagree on a tangential field", case)
        return None
