"""C12 — tetra orientation and boundary extraction are exact."""
import itertools
import numpy as np

from .. import repo, core, gen, wire, extract
from ..base import BaseCheck
from lapy import TetMesh, TriaMesh


def signed(v, t):
    e = v[t[:, 1:]] - v[t[:, :1]]
    return np.einsum("ij,ij->i", np.cross(e[:, 0], e[:, 1]), e[:, 2])


def impl_all(v, t):
    m = TetMesh(v, t)
    o0 = bool(m.is_oriented())
    tf = np.arange(len(t)) * 10.0
    b, bf = m.boundary_tria(tf)
    bt0 = np.array(b.t, dtype=np.int64); same_v = np.array_equal(b.v, m.v)
    # per-tetrahedron functions of other shapes / types are handed over by the same owner: one row per tetrahedron, integer labels
    multi = []
    for f2 in (np.column_stack([tf, tf + 1.0, -tf]), tf.reshape(-1, 1), (np.arange(len(t)) * 3 + 1).astype(np.int64)):
        b2, bf2 = m.boundary_tria(f2)
        own = (bf / 10.0).astype(np.int64)
        multi.append(np.array_equal(np.array(b2.t), np.array(b.t)) and np.shape(bf2) == np.shape(f2[own]) and np.array_equal(np.asarray(bf2), f2[own]))
    n = m.orient_()
    t1 = np.array(m.t, dtype=np.int64)
    o1 = bool(m.is_oriented())
    return o0, bt0, (bf / 10.0).astype(np.int64), same_v and all(multi), int(n), t1, o1, bool(m.has_free_vertices())


class Check(BaseCheck):
    id = "C12"
    audit_mod = "LapyVerif.Audit.C12"
    rule = ("tetra meshes: 5-tet cube, 6-tet cube grids, Delaunay fills, random sub-collections (cavities, several components) x random "
            "flip patterns x relabellings x permutations; thorough: all subsets x all flip patterns of the 5-tet cube and all subsets of "
            "the 6-tet cube; distinct by hash of (v, t)")
    trusted = ["np.unique(axis=0, return_index, return_counts) as re-implemented by the model (lexicographic order, first occurrence)"]

    def cases(self):
        n, size = (24, "small") if self.quick else (400, "large")
        for c in gen.tet_stream(self.seed + 41, n, size):
            yield dict(v=c["v"], t=c["t"], name=c["name"], pres=c.get("pres"), vdtype=c.get("vdtype"))
        v5, t5 = gen.cube5()
        rng = gen.rng_for(self.seed, "c12")
        # two regions that touch along a face but keep their own copies of the interface nodes (multi-material exports): coincident in space,
        # distinct as indices - faces are identified by indices, so both copies of the interface are boundary faces
        vm = np.asarray(v5, float); tm = np.asarray(t5)
        mirror = vm * np.array([-1.0, 1.0, 1.0]) + np.array([2.0 * vm[:, 0].max(), 0.0, 0.0])
        yield dict(v=np.vstack([vm, mirror]), t=np.vstack([tm, tm + len(vm)]), name="coincident:mirror-cubes")
        yield dict(v=np.vstack([vm, vm]), t=np.vstack([tm, (tm + len(vm))[:, [0, 2, 1, 3]]]), name="coincident:double-cube")
        # exactly flat (zero volume) tetrahedra with generic integer coordinates next to proper ones: neither positive nor negative
        for k in range(60 if self.quick else 400):
            p = rng.integers(-6, 7, size=(6, 3)).astype(float)
            a, b = int(rng.integers(1, 4)), int(rng.integers(1, 4))
            p[3] = p[0] + a * (p[1] - p[0]) + b * (p[2] - p[0])            # coplanar with p0, p1, p2
            e = p[[1, 2, 4]] - p[0]
            if abs(np.linalg.det(e)) < 0.5 or len({tuple(x) for x in p}) < 6:
                continue
            t = np.array([[0, 1, 2, 4], [0, 1, 2, 3], [1, 2, 4, 5]] if abs(np.linalg.det(p[[2, 4, 5]] - p[1])) > 0.5 else [[0, 1, 2, 4], [0, 1, 2, 3], [0, 2, 1, 4]])
            if k % 2:
                t = t[:, [0, 2, 1, 3]]
            yield dict(v=p, t=t, name="flat-tet")
        for r in range(2, 6):
            for sub in itertools.combinations(range(5), r):
                for fl in range(1 << r):
                    if self.quick and rng.random() > 0.08:
                        continue
                    t = t5[list(sub)].copy()
                    for j in range(r):
                        if fl >> j & 1:
                            t[j] = t[j][[0, 2, 1, 3]]
                    yield dict(v=v5, t=t, name="sub-cube5")
        v6, t6 = gen.cube_grid(1, 1, 1)
        for r in range(2, 7):
            for sub in itertools.combinations(range(6), r):
                if self.quick and rng.random() > 0.2:
                    continue
                yield dict(v=v6, t=gen.orient_tets_positive(v6, t6[list(sub)]), name="sub-cube6")

    def translate(self):
        extract.gen_tet_orient()

    def correspond(self, drv, stats):
        fails = []
        for c in self.cases():
            v, t = c["v"], c["t"]
            gen.use(c)
            res = core.call(impl_all, v, t)
            stats.case(core.mesh_key(v, t), cls=["class:" + c["name"]], sample=dict(name=c["name"], nv=len(v), nt=len(t)))
            r0 = wire.Reply(drv.ask("tet_oriented %s %s" % (wire.verts(v), wire.elems(t))))
            r1 = wire.Reply(drv.ask("tet_boundary %d %s" % (len(v), wire.elems(t))))
            r2 = wire.Reply(drv.ask("tet_orient %s %s" % (wire.verts(v), wire.elems(t))))
            if res[0] != "ok" or "ok" not in (r0.status, r1.status, r2.status):
                if len(t) * 4 < 3 and res[0] == "err":
                    continue
                fails.append(core.Failure("correspondence", "tet queries vs model", "%s impl %s" % (c["name"], str(res)[:100]), c))
                continue
            o0, bt0, bf, same_v, n, t1, o1, free = res[1]
            m_o0 = bool(r0.nat())
            k = r1.nat(); m_bt = np.array([[r1.nat(), r1.nat(), r1.nat()] for _ in range(k)], dtype=np.int64).reshape(-1, 3)
            m_own = r1.nats(); m_free = bool(r1.nat())
            m_n = r2.nat(); kk = r2.nat(); m_t1 = np.array([[r2.nat() for _ in range(4)] for _ in range(kk)], dtype=np.int64).reshape(-1, 4)
            r3 = wire.Reply(drv.ask("tet_oriented %s %s" % (wire.verts(v), wire.elems(m_t1))))
            m_o1 = bool(r3.nat())
            ok = (o0 == m_o0 and np.array_equal(bt0, m_bt) and np.array_equal(bf, m_own) and same_v and n == m_n
                  and np.array_equal(t1, m_t1) and o1 == m_o1 and free == m_free)
            if not ok:
                fails.append(core.Failure("correspondence", "tet queries vs model", "%s: is_oriented %s/%s n %s/%s boundary equal %s owners equal %s" % (
                    c["name"], o0, m_o0, n, m_n, np.array_equal(bt0, m_bt), np.array_equal(bf, m_own)), c))
            if len(fails) > 5:
                break
        return fails

    def search_cases(self):
        return self.cases()

    def oracle(self, case):
        v = np.asarray(case["v"], float); t = np.asarray(case["t"], dtype=np.int64)
        if len(t) * 4 < 3:
            return None
        res = core.call(impl_all, v, t)
        if res[0] != "ok":
            # boundary with fewer than 3 faces cannot be held by TriaMesh; not judged
            return None if "Triangles should have 3" in str(res) or len(t) < 1 else core.Violation("runs", "raised %s" % (res[1:],), case)
        o0, bt0, own, same_v, n, t1, o1, free = res[1]
        vol = signed(v, t)
        if o0 != bool(np.all(vol > 0)):
            return core.Violation("is_oriented", "is_oriented=%s but all signed volumes positive=%s" % (o0, bool(np.all(vol > 0))), case)
        neg = vol < 0
        if n != int(neg.sum()):
            return core.Violation("orient-count", "orient_ returned %d, %d tetrahedra are negative" % (n, neg.sum()), case)
        exp = t.copy(); exp[neg] = exp[neg][:, [0, 2, 1, 3]]
        if not np.array_equal(exp, t1):
            return core.Violation("orient", "orient_ did not swap exactly two vertices of exactly the negative tetrahedra", case)
        if not np.any(vol == 0) and not o1:
            return core.Violation("orient", "not oriented after orient_", case)
        # boundary faces: brute force
        faces = {}
        for k, tt in enumerate(t):
            for f in itertools.combinations(tt, 3):
                faces.setdefault(tuple(sorted(int(x) for x in f)), []).append(k)
        bset = {f: ks[0] for f, ks in faces.items() if len(ks) == 1}
        got = [tuple(sorted(int(x) for x in f)) for f in bt0]
        if sorted(got) != sorted(bset) or not same_v:
            return core.Violation("boundary", "boundary_tria does not return exactly the faces belonging to one tetrahedron", case)
        for f, o in zip(got, own):
            if bset[f] != int(o):
                return core.Violation("owner", "face %s gets the value of tetra %d, owner is %d" % (f, o, bset[f]), case)
        # for the oriented mesh: closed, outward, volume
        if not np.any(vol == 0):
            with core.quiet():
                mo = TetMesh(v, t1)
                b = mo.boundary_tria()
            if len(b.t) >= 3:
                with core.quiet():
                    closed = b.is_closed(); man = b.is_manifold()
                if not closed:
                    return core.Violation("closed", "boundary surface of an oriented tetra mesh is not closed", case)
                # each face points away from its tetrahedron
                for f in b.t:
                    key = tuple(sorted(int(x) for x in f)); k = bset[key]
                    d = [x for x in t1[k] if x not in f][0]
                    if np.dot(np.cross(v[f[1]] - v[f[0]], v[f[2]] - v[f[0]]), v[d] - v[f[0]]) >= 0:
                        return core.Violation("outward", "boundary face %s does not point away from its tetrahedron" % (f,), case)
                if man:
                    with core.quiet():
                        if not b.is_oriented():
                            return core.Violation("oriented", "edge-manifold boundary is not consistently oriented", case)
                        bv = b.volume()
                    if abs(bv - np.abs(vol).sum() / 6) > 1e-9 * np.abs(vol).sum():
                        return core.Violation("volume", "boundary encloses %.10g, tetrahedra sum to %.10g" % (bv, np.abs(vol).sum() / 6), case)
        return None
