"""C11 — refine_ subdivides 1-to-4 preserving geometry and topology."""
import numpy as np

from .. import repo, core, gen, wire, extract
from ..base import BaseCheck
from .C09 import brute, impl_loops, loops_precondition
from lapy import TriaMesh


FSINFO = {"head": np.array([2, 0, 20], dtype=np.int32), "valid": "1  # volume info valid", "filename": "../mri/filled.mgz", "volume": np.array([256, 256, 256]),
          "voxelsize": np.array([1.0, 1.0, 1.0]), "xras": np.array([-1.0, 0.0, 0.0]), "yras": np.array([0.0, 0.0, -1.0]), "zras": np.array([0.0, 1.0, 0.0]),
          "cras": np.array([0.5, -3.0, 2.0])}
WITH_HEADER = {"on": False}           # refine a mesh that carries a FreeSurfer header dictionary (geometry and topology do not depend on it)


def impl_refine(v, t, it, vdtype=None, pres=None):
    if pres:
        v, t = gen.present(v, t, pres)
    if vdtype is not None:
        v = np.asarray(v).astype(vdtype)
    m = TriaMesh(v, t, fsinfo=dict(FSINFO)) if WITH_HEADER["on"] else TriaMesh(v, t)
    m.refine_(it)
    return np.array(m.v, dtype=np.float64), np.array(m.t, dtype=np.int64), m


def canon(v, t, nv0):
    """canonical description independent of the numbering of the new vertices: every vertex is named by its coordinates"""
    key = [tuple(np.round(p, 9)) for p in v]
    return sorted(key), [tuple(key[i] for i in tr) for tr in t]


class Check(BaseCheck):
    id = "C11"
    audit_mod = "LapyVerif.Audit.C11"
    rule = ("all generator families (any topology, oriented or not, with boundary, non-manifold) x it in 0..2 (thorough: 0..3); compared "
            "exactly (new-vertex numbering included, since the model mirrors the CSR edge order) and, in the oracle, up to renumbering; "
            "distinct by hash of (v, t, it)")
    trusted = ["scipy triu/CSR ordering of the edge numbering as re-implemented by the model"]

    def cases(self):
        n, size = (30, "small") if self.quick else (300, "small")
        k = 0
        for c in gen.tria_stream(self.seed + 31, n, size):
            k += 1
            it = k % (3 if self.quick else 4)
            if len(c["t"]) * 4 ** it > (700 if self.quick else 6000):
                it = 1
            v, t = c["v"], c["t"]
            name = c["name"]
            if k % 5 == 3:
                v, t = gen.add_free(gen.rng_for(self.seed, "c11free", k), v, t, 2); name += "+free"
            elif k % 5 == 4:
                v, t = gen.add_trailing_free(gen.rng_for(self.seed, "c11free", k), v, t, 1 + k % 2); name += "+trailing-free"
            yield dict(v=v, t=t, it=it, name=name, pres=c.get("pres"))
        for c in gen.narrow_cases():
            yield dict(v=c["v"], t=c["t"], it=1, name=c["name"], pres=c["pres"])
        # parts that coincide GEOMETRICALLY but have their own vertices (connectivity is a matter of indices, not of positions): two cubes stacked
        # face to face, a tube whose seam vertices are duplicated, a surface and a copy of itself in the same place
        cv = np.array([[0, 0, 0], [1, 0, 0], [1, 1, 0], [0, 1, 0], [0, 0, 1], [1, 0, 1], [1, 1, 1], [0, 1, 1]], float)
        ct = np.array([[0, 2, 1], [0, 3, 2], [4, 5, 6], [4, 6, 7], [0, 1, 5], [0, 5, 4], [1, 2, 6], [1, 6, 5], [2, 3, 7], [2, 7, 6], [3, 0, 4], [3, 4, 7]])
        v2, t2 = gen.union((cv, ct), (cv, ct), shift=(0.0, 0.0, 1.0))
        yield dict(v=v2, t=t2, it=1, name="coincident:stacked-cubes")
        yield dict(v=v2, t=t2, it=2, name="coincident:stacked-cubes")
        gv, gt = gen.grid(4, 2)
        gv = np.array(gv, float); ang = gv[:, 0] / gv[:, 0].max() * 2 * np.pi          # rolled up: first and last column of vertices coincide
        yield dict(v=np.column_stack([np.cos(ang), np.sin(ang), gv[:, 1]]), t=np.array(gt), it=1, name="coincident:seam-tube")
        ov, ot = gen.octahedron()
        v3, t3 = gen.union((ov, ot), (ov, ot), shift=(0.0, 0.0, 0.0))
        yield dict(v=v3, t=t3, it=1, name="coincident:double-octahedron")
        # vertex arrays of integer dtype (voxel-grid meshes): midpoints are half-integers
        ov, ot = gen.octahedron()
        yield dict(v=np.round(ov * 3), t=ot, it=1, name="int-octahedron", vdtype="int32")
        gv, gt = gen.grid(2, 2)
        yield dict(v=gv, t=gt, it=2, name="int-grid", vdtype="int16")

    def translate(self):
        extract.gen_refine()

    def correspond(self, drv, stats):
        fails = []
        for kc, c in enumerate(self.cases()):
            v, t, it = c["v"], c["t"], c["it"]
            WITH_HEADER["on"] = bool(c.get("fsinfo", gen.rng_for(self.seed, "c11-header", kc).random() < 0.3))
            c["fsinfo"] = WITH_HEADER["on"]
            res = core.call(impl_refine, v, t, it, c.get("vdtype"), c.get("pres"))
            r = wire.Reply(drv.ask("refine %d %s %s" % (it, wire.verts(v), wire.elems(t))))
            stats.case(core.mesh_key(v, t, it), cls=["class:" + c["name"], "it:%d" % it], sample=dict(name=c["name"], nv=len(v), nt=len(t), it=it))
            if res[0] != "ok" or r.status != "ok":
                fails.append(core.Failure("correspondence", "refine_ vs model", "%s it=%d impl %s model %s" % (c["name"], it, str(res)[:80], r.raw[:60]), c))
                continue
            mv = r.v3s(); n = r.nat(); mt = np.array([[r.nat(), r.nat(), r.nat()] for _ in range(n)], dtype=np.int64).reshape(-1, 3)
            iv, itt, _ = res[1]
            if iv.shape != mv.shape or itt.shape != mt.shape or not np.array_equal(itt, mt) or core.relerr(iv, mv) > 1e-12:
                fails.append(core.Failure("correspondence", "refine_ vs model", "%s it=%d: outputs differ" % (c["name"], it), c))
            if len(fails) > 5:
                break
        return fails

    def search_cases(self):
        return self.cases()

    def known_finding(self, k):
        v = self.oracle(dict(v=k["input"]["v"], t=k["input"]["t"], it=1, name="known:" + k["id"]))
        return v is not None and v.clause == k["clause"]

    def oracle(self, case):
        v = np.asarray(case["v"], float); t = np.asarray(case["t"], dtype=np.int64); it = int(case["it"])
        WITH_HEADER["on"] = bool(case.get("fsinfo", False))
        if len({frozenset(int(x) for x in tr) for tr in t}) < len(t):
            case = dict(case, input_class="duplicate-vertex-set")      # two triangles on the same three vertices (finding F14)
        res = core.call(impl_refine, v, t, it, case.get("vdtype"), case.get("pres"))
        if res[0] != "ok":
            return core.Violation("runs", "refine_ raised %s" % (res[1:],), case)
        v2, t2, m2 = res[1]
        # it successive single steps
        vs, ts = v, t
        for _ in range(it):
            r1 = core.call(impl_refine, vs, ts, 1, case.get("vdtype") if _ == 0 else None)
            if r1[0] != "ok":
                return core.Violation("runs", "single step raised", case)
            v1, t1, _ = r1[1]
            b = brute(len(vs), ts)
            ne = len(b["und"])
            if len(t1) != 4 * len(ts) or len(v1) != len(vs) + ne:
                return core.Violation("counts", "one step: %d->%d triangles, %d->%d vertices with %d edges" % (len(ts), len(t1), len(vs), len(v1), ne), case)
            if not np.array_equal(v1[: len(vs)], vs):
                return core.Violation("old-vertices", "existing vertices changed", case)
            mids = sorted(tuple(np.round((vs[a] + vs[c]) / 2, 9)) for (a, c) in b["und"])
            if sorted(tuple(np.round(p, 9)) for p in v1[len(vs):]) != mids:
                return core.Violation("midpoints", "new vertices are not exactly the edge midpoints", case)
            # four children tile the parent with the same winding
            for k, (a, bb, c) in enumerate(ts):
                ch = t1[4 * k: 4 * k + 4]
                n0 = np.cross(vs[bb] - vs[a], vs[c] - vs[a])
                for tri in ch:
                    nc = np.cross(v1[tri[1]] - v1[tri[0]], v1[tri[2]] - v1[tri[0]])
                    if np.max(np.abs(nc - n0 / 4)) > 1e-9 * max(1.0, np.abs(n0).max()):
                        return core.Violation("children", "child %s of triangle %d does not have a quarter of the parent's area vector" % (tri, k), case)
                cen = sum(v1[tri].mean(axis=0) for tri in ch) / 4
                if np.max(np.abs(cen - vs[[a, bb, c]].mean(axis=0))) > 1e-9 * max(1.0, np.abs(vs).max()):
                    return core.Violation("children", "children of triangle %d do not tile it" % k, case)
            b1 = brute(len(v1), t1)
            for key in ("closed", "manifold", "oriented", "euler"):
                if b[key] != b1[key]:
                    return core.Violation("topology", "%s changes from %s to %s" % (key, b[key], b1[key]), case)
            if loops_precondition(b):
                l0 = core.run_limited(impl_loops, (vs, ts), 10.0); l1 = core.run_limited(impl_loops, (v1, t1), 10.0)
                if l0[0] == "ok" and (l1[0] != "ok" or len(l0[1]) != len(l1[1])):
                    return core.Violation("loops", "number of boundary loops changes", case)
            vs, ts = v1, t1
        if len(v2) != len(vs) or not np.array_equal(t2, ts) or core.relerr(v2, vs) > 1e-12:
            return core.Violation("iterate", "refine_(%d) differs from %d single steps" % (it, it), case)
        with core.quiet():
            m0 = TriaMesh(v, t)
            if abs(m0.area() - m2.area()) > 1e-9 * m0.area():
                return core.Violation("area", "area changes", case)
            c0, c1 = m0.centroid()[0], m2.centroid()[0]
            if np.max(np.abs(c0 - c1)) > 1e-9 * max(1, np.abs(v).max()):
                return core.Violation("centroid", "centroid changes", case)
            if m0.is_closed() and m0.is_oriented():
                if abs(m0.volume() - m2.volume()) > 1e-9 * max(abs(m0.volume()), 1e-12):
                    return core.Violation("volume", "volume changes", case)
            # adjacency rebuilt
            f = TriaMesh(m2.v, m2.t)
            if (f.adj_sym != m2.adj_sym).nnz or (f.adj_dir != m2.adj_dir).nnz:
                return core.Violation("adjacency", "adjacency not rebuilt after refine_", case)
        return None
