"""C20 — mesh objects stay internally consistent across any history of operations."""
import copy
import itertools
import numpy as np

from .. import repo, core, gen, wire, astx, extract
from ..base import BaseCheck
from lapy import TriaMesh, TetMesh, Solver, shapedna, diffgeo, heat

TRI_NAMES = ["orient_", "refine_", "rm_free_vertices_", "normalize_", "smooth_", "normal_offset_"]
TET_NAMES = ["orient_", "rm_free_vertices_"]


def op_token(op):
    k = op[0]
    if k == "o": return "o"
    if k == "r": return "r %d" % op[1]
    if k == "f": return "f"
    if k == "n": return "n"
    if k == "s": return "s %d" % op[1]
    return "d %s" % wire.fhex(op[1])


def apply_tri(m, op):
    k = op[0]
    if k == "o": m.orient_()
    elif k == "r": m.refine_(op[1])
    elif k == "f": m.rm_free_vertices_()
    elif k == "n": m.normalize_()
    elif k == "s": m.smooth_(op[1])
    else: m.normal_offset_(op[1])


def canon_adj(a):
    c = a.tocoo()
    return sorted((int(i), int(j), int(round(d))) for i, j, d in zip(c.row, c.col, c.data))


def snapshot_tri(m):
    fresh = TriaMesh(m.v, m.t)
    return dict(v=np.array(m.v, dtype=float), t=np.array(m.t, dtype=np.int64), sym=canon_adj(m.adj_sym), dir=canon_adj(m.adj_dir),
                fsym=canon_adj(fresh.adj_sym), fdir=canon_adj(fresh.adj_dir),
                q=(bool(m.is_closed()), bool(m.is_manifold()), bool(m.is_oriented()), int(m.euler()), bool(m.has_free_vertices())),
                fq=(bool(fresh.is_closed()), bool(fresh.is_manifold()), bool(fresh.is_oriented()), int(fresh.euler()), bool(fresh.has_free_vertices())),
                avg=(float(m.avg_edge_length()), float(fresh.avg_edge_length())),
                shape=(tuple(m.adj_sym.shape) + tuple(m.adj_dir.shape), tuple(fresh.adj_sym.shape) + tuple(fresh.adj_dir.shape)),
                deg=(core.call(lambda: [int(x) for x in m.vertex_degrees()]), core.call(lambda: [int(x) for x in fresh.vertex_degrees()])))


def run_tri_history(v, t, ops):
    v0, t0 = np.array(v, dtype=float), np.array(t, dtype=np.int64)
    vc, tc = v0.copy(), t0.copy()
    m = TriaMesh(vc, tc)
    snaps = []
    for op in ops:
        try:
            apply_tri(m, op)
            err = None
        except Exception as e:  # noqa: BLE001
            err = type(e).__name__
        s = snapshot_tri(m)
        s["err"] = err
        snaps.append(s)
    return snaps, bool(np.array_equal(vc, v0) and np.array_equal(tc, t0))


def snapshot_tet(m):
    fresh = TetMesh(m.v, m.t)
    return dict(v=np.array(m.v, dtype=float), t=np.array(m.t, dtype=np.int64), sym=canon_adj(m.adj_sym), fsym=canon_adj(fresh.adj_sym),
                avg=(core.call(m.avg_edge_length), core.call(fresh.avg_edge_length)))


def run_tet_history(v, t, ops):
    v0, t0 = np.array(v, dtype=float), np.array(t, dtype=np.int64)
    vc, tc = v0.copy(), t0.copy()
    m = TetMesh(vc, tc)
    snaps = []
    for op in ops:
        try:
            m.orient_() if op == "o" else m.rm_free_vertices_()
            err = None
        except Exception as e:  # noqa: BLE001
            err = type(e).__name__
        s = snapshot_tet(m); s["err"] = err
        snaps.append(s)
    return snaps, bool(np.array_equal(vc, v0) and np.array_equal(tc, t0))


def parse_canon(r):
    n = r.nat()
    return [(r.nat(), r.nat(), r.nat()) for _ in range(n)]


def vanishing_vertex_normal(v, t):
    """some vertex whose summed triangle normals cancel to rounding level (relative to the largest triangle normal)"""
    v = np.asarray(v, float); t = np.asarray(t, dtype=np.int64)
    if t.ndim != 2 or t.shape[0] == 0 or t.shape[1] != 3 or t.max() >= len(v) or not np.all(np.isfinite(v)):
        return False
    with np.errstate(all="ignore"):
        tv = v[t]
        tn = np.cross(tv[:, 1] - tv[:, 0], tv[:, 2] - tv[:, 0])
        acc = np.zeros_like(v)
        for k in range(3):
            np.add.at(acc, t[:, k], tn)
        nn = np.linalg.norm(acc, axis=1)[np.unique(t)]
        return bool(nn.min() < 1e-7 * np.abs(tn).max())


class Check(BaseCheck):
    id = "C20"
    audit_mod = "LapyVerif.Audit.C20"
    leanchecker_mods = ["LapyVerif.Props.C20", "LapyVerif.Bridge.C20"]
    rule = ("operation sequences over {orient_, refine_(1), rm_free_vertices_, normalize_, smooth_(1|2), normal_offset_(d)} on seed meshes incl. "
            "ones with unused vertices and flipped triangles: exhaustive up to length 2 (thorough: 3) plus random sequences up to length 8 "
            "(thorough: 30); tetra: all sequences over {orient_, rm_free_vertices_} up to length 3; after every step t, v and both cached "
            "adjacency matrices are compared with the model and with a freshly constructed object; constructor argument shapes; deep snapshots "
            "of caller arrays and of meshes passed to every public non-underscore function; distinct by hash of (seed mesh, op sequence)")
    trusted = ["vcheck/astx.py: syntactic effect analysis (stores to self.t / self.v through direct or one-level aliases, self.__init__ calls, "
               "writes through parameters); cross-checked by the before/after snapshots",
               "NumPy aliasing semantics are not modelled in Lean"]

    def translate(self):
        self.effects = astx.gen_effects()
        extract.gen_shapedna()          # normalize_ev orients a COPY of a triangle mesh (recorded protocol, Bridge/ShapeDNA.lean)

    def seeds(self):
        rng = gen.rng_for(self.seed, "c20")
        out = []
        for name, (v, t) in (("grid", gen.grid(2, 2)), ("tetra-surface", gen.tetra_surface()), ("cylinder", gen.cylinder(4, 1)),
                             ("octa", gen.octahedron())):
            t2 = gen.flip_some(rng, t, 0.4)
            out.append((name, np.array(v, float), t2))
            vf, tf = gen.add_free(rng, np.array(v, float), t2, 2)
            if len(np.unique(tf)) and int(np.max(tf)) == len(vf) - 1:      # last vertex used (smooth_ needs it)
                out.append((name + "+free", vf, tf))
            if name in ("octa", "grid"):
                vt, tt2 = gen.add_trailing_free(rng, np.array(v, float), t2, 2)
                out.append((name + "+trailing-free", vt, tt2))
        return out

    def sequences(self):
        alphabet = [("o",), ("r", 1), ("f",), ("n",), ("s", 1), ("d", 0.05)]
        L = 2 if self.quick else 3
        for n in range(1, L + 1):
            for seq in itertools.product(alphabet, repeat=n):
                if sum(1 for o in seq if o[0] == "r") <= 1:
                    yield list(seq)
        rng = gen.rng_for(self.seed, "c20seq")
        for _ in range(6 if self.quick else 60):
            n = int(rng.integers(3, 9 if self.quick else 31))
            seq = []
            for _ in range(n):
                o = alphabet[int(rng.integers(0, len(alphabet)))]
                if o[0] == "r" and sum(1 for x in seq if x[0] == "r") >= 1:
                    o = ("n",)
                if o[0] == "s":
                    o = ("s", int(rng.integers(1, 3)))
                if o[0] == "d":
                    o = ("d", float(rng.uniform(-0.1, 0.1)))
                seq.append(o)
            yield seq

    def reb_bits(self, names, table):
        return " ".join("1" if table.get(n, (False, False, False))[2] else "0" for n in names)

    def correspond(self, drv, stats):
        fails = []
        _, te, tt, impure = self.effects if hasattr(self, "effects") else astx.gen_effects()
        seeds = self.seeds()
        seqs = list(self.sequences())
        k = 0
        for si, (name, v, t) in enumerate(seeds):
            for seq in seqs:
                k += 1
                if self.quick and (k % len(seeds)) != si % len(seeds) and len(seq) > 1 and not (len(seq) == 2 and "free" in name):
                    continue     # quick tier: spread the longer sequences over the seeds
                case = dict(kind="tri", v=v, t=t, ops=seq, name=name, pres=gen.PRES[(si + len(seq)) % len(gen.PRES)])
                gen.use(case)
                res = core.run_limited(run_tri_history, (v, t, seq), 60.0)
                stats.case(core.mesh_key(v, t, [op_token(o) for o in seq]), cls=["seed:" + name, "len:%d" % len(seq)] + ["op:" + o[0] for o in seq],
                           sample=dict(seed=name, ops=[op_token(o) for o in seq]))
                if res[0] != "ok":
                    fails.append(core.Failure("correspondence", "history vs model", "%s %s: implementation %s" % (name, seq, res[:2]), case))
                    continue
                snaps, caller_ok = res[1]
                if not caller_ok:
                    fails.append(core.Failure("correspondence", "caller arrays untouched", "%s %s" % (name, seq), case))
                line = "history_tri %s %s %s %d %s" % (self.reb_bits(TRI_NAMES, te), wire.verts(v), wire.elems(t), len(seq), " ".join(op_token(o) for o in seq))
                r = drv.ask(line)
                if not r.startswith("ok"):
                    fails.append(core.Failure("correspondence", "history vs model", "driver: " + r[:80], case)); continue
                steps = r.split(" | ")[1:]
                illcond = False
                prev = dict(v=np.asarray(v, float), t=np.asarray(t, dtype=np.int64))
                for j, (s, mstep) in enumerate(zip(snaps, steps)):
                    if not illcond and seq[j][0] == "d" and vanishing_vertex_normal(prev["v"], prev["t"]):
                        # normal_offset_ divides the summed triangle normals of a vertex by their length: where the sum cancels (flat fans folded
                        # back, 5e-15 against triangle normals of 0.06) the direction is rounding noise and its sign differs between summation orders
                        illcond = True
                        stats.monitor("histories whose coordinates became ill-conditioned (connectivity still compared)")
                    prev = s
                    rr = wire.Reply("ok " + mstep)
                    mv = rr.v3s(); nt = rr.nat(); mt = np.array([[rr.nat(), rr.nat(), rr.nat()] for _ in range(nt)], dtype=np.int64).reshape(-1, 3)
                    msym = parse_canon(rr); mdir = parse_canon(rr)
                    topo_ok = (s["t"].shape == mt.shape and np.array_equal(s["t"], mt) and s["v"].shape == mv.shape and s["sym"] == msym and s["dir"] == mdir)
                    scale = max(1.0, float(np.nanmax(np.abs(mv))) if np.isfinite(mv).any() else 1.0)
                    v_ok = s["v"].shape == mv.shape and np.allclose(s["v"], mv, rtol=1e-6, atol=1e-6 * scale, equal_nan=True)
                    if not illcond:
                        # vertex-only operations on (nearly) degenerate meshes amplify rounding (normalize_ divides by sqrt(area),
                        # normal_offset_ normalises vanishing vertex normals): from the first degenerate state on, coordinates are
                        # not judged any more; connectivity and adjacency still are
                        with np.errstate(all="ignore"):
                            tv = s["v"][s["t"]] if len(s["t"]) else np.zeros((0, 3, 3))
                            ar = np.linalg.norm(np.cross(tv[:, 1] - tv[:, 0], tv[:, 2] - tv[:, 0]), axis=1)
                            ext = np.nanmax(np.abs(s["v"])) if np.isfinite(s["v"]).any() else 0.0
                        if not np.all(np.isfinite(s["v"])) or ar.size == 0 or np.nanmin(ar) < 1e-9 * max(ext, 1e-300) ** 2:
                            illcond = True
                            stats.monitor("histories whose coordinates became ill-conditioned (connectivity still compared)")
                    if not topo_ok or (not v_ok and not illcond):
                        fails.append(core.Failure("correspondence", "history vs model", "%s after step %d of %s (err=%s): t equal %s, adjacency equal %s/%s, v ok %s" % (
                            name, j + 1, [op_token(o) for o in seq], s["err"], s["t"].shape == mt.shape and np.array_equal(s["t"], mt), s["sym"] == msym, s["dir"] == mdir, v_ok), case))
                        break
                if len(fails) > 6:
                    return fails
        gen.use(None)
        # tetra meshes
        tv, tts = gen.cube5()
        rng = gen.rng_for(self.seed, "c20tet")
        tets = [("cube5", tv, gen.flip_some(rng, tts, 0.5))]
        vf = np.vstack([[[5.0, 5, 5]], tv, [[7.0, 7, 7]]]); tets.append(("cube5+free", vf, gen.flip_some(rng, tts + 1, 0.5)))
        for name, v, t in tets:
            for n in range(1, 4):
                for seq in itertools.product("of", repeat=n):
                    case = dict(kind="tet", v=v, t=t, ops=list(seq), name=name)
                    res = core.run_limited(run_tet_history, (v, t, list(seq)), 30.0)
                    stats.case(core.mesh_key(v, t, seq), cls=["tet-seed:" + name, "len:%d" % n])
                    if res[0] != "ok":
                        fails.append(core.Failure("correspondence", "tet history vs model", "%s %s: %s" % (name, seq, res[:2]), case)); continue
                    snaps, caller_ok = res[1]
                    r = drv.ask("history_tet %s %s %s %d %s" % (self.reb_bits(TET_NAMES, tt), wire.verts(v), wire.elems(t), n, " ".join(seq)))
                    steps = r.split(" | ")[1:]
                    for j, (s, mstep) in enumerate(zip(snaps, steps)):
                        rr = wire.Reply("ok " + mstep)
                        mv = rr.v3s(); nt = rr.nat(); mt = np.array([[rr.nat() for _ in range(4)] for _ in range(nt)], dtype=np.int64).reshape(-1, 4)
                        msym = parse_canon(rr)
                        if not (np.array_equal(s["t"], mt) and s["v"].shape == mv.shape and np.allclose(s["v"], mv, equal_nan=True) and s["sym"] == msym and caller_ok):
                            fails.append(core.Failure("correspondence", "tet history vs model", "%s after step %d of %s: adjacency equal %s" % (name, j + 1, seq, s["sym"] == msym), case))
                            break
        # dynamic purity: every public function on fresh meshes and caller-owned arrays (complements the syntactic table)
        pv = core.run_limited(self.purity, (), 300.0)
        stats.case("purity", cls="purity-dynamic")
        if pv[0] != "ok":
            fails.append(core.Failure("correspondence", "dynamic purity pass", str(pv[:2])[:200], dict(kind="purity", name="purity")))
        elif pv[1] is not None:
            fails.append(core.Failure("correspondence", "dynamic purity: " + pv[1].clause, pv[1].what, dict(kind="purity", name="purity")))
        # constructors
        for (vs, ts, mx) in [((5, 3), (4, 3), 4), ((5, 3), (4, 3), 5), ((3, 5), (3, 4), 4), ((3, 5), (4, 3), 4), ((5, 3), (3, 4), 4), ((5, 4), (4, 3), 3),
                             ((5, 3), (4, 4), 3), ((4, 3), (4, 3), 3), ((3, 3), (3, 3), 2), ((5, 2), (4, 3), 3)]:
            v = np.zeros(vs); v.flat[:] = np.arange(v.size) * 0.37
            t = np.zeros(ts, dtype=int); t.flat[:] = np.arange(t.size) % (mx + 1); t.flat[0] = mx
            res = core.call(lambda: TriaMesh(v, t))
            r = drv.ask("ctor_tri %d %d %d %d %d" % (vs[0], vs[1], ts[0], ts[1], mx))
            got = "err " + res[1] if res[0] == "err" else "ok %d %d" % (int(vs[0] < vs[1]), int(ts[0] < ts[1]))
            stats.case("ctor%s%s%d" % (vs, ts, mx), cls="ctor")
            if got != r:
                fails.append(core.Failure("correspondence", "constructor checks vs model", "v%s t%s max %d: impl %s model %s" % (vs, ts, mx, got, r)))
            elif res[0] == "ok":
                m = res[1]
                if m.v.shape[1] != 3 or m.t.shape[1] != 3:
                    fails.append(core.Failure("correspondence", "constructor checks vs model", "accepted but not 3 wide"))
        # index arrays whose largest entry equals the vertex count are out of range whatever their smallest entry is (1-based lists are not accepted)
        for nm, (bv, bt) in (("tetra-surface", gen.tetra_surface()), ("grid", gen.grid(2, 2)), ("octahedron", gen.octahedron())):
            bv = np.asarray(bv, float); bt = np.asarray(bt)
            for label, tt in (("t + 1", bt + 1), ("t + 1 transposed", (bt + 1).T.copy()), ("one entry = nv", np.where(np.arange(bt.size).reshape(bt.shape) == 1, len(bv), bt))):
                res = core.call(lambda: TriaMesh(bv, tt))
                stats.case("ctor-shift" + nm + label, cls="ctor:out-of-range")
                if not (res[0] == "err" and res[1] == "ValueError"):
                    fails.append(core.Failure("correspondence", "constructor checks vs model", "%s with %s (largest index = number of vertices) is accepted: %s" % (nm, label, res[0]),
                                              dict(kind="ctor-range", name=nm, label=label)))
        cv, ct = gen.cube5()
        res = core.call(lambda: TetMesh(np.asarray(cv, float), np.asarray(ct) + 1))
        if not (res[0] == "err" and res[1] == "ValueError"):
            fails.append(core.Failure("correspondence", "constructor checks vs model", "TetMesh with t + 1 is accepted", dict(kind="ctor-range", name="cube5", label="t + 1")))
        return fails

    # ---- oracle
    def search_cases(self):
        for si, (name, v, t) in enumerate(self.seeds()):
            for seq in self.sequences():
                yield dict(kind="tri", v=v, t=t, ops=seq, name=name, pres=gen.PRES[(si + len(seq)) % len(gen.PRES)])
        tv, tts = gen.cube5()
        vf = np.vstack([[[5.0, 5, 5]], tv, [[7.0, 7, 7]]])
        for n in range(1, 4):
            for seq in itertools.product("of", repeat=n):
                yield dict(kind="tet", v=vf, t=tts + 1, ops=list(seq), name="cube5+free")
        yield dict(kind="purity", name="purity")

    def oracle(self, case):
        if case["kind"] == "ctor-range":
            base = {"tetra-surface": gen.tetra_surface, "grid": lambda: gen.grid(2, 2), "octahedron": gen.octahedron, "cube5": gen.cube5}[case["name"]]()
            bv = np.asarray(base[0], float); bt = np.asarray(base[1])
            cls = TetMesh if case["name"] == "cube5" else TriaMesh
            tt = {"t + 1": bt + 1, "t + 1 transposed": (bt + 1).T.copy(), "one entry = nv": np.where(np.arange(bt.size).reshape(bt.shape) == 1, len(bv), bt)}[case["label"]]
            res = core.call(lambda: cls(bv, tt))
            if not (res[0] == "err" and res[1] == "ValueError"):
                return core.Violation("constructor", "element indices up to the number of vertices (%s of %s) are not rejected with ValueError" % (case["label"], case["name"]), case)
            return None
        if case["kind"] == "purity":
            return self.purity()
        v = np.asarray(case["v"], float); t = np.asarray(case["t"], dtype=np.int64)
        ops = [tuple(o) if not isinstance(o, str) else o for o in case["ops"]]
        if case["kind"] == "tri":
            res = core.run_limited(run_tri_history, (v, t, ops), 60.0)
            if res[0] != "ok":
                return core.Violation("history", "history did not complete: %s" % (res[:2],), case)
            snaps, caller_ok = res[1]
            for j, s in enumerate(snaps):
                if s["sym"] != s["fsym"] or s["dir"] != s["fdir"] or s["q"] != s["fq"] or abs(s["avg"][0] - s["avg"][1]) > 1e-12 * max(1, abs(s["avg"][1])) \
                        or s["shape"][0] != s["shape"][1] or s["deg"][0] != s["deg"][1]:
                    return core.Violation("stale-adjacency", "after step %d (%s) queries differ from a freshly constructed mesh" % (j + 1, ops[j]), case)
                if ops[j][0] == "f" and s["err"] is None and s["q"][4]:
                    return core.Violation("rm_free", "free vertices remain after rm_free_vertices_", case)
        else:
            res = core.run_limited(run_tet_history, (v, t, ops), 30.0)
            if res[0] != "ok":
                return core.Violation("history", "tet history did not complete: %s" % (res[:2],), case)
            snaps, caller_ok = res[1]
            for j, s in enumerate(snaps):
                if s["sym"] != s["fsym"] or s["avg"][0][0] != s["avg"][1][0] or (s["avg"][0][0] == "ok" and abs(s["avg"][0][1] - s["avg"][1][1]) > 1e-12):
                    return core.Violation("stale-adjacency", "TetMesh after step %d (%s): adjacency differs from a freshly constructed mesh" % (j + 1, ops[j]), case)
        if not caller_ok:
            return core.Violation("caller-arrays", "an operation wrote into the arrays passed to the constructor", case)
        return None

    def purity(self):
        """every public non-underscore function leaves the vertices / elements of the meshes passed to it unchanged and writes into
        no array owned by the caller (functions, fields, spectra, index and value arrays)"""
        from lapy import conformal
        v, t = gen.icosphere(1)
        t = t[:, [1, 0, 2]]                      # inward oriented: functions that 'fix' the orientation would show
        tv, tt = gen.cube5()
        from .C19 import ellipsoid_y
        v2, t2 = ellipsoid_y(gen.rng_for(0, "c20-purity"))
        vp, tp = gen.grid(3, 3)

        def args(m):
            n, ne = len(m.v), len(m.t)
            return dict(f=np.sin(np.arange(n)) + 0.1 * np.arange(n), X=np.cos(np.arange(3 * ne)).reshape(ne, 3), tf=np.cos(np.arange(ne)), ev=np.array([1.0, 2.0, 3.5]),
                        ev2=np.array([0.5, 2.5, 3.0]), vids=np.array([0, 3]), didx=np.array([0, 5]), ddat=np.array([0.5, -1.0]), nidx=np.array([2]), ndat=np.array([0.3]),
                        lv=np.array([0.1, 0.2]), fi=np.arange(n), Xi=np.arange(3 * ne).reshape(ne, 3) % 5, ts=np.array([0.1, 0.5]),
                        evecs=np.cos(np.arange(n * 3)).reshape(n, 3), xs=np.array([1, 2]), emb=np.array(m.v) * 1.3 + 0.1)
        calls = [
            ("TriaMesh queries", lambda m, A: [m.is_closed(), m.is_manifold(), m.is_oriented(), m.euler(), m.tria_areas(), m.area(), m.volume(), m.vertex_degrees(),
                                               m.vertex_areas(), m.avg_edge_length(), m.tria_normals(), m.vertex_normals(), m.has_free_vertices(), m.tria_qualities(),
                                               m.boundary_loops(), m.centroid(), m.edges(), m.curvature(2), m.curvature_tria(2), m.construct_adj_dir_tidx()], "tri"),
            ("map / smooth / level functions", lambda m, A: [m.map_tfunc_to_vfunc(A["tf"]), m.map_tfunc_to_vfunc(A["X"], True), m.map_vfunc_to_tfunc(A["f"]), m.smooth_vfunc(A["f"], 2),
                                                            m.map_vfunc_to_tfunc(A["fi"]), m.smooth_vfunc(A["fi"], 1), m.level_length(A["f"], A["lv"]), m.level_length(A["f"], 0.1)], "tri"),
            ("Solver.eigs", lambda m, A: Solver(m).eigs(3), "tri"),
            ("Solver.poisson", lambda m, A: [Solver(m).poisson(A["f"], (A["didx"], A["ddat"]), (A["nidx"], A["ndat"])), Solver(m, lump=True).poisson(0.0, (A["didx"], A["ddat"]))], "tri"),
            ("fem_tria_mass", lambda m, A: [Solver.fem_tria_mass(m), Solver.fem_tria_mass(m, True)], "tri"),
            ("compute_shapedna", lambda m, A: shapedna.compute_shapedna(m, k=3), "tri"),
            ("normalize_ev surface", lambda m, A: shapedna.normalize_ev(m, A["ev"], "surface"), "tri"),
            ("normalize_ev volume", lambda m, A: shapedna.normalize_ev(m, A["ev"], "volume"), "tri"),
            ("normalize_ev geometry", lambda m, A: shapedna.normalize_ev(m, A["ev"], "geometry"), "tri"),
            ("reweight_ev / compute_distance", lambda m, A: [shapedna.reweight_ev(A["ev"]), shapedna.compute_distance(A["ev"], A["ev2"])], "tri"),
            ("compute_gradient / divergence", lambda m, A: [diffgeo.compute_gradient(m, A["f"]), diffgeo.compute_divergence(m, A["X"]), diffgeo.tria_compute_divergence2(m, A["X"]),
                                                          diffgeo.compute_gradient(m, A["fi"]), diffgeo.compute_divergence(m, A["Xi"])], "tri"),
            ("compute_geodesic_f", lambda m, A: [diffgeo.compute_geodesic_f(m, A["f"]), diffgeo.tria_compute_geodesic_f(m, A["f"])], "tri"),
            ("compute_rotated_f", lambda m, A: diffgeo.compute_rotated_f(m, A["f"]), "tri"),
            ("tria_mean_curvature_flow", lambda m, A: diffgeo.tria_mean_curvature_flow(m, max_iter=2), "tri"),
            ("tria_spherical_project", lambda m, A: diffgeo.tria_spherical_project(m, flow_iter=2), "tri-fine"),
            ("heat.diffusion", lambda m, A: heat.diffusion(m, A["vids"], m=1.0), "tri"),
            ("heat.kernel / diagonal", lambda m, A: [heat.kernel(A["ts"], 1, A["evecs"], A["ev"], 3), heat.diagonal(A["ts"], A["xs"], A["evecs"], A["ev"], 2)], "tri"),
            ("Solver aniso (oriented mesh)", lambda m, A: Solver(m, aniso=(2.0, 1.0), aniso_smooth=2), "tri"),
            ("Solver aniso (inconsistently oriented mesh)", lambda m, A: Solver(m, aniso=2.0, aniso_smooth=2), "tri-mixed"),
            ("heat.diffusion aniso (inconsistently oriented mesh)", lambda m, A: heat.diffusion(m, A["vids"], m=1.0, aniso=1.0), "tri-mixed"),
            ("Solver (inconsistently oriented mesh)", lambda m, A: Solver(m, lump=True).eigs(3), "tri-mixed"),
            ("normalize_ev volume (inconsistently oriented mesh)", lambda m, A: shapedna.normalize_ev(m, A["ev"], "volume"), "tri-mixed"),
            ("conformal: beltrami / stereographic", lambda m, A: [conformal.beltrami_coefficient(m, A["emb"]), conformal.stereographic(A["emb"] / np.linalg.norm(A["emb"], axis=1)[:, None]),
                                                                 conformal.inverse_stereographic(A["emb"][:, 0] + 1j * A["emb"][:, 1])], "tri-planar"),
            ("spherical_conformal_map + Moebius correction", lambda m, A: conformal.mobius_area_correction_spherical(m, conformal.spherical_conformal_map(m)), "tri-fine"),
            ("write_vtk", lambda m, A: m.write_vtk(A["path"]), "tri"),
            ("TetMesh queries", lambda m, A: [m.is_oriented(), m.avg_edge_length(), m.boundary_tria(), m.boundary_tria(A["tf"]), m.has_free_vertices()], "tet"),
            ("normalize_ev tet volume", lambda m, A: shapedna.normalize_ev(m, A["ev"], "volume"), "tet"),
            ("Solver tet", lambda m, A: [Solver(m).eigs(3), Solver(m).poisson(A["f"], (A["didx"], A["ddat"]))], "tet"),
            ("tet gradient / divergence", lambda m, A: [diffgeo.compute_gradient(m, A["f"]), diffgeo.compute_divergence(m, A["X"]), diffgeo.compute_gradient(m, A["fi"])], "tet"),
            ("tet geodesic", lambda m, A: diffgeo.compute_geodesic_f(m, A["f"]), "tet"),
            ("heat.diffusion tet", lambda m, A: heat.diffusion(m, A["vids"][:1], m=1.0), "tet"),
            ("TetMesh.write_vtk", lambda m, A: m.write_vtk(A["path"]), "tet"),
        ]
        import tempfile, shutil
        d = tempfile.mkdtemp(prefix="lapyverif")
        try:
            for name, fn, kind in calls:
                with core.quiet():
                    tmix = t.copy(); tmix[::3] = tmix[::3][:, [0, 2, 1]]
                    m = {"tri": lambda: TriaMesh(v, t), "tri-mixed": lambda: TriaMesh(v, tmix), "tri-fine": lambda: TriaMesh(v2, t2), "tri-planar": lambda: TriaMesh(vp, tp), "tet": lambda: TetMesh(tv, tt)}[kind]()
                v0, t0 = np.array(m.v, copy=True), np.array(m.t, copy=True)
                A = args(m)
                A0 = {k: np.array(a, copy=True) for k, a in A.items()}
                A["path"] = d + "/x.vtk"
                try:
                    with core.quiet():
                        fn(m, A)
                except Exception as e:  # noqa: BLE001
                    if name == "TriaMesh queries":
                        return core.Violation("purity", "query raised %s: %s" % (type(e).__name__, e), dict(kind="purity", call=name))
                if not (np.array_equal(m.v, v0) and np.array_equal(m.t, t0)):
                    return core.Violation("purity", "%s modified the mesh passed to it" % name, dict(kind="purity", call=name, input_class=name))
                for k, a0 in A0.items():
                    if A[k].dtype != a0.dtype or not np.array_equal(A[k], a0):
                        return core.Violation("caller-arrays", "%s wrote into the array `%s` owned by the caller" % (name, k), dict(kind="purity", call=name))
        finally:
            shutil.rmtree(d, ignore_errors=True)
        return None
