"""C16 — level-set length and path are exact for the piecewise-linear interpolant."""
import numpy as np

from .. import repo, core, gen, wire, extract
from ..base import BaseCheck
from lapy import TriaMesh


def level_arg(case, levels):
    """the `level` argument as handed to the implementation: float / Python int / float array / integer array"""
    if case.get("level_dtype") == "int":
        return int(levels[0]) if len(levels) == 1 else np.array([int(x) for x in levels], dtype=np.int64)
    return levels[0] if len(levels) == 1 else np.array(levels)


def pick_level(rng, f):
    """a level strictly between two consecutive distinct vertex values"""
    u = np.unique(f)
    if len(u) < 2:
        return None
    k = int(rng.integers(0, len(u) - 1))
    return float(u[k] + (u[k + 1] - u[k]) * rng.uniform(0.2, 0.8))


def reference_segments(v, t, f, level):
    """independent evaluation: per triangle, the segment of the level set of the linear interpolant"""
    segs = []
    for k, tr in enumerate(t):
        pts = []
        for a, b in ((tr[0], tr[1]), (tr[1], tr[2]), (tr[2], tr[0])):
            fa, fb = f[a], f[b]
            if (fa - level) * (fb - level) < 0:
                x = (level - fa) / (fb - fa)
                pts.append(((1 - x) * v[a] + x * v[b], (min(a, b), max(a, b))))
        if len(pts) == 2:
            segs.append((k, pts[0], pts[1]))
    return segs


def tri_distance(p, tri):
    """distance of the point p to the (closed) triangle tri (3x3)"""
    a, b, c = tri
    n = np.cross(b - a, c - a)
    nn = np.dot(n, n)
    if nn > 0:
        q = p - np.dot(p - a, n) / nn * n
        A = np.vstack([np.array([a, b, c]).T, np.ones(3)])
        lam, *_ = np.linalg.lstsq(A, np.append(q, 1.0), rcond=None)
        if np.min(lam) >= 0:
            return float(np.linalg.norm(p - q))
    best = np.inf
    for x, y in ((a, b), (b, c), (c, a)):
        d = y - x
        s_ = np.clip(np.dot(p - x, d) / max(np.dot(d, d), 1e-300), 0.0, 1.0)
        best = min(best, float(np.linalg.norm(p - (x + s_ * d))))
    return best


def is_single_open_curve(segs):
    deg = {}
    for _, (p, e1), (q, e2) in segs:
        deg[e1] = deg.get(e1, 0) + 1; deg[e2] = deg.get(e2, 0) + 1
    ends = [e for e, d in deg.items() if d == 1]
    if len(ends) != 2 or any(d > 2 for d in deg.values()):
        return False
    # connected
    adj = {}
    for _, (p, e1), (q, e2) in segs:
        adj.setdefault(e1, []).append(e2); adj.setdefault(e2, []).append(e1)
    seen = {ends[0]}; stack = [ends[0]]
    while stack:
        x = stack.pop()
        for y in adj[x]:
            if y not in seen:
                seen.add(y); stack.append(y)
    return len(seen) == len(deg)


class Check(BaseCheck):
    id = "C16"
    audit_mod = "LapyVerif.Audit.C16"
    rule = ("triangle generator families x random scalar vertex functions (affine + perturbation, plane cuts of patches for single-curve levels) x "
            "levels strictly between vertex values (one level and arrays of levels) x n_points; level_length for every case, level_path where "
            "the level set of the interpolant is a single open curve; distinct by hash of (mesh, function, level)")
    trusted = ["scipy.sparse.csgraph.shortest_path: exact graph distances (assumed; the model computes breadth-first distances)",
               "np.interp / np.linspace as re-implemented by the model",
               "level_length is re-traced from the source on every run for two crossing patterns on the boundary of a generic tetrahedron and "
               "bridged to the model by proof under the recorded path condition (Bridge/Level.lean); level_path is tied differentially only"]
    assumptions = ["PARTIAL: three-fold re-resampling only approximates equal spacing along the original curve; merged near-duplicate points may "
                   "shorten the polyline by up to k*1e-3"]

    def translate(self):
        extract.gen_level()

    def cases(self, seed, n):
        rng = gen.rng_for(seed, "c16")
        for c in gen.tria_stream(seed + 131, n, "small"):
            v, t = c["v"], c["t"]
            if len(np.unique(t)) != len(v):
                continue
            a = rng.normal(size=3)
            f = v @ a + 0.05 * np.sin(3 * v @ rng.normal(size=3))
            lv = pick_level(rng, f)
            if lv is None:
                continue
            near = rng.random() < 0.35
            if near:
                # a level that passes a vertex within the 1e-3 merge distance without attaining its value
                u = np.unique(f)
                k = int(rng.integers(1, len(u) - 1)) if len(u) > 2 else 0
                lv = float(u[k] + (1e-7 if rng.random() < 0.5 else -1e-7) * (u[-1] - u[0]))
                if np.any(f == lv) or not (u[0] < lv < u[-1]):
                    continue
            levels = [lv] if rng.random() < 0.6 else [lv, pick_level(rng, f), pick_level(rng, f)]
            ldt = "float"
            if not near and rng.random() < 0.3:
                # integer-typed levels (Python int / integer array): rescale f so that integers lie strictly between vertex values
                f = f * (6.0 / max(np.ptp(f), 1e-30))
                ks = [k for k in range(int(np.ceil(f.min())) , int(np.floor(f.max())) + 1) if f.min() < k < f.max() and not np.any(f == k)]
                if ks:
                    levels = [float(ks[int(rng.integers(0, len(ks)))])] if len(levels) == 1 else [float(x) for x in rng.choice(ks, size=min(3, len(ks)), replace=False)]
                    ldt = "int"
            yield dict(v=v, t=t, f=f, levels=levels, n_points=int(rng.choice([0, 0, 5, 12])), name=c["name"], near_vertex=bool(near), level_dtype=ldt, pres=c.get("pres"), vdtype=c.get("vdtype"))

    def correspond(self, drv, stats):
        fails = []
        for case in self.cases(self.seed, 40 if self.quick else 4000):
            v, t, f, levels = case["v"], case["t"], case["f"], case["levels"]
            with core.quiet():
                m = TriaMesh(*gen.arrays(case))
            segs = reference_segments(v, t, f, levels[0])
            single = is_single_open_curve(segs)
            stats.case(core.mesh_key(v, t, f[:3].tolist(), levels), cls=["class:" + case["name"], "levels:%d" % len(levels), "single-curve:%s" % single, "near-vertex-level:%s" % case.get("near_vertex", False), "level-dtype:" + case.get("level_dtype", "float")],
                       sample=dict(name=case["name"], nv=len(v), levels=levels, single_curve=single))
            r = wire.Reply(drv.ask("level_length %s %s %s %s" % (wire.verts(v), wire.elems(t), wire.rawfloats(f), wire.floats(levels))))
            res = core.call(m.level_length, f, level_arg(case, levels))
            if res[0] != "ok" or r.status != "ok" or core.relerr(np.atleast_1d(res[1]), r.floats()) > 1e-9:
                fails.append(core.Failure("correspondence", "level_length vs model", "%s: impl %s" % (case["name"], str(res)[:80]), case))
            if single:
                npnt = case["n_points"]
                if npnt == 12:      # the natural number of points of this curve (coincidence must not switch resampling off)
                    r0 = core.call(m.level_path, f, level_arg(case, levels[:1]))
                    npnt = len(r0[1][0]) if r0[0] == "ok" else npnt
                    stats.monitor("level_path with n_points = natural point count")
                rp = wire.Reply(drv.ask("level_path %s %s %s %s %d" % (wire.verts(v), wire.elems(t), wire.rawfloats(f), wire.fhex(levels[0]), npnt)))
                if npnt:
                    res = core.call(m.level_path, f, level_arg(case, levels[:1]), False, npnt)
                else:
                    res = core.call(m.level_path, f, level_arg(case, levels[:1]), True)
                if res[0] != "ok" or rp.status != "ok":
                    fails.append(core.Failure("correspondence", "level_path vs model", "%s: impl %s model %s" % (case["name"], str(res)[:80], rp.raw[:40]), case))
                    continue
                mp = rp.v3s(); ml = rp.flt(); mt = rp.nats()
                ip = np.asarray(res[1][0], float); il = float(res[1][1])
                # the curve may be traversed from either end (endpoints[0] is the smaller point index in both, so normally identical)
                same = ip.shape == mp.shape and (core.relerr(ip, mp) < 1e-9 or core.relerr(ip, mp[::-1]) < 1e-9)
                if not same or abs(il - ml) > 1e-9 * max(il, 1e-12):
                    fails.append(core.Failure("correspondence", "level_path vs model", "%s: points/length differ (n_points=%d)" % (case["name"], npnt), case))
                elif not npnt and not (np.array_equal(np.asarray(res[1][2]), mt) or np.array_equal(np.asarray(res[1][2]), mt[::-1])):
                    fails.append(core.Failure("correspondence", "level_path triangle indices vs model", case["name"], case))
                stats.monitor("level_path compared")
            if len(fails) > 5:
                break
        # non-scalar input
        v, t = gen.grid(2, 2)
        with core.quiet():
            m = TriaMesh(v, t)
        for fn in (m.level_length, m.level_path):
            res = core.call(fn, np.zeros((len(v), 2)), 0.1)
            stats.case("nonscalar" + fn.__name__, cls="malformed")
            if not (res[0] == "err" and res[1] == "ValueError"):
                fails.append(core.Failure("correspondence", "non-scalar input", "%s: %s" % (fn.__name__, res[:2])))
        return fails

    def search_cases(self):
        return self.cases(self.seed + 17, 40 if self.quick else 300)

    def oracle(self, case):
        v = np.asarray(case["v"], float); t = np.asarray(case["t"], dtype=np.int64); f = np.asarray(case["f"], float)
        levels = [float(x) for x in case["levels"]]
        with core.quiet():
            m = TriaMesh(*gen.arrays(case))
        refs = []
        for lv in levels:
            segs = reference_segments(v, t, f, lv)
            refs.append(sum(np.linalg.norm(s[1][0] - s[2][0]) for s in segs))
        res = core.call(m.level_length, f, level_arg(case, levels))
        if res[0] != "ok" or np.max(np.abs(np.atleast_1d(res[1]) - np.array(refs))) > 1e-9 * max(max(refs), 1e-12):
            return core.Violation("level_length", "level_length %s differs from the length of the level set of the interpolant %s" % (str(res)[:60], refs), case)
        segs = reference_segments(v, t, f, levels[0])
        if is_single_open_curve(segs):
            res = core.call(m.level_path, f, level_arg(case, levels[:1]), True)
            if res[0] != "ok":
                return core.Violation("level_path", "raised on a single open curve: %s" % (res[1:],), case)
            pts, ln, tri = res[1]
            pts = np.asarray(pts)
            if abs(ln - refs[0]) > 1e-9 * max(refs[0], 1e-12):
                return core.Violation("level_path", "path length differs from level_length", case)
            merged = len(segs) + 1 - len(pts)
            for p in pts:
                # each point lies on a mesh edge at the level value
                ok = any(np.linalg.norm(p - q) < 1e-9 * max(1, np.abs(v).max()) for s in segs for q in (s[1][0], s[2][0]))
                if not ok:
                    return core.Violation("level_path", "a path point is not an edge crossing at the level", case)
            for k in range(len(pts) - 1):
                tr = t[tri[k]]
                ctr = v[tr]
                # both consecutive points in the reported triangle; merging points closer than 1e-3 may leave a kept point up to
                # (number of merged points) x 1e-3 away from it, an absolute distance
                for p in (pts[k], pts[k + 1]):
                    if tri_distance(p, ctr) > 1e-3 * (1 + merged) + 1e-9 * max(1, np.abs(v).max()):
                        return core.Violation("level_path", "consecutive points not in the reported common triangle", case)
            poly = np.sum(np.linalg.norm(np.diff(pts, axis=0), axis=1))
            if poly > ln + 1e-9 or poly < ln - (merged + 1) * 1e-3 - 1e-9:
                return core.Violation("level_path", "points are not in order along the curve (polyline %.6g vs length %.6g)" % (poly, ln), case)
            for n in (7, len(pts)):
              r2 = core.call(m.level_path, f, levels[0], False, n)
              if n == len(pts) and r2[0] == "ok" and len(pts) > 3:
                rq = np.asarray(r2[1][0]); dq = np.linalg.norm(np.diff(rq, axis=0), axis=1); d0 = np.linalg.norm(np.diff(pts, axis=0), axis=1)
                if np.ptp(d0) > 0.3 * d0.mean() and np.max(np.abs(rq - pts)) < 1e-6 * d0.mean():
                    return core.Violation("resample", "n_points equal to the number of crossing points returns the unresampled points (not equally spaced)", case)
            n = 7
            r2 = core.call(m.level_path, f, levels[0], False, n)
            if r2[0] != "ok" or len(r2[1][0]) != n:
                return core.Violation("resample", "n_points=%d: %s" % (n, str(r2)[:60]), case)
            rp = np.asarray(r2[1][0])
            if np.linalg.norm(rp[0] - pts[0]) > 1e-9 and np.linalg.norm(rp[0] - pts[-1]) > 1e-9:
                return core.Violation("resample", "end points changed by resampling", case)
            if np.linalg.norm(rp[-1] - pts[-1]) > 1e-9 and np.linalg.norm(rp[-1] - pts[0]) > 1e-9:
                return core.Violation("resample", "end points changed by resampling", case)
            d = np.linalg.norm(np.diff(rp, axis=0), axis=1)
            if np.ptp(d) > 0.05 * d.mean() + 1e-9 and len(pts) > 3:
                # equal spacing holds along the resampled polyline; chord lengths vary with curvature: judge only gross deviations
                if np.ptp(d) > 0.5 * d.mean():
                    return core.Violation("resample", "resampled points are not (approximately) equally spaced", case)
        for fn in (m.level_length, m.level_path):
            r3 = core.call(fn, np.zeros((len(v), 2)), 0.1)
            if not (r3[0] == "err" and r3[1] == "ValueError"):
                return core.Violation("nonscalar", "%s accepts non-scalar input" % fn.__name__, case)
        return None
