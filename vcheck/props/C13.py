"""C13 — geometric measures obey their defining formulas and transformation laws."""
import itertools
import numpy as np

from .. import repo, core, gen, wire, extract, corr_fem
from ..base import BaseCheck
from .C09 import brute
from lapy import TriaMesh, TetMesh, Solver


def impl_measures(v, t):
    m = TriaMesh(v, t)
    out = dict(areas=m.tria_areas(), area=m.area(), vareas=m.vertex_areas(), avg=m.avg_edge_length(), normals=m.tria_normals(),
               qual=m.tria_qualities())
    try:
        out["volume"] = ("ok", float(m.volume()))
    except ValueError:
        out["volume"] = ("err", "ValueError")
    c, tot = m.centroid()
    out["centroid"] = c; out["total"] = tot
    try:
        out["vnormals"] = ("ok", m.vertex_normals())
    except ValueError:
        out["vnormals"] = ("err", "ValueError")
    m2 = TriaMesh(v, t); m2.normalize_(); out["normalized"] = np.array(m2.v)
    return out


def parse_measures(r):
    out = dict(areas=r.floats(), area=r.flt())
    st = r.tok()
    out["volume"] = ("ok", r.flt()) if st == "ok" else ("err", r.tok())
    out["vareas"] = r.floats(); out["avg"] = r.flt(); out["normals"] = r.v3s(); out["qual"] = r.floats()
    out["centroid"] = r.v3s()[0]; out["total"] = r.flt()
    st = r.tok()
    out["vnormals"] = ("ok", r.v3s()) if st == "ok" else ("err", r.tok())
    return out


class Check(BaseCheck):
    id = "C13"
    audit_mod = "LapyVerif.Audit.C13"
    leanchecker_mods = ["LapyVerif.Props.C13"]
    rule = ("all triangle generator families (+ tetra meshes for avg_edge_length) x rigid motions / relabellings; every measure compared "
            "with the model (1e-9 relative), offsets d in a random range; distinct by hash of (v, t)")
    trusted = ["tria_areas, area, volume, tria_normals, tria_qualities, centroid, normalize_, vertex_areas, avg_edge_length, vertex_normals, "
               "normal_offset_ are re-traced from the source on every run (on the boundary of a generic tetrahedron) and bridged to the model by "
               "proof; the generalisation from that topology to all meshes is what the differential check samples"]

    def translate(self):
        extract.gen_measures()
        extract.gen_vertex_measures()

    def correspond(self, drv, stats):
        fails = []
        n, size = (30, "small") if self.quick else (500, "large")
        rng = gen.rng_for(self.seed, "c13")
        for c in itertools.chain(gen.int_cases(), gen.big_cases(self.seed, False), gen.tria_stream(self.seed + 51, n, size)):
            v, t = c["v"], c["t"]
            if len(np.unique(t)) != len(v):
                continue
            stats.case(core.mesh_key(v, t), cls=["class:" + c["name"]] + ["mod:" + x for x in c["tags"] if x != c["name"]],
                       sample=dict(name=c["name"], nv=len(v), nt=len(t)))
            pv, pt = gen.arrays(c)          # same values; memory layout / index dtype / integer coordinates as the case says
            res = core.call(impl_measures, pv, pt)
            r = wire.Reply(drv.ask("measures %s %s" % (wire.verts(v), wire.elems(t))))
            if res[0] != "ok" or r.status != "ok":
                fails.append(core.Failure("correspondence", "measures vs model", "%s: impl %s model %s" % (c["name"], str(res)[:100], r.raw[:60]), c))
                continue
            im, mm = res[1], parse_measures(r)
            for key in ("areas", "area", "vareas", "avg", "normals", "qual", "centroid", "total"):
                e = core.relerr(im[key], mm[key])
                if key == "centroid":      # may be (numerically) zero: compare against the size of the mesh
                    e = float(np.max(np.abs(np.asarray(im[key]) - mm[key])) / max(np.abs(v).max(), 1e-300))
                if e > 1e-9:
                    fails.append(core.Failure("correspondence", "measure %s vs model" % key, "%s rel.err %.3g" % (c["name"], e), dict(c, measure=key)))
            # vertices whose incident triangle normals cancel (pinched vertices, folded fans): the normalised vertex normal is 0/0 there
            _cr = corr_fem.tri_geom(v, t)[3]
            _raw = np.zeros((len(v), 3)); np.add.at(_raw, t.reshape(-1), np.repeat(_cr, 3, axis=0))
            well = np.linalg.norm(_raw, axis=1) > 1e-6 * max(np.linalg.norm(_raw, axis=1).max(), 1e-300)
            for key in ("volume", "vnormals"):
                a, b = im[key], mm[key]
                if key == "vnormals" and a[0] == "ok" and b[0] == "ok" and not well.all():
                    a = ("ok", np.asarray(a[1])[well]); b = ("ok", np.asarray(b[1])[well])
                    stats.monitor("vertex normals compared only where the normal sum does not vanish")
                if a[0] != b[0] or (a[0] == "ok" and core.relerr(a[1], b[1]) > 1e-9 and np.max(np.abs(np.asarray(a[1]) - np.asarray(b[1]))) > 1e-12) or (a[0] == "err" and a[1] != b[1]):
                    fails.append(core.Failure("correspondence", "measure %s vs model" % key, "%s impl %s model %s" % (c["name"], str(a)[:60], str(b)[:60]), dict(c, measure=key)))
            rn = wire.Reply(drv.ask("normalize %s %s" % (wire.verts(v), wire.elems(t))))
            if rn.status != "ok" or core.relerr(im["normalized"], rn.v3s()) > 1e-9:
                fails.append(core.Failure("correspondence", "normalize_ vs model", c["name"], c))
            else:
                # a mesh that already has unit area but is not centred: normalize_ must still move the centroid to the origin
                vu = np.asarray(im["normalized"], float) + rng.uniform(-3, 3, 3)
                def renorm():
                    m3 = TriaMesh(vu, pt); m3.normalize_(); return np.array(m3.v)
                r3 = core.call(renorm)
                rm3 = wire.Reply(drv.ask("normalize %s %s" % (wire.verts(vu), wire.elems(t))))
                if r3[0] != "ok" or rm3.status != "ok" or np.max(np.abs(r3[1] - rm3.v3s())) > 1e-9 * max(1.0, np.abs(vu).max()):
                    fails.append(core.Failure("correspondence", "normalize_ vs model", "%s: unit-area mesh translated away from the origin" % c["name"], dict(c, v=vu, unit_area=True)))
            d = float(rng.uniform(-0.5, 0.5))
            ro = drv.ask("offset %s %s %s" % (wire.fhex(d), wire.verts(v), wire.elems(t)))
            def off():
                m = TriaMesh(pv, pt); m.normal_offset_(d); return np.array(m.v)
            io = core.call(off)
            if io[0] == "ok" and not well.all():
                pass
            elif io[0] == "ok":
                rr = wire.Reply(ro)
                if rr.status != "ok" or core.relerr(io[1], rr.v3s()) > 1e-9:
                    fails.append(core.Failure("correspondence", "normal_offset_ vs model", c["name"], c))
            elif ro != "err " + io[1]:
                fails.append(core.Failure("correspondence", "normal_offset_ vs model", "%s impl %s model %s" % (c["name"], io, ro[:40]), c))
            if im["vnormals"][0] == "ok" and io[0] == "ok" and well.all():
                # the same operations on ONE object, interleaved with queries: the model is stateless, so every step must be the
                # model's function of the current vertices (no cached normals may survive a vertex-moving operation)
                ds = [0.2 * im["avg"] * float(rng.uniform(0.3, 1.0)), -0.15 * im["avg"] * float(rng.uniform(0.3, 1.0))]
                def seq_impl():
                    m = TriaMesh(pv, pt)
                    out = [np.array(m.vertex_normals())]
                    for dd in ds:
                        m.normal_offset_(dd)
                        out.append(np.array(m.v)); out.append(np.array(m.vertex_normals()))
                    return out
                sq = core.call(seq_impl)
                stats.monitor("offset/query sequences on one object compared step by step")
                ok = sq[0] == "ok"
                vm = v
                if ok:
                    for j, dd in enumerate(ds):
                        ra = wire.Reply(drv.ask("offset %s %s %s" % (wire.fhex(dd), wire.verts(vm), wire.elems(t))))
                        if ra.status != "ok":
                            ok = False; break
                        vm = ra.v3s()
                        mm2 = parse_measures(wire.Reply(drv.ask("measures %s %s" % (wire.verts(vm), wire.elems(t)))))
                        if core.relerr(sq[1][1 + 2 * j], vm) > 1e-9 or mm2["vnormals"][0] != "ok" or np.max(np.abs(sq[1][2 + 2 * j] - mm2["vnormals"][1])) > 1e-8:
                            ok = False; break
                if not ok:
                    fails.append(core.Failure("correspondence", "vertex_normals / normal_offset_ sequence on one object vs model", c["name"], c))
            if len(fails) > 6:
                return fails
        for c in gen.tet_stream(self.seed + 52, 8 if self.quick else 100, size):
            with core.quiet():
                a = TetMesh(c["v"], c["t"]).avg_edge_length()
            r = wire.Reply(drv.ask("tet_avg_edge %s %s" % (wire.verts(c["v"]), wire.elems(c["t"]))))
            stats.case(core.mesh_key(c["v"], c["t"]), cls=["tet:" + c["name"]])
            if r.status != "ok" or core.relerr(a, r.flt()) > 1e-9:
                fails.append(core.Failure("correspondence", "tet avg_edge_length vs model", c["name"], dict(c, kind="tet")))
        return fails

    # ---- oracle
    def search_cases(self):
        for c in itertools.chain(gen.int_cases(), gen.tria_stream(self.seed + 53, 40 if self.quick else 300, "small")):
            if len(np.unique(c["t"])) == len(c["v"]):
                yield dict(v=c["v"], t=c["t"], name=c["name"], pres=c.get("pres"), vdtype=c.get("vdtype"))

    def oracle(self, case):
        v = np.asarray(case["v"], float); t = np.asarray(case["t"], dtype=np.int64)
        pv, pt = (v, t) if case.get("kind") == "tet" else gen.arrays(case)
        if case.get("kind") == "tet":
            with core.quiet():
                a = TetMesh(v, t).avg_edge_length()
            ed = {(min(x, y), max(x, y)) for tt in t for x in tt for y in tt if x != y}
            ref = np.mean([np.linalg.norm(v[x] - v[y]) for x, y in ed])
            return None if abs(a - ref) <= 1e-9 * ref else core.Violation("avg_edge_length", "tetra avg edge %.10g vs %.10g" % (a, ref), case)
        res = core.call(impl_measures, pv, pt)
        if res[0] != "ok":
            return core.Violation("runs", "raised %s" % (res[1:],), case)
        im = res[1]
        b = brute(len(v), t)
        v0, v1, v2, cr, area = corr_fem.tri_geom(v, t)
        sc = max(area.max(), 1e-300)
        if np.max(np.abs(im["areas"] - area)) > 1e-8 * sc:
            return core.Violation("tria_areas", "tria_areas differs from half cross-product length", case)
        if abs(im["area"] - area.sum()) > 1e-9 * area.sum() or abs(im["vareas"].sum() - area.sum()) > 1e-9 * area.sum():
            return core.Violation("area", "area / sum of vertex areas differ from sum of triangle areas", case)
        with core.quiet():
            B = Solver.fem_tria_mass(TriaMesh(v, t))
        if abs(B.sum() - area.sum()) > 1e-9 * area.sum():
            return core.Violation("area", "mass matrix entries do not sum to the area", case)
        va = np.zeros(len(v)); np.add.at(va, t.reshape(-1), np.repeat(area / 3, 3))
        if np.max(np.abs(va - im["vareas"])) > 1e-9 * sc:
            return core.Violation("vertex_areas", "vertex_areas differs from a third of incident areas", case)
        if not b["closed"]:
            if im["volume"] != ("ok", 0.0):
                return core.Violation("volume", "open mesh: volume %s" % (im["volume"],), case)
        elif not b["oriented"]:
            if im["volume"][0] != "err":
                return core.Violation("volume", "closed unoriented mesh: no ValueError", case)
        else:
            ctr = v.mean(axis=0)          # reference on centred coordinates (the divergence-theorem sum is translation invariant for closed meshes)
            ref = np.sum(np.einsum("ij,ij->i", v0 - ctr, np.cross(v1 - ctr, v2 - ctr))) / 6
            size = float(np.ptp(v, axis=0).max())
            if abs(im["volume"][1] - ref) > 1e-9 * max(abs(ref), size ** 3 * 1e-3) * max(1.0, np.abs(v).max() / size):
                return core.Violation("volume", "volume %.10g vs divergence-theorem sum %.10g" % (im["volume"][1], ref), case)
            with core.quiet():
                vt = TriaMesh(v + np.array([3.0, -2.0, 5.0]), t).volume()
                vf = TriaMesh(v, t[:, [0, 2, 1]]).volume()
            if abs(vt - ref) > 1e-7 * max(abs(ref), size ** 3 * 1e-3) * max(1.0, np.abs(v).max() / size) or abs(vf + im["volume"][1]) > 1e-9 * max(abs(ref), 1e-9):
                return core.Violation("volume", "volume not translation invariant / does not flip sign with orientation", case)
        nrm = im["normals"]
        if np.min(np.linalg.norm(cr, axis=1)) < 4 * np.finfo(float).eps:
            return None          # triangles below the absolute 2^-52 guard of the kernels (treated as degenerate by design): outside the quantifier
        if np.max(np.abs(np.linalg.norm(nrm, axis=1) - 1)) > 1e-9 or np.max(np.abs(np.einsum("ij,ij->i", nrm, v1 - v0)) / np.linalg.norm(v1 - v0, axis=1)) > 1e-9 * max(1.0, np.abs(v).max() / np.linalg.norm(v1 - v0, axis=1).min() * 1e-4) \
                or np.min(np.einsum("ij,ij->i", nrm, cr)) <= 0:
            return core.Violation("tria_normals", "normals not unit / orthogonal / following the winding", case)
        q = im["qual"]
        if np.min(q) <= 0 or np.max(q) > 1 + 1e-12:
            return core.Violation("tria_qualities", "quality outside (0,1]", case)
        es = np.stack([np.linalg.norm(v1 - v0, axis=1), np.linalg.norm(v2 - v1, axis=1), np.linalg.norm(v0 - v2, axis=1)], 1)
        eq = np.max(es, 1) - np.min(es, 1) < 1e-9 * np.max(es, 1)
        if np.any(np.abs(q[eq] - 1) > 1e-9) or np.any(q[~eq & (np.max(es, 1) - np.min(es, 1) > 1e-3 * np.max(es, 1))] > 1 - 1e-9):
            return core.Violation("tria_qualities", "quality 1 not exactly for equilateral triangles", case)
        ed = list(b["und"].keys())
        ref = np.mean([np.linalg.norm(v[x] - v[y]) for x, y in ed])
        if abs(im["avg"] - ref) > 1e-9 * ref:
            return core.Violation("avg_edge_length", "avg edge length %.10g vs %.10g" % (im["avg"], ref), case)
        cref = (area[:, None] * (v0 + v1 + v2) / 3).sum(0) / area.sum()
        if np.max(np.abs(im["centroid"] - cref)) > 1e-9 * max(1, np.abs(v).max()):
            return core.Violation("centroid", "centroid differs from area-weighted mean of triangle centres", case)
        with core.quiet():
            m4 = TriaMesh(np.asarray(im["normalized"], float) + np.array([2.0, -1.0, 0.5]), t); m4.normalize_()       # unit area already, not centred
            if abs(m4.area() - 1) > 1e-9 or np.max(np.abs(m4.centroid()[0])) > 1e-9:
                return core.Violation("normalize_", "normalize_ of a unit-area mesh away from the origin does not give centroid 0 (centroid %s)" % np.round(m4.centroid()[0], 4), case)
            mn = TriaMesh(im["normalized"], t)
            if abs(mn.area() - 1) > 1e-9 or np.max(np.abs(mn.centroid()[0])) > 1e-9:
                return core.Violation("normalize_", "normalize_ does not give unit area and zero centroid", case)
        nv = im["normalized"]
        s = 1 / np.sqrt(area.sum())
        if np.max(np.abs(nv - s * (v - cref))) > 1e-9 * max(1, np.abs(nv).max()):
            return core.Violation("normalize_", "normalize_ is not the translation by -centroid followed by scaling 1/sqrt(area)", case)
        # similarity laws
        rng = gen.rng_for(self.seed, "c13o", len(v))
        Q = gen.random_rotation(rng, reflect=bool(rng.random() < 0.5)); sfac = float(rng.uniform(0.5, 2.0)); shift = rng.uniform(-2, 2, 3)
        res2 = core.call(impl_measures, sfac * (v @ Q.T) + shift, t)
        if res2[0] != "ok":
            return core.Violation("similarity", "raised on transformed mesh", case)
        i2 = res2[1]
        kap = max(1.0, 1e-5 * np.abs(v).max() / max(np.linalg.norm(v1 - v0, axis=1).min(), 1e-300))          # conditioning of the edge differences
        if core.relerr(i2["areas"], sfac ** 2 * im["areas"]) > 1e-8 * kap or core.relerr(i2["qual"], im["qual"]) > 1e-8 * kap or abs(i2["avg"] - sfac * im["avg"]) > 1e-9 * kap * i2["avg"] \
                or core.relerr(i2["normals"], im["normals"] @ Q.T * (np.linalg.det(Q))) > 1e-8 * kap:
            return core.Violation("similarity", "measures do not transform with the proper power of s under a similarity", case)
        if im["vnormals"][0] == "ok":
            vn = im["vnormals"][1]
            ln = np.linalg.norm(vn, axis=1)
            if np.max(np.abs(ln[ln > 0.5] - 1)) > 1e-9:
                return core.Violation("vertex_normals", "vertex normals not unit", case)
            crs = np.cross(v1 - v0, v[t[:, 2]] - v0)            # every corner of a triangle contributes the same cross product of its own edge vectors
            acc = np.zeros_like(v)
            for col in range(3):
                np.add.at(acc, t[:, col], crs)
            la = np.linalg.norm(acc, axis=1)
            good = la > 1e-6 * max(np.abs(crs).max(), 1e-300)
            if good.any() and np.max(np.abs(vn[good] - acc[good] / la[good][:, None])) > 1e-7 * kap:
                return core.Violation("vertex_normals", "vertex normals differ from the normalised sum of the incident triangles' cross products (max dev %.3g; boundary vertices included)"
                                      % np.max(np.abs(vn[good] - acc[good] / la[good][:, None])), case)
            d = 0.37
            def off():
                m = TriaMesh(pv, pt); m.normal_offset_(d); return np.array(m.v)
            io = core.call(off)
            if io[0] != "ok" or np.max(np.abs(np.linalg.norm(io[1] - v, axis=1)[ln > 0.5] - d)) > 1e-9:
                return core.Violation("normal_offset_", "vertices not moved by exactly |d| along the vertex normal", case)
            # the same on ONE object across vertex-moving operations: normals / offsets always refer to the current vertices
            def seq():
                m = TriaMesh(pv, pt)
                m.vertex_normals()
                out = []
                for op, arg in (("normal_offset_", 0.21 * im["avg"]), ("smooth_", 1), ("normal_offset_", -0.13 * im["avg"])):
                    before = np.array(m.v)
                    fresh = TriaMesh(before, np.array(m.t)).vertex_normals()
                    getattr(m, op)(arg)
                    after_n = m.vertex_normals()
                    out.append((op, arg, before, fresh, np.array(m.v), np.array(after_n), TriaMesh(np.array(m.v), np.array(m.t)).vertex_normals()))
                return out
            sq = core.call(seq)
            if sq[0] != "ok":
                return core.Violation("runs", "offset / smoothing sequence raised %s" % (sq[1:],), case)
            for op, arg, before, fresh, after, after_n, fresh_after in sq[1]:
                if op == "normal_offset_" and np.max(np.abs(after - (before + arg * fresh))) > 1e-9 * max(1.0, np.abs(before).max()):
                    return core.Violation("normal_offset_", "after earlier in-place operations normal_offset_(d) does not move the vertices by d along their current vertex normals", case)
                if np.max(np.abs(after_n - fresh_after)) > 1e-9:
                    return core.Violation("vertex_normals", "vertex_normals after %s differs from the normals of the current vertices (max %.3g)" % (
                        op, np.max(np.abs(after_n - fresh_after))), case)
        return None
