"""C10 — orient_ makes every orientable manifold triangle mesh consistently oriented."""
import numpy as np

from .. import repo, core, gen, wire, extract
from ..base import BaseCheck
from .C09 import brute
from lapy import TriaMesh

ORIENTABLE = ["grid", "lifted", "delaunay", "delaunay-lifted", "icosphere", "ellipsoid", "octahedron", "tetra-surface", "torus",
              "cylinder", "holes", "two-components", "two-spheres", "pinched-closed", "pinched-open"]


def impl_orient(v, t, it=None):
    if it is not None:
        t = np.asarray(t).astype(it)
    m = TriaMesh(v, t)
    r = m.orient_()
    return int(r), np.array(m.t, dtype=np.int64), np.array(m.v, dtype=np.float64)


def winding_differs(a, b):
    """same vertex set, opposite cyclic order"""
    a = list(a); b = list(b)
    rots = [a, a[1:] + a[:1], a[2:] + a[:2]]
    return b not in rots


def shares_edge_all(t):
    und = {}
    for k, (a, b, c) in enumerate(t):
        for x, y in ((a, b), (b, c), (c, a)):
            und.setdefault((min(x, y), max(x, y)), []).append(k)
    has = set()
    for ks in und.values():
        if len(ks) >= 2:
            has.update(ks)
    return len(has) == len(t)


def zero_volume_ambiguity(v, res, model_reply):
    """True iff implementation and model both succeeded, differ exactly by the reversal of ALL triangles, and the enclosed volume of the
    result is zero up to rounding (|sum| <= 1e-9 * sum of |terms|), so that its sign is not determined by the real-number model"""
    if res[0] != "ok" or not model_reply.startswith("ok "):
        return False
    ti = np.asarray(res[1][1], dtype=np.int64)
    toks = model_reply.split()
    try:
        nt = int(toks[2])
        tm = np.array([int(x) for x in toks[3:3 + 3 * nt]], dtype=np.int64).reshape(nt, 3)
    except Exception:  # noqa: BLE001
        return False
    if tm.shape != ti.shape or not np.array_equal(tm[:, [0, 2, 1]], ti) or int(toks[1]) + int(res[1][0]) != nt:
        return False
    vv = np.asarray(v, float)
    p0, p1, p2 = vv[ti[:, 0]], vv[ti[:, 1]], vv[ti[:, 2]]
    terms = np.einsum("ij,ij->i", p0, np.cross(p1 - p0, p2 - p0))
    return abs(terms.sum()) <= 1e-9 * max(np.abs(terms).sum(), 1e-300)


class Check(BaseCheck):
    id = "C10"
    audit_mod = "LapyVerif.Audit.C10"
    rule = ("orientable manifold families (grids, lifted/Delaunay patches, icospheres, ellipsoids, tori, cylinders, disks with holes, "
            "unions of two components) x random flip patterns x row rotations x relabellings x element permutations, plus non-manifold "
            "fans (must raise) and, in the thorough tier, all flip patterns of the tetrahedron boundary / octahedron / 2x2 grid; every "
            "implementation call runs in a killable worker so non-termination is an observable output; distinct by hash of (v, t)")
    trusted = ["np.unique/np.lexsort pairing and SciPy sparse product (exact zeros pruned) as re-implemented by the model"]

    def translate(self):
        extract.gen_tri_orient()

    def cases(self):
        n, size = (40, "small") if self.quick else (700, "large")
        k = 0
        for c in gen.tria_stream(self.seed + 21, n, size, classes=ORIENTABLE + ["fan3"], first=("pinched-closed", "pinched-open", "two-spheres")):
            rng = gen.rng_for(self.seed, "c10", k); k += 1
            t = c["t"]
            if c["name"] != "fan3":
                t = gen.flip_some(rng, t, rng.choice([0.0, 0.1, 0.5, 0.9, 1.0]))
                t = gen.rotate_rows(rng, t)
            v = c["v"]; name = c["name"]; vd = c.get("vdtype")
            if k % 4 == 2:          # the same mesh far away from the origin (10^6..10^8 times its size): orientation does not depend on position
                u = rng.normal(size=3); v = v + 10.0 ** rng.uniform(6, 8) * np.ptp(v, axis=0).max() * u / np.linalg.norm(u); name += "+far"; vd = None
            elif k % 4 == 0 and vd is None:
                # the same mesh in a very small length unit (coordinates ~1e-6 .. 1e-8: volumes down to 1e-24): orientation is scale free
                v = v * 10.0 ** (-rng.uniform(5.5, 8.0)); name += "+tiny"
            yield dict(v=v, t=t, name=name, pres=c.get("pres"), vdtype=vd)
        # non-manifold complexes (must be rejected): two closed, individually consistent surfaces glued along one edge (the common edge carries two
        # half-edges in each direction), both outward / one reversed / with a flipped triangle; three discs on a common rim
        gv, gt = gen.glued_tetras()
        cube_t = np.array([[0, 2, 1], [0, 3, 2], [4, 5, 6], [4, 6, 7], [0, 1, 5], [0, 5, 4], [1, 2, 6], [1, 6, 5], [2, 3, 7], [2, 7, 6], [3, 0, 4], [3, 4, 7]])
        cube_v = np.array([[0, 0, 0], [1, 0, 0], [1, 1, 0], [0, 1, 0], [0, 0, 1], [1, 0, 1], [1, 1, 1], [0, 1, 1]], float)
        # second cube shifted by (1, 1, 0): it shares the vertical edge (1,1,0)-(1,1,1) = its own vertices 0 and 4
        c2 = cube_t + 8
        c2 = np.where(c2 == 8, 2, np.where(c2 == 12, 6, c2))
        keep = [i for i in range(16) if i not in (8, 12)]
        ren = {old: new for new, old in enumerate(keep)}
        cv = np.vstack([cube_v, cube_v + np.array([1.0, 1.0, 0.0])])[keep]
        ct = np.vectorize(ren.get)(np.vstack([cube_t, c2]))
        for nm, (nv_, nt_) in (("glued-tetras", (gv, gt)), ("glued-cubes", (cv, ct)), ("theta", gen.theta(5))):
            nt_ = np.asarray(nt_)
            yield dict(v=np.asarray(nv_, float), t=nt_, name="nonmanifold:" + nm)
            half = len(nt_) // 2
            t_rev = nt_.copy(); t_rev[half:] = t_rev[half:][:, [0, 2, 1]]
            yield dict(v=np.asarray(nv_, float), t=t_rev, name="nonmanifold:" + nm + ":second-part-reversed")
            yield dict(v=np.asarray(nv_, float), t=nt_[:, [0, 2, 1]], name="nonmanifold:" + nm + ":all-reversed")
        # narrow index dtypes on meshes with more than 256 / many vertices (index arithmetic must not overflow)
        rng = gen.rng_for(self.seed, "c10-dtype")
        v, t = gen.icosphere(3)
        for it in ("int16", "int32"):
            yield dict(v=v, t=gen.rotate_rows(rng, gen.flip_some(rng, t, 0.3)), name="icosphere3", it=it)
        # exhaustive flip patterns of small closed / open complexes
        bases = [("tetra-surface", gen.tetra_surface()), ("grid2x1", gen.grid(2, 1))]
        if not self.quick:
            bases += [("octahedron", gen.octahedron()), ("grid2x2", gen.grid(2, 2))]
        for name, (v, t) in bases:
            for fl in range(1 << len(t)):
                t2 = t.copy()
                for j in range(len(t)):
                    if fl >> j & 1:
                        t2[j] = t2[j][[1, 0, 2]]
                yield dict(v=v, t=t2, name="flips:" + name)

    def correspond(self, drv, stats):
        fails = []
        for c in self.cases():
            v, t = c["v"], c["t"]
            gen.use(c)
            if c.get("it"):
                # narrow index dtype: must behave exactly like the int64 run (which other cases tie to the model)
                ref = core.run_limited(impl_orient, (v, t, None), 60.0)
                r = "ok %d %s" % (ref[1][0], wire.elems(ref[1][1])) if ref[0] == "ok" else "err " + str(ref[1:2])
            else:
                r = drv.ask("orient_tri %s %s" % (wire.verts(v), wire.elems(t)))
            res = core.run_limited(impl_orient, (v, t, c.get("it")), 60.0)
            if res[0] == "ok":
                got = "ok %d %s" % (res[1][0], wire.elems(res[1][1]))
            elif res[0] == "err":
                got = "err " + res[1]
            else:
                got = "err Timeout"
            stats.case(core.mesh_key(v, t), cls=["class:" + c["name"], "result:" + got.split(" ")[0] + ("" if got.startswith("ok") else got[3:])],
                       sample=dict(name=c["name"], nv=len(v), nt=len(t), result=got[:40]))
            if got != r and zero_volume_ambiguity(v, res, r):
                # closed parts of equal volume oriented against each other (they touch in a vertex or are separate components): the enclosed
                # volume is 0 in exact arithmetic, its rounded sign decides the global flip, and model and implementation sum in different order
                stats.monitor("global flip decided by the sign of a numerically zero volume (compared up to reversal of all triangles)")
            elif got != r:
                fails.append(core.Failure("correspondence", "orient_ vs model", "%s: impl %s | model %s" % (c["name"], got[:100], r[:100]), c))
                if len(fails) > 5:
                    break
        # meshes beyond the reach of the executable model (its flood is cubic in the triangle count): the statements the theorems make about
        # the model's output (consistent orientation, same vertex sets, count of changed triangles, non-negative volume, idempotence) are
        # evaluated on the implementation's output directly
        for c in self.large_cases():
            stats.case(core.mesh_key(c["v"], c["t"]), cls=["class:" + c["name"], "postconditions-only"], sample=dict(name=c["name"], nt=len(c["t"])))
            vio = self.oracle(c)
            stats.monitor("large meshes: orient_ postconditions evaluated")
            if vio is not None:
                fails.append(core.Failure("correspondence", "orient_ postconditions on large meshes", "%s: %s" % (c["name"], vio.what), c))
        return fails

    def large_cases(self):
        rng = gen.rng_for(self.seed, "c10-large")
        n = 450 if self.quick else 1500
        v, t = gen.grid(n, 1)                                   # long thin strip: the flood needs ~n sweeps
        yield dict(v=gen.lift(rng, v, 0.2), t=gen.rotate_rows(rng, gen.flip_some(rng, t, 0.4)), name="strip-%d" % n)
        tv, tt = gen.tetra_surface()                            # very many components
        k = 150 if self.quick else 1200
        vs = np.vstack([tv + 5.0 * np.array([i % 20, i // 20, 0.0]) for i in range(k)]); ts = np.vstack([tt + 4 * i for i in range(k)])
        yield dict(v=vs, t=gen.rotate_rows(rng, gen.flip_some(rng, ts, 0.5)), name="components-%d" % k)
        v, t = gen.torus(60, 8)                                 # long closed tube
        yield dict(v=v, t=gen.flip_some(rng, t, 0.3), name="tube-60x8")

    def search_cases(self):
        yield from self.cases()
        yield from self.large_cases()

    def oracle(self, case):
        v = np.asarray(case["v"], float); t = np.asarray(case["t"], dtype=np.int64)
        b = brute(len(v), t)
        res = core.run_limited(impl_orient, (v, t, case.get("it")), 60.0)
        if not b["manifold"]:
            if not (res[0] == "err" and res[1] == "ValueError"):
                return core.Violation("non-manifold", "mesh with an edge in more than two triangles not rejected with ValueError: orient_ %s" % (
                    ("returned %s" % (res[1][0],)) if res[0] == "ok" else str(res[:2])[:80]), case)
            return None
        if case.get("name", "").startswith("mobius") or not shares_edge_all(t):
            return None
        if res[0] == "timeout":
            return core.Violation("terminates", "orient_ did not terminate within 30 s", case)
        if res[0] == "err":
            return core.Violation("terminates", "orient_ raised %s on an orientable manifold mesh: %s" % (res[1], res[2]), case)
        flipped, t2, v2 = res[1]
        if not np.array_equal(v2, v):
            return core.Violation("vertices", "vertex array changed", case)
        if t2.shape != t.shape or any(sorted(a) != sorted(bb) for a, bb in zip(t, t2)):
            return core.Violation("vertex-sets", "triangle order or vertex sets changed", case)
        with core.quiet():
            m2 = TriaMesh(v, t2)
            if not m2.is_oriented():
                return core.Violation("oriented", "mesh not oriented after orient_", case)
            if m2.is_closed() and m2.volume() < -1e-12:
                return core.Violation("volume", "closed mesh has negative volume %.6g after orient_" % m2.volume(), case)
            vc = v - v.mean(axis=0)          # enclosed volume evaluated independently, on centred coordinates
            vol_c = float(np.sum(np.einsum("ij,ij->i", vc[t2[:, 0]], np.cross(vc[t2[:, 1]], vc[t2[:, 2]]))) / 6.0)
            if m2.is_closed() and vol_c < -1e-9 * np.ptp(v, axis=0).max() ** 3:
                return core.Violation("volume", "closed mesh is inside-out after orient_ (enclosed volume %.6g, computed on centred coordinates)" % vol_c, case)
        nd = sum(winding_differs(a, bb) for a, bb in zip(t, t2))
        if nd != flipped:
            return core.Violation("count", "returned %d but %d triangles changed their winding" % (flipped, nd), case, observed=flipped, expected=nd)
        res2 = core.run_limited(impl_orient, (v, t2), 30.0)
        if res2[0] != "ok" or res2[1][0] != 0 or not np.array_equal(res2[1][1], t2):
            return core.Violation("idempotent", "second call is not a no-op returning 0: %s" % (str(res2)[:80],), case)
        return None
