"""C01 — stiffness matrix is the exact piecewise-linear Dirichlet form."""
import numpy as np

from .. import repo, core, gen, extract, corr_fem
from ..base import BaseCheck
from lapy import TriaMesh, TetMesh, Solver


class Check(BaseCheck):
    id = "C01"
    audit_mod = "LapyVerif.Audit.C01"
    leanchecker_mods = ["LapyVerif.Props.C01", "LapyVerif.Bridge.Fem"]
    rule = ("meshes from the seeded generator families (planar/lifted grids, Delaunay patches, icospheres, ellipsoids, tori, "
            "cylinders, Moebius strips, non-manifold fans, holes, several components; tetra: cube splits, Delaunay fills, "
            "sub-collections) x random rigid motions / flips / row rotations / relabellings / element permutations x lump x dtype; "
            "a case is non-trivial if it has >= 3 elements and is distinct by hash of (vertices, elements, lump, dtype)")
    trusted = ["generalisation from the traced one-element topology to all meshes (vectorised code is uniform in the element index); "
               "cross-checked by the differential runs",
               "anisotropic matrices are stored as float32 by LaPy: compared with tolerance 2e-4"]
    assumptions = ["NonDegen: theorems are stated under the complement of the code's own guard (vol >= 2^-52 resp. vol != 0)"]

    def translate(self):
        extract.gen_fem()
        extract.gen_solver_aniso()
        extract.gen_curv_tria()
        extract.gen_dispatch()

    def correspond(self, drv, stats):
        fails = []
        n_tri, n_tet, size = (30, 8, "small") if self.quick else (600, 150, "large")
        corr_fem.run_stream(drv, stats, self.seed, n_tri, n_tet, size, fails, "fem correspondence (stiffness/mass vs model)",
                            dtypes=("f64", "f64", "f32"))
        fails += corr_fem.huge_postconditions("stiffness", stats)
        # anisotropic branch of Solver.__init__: model fed with the curvature_tria output the implementation used
        for k, c in enumerate(corr_fem.aniso_meshes(self.seed, 6 if self.quick else 60)):
            lump = bool(k % 2)
            stats.case(core.mesh_key(c["v"], c["t"], lump, "aniso"), cls=["tri-aniso:" + c["name"], "lump:%s" % lump, "aniso:" + ("pair" if isinstance(c["aniso"], tuple) else "scalar")])
            reuse = k % 3 == 2
            err = corr_fem.compare_fem_aniso(drv, c["v"], c["t"], lump, c["aniso"], c["smooth"], reuse=reuse)
            if reuse:
                stats.monitor("anisotropic Solver rebuilt on the same object after smooth_")
            if err:
                fails.append(core.Failure("correspondence", "anisotropic Solver vs model", "%s lump=%s: %s" % (c["name"], lump, err),
                                          dict(corr_fem.case_dict("tri", c["v"], c["t"], lump=lump, name=c["name"]), aniso=c["aniso"], smooth=c["smooth"])))
        return fails

    # ---- direct evaluation of the property on the implementation
    def search_cases(self):
        for k, c in enumerate(gen.tria_stream(self.seed + 1, 40 if self.quick else 300, "small")):
            for lump in (False, True):
                yield corr_fem.case_dict("tri", c["v"] * corr_fem.SCALES[k % len(corr_fem.SCALES)], c["t"], lump=lump, dt="f64", name=c["name"], pres=c.get("pres"))
        for c in gen.tet_stream(self.seed + 1, 12 if self.quick else 100, "small"):
            yield corr_fem.case_dict("tet", c["v"], c["t"], lump=False, dt="f64", name=c["name"])
        rs = gen.rng_for(self.seed, "c01-sliver")
        for h in (1e-5, 1e-7):
            v, t = gen.sliver(rs, h)
            for rot in range(3):
                yield corr_fem.case_dict("tri", v, np.roll(t, rot, axis=1), lump=False, dt="f64", name="sliver")
        for c in corr_fem.aniso_meshes(self.seed + 2, 6 if self.quick else 40):
            yield dict(corr_fem.case_dict("tri", c["v"], c["t"], lump=False, name=c["name"]), aniso=c["aniso"], smooth=c["smooth"])

    def aniso_oracle(self, case):
        """aniso = 0 coincides with the isotropic matrix to single precision; aniso >= 0: symmetric, annihilates constants, PSD, energy
        not above the isotropic one — on a fresh mesh and on a mesh object whose vertices were moved after an earlier Solver was built"""
        v = np.asarray(case["v"], dtype=np.float64); t = np.asarray(case["t"], dtype=np.int64)
        an = case["aniso"]; an = tuple(an) if isinstance(an, (list, tuple, np.ndarray)) else float(an)
        sm = int(case.get("smooth", 2))
        rng = gen.rng_for(self.seed, "c01-aniso", len(v))
        for reuse in (False, True):
            try:
                with core.quiet():
                    m = TriaMesh(v, t)
                    if reuse:
                        Solver(m, aniso=an, aniso_smooth=sm)
                        m.smooth_(1)
                        nn = np.linalg.norm(corr_fem.tri_geom(np.asarray(m.v, float), t)[3], axis=1)
                        if nn.min() < 1e-9 * nn.max():
                            continue            # smoothing made a triangle (numerically) degenerate: outside the quantifier
                    a_an = Solver(m, aniso=an, aniso_smooth=sm).stiffness.astype(np.float64)
                    a_0 = Solver(m, aniso=0.0, aniso_smooth=sm).stiffness.astype(np.float64)
                    a_iso = Solver(TriaMesh(np.array(m.v), np.array(m.t))).stiffness.astype(np.float64)
            except Exception as e:  # noqa: BLE001
                return core.Violation("aniso", "anisotropic Solver raised %s: %s" % (type(e).__name__, e), case)
            how = " (Solver rebuilt on the same mesh object after smooth_)" if reuse else ""
            scale = max(abs(a_iso).max(), 1e-300)
            if abs(a_0 - a_iso).max() > 1e-3 * scale:
                return core.Violation("aniso-zero", "aniso=0 stiffness differs from the isotropic matrix by %.3g of its largest entry%s" % (abs(a_0 - a_iso).max() / scale, how), case)
            if abs(a_an - a_an.T).max() > 1e-5 * scale or np.max(np.abs(a_an @ np.ones(len(v)))) > 1e-4 * scale:
                return core.Violation("aniso-structure", "anisotropic stiffness not symmetric / does not annihilate constants%s" % how, case)
            for _ in range(3):
                f = rng.normal(size=len(v))
                e_an = float(f @ (a_an @ f)); e_iso = float(f @ (a_iso @ f))
                if e_an < -1e-5 * abs(e_iso) or e_an > e_iso * (1 + 1e-3):
                    return core.Violation("aniso-energy", "anisotropic energy %.6g outside [0, isotropic energy %.6g]%s" % (e_an, e_iso, how), case)
        return None

    def oracle(self, case):
        if case.get("input_class") == "huge":
            for f in corr_fem.huge_postconditions("stiffness"):
                return core.Violation("huge-mesh", f.detail + " (mesh generated by corr_fem.huge_meshes)", case)
            return None
        if case.get("aniso") is not None:
            return self.aniso_oracle(case)
        kind = case["kind"]
        v = np.asarray(case["v"], dtype=np.float64); t = np.asarray(case["t"], dtype=np.int64)
        lump = bool(case.get("lump", False))
        try:
            m, s = corr_fem.impl_fem(kind, v, t, lump, pres=case.get("pres"))
        except Exception as e:  # noqa: BLE001
            return core.Violation("stiffness", "Solver raised %s: %s" % (type(e).__name__, e), case)
        a = s.stiffness.astype(np.float64)
        n = a.shape[0]
        if len(np.unique(t)) != len(v):
            return None
        if kind == "tri" and np.min(np.linalg.norm(corr_fem.tri_geom(v, t)[3], axis=1)) < 4 * np.finfo(float).eps:
            return None            # below the kernel's own absolute degeneracy guard (2^-52): outside the property's quantifier            # property quantifies over meshes without unused vertices
        scale = max(abs(a).max(), 1e-300)
        if not np.all(np.isfinite(a.data)):
            return core.Violation("finite", "non-finite stiffness entries", case)
        if abs(a - a.T).max() > 1e-9 * scale:
            return core.Violation("symmetric", "stiffness not symmetric (max asym %.3g)" % abs(a - a.T).max(), case)
        r = a @ np.ones(n)
        if np.max(np.abs(r)) > 1e-8 * scale:
            return core.Violation("constants", "A·1 != 0 (max %.3g)" % np.max(np.abs(r)), case)
        if n <= 400:
            w = np.linalg.eigvalsh(a.toarray())
            if w[0] < -1e-8 * scale:
                return core.Violation("psd", "negative eigenvalue %.3g" % w[0], case)
        rng = gen.rng_for(self.seed, "c01-oracle", n)
        for _ in range(3):
            f = rng.normal(size=n); g = rng.normal(size=n)
            lhs = float(f @ (a @ g))
            rhs = corr_fem.dirichlet(kind, v, t, f, g)
            el = np.concatenate([np.linalg.norm(v[t[:, i]] - v[t[:, j]], axis=1) for i in range(t.shape[1]) for j in range(i)])
            kappa = max(1.0, 1e-9 * float(el.max() / max(el.min(), 1e-300)) ** 2)          # needle elements of multi-scale meshes: conditioning of both sides
            if abs(lhs - rhs) > 1e-7 * kappa * max(abs(lhs), abs(rhs), scale):
                return core.Violation("dirichlet-form", "f·A·g = %.10g but sum of area*grad·grad = %.10g" % (lhs, rhs), case,
                                      observed=lhs, expected=rhs)
        # independence of vertex order / orientation of the elements
        t2 = gen.flip_some(rng, t, 0.5)
        if kind == "tri":
            t2 = gen.rotate_rows(rng, t2)
        try:
            _, s2 = corr_fem.impl_fem(kind, v, t2, lump, pres=case.get("pres"))
            a2 = s2.stiffness.astype(np.float64)
            if a2.shape != a.shape or abs(a - a2).max() > 1e-8 * scale:
                return core.Violation("order-independence", "stiffness changes when element vertex order/orientation changes", case)
        except Exception as e:  # noqa: BLE001
            return core.Violation("order-independence", "Solver raised on re-ordered elements: %s" % e, case)
        return None
