"""C17 — curvature output is a consistent principal frame, invariant under similarity."""
import itertools
import numpy as np

from .. import repo, core, gen, wire, extract, capture
from ..base import BaseCheck
from .C09 import brute
from lapy import TriaMesh, Solver

CLASSES = ["icosphere", "ellipsoid", "torus", "cylinder", "lifted", "delaunay-lifted", "octahedron"]


def run_curv(v, t, smoothit):
    with core.quiet():
        m = TriaMesh(v, t)
        with capture.capture() as calls:
            out = m.curvature(smoothit)
        vn = m.vertex_normals()
    return m, calls, [np.asarray(x, dtype=float) for x in out], vn


def oriented_cases(seed, n, size="small"):
    k = 0
    for c in gen.tria_stream(seed, n * 3, size, classes=CLASSES, modifiers=False):
        b = brute(len(c["v"]), c["t"])
        if b["oriented"] and b["manifold"] and len(np.unique(c["t"])) == len(c["v"]):
            rng = gen.rng_for(seed, "c17", k); k += 1
            v = c["v"] if c["name"] in ("icosphere", "octahedron", "cylinder") and rng.random() < 0.5 else gen.jitter(rng, c["v"], 0.01)
            t = c["t"]
            name = c["name"]
            if k % 3 == 1:           # the same surface with every triangle reversed: still oriented, all curvature signs change
                t = t[:, [0, 2, 1]]; name += "-reversed"
            yield dict(v=v, t=t, name=name, smoothit=int(rng.integers(0, 11)), pres=c.get("pres"))
            if k >= n:
                return


class Check(BaseCheck):
    id = "C17"
    audit_mod = "LapyVerif.Audit.C17"
    rule = ("oriented edge-manifold triangle meshes (icospheres, ellipsoids, tori, cylinders, lifted patches; exact and slightly jittered) x "
            "smoothing iterations 0..10; the eigen-decomposition returned by np.linalg.eig is captured and the post-processing (alignment "
            "sort, min/max swap, normal flip, handedness fix) compared with the model; curvature_tria compared given the pooled directions; "
            "distinct by hash of (mesh, smoothit)")
    trusted = ["LAPACK geev via np.linalg.eig: orthonormal eigenbasis of the symmetric 3x3 tensors — assumed by frame_post, monitored on every call "
               "(fails only for exactly repeated eigenvalues)", "np.arccos / tensor assembly before the eigen-decomposition are not modelled in Lean "
               "(evaluated through similarity relations in the oracle)"]
    assumptions = ["PARTIAL: sphere / cylinder clauses are statements about discretisations of particular shapes: monitored, not proved"]

    def translate(self):
        extract.gen_curv_tria()

    def correspond(self, drv, stats):
        fails = []
        # one mesh beyond 2^15 vertices (block-wise / chunked code paths), then the random families
        bv, bt = gen.torus(220, 190)
        big = [dict(v=bv @ gen.random_rotation(gen.rng_for(self.seed, "c17big")).T, t=bt, name="torus220x190", smoothit=1)]
        for case in itertools.chain(big, oriented_cases(self.seed + 121, 10 if self.quick else 1200)):
            v, t, sm = case["v"], case["t"], case["smoothit"]
            gen.use(case)
            stats.case(core.mesh_key(v, t, sm), cls=["class:" + case["name"], "smoothit:%d" % sm], sample=dict(name=case["name"], nv=len(v), smoothit=sm))
            try:
                m, calls, out, vn = run_curv(v, t, sm)
            except Exception as e:  # noqa: BLE001
                fails.append(core.Failure("correspondence", "curvature vs model", "raised %s: %s" % (type(e).__name__, e), case)); continue
            if len(calls.eig) != 1 or len(calls.eig[0][1]) != len(v):
                fails.append(core.Failure("correspondence", "curvature vs model", "%d eig calls covering %s of %d vertices" % (len(calls.eig), [len(c[1]) for c in calls.eig][:3], len(v)), case)); continue
            mats, evals, evecs = calls.eig[0]
            evals = np.real(evals); evecs = np.real(evecs)
            # monitor of the eig contract: orthonormal eigenbasis
            gram = np.einsum("vij,vik->vjk", evecs, evecs)
            orth = np.max(np.abs(gram - np.eye(3)), axis=(1, 2))
            good = orth < 1e-6
            stats.monitor("eig calls monitored (vertices with orthonormal eigenbasis)", int(good.sum()))
            stats.monitor("vertices with non-orthonormal eigenbasis (repeated eigenvalues)", int((~good).sum()))
            parts = []
            for i in range(len(v)):
                parts.append("%s %s %s %s %s" % (wire.rawfloats(evals[i]), wire.rawfloats(evecs[i][:, 0]), wire.rawfloats(evecs[i][:, 1]),
                                                 wire.rawfloats(evecs[i][:, 2]), wire.rawfloats(vn[i])))
            r = wire.Reply(drv.ask("curv_post %d %s" % (len(v), " ".join(parts))))
            if r.status != "ok":
                fails.append(core.Failure("correspondence", "curvature vs model", r.raw[:80], case)); continue
            n = r.nat()
            mo = np.array([[r.flt() for _ in range(13)] for _ in range(n)])
            u_min, u_max, c_min, c_max, c_mean, c_gauss, normals = out
            io = np.column_stack([u_min, u_max, c_min, c_max, c_mean, c_gauss, normals])
            # ties in the alignment sort (|e.n| equal to rounding) may legitimately order differently: compare where keys are separated
            key = -np.abs(np.einsum("vij,vi->vj", evecs, vn))
            ks = np.sort(key, axis=1)
            sep = np.minimum(ks[:, 1] - ks[:, 0], ks[:, 2] - ks[:, 1]) > 1e-9
            bad = np.max(np.abs(io - mo), axis=1) > 1e-9 * max(1.0, np.abs(io).max())
            if np.any(bad & sep):
                i = int(np.nonzero(bad & sep)[0][0])
                fails.append(core.Failure("correspondence", "curvature post-processing vs model", "%s vertex %d: impl %s model %s" % (case["name"], i, io[i][:6], mo[i][:6]), case))
            # curvature_tria given the pooled directions
            with core.quiet():
                tumin = m.map_vfunc_to_tfunc(u_min)
                tu1, tu2, tc1, tc2 = m.curvature_tria(sm)
            r2 = wire.Reply(drv.ask("curv_tria %s %s %s" % (wire.verts(v), wire.elems(t), wire.rawfloats(tumin))))
            if r2.status != "ok" or core.relerr(tu1, r2.v3s()) > 1e-9 or core.relerr(tu2, r2.v3s()) > 1e-9:
                fails.append(core.Failure("correspondence", "curvature_tria vs model", case["name"], case))
            if len(fails) > 5:
                break
        return fails

    def search_cases(self):
        yield from oriented_cases(self.seed + 122, 10 if self.quick else 80)
        bv, bt = gen.torus(220, 190)
        yield dict(v=bv @ gen.random_rotation(gen.rng_for(self.seed, "c17big")).T, t=bt, name="torus220x190", smoothit=1)
        rng = gen.rng_for(self.seed, "c17shape")
        for k in range(2 if self.quick else 8):          # sharp creases with very unequal triangle sizes on the two sides
            h = float(rng.uniform(0.04, 0.08))
            v, t = gen.lens(int(rng.integers(10, 16)), h, float(rng.uniform(0.72, 0.8)), float(rng.uniform(0.5, 0.7)) * h, float(rng.uniform(0.0, 0.3)))
            yield dict(v=v @ gen.random_rotation(rng).T, t=t, name="lens", smoothit=int(rng.integers(0, 11)))
        for k in range(8 if self.quick else 40):
            inward = bool(k % 2)
            if (k // 2) % 2 == 0:
                v, t = gen.cylinder(int(rng.integers(12, 28)), int(rng.integers(4, 9)))
                fam = "cylinder"
            else:
                v, t = gen.icosphere(2 + (k // 4) % 2)
                fam = "sphere"
            if inward:
                t = t[:, [0, 2, 1]]
            Q = gen.random_rotation(rng)
            yield dict(v=float(rng.uniform(0.5, 3.0)) * (v @ Q.T) + rng.uniform(-1, 1, 3), t=t, smoothit=int(rng.integers(0, 11)), name=fam, family=fam,
                       axis=Q @ np.array([0.0, 0.0, 1.0]), inward=inward)

    def shape_clause(self, case):
        """circular cylinder: the direction of smaller absolute curvature follows the axis; round sphere: principal values coincide"""
        v = np.asarray(case["v"], float); t = np.asarray(case["t"], dtype=np.int64); sm = int(case["smoothit"])
        try:
            with core.quiet():
                m = TriaMesh(v, t)
                u_min, u_max, c_min, c_max, c_mean, c_gauss, normals = m.curvature(sm)
                bnd = set(np.concatenate(m.boundary_loops()).tolist()) if not m.is_closed() else set()
        except Exception as e:  # noqa: BLE001
            return core.Violation("runs", "curvature raised %s: %s" % (type(e).__name__, e), case)
        if case["family"] == "cylinder":
            inter = np.array([i for i in range(len(v)) if i not in bnd])
            small = np.where((np.abs(c_min) < np.abs(c_max))[:, None], u_min, u_max)[inter]
            al = np.abs(small @ np.asarray(case["axis"], float))
            if al.min() < 0.95:
                return core.Violation("cylinder", "circular cylinder (%s oriented): direction of smaller absolute curvature makes |cos| = %.3g with the axis" % (
                    "inward" if case.get("inward") else "outward", al.min()), case)
        else:
            dev = np.max(np.abs(c_max - c_min)) / max(np.abs(c_mean).mean(), 1e-300)
            if dev > 0.15:
                return core.Violation("sphere", "round sphere: principal values differ by %.3g of the mean curvature" % dev, case)
        return None

    def oracle(self, case):
        if case.get("family"):
            r = self.shape_clause(case)
            if r is not None:
                return r
        v = np.asarray(case["v"], float); t = np.asarray(case["t"], dtype=np.int64); sm = int(case["smoothit"])
        try:
            m, calls, out, vn = run_curv(v, t, sm)
            with core.quiet():
                tu1, tu2, tc1, tc2 = m.curvature_tria(sm)
        except Exception as e:  # noqa: BLE001
            return core.Violation("runs", "curvature raised %s: %s" % (type(e).__name__, e), case)
        u_min, u_max, c_min, c_max, c_mean, c_gauss, normals = out
        mats, evals, evecs = calls.eig[0]
        gram = np.einsum("vij,vik->vjk", np.real(evecs), np.real(evecs))
        good = np.max(np.abs(gram - np.eye(3)), axis=(1, 2)) < 1e-6
        if len(good) != len(v):          # the decomposition was not done in one call: judge every vertex
            good = np.ones(len(v), dtype=bool)
        aligned = np.abs(np.einsum("ij,ij->i", normals, vn)) > 1e-9
        g = good & aligned
        if np.any(c_min > c_max + 1e-12):
            return core.Violation("order", "c_min > c_max at some vertex", case)
        if np.max(np.abs(c_mean - (c_min + c_max) / 2)) > 1e-10 * max(1, np.abs(c_max).max()) or np.max(np.abs(c_gauss - c_min * c_max)) > 1e-10 * max(1, np.abs(c_max).max() ** 2):
            return core.Violation("mean-gauss", "mean / Gauss curvature are not (c_min+c_max)/2 and c_min*c_max", case)
        for nm, a in (("u_min", u_min), ("u_max", u_max), ("normal", normals)):
            if np.max(np.abs(np.linalg.norm(a[good], axis=1) - 1)) > 1e-7:          # unit length wherever the eigenbasis is orthonormal
                return core.Violation("unit", "%s not unit" % nm, case)
        for nm, a, b in (("u_min.u_max", u_min, u_max), ("u_min.n", u_min, normals), ("u_max.n", u_max, normals)):
            if np.max(np.abs(np.einsum("ij,ij->i", a[g], b[g]))) > 1e-6:
                return core.Violation("orthogonal", "%s not orthogonal" % nm, case)
        if np.any(np.einsum("ij,ij->i", np.cross(u_min[g], u_max[g]), normals[g]) < 1 - 1e-6):
            return core.Violation("right-handed", "frame not right-handed", case)
        if np.any(np.einsum("ij,ij->i", normals[g], vn[g]) < 0):
            return core.Violation("side", "frame normal not on the side of the vertex normal", case)
        _, _, _, cr, _ = __import__("vcheck.corr_fem", fromlist=["x"]).tri_geom(v, t)
        nh = cr / np.linalg.norm(cr, axis=1)[:, None]
        ok_t = np.linalg.norm(tu1, axis=1) > 0.5
        if np.max(np.abs(np.linalg.norm(tu1[ok_t], axis=1) - 1)) > 1e-7 or np.max(np.abs(np.linalg.norm(tu2[ok_t], axis=1) - 1)) > 1e-7 \
                or np.max(np.abs(np.einsum("ij,ij->i", tu1[ok_t], tu2[ok_t]))) > 1e-7 or np.max(np.abs(np.einsum("ij,ij->i", tu1[ok_t], nh[ok_t]))) > 1e-7 \
                or np.max(np.abs(np.einsum("ij,ij->i", tu2[ok_t], nh[ok_t]))) > 1e-7:
            return core.Violation("curvature_tria", "triangle directions not unit / orthogonal / in the triangle plane", case)
        # similarity invariance (generic meshes only: ties of the alignment sort make directions ill-posed on symmetric ones)
        rng = gen.rng_for(self.seed, "c17o", len(v))
        Q = gen.random_rotation(rng, reflect=False); s = float(rng.uniform(0.5, 2.0))
        try:
            _, _, out2, _ = run_curv(s * (v @ Q.T) + rng.uniform(-1, 1, 3), t, sm)
        except Exception as e:  # noqa: BLE001
            return core.Violation("similarity", "raised on transformed mesh: %s" % e, case)
        sc = max(np.abs(c_max).max(), np.abs(c_min).max(), 1e-9)
        if np.max(np.abs(out2[2] - c_min)) > 1e-6 * sc or np.max(np.abs(out2[3] - c_max)) > 1e-6 * sc:
            return core.Violation("similarity", "curvature values change under rotation + translation + uniform scaling (max dev %.3g, scale %.3g)" % (
                max(np.max(np.abs(out2[2] - c_min)), np.max(np.abs(out2[3] - c_max))), sc), case)
        return None
