"""C04 — ShapeDNA is invariant under isometry and relabelling and scales as 1/s^2."""
import numpy as np

from .. import repo, core, gen, wire, extract, astx
from ..base import BaseCheck
from lapy import TriaMesh, TetMesh, Solver, shapedna


def mk(kind, v, t):
    with core.quiet():
        return TriaMesh(v, t) if kind == "tri" else TetMesh(v, t)


def dna(kind, v, t, k, lump=False):
    with core.quiet():
        return shapedna.compute_shapedna(mk(kind, v, t), k=k, lump=lump)


def enclosed(kind, v, t):
    """the measures normalize_ev uses: (area, volume)"""
    with core.quiet():
        if kind == "tri":
            m = TriaMesh(v, t); area = m.area()
            c = TriaMesh(v, t); c.orient_(); vol = c.volume()
        else:
            b = TetMesh(v, t).boundary_tria(); b.orient_(); vol = b.volume(); area = 0.0
    return float(area), float(vol)


class Check(BaseCheck):
    id = "C04"
    audit_mod = "LapyVerif.Audit.C04"
    rule = ("closed and open triangle meshes and tetra meshes x k x lump; compute_shapedna dictionary, normalize_ev (3 methods x 2 mesh kinds), "
            "reweight_ev, compute_distance compared with the model; in the search oracle the spectra of rotated / reflected / translated / "
            "relabelled / element-permuted / row-rotated / flipped / scaled (s in [1/4,4]) copies; distinct by hash of (mesh, k, lump)")
    trusted = ["spectrum-level invariance is the matrix-level theorems (C04.lean) composed with the eigensolver contract of C03",
               "scaling factors are limited to [1/4, 4]: the fixed shift sigma=-0.01 and float32 inputs dominate the error far outside"]

    def translate(self):
        extract.gen_fem()
        extract.gen_misc()
        extract.gen_solver_glue()
        extract.gen_shapedna()
        astx.gen_eigs()

    def problems(self, seed, n):
        rng = gen.rng_for(seed, "c04")
        tri_classes = ["icosphere", "ellipsoid", "octahedron", "torus", "grid", "lifted", "delaunay", "cylinder", "tetra-surface"]
        for c in gen.tria_stream(seed + 101, n, "small", classes=tri_classes):
            nv = len(c["v"])
            if len(np.unique(c["t"])) == nv and nv >= 6:
                yield dict(kind="tri", v=c["v"], t=c["t"], k=int(min(nv - 2, rng.integers(3, 7))), lump=bool(rng.random() < 0.4), name=c["name"], pres=c.get("pres"), vdtype=c.get("vdtype"))
        # the smallest tetra meshes: one, two, three tetrahedra (element count below the tuple width)
        p = np.array([[0, 0, 0], [1, 0, 0], [0, 1, 0], [0, 0, 1], [1, 1, 1], [-1, 0.2, 0.3]], float) + 0.05 * rng.normal(size=(6, 3))
        for nt_, tt_ in ((1, [[0, 1, 2, 3]]), (2, [[0, 1, 2, 3], [1, 2, 3, 4]]), (3, [[0, 1, 2, 3], [1, 2, 3, 4], [0, 2, 1, 5]])):
            tt_ = np.array(tt_); nv_ = int(tt_.max()) + 1
            yield dict(kind="tet", v=p[:nv_], t=gen.orient_tets_positive(p[:nv_], tt_), k=2, lump=bool(nt_ % 2), name="tiny-tet-%d" % nt_)
        for kk, c in enumerate(gen.tet_stream(seed + 102, max(3, n // 3), "small", modifiers=False)):
            nv = len(c["v"])
            if len(np.unique(c["t"])) == nv and nv >= 6:
                if kk % 2:          # tetrahedra of mixed orientation (Solver and normalize_ev must not depend on it)
                    c = dict(c, t=gen.flip_some(rng, c["t"], 0.5), name=c["name"] + "+mixed-orientation")
                yield dict(kind="tet", v=c["v"], t=c["t"], k=int(min(nv - 2, 4)), lump=bool(rng.random() < 0.4), name=c["name"], pres=c.get("pres"), vdtype=c.get("vdtype"))

    def cavity_cases(self):
        """a solid with an internal cavity (3x3x3 block of cubes without the centre cube, affinely distorted, consistently oriented tetrahedra)
        and its two-sheeted boundary as a triangle mesh oriented as the boundary of the solid (cavity wall pointing into the cavity): the
        enclosed volume is the sum of the tetra volumes, computed here without the library"""
        rng = gen.rng_for(self.seed, "c04-cavity")
        v, t = gen.cube_grid(3, 3, 3)
        cen = v[t].mean(axis=1)
        t = t[~np.all((cen > 1) & (cen < 2), axis=1)]
        v = v * (1.0 + 0.3 * rng.random(3)) + 0.2 * rng.random(3)
        t = gen.orient_tets_positive(v, t)
        e = v[t[:, 1:]] - v[t[:, :1]]
        ivol = float(np.abs(np.einsum("ij,ij->i", np.cross(e[:, 0], e[:, 1]), e[:, 2])).sum() / 6.0)
        faces = {}
        for tet in t:
            for opp in range(4):
                f = [int(tet[j]) for j in range(4) if j != opp]
                n = np.cross(v[f[1]] - v[f[0]], v[f[2]] - v[f[0]])
                if np.dot(n, v[int(tet[opp])] - v[f[0]]) > 0:      # turn the face away from the opposite vertex
                    f = [f[0], f[2], f[1]]
                faces.setdefault(tuple(sorted(f)), []).append(f)
        bt = np.array([fs[0] for fs in faces.values() if len(fs) == 1], dtype=np.int64)
        used = np.unique(bt); remap = -np.ones(len(v), dtype=np.int64); remap[used] = np.arange(len(used))
        tet = dict(kind="tet", v=v, t=t, k=4, lump=False, name="block-with-cavity", ivol=ivol)
        tri = dict(kind="tri", v=v[used], t=remap[bt], k=4, lump=False, name="two-sheeted-boundary-of-solid-with-cavity", ivol=ivol)
        return [tet, tri]

    def known_finding(self, k):
        # F21: the same solid with a cavity, tetrahedra listed in mixed orientation (fixed distortion and fixed flips)
        c = Check("quick", 0).cavity_cases()[0]
        t = gen.flip_some(np.random.default_rng(int(k["input"]["flip_seed"])), c["t"], 0.5)
        ev = np.array([1.0, 2.0])
        res = core.call(shapedna.normalize_ev, mk("tet", c["v"], t), ev.copy(), "volume")
        return res[0] == "ok" and abs(np.asarray(res[1])[0] / c["ivol"] ** (2.0 / 3.0) - 1.0) > 1e-6

    def correspond(self, drv, stats):
        import itertools
        fails = []
        rng = gen.rng_for(self.seed, "c04c")
        # relation monitors: the invariance / scaling relations of the property evaluated on a few problems of either kind, both lumpings
        done = {}
        for case in self.problems(self.seed + 3, 10 if self.quick else 60):
            key = (case["kind"], bool(case["lump"]))
            if done.get(key, 0) >= (1 if self.quick else 6) or len(case["v"]) > 80:
                continue
            done[key] = done.get(key, 0) + 1
            gen.use(case)
            try:
                vio = self.oracle(case)
                if vio is not None and vio.clause == "invariance":
                    # spectra are compared between independent eigs calls, each with its own random ARPACK start vector: a deviation on exactly
                    # repeated eigenvalues that does not repeat is the external kernel's, not LaPy's (see C03.majority)
                    again = [self.oracle(case) for _ in range(2)]
                    if sum(1 for a in again if a is not None and a.clause == "invariance") == 0:
                        vio = None
                        stats.monitor("spectrum deviations that did not repeat with other random start vectors")
            except Exception:  # noqa: BLE001
                vio = None
            stats.monitor("invariance / scaling relations evaluated on the implementation")
            if vio is not None:
                fails.append(core.Failure("correspondence", "ShapeDNA relations: " + vio.clause, vio.what, case))
        gen.use(None)
        for case in itertools.chain(self.cavity_cases(), self.problems(self.seed, 14 if self.quick else 600)):
            kind, v, t, k = case["kind"], case["v"], case["t"], case["k"]
            gen.use(case)
            stats.case(core.mesh_key(v, t, k, case["lump"]), cls=[kind + ":" + case["name"], "k:%d" % k],
                       sample=dict(kind=kind, name=case["name"], n=len(v), k=k))
            try:
                d = dna(kind, v, t, k, case["lump"])
            except Exception as e:  # noqa: BLE001
                fails.append(core.Failure("correspondence", "compute_shapedna vs model", "raised %s: %s" % (type(e).__name__, e), case)); continue
            got = " ".join("%s=%d" % (key, int(d[key])) for key in ("Refine", "Degree", "Dimension", "Elements", "DoF", "NumEW"))
            r = drv.ask("dict %d %d %d %d" % (int(kind == "tet"), len(t), len(v), k))
            if r != "ok " + got or np.asarray(d["Eigenvalues"]).shape != (k,) or np.asarray(d["Eigenvectors"]).shape != (len(v), k):
                fails.append(core.Failure("correspondence", "compute_shapedna dictionary vs model", "impl %s model %s" % (got, r), case))
            ev = np.asarray(d["Eigenvalues"], float)
            enc = core.call(enclosed, kind, v, t)
            if enc[0] != "ok":
                stats.monitor("normalize_ev skipped: boundary surface of the tetra sub-collection is not an orientable manifold")
                continue
            area, vol = enc[1]
            if "ivol" in case:
                vol = case["ivol"]       # nested boundary components: the enclosed volume computed without the library's orient_ / volume
            for meth in ("surface", "volume", "geometry", "volume-inward"):
                if kind == "tet" and meth in ("surface", "volume-inward"):
                    continue          # TetMesh has no area(): AttributeError, outside the property
                if kind == "tri" and meth.startswith("volume") and vol <= 0:
                    continue          # open surface: enclosed volume 0
                if meth == "volume-inward":
                    # the same closed surface with every triangle reversed (consistently inward): same enclosed volume
                    res = core.call(shapedna.normalize_ev, mk(kind, v, t[:, [0, 2, 1]]), ev.copy(), "volume")
                    meth = "volume"
                else:
                    res = core.call(shapedna.normalize_ev, mk(kind, v, t), ev.copy(), meth)
                rr = wire.Reply(drv.ask("normalize_ev %s %d %s %s %s" % (meth, int(kind == "tet"), wire.floats(ev), wire.fhex(area), wire.fhex(vol))))
                if res[0] != "ok" or rr.status != "ok" or core.relerr(res[1], rr.floats()) > 1e-9:
                    fails.append(core.Failure("correspondence", "normalize_ev vs model", "%s %s: impl %s" % (kind, meth, str(res)[:80]), dict(case, method=meth)))
            rw = wire.Reply(drv.ask("reweight %s" % wire.floats(ev)))
            if core.relerr(shapedna.reweight_ev(ev.copy()), rw.floats()) > 1e-12:
                fails.append(core.Failure("correspondence", "reweight_ev vs model", "", case))
            ev2 = ev + rng.normal(size=k)
            rd = wire.Reply(drv.ask("distance %s %s" % (wire.floats(ev), wire.floats(ev2))))
            if abs(shapedna.compute_distance(ev, ev2) - rd.flt()) > 1e-12 * max(1, np.abs(ev).max()):
                fails.append(core.Failure("correspondence", "compute_distance vs model", "", case))
            if len(fails) > 5:
                break
        return fails

    def search_cases(self):
        import itertools
        return itertools.chain(self.cavity_cases()[:1], self.problems(self.seed + 11, 10 if self.quick else 80))

    def oracle(self, case):
        kind = case["kind"]; v = np.asarray(case["v"], float); t = np.asarray(case["t"], dtype=np.int64); k = int(case["k"]); lump = bool(case["lump"])
        rng = gen.rng_for(self.seed, "c04o", len(v))
        try:
            d = dna(kind, v, t, k, lump)
        except Exception as e:  # noqa: BLE001
            return core.Violation("runs", "compute_shapedna raised %s: %s" % (type(e).__name__, e), case)
        ev = np.asarray(d["Eigenvalues"], float)
        if (d["Elements"], d["DoF"], d["NumEW"], d["Dimension"]) != (len(t), len(v), k, 2 if kind == "tri" else 3):
            return core.Violation("dictionary", "dictionary does not report element count / vertex count / k / dimension", case)
        scale = max(abs(ev).max(), 1e-12)
        tol = 2e-5 * scale + 1e-6

        def spec(v2, t2):
            return np.asarray(dna(kind, v2, t2, k, lump)["Eigenvalues"], float)

        Q = gen.random_rotation(rng, reflect=False); R = gen.random_rotation(rng, reflect=True)
        variants = [("rotation+translation", v @ Q.T + rng.uniform(-3, 3, 3), t, 1.0), ("reflection", v @ R.T, t, 1.0)]
        v2, t2, _ = gen.relabel(rng, v, t); variants.append(("relabelling", v2, t2, 1.0))
        variants.append(("element order", v, gen.permute_elems(rng, t), 1.0))
        if kind == "tri":
            variants.append(("cyclic rotation of triples", v, gen.rotate_rows(rng, t), 1.0))
            variants.append(("consistent flip", v, t[:, [0, 2, 1]], 1.0))
        s = float(rng.choice([0.25, 0.5, 2.0, 3.0, 4.0]))
        variants.append(("scaling by %g" % s, s * v, t, 1.0 / s ** 2))
        if kind == "tet":        # the tetra kernel has no absolute degeneracy threshold: the law holds for very small / large meshes too
            for s2 in (1e-6, 1e3):
                variants.append(("scaling by %g" % s2, s2 * v, t, 1.0 / s2 ** 2))
        # a much coarser length unit (float64 input): eigenvalues of order 1e-9 are still eigenvalues; judged relative to their own size
        # (only eigenvalues whose scaled value stays above 1e-12 are judged: with the fixed shift sigma = -0.01 the absolute accuracy of the
        #  shift-invert iteration is of the order of 1e-18; convergence of ARPACK at such scales is the external kernel's business)
        s3 = 3.0e4
        try:
            e3 = spec(s3 * v, t)
        except Exception:  # noqa: BLE001
            e3 = None
        pos = (ev > 1e-6 * scale) & (ev / s3 ** 2 > 1e-12)
        if e3 is not None and pos.any() and np.max(np.abs(e3[pos] * s3 ** 2 - ev[pos]) / ev[pos]) > 1e-3:
            return core.Violation("invariance", "spectrum does not scale as 1/s^2 under scaling by %g: eigenvalues %s times s^2 vs %s" % (s3, e3[pos][:4], ev[pos][:4]), case)
        for name, vv, tt, fac in variants:
            try:
                e2 = spec(vv, tt)
            except Exception as e:  # noqa: BLE001
                if "ARPACK" in str(e) or type(e).__name__.startswith("Arpack") or (not 1e-3 < fac < 1e3 and "singular" in str(e)):
                    # convergence of the external eigensolver (mesh scaled to eigenvalues ~1e-12) and a numerically singular A - sigma*B (mesh scaled
                    # so that sigma*B vanishes against A in double precision) are consequences of the fixed shift under extreme scaling: inconclusive
                    continue
                return core.Violation("invariance", "raised on %s: %s" % (name, e), case)
            if np.max(np.abs(e2 - fac * ev)) > tol * max(fac, 1.0):
                return core.Violation("invariance", "spectrum changes under %s (max dev %.3g, scale %.3g)" % (name, np.max(np.abs(e2 - fac * ev)), scale), case)
        # normalisation makes scaled copies coincide
        for meth in ("surface", "volume", "geometry"):
            if kind == "tet" and meth == "surface":
                continue
            enc = core.call(enclosed, kind, v, t)
            if enc[0] != "ok":
                continue
            area, vol = enc[1]
            if "ivol" in case:
                vol = float(case["ivol"])
            if kind == "tri" and meth == "volume" and vol <= 1e-9:
                continue
            with core.quiet():
                n1 = shapedna.normalize_ev(mk(kind, v, t), ev.copy(), meth)
                n2 = shapedna.normalize_ev(mk(kind, s * v, t), spec(s * v, t), meth)
                n3 = shapedna.normalize_ev(mk(kind, v @ R.T, t), ev.copy(), meth) if kind == "tri" else n1     # reflected copy: inward oriented
            if not np.all(np.isfinite(n3)) or np.max(np.abs(n3 - n1)) > 1e-9 * max(1, np.abs(n1).max()):
                return core.Violation("normalize_ev", "normalised spectrum of the reflected (inward oriented) copy differs or is not finite (method %s)" % meth, case)
            ref = ev * (area if (meth == "surface" or (meth == "geometry" and kind == "tri")) else vol ** (2.0 / 3.0))
            if np.max(np.abs(n1 - ref)) > 1e-9 * max(1, np.abs(ref).max()):
                return core.Violation("normalize_ev", "method %s does not multiply by area / volume^(2/3)" % meth, case)
            if np.max(np.abs(n1 - n2)) > 5e-5 * max(np.abs(n1).max(), 1e-12) + 1e-6:
                return core.Violation("normalize_ev", "normalised spectra of scaled copies differ (method %s)" % meth, case)
        rw = shapedna.reweight_ev(ev.copy())
        if np.max(np.abs(rw - ev / np.arange(1, k + 1))) > 1e-12 * scale:
            return core.Violation("reweight_ev", "i-th value not divided by i", case)
        e3 = ev + rng.normal(size=k)
        dd = shapedna.compute_distance(ev, e3)
        if abs(dd - np.sqrt(np.sum((ev - e3) ** 2))) > 1e-12 * max(1, dd) or shapedna.compute_distance(ev, ev) != 0 or abs(dd - shapedna.compute_distance(e3, ev)) > 1e-15 * max(1, dd):
            return core.Violation("compute_distance", "not the Euclidean distance / not symmetric / not zero on equal input", case)
        return None
