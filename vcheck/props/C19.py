"""C19 — curvature flow / spherical projection return normalised same-topology meshes."""
import math
import numpy as np

from .. import repo, core, gen, wire, capture, extract
from ..base import BaseCheck
from lapy import TriaMesh, Solver, diffgeo


def run_flow(v, t, max_iter, step, stop_eps):
    with core.quiet():
        m = TriaMesh(v, t)
        v0, t0 = np.array(m.v, copy=True), np.array(m.t, copy=True)
        with capture.capture() as calls:
            out = diffgeo.tria_mean_curvature_flow(m, max_iter=max_iter, stop_eps=stop_eps, step=step)
    return m, out, calls, bool(np.array_equal(m.v, v0) and np.array_equal(m.t, t0))


def normalize(v, t):
    """the model's `normalize` (Measures.normalize: v -> (v - c) / sqrt(area), c = area-weighted mean of the triangle centres), evaluated
    independently of the implementation under test"""
    v = np.asarray(v, float); t = np.asarray(t)
    p0, p1, p2 = v[t[:, 0]], v[t[:, 1]], v[t[:, 2]]
    a = 0.5 * np.linalg.norm(np.cross(p2 - p1, p0 - p2), axis=1)
    total = a.sum()
    c = (((p0 + p1 + p2) / 3.0) * (a / total)[:, None]).sum(axis=0)
    return (1.0 / np.sqrt(total)) * (v - c)


def inside_out_violation(v, t):
    """a closed, consistently but inward oriented surface: tria_spherical_project may reject it (ValueError); if it returns a mesh, that mesh
    has the input's triangles and the input's (inward) orientation"""
    with core.quiet():
        m = TriaMesh(np.array(v, float), np.array(t))
    for attempt in range(6):          # the eigensolver's random start vector decides signs: several tries
        r = core.call(diffgeo.tria_spherical_project, m, 3)
        if r[0] == "err" and r[1] == "ValueError":
            continue
        if r[0] == "err":
            return "raised %s: %s" % (r[1], r[2])
        out = r[1]
        if not np.array_equal(out.t, t):
            return "an inside-out input is returned with other triangles than it was given (connectivity not preserved)"
        with core.quiet():
            if out.volume() > 0:
                return "an inside-out input is returned outward oriented"
    return None


def star_sphere(rng, level=2, amp=0.25):
    v, t = gen.icosphere(level)
    r = 1 + amp * (np.sin(3 * v[:, 0]) * np.cos(2 * v[:, 1]) + 0.5 * np.sin(4 * v[:, 2] + rng.uniform(0, 3)))
    return v * r[:, None], t


def ellipsoid_y(rng, level=3, x_second=False):
    """ellipsoid-like closed mesh whose longest axis is y, then z, then x (brain-like in FreeSurfer coordinates);
    with `x_second` the order is y, x, z (the eigenfunctions 2 and 3 then have to be swapped)"""
    v, t = gen.icosphere(level)
    ax = np.array([rng.uniform(0.55, 0.7), rng.uniform(1.3, 1.6), rng.uniform(0.85, 1.0)])
    if x_second:
        ax = ax[[2, 1, 0]]
    return v * ax + 0.01 * rng.normal(size=v.shape), t


class Check(BaseCheck):
    id = "C19"
    audit_mod = "LapyVerif.Audit.C19"
    rule = ("closed and open triangle meshes x max_iter in 0..4 x step in (0.1, 2) x stop_eps: every spsolve call of the flow is captured and its "
            "matrix / right-hand side compared with the model built from the previous iterate; ellipsoid-like closed meshes (longest axis y) for "
            "tria_spherical_project: radius, connectivity, gates and axis alignment; open meshes for the ValueError branch; distinct by hash")
    trusted = ["scipy spsolve (exact solve of the positive definite step system) and eigsh (C03 contract) — assumed, monitored",
               "'a round sphere is a fixed point' and 'radial spread decreases' are numerical statements about shape families: monitored on icospheres "
               "and star-shaped perturbations, not proved"]
    assumptions = ["PARTIAL (see trusted base)"]

    def translate(self):
        extract.gen_fem()
        extract.gen_flow()

    def flow_cases(self, seed, n):
        rng = gen.rng_for(seed, "c19")
        classes = ["icosphere", "ellipsoid", "torus", "lifted", "cylinder", "delaunay-lifted"]
        for c in gen.tria_stream(seed + 151, n, "small", classes=classes, modifiers=False):
            if len(np.unique(c["t"])) != len(c["v"]):
                continue
            sc = float(rng.choice([1.0, 1.0, 1e-9, 1e4]))      # the flow normalises its input first: the result does not depend on the unit
            yield dict(kind="flow", v=c["v"] * sc, t=c["t"], max_iter=int(rng.integers(0, 5)), step=float(rng.uniform(0.1, 2.0)),
                       stop_eps=float(rng.choice([1e-13, 1e-3])), name=c["name"], pres=c.get("pres"))

    def correspond(self, drv, stats):
        fails = []
        for case in self.flow_cases(self.seed, 14 if self.quick else 1200):
            v, t = case["v"], case["t"]
            gen.use(case)
            stats.case(core.mesh_key(v, t, case["max_iter"], case["step"]), cls=["flow:" + case["name"], "max_iter:%d" % case["max_iter"]],
                       sample=dict(name=case["name"], nv=len(v), max_iter=case["max_iter"], step=case["step"]))
            try:
                m, out, calls, untouched = run_flow(v, t, case["max_iter"], case["step"], case["stop_eps"])
            except Exception as e:  # noqa: BLE001
                fails.append(core.Failure("correspondence", "mean curvature flow vs model", "raised %s: %s" % (type(e).__name__, e), case)); continue
            if not untouched or not np.array_equal(out.t, m.t):
                fails.append(core.Failure("correspondence", "flow: argument untouched / connectivity kept", "", case))
            v0n = normalize(v, t)
            vk = v0n
            nsolve = len(calls.spsolve)
            stopped = False
            for k, (a, b, x) in enumerate(calls.spsolve):
                r = wire.Reply(drv.ask("flow_sys %s %s %s %s" % (wire.fhex(case["step"]), wire.verts(v0n), wire.verts(vk), wire.elems(t))))
                am = core.sparse_from(*r.coo(), len(v)); bm = r.v3s()
                ea = core.sparse_relerr(a.astype(float).tocsc(), am); eb = core.relerr(np.asarray(b, float), bm) if np.abs(bm).max() > 0 else 0.0
                if ea > 1e-9 or eb > 1e-9:
                    fails.append(core.Failure("correspondence", "flow step %d: system handed to spsolve vs model" % (k + 1), "matrix %.3g rhs %.3g" % (ea, eb), case)); break
                stats.monitor("spsolve residual checked")
                if np.max(np.abs(a @ x - b)) > 1e-8 * max(1, np.abs(b).max()):
                    fails.append(core.Failure("monitor", "spsolve contract", "", case))
                vnext = normalize(np.asarray(x, float), t)
                rd = wire.Reply(drv.ask("flow_diff %s %s %s" % (wire.verts(vk), wire.elems(t), wire.verts(vnext - vk))))
                diff = rd.flt()
                vk = vnext
                if diff < case["stop_eps"]:
                    stopped = True
                    if k + 1 != nsolve:
                        fails.append(core.Failure("correspondence", "flow: stopping rule vs model", "model stops after %d, implementation ran %d" % (k + 1, nsolve), case))
                    break
            if not stopped and nsolve != case["max_iter"]:
                fails.append(core.Failure("correspondence", "flow: iteration count vs model", "%d solves, max_iter %d" % (nsolve, case["max_iter"]), case))
            if core.relerr(np.asarray(out.v, float), vk) > 1e-9:
                fails.append(core.Failure("correspondence", "flow: result vs model iterate", "", case))
            if len(fails) > 5:
                break
        # an inside-out surface is rejected or keeps its triangles and its orientation
        ev_, et_ = ellipsoid_y(gen.rng_for(self.seed, "c19io"))
        stats.case("project-inside-out", cls="project:inside-out")
        what = inside_out_violation(ev_, np.asarray(et_)[:, [0, 2, 1]])
        if what is not None:
            fails.append(core.Failure("correspondence", "spherical projection of an inside-out surface", what,
                                      dict(kind="project-inside-out", v=ev_, t=np.asarray(et_)[:, [0, 2, 1]], name="ellipsoid-y-inside-out")))
        # projection pieces
        rng = gen.rng_for(self.seed, "c19p")
        pts = rng.normal(size=(6, 3))
        r = wire.Reply(drv.ask("project100 %s" % wire.verts(pts)))
        stats.case("project100", cls="projection")
        if core.relerr(100 * pts / np.linalg.norm(pts, axis=1)[:, None], r.v3s()) > 1e-12:
            fails.append(core.Failure("correspondence", "radial projection vs model", ""))
        for svol, fl, sp in [(1.0, 0.0, 1.0), (0.98, 0.0, 1.0), (1.0, 0.96, 1.0), (1.0, 0.001, 1.0), (1.0, 0.0, 0.5), (0.995, 0.0005, 0.7)]:
            exp = ("err" if (fl > 0.95 or svol < 0.99 or fl > 0.0008 or sp < 0.6) else "ok")
            g = drv.ask("gates %s %s %s" % (wire.fhex(svol), wire.fhex(fl), wire.fhex(sp)))
            stats.case("gate%s%s%s" % (svol, fl, sp), cls="gates")
            if not g.startswith(exp):
                fails.append(core.Failure("correspondence", "quality gates vs model", "%s %s %s: %s" % (svol, fl, sp, g)))
        # the whole decision pipeline of tria_spherical_project (flow_iter=0): given the eigenfunctions Solver.eigs returned, the result must be the
        # model's spectral embedding (axis test, swap of eigenfunctions 2/3 with their poles, sign flips, rescaling) projected to radius 100
        for k in range(6 if self.quick else 60):
            r3 = gen.rng_for(self.seed, "c19embed", k)
            v, t = gen.icosphere(3 if k % 3 else 2)
            ax = [np.array([0.6, 1.5, 0.9]), np.array([0.9, 1.5, 0.6]), np.array([0.75, 1.4, 0.8])][k % 3] * r3.uniform(0.9, 1.1, 3)      # y longest; x/z order varies
            v = v * ax + 0.01 * r3.normal(size=v.shape)
            if k % 2:
                v = v * np.array([-1.0, 1.0, -1.0])          # rotate by 180 degrees about y: other sign decisions
            case = dict(kind="project", v=v, t=t, name="ellipsoid-y-embed")
            gen.use(case)
            seen = {}
            real_flow = diffgeo.tria_mean_curvature_flow

            def spy_flow(tria, *a, **kw):
                seen["emb"] = np.array(tria.v, dtype=float)          # the spectral embedding handed to the curvature flow
                return real_flow(tria, *a, **kw)
            with core.quiet():
                m = TriaMesh(v, t)
                diffgeo.tria_mean_curvature_flow = spy_flow
                try:
                    with capture.capture() as calls:
                        res = core.call(diffgeo.tria_spherical_project, m, 3 if k % 3 else 0)
                finally:
                    diffgeo.tria_mean_curvature_flow = real_flow
            stats.case(core.mesh_key(v, t, "embed"), cls=["project-pipeline", "result:" + res[0], "embedding-captured:%s" % ("emb" in seen)])
            if not calls.eigs:
                fails.append(core.Failure("correspondence", "spherical projection pipeline vs model", "Solver.eigs not called", case)); continue
            _, evals, evecs = calls.eigs[0]
            rm = wire.Reply(drv.ask("embed %s %s %s %s" % (wire.verts(v), wire.floats(evecs[:, 1]), wire.floats(evecs[:, 2]), wire.floats(evecs[:, 3]))))
            if rm.status != "ok":
                if not (res[0] == "err" and res[1] == "ValueError"):
                    fails.append(core.Failure("correspondence", "spherical projection pipeline vs model", "model rejects (%s), implementation %s" % (rm.raw[:60], res[:2]), case))
                continue
            emb = rm.v3s(); spat = rm.flt()
            exp = 100 * emb / np.linalg.norm(emb, axis=1)[:, None]
            if "emb" in seen:
                if core.relerr(seen["emb"], emb) > 1e-9:
                    fails.append(core.Failure("correspondence", "spherical projection pipeline vs model",
                                              "the spectral embedding handed to the flow differs from the model's (rel. %.3g)" % core.relerr(seen["emb"], emb), case))
                stats.monitor("spectral embeddings compared")
                continue
            if res[0] == "ok":
                if core.relerr(np.asarray(res[1].v, float), exp) > 1e-9 or not np.array_equal(res[1].t, t):
                    fails.append(core.Failure("correspondence", "spherical projection pipeline vs model", "vertices differ from the model's embedding (rel. %.3g)" % core.relerr(np.asarray(res[1].v, float), exp), case))
            else:
                # rejected by one of the gates: the model's gates on the model's embedding must reject too
                with core.quiet():
                    mm = TriaMesh(exp, t)
                    svol = mm.area() / (4 * np.pi * 10000)
                    tv = exp[t]; cr = np.cross(tv[:, 1] - tv[:, 0], tv[:, 2] - tv[:, 0])
                    fl = float(np.sum(0.5 * np.linalg.norm(cr, axis=1)[np.sum(tv[:, 0] * cr, axis=1) < 0]) / (4 * np.pi * 10000))
                g = drv.ask("gates %s %s %s" % (wire.fhex(float(svol)), wire.fhex(fl), wire.fhex(spat)))
                if g.startswith("ok"):
                    fails.append(core.Failure("correspondence", "spherical projection pipeline vs model", "implementation raised %s, the model accepts" % (res[1:3],), case))
            stats.monitor("spherical projection pipelines compared")
        gen.use(None)
        # thresholds present in the source
        src = repo.src("lapy/diffgeo.py")
        for lit in ("flippedarea > 0.95", "svol < 0.99", "flippedarea > 0.0008", "spatvol < 0.6", "vn = 100 * (vn / dist[:, np.newaxis])"):
            if lit not in src:
                fails.append(core.Failure("correspondence", "projection constants in source", "missing literal %r" % lit))
        return fails

    # ---- oracle
    def search_cases(self):
        yield from self.flow_cases(self.seed + 19, 12 if self.quick else 80)
        rng = gen.rng_for(self.seed, "c19s")
        for k in range(2 if self.quick else 8):
            v, t = star_sphere(rng)
            yield dict(kind="spread", v=v, t=t, name="star")
        for k in range(6 if self.quick else 24):
            v, t = ellipsoid_y(rng, x_second=bool(k % 2))
            yield dict(kind="project", v=v, t=t, name="ellipsoid-y" + ("-x-second" if k % 2 else ""))
        yield dict(kind="project-open", v=gen.grid(3, 3)[0], t=gen.grid(3, 3)[1], name="grid")
        v, t = ellipsoid_y(rng)
        yield dict(kind="project-inside-out", v=v, t=np.asarray(t)[:, [0, 2, 1]], name="ellipsoid-y-inside-out")

    def oracle(self, case):
        kind = case["kind"]
        v = np.asarray(case["v"], float); t = np.asarray(case["t"], dtype=np.int64)
        if kind == "flow":
            try:
                m, out, calls, untouched = run_flow(v, t, int(case["max_iter"]), float(case["step"]), float(case["stop_eps"]))
            except Exception as e:  # noqa: BLE001
                return core.Violation("flow", "raised %s: %s" % (type(e).__name__, e), case)
            if not untouched:
                return core.Violation("flow-pure", "tria_mean_curvature_flow modified its argument", case)
            if not np.array_equal(out.t, t) or out is m:
                return core.Violation("flow-connectivity", "connectivity changed / same object returned", case)
            ov = np.asarray(out.v, float)                  # area and centroid evaluated independently of the implementation under test
            q0, q1, q2 = ov[t[:, 0]], ov[t[:, 1]], ov[t[:, 2]]
            ta = 0.5 * np.linalg.norm(np.cross(q1 - q0, q2 - q0), axis=1)
            ar = float(ta.sum()); cen = (((q0 + q1 + q2) / 3.0) * ta[:, None]).sum(axis=0) / max(ar, 1e-300)
            if not np.all(np.isfinite(ov)) or abs(ar - 1) > 1e-8 or np.max(np.abs(cen)) > 1e-8:
                return core.Violation("flow-normalised", "result has area %.10g and centroid %s" % (ar, cen), case)
            # each iteration solves (M_k + step A0) V' = M_k V_k
            v0n = normalize(v, t)
            with core.quiet():
                A0 = Solver(TriaMesh(v0n, t), lump=True).stiffness
            vk = v0n
            for a, b, x in calls.spsolve:
                with core.quiet():
                    Mk = Solver.fem_tria_mass(TriaMesh(vk, t), True)
                if core.sparse_relerr((Mk + float(case["step"]) * A0).tocsc(), a.tocsc()) > 1e-9 or core.relerr(Mk @ vk, b) > 1e-9:
                    return core.Violation("flow-step", "an iteration does not solve (M + step*A0) V' = M V", case)
                vk = normalize(np.asarray(x, float), t)
            return None
        if kind == "spread":
            with core.quiet():
                m = TriaMesh(v, t)
                out = diffgeo.tria_mean_curvature_flow(m, max_iter=6)
            def spread(mm):
                with core.quiet():
                    c = mm.centroid()[0]
                r = np.linalg.norm(mm.v - c, axis=1)
                return np.std(r) / np.mean(r)
            with core.quiet():
                mn = TriaMesh(v, t); mn.normalize_()
            if not spread(out) < spread(mn):
                return core.Violation("flow-spread", "radial spread did not decrease (%.4g -> %.4g)" % (spread(mn), spread(out)), case)
            sv, st = gen.icosphere(2)
            with core.quiet():
                so = diffgeo.tria_mean_curvature_flow(TriaMesh(sv, st), max_iter=3)
                sn = TriaMesh(sv, st); sn.normalize_()
            if np.max(np.abs(so.v - sn.v)) > 2e-3:
                return core.Violation("flow-sphere", "round sphere is not a fixed point up to discretisation (max move %.3g)" % np.max(np.abs(so.v - sn.v)), case)
            return None
        if kind == "project-inside-out":
            what = inside_out_violation(v, t)
            return None if what is None else core.Violation("project-orientation", what, case)
        if kind == "project-open":
            with core.quiet():
                m = TriaMesh(v, t)
            r = core.call(diffgeo.tria_spherical_project, m)
            return None if (r[0] == "err" and r[1] == "ValueError") else core.Violation("project-guard", "non-closed mesh not rejected: %s" % (r[:2],), case)
        with core.quiet():
            m = TriaMesh(v, t); m.orient_()
            v0, t0 = m.v.copy(), m.t.copy()
        # the eigensolver's start vector is random: signs of the eigenfunctions differ from call to call; several tries
        r = None
        for attempt in range(16):
            r = core.call(diffgeo.tria_spherical_project, m, 3)
            if r[0] == "err" and r[1] != "ValueError":
                return core.Violation("project", "raised %s: %s" % (r[1], r[2]), case)
            if r[0] == "ok":
                o = r[1]
                bad = [ax for ax in range(3) if np.corrcoef(o.v[:, ax], v0[:, ax])[0, 1] <= 0]
                if bad or not np.array_equal(o.t, t0):
                    break
        if r[0] == "err":
            return None
        out = r[1]
        if not np.array_equal(out.t, t0) or not np.array_equal(m.v, v0):
            return core.Violation("project", "connectivity changed or argument modified", case)
        if np.max(np.abs(np.linalg.norm(out.v, axis=1) - 100)) > 1e-8:
            return core.Violation("project-radius", "vertices not at distance 100", case)
        with core.quiet():
            vol = out.volume()
        if vol <= 0:
            return core.Violation("project-orientation", "outward orientation not preserved (volume %.3g)" % vol, case)
        for ax in range(3):
            c = np.corrcoef(out.v[:, ax], m.v[:, ax])[0, 1]
            if c <= 0:
                return core.Violation("project-axes", "coordinate axis %d not positively aligned with the input (corr %.3g)" % (ax, c), case)
        return None
