"""C05 — Poisson solver honours the equation and its boundary data."""
import numpy as np

from .. import repo, core, gen, wire, extract, corr_fem, capture
from ..base import BaseCheck
from .C09 import brute
from lapy import TriaMesh, TetMesh, Solver


def boundary_vertices(t):
    und = {}
    for a, b, c in t:
        for x, y in ((a, b), (b, c), (c, a)):
            und[(min(x, y), max(x, y))] = und.get((min(x, y), max(x, y)), 0) + 1
    return sorted({x for (a, b), c in und.items() if c == 1 for x in (a, b)})


def components(n, t):
    parent = list(range(n))

    def find(x):
        while parent[x] != x:
            parent[x] = parent[parent[x]]; x = parent[x]
        return x
    for el in t:
        for x in el[1:]:
            parent[find(int(x))] = find(int(el[0]))
    return [find(i) for i in range(n)]


def make_case(rng, kind, c):
    """a Poisson problem on mesh c with at least one Dirichlet vertex per component"""
    v, t = c["v"], c["t"]
    n = len(v)
    comp = components(n, t)
    roots = sorted(set(comp))
    didx = [int(rng.choice([i for i in range(n) if comp[i] == r])) for r in roots]
    extra = rng.choice(n, size=min(n - 1, int(rng.integers(0, max(1, n // 4)))), replace=False)
    didx = sorted(set(didx) | {int(x) for x in extra})
    rng.shuffle(didx)
    dmode = str(rng.choice(["normal", "normal", "cancelling", "zero", "ints"]))
    ddat = rng.normal(size=len(didx))
    if dmode == "cancelling":        # non-zero prescribed values whose sum is exactly 0.0
        c0 = float(rng.choice([1.0, 0.5, 2.0]))
        ddat = np.array([c0 if i % 2 == 0 else -c0 for i in range(len(didx))])
        if len(didx) % 2:
            ddat[-1] = 0.0
        if len(didx) == 1:
            dmode = "zero"
    elif dmode == "zero":
        ddat = np.zeros(len(didx))
    elif dmode == "ints":
        ddat = rng.integers(-3, 4, size=len(didx)).astype(float)
    hmode = rng.choice(["scalar", "vector", "column", "zero"])
    h = dict(scalar=float(rng.normal()), vector=rng.normal(size=n), column=rng.normal(size=(n, 1)), zero=0.0)[hmode]
    # storage type of the data: the equation is about the VALUES (integer / boolean / single-precision arrays are legitimate input)
    hdtype = str(rng.choice(["float64", "float64", "int64", "bool", "float32", "int32"])) if hmode in ("vector", "column") else "float64"
    if hdtype != "float64":
        h = (np.rint(3 * h) if hdtype.startswith("int") else (h > 0) if hdtype == "bool" else h).astype(hdtype)
    ddtype = str(rng.choice(["float64", "float64", "float32", "int64"]))
    if ddtype == "int64" and dmode not in ("ints", "zero", "cancelling"):
        ddtype = "float64"
    ddat = ddat.astype(ddtype)
    if rng.random() < 0.4:
        nidx = [int(x) for x in rng.choice(n, size=int(rng.integers(1, 5)))]
        if rng.random() < 0.5:
            nidx = nidx + nidx[:1 + len(nidx) // 2]      # a flux assembled edge by edge lists a vertex once per incident edge: contributions add up
        else:
            nidx = sorted(set(nidx))
        ndat = rng.normal(size=len(nidx))
        ntup = (np.array(nidx), ndat)
    else:
        ntup = ()
    return dict(kind=kind, v=v, t=t, lump=bool(rng.random() < 0.5), h=h, hmode=hmode, didx=np.array(didx), ddat=ddat, ntup=ntup, name=c["name"], dmode=dmode, pres=c.get("pres"), vdtype=c.get("vdtype"),
                hdtype=hdtype, ddtype=ddtype)


def hvec(case, n):
    h = case["h"]
    return np.full(n, h, dtype=float) if np.isscalar(h) else np.asarray(h, dtype=float).reshape(-1)


def run_impl(case):
    cls = TriaMesh if case["kind"] == "tri" else TetMesh
    with core.quiet():
        s = Solver(cls(case["v"], case["t"]), lump=case["lump"])
        with capture.capture() as calls:
            dt = (case["didx"], case["ddat"]) if case.get("dtup_override") is None else case["dtup_override"]
            x = s.poisson(case["h"], dt, case["ntup"])
    return s, calls, np.asarray(x)


class Check(BaseCheck):
    id = "C05"
    audit_mod = "LapyVerif.Audit.C05"
    rule = ("triangle and tetra generator families (incl. several components, non-manifold, unoriented) x random Dirichlet sets with at "
            "least one vertex per component x right-hand sides (scalar, vector, column, zero) x optional Neumann data x lump; the matrix and "
            "right-hand side handed to SuperLU are captured and compared with the model's reduced system; malformed argument stream for the "
            "ValueError branches; distinct by hash of the whole problem")
    trusted = ["SuperLU (scipy.sparse.linalg.splu): exact solve of the nonsingular reduced system — assumed by the theorems, monitored (residual)",
               "the glue of Solver.poisson (right-hand side, elimination, re-insertion, CSC format, no-Dirichlet branch) is re-traced from the source on "
               "symbolic 4x4 matrices on every run and bridged to Poisson.system / Poisson.fill by proof (Bridge/Poisson.lean); the argument checks, "
               "scalar / column h and all other sizes are tied by the differential comparison of the captured system"]
    assumptions = ["solve contract: a·(solve a b) = b"]

    def translate(self):
        extract.gen_fem()
        extract.gen_poisson()

    def problems(self, seed, n_tri, n_tet):
        rng = gen.rng_for(seed, "c05")
        for c in gen.tria_stream(seed + 61, n_tri, "small"):
            if len(np.unique(c["t"])) == len(c["v"]):
                yield make_case(rng, "tri", c)
        for c in gen.tet_stream(seed + 62, n_tet, "small"):
            if len(np.unique(c["t"])) == len(c["v"]):
                yield make_case(rng, "tet", c)

    def correspond(self, drv, stats):
        fails = []
        n_tri, n_tet = (24, 8) if self.quick else (1500, 400)
        for case in self.problems(self.seed, n_tri, n_tet):
            n = len(case["v"])
            gen.use(case)
            stats.case(core.mesh_key(case["v"], case["t"], case["didx"].tolist(), case["hmode"], case["lump"]),
                       cls=[case["kind"] + ":" + case["name"], "h:" + case["hmode"], "h-dtype:" + case.get("hdtype", "float64"), "dirichlet-dtype:" + case.get("ddtype", "float64"), "dirichlet-data:" + case.get("dmode", "normal"), "neumann:%s" % bool(case["ntup"]), "lump:%s" % case["lump"]],
                       sample=dict(kind=case["kind"], name=case["name"], n=n, dirichlet=len(case["didx"]), h=case["hmode"]))
            try:
                s, calls, x = run_impl(case)
            except Exception as e:  # noqa: BLE001
                fails.append(core.Failure("correspondence", "poisson vs model", "impl raised %s: %s" % (type(e).__name__, e), case))
                continue
            nt = case["ntup"]
            line = "poisson_sys %s %d %s %s 0 %s 2 %s %s %s" % (
                case["kind"], int(case["lump"]), wire.verts(case["v"]), wire.elems(case["t"]), wire.rawfloats(hvec(case, n)),
                wire.nats(case["didx"]), wire.floats(case["ddat"]),
                ("2 %s %s" % (wire.nats(nt[0]), wire.floats(nt[1]))) if nt else "0 0 0")
            r = wire.Reply(drv.ask(line))
            if r.status != "ok" or len(calls.splu) != 1 or len(calls.splu[0]["solves"]) != 1:
                fails.append(core.Failure("correspondence", "poisson vs model", "model %s, %d splu calls" % (r.raw[:40], len(calls.splu)), case))
                continue
            free = r.nats(); k = len(free)
            am = core.sparse_from(*r.coo(), k); bm = r.floats()
            ai = calls.splu[0]["a"]; bi, xi = calls.splu[0]["solves"][0]
            mask = np.ones(n, bool); mask[case["didx"]] = False
            ea = core.sparse_relerr(ai.astype(float), am) if ai.shape == am.shape else float("inf")
            eb = core.relerr(np.asarray(bi, dtype=float).reshape(-1), bm) if np.abs(bm).max() > 0 else float(np.max(np.abs(bi)))
            if not np.array_equal(np.nonzero(mask)[0], free) or ea > 1e-9 or eb > 2e-6:
                fails.append(core.Failure("correspondence", "poisson: system handed to the solver vs model", "matrix rel.err %.3g rhs rel.err %.3g" % (ea, eb), case))
            rf = wire.Reply(drv.ask("poisson_fill %d %s %s %s" % (n, wire.nats(case["didx"]), wire.floats(case["ddat"]), wire.floats(np.asarray(xi, dtype=float).reshape(-1)))))
            if rf.status != "ok" or not np.array_equal(rf.floats(), x):
                fails.append(core.Failure("correspondence", "poisson: re-insertion vs model", "result differs from model's fill of the captured solution", case))
            # monitor of the solve contract
            res = ai @ np.asarray(xi, dtype=float).reshape(-1) - np.asarray(bi, dtype=float).reshape(-1)
            stats.monitor("splu residual checked")
            if np.max(np.abs(res)) > 1e-3 * max(np.abs(bi).max(), 1e-30) * max(1.0, np.linalg.cond(ai.toarray()) * 1e-7):
                fails.append(core.Failure("monitor", "splu solve contract", "residual %.3g" % np.max(np.abs(res)), case))
            if len(fails) > 6:
                return fails
        # malformed stream: the ValueError branches
        v, t = gen.grid(2, 2)
        bad = [("dup", (np.array([0, 0]), np.array([1.0, 2.0])), ()), ("len", (np.array([0, 1]), np.array([1.0])), ()),
               ("tuple3", (np.array([0]), np.array([1.0]), 5), ()), ("empty", (np.array([], dtype=int), np.array([])), ()),
               ("nlen", (np.array([0]), np.array([1.0])), (np.array([1, 2]), np.array([1.0]))), ("ok", (np.array([0]), np.array([1.0])), ()),
               ("dup-equal-values", (np.array([2, 2]), np.array([1.0, 1.0])), ()), ("dup-not-adjacent", (np.array([0, 3, 5, 0]), np.array([1.0, 2.0, 0.5, 1.0])), ()),
               ("dup-zero-values", (np.array([4, 1, 4]), np.array([0.0, 0.0, 0.0])), ()), ("len-longer-data", (np.array([0]), np.array([1.0, 2.0])), ()),
               ("nempty", (np.array([0]), np.array([1.0])), (np.array([], dtype=int), np.array([]))),
               ("one-value-for-three-vertices", (np.array([0, 3, 5]), np.array([1.0])), ()), ("one-value-for-two-vertices-list", ([0, 7], [2.5]), ()),
               ("n-one-value-for-three-vertices", (np.array([0]), np.array([1.0])), (np.array([1, 2, 3]), np.array([0.5]))),
               ("two-values-for-three-vertices", (np.array([0, 3, 5]), np.array([1.0, 2.0])), ()),
               ("ok-neumann", (np.array([0, 7]), np.array([1.0, -1.0])), (np.array([1, 2]), np.array([1.0, 0.5])))]
        for name, dt, nt in bad:
            case = dict(kind="tri", v=v, t=t, lump=False, h=0.0, hmode="zero", didx=np.array(dt[0]), ddat=np.array(dt[1]), ntup=nt, dtup_override=dt, name="bad:" + name)
            res = core.call(lambda: run_impl(case)[2])
            dlen = len(dt)
            line = "poisson_sys tri 0 %s %s 0 %s %d %s %s %s" % (wire.verts(v), wire.elems(t), wire.rawfloats(np.zeros(len(v))), dlen,
                                                              wire.nats(dt[0]), wire.floats(dt[1]),
                                                              ("%d %s %s" % (len(nt), wire.nats(nt[0]), wire.floats(nt[1]))) if nt else "0 0 0")
            r = drv.ask(line)
            got = "ok" if res[0] == "ok" else "err " + res[1]
            stats.case("bad" + name, cls="malformed:" + name)
            if got.split(" ")[0:2] != r.split(" ")[0:2] and not (got == "ok" and r.startswith("ok")):
                fails.append(core.Failure("correspondence", "poisson argument checks vs model", "%s: impl %s model %s" % (name, got, r[:30]), case))
        return fails

    # ---- oracle
    def search_cases(self):
        return self.problems(self.seed + 5, 30 if self.quick else 200, 10 if self.quick else 60)

    def oracle(self, case):
        case = dict(case)
        case["v"] = np.asarray(case["v"], float); case["t"] = np.asarray(case["t"], dtype=np.int64)
        case["didx"] = np.asarray(case["didx"], dtype=np.int64); case["ddat"] = np.asarray(case["ddat"], float).astype(case.get("ddtype", "float64"))
        if case.get("ntup"):
            case["ntup"] = (np.asarray(case["ntup"][0], dtype=np.int64), np.asarray(case["ntup"][1], float))
        else:
            case["ntup"] = ()
        if not np.isscalar(case["h"]):
            case["h"] = np.asarray(case["h"], float).astype(case.get("hdtype", "float64"))
        if case.get("name", "").startswith("bad:"):
            # the argument checks, stated independently: a tuple has exactly two members (indices, values) of equal positive length; Dirichlet
            # indices are pairwise distinct
            def expect_error(tup, unique):
                if not tup:
                    return False
                if len(tup) != 2:
                    return True
                idx, dat = np.asarray(tup[0]).reshape(-1), np.asarray(tup[1]).reshape(-1)
                return (unique and len(set(idx.tolist())) != len(idx)) or not (len(idx) > 0 and len(idx) == len(dat))
            dt = case.get("dtup_override") if case.get("dtup_override") is not None else (case["didx"], case["ddat"])
            must = expect_error(dt, True) or expect_error(case["ntup"], False)
            res = core.call(lambda: run_impl(case)[2])
            if must and res[0] == "ok":
                return core.Violation("errors", "inconsistent boundary data (%s) are accepted instead of ValueError" % case["name"][4:], case)
            return None
        n = len(case["v"])
        try:
            s, calls, x = run_impl(case)
        except Exception as e:  # noqa: BLE001
            return core.Violation("runs", "poisson raised %s: %s" % (type(e).__name__, e), case)
        if not np.array_equal(x[case["didx"]], case["ddat"]):
            return core.Violation("dirichlet", "result does not take exactly the prescribed Dirichlet values", case)
        nvec = np.zeros(n)
        if case["ntup"]:
            np.add.at(nvec, case["ntup"][0], case["ntup"][1])
        A = s.stiffness.astype(float); B = s.mass.astype(float)
        r = A @ x - B @ (hvec(case, n) - nvec)
        mask = np.ones(n, bool); mask[case["didx"]] = False
        sc = max(np.abs(A).max() * max(np.abs(x).max(), 1e-30), np.abs(B @ (hvec(case, n) - nvec)).max(), 1e-30)
        condest = np.linalg.cond(A.toarray()[np.ix_(mask, mask)]) if mask.any() else 1.0
        if mask.any() and np.max(np.abs(r[mask])) > 2e-6 * sc * max(1.0, condest * 1e-2):
            return core.Violation("equation", "A x = B(h-n) violated at a free vertex: residual %.3g (scale %.3g)" % (np.max(np.abs(r[mask])), sc), case)
        # linearity in the data
        c2 = dict(case); c2["h"] = 2 * case["h"]; c2["ddat"] = 2 * case["ddat"]
        if case["ntup"]:
            c2["ntup"] = (case["ntup"][0], 2 * case["ntup"][1])
        try:
            x2 = run_impl(c2)[2]
        except Exception as e:  # noqa: BLE001
            return core.Violation("linear", "raised on scaled data: %s" % e, case)
        if np.max(np.abs(x2 - 2 * x)) > 1e-4 * max(np.abs(x).max(), 1e-30) * max(1.0, condest * 1e-4):
            return core.Violation("linear", "solution does not depend linearly on (h, Dirichlet data, Neumann data)", case)
        # affine reproduction on flat triangle meshes from boundary values
        if case["kind"] == "tri" and np.ptp(case["v"][:, 2]) == 0 and case["name"] in ("grid", "delaunay"):
            bv = boundary_vertices(case["t"])
            a = np.array([0.7, -1.3, 0.0]); u = case["v"] @ a + 0.4
            c3 = dict(case, h=0.0, hmode="zero", didx=np.array(bv), ddat=u[bv], ntup=())
            try:
                x3 = run_impl(c3)[2]
            except Exception as e:  # noqa: BLE001
                return core.Violation("affine", "raised: %s" % e, case)
            if np.max(np.abs(x3 - u)) > 1e-5 * max(np.abs(u).max(), 1.0):
                return core.Violation("affine", "affine function not reproduced from its boundary values (max dev %.3g)" % np.max(np.abs(x3 - u)), case)
        return None
