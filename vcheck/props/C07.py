"""C07 — heat diffusion is a conservative implicit Euler step; kernel is the spectral sum."""
import numpy as np

from .. import repo, core, gen, wire, extract, capture
from ..base import BaseCheck
from lapy import TriaMesh, TetMesh, Solver, heat


def mk(kind, v, t):
    with core.quiet():
        return TriaMesh(v, t) if kind == "tri" else TetMesh(v, t)


SEED_FORM = {"form": "flat"}          # how the seed vertices are handed over: flat list, the list of loops `boundary_loops()` returns, 2-D index array


def run_diffusion(kind, v, t, vids, m, aniso=None, reuse=False):
    geo = mk(kind, v, t)
    vids = {"flat": lambda x: x, "nested": lambda x: [list(x)], "array2d": lambda x: np.array(x).reshape(1, -1)}[SEED_FORM["form"]](list(vids))
    with core.quiet():
        if reuse:
            # an earlier call on the same object, then an in-place change of the vertices: the second call must see the current mesh
            heat.diffusion(geo, vids, m=m) if aniso is None else heat.diffusion(geo, vids, m=m, aniso=aniso)
            if kind == "tri":
                geo.normalize_()
            else:
                geo.v = 1.7 * geo.v
        with capture.capture() as calls:
            u = heat.diffusion(geo, vids, m=m) if aniso is None else heat.diffusion(geo, vids, m=m, aniso=aniso)
    return geo, calls, np.asarray(u, dtype=float)


def mat(a):
    a = np.asarray(a, dtype=float)
    return "%d %d %s" % (a.shape[0], a.shape[1], wire.rawfloats(a))


def read_mat(r):
    n, m = r.nat(), r.nat()
    return np.array([r.flt() for _ in range(n * m)]).reshape(n, m)


def indep_avg_edge(v, t):
    t = np.asarray(t)
    e = set()
    for el in t:
        for a in range(len(el)):
            for b in range(a + 1, len(el)):
                e.add((min(int(el[a]), int(el[b])), max(int(el[a]), int(el[b]))))
    e = np.array(sorted(e))
    return float(np.mean(np.linalg.norm(np.asarray(v, float)[e[:, 0]] - np.asarray(v, float)[e[:, 1]], axis=1)))


class Check(BaseCheck):
    id = "C07"
    audit_mod = "LapyVerif.Audit.C07"
    rule = ("triangle and tetra generator families without unused vertices x random non-empty seed sets (with repetitions) x m in (0.1, 5); the "
            "matrix and right-hand side handed to SuperLU are captured and compared with the model's B + tA and seed vector; kernel / "
            "diagonal on random spectra x time arguments (scalar, 1-D, row) x eigenvalue shapes (1-D, column) x n; distinct by hash")
    trusted = ["SuperLU exact solve (monitored by residual); float32 cast of the right-hand side"]
    assumptions = ["solve contract: (B + tA) u = b; with the triangle `aniso` option A is the anisotropic stiffness built from the "
                   "curvature_tria output the implementation computed (captured; its eigen-decomposition is C17's subject)"]

    def translate(self):
        extract.gen_fem()
        extract.gen_heat()
        extract.gen_misc()
        extract.gen_vertex_measures()
        extract.gen_solver_glue()

    def problems(self, seed, n_tri, n_tet):
        rng = gen.rng_for(seed, "c07")
        for kind, stream in (("tri", gen.tria_stream(seed + 71, n_tri, "small")), ("tet", gen.tet_stream(seed + 72, n_tet, "small"))):
            for c in stream:
                if len(np.unique(c["t"])) != len(c["v"]):
                    continue
                n = len(c["v"])
                vids = [int(x) for x in rng.choice(n, size=int(rng.integers(1, 4)))]
                yield dict(vform=str(rng.choice(["flat", "flat", "nested", "array2d"])), kind=kind, v=c["v"], t=c["t"], vids=vids, m=float(rng.uniform(0.1, 5.0)), name=c["name"], reuse=bool(rng.random() < 0.3), pres=c.get("pres"), vdtype=c.get("vdtype"))
        from .. import corr_fem
        for c in corr_fem.aniso_meshes(seed + 73, max(3, n_tri // 5)):
            if c["name"] == "sliver":
                continue          # float32 solve on a sliver mesh: conditioning, not the property
            n = len(c["v"])
            a = c["aniso"]
            yield dict(kind="tri", v=c["v"], t=c["t"], vids=[int(x) for x in rng.choice(n, size=int(rng.integers(1, 4)))],
                       m=float(rng.uniform(0.1, 5.0)), name="aniso-" + c["name"], aniso=list(a) if isinstance(a, tuple) else a)

    def correspond(self, drv, stats):
        fails = []
        n_tri, n_tet = (20, 8) if self.quick else (1500, 400)
        for case in self.problems(self.seed, n_tri, n_tet):
            v, t = case["v"], case["t"]
            gen.use(case)
            n = len(v)
            SEED_FORM["form"] = case.get("vform", "flat")
            stats.case(core.mesh_key(v, t, case["vids"], case["m"]), cls=[case["kind"] + ":" + case["name"], "seeds:%d" % len(set(case["vids"])), "seed-form:" + case.get("vform", "flat")],
                       sample=dict(kind=case["kind"], name=case["name"], n=n, vids=case["vids"], m=case["m"]))
            try:
                aniso = case.get("aniso")
                reuse = bool(case.get("reuse"))
                geo, calls, u = run_diffusion(case["kind"], v, t, case["vids"], case["m"], tuple(aniso) if isinstance(aniso, list) else aniso, reuse)
                if reuse:
                    v = np.array(geo.v, dtype=float); n = len(v)
                    stats.monitor("diffusion repeated on the same object after an in-place vertex change")
            except Exception as e:  # noqa: BLE001
                fails.append(core.Failure("correspondence", "diffusion vs model", "impl raised %s: %s" % (type(e).__name__, e), case))
                continue
            if aniso is None:
                r = wire.Reply(drv.ask("heat_sys %s %s %s %s %s" % (case["kind"], wire.verts(v), wire.elems(t), wire.fhex(case["m"]), wire.nats(case["vids"]))))
            else:
                from .. import corr_fem
                a0, a1 = (aniso if isinstance(aniso, list) else (aniso, aniso))
                if len(calls.curv_tria) != 1:
                    fails.append(core.Failure("correspondence", "diffusion vs model", "%d curvature_tria calls" % len(calls.curv_tria), case))
                    continue
                r = wire.Reply(drv.ask("heat_sys_aniso %s %s %s %s %s %s %s" % (wire.verts(v), wire.elems(t), wire.fhex(case["m"]), wire.nats(case["vids"]),
                                       wire.fhex(float(a0)), wire.fhex(float(a1)), corr_fem.cur_wire(calls.curv_tria[0]))))
            if r.status != "ok" or len(calls.splu) != 1:
                fails.append(core.Failure("correspondence", "diffusion vs model", "model %s, %d splu calls" % (r.raw[:40], len(calls.splu)), case))
                continue
            tt = r.flt(); hm = core.sparse_from(*r.coo(), n); b0 = r.floats()
            hi = calls.splu[0]["a"]; bi, xi = calls.splu[0]["solves"][0]
            e = core.sparse_relerr(hi.astype(float), hm) if hi.shape == hm.shape else float("inf")
            if e > (1e-9 if aniso is None else 2e-4) or not np.array_equal(np.asarray(bi, dtype=float).reshape(-1), b0):
                fails.append(core.Failure("correspondence", "diffusion: system handed to the solver vs model", "matrix rel.err %.3g, rhs equal %s" % (
                    e, np.array_equal(np.asarray(bi, dtype=float).reshape(-1), b0)), case))
            if not np.array_equal(np.asarray(xi, dtype=float).reshape(-1), u):
                fails.append(core.Failure("correspondence", "diffusion: result is the solver output", "differs", case))
            res = hi @ u - b0
            stats.monitor("splu residual checked")
            if np.max(np.abs(res)) > 1e-5:
                fails.append(core.Failure("monitor", "splu solve contract", "residual %.3g" % np.max(np.abs(res)), case))
            if len(fails) > 6:
                return fails
        # kernel / diagonal
        rng = gen.rng_for(self.seed, "c07k")
        for k in range(12 if self.quick else 1000):
            nv, ne = int(rng.integers(3, 9)), int(rng.integers(2, 7))
            evecs = rng.normal(size=(nv, ne)); evals = np.abs(rng.normal(size=ne))
            if k % 4 != 1:
                evals.sort()          # (k % 4 == 1: eigenpairs listed in arbitrary order - the formulas pair value j with column j)
            n = int(rng.integers(1, ne + 1)); q = int(rng.integers(0, nv))
            tmode = ["scalar", "vec", "row", "one"][k % 4]
            ts = dict(scalar=float(rng.uniform(0.1, 2)), vec=rng.uniform(0.1, 2, size=int(rng.integers(2, 5))),
                      row=rng.uniform(0.1, 2, size=(1, 3)), one=rng.uniform(0.1, 2, size=1))[tmode]
            if k % 3 == 2:           # spectra of small meshes: eigenvalues ~1e4..1e6 with correspondingly short times (lambda*t stays O(1))
                es = 10.0 ** rng.uniform(3, 6); evals = evals * es
                ts = ts / es if np.isscalar(ts) else np.asarray(ts) / es
            if k % 5 == 1 and not np.isscalar(ts) and np.size(ts) >= 2:
                # times in any order, spanning several decades (lambda*t from << 1 to >> 1 in one call): the formula is per (vertex, time)
                shape = np.shape(ts)
                tt = 10.0 ** np.linspace(2.0, -2.5, np.size(ts)) * (float(np.max(np.abs(evals))) + 1e-300) ** -1 * 40.0
                if k % 2:
                    tt = tt[rng.permutation(len(tt))]
                ts = tt.reshape(shape)
            ev_in = evals if k % 2 else evals.reshape(-1, 1)
            xs = rng.choice(nv, size=int(rng.integers(1, 4)))
            case = dict(evecs=evecs, evals=evals, n=n, q=q, t=np.atleast_1d(np.asarray(ts, dtype=float)).reshape(-1), xs=xs, tmode=tmode, name="kernel")
            stats.case("kernel%d" % k, cls=["kernel:t-" + tmode, "kernel:evals-%s" % ("1d" if k % 2 else "col")])
            hk = core.call(heat.kernel, ts, q, evecs, ev_in, n)
            hd = core.call(heat.diagonal, ts, xs, evecs, ev_in, n)
            tl = case["t"]
            rk = wire.Reply(drv.ask("kernel %s %d %s %s %d" % (wire.floats(tl), q, mat(evecs), wire.floats(evals), n)))
            rd = wire.Reply(drv.ask("diagonal %s %s %s %s %d" % (wire.floats(tl), wire.nats(xs), mat(evecs), wire.floats(evals), n)))
            if hk[0] != "ok" or rk.status != "ok" or core.relerr(np.asarray(hk[1]).reshape(nv, -1), read_mat(rk)) > 1e-9:
                fails.append(core.Failure("correspondence", "kernel vs model", "t:%s impl %s" % (tmode, str(hk)[:100]), case))
            if hd[0] != "ok" or rd.status != "ok" or core.relerr(np.asarray(hd[1]).reshape(len(xs), -1), read_mat(rd)) > 1e-9:
                fails.append(core.Failure("correspondence", "diagonal vs model", "t:%s impl %s" % (tmode, str(hd)[:100]), case))
            if len(fails) > 6:
                break
        return fails

    # ---- oracle
    def search_cases(self):
        yield from self.problems(self.seed + 9, 24 if self.quick else 200, 8 if self.quick else 60)
        # geo-referenced coordinates (offset ~ 10^6 edge lengths): every quantity of the property depends on coordinate DIFFERENCES only
        off = np.array([4.3e5, 5.1e6, 312.0])
        gv, gt = gen.grid(6, 5)
        gv = np.array(gv, float); gv[:, 2] = 0.2 * np.sin(gv[:, 0]) * np.cos(gv[:, 1])
        yield dict(kind="tri", v=gv + off, t=np.array(gt), vids=[3, 11], m=1.0, aniso=None, name="geo-referenced")
        yield dict(kind="tri", v=0.1 * gv + off, t=np.array(gt), vids=[7], m=0.5, aniso=None, name="geo-referenced")
        cv, ct = gen.cube_grid(2, 2, 1)
        cv = np.array(cv, float)
        yield dict(kind="tet", v=cv + off, t=gen.orient_tets_positive(cv, np.array(ct)), vids=[0, 5], m=1.0, aniso=None, name="geo-referenced")
        rng = gen.rng_for(self.seed, "c07ks")
        for k in range(20):
            nv, ne = int(rng.integers(3, 9)), int(rng.integers(2, 7))
            es = 1.0 if k % 3 else 10.0 ** rng.uniform(3, 6)
            if k % 4 == 3:       # descending / shuffled times over several decades
                ev = es * np.sort(np.abs(rng.normal(size=ne)))
                tt = 10.0 ** np.linspace(2.0, -2.5, int(rng.integers(2, 5))) * 40.0 / max(float(ev.max()), 1e-300)
                yield dict(name="kernel", evecs=rng.normal(size=(nv, ne)), evals=ev, n=ne, q=int(rng.integers(0, nv)),
                           t=tt if k % 8 == 3 else tt[rng.permutation(len(tt))], xs=rng.choice(nv, size=2), tmode="vec")
                continue
            yield dict(name="kernel", evecs=rng.normal(size=(nv, ne)), evals=es * (np.sort(np.abs(rng.normal(size=ne))) if k % 4 != 1 else np.abs(rng.normal(size=ne))), n=int(rng.integers(1, ne + 1)),
                       q=int(rng.integers(0, nv)), t=rng.uniform(0.1, 2, size=int(rng.integers(1, 5))) / es, xs=rng.choice(nv, size=2), tmode="vec")

    def oracle(self, case):
        if case.get("name") == "kernel":
            evecs = np.asarray(case["evecs"], float); evals = np.asarray(case["evals"], float); n = int(case["n"]); q = int(case["q"])
            tl = np.asarray(case["t"], float).reshape(-1); xs = np.asarray(case["xs"], dtype=int)
            ref = np.array([[sum(np.exp(-evals[j] * s) * evecs[p, j] * evecs[q, j] for j in range(n)) for s in tl] for p in range(len(evecs))])
            for targ in ([tl] if len(tl) > 1 else [tl, float(tl[0])]):
                hk = core.call(heat.kernel, targ, q, evecs, evals, n)
                if hk[0] != "ok" or np.asarray(hk[1]).shape != ref.shape or core.relerr(hk[1], ref) > 1e-9:
                    return core.Violation("kernel", "kernel is not the spectral sum for every vertex and time (t=%s): %s" % (np.shape(targ), str(hk)[:80]), case)
                hq = core.call(heat.kernel, targ, 0, evecs, evals, n)
                h0 = core.call(heat.kernel, targ, q, evecs, evals, n)
                if hq[0] == "ok" and h0[0] == "ok" and core.relerr(np.asarray(hq[1])[q], np.asarray(h0[1])[0]) > 1e-9:
                    return core.Violation("kernel-symmetric", "kernel(p,q) != kernel(q,p)", case)
                hd = core.call(heat.diagonal, targ, xs, evecs, evals, n)
                refd = np.array([[sum(np.exp(-evals[j] * s) * evecs[x, j] ** 2 for j in range(n)) for s in tl] for x in xs])
                if hd[0] != "ok" or np.asarray(hd[1]).shape != refd.shape or core.relerr(hd[1], refd) > 1e-9:
                    return core.Violation("diagonal", "diagonal is not the kernel at p=q=x: %s" % (str(hd)[:80],), case)
            return None
        kind = case["kind"]
        SEED_FORM["form"] = case.get("vform", "flat")
        v = np.asarray(case["v"], float); t = np.asarray(case["t"], dtype=np.int64); vids = [int(x) for x in case["vids"]]; m = float(case["m"])
        aniso = case.get("aniso")
        aniso = tuple(aniso) if isinstance(aniso, (list, np.ndarray)) else aniso
        try:
            geo, calls, u = run_diffusion(kind, v, t, vids, m, aniso)
            with core.quiet():
                fem = Solver(geo, lump=True)
                ell = indep_avg_edge(v, t)          # independent of the implementation: mean length of the distinct undirected edges
                if aniso is not None:
                    fa = Solver(mk(kind, v, t), aniso=aniso)      # anisotropic stiffness (independent of the mass option)
        except Exception as e:  # noqa: BLE001
            return core.Violation("runs", "diffusion raised %s: %s" % (type(e).__name__, e), case)
        if case.get("reuse"):
            try:
                g2, _, u2 = run_diffusion(kind, v, t, vids, m, aniso, reuse=True)
                uf = run_diffusion(kind, np.array(g2.v, dtype=float), t, vids, m, aniso)[2]
            except Exception as e:  # noqa: BLE001
                return core.Violation("runs", "repeated diffusion raised %s: %s" % (type(e).__name__, e), case)
            if np.max(np.abs(u2 - uf)) > 1e-5 * max(np.abs(uf).max(), 1e-30):
                return core.Violation("system", "diffusion on a mesh object that was used before and then changed in place differs from diffusion on a fresh "
                                      "mesh with the same vertices (rel. dev %.3g)" % (np.max(np.abs(u2 - uf)) / max(np.abs(uf).max(), 1e-30)), case)
        n = len(v)
        A = (fem if aniso is None else fa).stiffness.astype(float); B = fem.mass.astype(float)
        b = np.zeros(n); b[vids] = 1.0
        r = (B + m * ell ** 2 * A) @ u - b
        if np.max(np.abs(r)) > 1e-5:
            return core.Violation("system", "(B + tA)u != indicator(vids): residual %.3g" % np.max(np.abs(r)), case)
        tot = float(B.diagonal() @ u)
        if abs(tot - len(set(vids))) > 1e-5 * max(1, len(set(vids))):
            return core.Violation("conservation", "total heat %.8g, seeded vertices %d" % (tot, len(set(vids))), case)
        sv = sorted(set(vids))
        if len(sv) >= 2:
            u1 = run_diffusion(kind, v, t, sv[:1], m, aniso)[2]; u2 = run_diffusion(kind, v, t, sv[1:], m, aniso)[2]
            if np.max(np.abs(u1 + u2 - u)) > 2e-5 * max(np.abs(u).max(), 1e-30):
                return core.Violation("additive", "result not additive over disjoint seed sets", case)
        if aniso is not None:
            return None       # curvature weights are not scale invariant and principal directions are ill-conditioned at umbilics
        rng = gen.rng_for(self.seed, "c07o", n)
        Q = gen.random_rotation(rng, reflect=bool(rng.random() < 0.5)); s = float(rng.uniform(0.5, 2.0))
        us = run_diffusion(kind, s * (v @ Q.T) + rng.uniform(-1, 1, 3), t, vids, m)[2]
        d = 2 if kind == "tri" else 3
        if np.max(np.abs(us - u * s ** (-d))) > 5e-4 * max(np.abs(u).max() * s ** (-d), 1e-30):
            return core.Violation("similarity", "result does not scale by s^-d / is not rigid-motion invariant", case)
        p = rng.permutation(n)
        v2 = np.empty_like(v); v2[p] = v
        ur = run_diffusion(kind, v2, p[t], [int(p[i]) for i in vids], m)[2]
        if np.max(np.abs(ur[p] - u)) > 5e-4 * max(np.abs(u).max(), 1e-30):
            return core.Violation("relabel", "result changes under vertex relabelling", case)
        return None
