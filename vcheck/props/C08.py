"""C08 — geodesic and rotated functions recover unit / quarter-turn gradients."""
import numpy as np

from .. import repo, core, gen, wire, extract, capture
from ..base import BaseCheck
from .C06 import vec_from_coo
from .C09 import brute
from lapy import TriaMesh, TetMesh, Solver, diffgeo


def mk(kind, v, t):
    with core.quiet():
        return TriaMesh(v, t) if kind == "tri" else TetMesh(v, t)


def run(fn, kind, v, t, f):
    geo = mk(kind, v, t)
    with core.quiet():
        with capture.capture() as calls:
            g = fn(geo, f)
    return calls, np.asarray(g, dtype=float)


class Check(BaseCheck):
    id = "C08"
    audit_mod = "LapyVerif.Audit.C08"
    rule = ("flat and curved triangle meshes (connected, oriented for rotated_f) and tetra meshes with random element flips x random vertex functions "
            "with non-vanishing element gradients (affine + perturbation) x entry point in {compute_geodesic_f, tria_compute_geodesic_f, "
            "compute_rotated_f}; the right-hand side handed to the Poisson solve and the (singular) matrix factorised are captured and "
            "compared with the model; distinct by hash of (mesh, function, entry point)")
    trusted = ["SuperLU on the SINGULAR stiffness matrix (no Dirichlet data): LaPy relies on rounding to avoid an exact zero pivot; existence and "
               "finiteness of the factorisation is runtime behaviour the exact model cannot exhibit — assumed: some solution of the compatible "
               "system; monitored: finiteness, residual, minimum 0"]
    assumptions = ["solve contract on the singular system (C08 is 'proof, partial')"]

    def translate(self):
        extract.gen_fem()
        extract.gen_diffgeo()
        extract.gen_poisson()
        extract.gen_geo_glue()
        extract.gen_dispatch()

    def problems(self, seed, n_tri, n_tet):
        rng = gen.rng_for(seed, "c08")
        classes = ["grid", "delaunay", "lifted", "delaunay-lifted", "icosphere", "ellipsoid", "cylinder", "torus"]
        for c in gen.tria_stream(seed + 111, n_tri, "small", classes=classes, modifiers=False):
            v, t = c["v"], c["t"]
            if len(np.unique(t)) != len(v):
                continue
            flat = bool(np.ptp(v[:, 2]) == 0)
            a = rng.normal(size=3)
            if flat:
                a[2] = 0.0
            f = v @ a + rng.normal() + (0.0 if rng.random() < 0.5 else 0.05 * np.sin(v @ rng.normal(size=3)))
            if rng.random() < 0.3:            # far from affine: a narrow high bump and a broad low one (several local extrema)
                ext = np.ptp(v, axis=0).max()
                p1, p2 = v[int(rng.integers(0, len(v)))], v[int(rng.integers(0, len(v)))]
                f = 2.0 * np.exp(-np.sum((v - p1) ** 2, axis=1) / (0.05 * ext ** 2)) + np.exp(-np.sum((v - p2) ** 2, axis=1) / (0.6 * ext ** 2)) + 0.01 * (v @ a)
            affine = bool(np.allclose(f, v @ a + (f[0] - v[0] @ a)))
            fs = float(rng.choice([1.0, 1.0, 1e-9, 1e6]))       # the normalised gradient does not depend on the magnitude of f
            # ... nor on an additive constant: largest value exactly 0, smallest value exactly 0, values of one sign
            off = str(rng.choice(["as-drawn", "as-drawn", "max=0", "min=0", "negative"]))
            f = {"as-drawn": f, "max=0": f - f.max(), "min=0": f - f.min(), "negative": f - f.max() - 0.37 * np.ptp(f)}[off]
            yield dict(kind="tri", v=v, t=t, f=fs * f, a=a, affine=affine, flat=flat, name=c["name"], fscale=fs, pres=c.get("pres"), vdtype=c.get("vdtype"))
        # flat meshes whose boundary passes twice through one vertex (two patches touching in a corner; a notch meeting a hole): oriented,
        # edge-manifold, no unused vertex
        g1, t1 = gen.grid(2, 2)
        g1 = np.array(g1, float); t1 = np.array(t1)
        corner = int(np.argmax(g1[:, 0] + g1[:, 1])); origin = int(np.argmin(g1[:, 0] + g1[:, 1]))
        g2 = g1 + (g1[corner] - g1[origin])
        t2 = t1 + len(g1)
        t2 = np.where(t2 == len(g1) + origin, corner, t2)
        keep = [i for i in range(2 * len(g1)) if i != len(g1) + origin]
        ren = {old: new for new, old in enumerate(keep)}
        bv = np.vstack([g1, g2])[keep]; bt = np.vectorize(ren.get)(np.vstack([t1, t2]))
        bv = bv + 0.07 * np.column_stack([np.sin(1.3 * np.arange(len(bv))), np.cos(2.1 * np.arange(len(bv))), np.zeros(len(bv))]) * (np.arange(len(bv)) != corner)[:, None]
        for rep in range(2):
            a = rng.normal(size=3); a[2] = 0.0
            Q = np.eye(3) if rep == 0 else gen.random_rotation(rng)
            yield dict(kind="tri", v=bv @ Q.T, t=bt, f=(bv @ a) + 0.3, a=Q @ a, affine=True, flat=True, name="bowtie-flat", fscale=1.0)
        for c in gen.tet_stream(seed + 112, n_tet, "small"):
            v, t = c["v"], c["t"]
            if len(np.unique(t)) != len(v):
                continue
            a = rng.normal(size=3)
            fs = float(rng.choice([1.0, 1.0, 1e-9, 1e6]))
            ft = v @ a + rng.normal()
            ft = [ft, ft - ft.max(), ft - ft.min()][int(rng.integers(0, 3))]
            yield dict(kind="tet", v=v, t=t, f=fs * ft, a=a, affine=True, flat=True, name=c["name"], fscale=fs, pres=c.get("pres"), vdtype=c.get("vdtype"))

    def correspond(self, drv, stats):
        fails = []
        for case in self.problems(self.seed, 14 if self.quick else 900, 6 if self.quick else 300):
            kind, v, t, f = case["kind"], case["v"], case["t"], case["f"]
            gen.use(case)
            n = len(v)
            stats.case(core.mesh_key(v, t, f[:3].tolist()), cls=[kind + ":" + case["name"], "affine:%s" % case["affine"], "flat:%s" % case["flat"], "f-scale:%g" % case.get("fscale", 1.0)],
                       sample=dict(kind=kind, name=case["name"], n=n, affine=case["affine"]))
            entries = [("compute_geodesic_f", diffgeo.compute_geodesic_f, True)]
            if kind == "tri":
                entries.append(("tria_compute_geodesic_f", diffgeo.tria_compute_geodesic_f, False))
            r = wire.Reply(drv.ask("geo_rhs %s %s %s %s" % (kind, wire.verts(v), wire.elems(t), wire.rawfloats(f))))
            rhs_m = vec_from_coo(*r.coo(), n) if r.status == "ok" else None
            for nm, fn, lump in entries:
                try:
                    calls, g = run(fn, kind, v, t, f)
                except RuntimeError as e:
                    if "exactly singular" in str(e):      # recorded finding F15, replayed separately on every run
                        stats.monitor("F15: exactly singular factor (recorded finding)")
                        continue
                    fails.append(core.Failure("correspondence", nm + " vs model", "raised RuntimeError: %s" % e, case)); continue
                except Exception as e:  # noqa: BLE001
                    fails.append(core.Failure("correspondence", nm + " vs model", "raised %s: %s" % (type(e).__name__, e), case)); continue
                if len(calls.splu) != 1 or rhs_m is None:
                    fails.append(core.Failure("correspondence", nm + " vs model", "splu calls %d" % len(calls.splu), case)); continue
                bi, xi = calls.splu[0]["solves"][0]
                bi = np.asarray(bi, dtype=float).reshape(-1); xi = np.asarray(xi, dtype=float).reshape(-1)
                sc = max(np.abs(rhs_m).max(), 1e-30)
                with core.quiet():
                    A = Solver(mk(kind, v, t), lump=lump).stiffness
                if np.max(np.abs(bi - rhs_m)) > 2e-6 * sc or core.sparse_relerr(calls.splu[0]["a"].astype(float), A.astype(float)) > 1e-12:
                    fails.append(core.Failure("correspondence", nm + ": system handed to the solver vs model", "rhs max dev %.3g (scale %.3g)" % (np.max(np.abs(bi - rhs_m)), sc), case))
                rs = wire.Reply(drv.ask("shift_min %s" % wire.floats(xi)))
                if rs.status != "ok" or np.max(np.abs(rs.floats() - g)) > 1e-12 * max(1, np.abs(g).max()):
                    fails.append(core.Failure("correspondence", nm + ": post-processing vs model", "result is not the solver output shifted to minimum 0", case))
                stats.monitor("singular solve monitored")
                if not np.all(np.isfinite(g)):
                    fails.append(core.Failure("monitor", "singular splu solve", "non-finite output", case))
            if kind == "tri" and brute(n, t)["oriented"]:
                try:
                    calls, g = run(diffgeo.compute_rotated_f, kind, v, t, f)
                    r2 = wire.Reply(drv.ask("rot_rhs %s %s %s" % (wire.verts(v), wire.elems(t), wire.rawfloats(f))))
                    rm = vec_from_coo(*r2.coo(), n)
                    bi, xi = calls.splu[0]["solves"][0]
                    bi = np.asarray(bi, dtype=float).reshape(-1)
                    if np.max(np.abs(bi - rm[1:])) > 2e-6 * max(np.abs(rm).max(), 1e-6 * np.abs(f).max(), 1e-30) or calls.splu[0]["a"].shape != (n - 1, n - 1) or g[0] != 0.0:
                        fails.append(core.Failure("correspondence", "compute_rotated_f: system vs model", "rhs dev %.3g" % np.max(np.abs(bi - rm[1:])), case))
                except Exception as e:  # noqa: BLE001
                    fails.append(core.Failure("correspondence", "compute_rotated_f vs model", "raised %s: %s" % (type(e).__name__, e), case))
            if len(fails) > 5:
                break
        return fails

    def search_cases(self):
        return self.problems(self.seed + 13, 16 if self.quick else 120, 6 if self.quick else 50)

    def known_finding(self, k):
        v, t = gen.grid(*k["input"]["grid"])
        res = core.call(diffgeo.compute_geodesic_f, mk("tri", v, t), v[:, 0] + 0.5 * v[:, 1])
        return res[0] == "err" and res[1] == "RuntimeError" and "exactly singular" in res[2]

    def oracle(self, case):
        kind = case["kind"]; v = np.asarray(case["v"], float); t = np.asarray(case["t"], dtype=np.int64); f = np.asarray(case["f"], float)
        a = np.asarray(case["a"], float); n = len(v)
        try:
            _, g = run(diffgeo.compute_geodesic_f, kind, v, t, f)
        except Exception as e:  # noqa: BLE001
            cls = "exactly-singular-factor" if "exactly singular" in str(e) else None
            return core.Violation("runs", "compute_geodesic_f raised %s: %s" % (type(e).__name__, e), dict(case, input_class=cls))
        if not np.all(np.isfinite(g)):
            return core.Violation("finite", "non-finite geodesic function", case)
        if abs(g.min()) > 1e-12 * max(1, np.abs(g).max()):
            return core.Violation("min-zero", "minimum is %.3g, not 0" % g.min(), case)
        geo = mk(kind, v, t)
        with core.quiet():
            gr = diffgeo.compute_gradient(geo, f)
            X = np.nan_to_num(gr / np.sqrt((gr ** 2).sum(1))[:, None])
            b = diffgeo.compute_divergence(geo, X)
            A = Solver(geo, lump=True).stiffness
        res = A @ g - b
        if np.max(np.abs(res)) > 1e-3 * max(np.abs(b).max(), 1e-12):
            return core.Violation("equation", "A g = div(grad f/|grad f|) violated: residual %.3g (rhs scale %.3g)" % (np.max(np.abs(res)), np.abs(b).max()), case)
        from .C05 import components
        connected = len(set(components(n, t))) == 1
        if case.get("affine") and case.get("flat") and connected:
            u = -(v @ a) / np.linalg.norm(a)
            u = u - u.min()
            if np.max(np.abs(g - u)) > 2e-4 * max(1.0, np.abs(u).max()):
                return core.Violation("affine", "geodesic function of an affine f is not the unit-slope affine function decreasing along grad f (max dev %.3g)" % np.max(np.abs(g - u)), case)
        if kind == "tri":
            try:
                _, g2 = run(diffgeo.tria_compute_geodesic_f, kind, v, t, f)
            except RuntimeError as e:
                return core.Violation("runs", "tria_compute_geodesic_f raised %s" % e, dict(case, input_class="exactly-singular-factor" if "exactly singular" in str(e) else None))
            if np.max(np.abs(g - g2)) > 2e-4 * max(1.0, np.abs(g).max()) and connected:
                return core.Violation("entry-points", "compute_geodesic_f and tria_compute_geodesic_f disagree (max dev %.3g)" % np.max(np.abs(g - g2)), case)
            b0 = brute(n, t)
            if b0["oriented"] and connected:
                try:
                    _, r = run(diffgeo.compute_rotated_f, kind, v, t, f)
                except Exception as e:  # noqa: BLE001
                    return core.Violation("rotated", "compute_rotated_f raised %s" % e, case)
                if r[0] != 0.0:
                    return core.Violation("rotated", "rotated function is not 0 at vertex 0", case)
                if case.get("affine") and case.get("flat"):
                    with core.quiet():
                        gf = diffgeo.tria_compute_gradient(geo, f); grr = diffgeo.tria_compute_gradient(geo, r)
                    if np.max(np.abs(np.einsum("ij,ij->i", gf, grr))) > 1e-4 * np.abs(gf).max() ** 2 or \
                            np.max(np.abs(np.linalg.norm(grr, axis=1) - np.linalg.norm(gf, axis=1))) > 1e-4 * np.abs(gf).max():
                        return core.Violation("rotated", "gradient of the rotated function is not a quarter turn of grad f", case)
        return None
