"""C09 — connectivity queries agree with brute-force combinatorics."""
import itertools
import numpy as np

from .. import repo, core, gen, wire
from ..base import BaseCheck
from lapy import TriaMesh


# ------------------------------------------------------------------ brute force (independent of LaPy and of the model)

def brute(nv, t):
    und, dr = {}, {}
    for a, b, c in t:
        for x, y in ((a, b), (b, c), (c, a)):
            dr[(x, y)] = dr.get((x, y), 0) + 1
            k = (min(x, y), max(x, y))
            und[k] = und.get(k, 0) + 1
    used = sorted({int(x) for x in np.asarray(t).reshape(-1)})
    deg = [0] * nv
    for (x, y) in und:
        deg[x] += 1; deg[y] += 1
    return dict(closed=all(c != 1 for c in und.values()), manifold=all(c <= 2 for c in und.values()),
                oriented=all(c == 1 for c in dr.values()), euler=len(used) - len(und) + len(t),
                free=len(used) != nv, deg=deg, und=und, dr=dr)


def boundary_half_edges(b):
    return [(x, y) for (x, y), c in b["dr"].items() if b["und"][(min(x, y), max(x, y))] == 1]


def loops_precondition(b):
    """oriented manifold and every boundary vertex has exactly one outgoing (and one incoming) boundary half-edge"""
    if not (b["manifold"] and b["oriented"]):
        return False
    bh = boundary_half_edges(b)
    outs = {}; ins = {}
    for x, y in bh:
        outs[x] = outs.get(x, 0) + 1; ins[y] = ins.get(y, 0) + 1
    return all(v == 1 for v in outs.values()) and all(v == 1 for v in ins.values())


def impl_queries(v, t):
    m = TriaMesh(v, t)
    return dict(closed=bool(m.is_closed()), manifold=bool(m.is_manifold()), oriented=bool(m.is_oriented()), euler=int(m.euler()),
                free=bool(m.has_free_vertices()), deg=[int(x) for x in m.vertex_degrees()])


def impl_loops(v, t):
    m = TriaMesh(v, t)
    return [[int(x) for x in l] for l in m.boundary_loops()]


def impl_edges(v, t):
    m = TriaMesh(v, t)
    r = m.edges(with_boundary=True)
    return [np.asarray(x).astype(np.int64).tolist() for x in r]


def tri_cases(seed, n, size):
    """generator stream + added unused vertices"""
    k = 0
    for c in gen.tria_stream(seed, n, size):
        rng = gen.rng_for(seed, "c09", k)
        k += 1
        v, t = c["v"], c["t"]
        if rng.random() < 0.25:
            v, t = gen.add_free(rng, v, t, int(rng.integers(1, 3)))
            c = dict(c, v=v, t=t, tags=c["tags"] | {"free-vertices"})
        yield c


def exhaustive_subcomplexes(base_t, min_tris=3):
    """all sub-collections of the triangles of a base complex x all flip patterns"""
    base_t = np.asarray(base_t)
    for mask in range(1, 1 << len(base_t)):
        idx = [i for i in range(len(base_t)) if mask >> i & 1]
        if len(idx) < min_tris:
            continue
        for fl in range(1 << len(idx)):
            t = base_t[idx].copy()
            for j in range(len(idx)):
                if fl >> j & 1:
                    t[j] = t[j][[1, 0, 2]]
            yield t


class Check(BaseCheck):
    id = "C09"
    audit_mod = "LapyVerif.Audit.C09"
    rule = ("triangle index arrays from the generator families (closed/open, genus 0-1, several boundary loops and components, "
            "non-manifold fans, Moebius strips, random flips / relabellings / permutations, unused vertices) and (thorough) all "
            "sub-complexes x flip patterns of the tetrahedron boundary and the octahedron; distinct by hash of the index array; "
            "boundary_loops is compared only where its documented precondition holds (pinched boundaries are classified, not judged)")
    trusted = ["np.unique / scipy CSC canonical form (sorted row indices, summed duplicates, eliminate_zeros) as re-implemented by the model"]

    def cases(self):
        n, size = (45, "small") if self.quick else (900, "large")
        for c in tri_cases(self.seed + 11, n, size):
            yield c["v"], c["t"], c["name"], c["tags"]
        for c in gen.narrow_cases() + gen.big_cases(self.seed, not self.quick)[:4]:
            yield c["v"], c["t"], c["name"], c["tags"]
        # exhaustive small complexes
        v4, t4 = gen.tetra_surface()
        for t in exhaustive_subcomplexes(t4):
            yield v4, t, "sub-tetra", {"exhaustive"}
        vo, to = gen.octahedron()
        rng = gen.rng_for(self.seed, "c09-oct")
        allsubs = exhaustive_subcomplexes(to)
        if self.quick:
            for t in itertools.islice((t for t in allsubs if rng.random() < 0.004), 150):
                yield vo, t, "sub-octa", {"exhaustive-sampled"}
        else:
            for t in (t for t in allsubs if rng.random() < 0.12):
                yield vo, t, "sub-octa", {"exhaustive-sampled"}

    def correspond(self, drv, stats):
        fails = []
        for v, t, name, tags in self.cases():
            nv = len(v)
            b = brute(nv, t)
            cls = ["class:" + name, "closed:%s" % b["closed"], "manifold:%s" % b["manifold"], "oriented:%s" % b["oriented"]]
            pre = loops_precondition(b)
            cls.append("loops-precondition:%s" % pre)
            stats.case(core.mesh_key(np.zeros(0), t, nv), cls=cls, nontrivial=len(t) >= 3,
                       sample=dict(name=name, nv=nv, t=np.asarray(t)[:6]))
            case = dict(v=v, t=t, name=name, pres=next((x[5:] for x in tags if x.startswith("pres:")), None), vdtype="int64" if "int-coords" in tags else None)
            gen.use(case)
            # scalar queries
            iq = core.call(impl_queries, v, t)
            r = wire.Reply(drv.ask("topo %d %s" % (nv, wire.elems(t))))
            mq = None
            if r.status == "ok":
                mq = dict(closed=bool(r.nat()), manifold=bool(r.nat()), oriented=bool(r.nat()), euler=int(r.tok()), free=bool(r.nat()),
                          deg=[int(x) for x in r.nats()])
            if iq[0] != "ok" or mq is None or iq[1] != mq:
                fails.append(core.Failure("correspondence", "connectivity queries vs model", "%s: impl %s model %s" % (name, iq, mq), case))
            # boundary loops (killable: the implementation does not terminate on pinched boundaries)
            rl = drv.ask("loops %s" % wire.elems(t))
            if pre or not (b["manifold"] and b["oriented"]):
                il = core.run_limited(impl_loops, (v, t), 10.0)
                got = "ok %d" % len(il[1]) + "".join(" %d %s" % (len(l), " ".join(map(str, l))) for l in il[1]) if il[0] == "ok" else (
                    "err " + (il[1] if il[0] == "err" else "Timeout"))
                got = got.replace("ok 0", "ok 0 ") if got == "ok 0" else got
                if got.strip() != rl.strip():
                    fails.append(core.Failure("correspondence", "boundary_loops vs model", "%s: impl %s model %s" % (name, got[:120], rl[:120]), case))
                stats.monitor("loops compared")
            else:
                stats.monitor("loops skipped (pinched boundary, outside the property's precondition)")
            # edges
            re_ = wire.Reply(drv.ask("edges %s" % wire.elems(t)))
            ie = core.call(impl_edges, v, t)
            if re_.status == "ok":
                def pairs(rr):
                    n = rr.nat(); return [[int(rr.tok()), int(rr.tok())] for _ in range(n)]
                mv = pairs(re_); mt = pairs(re_); mbv = pairs(re_); nb = re_.nat(); mbt = [[int(re_.tok())] for _ in range(nb)]
                if ie[0] != "ok":
                    fails.append(core.Failure("correspondence", "edges vs model", "%s: impl %s, model ok" % (name, ie), case))
                else:
                    res = ie[1]
                    ok = res[0] == mv and res[1] == mt
                    if len(res) == 4:
                        ok = ok and res[2] == mbv and [list(x) for x in res[3]] == mbt
                    else:
                        ok = ok and mbv == []
                    if not ok:
                        fails.append(core.Failure("correspondence", "edges vs model", "%s: impl %s model %s" % (name, str(res)[:150], str((mv, mt, mbv, mbt))[:150]), case))
            else:
                if ie[0] == "ok" or ie[1] != "ValueError":
                    fails.append(core.Failure("correspondence", "edges vs model", "%s: impl %s model %s" % (name, str(ie)[:100], re_.raw[:60]), case))
            if len(fails) > 6:
                break
        return fails

    # ---- oracle: brute force vs implementation
    def search_cases(self):
        for v, t, name, tags in self.cases():
            yield dict(v=v, t=t, name=name)

    def oracle(self, case):
        v = np.asarray(case["v"], float); t = np.asarray(case["t"], dtype=np.int64)
        nv = len(v)
        b = brute(nv, t)
        iq = core.call(impl_queries, v, t)
        if iq[0] != "ok":
            return core.Violation("queries", "raised %s" % (iq[1:],), case)
        q = iq[1]
        for k, what in (("closed", "is_closed"), ("manifold", "is_manifold"), ("oriented", "is_oriented"), ("euler", "euler"),
                        ("free", "has_free_vertices"), ("deg", "vertex_degrees")):
            if q[k] != b[k]:
                return core.Violation(what, "%s returns %s, brute force %s" % (what, str(q[k])[:80], str(b[k])[:80]), case, observed=q[k], expected=b[k])
        # loops
        if not b["manifold"] or (not b["closed"] and not b["oriented"]):
            il = core.run_limited(impl_loops, (v, t), 10.0)
            if not (il[0] == "err" and il[1] == "ValueError"):
                return core.Violation("boundary_loops", "non-manifold / unoriented input not rejected with ValueError: %s" % (il[:2],), case)
        elif b["closed"]:
            il = core.run_limited(impl_loops, (v, t), 10.0)
            if il != ("ok", []):
                return core.Violation("boundary_loops", "closed mesh should have no loops: %s" % (il[:2],), case)
        elif loops_precondition(b):
            il = core.run_limited(impl_loops, (v, t), 10.0)
            if il[0] != "ok":
                return core.Violation("boundary_loops", "failed on valid input: %s" % (il,), case)
            bh = set(boundary_half_edges(b))
            used = []
            for lp in il[1]:
                if len(set(lp)) != len(lp):
                    return core.Violation("boundary_loops", "loop is not a simple cycle: %s" % lp, case)
                for k in range(len(lp)):
                    e = (lp[(k + 1) % len(lp)], lp[k])      # walked against the half-edge direction, consistently
                    if e not in bh:
                        return core.Violation("boundary_loops", "consecutive loop vertices %s are not a boundary half-edge in the common direction" % (e,), case)
                    used.append(e)
            if sorted(used) != sorted(bh):
                return core.Violation("boundary_loops", "boundary edges not used exactly once", case)
        # edges
        ie = core.call(impl_edges, v, t)
        if not b["oriented"]:
            if not (ie[0] == "err" and ie[1] == "ValueError"):
                return core.Violation("edges", "unoriented input not rejected: %s" % (str(ie)[:80],), case)
        else:
            if ie[0] != "ok":
                return core.Violation("edges", "raised on oriented mesh: %s" % (ie[1:],), case)
            res = ie[1]
            vids, tids = res[0], res[1]
            interior = {k for k, c in b["und"].items() if c == 2}
            if sorted((min(a, c), max(a, c)) for a, c in vids) != sorted(interior) or len(vids) != len(interior):
                return core.Violation("edges", "interior edges not listed exactly once", case)
            for (a, c), (t1, t2) in zip(vids, tids):
                if t1 == t2:
                    return core.Violation("edges", "edge %s lists the same triangle twice" % ((a, c),), case)
                tr1 = list(t[t1]); tr2 = list(t[t2])
                he1 = [(tr1[0], tr1[1]), (tr1[1], tr1[2]), (tr1[2], tr1[0])]
                he2 = [(tr2[0], tr2[1]), (tr2[1], tr2[2]), (tr2[2], tr2[0])]
                if (a, c) not in he1 or (c, a) not in he2:
                    return core.Violation("edges", "edge %s: first triangle does not contain the listed half-edge / second not the opposite" % ((a, c),), case)
            bh = boundary_half_edges(b)
            if len(res) == 4:
                bv, bt = res[2], [x[0] for x in res[3]]
                if sorted(map(tuple, bv)) != sorted(bh):
                    return core.Violation("edges", "boundary half-edges not listed exactly", case)
                for (a, c), tk in zip(bv, bt):
                    tr = list(t[tk])
                    if (a, c) not in [(tr[0], tr[1]), (tr[1], tr[2]), (tr[2], tr[0])]:
                        return core.Violation("edges", "boundary half-edge %s not in its reported triangle" % ((a, c),), case)
            elif bh:
                return core.Violation("edges", "boundary half-edges missing from edges(with_boundary=True)", case)
        return None
