"""C14 — what LaPy writes, LaPy reads back: meshes, spectra and vertex functions."""
import os
import shutil
import tempfile

import numpy as np

from .. import repo, core, gen, wire, fsio
from ..base import BaseCheck
from lapy import TriaMesh, TetMesh, io as lio


def hx(s):
    return s.encode().hex() if s else "-"


def unhx(s):
    return "" if s == "-" else bytes.fromhex(s).decode()


def lines_arg(lines):
    return "%d %s" % (len(lines), " ".join(hx(l) for l in lines)) if lines else "0"


def read_strs(r):
    n = r.nat()
    return [unhx(r.tok()) for _ in range(n)]


class Tmp:
    def __enter__(self):
        self.d = tempfile.mkdtemp(prefix="lapyverif")
        return self

    def path(self, name):
        return os.path.join(self.d, name)

    def __exit__(self, *a):
        shutil.rmtree(self.d, ignore_errors=True)


def file_lines(p):
    with open(p) as f:
        return f.read().split("\n")[:-1] if True else []


def lapy_read(kind, lines, tmp, suffix):
    """run LaPy's reader on the given lines: ('ok', v, t) | ('fail',)"""
    p = tmp.path("in" + suffix)
    with open(p, "w") as f:
        f.write("".join(l + "\n" for l in lines))
    fn = {"vtk3": TriaMesh.read_vtk, "vtk4": TetMesh.read_vtk, "off": TriaMesh.read_off, "gmsh": TetMesh.read_gmsh}[kind]
    res = core.call(fn, p)
    if res[0] != "ok" or res[1] is None:
        return ("fail",)
    m = res[1]
    return ("ok", np.array(m.v), np.array(m.t, dtype=np.int64))


def model_read(drv, kind, lines):
    r = wire.Reply(drv.ask("io_read %s %s" % (kind, lines_arg(lines))))
    if r.status != "ok":
        return ("fail", r.raw)
    coords = read_strs(r)
    ne, k = r.nat(), r.nat()
    t = np.array([r.nat() for _ in range(ne * k)], dtype=np.int64).reshape(ne, k) if ne else np.zeros((0, k), dtype=np.int64)
    v = np.array([np.float32(float(c)) for c in coords], dtype=np.float32).reshape(-1, 3)
    return ("ok", v, t)


def same_mesh(a, b):
    if a[0] != b[0]:
        return False
    if a[0] == "fail":
        return True
    return a[1].shape == b[1].shape and a[2].shape == b[2].shape and np.array_equal(a[2], b[2]) and \
        np.array_equal(a[1].astype(np.float32).view(np.uint32), b[1].astype(np.float32).view(np.uint32))


def ev_arg(d):
    """encode the dictionary for the driver (`str()` is the formatting parameter)"""
    def kv(keys):
        items = [(k, str(d[k])) for k in keys if k in d]
        return "%d %s" % (len(items), " ".join("%s %s" % (hx(k), hx(v)) for k, v in items)) if items else "0"
    evals = [str(x) for x in d["Eigenvalues"]]
    s = "%s %s %s %d %s" % (kv(["Creator", "File", "User"]),
                            kv(["Refine", "Degree", "Dimension", "Elements", "DoF", "NumEW", "EulerChar", "TimePre", "TimeCalcAB", "TimeCalcEW"]),
                            kv(["Area", "Volume", "BLength"]), len(evals), " ".join(hx(x) for x in evals))
    if "Eigenvectors" in d:
        E = np.asarray(d["Eigenvectors"])
        s += " 1 %d %d %s" % (E.shape[0], E.shape[1], " ".join(hx(str(x)) for j in range(E.shape[1]) for x in E[:, j]))
    else:
        s += " 0"
    return s


def parse_ev_reply(r):
    def kv():
        n = r.nat()
        return {unhx(r.tok()): unhx(r.tok()) for _ in range(n)}
    out = dict(strs=kv(), ints=kv(), floats=kv())
    out["evals"] = read_strs(r)
    if r.nat():
        n, k = r.nat(), r.nat()
        out["evecs"] = (n, k, [[unhx(r.tok()) for _ in range(n)] for _ in range(k)])
    else:
        out["evecs"] = None
    return out


class Check(BaseCheck):
    id = "C14"
    audit_mod = "LapyVerif.Audit.C14"
    rule = ("triangle and tetra meshes x vertex dtypes written with LaPy's VTK writers (file compared line by line with the model writer) and read "
            "back; every proper line-prefix of each written file through both readers; foreign files (CELLS keyword, comments, double, triangle "
            "strips, OFF, Gmsh 2.2 ASCII with 1-based nodes, wrong-kind files); .ev files with every field subset, (n,k) eigenvector shapes incl. "
            "k=1 and n=1, float32/float64; vertex-function files; FreeSurfer binary surfaces (3 footer variants x stamps x scales), every byte-prefix truncation, wrong magic, dev-format single newline; distinct by hash of the file text")
    trusted = ["Python's str()/float() round trip and C strtod as the number formatting / parsing pair (parameter of the model)",
               "np.fromfile text mode as observed (count numeric tokens, ValueError on unmatched data, trailing white space consumed)",
               "nibabel write_geometry is taken as the definition of the FreeSurfer binary layout (the model's writeFs is compared with it byte for byte); conversion of footer numbers (astype) and non-ASCII text are not modelled",
               "OS-level I/O errors are not modelled"]

    def correspond(self, drv, stats):
        fails = []
        rng = gen.rng_for(self.seed, "c14")
        with Tmp() as tmp:
            meshes = []
            for c in gen.tria_stream(self.seed + 161, 6 if self.quick else 60, "small"):
                meshes.append(("vtk3", c["v"], c["t"], c["name"]))
            for c in gen.tet_stream(self.seed + 162, 3 if self.quick else 30, "small"):
                if len(c["t"]) >= 2:
                    meshes.append(("vtk4", c["v"], c["t"], c["name"]))
            for kind, v, t, name in meshes:
                dt = np.float32 if rng.random() < 0.4 else np.float64
                vv = (v * rng.choice([1.0, 1e-3, 123.456])).astype(dt)
                k = 3 if kind == "vtk3" else 4
                with core.quiet():
                    m = TriaMesh(vv, t) if k == 3 else TetMesh(vv, t)
                    p = tmp.path("w.vtk")
                    m.write_vtk(p)
                lines = file_lines(p)
                stats.case(core.mesh_key(vv, t, str(dt)), cls=[kind + ":" + name, "dtype:" + np.dtype(dt).name], sample=dict(kind=kind, name=name, nv=len(v), nt=len(t), lines=len(lines)))
                coords = " ".join("%s %s %s" % tuple(hx(str(x)) for x in row) for row in m.v)
                r = wire.Reply(drv.ask("io_write_vtk %d %d %s %d %s" % (k, len(vv), coords, len(t), " ".join(str(int(x)) for x in np.asarray(m.t).reshape(-1)))))
                mlines = read_strs(r) if r.status == "ok" else None
                case = dict(kind=kind, lines=lines, name=name)
                if mlines != lines:
                    fails.append(core.Failure("correspondence", "VTK writer vs model", "%s %s: files differ" % (kind, name), case)); continue
                # read back + every truncation
                step = 1 if (self.quick is False or len(lines) < 40) else 3
                for cut in sorted(set(range(0, len(lines), step)) | {len(lines), len(lines) - 1}):
                    li = lines[:cut]
                    a = lapy_read(kind, li, tmp, ".vtk"); b = model_read(drv, kind, li)
                    stats.monitor("reader calls compared")
                    if not same_mesh(a, b):
                        fails.append(core.Failure("correspondence", "VTK reader vs model", "%s %s: prefix of %d/%d lines: impl %s model %s" % (
                            kind, name, cut, len(lines), a[0], b[0]), dict(kind=kind, lines=li, name=name)))
                        break
                # wrong kind
                other = "vtk4" if kind == "vtk3" else "vtk3"
                a = lapy_read(other, lines, tmp, ".vtk"); b = model_read(drv, other, lines)
                if not same_mesh(a, b):
                    fails.append(core.Failure("correspondence", "VTK reader (wrong kind) vs model", "%s: impl %s model %s" % (name, a[0], b[0]), dict(kind=other, lines=lines, name=name)))
                if len(fails) > 5:
                    return fails
            # FreeSurfer binary surfaces: the writer's byte layout (nibabel = format definition), LaPy's bundled reader, every truncation
            for fc in fs_cases(rng, 4 if self.quick else 40):
                p = tmp.path("lh.surf")
                data = fsio.write_impl(p, fc["stamp"], fc["v"], fc["t"], fc["info"])
                stats.case("fs" + str(len(data)) + fc["stamp"], cls=["fs:" + fc["name"], "fs-footer:%s" % (None if fc["info"] is None else list(fc["info"]["head"]))],
                           sample=dict(kind="fs", name=fc["name"], bytes=len(data)))
                bits = [int(x) for x in np.asarray(fc["v"], dtype=np.float64).astype(">f4").astype(np.float32).reshape(-1).view(np.uint32)]
                w = fsio.model_write(drv, fc["stamp"], bits, [int(x) for x in np.asarray(fc["t"]).reshape(-1)], fsio.info_tokens(fc["info"]))
                if w != data:
                    fails.append(core.Failure("correspondence", "FreeSurfer writer layout vs model", "%s: %d vs %s bytes" % (fc["name"], len(data), None if w is None else len(w)), dict(kind="fs"))); continue
                # through the public API: write_fssurf / read_fssurf
                with core.quiet():
                    mm = TriaMesh(fc["v"], fc["t"], fsinfo=fc["info"])
                    mm.write_fssurf(p)
                back = core.call(TriaMesh.read_fssurf, p)
                mb = fsio.model_read(drv, open(p, "rb").read())
                if back[0] != "ok" or mb[0] != "ok" or not np.array_equal(np.asarray(back[1].t).reshape(-1), mb[3]) or \
                        [int(x) for x in np.asarray(back[1].v, dtype=np.float32).reshape(-1).view(np.uint32)] != mb[2]:
                    fails.append(core.Failure("correspondence", "write_fssurf / read_fssurf vs model", fc["name"], dict(kind="fs"))); continue
                cuts = range(len(data) + 1) if (not self.quick or len(data) < 500) else sorted(set(range(0, len(data) + 1, 7)) | set(range(len(data) - 200, len(data) + 1)))
                variants = [(data[:c], "prefix %d/%d" % (c, len(data))) for c in cuts]
                variants.append((b"\xff\xff\xfd" + data[3:], "bad magic"))
                variants.append((data.replace(b"\n\n", b"\n", 1), "single newline after the stamp (dev format)"))
                for dd, what in variants:
                    with open(p, "wb") as f:
                        f.write(dd)
                    a = fsio.read_impl(p); b = fsio.model_read(drv, dd)
                    stats.monitor("FreeSurfer reader calls compared")
                    if b[0] == "err" and b[1] == "NonAscii":
                        continue
                    if not fsio.same(a, b, dd):
                        fails.append(core.Failure("correspondence", "FreeSurfer reader vs model", "%s %s: impl %s model %s" % (fc["name"], what, a[:2], b[:2]), dict(kind="fs")))
                        break
            # foreign files
            def numeric(l):
                return bool(l.strip()) and (l.strip()[0].isdigit() or l.strip()[0] in "-+.")
            white = [("as-is", lambda l: l), ("tabs", lambda l: l.replace(" ", "\t") if numeric(l) else l), ("crlf", lambda l: l + "\r"),
                     ("indented", lambda l: "  " + l if numeric(l) else l), ("trailing-blanks", lambda l: l + "   "), ("double-blanks", lambda l: l.replace(" ", "  ") if numeric(l) else l)]
            for kind, lines, nm in foreign_files(rng):
                for wname, tr in white:          # the same file with other (legal) white space in its numeric rows / line ends
                    ls = [tr(l) for l in lines]
                    a = lapy_read(kind, ls, tmp, ".msh" if kind == "gmsh" else (".off" if kind == "off" else ".vtk")); b = model_read(drv, kind, ls)
                    stats.case("foreign" + nm + wname, cls=["foreign:" + nm, "whitespace:" + wname])
                    if not same_mesh(a, b):
                        fails.append(core.Failure("correspondence", "foreign file reader vs model", "%s (%s): impl %s model %s" % (nm, wname, a[0], str(b)[:80]), dict(kind=kind, lines=ls, name=nm)))
            # ev files
            for d in ev_cases(rng, 8 if self.quick else 80):
                p = tmp.path("a.ev")
                lio.write_ev(p, d)
                lines = file_lines(p)
                stats.case("ev" + str(sorted(d)) + str(np.shape(d.get("Eigenvectors", []))), cls="ev:k=%s" % (np.shape(d["Eigenvectors"])[1] if "Eigenvectors" in d else "none"))
                r = wire.Reply(drv.ask("io_write_ev %s" % ev_arg(d)))
                if r.status != "ok" or read_strs(r) != lines:
                    fails.append(core.Failure("correspondence", "write_ev vs model", "fields %s" % sorted(d), dict(kind="ev", lines=lines))); continue
                rr = wire.Reply(drv.ask("io_read_ev %s" % lines_arg(lines)))
                back = core.call(lio.read_ev, p)
                if rr.status != "ok" or back[0] != "ok":
                    fails.append(core.Failure("correspondence", "read_ev vs model", "impl %s model %s" % (back[0], rr.raw[:40]), dict(kind="ev", lines=lines))); continue
                md = parse_ev_reply(rr); bd = back[1]
                ok = all(str(bd.get(k)) == v for k, v in md["strs"].items()) and all(int(v) == bd.get(k) for k, v in md["ints"].items()) \
                    and all(float(v) == bd.get(k) for k, v in md["floats"].items()) \
                    and np.array_equal(np.array([float(x) for x in md["evals"]]), bd["Eigenvalues"]) \
                    and ((md["evecs"] is None) == ("Eigenvectors" not in bd))
                if ok and md["evecs"] is not None:
                    n, k, cols = md["evecs"]
                    ok = np.array_equal(np.array([[float(x) for x in c] for c in cols]).T, np.asarray(bd["Eigenvectors"]).reshape(n, k))
                if not ok:
                    fails.append(core.Failure("correspondence", "read_ev vs model", "parsed contents differ", dict(kind="ev", lines=lines)))
                    continue
                # history: the dictionary that read_ev returned, cropped to fewer modes by its user, is written again
                d2 = crop_ev(bd, d)
                if d2 is not None:
                    lio.write_ev(p, d2)
                    lines2 = file_lines(p)
                    stats.case("ev-history" + str(sorted(d)) + str(np.shape(d2.get("Eigenvectors", []))), cls="ev-history:read,crop,write")
                    r2 = wire.Reply(drv.ask("io_write_ev %s" % ev_arg({k: v for k, v in d2.items() if k in d})))
                    if r2.status != "ok" or read_strs(r2) != lines2:
                        fails.append(core.Failure("correspondence", "write_ev of a cropped read_ev dictionary vs model", "fields %s" % sorted(d2),
                                                  dict(kind="ev", d={k: (np.asarray(v).tolist() if k.startswith("Eigen") else v) for k, v in d.items()})))
            # vfunc
            for n in (1, 2, 7):
                vals = rng.normal(size=n).astype(np.float32 if n == 2 else np.float64)
                p = tmp.path("a.psol")
                lio.write_vfunc(p, vals)
                with open(p) as f:
                    lines = f.read().split("\n")
                r = wire.Reply(drv.ask("io_write_vfunc %d %s" % (n, " ".join(hx(x) for x in vals.astype(str)))))
                rb = wire.Reply(drv.ask("io_read_vfunc %s" % lines_arg(lines)))
                back = core.call(lio.read_vfunc, p)
                stats.case("vfunc%d" % n, cls="vfunc")
                if r.status != "ok" or read_strs(r) != lines or rb.status != "ok" or back[0] != "ok" or [float(x) for x in read_strs(rb)] != list(back[1]):
                    fails.append(core.Failure("correspondence", "vfunc files vs model", "n=%d" % n, dict(kind="vfunc", lines=lines)))
        return fails

    # ---- oracle: round trips and truncations on the implementation
    def search_cases(self):
        rng = gen.rng_for(self.seed, "c14s")
        for c in gen.tria_stream(self.seed + 163, 6 if self.quick else 40, "small"):
            yield dict(kind="rt3", v=c["v"], t=c["t"], name=c["name"])
        for c in gen.tet_stream(self.seed + 164, 3 if self.quick else 20, "small"):
            if len(c["t"]) >= 2:
                yield dict(kind="rt4", v=c["v"], t=c["t"], name=c["name"])
        for d in ev_cases(rng, 6 if self.quick else 40):
            yield dict(kind="ev", d=d)
        # many generic float64 coordinates: rounding to single precision must happen once (at reading), never twice
        bv, bt = gen.icosphere(2)
        yield dict(kind="rt3", v=bv * rng.uniform(0.3, 90.0, 3) + rng.normal(size=3), t=bt, name="icosphere2-generic")
        yield dict(kind="foreign")
        yield dict(kind="fs")

    def oracle(self, case):
        kind = case["kind"]
        with Tmp() as tmp:
            if kind in ("rt3", "rt4"):
                v = np.asarray(case["v"], float); t = np.asarray(case["t"], dtype=np.int64)
                cls = TriaMesh if kind == "rt3" else TetMesh
                p = tmp.path("m.vtk")
                with core.quiet():
                    m = cls(v, t); m.write_vtk(p)
                back = core.call(cls.read_vtk, p)
                if back[0] != "ok" or back[1] is None:
                    return core.Violation("roundtrip", "written VTK file cannot be read back: %s" % (back[1:],), case)
                b = back[1]
                if not np.array_equal(b.t, t) or not np.array_equal(np.asarray(b.v, dtype=np.float32), v.astype(np.float32)):
                    return core.Violation("roundtrip", "read-back mesh differs (connectivity equal: %s)" % np.array_equal(b.t, t), case)
                lines = file_lines(p)
                vstart = 5; estart = 6 + len(v)
                for cut in range(vstart + 1, len(lines)):
                    if cut == estart or cut == estart - 1:
                        pass
                    r = lapy_read("vtk3" if kind == "rt3" else "vtk4", lines[:cut], tmp, ".vtk")
                    if r[0] == "ok":
                        return core.Violation("truncation", "file truncated after %d of %d lines still yields a mesh" % (cut, len(lines)), dict(case, cut=cut))
                other = TetMesh if kind == "rt3" else TriaMesh
                r = core.call(other.read_vtk, p)
                if r[0] == "ok" and r[1] is not None:
                    return core.Violation("wrong-kind", "file of the other mesh kind is accepted", case)
                return None
            if kind == "ev":
                d = case["d"]
                d = {k: (np.asarray(v) if k in ("Eigenvalues", "Eigenvectors") else v) for k, v in d.items()}
                p = tmp.path("a.ev")
                lio.write_ev(p, d)
                back = core.call(lio.read_ev, p)
                if back[0] != "ok":
                    return core.Violation("ev", "read_ev raised %s on a file written by write_ev" % (back[1:],), dict(kind="ev", fields=sorted(d)))
                b = back[1]
                for k, val in d.items():
                    if k == "Eigenvectors":
                        if "Eigenvectors" not in b or not np.array_equal(np.asarray(b[k]).reshape(np.shape(val)).astype(np.asarray(val).dtype), val):
                            return core.Violation("ev", "eigenvectors of shape %s not read back bit-exactly" % (np.shape(val),), dict(kind="ev", fields=sorted(d)))
                    elif k == "Eigenvalues":
                        if not np.array_equal(np.asarray(b[k]).astype(np.asarray(val).dtype), val):
                            return core.Violation("ev", "eigenvalues not read back bit-exactly", dict(kind="ev", fields=sorted(d)))
                    elif b.get(k) != val:
                        return core.Violation("ev", "field %s not read back (%r vs %r)" % (k, b.get(k), val), dict(kind="ev", fields=sorted(d)))
                # history: read, crop to fewer modes, write again, read again
                d2 = crop_ev(b, d)
                if d2 is not None:
                    lio.write_ev(p, d2)
                    back2 = core.call(lio.read_ev, p)
                    if back2[0] != "ok":
                        return core.Violation("ev", "read_ev raised %s on a file written from a cropped read_ev dictionary" % (back2[1:],), dict(kind="ev", fields=sorted(d)))
                    b2 = back2[1]
                    for k in ("Eigenvalues", "Eigenvectors"):
                        if k in d2 and (k not in b2 or not np.array_equal(np.asarray(b2[k]).reshape(np.shape(d2[k])), np.asarray(d2[k]))):
                            return core.Violation("ev", "%s of a dictionary that came from read_ev and was cropped to %s are not read back after write_ev"
                                                  % (k.lower(), np.shape(d2[k]),), dict(kind="ev", fields=sorted(d)))
                vals = np.array([1.5, -2.25, 1e-7, 3.0])
                p2 = tmp.path("a.psol"); lio.write_vfunc(p2, vals)
                r = core.call(lio.read_vfunc, p2)
                if r[0] != "ok" or list(r[1]) != list(vals):
                    return core.Violation("vfunc", "vertex function not read back", dict(kind="vfunc"))
                return None
            if kind == "foreign":
                rng = gen.rng_for(self.seed, "c14f")
                for k2, lines, nm, exp in foreign_expected(rng):
                    r = lapy_read(k2, lines, tmp, ".msh" if k2 == "gmsh" else (".off" if k2 == "off" else ".vtk"))
                    if exp is None:
                        if r[0] == "ok":
                            return core.Violation("foreign", "%s: malformed / wrong-kind file accepted" % nm, dict(kind="foreign", name=nm))
                    elif r[0] != "ok" or not np.array_equal(r[2], exp[1]) or not np.array_equal(np.asarray(r[1], np.float32), exp[0].astype(np.float32)):
                        return core.Violation("foreign", "%s: file does not load to the mesh it describes (%s)" % (nm, r[0]), dict(kind="foreign", name=nm))
                return None
            if kind == "fs":
                v, t = gen.icosphere(1)
                info = {"head": np.array([2, 0, 20], dtype=np.int32), "valid": "1  # volume info valid", "filename": "x.mgz", "volume": np.array([256, 256, 256]),
                        "voxelsize": np.array([1.0, 1.0, 1.0]), "xras": np.array([-1.0, 0, 0]), "yras": np.array([0, 0, -1.0]), "zras": np.array([0, 1.0, 0]),
                        "cras": np.array([0.5, -3.0, 2.0])}
                info0 = dict(info, valid="0  # volume info invalid", head=np.array([20], dtype=np.int32))
                for fsinfo in (None, info, info0, None):       # (the last one: a header-less file read AFTER files with headers)
                    p = tmp.path("lh.surf")
                    with core.quiet():
                        m = TriaMesh(v * 40, t, fsinfo=fsinfo)
                    w = core.call(m.write_fssurf, p)
                    if w[0] != "ok":
                        return core.Violation("fs", "write_fssurf raised %s" % (w[1:],), dict(kind="fs"))
                    b = core.call(TriaMesh.read_fssurf, p)
                    if b[0] != "ok" or not np.array_equal(b[1].t, t) or not np.array_equal(np.asarray(b[1].v, np.float32), (v * 40).astype(np.float32)):
                        return core.Violation("fs", "FreeSurfer surface not read back identically", dict(kind="fs"))
                    if fsinfo is None and b[1].fsinfo:
                        return core.Violation("fs", "a surface written without header reads back with header fields %s (left over from a file read before)" % sorted(b[1].fsinfo)[:4], dict(kind="fs"))
                    if fsinfo is not None:          # every field of the header dictionary comes back
                        got = b[1].fsinfo or {}
                        for key, val in fsinfo.items():
                            if key not in got:
                                return core.Violation("fs", "header field `%s` (header with valid = %r) is lost in a write / read round trip" % (key, fsinfo["valid"]), dict(kind="fs"))
                            same = (str(got[key]).strip() == str(val).strip()) if isinstance(val, str) else np.allclose(np.asarray(got[key], float), np.asarray(val, float), rtol=1e-6, atol=0)
                            if not same:
                                return core.Violation("fs", "header field `%s` reads back as %r, written %r" % (key, got[key], val), dict(kind="fs"))
                    # truncated or wrong-kind files never yield a different mesh
                    data = open(p, "rb").read()
                    mesh_end = 3 + data.index(b"\n\n") - 3 + 2 + 8 + 12 * len(v) + 12 * len(t)
                    for cut in list(range(0, mesh_end, max(1, mesh_end // 60))) + [mesh_end - 1]:
                        with open(p, "wb") as f:
                            f.write(data[:cut])
                        bb = core.call(TriaMesh.read_fssurf, p)
                        if bb[0] == "ok" and bb[1] is not None:
                            return core.Violation("truncation", "FreeSurfer file truncated after %d of %d bytes still yields a mesh" % (cut, len(data)), dict(kind="fs"))
                    with open(p, "wb") as f:
                        f.write(b"\xff\xff\xfd" + data[3:])
                    if core.call(TriaMesh.read_fssurf, p)[0] == "ok":
                        return core.Violation("wrong-kind", "file with a wrong magic number accepted as FreeSurfer surface", dict(kind="fs"))
                    if fsinfo is not None:
                        bi = b[1].fsinfo
                        for key in ("volume", "voxelsize", "xras", "yras", "zras", "cras"):
                            if bi is None or not np.allclose(np.asarray(bi[key], float), np.asarray(info[key], float)):
                                return core.Violation("fs", "header field %s not preserved" % key, dict(kind="fs"))
                return None
        return None


def fs_cases(rng, n):
    """small triangle meshes with FreeSurfer header dictionaries (none / [20] / [2,0,20]) and creation stamps"""
    out = []
    for k in range(n):
        v, t = [gen.octahedron(), gen.grid(2, 2), gen.icosphere(1), gen.tetra_surface()][k % 4]
        v = np.asarray(v, float) * float(rng.choice([1.0, 37.5, 1e-3])) + rng.normal(size=3)
        info = None
        if k % 3:
            info = {"head": np.array([20] if k % 3 == 1 else [2, 0, 20], dtype=np.int32),
                    "valid": ["1  # volume info valid", "0  # volume info invalid", "1  # volume info valid", "0"][k % 4], "filename": "../mri/filled-pretess%d.mgz" % k,
                    "volume": np.array([256, 256, 128 + k]), "voxelsize": rng.uniform(0.5, 1.5, 3), "xras": np.array([-1.0, 0, 0]), "yras": np.array([0, 0, -1.0]),
                    "zras": np.array([0, 1.0, 0]), "cras": rng.normal(size=3) * 10}
        out.append(dict(v=v, t=t, info=info, stamp=["created by someone on Tue Jan  1 00:00:00 2030", "", "x"][k % 3], name=["octa", "grid", "ico1", "tetra"][k % 4]))
    return out


def foreign_expected(rng):
    """(reader kind, lines, name, expected (v,t) or None=must fail)"""
    out = []
    v, t = gen.grid(2, 2)
    v = v + rng.normal(size=v.shape) * 0.1
    pts = [" ".join(repr(float(x)) for x in row) for row in v]
    # CELLS keyword, comments, double
    lines = ["# vtk DataFile Version 3.0", "# a comment", "made by another tool", "ASCII", "DATASET UNSTRUCTURED_GRID", "POINTS %d double" % len(v)] + pts + \
            ["CELLS %d %d" % (len(t), 4 * len(t))] + ["3 %d %d %d" % tuple(r) for r in t]
    out.append(("vtk3", lines, "vtk-cells-double", (v, t)))
    # all points on two lines
    lines2 = ["# vtk DataFile Version 2.0", "x", "ASCII", "DATASET POLYDATA", "POINTS %d float" % len(v), " ".join(pts[:4]), " ".join(pts[4:]),
              "POLYGONS %d %d" % (len(t), 4 * len(t)), " ".join("3 %d %d %d" % tuple(r) for r in t)]
    out.append(("vtk3", lines2, "vtk-packed-lines", (v, t)))
    # triangle strips
    sv = np.array([[0, 0, 0], [1, 0, 0], [0, 1, 0], [1, 1, 0], [0, 2, 0], [1, 2, 0]], float)
    st = np.array([[0, 1, 2], [2, 1, 3], [2, 3, 4], [4, 3, 5]])
    lines3 = ["# vtk DataFile Version 1.0", "x", "ASCII", "DATASET POLYDATA", "POINTS 6 float"] + [" ".join(str(x) for x in r) for r in sv] + \
             ["TRIANGLE_STRIPS 1 7", "6 0 1 2 3 4 5"]
    out.append(("vtk3", lines3, "vtk-strips", (sv, st)))
    # several strips of different (odd and even) lengths: the winding alternates within each strip, starting afresh in every strip
    for rep in range(3):
        nvs = 12
        pv = np.column_stack([np.arange(nvs) % 4, np.arange(nvs) // 4, 0.1 * rng.normal(size=nvs)]).astype(float) + 0.05 * rng.normal(size=(nvs, 3))
        strips = []
        for _ in range(int(rng.integers(2, 5))):
            ln = int(rng.integers(3, 8))
            strips.append([int(x) for x in rng.permutation(nvs)[:ln]])
        tri = []
        for sx in strips:
            for i in range(len(sx) - 2):
                tri.append([sx[i], sx[i + 1], sx[i + 2]] if i % 2 == 0 else [sx[i + 1], sx[i], sx[i + 2]])
        if len(tri) < 4:
            continue
        lns = ["# vtk DataFile Version 1.0", "strips", "ASCII", "DATASET POLYDATA", "POINTS %d float" % nvs] + [" ".join(repr(float(x)) for x in r) for r in pv] + \
              ["TRIANGLE_STRIPS %d %d" % (len(strips), sum(len(sx) + 1 for sx in strips))] + ["%d %s" % (len(sx), " ".join(str(x) for x in sx)) for sx in strips]
        out.append(("vtk3", lns, "vtk-multi-strips-%d" % rep, (pv, np.array(tri))))
    # OFF
    lo = ["OFF", "%d %d 0" % (len(v), len(t))] + pts + ["3 %d %d %d" % tuple(r) for r in t]
    out.append(("off", lo, "off", (v, t)))
    out.append(("off", ["# c"] + lo, "off-comment", (v, t)))
    out.append(("off", lo[:-2], "off-truncated", None))
    # Gmsh 2.2 ASCII (1-based)
    tv, tt = gen.cube5()
    lg = ["$MeshFormat", "2.2 0 8", "$EndMeshFormat", "$Nodes", str(len(tv))] + ["%d %s" % (i + 1, " ".join(repr(float(x)) for x in p)) for i, p in enumerate(tv)] + \
         ["$EndNodes", "$Elements", str(len(tt))] + ["%d 4 2 0 1 %d %d %d %d" % ((i + 1,) + tuple(int(x) + 1 for x in q)) for i, q in enumerate(tt)] + ["$EndElements"]
    out.append(("gmsh", lg, "gmsh22", (tv, tt)))
    out.append(("gmsh", lg[:-3], "gmsh-truncated", None))
    # files whose first / middle / last nodes are referenced by no tetrahedron (geometry points of the CAD model), sub-collections of the
    # tetrahedra, other numbers of tags: node number - 1 is the index, whatever the smallest referenced node is
    for nm2, lead, trail, ntag, sel in (("gmsh-leading-free-nodes", 2, 0, 2, slice(None)), ("gmsh-trailing-free-nodes", 0, 2, 3, slice(None)),
                                        ("gmsh-first-node-unused-subset", 1, 1, 0, slice(1, None))):
        tv2 = np.vstack([np.full((lead, 3), -7.5), tv, np.full((trail, 3), 9.25)])
        tt2 = np.asarray(tt)[sel] + lead
        tags = {0: "0", 2: "2 0 1", 3: "3 0 1 4"}[ntag]
        lg2 = ["$MeshFormat", "2.2 0 8", "$EndMeshFormat", "$Nodes", str(len(tv2))] + ["%d %s" % (i + 1, " ".join(repr(float(x)) for x in p)) for i, p in enumerate(tv2)] + \
              ["$EndNodes", "$Elements", str(len(tt2))] + ["%d 4 %s %d %d %d %d" % ((i + 1, tags) + tuple(int(x) + 1 for x in q)) for i, q in enumerate(tt2)] + ["$EndElements"]
        out.append(("gmsh", lg2, nm2, (tv2, tt2)))
    # wrong kind / malformed
    out.append(("vtk4", lines, "tri-file-to-tet-reader", None))
    out.append(("vtk3", lines[:3] + ["BINARY"] + lines[4:], "vtk-binary", None))
    out.append(("vtk3", lines[:-1] + ["3 0 1"], "vtk-short-last-row", None))
    return out


def foreign_files(rng):
    for kind, lines, nm, _ in foreign_expected(rng):
        yield kind, lines, nm


def crop_ev(back, orig):
    """what a user does with a spectrum loaded by read_ev: keep fewer modes (all keys the reader added stay in the dictionary)"""
    if "Eigenvectors" not in back or "Eigenvalues" not in back:
        return None
    ev = np.asarray(back["Eigenvectors"]); lam = np.asarray(back["Eigenvalues"]).reshape(-1)
    if ev.ndim != 2:
        ev = ev.reshape(np.shape(orig["Eigenvectors"]))
    n, k = ev.shape
    d2 = dict(back)
    if k >= 2:
        d2["Eigenvalues"] = lam[:k - 1].copy(); d2["Eigenvectors"] = ev[:, :k - 1].copy()
    elif n >= 2:
        d2["Eigenvectors"] = ev[:n - 1, :].copy()
    else:
        return None
    return d2


def ev_cases(rng, n):
    texts = [("tool x", "a/b.vtk", "me"), ("LaPy: ShapeDNA 1.2", "C:\\data\\lh.white.vtk", "dzne:builder"), ("x = y # z", "cluster:/scratch/lh.pial", "a;b,c"),
             ("12:30:05", "f {1} (2)", "u")]
    keys = [("Creator", None), ("File", None), ("User", None), ("Refine", 0), ("Degree", 1), ("Dimension", 2), ("Elements", 20), ("DoF", 12),
            ("NumEW", 3), ("Area", 12.566), ("Volume", 4.18879), ("BLength", 0.0), ("EulerChar", 2), ("TimePre", 3), ("TimeCalcAB", 5), ("TimeCalcEW", 7)]
    for i in range(n):
        txt = dict(zip(("Creator", "File", "User"), texts[i % len(texts)]))          # header strings with ':', '=', '#', ';', brackets
        d = {k: (txt[k] if v is None else v) for k, v in keys if rng.random() < 0.6}
        k = [1, 1, 2, 3, 5][i % 5]
        nrow = [1, 4, 6, 1, 3][(i // 2) % 5]
        dt = np.float32 if i % 3 == 0 else np.float64
        mag = [1.0, 1.0, 1e18, 1e-20, 3e6][i % 5]          # tiny units give huge eigenvalues: printed with exponents e+NN / e-NN
        d["Eigenvalues"] = (np.abs(rng.normal(size=k)) * mag).astype(dt)
        if i % 7 == 3:
            d["Eigenvalues"][0] = -d["Eigenvalues"][0] * 1e-3
        if i % 4 != 3:
            d["Eigenvectors"] = (rng.normal(size=(nrow, k)) * [1.0, 1e17, 1e-12][i % 3]).astype(dt)
        yield d
