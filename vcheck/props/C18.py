"""C18 — spherical conformal map: unit sphere, orientation kept, exact building blocks."""
import numpy as np

from .. import repo, core, gen, wire, capture, extract
from ..base import BaseCheck
from lapy import TriaMesh, conformal


def cfl(z):
    z = np.asarray(z, dtype=complex).reshape(-1)
    return "%d %s" % (len(z), " ".join("%s %s" % (wire.fhex(a.real), wire.fhex(a.imag)) for a in z)) if len(z) else "0"


def rawc(z):
    z = np.asarray(z, dtype=complex).reshape(-1)
    return " ".join("%s %s" % (wire.fhex(a.real), wire.fhex(a.imag)) for a in z)


def read_cs(r):
    n = r.nat()
    return np.array([complex(r.flt(), r.flt()) for _ in range(n)])


def genus0(seed, n, size="small"):
    """perturbed icospheres / ellipsoids with >= 162 vertices (the method folds on coarser meshes: recorded finding F17)"""
    for k in range(n):
        rng = gen.rng_for(seed, "c18", k)
        v, t = gen.icosphere(2 if (k % 3) else 3) if size != "small" else gen.icosphere(2)
        v = v * rng.uniform(0.7, 1.5, 3) + 0.01 * rng.normal(size=v.shape)
        if k % 2:
            v = v * (1 + 0.2 * np.sin(3 * v[:, [0]]) * np.cos(2 * v[:, [1]]))
        yield dict(v=v, t=t, name="ellipsoid" if k % 2 == 0 else "bumpy", pres=gen.PRES[int(rng.integers(0, len(gen.PRES)))])


def coarse_case():
    """the coarse mesh of finding F17"""
    v, t = gen.icosphere(1)
    return v * np.array([1.0, 1.5, 0.8]) + 0.02 * np.cos(10 * v[:, [1, 2, 0]]), t


def planar_mesh(rng):
    if rng.random() < 0.5:
        v, t = gen.delaunay_patch(rng, int(rng.integers(8, 16)))
    else:
        v, t = gen.grid(int(rng.integers(2, 4)), int(rng.integers(2, 4)))
        v = v + np.column_stack([0.1 * rng.normal(size=(len(v), 2)), np.zeros(len(v))])
    if rng.random() < 0.5:
        t = gen.flip_some(rng, t, 0.5)        # mixed winding: derivatives of the linear interpolant do not depend on it
    return v, t


def near_pole(s, j, ang):
    """the points s (rows, on the unit sphere) rotated so that point j lies at polar angle `ang` from the north pole"""
    a = np.asarray(s[j], float) / np.linalg.norm(s[j])
    b = np.array([np.sin(ang), 0.0, np.cos(ang)])
    w = np.cross(a, b); c = float(a @ b)
    if np.linalg.norm(w) < 1e-14:
        return np.array(s, float)
    K = np.array([[0, -w[2], w[1]], [w[2], 0, -w[0]], [-w[1], w[0], 0]])
    R = np.eye(3) + K + K @ K / (1.0 + c)
    return np.asarray(s, float) @ R.T


class Check(BaseCheck):
    id = "C18"
    audit_mod = "LapyVerif.Audit.C18"
    rule = ("closed genus-0 meshes (perturbed icospheres / ellipsoids, so that the most regular triangle is unique) x similarity transforms; random "
            "points for the projection pair; planar Delaunay / grid meshes x complex (a,b) with |b|<|a| x random embeddings for the Beltrami "
            "coefficient; piecewise-constant coefficients with all boundary vertices as landmarks for linear_beltrami_solver (matrix and right-hand "
            "side captured); Moebius correction with captured optimiser result; other Euler characteristics for the ValueError branch")
    trusted = ["SuperLU solves of the harmonic / quasi-conformal systems (complex) — assumed, monitored by residual", "scipy.optimize.minimize (L-BFGS-B): does "
               "not increase the objective — monitored", "orientation preservation of the harmonic and quasi-conformal steps is analytic: monitored (sphere volume > 0), not proved"]
    assumptions = ["PARTIAL (see trusted base); runs under the installed NumPy (finding F4 repaired)"]

    def translate(self):
        extract.gen_misc()

    def correspond(self, drv, stats):
        fails = []
        rng = gen.rng_for(self.seed, "c18c")
        # projection pair
        for k in range(6 if self.quick else 600):
            u = rng.normal(size=(int(rng.integers(3, 9)), 3)); u /= np.linalg.norm(u, axis=1)[:, None]
            w = rng.normal(size=len(u)) + 1j * rng.normal(size=len(u))
            if k % 2:          # south pole, points next to it, the plane origin, far-away plane points
                e = 10.0 ** rng.uniform(-9, -4)
                u[0] = [0.0, 0.0, -1.0]; u[1] = [e, 0.0, -np.sqrt(1 - e * e)]
                w[0] = 0.0; w[1] = 10.0 ** rng.uniform(-9, -5); w[2] = w[2] * 10.0 ** rng.uniform(3, 6)
            stats.case("stereo%d" % k, cls="stereographic", sample=dict(points=len(u)) if k == 0 else None)
            rs = wire.Reply(drv.ask("stereo %s" % wire.verts(u)))
            ri = wire.Reply(drv.ask("invstereo %s" % cfl(w)))
            if core.relerr(np.column_stack([conformal.stereographic(u).real, conformal.stereographic(u).imag]),
                           np.column_stack([read_cs(rs).real, read_cs(wire.Reply(drv.ask("stereo %s" % wire.verts(u)))).imag])) > 1e-12 \
                    or not np.all(np.isfinite(conformal.stereographic(u))):
                fails.append(core.Failure("correspondence", "stereographic vs model", "", dict(kind="stereo", u=u)))
            if core.relerr(conformal.inverse_stereographic(w), ri.v3s()) > 1e-12:
                fails.append(core.Failure("correspondence", "inverse_stereographic vs model", "", dict(kind="stereo", w=np.column_stack([w.real, w.imag]))))
        # beltrami + linear beltrami solver
        for k in range(8 if self.quick else 800):
            v, t = planar_mesh(rng)
            a = complex(rng.normal(), rng.normal()) * float(rng.choice([1.0, 1.0, 1e-7, 1e4]))      # the coefficient is scale free
            b = 0.6 * abs(a) * rng.uniform(0, 1) * np.exp(1j * rng.uniform(0, 6.28))
            z = v[:, 0] + 1j * v[:, 1]
            wz = a * z + b * np.conj(z)
            Q = gen.random_rotation(rng, reflect=False)
            if k % 4 == 1:          # the target plane stays horizontal but is turned over (half turn about an axis in the plane), or is not rotated at all
                ang = rng.uniform(0, np.pi); ax = np.array([np.cos(ang), np.sin(ang), 0.0])
                Q = 2 * np.outer(ax, ax) - np.eye(3)
            elif k % 4 == 3:
                Q = np.eye(3)
            emb = np.column_stack([wz.real, wz.imag, np.zeros(len(v))]) @ Q.T + abs(a) * rng.uniform(-1, 1, 3) * (np.array([1.0, 1.0, 0.0]) if k % 8 == 1 else 1.0)
            case = dict(kind="beltrami", v=v, t=t, a=[a.real, a.imag], b=[b.real, b.imag], emb=emb, name="planar")
            stats.case(core.mesh_key(v, t, a, b), cls=["beltrami"], sample=dict(nv=len(v), a=str(a), b=str(b)) if k == 0 else None)
            with core.quiet():
                pm = TriaMesh(v, t)
            mu_i = core.call(conformal.beltrami_coefficient, pm, emb)
            r = wire.Reply(drv.ask("beltrami %s %s %s" % (wire.verts(v), wire.elems(t), wire.verts(emb))))
            if mu_i[0] != "ok" or r.status != "ok" or np.max(np.abs(np.asarray(mu_i[1]) - read_cs(r))) > 1e-9:
                fails.append(core.Failure("correspondence", "beltrami_coefficient vs model", str(mu_i)[:100], case)); continue
            mu = np.asarray(mu_i[1])
            from .C05 import boundary_vertices
            lm = np.array(boundary_vertices(t))
            lm = [lm, lm[::-1].copy(), np.roll(lm, len(lm) // 3), lm[np.argsort(np.sin(7.0 * lm + k))]][k % 4]     # landmark order is the caller's
            target = np.column_stack([wz.real[lm], wz.imag[lm]])
            with core.quiet():
                with capture.capture() as calls:
                    mp = core.call(conformal.linear_beltrami_solver, pm, mu, lm, target)
            r2 = wire.Reply(drv.ask("lbs %s %s %s %s %s" % (wire.verts(v), wire.elems(t), rawc(mu), wire.nats(lm), rawc(target[:, 0] + 1j * target[:, 1]))))
            if mp[0] != "ok" or r2.status != "ok" or len(calls.splu) != 1:
                fails.append(core.Failure("correspondence", "linear_beltrami_solver vs model", str(mp)[:100], case)); continue
            am = core.sparse_from(*r2.coo(), len(v)); bre = r2.floats(); bim = r2.floats()
            ai = calls.splu[0]["a"]; bi, xi = calls.splu[0]["solves"][0]
            bi = np.asarray(bi).reshape(-1)
            if np.max(np.abs(ai.imag)) > 0 or core.sparse_relerr(ai.real.tocsc(), am) > 1e-9 or np.max(np.abs(bi.real - bre)) > 1e-9 * max(1, np.abs(bre).max()) \
                    or np.max(np.abs(bi.imag - bim)) > 1e-9 * max(1, np.abs(bim).max()):
                fails.append(core.Failure("correspondence", "linear_beltrami_solver: system vs model", "matrix rel.err %.3g" % core.sparse_relerr(ai.real.tocsc(), am), case))
            stats.monitor("lbs solve residual checked")
            if np.max(np.abs(ai @ np.asarray(xi).reshape(-1) - bi)) > 1e-8 * max(1, np.abs(bi).max()):
                fails.append(core.Failure("monitor", "splu solve contract (complex)", "", case))
        # Euler guard and landmark count
        for (nm, (v, t)) in (("torus", gen.torus(4, 4)), ("grid", gen.grid(2, 2)), ("two-spheres", gen.union(gen.icosphere(0), gen.octahedron()))):
            with core.quiet():
                m = TriaMesh(v, t); e = m.euler()
            res = core.call(conformal.spherical_conformal_map, m)
            r = drv.ask("scm_guard %d %d" % (e, len(v)))
            stats.case("guard" + nm, cls="euler-guard")
            if (res[0] == "err" and res[1] == "ValueError") != r.startswith("err ValueError"):
                fails.append(core.Failure("correspondence", "Euler guard vs model", "%s euler %d: impl %s model %s" % (nm, e, res[:2], r)))
        # whole map on a genus-0 mesh: landmark count, unit norm, Moebius step
        for case in genus0(self.seed + 141, 2 if self.quick else 40):
            v, t = case["v"], case["t"]
            gen.use(case)
            with core.quiet():
                m = TriaMesh(v, t); m.orient_()
            seen = {}
            real_lbs = conformal.linear_beltrami_solver

            def spy(tria, mu, landmark, target, use_cholmod=False):
                seen["n"] = len(landmark)
                return real_lbs(tria, mu, landmark, target, use_cholmod=use_cholmod)
            conformal.linear_beltrami_solver = spy
            try:
                res = core.call(conformal.spherical_conformal_map, m)
            finally:
                conformal.linear_beltrami_solver = real_lbs
            stats.case(core.mesh_key(v, t), cls=["scm:" + case["name"]], sample=dict(name=case["name"], nv=len(v)))
            r = drv.ask("scm_guard 2 %d" % len(v))
            if res[0] != "ok" or r != "ok %d" % seen.get("n", -1):
                fails.append(core.Failure("correspondence", "spherical_conformal_map: landmark count vs model", "impl %s landmarks %s model %s" % (res[0], seen.get("n"), r), dict(case, kind="scm")))
                continue
            # the sphere map as returned, and the same map rotated so that one vertex lies 1e-4 rad from the projection pole
            for sph in (res[1], near_pole(res[1], len(res[1]) // 3, 1e-4)):
                with core.quiet():
                    with capture.capture() as calls:
                        mob = core.call(conformal.mobius_area_correction_spherical, m, sph)
                if mob[0] == "ok" and calls.minimize:
                    x = calls.minimize[0]["result"].x
                    z = conformal.stereographic(sph)
                    rm = wire.Reply(drv.ask("mobius %s %s" % (rawc([x[0] + 1j * x[1], x[2] + 1j * x[3], x[4] + 1j * x[5], x[6] + 1j * x[7]]), cfl(z))))
                    if core.relerr(mob[1][0], rm.v3s()) > 1e-9:
                        fails.append(core.Failure("correspondence", "mobius_area_correction_spherical vs model", "", dict(case, kind="scm")))
                    fun = calls.minimize[0]["fun"]
                    stats.monitor("minimize monitored")
                    if fun(calls.minimize[0]["result"].x) > fun(calls.minimize[0]["x0"]) + 1e-12:
                        fails.append(core.Failure("monitor", "minimize does not increase the objective", "", dict(case, kind="scm")))
                    # the objective handed to the optimiser is the model's area-distortion objective (at the start, at the result, at a random point)
                    for xx in (calls.minimize[0]["x0"], x, np.asarray(x) + 0.05 * gen.rng_for(self.seed, "c18obj").normal(size=8)):
                        xx = np.asarray(xx, float)
                        ro = wire.Reply(drv.ask("darea %s %s %s %s" % (wire.verts(m.v), wire.elems(m.t), rawc([xx[0] + 1j * xx[1], xx[2] + 1j * xx[3], xx[4] + 1j * xx[5], xx[6] + 1j * xx[7]]), wire.verts(sph))))
                        if ro.status != "ok" or abs(float(fun(xx)) - ro.flt()) > 1e-9 * max(1.0, abs(float(fun(xx)))):
                            fails.append(core.Failure("correspondence", "Moebius area-distortion objective vs model", "at x=%s: implementation %.10g" % (np.round(xx, 3).tolist(), float(fun(xx))), dict(case, kind="scm")))
                            break
                    stats.monitor("Moebius objective compared with the model")
        return fails

    def known_finding(self, k):
        v, t = coarse_case()
        r = self.oracle(dict(kind="scm", v=v, t=t, name="coarse"))
        return r is not None and r.clause == "orientation"

    # ---- oracle
    def search_cases(self):
        rng = gen.rng_for(self.seed, "c18s")
        for k in range(6):
            u = rng.normal(size=(8, 3)); u /= np.linalg.norm(u, axis=1)[:, None]
            if k % 2:       # the south pole (a regular point of the projection from the north pole), points close to it, the plane origin
                u[0] = [0.0, 0.0, -1.0]; e = 10.0 ** rng.uniform(-9, -4); u[1] = [e, 0.0, -np.sqrt(1 - e * e)]
                w = rng.normal(size=(8, 2)); w[0] = [0.0, 0.0]; w[1] = [10.0 ** rng.uniform(-9, -5), 0.0]; w[2] = 10.0 ** rng.uniform(3, 6) * w[2]
                yield dict(kind="stereo", u=u, w=w)
                continue
            yield dict(kind="stereo", u=u, w=rng.normal(size=(8, 2)))
        for k in range(8 if self.quick else 40):
            v, t = planar_mesh(rng)
            a = complex(rng.normal(), rng.normal()) * float(rng.choice([1.0, 1.0, 1e-7, 1e4]))      # the coefficient is scale free
            b = 0.6 * abs(a) * rng.uniform(0, 1) * np.exp(1j * rng.uniform(0, 6.28))
            Q = gen.random_rotation(rng, reflect=False)
            wz = a * (v[:, 0] + 1j * v[:, 1]) + b * np.conj(v[:, 0] + 1j * v[:, 1])
            yield dict(kind="beltrami", v=v, t=t, a=[a.real, a.imag], b=[b.real, b.imag],
                       emb=np.column_stack([wz.real, wz.imag, np.zeros(len(v))]) @ Q.T + abs(a) * rng.uniform(-1, 1, 3), name="planar")
        for case in genus0(self.seed + 142, 2 if self.quick else 10):
            yield dict(case, kind="scm")
        yield dict(kind="guard")

    def oracle(self, case):
        kind = case["kind"]
        if kind == "stereo":
            u = np.asarray(case["u"], float) if "u" in case else None
            if u is not None:
                back = conformal.inverse_stereographic(conformal.stereographic(u))
                if np.max(np.abs(back - u)) > 1e-9:
                    return core.Violation("stereographic", "inverse_stereographic(stereographic(u)) != u", case)
            if "w" in case:
                w = np.asarray(case["w"], float); wc = w[:, 0] + 1j * w[:, 1]
                s = conformal.inverse_stereographic(wc)
                # points far out in the plane map next to the projection centre: 1 - z cancels, the round trip loses ~|w|^2 digits there
                if np.max(np.abs(np.linalg.norm(s, axis=1) - 1)) > 1e-12 or np.any(np.abs(conformal.stereographic(s) - wc) > 1e-10 * (1 + np.abs(wc) ** 3)) \
                        or not np.all(np.isfinite(conformal.stereographic(s))):
                    return core.Violation("stereographic", "stereographic(inverse_stereographic(w)) != w or not on the unit sphere", case)
            return None
        if kind == "beltrami":
            v = np.asarray(case["v"], float); t = np.asarray(case["t"], dtype=np.int64); emb = np.asarray(case["emb"], float)
            a = complex(*case["a"]); b = complex(*case["b"])
            with core.quiet():
                pm = TriaMesh(v, t)
            mu = core.call(conformal.beltrami_coefficient, pm, emb)
            if mu[0] != "ok" or np.max(np.abs(np.asarray(mu[1]) - b / a)) > 1e-8:
                return core.Violation("beltrami", "Beltrami coefficient of z -> a z + b conj(z) is not b/a: %s" % (str(mu)[:80],), case)
            from .C05 import boundary_vertices
            lm = np.array(boundary_vertices(t))
            z = v[:, 0] + 1j * v[:, 1]; wz = a * z + b * np.conj(z)
            for oname, lm in (("ascending", lm), ("descending", lm[::-1].copy()), ("boundary order rotated", np.roll(lm, len(lm) // 3)),
                              ("shuffled", lm[np.argsort(np.sin(7.0 * lm))])):
                mp = core.call(conformal.linear_beltrami_solver, pm, np.full(len(t), b / a), lm, np.column_stack([wz.real[lm], wz.imag[lm]]))
                if mp[0] != "ok":
                    return core.Violation("lbs", "linear_beltrami_solver raised %s (landmarks %s)" % (mp[1:], oname), case)
                got = mp[1][:, 0] + 1j * mp[1][:, 1]
                if np.max(np.abs(got[lm] - wz[lm])) > 1e-12 * max(1, np.abs(wz).max()):
                    return core.Violation("lbs", "landmarks (%s) not reproduced exactly" % oname, case)
                if np.max(np.abs(got - wz)) > 1e-7 * max(1, np.abs(wz).max()):
                    return core.Violation("lbs", "piecewise-affine map with the given coefficient not reproduced (landmarks %s, max dev %.3g)" % (oname, np.max(np.abs(got - wz))), case)
            return None
        if kind == "guard":
            for (v, t) in (gen.torus(4, 4), gen.grid(2, 2), gen.union(gen.icosphere(0), gen.octahedron())):
                with core.quiet():
                    m = TriaMesh(v, t)
                res = core.call(conformal.spherical_conformal_map, m)
                if not (res[0] == "err" and res[1] == "ValueError"):
                    return core.Violation("euler-guard", "mesh with Euler characteristic %d not rejected with ValueError" % m.euler(), case)
            return None
        # whole map
        v = np.asarray(case["v"], float); t = np.asarray(case["t"], dtype=np.int64)
        with core.quiet():
            m = TriaMesh(v, t); m.orient_()
        res = core.call(conformal.spherical_conformal_map, m)
        if res[0] != "ok":
            return core.Violation("scm", "spherical_conformal_map raised %s" % (res[1:],), case)
        s = res[1]
        if not np.all(np.isfinite(s)) or np.max(np.abs(np.linalg.norm(s, axis=1) - 1)) > 1e-9:
            return core.Violation("unit-sphere", "output not finite points of norm 1", case)
        with core.quiet():
            sm = TriaMesh(s, m.t)
            vol = sm.volume()
        v0, v1, v2 = s[m.t[:, 0]], s[m.t[:, 1]], s[m.t[:, 2]]
        nflip = int((np.einsum("ij,ij->i", np.cross(v1 - v0, v2 - v0), v0 + v1 + v2) < 0).sum())
        if vol <= 0 or nflip > 0:
            return core.Violation("orientation", "outward-oriented input maps to a sphere mesh of volume %.3g with %d of %d triangles inward" % (vol, nflip, len(m.t)),
                                  dict(case, input_class="coarse-mesh" if len(v) < 100 else None))
        rng = gen.rng_for(self.seed, "c18o", len(v))
        Q = gen.random_rotation(rng, reflect=False); sc = float(rng.choice([rng.uniform(0.5, 2.0), 1e-7, 1e4]))
        with core.quiet():
            m2 = TriaMesh(sc * (m.v @ Q.T + rng.uniform(-1, 1, 3)), m.t)
        r2 = core.call(conformal.spherical_conformal_map, m2)
        if r2[0] != "ok" or np.max(np.abs(r2[1] - s)) > 1e-5:
            return core.Violation("similarity", "map changes under rotation / translation / scaling (max dev %s)" % (np.max(np.abs(r2[1] - s)) if r2[0] == "ok" else r2[1:],), case)
        def cr(q):
            return (q[0] - q[2]) * (q[1] - q[3]) / ((q[0] - q[3]) * (q[1] - q[2]))
        jp = len(s) // 3
        for label, s_in in (("", s), (" (input rotated so that a vertex lies 1e-4 rad from the pole)", near_pole(s, jp, 1e-4))):
            mob = core.call(conformal.mobius_area_correction_spherical, m, s_in)
            if mob[0] != "ok":
                return core.Violation("mobius", "raised %s%s" % (mob[1:], label), case)
            ms = mob[1][0]
            if np.max(np.abs(np.linalg.norm(ms, axis=1) - 1)) > 1e-9:
                return core.Violation("mobius", "Moebius image not on the unit sphere" + label, case)
            z = conformal.stereographic(s_in); z2 = conformal.stereographic(ms)
            idx = rng.choice([i for i in range(len(z)) if i != jp], size=4, replace=False)
            if abs(cr(z[idx]) - cr(z2[idx])) > 1e-6 * max(1, abs(cr(z[idx]))):
                return core.Violation("mobius", "cross-ratio not preserved" + label, case)
            with core.quiet():
                vol_ms = TriaMesh(ms, m.t).volume()
            if vol_ms <= 0:
                return core.Violation("mobius", "Moebius image of an outward sphere mesh is inside-out (volume %.3g)%s" % (vol_ms, label), case)
        mob = core.call(conformal.mobius_area_correction_spherical, m, s)
        ms = mob[1][0]

        def objective(mesh, mp):          # the area-distortion objective by its definition, evaluated independently of the implementation
            with core.quiet():
                a0 = mesh.tria_areas(); a1 = TriaMesh(mp, mesh.t).tria_areas()
            q = np.abs(np.log((a1 / a1.sum()) / (a0 / a0.sum())))
            return float(q[np.isfinite(q)].mean())
        if objective(m, ms) > objective(m, s) + 1e-9:
            return core.Violation("mobius", "area distortion of the Moebius image (%.6g) exceeds that of the input (%.6g)" % (objective(m, ms), objective(m, s)), case)
        # an input that is already optimal: a polyhedron inscribed in the unit sphere mapped onto itself (objective 0)
        pv, pt = gen.icosphere(1 if len(v) < 400 else 2)
        pv = pv + 0.08 * rng.normal(size=pv.shape); pv /= np.linalg.norm(pv, axis=1)[:, None]
        with core.quiet():
            pm = TriaMesh(pv, pt)
        mob2 = core.call(conformal.mobius_area_correction_spherical, pm, pv)
        if mob2[0] != "ok":
            return core.Violation("mobius", "raised on an inscribed polyhedron: %s" % (mob2[1:],), case)
        if objective(pm, mob2[1][0]) > 1e-7:
            return core.Violation("mobius", "an optimal input (objective 0) is mapped to an image with area distortion %.6g" % objective(pm, mob2[1][0]), case)
        return None
