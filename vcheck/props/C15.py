"""C15 — vertex/triangle function transfer and smoothing are conservative averages."""
import itertools
import numpy as np

from .. import repo, core, gen, wire, extract, corr_fem
from ..base import BaseCheck
from .C07 import mat, read_mat
from lapy import TriaMesh


def neighbours(n, t):
    nb = [set() for _ in range(n)]
    for a, b, c in t:
        nb[a] |= {b, c}; nb[b] |= {a, c}; nb[c] |= {a, b}
    return nb


class Check(BaseCheck):
    id = "C15"
    audit_mod = "LapyVerif.Audit.C15"
    rule = ("triangle generator families without unused vertices x random scalar and multi-column vertex / triangle functions x weighted in "
            "{False, True} x smoothing iterations 1..4; outputs compared with the model (1e-9); wrong-length inputs for the ValueError branch; "
            "distinct by hash of (mesh, function, options)")
    trusted = ["smooth_vfunc / smooth_ are tied to the model by the differential check only (sparse products are not traceable); map_tfunc_to_vfunc (plain, weighted, one and two columns) and map_vfunc_to_tfunc are re-traced from the source on every run and bridged by proof (Bridge/VertexMeasures.lean)"]

    def translate(self):
        extract.gen_measures()
        extract.gen_transfer()

    def cases(self, seed, n):
        rng = gen.rng_for(seed, "c15")
        for c in itertools.chain(gen.int_cases(), gen.tria_stream(seed + 81, n, "small")):
            v, t = c["v"], c["t"]
            if len(np.unique(t)) != len(v):
                continue
            if c.get("vdtype") != "int64":
                v = v * float(rng.choice([1.0, 1.0, 1e-6, 1e3]))      # the averaging weights do not depend on the unit of length
            cols = int(rng.integers(1, 4))
            if len(v) <= 12 and rng.random() < 0.5:
                cols = [len(v) + 1, len(t) + 2, len(v), len(t), 3 * len(v)][int(rng.integers(0, 5))]      # more columns than vertices / triangles: rows stay rows
            mode = ["unit", "unit", "offset", "tiny"][int(rng.integers(0, 4))]
            shape = lambda a: {"unit": a, "offset": 1e4 + 1e-2 * a, "tiny": 1e-9 * a}[mode]   # noqa: E731
            vf = shape(rng.normal(size=(len(v), cols))); tf = shape(rng.normal(size=(len(t), cols)))
            pat = str(rng.choice(["generic", "generic", "generic", "all-zero", "zero-column", "constant", "one-hot"]))
            if pat != "generic" and vf.dtype.kind == "f":          # value patterns: the operators are linear, exact zeros and constants are ordinary input
                vf = np.array(vf); tf = np.array(tf)
                if pat == "all-zero":
                    vf[...] = 0.0; tf[...] = 0.0
                elif pat == "zero-column":
                    vf[:, -1] = 0.0; tf[:, -1] = 0.0
                elif pat == "constant":
                    vf[...] = -2.5; tf[...] = 1.0
                else:
                    vf[...] = 0.0; vf[0] = 1.0; tf[...] = 0.0; tf[0] = 1.0
            fdt = "float64"
            if mode == "unit" and rng.random() < 0.4:       # integer-typed functions (labels, counts): same values for the model
                fdt = "int64"; vf = np.round(3 * vf); tf = np.round(3 * tf)
            yield dict(v=v, t=t, name=c["name"] + ":" + mode, vf=vf, tf=tf, fdt=fdt, pres=c.get("pres"), vdtype=c.get("vdtype"),
                       weighted=bool(rng.random() < 0.5), n=int(rng.integers(1, 5)), squeeze=bool(cols == 1 and rng.random() < 0.7))

    def correspond(self, drv, stats):
        fails = []
        # malformed stream: wrong-length functions are rejected with ValueError (also lengths that are multiples of the right one)
        first = next(iter(self.cases(self.seed, 3)))
        with core.quiet():
            m0 = TriaMesh(*gen.arrays(first))
        nv0, nt0 = len(first["v"]), len(first["t"])
        for fname, shape in (("map_tfunc_to_vfunc", (nt0 + 1,)), ("map_tfunc_to_vfunc", (2 * nt0,)), ("map_tfunc_to_vfunc", (3 * nt0, 2)), ("map_tfunc_to_vfunc", (nt0 - 1, 2)),
                             ("map_vfunc_to_tfunc", (nv0 + 1,)), ("map_vfunc_to_tfunc", (2 * nv0,)), ("map_vfunc_to_tfunc", (2 * nv0, 3)),
                             ("smooth_vfunc", (nv0 + 1,)), ("smooth_vfunc", (2 * nv0,)), ("smooth_vfunc", (nv0 - 1, 2))):
            r = core.call(getattr(m0, fname), np.ones(shape))
            stats.case("malformed" + fname + str(shape), cls="malformed:" + fname)
            if not (r[0] == "err" and r[1] == "ValueError"):
                fails.append(core.Failure("correspondence", "wrong-length input vs model", "%s accepts a function of shape %s on a mesh with %d vertices and %d triangles "
                                          "(model: ValueError)" % (fname, shape, nv0, nt0), first))
        for c in self.cases(self.seed, 30 if self.quick else 500):
            v, t = c["v"], c["t"]
            with core.quiet():
                m = TriaMesh(*gen.arrays(c))
            vf = (c["vf"][:, 0] if c["squeeze"] else c["vf"]).astype(c["fdt"])
            tf = (c["tf"][:, 0] if c["squeeze"] else c["tf"]).astype(c["fdt"])
            stats.case(core.mesh_key(v, t, c["vf"][0].tolist(), c["weighted"], c["n"]),
                       cls=["class:" + c["name"], "cols:%d" % c["vf"].shape[1], "weighted:%s" % c["weighted"], "n:%d" % c["n"], "f-dtype:" + c["fdt"],
                            "pres:%s" % (c.get("pres") or "plain"), "int-coords:%s" % (c.get("vdtype") == "int64")],
                       sample=dict(name=c["name"], nv=len(v), nt=len(t), cols=int(c["vf"].shape[1]), weighted=c["weighted"], n=c["n"]))
            r1 = core.call(m.map_tfunc_to_vfunc, tf, c["weighted"])
            m1 = wire.Reply(drv.ask("t2v %d %s %s %s" % (int(c["weighted"]), wire.verts(v), wire.elems(t), mat(c["tf"]))))
            r2 = core.call(m.map_vfunc_to_tfunc, vf)
            m2 = wire.Reply(drv.ask("v2t %s %s" % (wire.elems(t), mat(c["vf"]))))
            r3 = core.call(m.smooth_vfunc, vf, c["n"])
            m3 = wire.Reply(drv.ask("smooth %d %s %s %s" % (c["n"], wire.verts(v), wire.elems(t), mat(c["vf"]))))
            for nm, ri, mi, rows in (("map_tfunc_to_vfunc", r1, m1, len(v)), ("map_vfunc_to_tfunc", r2, m2, len(t)), ("smooth_vfunc", r3, m3, len(v))):
                mm = read_mat(mi) if mi.status == "ok" else None
                if ri[0] != "ok" or mm is None or np.max(np.abs(np.asarray(ri[1]).reshape(rows, -1) - mm)) > 1e-9 * max(np.abs(mm).max(), 1e-300) * (1e-3 if nm == "smooth_vfunc" and "offset" in c["name"] else 1.0) + 0.0:
                    fails.append(core.Failure("correspondence", nm + " vs model", "%s: impl %s" % (c["name"], str(ri)[:80]), dict(c, fn=nm)))
            # smooth_ on the object itself: v := smooth_vfunc(v, n), connectivity untouched
            def do_smooth():
                m4 = TriaMesh(*gen.arrays(c)); m4.smooth_(c["n"]); return np.array(m4.v, dtype=float), np.array(m4.t)
            r4 = core.call(do_smooth)
            m4 = wire.Reply(drv.ask("smooth %d %s %s %s" % (c["n"], wire.verts(v), wire.elems(t), mat(v))))
            mm = read_mat(m4) if m4.status == "ok" else None
            if r4[0] != "ok" or mm is None or not np.array_equal(r4[1][1], t) or np.max(np.abs(r4[1][0] - mm)) > 1e-9 * max(np.abs(mm).max(), 1e-300):
                fails.append(core.Failure("correspondence", "smooth_ vs model", "%s: impl %s" % (c["name"], str(r4)[:80]), dict(c, fn="smooth_")))
            if len(fails) > 6:
                break
        return fails

    def search_cases(self):
        return self.cases(self.seed + 3, 40 if self.quick else 300)

    def known_finding(self, k):
        """F9: map_tfunc_to_vfunc(const) is not constant on meshes with non-uniform valence"""
        v, t = gen.grid(2, 1)
        t = np.vstack([t, [[1, 2, 5]]])[:3] if False else np.array([[0, 1, 2], [1, 3, 2], [2, 3, 4]])
        v = np.array([[0, 0, 0], [1, 0, 0], [0, 1, 0], [1, 1, 0], [0, 2, 0]], float)
        with core.quiet():
            out = TriaMesh(v, t).map_tfunc_to_vfunc(np.ones(3))
        return bool(np.ptp(out) > 1e-12)

    def oracle(self, case):
        v = np.asarray(case["v"], float); t = np.asarray(case["t"], dtype=np.int64)
        vf = np.asarray(case["vf"], float); tf = np.asarray(case["tf"], float); n = int(case["n"])
        with core.quiet():
            m = TriaMesh(*gen.arrays(case))
        area = corr_fem.tri_geom(v, t)[4]
        try:
            with core.quiet():
                a = np.asarray(m.map_tfunc_to_vfunc(tf, False)).reshape(len(v), -1)
                aw = np.asarray(m.map_tfunc_to_vfunc(tf, True)).reshape(len(v), -1)
                one = np.asarray(m.map_tfunc_to_vfunc(np.ones(len(t)), True))
                b = np.asarray(m.map_vfunc_to_tfunc(vf)).reshape(len(t), -1)
                s = np.asarray(m.smooth_vfunc(vf, n)).reshape(len(v), -1)
                s1 = vf
                for _ in range(n):
                    s1 = np.asarray(m.smooth_vfunc(s1, 1)).reshape(len(v), -1)
                sc = np.asarray(m.smooth_vfunc(np.full(len(v), 2.5), n))
                va = m.vertex_areas()
        except Exception as e:  # noqa: BLE001
            return core.Violation("runs", "raised %s: %s" % (type(e).__name__, e), case)
        tol = 1e-9
        if np.max(np.abs(a.sum(0) - tf.sum(0))) > tol * max(1, np.abs(tf).sum()):
            return core.Violation("t2v-sum", "map_tfunc_to_vfunc does not conserve the total", case)
        if np.max(np.abs(aw.sum(0) - (area[:, None] * tf).sum(0))) > tol * max(1, np.abs(tf).sum() * area.max()):
            return core.Violation("t2v-weighted", "weighted total is not the area integral", case)
        if np.max(np.abs(one - va)) > tol * area.max():
            return core.Violation("t2v-one", "weighted transfer of the constant 1 is not vertex_areas", case)
        if np.max(np.abs(b - vf[t].mean(axis=1))) > tol * max(1, np.abs(vf).max()):
            return core.Violation("v2t-mean", "map_vfunc_to_tfunc is not the mean of the corner values", case)
        with core.quiet():
            cc = np.asarray(m.map_vfunc_to_tfunc(np.full(len(v), 1.7)))
        if np.max(np.abs(cc - 1.7)) > tol:
            return core.Violation("v2t-const", "map_vfunc_to_tfunc does not map constants to constants", case)
        if np.max(np.abs(s - s1)) > 1e-7 * max(np.ptp(vf), 1e-300) + 1e-12 * np.abs(vf).max():
            return core.Violation("smooth-iter", "smooth_vfunc(f, n) is not n applications of smooth_vfunc(f, 1)", case)
        if np.max(np.abs(sc - 2.5)) > tol:
            return core.Violation("smooth-const", "smoothing does not fix constants", case)
        if np.any(s.max(0) > vf.max(0) + tol) or np.any(s.min(0) < vf.min(0) - tol):
            return core.Violation("smooth-range", "smoothing leaves the range [min f, max f]", case)
        nb = neighbours(len(v), t)
        e = np.zeros(len(v)); k = int(np.argmax([len(x) for x in nb])); e[k] = 1.0
        with core.quiet():
            w = np.asarray(m.smooth_vfunc(e, 1))
        supp = {int(i) for i in np.nonzero(np.abs(w) > 1e-15)[0]}
        if np.any(w < -1e-15) or not supp <= nb[k] or supp != nb[k]:
            return core.Violation("smooth-weights", "operator weights not non-negative / not supported on the edge neighbours", case)
        with core.quiet():
            rows = np.array([np.asarray(m.smooth_vfunc(np.eye(len(v))[j], 1)) for j in range(len(v))]).T if len(v) <= 60 else None
        if rows is not None and np.max(np.abs(rows.sum(1) - 1)) > tol:
            return core.Violation("smooth-weights", "operator rows do not sum to one", case)
        g = np.cos(np.arange(len(v)))[:, None]
        with core.quiet():
            lin = np.asarray(m.smooth_vfunc(2 * vf[:, :1] + 3 * g, n)).reshape(len(v), -1) - 2 * s[:, :1] - 3 * np.asarray(m.smooth_vfunc(g, n)).reshape(len(v), -1)
        if np.max(np.abs(lin)) > 1e-8 * max(1, np.abs(vf).max()):
            return core.Violation("smooth-linear", "smoothing is not linear", case)
        with core.quiet():
            m2 = TriaMesh(*gen.arrays(case)); t0 = m2.t.copy(); m2.smooth_(n)
            ref = np.asarray(m.smooth_vfunc(v, n))
        if not np.array_equal(m2.t, t0) or np.max(np.abs(m2.v - ref)) > tol * max(1, np.abs(v).max()):
            return core.Violation("smooth_", "smooth_(n) is not v := smooth_vfunc(v, n) with untouched connectivity", case)
        for fn, arg in ((m.map_tfunc_to_vfunc, np.ones(len(t) + 1)), (m.map_vfunc_to_tfunc, np.ones(len(v) + 1)), (m.smooth_vfunc, np.ones(len(v) + 1)),
                        (m.map_tfunc_to_vfunc, np.ones(2 * len(t))), (m.map_tfunc_to_vfunc, np.ones((3 * len(t), 2))), (m.map_tfunc_to_vfunc, np.ones(len(t) - 1)),
                        (m.map_vfunc_to_tfunc, np.ones(2 * len(v))), (m.map_vfunc_to_tfunc, np.ones((2 * len(v), 3))), (m.smooth_vfunc, np.ones(2 * len(v))),
                        (m.smooth_vfunc, np.ones((len(v) - 1, 2)))):
            r = core.call(fn, arg)
            if not (r[0] == "err" and r[1] == "ValueError"):
                return core.Violation("wrong-length", "%s accepts input of the wrong length: %s" % (fn.__name__, r[:2]), case)
        # last, so that it never hides another clause: the recorded finding F9
        with core.quiet():
            ct = np.asarray(m.map_tfunc_to_vfunc(np.full(len(t), 1.0)))
        if np.ptp(ct) > 1e-12:
            return core.Violation("t2v-const", "map_tfunc_to_vfunc(constant) is not constant (values %.3g..%.3g)" % (ct.min(), ct.max()),
                                  dict(case, input_class="non-uniform-valence"))
        return None
