"""In-process capture of the external numerical kernels LaPy calls (no source hooks needed: LaPy imports them at call
time or as module attributes).  Records arguments and results so that (a) the arguments can be compared with what the
Lean model says must be passed and (b) the results can be checked against the contract the theorems assume."""
import contextlib

import numpy as np
import scipy.sparse.linalg as spla


class Calls:
    def __init__(self):
        self.splu = []      # dicts: a (matrix), solves: list of (b, x)
        self.spsolve = []   # (a, b, x)
        self.eigsh = []     # dict(args, kwargs, result)
        self.eig = []       # (mats, evals, evecs)
        self.minimize = []  # dict(fun, x0, result)
        self.curv_tria = [] # (u1, u2, c1, c2) returned by TriaMesh.curvature_tria
        self.eigs = []      # (k, evals, evecs) returned by Solver.eigs


@contextlib.contextmanager
def capture():
    calls = Calls()
    real_splu, real_spsolve, real_eigsh, real_eig = spla.splu, spla.spsolve, spla.eigsh, np.linalg.eig

    class LU:
        def __init__(self, a):
            self.rec = dict(a=a.copy(), solves=[])
            calls.splu.append(self.rec)
            self.lu = real_splu(a)
            self.shape = self.lu.shape

        def solve(self, b, *args, **kw):
            x = self.lu.solve(b, *args, **kw)
            self.rec["solves"].append((np.array(b, copy=True), np.array(x, copy=True)))
            return x

    def my_splu(a, *args, **kw):
        return LU(a)

    def my_spsolve(a, b, *args, **kw):
        x = real_spsolve(a, b, *args, **kw)
        calls.spsolve.append((a.copy(), np.array(b, copy=True), np.array(x, copy=True)))
        return x

    def my_eigsh(*args, **kw):
        r = real_eigsh(*args, **kw)
        calls.eigsh.append(dict(args=args, kwargs=dict(kw), result=r))
        return r

    def my_eig(mats, *args, **kw):
        r = real_eig(mats, *args, **kw)
        calls.eig.append((np.array(mats, copy=True), np.array(r[0], copy=True), np.array(r[1], copy=True)))
        return r

    spla.splu, spla.spsolve, spla.eigsh, np.linalg.eig = my_splu, my_spsolve, my_eigsh, my_eig
    from lapy import TriaMesh as _TM
    real_ct = _TM.curvature_tria

    def my_ct(self, *args, **kw):
        r = real_ct(self, *args, **kw)
        calls.curv_tria.append(tuple(np.array(x, copy=True) for x in r))
        return r
    _TM.curvature_tria = my_ct
    from lapy import Solver as _SV
    real_eigs = _SV.eigs

    def my_eigs(self, k=10):
        r = real_eigs(self, k)
        calls.eigs.append((k, np.array(r[0], copy=True), np.array(r[1], copy=True)))
        return r
    _SV.eigs = my_eigs
    conf = None
    try:
        import lapy.conformal as conf
        real_min = conf.minimize

        def my_min(fun, x0, *args, **kw):
            r = real_min(fun, x0, *args, **kw)
            calls.minimize.append(dict(fun=fun, x0=np.array(x0, copy=True), result=r))
            return r
        conf.minimize = my_min
    except Exception:  # noqa: BLE001
        conf = None
    try:
        yield calls
    finally:
        spla.splu, spla.spsolve, spla.eigsh, np.linalg.eig = real_splu, real_spsolve, real_eigsh, real_eig
        _TM.curvature_tria = real_ct
        _SV.eigs = real_eigs
        if conf is not None:
            conf.minimize = real_min
