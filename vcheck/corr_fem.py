"""Correspondence of the FEM matrices: real `lapy.Solver` vs the Lean model through the driver."""
import numpy as np

from . import repo, core, wire, gen
from lapy import TriaMesh, TetMesh, Solver

DT = {"f64": np.float64, "f32": np.float32}
IT = {"i64": np.int64, "i32": np.int32}
TOL = {"f64": 1e-9, "f32": 2e-4}
SCALES = [1.0, 3e-5, 2e-4, 1.0, 37.0]


def case_dict(kind, v, t, **kw):
    d = dict(kind=kind, v=np.asarray(v, dtype=np.float64), t=np.asarray(t, dtype=np.int64))
    d.update(kw)
    return d


def impl_fem(kind, v, t, lump, dt="f64", it="i64", aniso=None, aniso_smooth=2, pres=None):
    cls = TriaMesh if kind == "tri" else TetMesh
    with core.quiet():
        if pres and pres != "plain":
            pv, pt = gen.present(v, t, pres)
            m = cls(pv.astype(DT[dt]), pt if pres in gen.NARROW else pt.astype(IT[it], copy=False))
        else:
            m = cls(np.asarray(v, dtype=DT[dt]), np.asarray(t, dtype=IT[it]))
        if aniso is None:
            s = Solver(m, lump=lump)
        else:
            s = Solver(m, lump=lump, aniso=aniso, aniso_smooth=aniso_smooth)
    return m, s


def model_fem(drv, kind, v, t, lump):
    op = "fem_tria" if kind == "tri" else "fem_tet"
    r = wire.Reply(drv.ask("%s %d %s %s" % (op, int(lump), wire.verts(v), wire.elems(t))))
    if r.status != "ok":
        return None, None, r.raw[:200]
    n = len(v)
    a = core.sparse_from(*r.coo(), n)
    b = core.sparse_from(*r.coo(), n)
    return a, b, None


def compare_fem(drv, kind, v, t, lump, dt="f64", it="i64", pres=None):
    """returns (error string or None)"""
    v = np.asarray(v, dtype=DT[dt]).astype(np.float64)
    try:
        m, s = impl_fem(kind, v, t, lump, dt, it, pres=pres)
    except Exception as e:  # noqa: BLE001
        return "implementation raised %s: %s" % (type(e).__name__, str(e)[:100])
    a, b, err = model_fem(drv, kind, v, t, lump)
    if err:
        return "driver: " + err
    n = len(v)
    ia = s.stiffness
    ib = s.mass
    if ia.shape != (n, n) or ib.shape != (n, n):
        # LaPy's csc_matrix has no explicit shape: trailing unused vertices shrink it
        k = ia.shape[0]
        a = a[:k, :k]; b = b[:k, :k]
        if a.shape != ia.shape:
            return "shape %s vs %s" % (ia.shape, a.shape)
    ea = core.sparse_relerr(ia.astype(np.float64), a)
    eb = core.sparse_relerr(ib.astype(np.float64), b)
    if not (ea <= TOL[dt] and eb <= TOL[dt]):
        return "stiffness rel.err %.3g, mass rel.err %.3g (tol %.1g)" % (ea, eb, TOL[dt])
    # stored pattern (nnz) must agree too: same keys
    if (ia != 0).nnz != (a != 0).nnz and dt == "f64":
        pa = set(zip(*ia.nonzero())); pm = set(zip(*a.nonzero()))
        if pa != pm:
            return "sparsity pattern differs: %s" % sorted(pa ^ pm)[:4]
    return None


def cur_wire(cur):
    u1, u2, c1, c2 = [np.asarray(x, dtype=np.float64) for x in cur]
    return " ".join("%s %s %s %s" % (wire.rawfloats(u1[k]), wire.rawfloats(u2[k]), wire.fhex(c1[k]), wire.fhex(c2[k])) for k in range(len(c1)))


def compare_fem_aniso(drv, v, t, lump, aniso, aniso_smooth, reuse=False):
    """Solver(tria, lump, aniso) vs the model's `solverAniso` fed with the curvature_tria output the implementation used.
    With `reuse` the Solver is built a second time on the SAME mesh object after its vertices were moved in place
    (smooth_): the second operator must be the model's function of the current vertices."""
    from . import capture
    v = np.asarray(v, dtype=np.float64)
    try:
        with core.quiet():
            m = TriaMesh(v, np.asarray(t, dtype=np.int64))
            if reuse:
                Solver(m, lump=lump, aniso=aniso, aniso_smooth=aniso_smooth)
                m.smooth_(1)
                v = np.array(m.v, dtype=np.float64)
                nn = np.linalg.norm(tri_geom(v, np.asarray(t, dtype=np.int64))[3], axis=1)
                if nn.min() < 1e-9 * nn.max():
                    return None          # smoothing made a triangle (numerically) degenerate: outside the quantifier
            with capture.capture() as calls:
                s = Solver(m, lump=lump, aniso=aniso, aniso_smooth=aniso_smooth)
            cur_now = m.curvature_tria(smoothit=aniso_smooth)
    except Exception as e:  # noqa: BLE001
        return "implementation raised %s: %s" % (type(e).__name__, str(e)[:100])
    if len(calls.curv_tria) > 1:
        return "%d curvature_tria calls" % len(calls.curv_tria)
    # the curvature input of the model is what curvature_tria returns for the mesh as it is NOW
    cur = cur_now
    a0, a1 = (aniso if isinstance(aniso, (tuple, list)) else (aniso, aniso))
    r = wire.Reply(drv.ask("solver_aniso %d %s %s %s %s %s" % (int(lump), wire.verts(v), wire.elems(t), wire.fhex(float(a0)), wire.fhex(float(a1)),
                                                           cur_wire(cur))))
    if r.status != "ok":
        return "driver: " + r.raw[:200]
    n = len(v)
    a = core.sparse_from(*r.coo(), n); b = core.sparse_from(*r.coo(), n)
    ia, ib = s.stiffness, s.mass
    if ia.shape != a.shape or ib.shape != b.shape:
        return "shape %s/%s vs %s" % (ia.shape, ib.shape, a.shape)
    ea = core.sparse_relerr(ia.astype(np.float64), a); eb = core.sparse_relerr(ib.astype(np.float64), b)
    if not (ea <= 2e-4 and eb <= 2e-4):          # LaPy stores the anisotropic matrices as float32
        return "aniso stiffness rel.err %.3g, mass rel.err %.3g%s" % (ea, eb, " (second Solver on the same, moved mesh object)" if reuse else "")
    if (ib != 0).nnz != (b != 0).nnz:
        return "mass sparsity pattern differs (lump=%s): %d vs %d stored entries" % (lump, (ib != 0).nnz, (b != 0).nnz)
    return None


def aniso_meshes(seed, n):
    """closed / bordered oriented manifold meshes with non-trivial curvature for the anisotropic branch"""
    rng = gen.rng_for(seed, "aniso")
    out = []
    for k in range(n):
        kind = k % 3
        if kind == 0:
            v, t = gen.icosphere(1); v = v * rng.uniform(0.6, 1.8, 3)
        elif kind == 1:
            v, t = gen.torus(int(rng.integers(6, 10)), int(rng.integers(5, 8)))
        else:
            v, t = gen.cylinder(int(rng.integers(6, 10)), int(rng.integers(3, 6)))
        v = v @ gen.random_rotation(rng).T
        aniso = float(rng.uniform(0.5, 6.0)) if k % 2 else (float(rng.uniform(0.5, 6.0)), float(rng.uniform(0.0, 6.0)))
        nm = ["ellipsoid", "torus", "cylinder"][kind]
        if (k // 3) % 2 == 1 or (n <= 6 and k >= 3):          # the same surface wound the other way: every principal curvature changes sign
            t = np.asarray(t)[:, [0, 2, 1]]; nm += "-reversed"
        out.append(dict(v=np.asarray(v, float), t=np.asarray(t, np.int64), aniso=aniso, smooth=int(rng.integers(0, 4)), name=nm))
    # as many triangles as vertices (a one-strip band, the surface of a tetrahedron): per-vertex and per-triangle arrays have the same length
    bv, bt = gen.cylinder(int(rng.integers(6, 10)), 1)
    out.append(dict(v=np.asarray(bv, float) * rng.uniform(0.7, 1.4, 3), t=np.asarray(bt, np.int64), aniso=0.0, smooth=1, name="band-nt=nv"))
    out.append(dict(v=np.asarray(bv, float) @ gen.random_rotation(rng).T, t=np.asarray(bt, np.int64), aniso=(0.0, 2.0), smooth=0, name="band-nt=nv"))
    tv, tt = gen.tetra_surface()
    out.append(dict(v=np.asarray(tv, float) * np.array([1.0, 1.3, 0.8]), t=np.asarray(tt, np.int64), aniso=0.0, smooth=0, name="tetra-nt=nv"))
    for h in (1e-6, 1e-7, 1e-8, 10.0 ** rng.uniform(-8, -5)):          # flat (sliver) triangles: one vertex almost on the opposite edge
        v, t = gen.sliver(rng, h)
        out.append(dict(v=v, t=t, aniso=0.0 if h in (1e-6, 1e-8) else (0.0, 3.0), smooth=int(rng.integers(0, 3)), name="sliver"))
    return out


def repeated_element_cases():
    """meshes in which an element is listed twice (same or reversed vertex order): a pillow beside a tetrahedron surface, a two-sided sheet, a
    triangle listed twice, two tetrahedra on the same four vertices.  The forms are sums over ALL listed elements."""
    tv, tt = gen.tetra_surface()
    tv = np.asarray(tv, float) * np.array([1.0, 1.2, 0.9]); tt = np.asarray(tt)
    pv = np.vstack([tv, tv[:3] + np.array([3.0, 0.1, 0.2])])
    yield "tri", pv, np.vstack([tt, [[4, 5, 6], [4, 6, 5]]]), "pillow+tetra"
    yield "tri", pv, np.vstack([tt, [[4, 5, 6], [5, 6, 4]]]), "same-triangle-twice+tetra"
    gv, gt = gen.grid(2, 2)
    gv = np.asarray(gv, float); gv[:, 2] = 0.1 * np.sin(gv[:, 0] + 2 * gv[:, 1]); gt = np.asarray(gt)
    yield "tri", gv, np.vstack([gt, gt[:, ::-1]]), "two-sided-sheet"
    cv, ct = gen.cube5()
    cv = np.asarray(cv, float); ct = gen.orient_tets_positive(cv, np.asarray(ct))
    yield "tet", cv, np.vstack([ct, ct[:1][:, [0, 2, 1, 3]], ct[1:2]]), "tets-listed-twice"


def run_stream(drv, stats, seed, n_tri, n_tet, size, failures, name="fem correspondence", dtypes=("f64",)):
    k = 0
    for kind, rv, rt, rname in repeated_element_cases():
        for lump in (False, True):
            err = compare_fem(drv, kind, rv, rt, lump, "f64", "i64")
            stats.case(core.mesh_key(rv, rt, lump, "rep"), cls=[kind + ":repeated-elements:" + rname, "lump:%s" % lump])
            if err:
                failures.append(core.Failure("correspondence", name, "%s %s lump=%s: %s" % (kind, rname, lump, err), case_dict(kind, rv, rt, lump=lump, name=rname)))
    for c in gen.tria_stream(seed, n_tri, size):
        for lump in (False, True):
            dt = dtypes[k % len(dtypes)]
            it = "i64" if k % 3 else "i32"
            k += 1
            if any(str(x).startswith(("far-offset", "unit:")) for x in c["tags"]):
                dt = "f64"
            sc = SCALES[(k // 2) % len(SCALES)] if dt == "f64" else 1.0        # small / large meshes: the guards are absolute
            c = dict(c, v=c["v"] * sc, tags=set(c["tags"]) | ({"scale:%g" % sc} if sc != 1.0 else set()))
            err = compare_fem(drv, "tri", c["v"], c["t"], lump, dt, it, pres=c.get("pres"))
            stats.case(core.mesh_key(c["v"], c["t"], lump, dt), sample=dict(kind="tri", name=c["name"], nv=len(c["v"]),
                       nt=len(c["t"]), lump=lump, dtype=dt) if k < 3 else None,
                       cls=["tri:" + c["name"], "dtype:" + dt, "lump:%s" % lump] + ["mod:" + x for x in c["tags"] if x != c["name"]])
            if err:
                failures.append(core.Failure("correspondence", name, "tri %s lump=%s %s: %s" % (c["name"], lump, dt, err),
                                             case_dict("tri", c["v"], c["t"], lump=lump, dt=dt, name=c["name"], pres=c.get("pres"))))
                if len(failures) > 5:
                    return
    for c in gen.big_cases(seed, thorough=(size != "small"), huge=True):
        for lump in (False, True):
            err = compare_fem(drv, "tri", c["v"], c["t"], lump, "f64", "i64")
            stats.case(core.mesh_key(c["v"], c["t"], lump, "big"), cls=["tri:" + c["name"], "lump:%s" % lump])
            if err:
                failures.append(core.Failure("correspondence", name, "tri %s lump=%s: %s" % (c["name"], lump, err), case_dict("tri", c["v"], c["t"], lump=lump, dt="f64", name=c["name"])))
    rs = gen.rng_for(seed, "sliver")
    for h in (1e-5, 1e-7, 10.0 ** rs.uniform(-7.5, -4)):          # flat triangles in generic position (float64 only)
        v, t = gen.sliver(rs, h)
        for rot in range(3):
            tt = np.roll(t, rot, axis=1)
            for lump in (False, True):
                err = compare_fem(drv, "tri", v, tt, lump, "f64", "i64")
                stats.case(core.mesh_key(v, tt, lump, "sliver"), cls=["tri:sliver", "lump:%s" % lump])
                if err:
                    failures.append(core.Failure("correspondence", name, "tri sliver h=%.3g lump=%s: %s" % (h, lump, err), case_dict("tri", v, tt, lump=lump, dt="f64", name="sliver")))
    for c in gen.tet_stream(seed, n_tet, size):
        for lump in (False, True):
            dt = dtypes[k % len(dtypes)] if c["name"] != "multi-scale" else "f64"        # single precision cannot hold coordinates 1 and 2e-5 side by side
            it = "i64" if k % 3 else "i32"
            k += 1
            err = compare_fem(drv, "tet", c["v"], c["t"], lump, dt, it)
            stats.case(core.mesh_key(c["v"], c["t"], lump, dt), sample=dict(kind="tet", name=c["name"], nv=len(c["v"]),
                       nt=len(c["t"]), lump=lump, dtype=dt) if k % 50 == 0 else None,
                       cls=["tet:" + c["name"], "dtype:" + dt, "lump:%s" % lump] + ["mod:" + x for x in c["tags"] if x != c["name"]])
            if err:
                failures.append(core.Failure("correspondence", name, "tet %s lump=%s %s: %s" % (c["name"], lump, dt, err),
                                             case_dict("tet", c["v"], c["t"], lump=lump, dt=dt, name=c["name"])))
                if len(failures) > 5:
                    return


# ------------------------------------------------------------------ independent reference quantities (oracle side)

def tri_geom(v, t):
    v0, v1, v2 = v[t[:, 0]], v[t[:, 1]], v[t[:, 2]]
    cr = np.cross(v1 - v0, v2 - v0)
    area = 0.5 * np.linalg.norm(cr, axis=1)
    return v0, v1, v2, cr, area


def tri_grad(v, t, f):
    """gradient of the linear interpolant per triangle, from its characterising equations (least squares in the plane)"""
    v0, v1, v2, cr, area = tri_geom(v, t)
    out = np.zeros((len(t), 3))
    for k in range(len(t)):
        m = np.array([v1[k] - v0[k], v2[k] - v0[k], cr[k]])
        rhs = np.array([f[t[k, 1]] - f[t[k, 0]], f[t[k, 2]] - f[t[k, 0]], 0.0])
        out[k] = np.linalg.solve(m, rhs)
    return out


def tet_geom(v, t):
    e = v[t[:, 1:]] - v[t[:, :1]]
    det = np.einsum("ij,ij->i", np.cross(e[:, 0], e[:, 1]), e[:, 2])
    return e, det


def tet_grad(v, t, f):
    e, det = tet_geom(v, t)
    out = np.zeros((len(t), 3))
    for k in range(len(t)):
        rhs = f[t[k, 1:]] - f[t[k, 0]]
        out[k] = np.linalg.solve(e[k], rhs)
    return out


def dirichlet(kind, v, t, f, g):
    if kind == "tri":
        area = tri_geom(v, t)[4]
        return float(np.sum(area * np.einsum("ij,ij->i", tri_grad(v, t, f), tri_grad(v, t, g))))
    _, det = tet_geom(v, t)
    return float(np.sum(np.abs(det) / 6 * np.einsum("ij,ij->i", tet_grad(v, t, f), tet_grad(v, t, g))))


# ---------------------------------------------------------------------------------------------------------------------------
# meshes far beyond the reach of the executable model (half a million elements, element counts that are not multiples of small
# numbers): the statements the theorems make about the matrices are evaluated on the implementation's output directly

def huge_meshes():
    gv, gt = gen.grid(500, 500)
    gv = np.array(gv, float); gv[:, 2] = 0.3 * np.sin(0.05 * gv[:, 0]) * np.cos(0.07 * gv[:, 1])
    gt = np.array(gt)
    # one ear triangle on the boundary edge between the first two vertices of the grid: odd triangle count, one vertex with a single triangle
    a, b = int(gt[0][0]), int(gt[0][1])
    ear = np.array([[b, a, len(gv)]])
    gv2 = np.vstack([gv, (gv[a] + gv[b]) / 2 + np.array([0.0, -0.7, 0.1])])
    yield "tri", gv2, np.vstack([gt, ear]), "grid500+ear"
    pv, pt = gen.grid(256, 128)              # exactly 2^16 triangles
    pv = np.array(pv, float); pv[:, 2] = 0.2 * np.cos(0.11 * pv[:, 0]) * np.sin(0.13 * pv[:, 1])
    yield "tri", pv, np.array(pt), "grid256x128"
    cv, ct = gen.cube_grid(45, 45, 45)
    cv = np.array(cv, float); ct = np.array(ct)
    ct = ct[:-1]             # element count not divisible by 2, 3
    used = np.unique(ct)
    if len(used) == len(cv):
        yield "tet", cv, ct, "kuhn45-1"


def huge_postconditions(which, stats=None):
    """which: 'stiffness' | 'mass'.  Returns failures (symmetry, row sums / total measure, lumped = row sums of the full matrix)."""
    fails = []
    for kind, v, t, name in huge_meshes():
        cls = TriaMesh if kind == "tri" else TetMesh
        case = dict(kind=kind, name="huge:" + name, input_class="huge", nv=len(v), nt=len(t))
        try:
            with core.quiet():
                full = Solver(cls(v, t), lump=False)
                lumped = Solver(cls(v, t), lump=True)
        except Exception as e:  # noqa: BLE001
            fails.append(core.Failure("correspondence", "huge mesh postconditions (%s)" % which, "raised %s: %s" % (type(e).__name__, str(e)[:100]), case)); continue
        if stats is not None:
            stats.case("huge" + name + which, cls=["class:huge:" + name, "postconditions-only"], sample=dict(name=name, n_elements=len(t)))
            stats.monitor("huge meshes (%d+ elements): matrix postconditions evaluated" % 400000)
        if kind == "tri":
            meas = 0.5 * np.linalg.norm(np.cross(v[t[:, 1]] - v[t[:, 0]], v[t[:, 2]] - v[t[:, 0]]), axis=1)
        else:
            e = v[t[:, 1:]] - v[t[:, :1]]
            meas = np.abs(np.einsum("ij,ij->i", np.cross(e[:, 0], e[:, 1]), e[:, 2])) / 6.0
        nper = t.shape[1]
        vert_meas = np.bincount(t.reshape(-1), np.repeat(meas / nper, nper), minlength=len(v))
        if which == "mass":
            B, BL = full.mass.astype(float), lumped.mass.astype(float)
            rows = np.asarray(B.sum(axis=1)).ravel()
            bad = None
            if abs(B - B.T).max() > 1e-12 * abs(B).max():
                bad = "full mass matrix not symmetric"
            elif np.max(np.abs(rows - vert_meas)) > 1e-9 * vert_meas.max():
                bad = "row sums of the full mass matrix differ from the vertex areas/volumes (max dev %.3g at a vertex of measure %.3g)" % (
                    np.max(np.abs(rows - vert_meas)), vert_meas[np.argmax(np.abs(rows - vert_meas))])
            elif np.max(np.abs(BL.diagonal() - rows)) > 1e-9 * vert_meas.max():
                bad = "lumped matrix is not the diagonal of the row sums of the full matrix"
            elif (B.data <= 0).any():
                bad = "non-positive stored entry"
            elif kind == "tri" and len(t) <= 100000:
                with core.quiet():
                    sa, sl = Solver.fem_tria_mass(cls(v, t), False).astype(float), Solver.fem_tria_mass(cls(v, t), True).astype(float)
                if abs(sa - B).max() > 1e-12 * abs(B).max() or abs(sl - BL).max() > 1e-12 * abs(BL).max():
                    bad = "fem_tria_mass differs from the mass matrix of the Solver (rel. %.3g / %.3g)" % (abs(sa - B).max() / abs(B).max(), abs(sl - BL).max() / abs(BL).max())
        else:
            A = full.stiffness.astype(float)
            rows = np.asarray(A.sum(axis=1)).ravel()
            sc = abs(A).max()
            bad = None
            if abs(A - A.T).max() > 1e-12 * sc:
                bad = "stiffness matrix not symmetric"
            elif np.max(np.abs(rows)) > 1e-9 * sc:
                bad = "stiffness matrix does not annihilate constants (max row sum %.3g)" % np.max(np.abs(rows))
            elif abs(A - lumped.stiffness.astype(float)).max() > 0:
                bad = "stiffness depends on lump"
            else:
                x = np.sin(0.37 * np.arange(len(v)))
                if x @ (A @ x) < -1e-9 * sc * len(v):
                    bad = "negative energy"
        if bad:
            fails.append(core.Failure("correspondence", "huge mesh postconditions (%s)" % which, "%s: %s" % (name, bad), case))
    return fails
