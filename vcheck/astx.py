"""Translator 2: AST extraction of constants, call structure and effects from /repo (emitted as Lean `def`s)."""
import ast
import os

from . import repo
from .extract import write_if_changed, GEN_DIR


def _parse(rel):
    return ast.parse(repo.src(rel))


def _is_self_attr(node, attr=None):
    return isinstance(node, ast.Attribute) and isinstance(node.value, ast.Name) and node.value.id == "self" and (attr is None or node.attr == attr)


def method_effects(cls_node):
    """for every method: (writes_t, writes_v, reinit) — syntactic; `x = self.t` aliases are followed one level"""
    out = {}
    for fn in cls_node.body:
        if not isinstance(fn, ast.FunctionDef):
            continue
        alias_t, alias_v = set(), set()
        wt = wv = reinit = False
        for node in ast.walk(fn):
            if isinstance(node, ast.Assign):
                for tg in node.targets:
                    if isinstance(tg, ast.Name):
                        if _is_self_attr(node.value, "t"):
                            alias_t.add(tg.id)
                        if _is_self_attr(node.value, "v"):
                            alias_v.add(tg.id)
        for node in ast.walk(fn):
            targets = []
            if isinstance(node, ast.Assign):
                targets = node.targets
            elif isinstance(node, (ast.AugAssign, ast.AnnAssign)):
                targets = [node.target]
            flat = []
            for tg in targets:
                flat += list(tg.elts) if isinstance(tg, (ast.Tuple, ast.List)) else [tg]
            for tg in flat:
                base = tg
                while isinstance(base, ast.Subscript):
                    base = base.value
                sub = isinstance(tg, ast.Subscript)
                if _is_self_attr(base, "t") or (sub and isinstance(base, ast.Name) and base.id in alias_t):
                    wt = True
                if _is_self_attr(base, "v") or (sub and isinstance(base, ast.Name) and base.id in alias_v):
                    wv = True
            if isinstance(node, ast.Call) and isinstance(node.func, ast.Attribute) and node.func.attr == "__init__" \
                    and isinstance(node.func.value, ast.Name) and node.func.value.id == "self":
                reinit = True
        out[fn.name] = (wt, wv, reinit)
    return out


def param_writes(rel):
    """public module-level functions (and non-underscore methods) that write through a parameter:
    `p.attr = …`, `p.attr[…] = …`, `p[...] = …`, augmented assignment to those, or a call `p.method_()`"""
    tree = _parse(rel)
    bad = []

    def check(fn, qual, skip_self):
        params = [a.arg for a in fn.args.args + fn.args.kwonlyargs]
        if skip_self and params and params[0] in ("self", "cls"):
            params = params[1:]
        pset = set(params)
        for node in ast.walk(fn):
            targets = []
            if isinstance(node, ast.Assign):
                targets = node.targets
            elif isinstance(node, ast.AugAssign):
                targets = [node.target]
            for tg in targets:
                for el in (tg.elts if isinstance(tg, (ast.Tuple, ast.List)) else [tg]):
                    base = el
                    depth = 0
                    while isinstance(base, (ast.Subscript, ast.Attribute)):
                        base = base.value
                        depth += 1
                    if depth > 0 and isinstance(base, ast.Name) and base.id in pset:
                        # rebinding `p = …` (depth 0) is harmless; `p.x = …` / `p[i] = …` writes into the caller's object
                        bad.append("%s: writes %s" % (qual, ast.unparse(el)))
            if isinstance(node, ast.Call) and isinstance(node.func, ast.Attribute) and node.func.attr.endswith("_") \
                    and not node.func.attr.startswith("_") and isinstance(node.func.value, ast.Name) and node.func.value.id in pset:
                bad.append("%s: calls %s.%s()" % (qual, node.func.value.id, node.func.attr))

    for node in tree.body:
        if isinstance(node, ast.FunctionDef) and not (node.name.endswith("_") and not node.name.startswith("_")):
            check(node, "%s::%s" % (rel, node.name), False)      # private helpers too: they are reached from the public functions
        if isinstance(node, ast.ClassDef):
            for fn in node.body:
                if isinstance(fn, ast.FunctionDef) and not (fn.name.endswith("_") and not fn.name.startswith("_")):
                    check(fn, "%s::%s.%s" % (rel, node.name, fn.name), True)      # incl. __init__ (constructors take the caller's mesh) and private helpers
    return bad


def lean_bool(b):
    return "true" if b else "false"


def gen_effects():
    tri = [n for n in _parse("lapy/tria_mesh.py").body if isinstance(n, ast.ClassDef) and n.name == "TriaMesh"][0]
    tet = [n for n in _parse("lapy/tet_mesh.py").body if isinstance(n, ast.ClassDef) and n.name == "TetMesh"][0]
    te, tt = method_effects(tri), method_effects(tet)
    impure = []
    for rel in ("lapy/tria_mesh.py", "lapy/tet_mesh.py", "lapy/shapedna.py", "lapy/diffgeo.py", "lapy/heat.py", "lapy/solver.py",
                "lapy/conformal.py", "lapy/io.py"):
        impure += param_writes(rel)

    def table(name, eff):
        rows = ", ".join('("%s", %s, %s, %s)' % (k, lean_bool(a), lean_bool(b), lean_bool(c))
                         for k, (a, b, c) in sorted(eff.items()) if k.endswith("_") and not k.startswith("_"))
        return "/-- (method, writes `t`, writes `v`, re-runs the constructor) -/\ndef %s : List (String × Bool × Bool × Bool) := [%s]\n" % (name, rows)

    text = "\n".join([
        "/-  GENERATED by vcheck/astx.py from lapy/tria_mesh.py, lapy/tet_mesh.py and the public functions of lapy/*.py -- do not edit. -/",
        "namespace LapyVerif.Gen.Effects",
        "",
        table("triTable", te),
        table("tetTable", tt),
        "def reinit (tab : List (String × Bool × Bool × Bool)) (name : String) : Bool :=",
        "  match tab.find? (fun e => e.1 == name) with",
        "  | some e => e.2.2.2",
        "  | none => false",
        "",
        "def rebTri (name : String) : Bool := reinit triTable name",
        "def rebTet (name : String) : Bool := reinit tetTable name",
        "",
        "/-- public functions / methods without trailing underscore that write through a parameter (must be empty) -/",
        "def impure : List String := [%s]" % ", ".join('"%s"' % s.replace('"', "'") for s in sorted(set(impure))),
        "",
        "end LapyVerif.Gen.Effects",
        "",
    ])
    return write_if_changed(os.path.join(GEN_DIR, "Effects.lean"), text), te, tt, impure


def gen_eigs():
    """constants and call structure of Solver.eigs / shapedna glue"""
    from fractions import Fraction
    from .sym import snap
    tree = _parse("lapy/solver.py")
    cls = [n for n in tree.body if isinstance(n, ast.ClassDef) and n.name == "Solver"][0]
    fn = [n for n in cls.body if isinstance(n, ast.FunctionDef) and n.name == "eigs"][0]
    sigma = None
    splu_arg = eigsh_call = opinv = None
    for node in ast.walk(fn):
        if isinstance(node, ast.Assign) and len(node.targets) == 1 and isinstance(node.targets[0], ast.Name) and node.targets[0].id == "sigma":
            try:
                sigma = snap(float(ast.literal_eval(node.value)))
            except Exception:  # noqa: BLE001
                sigma = None
        if isinstance(node, ast.Call) and isinstance(node.func, ast.Name):
            if node.func.id == "splu" and node.args:
                splu_arg = ast.unparse(node.args[0])
            if node.func.id == "eigsh":
                eigsh_call = ast.unparse(node)
        if isinstance(node, ast.Assign) and isinstance(node.value, ast.Call) and isinstance(node.value.func, ast.Name) \
                and node.value.func.id == "LinearOperator" and "lu.solve" in ast.unparse(node.value):
            opinv = ast.unparse(node.value)
    fr = Fraction(sigma) if sigma is not None else Fraction(0)
    esc = lambda s: (s or "MISSING").replace("\\", "\\\\").replace('"', '\\"')  # noqa: E731
    text = "\n".join([
        "/-  GENERATED by vcheck/astx.py from lapy/solver.py::Solver.eigs -- do not edit. -/",
        "namespace LapyVerif.Gen.Eigs",
        "def sigmaFound : Bool := %s" % lean_bool(sigma is not None),
        "def sigmaNum : Int := %d" % fr.numerator,
        "def sigmaDen : Nat := %d" % fr.denominator,
        'def factorised : String := "%s"' % esc(splu_arg),
        'def eigshCall : String := "%s"' % esc(eigsh_call),
        'def opInv : String := "%s"' % esc(opinv),
        "end LapyVerif.Gen.Eigs",
        "",
    ])
    return write_if_changed(os.path.join(GEN_DIR, "Eigs.lean"), text), fr


# ------------------------------------------------------------------ fingerprints of the source the hand-written model was validated against
def fingerprints(files=None):
    """{"lapy/x.py::Class.func": sha1 of the docstring-free AST dump} for every function of the given files (default: all of lapy/)"""
    import hashlib
    import glob
    out = {}
    rels = files or sorted(os.path.relpath(p, repo.REPO) for p in glob.glob(os.path.join(repo.REPO, "lapy", "*.py")))
    for rel in rels:
        try:
            tree = _parse(rel)
        except Exception:  # noqa: BLE001
            out[rel] = "unparsable"
            continue

        def strip(fn):
            body = fn.body
            if body and isinstance(body[0], ast.Expr) and isinstance(getattr(body[0], "value", None), ast.Constant) and isinstance(body[0].value.value, str):
                fn = ast.FunctionDef(name=fn.name, args=fn.args, body=body[1:] or [ast.Pass()], decorator_list=fn.decorator_list, returns=None, type_comment=None)
            return hashlib.sha1(ast.dump(fn, annotate_fields=False, include_attributes=False).encode()).hexdigest()[:16]
        for node in tree.body:
            if isinstance(node, ast.FunctionDef):
                out["%s::%s" % (rel, node.name)] = strip(node)
            elif isinstance(node, ast.ClassDef):
                for fn in node.body:
                    if isinstance(fn, ast.FunctionDef):
                        out["%s::%s.%s" % (rel, node.name, fn.name)] = strip(fn)
    return out


def drift(files):
    """functions of `files` whose fingerprint differs from the recorded one (or that are new / gone)"""
    import json
    try:
        with open(os.path.join(repo.VERIF, "model_fingerprints.json")) as f:
            ref = json.load(f)["functions"]
    except Exception:  # noqa: BLE001
        return []
    cur = fingerprints(files)
    keys = {k for k in set(ref) | set(cur) if k.split("::")[0] in files}
    return sorted(k for k in keys if ref.get(k) != cur.get(k))
