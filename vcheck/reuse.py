"""Object re-use: results must be functions of the CURRENT vertices / elements / arguments, never of an earlier call.

The Lean model is stateless (every operation is a function of the mesh and its arguments), so the implementation must give, on an
object that was used before and then changed in place, exactly what it gives on a freshly constructed object with the same
vertices and elements; and a Solver that was used for another problem before must solve the present one.  `check(prop, stats)`
runs the functions that belong to property `prop` in that way and returns the broken ties.
"""
import os
import numpy as np
import scipy.sparse as sp

from . import repo, core, gen  # noqa: F401
from lapy import TriaMesh, TetMesh, Solver, shapedna, diffgeo, heat, conformal


def _tri_closed():
    v, t = gen.icosphere(1)
    return v * np.array([1.0, 1.35, 0.8]) + 0.03 * np.sin(7 * v[:, [1, 2, 0]]), t


def _tri_open():
    v, t = gen.grid(4, 3)
    v = np.array(v, float); v[:, 2] = 0.15 * np.sin(v[:, 0]) * np.cos(1.3 * v[:, 1])
    return v, t


def _tri_flat():
    v, t = gen.grid(4, 3)
    v = np.array(v, float) + 0.07 * np.column_stack([np.sin(np.arange(len(v))), np.cos(2 * np.arange(len(v))), np.zeros(len(v))])
    return v, t


def _tri_fine():
    from .props.C19 import ellipsoid_y
    return ellipsoid_y(gen.rng_for(0, "reuse-fine"))


def _tet():
    v, t = gen.cube_grid(2, 1, 1)
    v = np.array(v, float) + 0.05 * np.sin(np.arange(3 * len(v))).reshape(-1, 3)
    return v, gen.orient_tets_positive(v, np.array(t))


def _tet_delaunay():
    v, t = gen.delaunay_fill(gen.rng_for(0, "reuse-tet-delaunay"), 16)
    v = np.array(v, float)
    return v, gen.orient_tets_positive(v, np.array(t))


def _tri_grid():
    v, t = gen.grid(4, 3)
    return np.array(v, float), t


def _tet_grid():
    v, t = gen.cube_grid(2, 1, 1)
    v = np.array(v, float)
    return v, gen.orient_tets_positive(v, np.array(t))


MESHES = {"tri-grid": _tri_grid, "tet-grid": _tet_grid, "tet-delaunay": _tet_delaunay, "tri": _tri_closed, "tri-open": _tri_open, "tri-flat": _tri_flat, "tri-fine": _tri_fine, "tet": _tet}


def make(kind):
    v, t = MESHES[kind]()
    with core.quiet():
        return TetMesh(np.array(v, float), np.array(t)) if kind.startswith("tet") else TriaMesh(np.array(v, float), np.array(t))


def movers(kind):
    """in-place changes of the vertices that keep the connectivity (public operations, and plain assignment to the public attribute)"""
    if kind.startswith("tet"):
        return [("v = 1.7 * v + shift", lambda m: setattr(m, "v", 1.7 * m.v + np.array([0.3, -0.2, 0.1]))),
                ("v = sheared v", lambda m: setattr(m, "v", m.v @ np.array([[1.0, 0.3, 0.0], [0.0, 1.0, 0.2], [0.0, 0.0, 1.1]])))]
    out = [("normalize_()", lambda m: m.normalize_()),
           ("smooth_(2)", lambda m: m.smooth_(2)),
           ("v = stretched v", lambda m: setattr(m, "v", m.v * np.array([3.0, 1.0, 0.6]) + 0.5))]
    if kind in ("tri", "tri-fine"):
        out.append(("normal_offset_(d)", lambda m: m.normal_offset_(0.07 * m.avg_edge_length())))
    return out


_ARGS_STATE = {"loops_failed": False}


def args(m):
    n, ne = len(m.v), len(m.t)
    extra = {}
    if isinstance(m, TriaMesh) and (n, ne) == (20, 24) and not _ARGS_STATE["loops_failed"]:
        # landmark data for the Beltrami solver on the 4 x 3 grids (boundary_loops is a Python-level walk that may spin on an object whose
        # adjacency a modified library has corrupted: interruptible call, and never tried again after one failure)
        r = core.call(lambda: _beltrami_args(m) if (not m.is_closed() and m.is_oriented() and m.is_manifold()) else None)
        if r[0] == "ok" and r[1] is not None:
            extra["lm"], extra["tgt"] = r[1]
        elif r[0] != "ok":
            _ARGS_STATE["loops_failed"] = True
    return dict(extra, f=np.sin(np.arange(n)) + 0.13 * np.arange(n), g=np.cos(0.7 * np.arange(n)), X=np.cos(np.arange(3 * ne)).reshape(ne, 3), tf=np.cos(np.arange(ne)),
                ev=np.array([1.0, 2.0, 3.5]), vids=[0, 3], didx=np.array([0, 5]), ddat=np.array([0.5, -1.0]), didx2=np.array([1, 4]), ddat2=np.array([-0.3, 0.8]),
                nidx=np.array([2]), ndat=np.array([0.3]))


def _beltrami_args(m):
    """landmarks = first boundary loop (in walk order), targets = an affine image of their positions (float64, caller-owned)"""
    lm = np.array(m.boundary_loops()[0], dtype=np.int64)
    return lm, np.ascontiguousarray(m.v[lm][:, :2] * np.array([1.3, 0.8]) + np.array([0.25, -0.4]))


def _lbs(m, A):
    if "lm" not in A:
        raise ValueError("no landmark data for this mesh")
    return conformal.linear_beltrami_solver(m, np.full(len(m.t), 0.1 + 0.05j), A["lm"], A["tgt"])


def _ev(r):
    return np.asarray(r[0])


# property -> [(name, mesh kind, fn(mesh, A) -> comparable result)]
API = {
    "C01": [("Solver.stiffness", "tri", lambda m, A: Solver(m).stiffness), ("Solver(aniso).stiffness", "tri", lambda m, A: Solver(m, aniso=(1.5, 0.5), aniso_smooth=2).stiffness),
            ("Solver.stiffness (tet)", "tet", lambda m, A: Solver(m).stiffness)],
    "C02": [("Solver.mass", "tri-open", lambda m, A: [Solver(m).mass, Solver(m, lump=True).mass]), ("fem_tria_mass", "tri", lambda m, A: [Solver.fem_tria_mass(m), Solver.fem_tria_mass(m, True)]),
            ("Solver.mass (tet)", "tet", lambda m, A: [Solver(m).mass, Solver(m, lump=True).mass])],
    "C03": [("eigs eigenvalues", "tri", lambda m, A: _ev(Solver(m).eigs(4))), ("eigs eigenvalues (tet)", "tet", lambda m, A: _ev(Solver(m, lump=True).eigs(3)))],
    "C04": [("compute_shapedna", "tri", lambda m, A: shapedna.compute_shapedna(m, k=3)),
            ("compute_shapedna (tet)", "tet", lambda m, A: shapedna.compute_shapedna(m, k=2)),
            ("compute_shapedna (tet, lumped)", "tet-delaunay", lambda m, A: shapedna.compute_shapedna(m, k=3, lump=True)["Eigenvalues"]),
            ("normalize_ev", "tri", lambda m, A: [shapedna.normalize_ev(m, A["ev"].copy(), meth) for meth in ("surface", "volume", "geometry")]),
            ("normalize_ev (tet)", "tet", lambda m, A: [shapedna.normalize_ev(m, A["ev"].copy(), meth) for meth in ("volume", "geometry")])],
    "C05": [("poisson", "tri-open", lambda m, A: Solver(m).poisson(A["f"], (A["didx"], A["ddat"]), (A["nidx"], A["ndat"]))),
            ("poisson (tet)", "tet", lambda m, A: Solver(m, lump=True).poisson(1.0, (A["didx"], A["ddat"])))],
    "C06": [("compute_gradient", "tri", lambda m, A: diffgeo.compute_gradient(m, A["f"])), ("compute_divergence", "tri", lambda m, A: diffgeo.compute_divergence(m, A["X"])),
            ("tria_compute_divergence2", "tri-open", lambda m, A: diffgeo.tria_compute_divergence2(m, A["X"])),
            ("gradient / divergence (tet)", "tet", lambda m, A: [diffgeo.compute_gradient(m, A["f"]), diffgeo.compute_divergence(m, A["X"])])],
    "C07": [("diffusion", "tri", lambda m, A: heat.diffusion(m, A["vids"], m=1.0)), ("diffusion aniso", "tri", lambda m, A: heat.diffusion(m, A["vids"], m=0.7, aniso=1.0)),
            ("diffusion (tet)", "tet", lambda m, A: heat.diffusion(m, A["vids"][:1], m=1.0))],
    "C08": [("compute_geodesic_f", "tri-flat", lambda m, A: diffgeo.compute_geodesic_f(m, A["f"])), ("tria_compute_geodesic_f", "tri", lambda m, A: diffgeo.tria_compute_geodesic_f(m, A["f"])),
            ("compute_rotated_f", "tri-flat", lambda m, A: diffgeo.compute_rotated_f(m, A["f"])), ("compute_geodesic_f (tet)", "tet", lambda m, A: diffgeo.compute_geodesic_f(m, A["f"]))],
    "C13": [("measures", "tri", lambda m, A: [m.tria_areas(), m.area(), m.vertex_areas(), m.volume(), m.centroid()[0], m.tria_normals(), m.vertex_normals(), m.tria_qualities(), m.avg_edge_length()]),
            ("avg_edge_length (tet)", "tet", lambda m, A: m.avg_edge_length())],
    "C15": [("transfer / smoothing", "tri-open", lambda m, A: [m.map_tfunc_to_vfunc(A["tf"], True), m.map_vfunc_to_tfunc(A["f"]), m.smooth_vfunc(A["f"], 3)])],
    "C16": [("level_length / level_path", "tri-flat", lambda m, A: [m.level_length(A["g"], 0.123), m.level_length(m.v[:, 0], float(np.median(m.v[:, 0])) + 1e-3)])],
    "C17": [("curvature", "tri", lambda m, A: list(m.curvature(2))[2:6]), ("curvature_tria", "tri", lambda m, A: list(m.curvature_tria(2))[2:])],
    "C18": [("spherical_conformal_map", "tri-fine", lambda m, A: conformal.spherical_conformal_map(m)),
            ("linear_beltrami_solver", "tri-grid", _lbs),
            ("beltrami_coefficient", "tri-grid", lambda m, A: conformal.beltrami_coefficient(m, np.column_stack([1.2 * m.v[:, 0] + 0.3 * m.v[:, 1], 0.9 * m.v[:, 1], 0 * m.v[:, 0]])))],
    "C19": [("tria_mean_curvature_flow", "tri", lambda m, A: diffgeo.tria_mean_curvature_flow(m, max_iter=3)),
            ("tria_spherical_project", "tri-fine", lambda m, A: diffgeo.tria_spherical_project(m, flow_iter=2).v)],
}

def _loops(m):
    try:
        return [list(map(int, l)) for l in m.boundary_loops()]
    except ValueError:
        return "ValueError"


def _edges(m):
    out = []
    for wb in (False, True):
        try:
            out.append([np.asarray(x) for x in m.edges(with_boundary=wb)])
        except ValueError:
            out.append("ValueError")
    return out


API["C09"] = [("connectivity queries", "tri-open", lambda m, A: [bool(m.is_closed()), bool(m.is_manifold()), bool(m.is_oriented()), int(m.euler()), m.vertex_degrees(),
                                                                    bool(m.has_free_vertices()), _loops(m)]),
              ("connectivity queries (closed)", "tri", lambda m, A: [bool(m.is_closed()), bool(m.is_manifold()), bool(m.is_oriented()), int(m.euler()), m.vertex_degrees(), _loops(m)]),
              ("edges", "tri", lambda m, A: _edges(m)), ("edges (open)", "tri-open", lambda m, A: _edges(m)),
              ("construct_adj_dir_tidx", "tri", lambda m, A: m.construct_adj_dir_tidx())]
API["C10"] = [("orient_ on a copy", "tri", lambda m, A: (lambda c: [c.orient_(), c.t])(TriaMesh(np.array(m.v), np.array(m.t))))]
API["C11"] = [("refine_ on a copy", "tri-open", lambda m, A: (lambda c: [c.refine_(), c.v, c.t][1:])(TriaMesh(np.array(m.v), np.array(m.t))))]
_tetq = lambda m, A: [bool(m.is_oriented()), (lambda b: [b.v, b.t])(m.boundary_tria()),  # noqa: E731
                      (lambda b: [b[0].t, b[1]])(m.boundary_tria(np.arange(len(m.t), dtype=float)))]
API["C12"] = [("tet queries (Delaunay fill)", "tet-delaunay", _tetq), ("tet queries", "tet", lambda m, A: [bool(m.is_oriented()), (lambda b: [b.v, b.t])(m.boundary_tria()),
                                                   (lambda b: [b[0].t, b[1]])(m.boundary_tria(np.arange(len(m.t), dtype=float)))])]

# C20 (objects stay consistent, nothing is modified behind the caller's back) concerns every function
API["C20"] = [e for k in sorted(API) for e in API[k]]

# one Solver object used for two problems in a row: the second result must be that of a fresh Solver
SOLVER_SEQ = {
    "C03": [("poisson() then eigs", lambda s, A: s.poisson(A["f"] - A["f"].mean()), lambda s, A: _ev(s.eigs(4))),
            ("poisson(dirichlet) then eigs", lambda s, A: s.poisson(1.0, (A["didx"], A["ddat"])), lambda s, A: _ev(s.eigs(3))),
            ("eigs(3) then eigs(5)", lambda s, A: s.eigs(3), lambda s, A: _ev(s.eigs(5)))],
    "C05": [("poisson(D1) then poisson(D2), same number of Dirichlet vertices", lambda s, A: s.poisson(A["f"], (A["didx"], A["ddat"])), lambda s, A: s.poisson(A["f"], (A["didx2"], A["ddat2"]))),
            ("poisson(D1) then poisson(D1) with other data", lambda s, A: s.poisson(A["f"], (A["didx"], A["ddat"])), lambda s, A: s.poisson(A["g"], (A["didx"], A["ddat2"]), (A["nidx"], A["ndat"]))),
            ("eigs then poisson", lambda s, A: s.eigs(3), lambda s, A: s.poisson(A["f"], (A["didx"], A["ddat"])))],
}


def _state(m):
    """everything a function without a trailing underscore must leave alone: vertices, elements, the cached adjacency matrices"""
    out = dict(v=np.array(m.v, copy=True), t=np.array(m.t, copy=True), vdtype=str(np.asarray(m.v).dtype), tdtype=str(np.asarray(m.t).dtype))
    for nm in ("adj_sym", "adj_dir"):
        a = getattr(m, nm, None)
        if a is not None:
            out[nm] = (a.shape, np.array(a.data, copy=True), np.array(a.indices, copy=True), np.array(a.indptr, copy=True))
    return out


def _state_diff(s0, m):
    s1 = _state(m)
    for k in s0:
        a, b = s0[k], s1.get(k)
        if isinstance(a, tuple):
            if b is None or a[0] != b[0] or any(not np.array_equal(x, y) for x, y in zip(a[1:], b[1:])):
                return k
        elif isinstance(a, str):
            if a != b:
                return k
        elif b is None or a.shape != b.shape or not np.array_equal(a, b, equal_nan=True):
            return k
    return None


def _mixed(kind):
    """the same mesh with inconsistent winding (functions that 'repair' the orientation of their argument show here)"""
    m = make(kind)
    t = np.array(m.t); t[::3] = t[::3][:, [0, 2, 1] + ([3] if t.shape[1] == 4 else [])]
    with core.quiet():
        return TetMesh(np.array(m.v), t) if kind.startswith("tet") else TriaMesh(np.array(m.v), t)


def purity(prop, stats=None):
    """no function of the property modifies the mesh it is given (vertices, elements, cached adjacency), the arrays of its caller, or a
    result it returned earlier"""
    import copy
    fails = []
    for name, kind, fn in API.get(prop, []):
        for variant in ("as-is", "mixed-orientation"):
            try:
                with core.quiet():
                    m = make(kind) if variant == "as-is" else _mixed(kind)
                    A = args(m)
            except Exception:  # noqa: BLE001
                continue
            A0 = {k: copy.deepcopy(a) for k, a in A.items()}
            s0 = _state(m)
            first = None
            try:
                with core.quiet():
                    first = fn(m, A)
            except Exception:  # noqa: BLE001
                pass               # rejecting the input is fine; changing it is not
            if stats is not None:
                stats.monitor("functions checked for leaving mesh state and caller arrays untouched")
            d = _state_diff(s0, m)
            if d:
                fails.append(core.Failure("correspondence", "purity: " + name, "%s (%s mesh) changed `%s` of the mesh passed to it" % (name, variant, d),
                                          dict(kind="reuse", prop=prop, name=name, what="purity")))
                break
            bad = [k for k in A0 if not _same_obj(A0[k], A[k])]
            if bad:
                fails.append(core.Failure("correspondence", "purity: " + name, "%s wrote into the caller's `%s`" % (name, bad[0]), dict(kind="reuse", prop=prop, name=name, what="purity")))
                break
            if isinstance(first, (TriaMesh, TetMesh)) and first is not m:
                # a mesh handed back is an object of its own: whatever is done to it in place leaves the argument as it was, and vice versa
                bad = None
                for who, target, other in (("the returned mesh", first, m), ("the argument", m, first)):
                    so = _state(other)
                    for mname, mut in mutators(kind) + [("normalize_()", lambda x: x.normalize_())] * (kind.startswith("tri")):
                        if core.call(mut, target)[0] == "ok" and _state_diff(so, other):
                            bad = "%s on %s changed `%s` of the other mesh" % (mname, who, _state_diff(so, other))
                            break
                    if bad:
                        break
                if stats is not None:
                    stats.monitor("meshes handed back checked for independence from the argument")
                if bad:
                    fails.append(core.Failure("correspondence", "purity: " + name, "%s (%s mesh): %s" % (name, variant, bad), dict(kind="reuse", prop=prop, name=name, what="purity")))
                    break
                continue
            if first is not None and variant == "as-is":
                # a result handed out earlier must not change when the function is used again on something else
                snap = copy.deepcopy(first)
                try:
                    with core.quiet():
                        other = make(kind)
                        movers(kind)[-1 if kind.startswith("tet") else 2][1](other)
                        fn(other, args(other))
                except Exception:  # noqa: BLE001
                    continue
                if _cmp(first, snap, 0.0):
                    fails.append(core.Failure("correspondence", "purity: " + name, "a result returned by %s changed when the function was called again on another mesh" % name,
                                              dict(kind="reuse", prop=prop, name=name, what="purity")))
                    break
    return fails


def _same_obj(a, b):
    if isinstance(a, np.ndarray) or isinstance(b, np.ndarray):
        a = np.asarray(a); b = np.asarray(b)
        return a.shape == b.shape and a.dtype == b.dtype and np.array_equal(a, b, equal_nan=(a.dtype.kind == "f"))
    return a == b


def _cmp(a, b, tol=1e-7):
    """None if equal up to rounding, else a short description"""
    if isinstance(a, (TriaMesh, TetMesh)):
        return _cmp([a.v, a.t], [b.v, b.t], tol)
    if sp.issparse(a) or sp.issparse(b):
        if not (sp.issparse(a) and sp.issparse(b)) or a.shape != b.shape:
            return "sparse shapes differ"
        d = abs(a - b).max() if a.nnz + b.nnz else 0.0
        return None if d <= tol * max(abs(b).max() if b.nnz else 0.0, 1e-300) else "sparse matrices differ by %.3g" % d
    if isinstance(a, (list, tuple)):
        if not isinstance(b, (list, tuple)) or len(a) != len(b):
            return "lengths differ"
        for x, y in zip(a, b):
            r = _cmp(x, y, tol)
            if r:
                return r
        return None
    if isinstance(a, dict):
        keys = [k for k in sorted(a) if k != "Eigenvectors"]          # eigenvectors are determined up to sign / rotation in eigenspaces
        if not isinstance(b, dict) or any(k not in b for k in keys):
            return "dictionary keys differ"
        return _cmp([a[k] for k in keys], [b[k] for k in keys], tol)
    a = np.asarray(a); b = np.asarray(b)
    if a.shape != b.shape:
        return "shapes %s / %s" % (a.shape, b.shape)
    if a.dtype.kind in "OUS":
        return None if np.array_equal(a, b) else "values differ"
    sc = max(float(np.nanmax(np.abs(b))) if b.size and np.isfinite(b).any() else 0.0, 1e-300)
    d = np.abs(a.astype(float) - b.astype(float))
    bad = ~((d <= tol * sc) | (np.isnan(a.astype(float)) & np.isnan(b.astype(float))))
    return None if not bad.any() else "max deviation %.3g (scale %.3g)" % (float(np.nanmax(d)), sc)


def check(prop, stats=None, quick=True):
    fails = purity(prop, stats)
    fails += solver_state(prop, stats)
    fails += histories(prop, stats, quick)
    fails += presentations(prop, stats, quick)
    fails += solver_aliasing(prop, stats)
    fails += permutations(prop, stats, quick)
    tolp = 1e-6 if prop in ("C03", "C04", "C18", "C19", "C08") else 1e-9
    for k, (name, kind, fn) in enumerate(API.get(prop, [])):
      for mname, move in movers(kind):          # every in-place change (similarities alone would hide scale-invariant caches)
        # an input the function rejects (e.g. the quality gates of tria_spherical_project after a stretch) must be rejected alike on both objects
        try:
            with core.quiet():
                m = make(kind)
                A = args(m)
            _call(fn, m, A)                   # first use of the object
            with core.quiet():
                move(m)                       # vertices change in place
            second = _call(fn, m, A)
            with core.quiet():
                fresh = TetMesh(np.array(m.v), np.array(m.t)) if kind.startswith("tet") else TriaMesh(np.array(m.v), np.array(m.t))
            ref = _call(fn, fresh, A)
        except Exception as e:  # noqa: BLE001
            fails.append(core.Failure("correspondence", "object re-use: " + name, "raised %s: %s" % (type(e).__name__, str(e)[:100]), dict(kind="reuse", prop=prop, name=name)))
            continue
        if "skip" in (second[0], ref[0]):
            continue                          # recorded finding F15
        if stats is not None:
            stats.monitor("object re-use sequences compared with a fresh object")
        r = _cmp(list(second), list(ref), tolp)
        if r:
            fails.append(core.Failure("correspondence", "object re-use: " + name,
                                      "after %s the result on the same object differs from the result on a fresh object with the same vertices: %s" % (mname, r),
                                      dict(kind="reuse", prop=prop, name=name, mover=mname)))
            break
    # another object of the same size and connectivity in between: results must not leak from one object to another
    # (the reference is computed in a forked worker whose module state is that of *before* the sequence)
    for k, (name, kind, fn) in enumerate(API.get(prop, [])):
        def ref_job(kind=kind, fn=fn):
            with core.quiet():
                m = make(kind)
            return _call(fn, m, args(m))
        ref = core.run_limited(ref_job, (), 120.0)
        try:
            with core.quiet():
                other = make(kind)
                movers(kind)[-1 if kind.startswith("tet") else 2][1](other)          # same counts, different geometry
            _call(fn, other, args(other))
            with core.quiet():
                m = make(kind)
            got = _call(fn, m, args(m))
        except Exception as e:  # noqa: BLE001
            fails.append(core.Failure("correspondence", "object independence: " + name, "raised %s: %s" % (type(e).__name__, str(e)[:100]), dict(kind="reuse", prop=prop, name=name)))
            continue
        if ref[0] != "ok" or "skip" in (got[0], ref[1][0]):
            continue
        if stats is not None:
            stats.monitor("results compared after the same function ran on another mesh of equal size")
        r = _cmp(list(got), list(ref[1]), tolp)
        if r:
            fails.append(core.Failure("correspondence", "object independence: " + name,
                                      "the result depends on a mesh of the same size processed before: %s" % r, dict(kind="reuse", prop=prop, name=name)))
    for name, first, second in SOLVER_SEQ.get(prop, []):
        try:
            with core.quiet():
                m = make("tri-open")
                A = args(m)
                s = Solver(m, lump=False)
                try:
                    first(s, A)
                except RuntimeError:
                    pass
                got = second(s, A)
                ref = second(Solver(make("tri-open"), lump=False), A)
        except Exception as e:  # noqa: BLE001
            fails.append(core.Failure("correspondence", "Solver re-use: " + name, "raised %s: %s" % (type(e).__name__, str(e)[:100]), dict(kind="reuse", prop=prop, name=name)))
            continue
        if stats is not None:
            stats.monitor("Solver re-use sequences compared with a fresh Solver")
        r = _cmp(got, ref, 1e-6)
        if r:
            fails.append(core.Failure("correspondence", "Solver re-use: " + name, "the second call on a used Solver differs from a fresh Solver: %s" % r,
                                      dict(kind="reuse", prop=prop, name=name)))
    return fails


# ---------------------------------------------------------------------------------------------------------------------------
# histories that change the CONNECTIVITY of an object between two uses, and Solver objects whose matrices must survive their use

def variants(kind):
    """presentations of the same surface / solid on which the in-place mutators have something to do"""
    def rebuild(m, v, t):
        with core.quiet():
            return TetMesh(v, t) if kind.startswith("tet") else TriaMesh(v, t)

    def as_is():
        return make(kind)

    def reversed_():
        m = make(kind)
        t = np.array(m.t)
        t[:, [1, 2]] = t[:, [2, 1]]
        return rebuild(m, np.array(m.v), t)

    def mixed():
        return _mixed(kind)

    def free_vertex():
        m = make(kind)
        v = np.insert(np.array(m.v), 2, np.array([9.0, 9.0, 9.0]), axis=0)
        t = np.array(m.t)
        t = t + (t >= 2)
        return rebuild(m, v, t)

    return [("as-is", as_is), ("all elements reversed", reversed_), ("mixed orientation", mixed), ("unused vertex at index 2", free_vertex)]


def mutators(kind):
    """public in-place operations that rewrite the elements (and re-run the constructor)"""
    out = [("orient_()", lambda m: m.orient_()), ("rm_free_vertices_()", lambda m: m.rm_free_vertices_())]
    if kind not in ("tet", "tet-delaunay", "tri-fine"):
        out.append(("refine_()", lambda m: m.refine_()))
    return out


def _call(fn, m, A):
    try:
        with core.quiet():
            return ("ok", fn(m, A))
    except RuntimeError as e:
        if "exactly singular" in str(e):
            return ("skip", None)             # recorded finding F15
        return ("err", type(e).__name__)
    except Exception as e:  # noqa: BLE001
        return ("err", type(e).__name__)


HEAVY = ("spherical_conformal_map", "tria_mean_curvature_flow", "tria_spherical_project", "curvature", "curvature_tria", "diffusion aniso", "Solver(aniso).stiffness")


def histories(prop, stats=None, quick=True):
    """use an object, change its CONNECTIVITY in place with a public mutator, use it again: the second result must be the result on a
    freshly constructed object with the current vertices and elements"""
    fails = []
    combos = [(e, vr, mu) for e in API.get(prop, []) for vr in variants(e[1]) for mu in mutators(e[1])]
    if prop == "C20" and quick:
        combos = [c for k, c in enumerate(combos) if c[0][0] not in HEAVY and k % 3 == 0]
    elif quick:
        combos = [c for c in combos if c[0][0] not in HEAVY or (c[1][0] == "all elements reversed" and c[2][0] == "orient_()")]
    done = set()
    for (name, kind, fn), (vname, mk), (mname, mut) in combos:
        if name in done:
            continue
        try:
            with core.quiet():
                m = mk()
            first = _call(fn, m, args(m))
            if core.call(mut, m)[0] != "ok":          # a mutator may reject the variant: nothing to compare
                continue
        except Exception:  # noqa: BLE001
            continue
        second = _call(fn, m, args(m))
        with core.quiet():
            fresh = TetMesh(np.array(m.v), np.array(m.t)) if kind.startswith("tet") else TriaMesh(np.array(m.v), np.array(m.t))
        ref = _call(fn, fresh, args(fresh))
        if "skip" in (second[0], ref[0]):
            continue
        if stats is not None:
            stats.monitor("use / connectivity mutator / use sequences compared with a fresh object")
        r = _cmp(list(second), list(ref), 1e-6 if prop in ("C03", "C04", "C18", "C19", "C08", "C20") else 1e-9)
        if r:
            done.add(name)
            fails.append(core.Failure("correspondence", "history: " + name,
                                      "%s, then %s on a mesh with %s, then %s again: differs from a fresh object with the same vertices and elements: %s"
                                      % (name, mname, vname, name, r), dict(kind="reuse", prop=prop, name=name, what="history")))
    return fails


def presentations(prop, stats=None, quick=True):
    """the same vertices and elements handed over in another memory layout / index width (Fortran order, 3 x n input, strided views,
    int32 / uint32 / uint16 indices) must give the same result: the Lean model sees values only"""
    fails = []
    plist = ["t-fortran", "transposed", "strided", "t-uint32", "vt-fortran", "t-int32", "t-uint16"]
    for name, kind, fn in API.get(prop, []):
        if quick and name in HEAVY and prop == "C20":
            continue
        for variant in ("as-is", "mixed orientation"):
            with core.quiet():
                m0 = make(kind) if variant == "as-is" else _mixed(kind)
            ref = _call(fn, m0, args(m0))
            if ref[0] == "skip":
                continue
            for pres in (plist[:4] if quick and (name in HEAVY or prop == "C20") else plist):
                v, t = gen.present(np.array(m0.v), np.array(m0.t), pres)
                try:
                    with core.quiet():
                        m = TetMesh(v, t) if kind.startswith("tet") else TriaMesh(v, t)
                except Exception:  # noqa: BLE001
                    continue
                got = _call(fn, m, args(m))
                if got[0] == "skip":
                    continue
                if stats is not None:
                    stats.monitor("results compared across memory layouts / index widths of the same mesh")
                r = _cmp(list(got), list(ref), 1e-6 if prop in ("C03", "C04", "C18", "C19", "C08", "C20") else 1e-9)
                if r:
                    fails.append(core.Failure("correspondence", "presentation: " + name, "%s on the %s mesh handed over as `%s` differs from the plain "
                                              "row-major int64 presentation of the same values: %s" % (name, variant, pres, r),
                                              dict(kind="reuse", prop=prop, name=name, what="presentation")))
                    break
            else:
                continue
            break
        else:
            # whole-number coordinates stored as integers vs the same numbers stored as float64
            with core.quiet():
                m0 = make(kind)
            vi = np.rint(64 * np.array(m0.v))
            try:
                with core.quiet():
                    mf = TetMesh(vi.copy(), np.array(m0.t)) if kind.startswith("tet") else TriaMesh(vi.copy(), np.array(m0.t))
                    mi = TetMesh(vi.astype(np.int64), np.array(m0.t)) if kind.startswith("tet") else TriaMesh(vi.astype(np.int64), np.array(m0.t))
            except Exception:  # noqa: BLE001
                continue
            ref, got = _call(fn, mf, args(mf)), _call(fn, mi, args(mi))
            if "skip" in (ref[0], got[0]):
                continue
            if stats is not None:
                stats.monitor("results compared across memory layouts / index widths of the same mesh")
            r = _cmp(list(got), list(ref), 1e-6 if prop in ("C03", "C04", "C18", "C19", "C08", "C20") else 1e-9)
            if r:
                fails.append(core.Failure("correspondence", "presentation: " + name, "%s on a mesh with whole-number coordinates stored as int64 differs from the "
                                          "same coordinates stored as float64: %s" % (name, r), dict(kind="reuse", prop=prop, name=name, what="presentation")))
    return fails


SOLVER_OPS = [("poisson(f)", lambda s, A: s.poisson(A["f"] - A["f"].mean())), ("poisson(scalar)", lambda s, A: s.poisson(0.0, (A["didx"], A["ddat"]))),
              ("poisson(f, dirichlet, neumann)", lambda s, A: s.poisson(A["f"], (A["didx"], A["ddat"]), (A["nidx"], A["ndat"]))),
              ("poisson(f, neumann)", lambda s, A: s.poisson(A["f"] - A["f"].mean(), (), (A["nidx"], A["ndat"]))),
              ("eigs(3)", lambda s, A: s.eigs(3))]


def solver_state(prop, stats=None):
    """the matrices a Solver exposes are those of its mesh, before and after any of its methods was used"""
    fails = []
    if prop not in ("C01", "C02", "C03", "C05", "C20"):
        return fails
    for kind, lump in (("tri-open", False), ("tri", True), ("tet", False)):
        for oname, op in SOLVER_OPS:
            try:
                with core.quiet():
                    m = make(kind)
                    A = args(m)
                    s = Solver(m, lump=lump)
                    a0, b0 = s.stiffness.copy(), s.mass.copy()
                    try:
                        op(s, A)
                    except RuntimeError:
                        pass
                    a1, b1 = s.stiffness, s.mass
            except Exception:  # noqa: BLE001
                continue
            if stats is not None:
                stats.monitor("Solver matrices compared before / after a method call")
            r = _cmp(a1, a0, 0.0) or _cmp(b1, b0, 0.0)
            if r:
                fails.append(core.Failure("correspondence", "Solver state: " + oname, "after %s (%s mesh, lump=%s) the stiffness / mass matrix exposed by the Solver "
                                          "is no longer the one assembled from its mesh: %s" % (oname, kind, lump, r), dict(kind="reuse", prop=prop, name=oname, what="solver-state")))
                break
    return fails


def solver_aliasing(prop, stats=None):
    """the matrices a Solver exposes are independent objects: compacting / sorting / scaling one of them in place (public scipy methods on a
    public attribute) leaves the other exactly as it was.  Meshes with right angles are used: their stiffness matrices store exact zeros."""
    fails = []
    if prop not in ("C01", "C02", "C20"):
        return fails
    ops = [("eliminate_zeros()", lambda a: a.eliminate_zeros()), ("sort_indices()", lambda a: a.sort_indices()), ("data *= 2", lambda a: a.data.__imul__(2.0)),
           ("sum_duplicates()", lambda a: a.sum_duplicates())]
    for kind in ("tri-grid", "tet-grid", "tri"):
        for lump in (False, True):
            for which in ("stiffness", "mass"):
                for oname, op in ops:
                    try:
                        with core.quiet():
                            s = Solver(make(kind), lump=lump)
                            touched, other = (s.stiffness, s.mass) if which == "stiffness" else (s.mass, s.stiffness)
                            ref = other.copy()
                            ref_dense = other.toarray().copy()
                            op(touched)
                            now = getattr(s, "mass" if which == "stiffness" else "stiffness")
                            same = now.shape == ref.shape and np.array_equal(now.toarray(), ref_dense)
                    except Exception:  # noqa: BLE001
                        continue
                    if stats is not None:
                        stats.monitor("Solver matrices checked for independence of each other")
                    if not same:
                        fails.append(core.Failure("correspondence", "Solver aliasing: " + which, "after %s.%s on a Solver(%s mesh, lump=%s) the %s matrix is no longer the one assembled "
                                                  "from the mesh" % (which, oname, kind, lump, "mass" if which == "stiffness" else "stiffness"),
                                                  dict(kind="reuse", prop=prop, name=which, what="solver-aliasing")))
                        return fails
    return fails


def permutations(prop, stats=None, quick=True):
    """the order in which the elements are listed is immaterial: per-vertex and global results are unchanged, per-element results are permuted
    alike (results are classified by their leading dimension; meshes have different numbers of vertices and elements)"""
    fails = []
    if prop not in ("C01", "C02", "C03", "C04", "C05", "C06", "C07", "C08", "C13", "C15", "C16", "C17", "C19"):
        return fails

    def conv(x, nv, ne, perm):
        if isinstance(x, (TriaMesh, TetMesh)):
            return np.asarray(x.v)
        if sp.issparse(x):
            return x
        if isinstance(x, dict):
            return {k: conv(v, nv, ne, perm) for k, v in x.items() if k != "Eigenvectors"}
        if isinstance(x, (list, tuple)):
            return [conv(y, nv, ne, perm) for y in x]
        a = np.asarray(x)
        if a.ndim >= 1 and a.shape[0] == ne and ne != nv and perm is not None:
            return a[perm]
        return x

    for name, kind, fn in API.get(prop, []):
        if quick and name in ("spherical_conformal_map", "tria_spherical_project"):
            continue
        for variant in ("open-first" if kind in ("tri", "tri-fine") else "as-is",):
            with core.quiet():
                m0 = make(kind)
            v0, t0 = np.array(m0.v), np.array(m0.t)
            if kind == "tri":              # an open curved surface as well: drop two triangles of the closed one
                t0 = t0[2:]
                used = np.unique(t0)
                if len(used) != len(v0):
                    continue
            ne, nv = len(t0), len(v0)
            if ne == nv:
                continue
            rng = gen.rng_for(0, "reuse-perm", name)
            for pname, perm in (("reversed element order", np.arange(ne)[::-1]), ("random element order", rng.permutation(ne))):
                try:
                    with core.quiet():
                        ma = TetMesh(v0.copy(), t0.copy()) if kind.startswith("tet") else TriaMesh(v0.copy(), t0.copy())
                        mb = TetMesh(v0.copy(), t0[perm].copy()) if kind.startswith("tet") else TriaMesh(v0.copy(), t0[perm].copy())
                except Exception:  # noqa: BLE001
                    continue
                Aa, Ab = args(ma), args(mb)
                for k2 in ("X", "tf"):               # per-element arguments follow their elements
                    Ab[k2] = Aa[k2][perm]
                ra, rb = _call(fn, ma, Aa), _call(fn, mb, Ab)
                if "skip" in (ra[0], rb[0]):
                    continue
                if stats is not None:
                    stats.monitor("results compared under permutation of the element list")
                if ra[0] != rb[0]:
                    r = "outcomes differ: %s / %s" % (ra[:2], rb[:2])
                elif ra[0] == "ok":
                    # (anisotropic matrices are stored in single precision: a different summation order shows at 1e-7)
                    r = _cmp(conv(rb[1], nv, ne, None), conv(ra[1], nv, ne, perm),
                             1e-4 if "aniso" in name else 1e-6 if prop in ("C03", "C04", "C18", "C19", "C08", "C17") else 1e-9)
                else:
                    r = None
                if r:
                    fails.append(core.Failure("correspondence", "element order: " + name, "%s with the elements listed in %s differs from the result for the original "
                                              "order (per-element results permuted alike): %s" % (name, pname, r), dict(kind="reuse", prop=prop, name=name, what="permutation")))
                    break
    return fails


def oracle(case):
    """failing-input side: re-run the named sequence and report it as a violation of statelessness"""
    prop = case.get("prop")
    for f in check(prop, None, os.environ.get("VERIF_ESCALATED") != "1"):
        if f.case and f.case.get("name") == case.get("name"):
            return core.Violation("reuse", "%s: %s" % (f.name, f.detail), case)
    return None
