"""FreeSurfer binary surface files: implementation side (nibabel writer = format definition, LaPy's bundled reader) and the
wire format of the driver operations `fs_read` / `fs_write` (model: lean/LapyVerif/Model/FsSurf.lean)."""
import io
import warnings

import numpy as np

from . import repo, core, wire  # noqa: F401

KEYS3 = ["volume", "voxelsize", "xras", "yras", "zras", "cras"]


def hx(s):
    if isinstance(s, str):
        s = s.encode()
    return s.hex() if s else "-"


def unhx(s):
    return "" if s == "-" else bytes.fromhex(s).decode("utf-8", errors="replace")


def info_tokens(info):
    """the footer as the text tokens nibabel writes (numbers formatted by its own format strings)"""
    if not info:
        return None
    out = dict(head=[int(x) for x in np.asarray(info["head"]).reshape(-1)], valid=str(info["valid"]), filename=str(info["filename"]))
    out["volume"] = [str(x) for x in np.asarray(info["volume"]).reshape(-1)[:3]]
    for k in KEYS3[1:]:
        out[k] = ["%.10g" % float(x) for x in np.asarray(info[k]).reshape(-1)[:3]]
    return out


def info_wire(tok):
    if tok is None:
        return "none"
    s = "info %d %s %s %s" % (len(tok["head"]), " ".join(str(x) for x in tok["head"]), hx(tok["valid"]), hx(tok["filename"]))
    for k in KEYS3:
        s += " %d %s" % (len(tok[k]), " ".join(hx(x) for x in tok[k]))
    return s


def write_impl(path, stamp, v, t, info):
    """the format definition: nibabel's write_geometry (what TriaMesh.write_fssurf calls), with an explicit stamp"""
    from nibabel.freesurfer.io import write_geometry
    with warnings.catch_warnings():
        warnings.simplefilter("ignore")
        write_geometry(path, np.asarray(v), np.asarray(t), create_stamp=stamp, volume_info=info)
    with open(path, "rb") as f:
        return f.read()


def read_impl(path):
    """LaPy's bundled reader as read_fssurf uses it (+ the stamp): ('ok', stamp, coords uint32 bits, faces, info dict|None) | ('err', name)"""
    from lapy._read_geometry import read_geometry
    try:
        with warnings.catch_warnings():
            warnings.simplefilter("ignore")
            with core.quiet():
                coords, faces, info, stamp = read_geometry(path, read_metadata=True, read_stamp=True)
    except Exception as e:  # noqa: BLE001
        return ("err", type(e).__name__)
    bits = np.asarray(coords, dtype=np.float64).astype(np.float32).reshape(-1).view(np.uint32)
    return ("ok", stamp, [int(x) for x in bits], [int(x) for x in np.asarray(faces).reshape(-1)], dict(info) if len(info) else None)


def model_read(drv, data):
    r = wire.Reply(drv.ask("fs_read %s" % hx(data)))
    if r.status != "ok":
        return ("err", r.raw.split()[1] if len(r.raw.split()) > 1 else r.raw)
    stamp = unhx(r.tok())
    nv = r.nat()
    coords = [int(r.tok(), 16) for _ in range(3 * nv)]
    nf = r.nat()
    faces = [int(r.tok()) for _ in range(3 * nf)]
    kind = r.tok()
    info = None
    if kind == "info":
        k = r.nat()
        info = dict(head=[int(r.tok()) for _ in range(k)], valid=unhx(r.tok()), filename=unhx(r.tok()))
        for key in KEYS3:
            n = r.nat()
            info[key] = [unhx(r.tok()) for _ in range(n)]
    return ("ok", stamp, coords, faces, info)


def model_write(drv, stamp, bits, faces, tok):
    nv, nf = len(bits) // 3, len(faces) // 3
    r = wire.Reply(drv.ask("fs_write %s %d %s %d %s %s" % (hx(stamp), nv, " ".join("%08x" % b for b in bits), nf, " ".join(str(int(x)) for x in faces), info_wire(tok))))
    if r.status != "ok":
        return None
    t = r.tok()
    return b"" if t == "-" else bytes.fromhex(t)


def numeric_failure(tokens_by_key):
    """the model keeps footer numbers as text; Python converts them (`astype(int)` / `astype(float)`) line by line and raises ValueError
    at the first token that is not a number.  Returns the key of the first such line, or None."""
    for k in KEYS3:
        for tok in tokens_by_key.get(k, []):
            try:
                int(tok) if k == "volume" else float(tok)
            except ValueError:
                return k
    return None


def footer_lines_numeric_failure(data):
    """scan the key lines of a (possibly truncated) footer in reading order: ('ValueError' | 'OSError' | None) that Python meets first.
    Used only to adjudicate malformed numbers, which the model does not interpret."""
    keys = ["valid", "filename"] + KEYS3
    # locate the footer: after the head ints the text starts with b"valid"
    i = data.find(b"valid")
    if i < 0:
        return None
    rest = data[i:]
    for k in keys:
        nl = rest.find(b"\n")
        line, rest = (rest, b"") if nl < 0 else (rest[:nl + 1], rest[nl + 1:])
        try:
            pair = line.decode("utf-8").split("=")
        except UnicodeDecodeError:
            return "ValueError"
        if pair[0].strip() != k or len(pair) != 2:
            return "OSError"
        if k in KEYS3:
            for tok in pair[1].split():
                try:
                    int(tok) if k == "volume" else float(tok)
                except ValueError:
                    return "ValueError"
    return None


def same(a, b, data=None):
    """implementation result vs model result (numbers of the footer: model has text tokens, implementation parsed values)"""
    if a[0] == "err" and a[1] == "ValueError" and data is not None and (b[0] == "ok" or b[1] == "OSError"):
        # a malformed number in the footer: Python stops there with ValueError; the model (text tokens) goes on
        return footer_lines_numeric_failure(data) == "ValueError"
    if a[0] != b[0]:
        return False
    if a[0] == "err":
        return a[1] == b[1]
    if a[1] != b[1] or a[2] != b[2] or a[3] != b[3]:
        return False
    ia, ib = a[4], b[4]
    if (ia is None) != (ib is None):
        return False
    if ia is None:
        return True
    try:
        if [int(x) for x in np.asarray(ia["head"]).reshape(-1)] != ib["head"] or ia["valid"] != ib["valid"] or ia["filename"] != ib["filename"]:
            return False
        if [int(x) for x in ia["volume"]] != [int(x) for x in ib["volume"]]:
            return False
        for k in KEYS3[1:]:
            if [float(x) for x in ia[k]] != [float(x) for x in ib[k]]:
                return False
    except Exception:  # noqa: BLE001
        return False
    return True
