"""Common machinery of a check: the decision procedure of DESIGN.md section 2.1, evidence, replays, known findings."""
import contextlib
import io
import json
import multiprocessing as mp
import os
import sys
import time
import traceback

import warnings

import numpy as np

warnings.filterwarnings("ignore")
np.seterr(all="ignore")

from . import repo, lean

EVID_DIR = os.path.join(repo.VERIF, "evidence")
REPLAY_DIR = os.path.join(repo.VERIF, "replays")
CORPUS_DIR = os.path.join(repo.VERIF, "corpus")

TRUSTED_BASE = [
    "Lean 4.33.0 kernel; Mathlib v4.33.0; axioms limited to propext, Classical.choice, Quot.sound (audited by #print axioms each run)",
    "floating point modelled as real arithmetic; decimal literals as the rationals they denote",
    "translators: vcheck/sym.py (object-dtype tracing of the NumPy kernels, duplicate-summing sparse shim), vcheck/astx.py",
    "correspondence check: generators, canonicalisation, tolerances, driver parser/printer (lean/Driver)",
]


@contextlib.contextmanager
def quiet():
    """LaPy prints progress messages; keep stdout clean for the VIOLATION protocol"""
    buf = io.StringIO()
    with contextlib.redirect_stdout(buf):
        yield buf


def _worker(q, fn, args):
    try:
        with quiet():
            r = fn(*args)
        q.put(("ok", r))
    except BaseException as e:  # noqa: BLE001
        q.put(("err", type(e).__name__, str(e)[:300]))


def run_limited(fn, args=(), timeout=20.0):
    """run fn(*args) in a forked, killable worker: ('ok', result) | ('err', kind, msg) | ('timeout',)"""
    ctx = mp.get_context("fork")
    q = ctx.Queue()
    p = ctx.Process(target=_worker, args=(q, fn, args))
    p.start()
    try:
        r = q.get(timeout=timeout)
    except Exception:
        r = ("timeout",)
    p.join(0.5)
    if p.is_alive():
        p.kill()
        p.join()
    return r


class CallTimeout(Exception):
    pass


CALL_LIMIT = float(os.environ.get("VERIF_CALL_LIMIT", "20"))


def call(fn, *args, **kw):
    """call implementation code, mapping exceptions to ('err', kind); a call that does not return within CALL_LIMIT seconds
    (LaPy's flood loops are Python-level `while` loops that may spin for ever on input they do not expect) is interrupted and
    reported as ('err', 'Timeout')"""
    import signal
    import threading
    use_alarm = threading.current_thread() is threading.main_thread() and hasattr(signal, "setitimer")
    if use_alarm:
        def on_alarm(signum, frame):
            raise CallTimeout("call exceeded %.0f s" % CALL_LIMIT)
        old_handler = signal.signal(signal.SIGALRM, on_alarm)
        old_timer = signal.setitimer(signal.ITIMER_REAL, CALL_LIMIT)
    try:
        with quiet():
            return ("ok", fn(*args, **kw))
    except CallTimeout as e:
        return ("err", "Timeout", str(e))
    except Exception as e:  # noqa: BLE001
        return ("err", type(e).__name__, str(e)[:200])
    finally:
        if use_alarm:
            signal.setitimer(signal.ITIMER_REAL, 0)
            signal.signal(signal.SIGALRM, old_handler)
            if old_timer and old_timer[0] > 0:
                signal.setitimer(signal.ITIMER_REAL, old_timer[0])


def jsonable(x):
    if isinstance(x, np.ndarray):
        return x.tolist()
    if isinstance(x, (np.integer,)):
        return int(x)
    if isinstance(x, (np.floating,)):
        return float(x)
    if isinstance(x, (set, frozenset)):
        return sorted(jsonable(y) for y in x)
    if isinstance(x, dict):
        return {str(k): jsonable(v) for k, v in x.items()}
    if isinstance(x, (list, tuple)):
        return [jsonable(y) for y in x]
    if isinstance(x, complex):
        return [x.real, x.imag]
    return x


class Stats:
    """measured coverage of one run"""

    def __init__(self):
        self.evaluations = 0
        self.distinct = set()
        self.samples = []
        self.hist = {}
        self.monitors = {}

    def case(self, key, nontrivial=True, sample=None, cls=None):
        self.evaluations += 1
        if nontrivial:
            self.distinct.add(key)
        if sample is not None and len(self.samples) < 4:
            self.samples.append(jsonable(sample))
        if cls is not None:
            for c in (cls if isinstance(cls, (list, tuple, set)) else [cls]):
                self.hist[c] = self.hist.get(c, 0) + 1

    def monitor(self, name, value=1):
        self.monitors[name] = self.monitors.get(name, 0) + value


class Failure:
    """a broken tie (obligation / correspondence / monitor) — not by itself a violation"""

    def __init__(self, kind, name, detail="", case=None):
        self.kind = kind        # 'obligation' | 'translate' | 'correspondence' | 'monitor'
        self.name = name
        self.detail = detail
        self.case = case        # the input on which it was observed (for correspondence), seeds the search

    def to_json(self):
        return dict(kind=self.kind, name=self.name, detail=self.detail[:4000], case=jsonable(self.case))


class Violation:
    def __init__(self, clause, what, case, observed=None, expected=None):
        self.clause = clause
        self.what = what
        self.case = case
        self.observed = observed
        self.expected = expected


def load_known():
    p = os.path.join(repo.VERIF, "known_findings.json")
    try:
        with open(p) as f:
            return json.load(f)["findings"]
    except FileNotFoundError:
        return []


def mesh_key(v, t, *extra):
    import hashlib
    h = hashlib.sha1()
    h.update(np.ascontiguousarray(np.asarray(v, dtype=np.float64)).tobytes())
    h.update(np.ascontiguousarray(np.asarray(t, dtype=np.int64)).tobytes())
    for e in extra:
        h.update(repr(e).encode())
    return h.hexdigest()[:16]


def relerr(a, b):
    a = np.asarray(a, dtype=np.float64); b = np.asarray(b, dtype=np.float64)
    if a.shape != b.shape:
        return float("inf")
    if a.size == 0:
        return 0.0
    if not (np.all(np.isfinite(a)) and np.all(np.isfinite(b))):
        return 0.0 if np.array_equal(np.isfinite(a), np.isfinite(b)) and np.allclose(a[np.isfinite(a)], b[np.isfinite(b)]) else float("inf")
    scale = max(np.max(np.abs(a)), np.max(np.abs(b)), 1e-300)
    return float(np.max(np.abs(a - b)) / scale)


def sparse_from(i, j, d, n, m=None):
    from scipy import sparse
    return sparse.csc_matrix((d, (i, j)), shape=(n, m if m is not None else n))


def sparse_relerr(a, b):
    """max |a-b| / max(|a|,|b|) over two sparse matrices of equal shape"""
    if a.shape != b.shape:
        return float("inf")
    d = abs(a - b)
    scale = max(abs(a).max() if a.nnz else 0.0, abs(b).max() if b.nnz else 0.0, 1e-300)
    return float((d.max() if d.nnz else 0.0) / scale)
