#!/usr/bin/env python3
"""developer tool: confirm and evaluate a seeded change.

  seedtest.py verify <dir>     dir holds patch.diff, demo.py, meta.json: in a scratch worktree of /repo under /tmp check that the suite
                               passes with the patch, the demo fails with it and passes without it; removes the worktree afterwards
  seedtest.py run <dir> [tier] apply the patch to /repo, run the property's check, undo the patch (git checkout -- .), regenerate Generated/
"""
import json, os, subprocess, sys, time

HERE = os.path.dirname(os.path.dirname(os.path.abspath(__file__)))


def sh(cmd, cwd=None, timeout=3000):
    p = subprocess.run(cmd, shell=True, cwd=cwd, capture_output=True, text=True, timeout=timeout)
    return p.returncode, p.stdout + p.stderr


def verify(d):
    wt = "/tmp/seedverify_%d" % os.getpid()
    sh("git -C /repo worktree add -q --detach %s HEAD" % wt)
    try:
        res = {}
        rc, out = sh("/venv/bin/python %s/demo.py" % d, cwd=wt)
        res["demo_clean_rc"] = rc
        rc, out = sh("git apply %s/patch.diff" % d, cwd=wt)
        res["apply_rc"] = rc
        rc, out = sh("/venv/bin/python %s/demo.py" % d, cwd=wt)
        res["demo_patched_rc"] = rc
        res["demo_patched_out"] = out[-300:]
        for attempt in range(2):      # one retry: a test of the suite is occasionally flaky under load
            rc, out = sh("/venv/bin/python -m pytest -q -p no:cacheprovider --timeout=900 --continue-on-collection-errors 2>&1 | tail -1", cwd=wt)
            res["suite"] = out.strip()[-120:]
            sh("git checkout -q -- data", cwd=wt)
            if "159 passed" in res["suite"]:
                break
        res["ok"] = res["demo_clean_rc"] == 0 and res["apply_rc"] == 0 and res["demo_patched_rc"] != 0 and "159 passed" in res["suite"] and "failed" not in res["suite"]
        return res
    finally:
        sh("git -C /repo worktree remove --force %s" % wt)


def run(d, tier="quick"):
    meta = json.load(open(os.path.join(d, "meta.json")))
    pid = meta["property"]
    assert sh("git -C /repo status --porcelain")[1].strip() == "", "/repo not clean"
    rc, out = sh("git -C /repo apply %s/patch.diff" % d)
    assert rc == 0, out
    try:
        t0 = time.time()
        rc, out = sh("/venv/bin/python check.py %s --tier %s" % (pid, tier), cwd=HERE)
        lines = [l for l in out.split("\n") if l.strip()]
        return dict(property=pid, tier=tier, rc=rc, wall_s=round(time.time() - t0, 1), tail=lines[-6:])
    finally:
        sh("git -C /repo checkout -- .")
        sh("/venv/bin/python tools/regen.py", cwd=HERE)


if __name__ == "__main__":
    mode, d = sys.argv[1], os.path.abspath(sys.argv[2])
    r = verify(d) if mode == "verify" else run(d, *(sys.argv[3:4]))
    print(json.dumps(r, indent=1))
