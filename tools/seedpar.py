#!/usr/bin/env python3
"""developer tool: evaluate seeded changes in parallel.  Every worker owns a scratch copy of /verif (with its Lean build) and a scratch
git worktree of /repo under /tmp/seedpar/ (removed at the end); a patch is applied to the worker's worktree, the property's check runs in
the worker's copy with LAPY_REPO pointing at that worktree, the patch is undone and Generated/ is regenerated from the clean worktree.
/repo itself is never touched.  usage: seedpar.py [--workers N] [--tier quick] [--seed S] [ids...]   (results go to seeded/<id>/meta.json)"""
import json, os, subprocess, sys, time
from concurrent.futures import ThreadPoolExecutor
from queue import Queue

HERE = os.path.dirname(os.path.dirname(os.path.abspath(__file__)))
BASE = "/tmp/seedpar"


def sh(cmd, cwd=None, env=None, timeout=3000):
    p = subprocess.run(cmd, shell=True, cwd=cwd, env=env, capture_output=True, text=True, timeout=timeout)
    return p.returncode, p.stdout + p.stderr


def main():
    a = sys.argv[1:]
    workers, tier, seed = 6, "quick", os.environ.get("VERIF_SEED", "0")
    while a and a[0].startswith("--"):
        k = a.pop(0)
        if k == "--workers":
            workers = int(a.pop(0))
        elif k == "--tier":
            tier = a.pop(0)
        elif k == "--seed":
            seed = a.pop(0)
    ids = a or sorted(d for d in os.listdir(os.path.join(HERE, "seeded")) if os.path.exists(os.path.join(HERE, "seeded", d, "patch.diff")))
    workers = min(workers, len(ids))
    sh("rm -rf %s; mkdir -p %s" % (BASE, BASE))
    sh("git -C /repo worktree prune")
    pool = Queue()
    for k in range(workers):
        wv, wr = "%s/w%d/verif" % (BASE, k), "%s/w%d/repo" % (BASE, k)
        os.makedirs(os.path.dirname(wv), exist_ok=True)
        rc, out = sh("rsync -a --exclude .git --exclude replays --exclude __pycache__ %s/ %s/" % (HERE, wv))
        assert rc == 0, out
        rc, out = sh("git -C /repo worktree add -q --detach %s HEAD" % wr)
        assert rc == 0, out
        pool.put((wv, wr))

    def one(d):
        wv, wr = pool.get()
        try:
            sd = os.path.join(HERE, "seeded", d)
            meta = json.load(open(os.path.join(sd, "meta.json")))
            pid = meta["property"]
            env = dict(os.environ, LAPY_REPO=wr, VERIF_SEED=str(seed))
            rc, out = sh("git apply %s/patch.diff" % sd, cwd=wr)
            if rc != 0:
                return d, dict(error="patch does not apply: " + out[-200:])
            t0 = time.time()
            try:
                rc, out = sh("/venv/bin/python check.py %s --tier %s" % (pid, tier), cwd=wv, env=env)
            finally:
                sh("git checkout -q -- . && git clean -fdq", cwd=wr)
                sh("/venv/bin/python tools/regen.py", cwd=wv, env=env)
            lines = [l for l in out.split("\n") if l.strip()]
            viol = [l for l in lines if l.startswith("VIOLATION")]
            fi = [l for l in lines if l.startswith("failing input")]
            ties = [l for l in lines if l.startswith("broken ties")]
            ev = dict(tier=tier, exit_code=rc, detected=bool(viol) and rc == 1,
                      failing_input_found=bool(fi) and not any("no-failing-input-found" in l for l in viol),
                      broken=ties[0] if ties else None, failing_input=fi[0] if fi else None, wall_s=round(time.time() - t0, 1),
                      command="git -C /repo apply seeded/%s/patch.diff; /venv/bin/python check.py %s --tier %s; git -C /repo checkout -- ." % (d, pid, tier),
                      seed=int(seed))
            return d, ev
        finally:
            pool.put((wv, wr))

    try:
        with ThreadPoolExecutor(workers) as ex:
            for d, ev in ex.map(one, ids):
                if "error" in ev:
                    print(d, ev["error"]); continue
                mp = os.path.join(HERE, "seeded", d, "meta.json")
                m = json.load(open(mp))
                m.setdefault("evaluation", {})[tier if str(seed) == "0" else "%s-seed%s" % (tier, seed)] = ev
                json.dump(m, open(mp, "w"), indent=1)
                print(d, "detected" if ev["detected"] else "MISSED", "failing-input" if ev["failing_input_found"] else "no-failing-input", ev["wall_s"], flush=True)
    finally:
        for k in range(workers):
            sh("git -C /repo worktree remove --force %s/w%d/repo" % (BASE, k))
        sh("rm -rf %s" % BASE)
        sh("git -C /repo worktree prune")


if __name__ == "__main__":
    main()
