#!/venv/bin/python
"""Regenerates every lean/LapyVerif/Generated/*.lean from the current working tree of /repo (run by setup_cmd and before commits)."""
import os
import sys

sys.path.insert(0, os.path.dirname(os.path.dirname(os.path.abspath(__file__))))
from vcheck import repo, core, extract, astx  # noqa: E402

with core.quiet():
    changed = extract.gen_fem() + extract.gen_diffgeo() + extract.gen_measures() + extract.gen_vertex_measures() + extract.gen_transfer() + extract.gen_heat() + extract.gen_misc() + extract.gen_level() + extract.gen_solver_aniso() + extract.gen_curv_tria() + extract.gen_poisson() + extract.gen_solver_glue() + extract.gen_flow() + extract.gen_geo_glue() + extract.gen_shapedna() + extract.gen_dispatch() + extract.gen_tet_orient() + extract.gen_tri_orient() + extract.gen_refine() + [astx.gen_effects()[0], astx.gen_eigs()[0]]
print("generated files rewritten: %d" % sum(bool(c) for c in changed))
