#!/usr/bin/env python3
"""Writes MANIFEST.json from the table below and validates it against the schema (run from /verif)."""
import json
import os
import sys

HERE = os.path.dirname(os.path.dirname(os.path.abspath(__file__)))
NOTE = ("Trusted: Lean 4.33 kernel + Mathlib, axioms propext/Classical.choice/Quot.sound only (audited every run); "
        "floating point modelled as real arithmetic; the tracing translator / correspondence harness; ")

CHECKS = {
    "C01": dict(
        text="Theorems for every vertex map and every element list (no size bound): f.A.g = sum of area*grad.grad (triangles and "
             "tetrahedra, gradient characterised by its defining equations), symmetry, A.1 = 0, PSD, non-zero denominators, "
             "independence of element vertex order/orientation. The per-element kernels of solver.py are re-traced from source on "
             "every run and bridged to the model by proof, and so is the anisotropic branch of Solver.__init__ (weights exp(-a|c|), columns, "
             "scalar/pair aniso, lump and aniso_smooth passed on) given a symbolic output of curvature_tria, and curvature_tria itself given "
             "a symbolic output of curvature(); whole matrices are compared differentially.",
        ref="DESIGN.md 6/C01",
        note=NOTE + "theorems hold under the complement of the code's degeneracy guard; generalisation from the traced element to all "
             "meshes is cross-checked differentially.",
        technique="Lean 4 proof (ring/field identities per element + induction over the element list) tied by symbolic tracing of the NumPy kernel and differential driver"),
    "C02": dict(
        text="Theorems for every mesh (no size bound): x.B.y equals the sum over elements of the exact integral of the product of the "
             "linear interpolants (barycentric moment formula = edge-midpoint rule), symmetry, strictly positive stored entries, entries "
             "sum to total area/volume, lumped matrix = diagonal of row sums, stand-alone fem_tria_mass returns the solver's triplets. "
             "Mass kernels re-traced from source each run and bridged by proof; matrices compared differentially.",
        ref="DESIGN.md 6/C02",
        note=NOTE + "the barycentric moment formula is adopted as the definition of the exact integral.",
        technique="Lean 4 proof (per-element identities + induction over elements) tied by symbolic tracing and differential driver"),
    "C06": dict(
        text="Theorems for every mesh, vertex function and element field: the triangle gradient equals the gradient of the linear "
             "interpolant (characterised by its defining equations; any winding), is tangent, and is the in-plane projection of a for "
             "affine data; the tetra gradient equals a for either element orientation; sum_i f_i div(X)_i = -sum meas X.grad f "
             "(triangles and tetrahedra of mixed orientation), div(grad f) = -A f, entries of div sum to zero, both triangle "
             "divergences coincide. All five kernels are re-traced from diffgeo.py each run (tetra: both orientation branches) and "
             "bridged by proof; dispatch and whole-mesh outputs compared differentially. The type-name dispatch of the generic entry points is observed on the real code with recording kernels on every run (look-alike class names included) and fixed by a bridge theorem.",
        ref="DESIGN.md 6/C06",
        note=NOTE + "theorems hold under the complement of the kernels' own guards.",
        technique="Lean 4 proof (vector identities + induction over elements) tied by concolic tracing of the NumPy kernels and differential driver"),
    "C13": dict(
        text="Theorems for every triangle / mesh: Heron's tria_areas equals half the cross-product length (so area = sum of the FEM element "
             "areas), the volume guards (0 for open meshes, ValueError for closed unoriented, divergence-theorem sum otherwise), the sum "
             "flips sign with orientation and scales with s^3, normals are unit, orthogonal and follow the winding, qualities lie in (0,1] "
             "with 1 exactly for equilateral triangles (Weitzenboeck), areas scale with s^2 and qualities are invariant under every "
             "similarity (isometries characterised by preserved dot products; matrices with orthonormal columns, translations, scalings "
             "proved to be such). tria_areas, area, volume, tria_normals, tria_qualities, centroid, normalize_, vertex_areas, "
             "avg_edge_length, vertex_normals and normal_offset_ are re-traced from source on every run (np.bincount / np.add.at followed on the "
             "expression DAG) and bridged to the model by proof; all measures are also compared differentially on whole meshes.",
        ref="DESIGN.md 6/C13",
        note=NOTE + "the traced topology is the boundary of a generic tetrahedron; the generalisation to all meshes is sampled by the differential check.",
        technique="Lean 4 proof (real-algebra identities/inequalities) tied by tracing of the NumPy kernels on a symbolic closed mesh and differential driver"),
    "C09": dict(
        text="Theorems for every triangle index list with distinct vertices per triangle (no size bound): the stored adjacency entries are "
             "the edge / half-edge counts; is_closed, is_manifold, is_oriented are equivalent to their counting definitions; nnz = 2 x "
             "#edges with symmetric diagonal-free keys, hence euler = #used vertices - #edges + #triangles; has_free_vertices and "
             "vertex_degrees (edges per vertex) specifications; error branches of boundary_loops and edges; edges() lists every interior "
             "edge exactly once (i<j, sorted) with two distinct triangles, the first containing the half-edge i->j; boundary_loops on a "
             "permutation-like boundary terminates with duplicate-free cycles, consecutive entries boundary half-edges in a common "
             "direction, every boundary half-edge used exactly once. The model mirrors the CSC mechanism and is compared exactly with the "
             "implementation on generated and exhaustively enumerated small complexes (calls run in killable workers).",
        ref="DESIGN.md 6/C09",
        note=NOTE + "the model of tria_mesh.py's connectivity code is hand-written and tied by exact differential comparison only.",
        technique="Lean 4 proof (counting lemmas, induction over the triangle list, cycle argument for the loop walk) tied by exact differential driver"),
    "C05": dict(
        text="Theorems about the model of Solver.poisson, for every matrix pair, index set and data and for EVERY external solver that "
             "satisfies the reduced system it is handed: the result takes exactly the prescribed values at Dirichlet vertices "
             "(dirichlet_exact) and satisfies (A x)_i = (B(h-n))_i at every other vertex (interior_eq / run_spec); the right-hand side is "
             "linear in (h, Neumann, Dirichlet data). The matrices are those of C01/C02 (bridged). The reduced matrix and right-hand "
             "side actually handed to SuperLU and the re-insertion are captured in-process and compared with the model; the glue of "
             "Solver.poisson itself is re-traced from source on symbolic 4x4 matrices (unsorted Dirichlet indices, Neumann data, "
             "no-Dirichlet branch) with a symbolic sparse-matrix shim and bridged to the model by proof; the solve contract is monitored (residual).",
        ref="DESIGN.md 6/C05",
        note=NOTE + "SuperLU's exact solve of the nonsingular reduced system is assumed (monitored); uniqueness/affine reproduction are evaluated by the search oracle, the balanced-vertex theorem is in progress.",
        technique="Lean 4 proof (induction over the triplet list, relative to the solve contract) tied by captured-argument comparison and differential driver"),
    "C07": dict(
        text="Theorems: the backward-Euler matrix B + tA acts as form_B + t form_A; for every solver output satisfying (B+tA)u = b, symmetric "
             "constant-annihilating A (C01) gives 1^T B u = sum b (conservation; with the lumped diagonal B this is sum B_ii u_i and the seed "
             "vector sums to the number of distinct seeds); kernel entries are the spectral sums, symmetric in (p,q), and diagonal is the "
             "kernel at p=q=x. The matrix/right-hand side handed to SuperLU are captured and compared with the model; heat.kernel, "
             "heat.diagonal, both avg_edge_length routines and the glue of diffusion (matrix B + m*l^2*A, indicator right-hand side, Solver(lump=True, "
             "aniso), output returned unchanged) are re-traced from source on every run and bridged by proof, and compared on random "
             "spectra and all argument shapes.",
        ref="DESIGN.md 6/C07",
        note=NOTE + "SuperLU exact solve assumed (monitored); additivity/similarity clauses are corollaries of linearity and C04 evaluated by the oracle; aniso option not modelled.",
        technique="Lean 4 proof (finite sums over triplet lists, relative to the solve contract) tied by symbolic tracing of kernel/diagonal/avg_edge_length, captured-argument comparison and differential driver"),
    "C12": dict(
        text="Theorems for every vertex map and tetra list: is_oriented iff all signed volumes positive (non-empty mesh); orient_ swaps vertices "
             "1,2 of exactly the negative tetrahedra, returns their count, keeps vertex sets and order, yields an oriented mesh when no "
             "volume is zero, and is idempotent; boundary_tria returns exactly the faces whose sorted triple occurs once, each once, in "
             "lexicographic order, with the owning tetrahedron; listed faces of a positive tetrahedron point away from its fourth vertex; "
             "the origin-cone terms of the four faces sum to the signed volume, so for a face-manifold mesh whose shared faces have opposite "
             "windings the boundary's enclosed volume equals the sum of tetra volumes and the boundary is closed (every edge in an even "
             "number of boundary faces). Model compared exactly with the implementation incl. exhaustive subsets x flips of the 5-tet cube. TetMesh.orient_ / is_oriented are also re-traced from source on two tetrahedra (one negative at the concolic sample) and bridged by proof (signed volumes, decisions, rewritten elements, count).",
        ref="DESIGN.md 6/C12",
        note=NOTE + "the tetra model is hand-written and tied by exact differential comparison (np.unique semantics re-implemented).",
        technique="Lean 4 proof (ring identities per tetrahedron, counting/parity over the face list) tied by exact differential driver"),
    "C10": dict(
        text="Theorems about the model of orient_ (pairing, signed neighbour matrix, re-seeded flood, swap, global flip): the result is the "
             "input with some triangles' first two vertices swapped and possibly all reversed (order, vertex sets kept; the count returned "
             "is the number of triangles whose winding changed); for every list of >= 3 triangles with distinct vertices that is "
             "edge-manifold, orientable and in which every triangle has a neighbour, the flood never cancels, terminates within 2*tdim+2 "
             "rounds covering every triangle (any number of components) and the result is oriented; closed results have volume >= 0; a "
             "second call returns 0 and changes nothing; an edge in three triangles forces ValueError. Model compared exactly (t and "
             "count, non-termination observable through killable workers) on all orientable families x flip patterns. TriaMesh.orient_ is also re-traced from source on the tetrahedron boundary with symbolic vertices (inside-out: global flip; one reversed triangle: repaired by the flood) and bridged to the model by proof (the flood evaluated by decide, the volume decision by ring).",
        ref="DESIGN.md 6/C10",
        note=NOTE + "the orient_ model is hand-written and tied by exact differential comparison; np.unique/lexsort/SciPy product semantics re-implemented. "
             "The two-identical-triangles pillow is excluded (TriaMesh cannot hold fewer than 3 triangles).",
        technique="Lean 4 proof (flood invariant by induction over rounds, counting/pigeonhole) tied by exact differential driver with killable workers"),
    "C20": dict(
        text="State-machine theorems: TriInv/TetInv (cached adjacency = constructor's) holds initially and is preserved by every step, hence "
             "after ANY operation list (induction, no length bound), so every query equals the query on a fresh mesh; the step function is "
             "parametric in the table 'does the method re-run the constructor', which is re-extracted from the source by AST analysis on "
             "every run and discharged by decide (writers of t re-initialise; vertex-only mutators do not store t; no public non-underscore "
             "function writes through a parameter). Operation sequences (exhaustive to length 2/3, random to 8/30) are replayed on the "
             "implementation and the model with exact comparison of t and both cached adjacency matrices after every step; constructor "
             "shape checks modelled and compared.",
        ref="DESIGN.md 6/C20",
        note=NOTE + "NumPy aliasing is not modelled in Lean: the purity claim rests on the syntactic effect table plus before/after snapshots (search oracle).",
        technique="Lean 4 proof (invariant by induction over operation lists; decide on the generated effect table) tied by AST translator and differential op-sequence driver"),
    "C03": dict(
        text="Theorems (algebra of the shift-invert glue): A PSD, B PD, sigma<0 => A - sigma*B positive, injective, unique solutions; (lam,x) "
             "eigenpair with lam != sigma <=> (A-sigma B) y = B x with y = x/(lam-sigma); lam -> 1/(lam-sigma) positive and strictly decreasing "
             "on [0,inf), so the k largest transformed values are the k smallest eigenvalues and ascending order is the reverse; eigenvalues "
             ">= 0 (Rayleigh quotient); eigenvectors of distinct eigenvalues are B-orthogonal; A f = 0 iff f is constant on every element, "
             "hence on edge-connected components (triangles and tetrahedra). eigs is re-traced from source on symbolic matrices with recorded "
             "external kernels on every run (factorised matrix = A - sigma*B entry by entry, sigma = -1/100 < 0, eigsh(A, k, B, sigma, "
             "OPinv = lu.solve), output returned unchanged) and bridged by proof; sigma<0 and the call shape are also re-extracted from the source text; "
             "the matrix actually factorised and the eigsh arguments are captured and compared. PARTIAL: convergence/completeness of ARPACK "
             "is assumed and monitored on every call (residuals, Gram matrix, order, dense reference, zero count vs components).",
        ref="DESIGN.md 6/C03",
        note=NOTE + "contract of ARPACK eigsh and SuperLU (monitored, not proved).",
        technique="Lean 4 proof of the shift-invert algebra and kernel characterisation, tied by AST-extracted constants, captured-argument comparison; external eigensolver contract monitored"),
    "C04": dict(
        text="Matrix-level theorems for every mesh: under any similarity with factor s the triangle stiffness is unchanged and mass scales by "
             "s^2 (tetra: |s| and |s|^3), so isometries (rotations, reflections, translations) change nothing; relabelling by any index map "
             "transports triplets and entries; element permutations, triangle rotations/flips and tetra vertex swaps leave all entries "
             "unchanged; eigenpairs are transported with lambda -> lambda/s^2; normalisation by area / vol^(2/3) cancels the scaling; "
             "reweight and Euclidean distance specifications. compute_shapedna's dictionary, normalize_ev (3 methods x 2 kinds), "
             "reweight_ev, compute_distance are compared with the model (including a solid with an internal cavity and its two-sheeted boundary, enclosed volume computed without the library; recorded finding F21: such a solid with tetrahedra listed in mixed orientation). Spectrum-level statement holds relative to the eigensolver contract of C03. normalize_ev (all methods, real power 2/3) and compute_shapedna (Solver arguments, dictionary fields, outputs passed on) are re-traced from source as protocols on every run and bridged by proof.",
        ref="DESIGN.md 6/C04",
        note=NOTE + "spectrum-level invariance = matrix-level theorems + eigsh contract (C03); scaling limited to [1/4,4] in the search oracle.",
        technique="Lean 4 proof (similarity lemmas on dot products, induction over elements) tied by tracing bridges of the FEM kernels and differential driver"),
    "C08": dict(
        text="PARTIAL. Proved: the right-hand side div(grad f/|grad f|) sums to zero (compatibility of the singular system), div(grad u) = -A u "
             "(triangles; tetrahedra of any orientation), A g = 0 iff g constant on components, gradient kernels exact on affine data "
             "(C06/C03 theorems, kernels bridged from source). The right-hand side and matrix handed to the Poisson solve, the minimum "
             "shift and the pinned vertex of rotated_f are captured and compared with the model. Not provable in an exact model: "
             "existence/finiteness of SuperLU's factorisation of the SINGULAR stiffness matrix (recorded finding F15 on exactly "
             "representable meshes); the unit-slope / quarter-turn exactness clauses are evaluated by the search oracle. The glue of the three functions (field handed to the divergence, Solver construction, identity mass, boundary data, shift by the minimum) is re-traced from source as a protocol on every run and bridged by proof.",
        ref="DESIGN.md 6/C08",
        note=NOTE + "singular solve contract assumed and monitored; composition theorems geo_affine are corollaries listed in DESIGN.",
        technique="Lean 4 proof of the operator identities behind the geodesic/rotated systems, tied by traced kernels and captured-argument comparison"),
    "C11": dict(
        text="Theorems for every vertex list and triangle list: counts (4T triangles, V+E vertices), old vertices keep index and coordinates, new "
             "vertex k is the midpoint of edge k (bijection), every child has a quarter of the parent's cross product (same winding), "
             "children's signed volumes / centroids / Heron areas sum to the parent's, hence volumeSum, area, centroid are preserved; "
             "refine n = n single steps; half-edge counts transfer to the refined mesh, so closedness is preserved for all meshes and "
             "manifoldness, orientedness and the Euler characteristic for meshes without two triangles on the same vertex set "
             "(counter-example recorded as finding F14); rm_free_vertices_ specification (kept/deleted indices, rank renumbering, no free "
             "vertex remains). Model compared exactly (incl. new-vertex numbering) on all families, it in 0..3. refine_(1) is also re-traced from source on the tetrahedron boundary with symbolic vertices (ten vertex positions, sixteen triangles with their numbering) and bridged by proof to the body of the model at the upper-triangular edge numbering.",
        ref="DESIGN.md 6/C11",
        note=NOTE + "refine_ model hand-written, tied by exact differential comparison (CSR edge order re-implemented).",
        technique="Lean 4 proof (ring identities per parent triangle, half-edge counting by induction) tied by exact differential driver"),
    "C14": dict(
        text="Theorems over all text files the model's writers produce (no bound on mesh size): write_vtk followed by read_vtk returns the "
             "written coordinate tokens and the connectivity (values, order, winding) for triangle and tetra meshes; reading with the other "
             "mesh kind fails; every strict line-prefix of a written VTK file fails; OFF, VTK triangle-strip and Gmsh-2 files laid out by "
             "their format definitions load to the described mesh with zero-based indices (strips: alternating winding); write_ev/read_ev "
             "round-trip every field, eigenvalue list and (n,k) eigenvector block incl. k=1, n=1; write_vfunc/read_vfunc round-trip. Numbers "
             "are decimal tokens (str/float round trip is a model parameter). Readers and writers are compared with the implementation "
             "byte-for-byte (written files) and value-for-value (parsed meshes, errors mapped to an enum) on generated meshes, dtypes, "
             "field subsets, every line-prefix truncation.  FreeSurfer binary surfaces: byte-level model of the layout (nibabel's writer as format "
             "definition) and of LaPy's bundled reader; theorems fs_roundtrip (read(write s) = s for every well-formed surface incl. footer), "
             "fs_bad_magic, fs_truncated_mesh (every cut inside header / coordinate / face block is rejected with the stated error), "
             "fs_truncated_footer (the mesh part never differs); compared byte-for-byte and on every byte-prefix truncation.",
        ref="DESIGN.md 6/C14",
        note=NOTE + "format models hand-written, tied by exact differential comparison; float32 rounding (astype), number parsing inside the FreeSurfer footer, non-ASCII text and OS errors not modelled.",
        technique="Lean 4 proof (token/line-level parser-printer round trips by induction over rows and fuel) tied by exact differential driver"),
    "C15": dict(
        text="Theorems for every mesh and every (multi-column, rectangular) function: map_tfunc_to_vfunc conserves column totals, the weighted "
             "variant integrates against triangle areas and maps 1 to vertex_areas; map_vfunc_to_tfunc is the corner mean and maps constants "
             "to constants; the smoothing operator has weights 1/deg on the edge neighbours (the area factors cancel): non-negative, rows sum "
             "to one, linear, fixes constants, stays in [min f, max f], smooth(f,n) is n applications (n=0 applies once), smooth_ replaces "
             "only the vertices. The clause 'map_tfunc_to_vfunc maps constants to constants' is FALSE (recorded finding F9): proved "
             "t2v_const_partial (c*incidence/3), t2v_const_iff and a concrete counter-example. map_tfunc_to_vfunc (plain, weighted, one and two "
             "columns) and map_vfunc_to_tfunc are re-traced from source on every run and bridged by proof; all routines compared with the model.",
        ref="DESIGN.md 6/C15",
        note=NOTE + "smooth_vfunc / smooth_ are tied by the differential check only (sparse products are not traceable).",
        technique="Lean 4 proof (column-wise reduction to scalar sums, convexity of the row-stochastic operator, induction on iterations) tied by symbolic tracing of the transfer routines and differential driver"),
    "C19": dict(
        text="PARTIAL. Proved: normalize_ is v -> (v - c)/sqrt(area), yielding area 1 and centroid 0 (similarity laws of area and centroid); "
             "the flow step system M + step*A0 is positive definite (unique solution) and fixes every V with A0 V = 0; radial projection "
             "puts every non-zero vector at distance 100; negating an eigenfunction swaps the two threshold sets, so after the conditional "
             "flip the mean difference along the axis is >= 0. Every spsolve call of tria_mean_curvature_flow is captured and its matrix / "
             "right-hand side / stopping quantity compared with the model built from the previous iterate; gates and constants compared. "
             "Monitored, not proved: sphere fixed point and decreasing radial spread (shape-family statements), eigsh/spsolve contracts. tria_mean_curvature_flow is also re-traced from source as a protocol on every run (order of the calls, both linear systems, stopping quantity and decisions) and bridged by proof.",
        ref="DESIGN.md 6/C19",
        note=NOTE + "external solves assumed (monitored); shape-family clauses evaluated by the search oracle only.",
        technique="Lean 4 proof of the normalisation / step / alignment algebra, tied by captured-argument comparison of every flow iteration"),
    "C16": dict(
        text="PARTIAL. Theorems: the isolated corner is found exactly in the six 1:2 sign patterns; the crossing point lies on the open edge at the "
             "level value and does not depend on the direction the edge is reached from; within a crossed triangle the segment between the two "
             "crossing points IS the level set of the linear interpolant (both inclusions); level_length is the sum of these segments; "
             "level_path stores one point per crossed edge, has the same length, raises ValueError unless the segment graph has exactly two "
             "end points, orders the points by breadth-first distance — for a simple path exactly the path order with the right triangle per "
             "segment —, drops points closer than 1e-3 to their successor but never the last; np.interp / resampling keep the end points "
             "and sample at equal arc length. level_length is re-traced from source on every run for two crossing patterns (concolic path "
             "conditions) and bridged by proof; everything is compared with the implementation on all families. Assumed: csgraph.shortest_path = BFS distances.",
        ref="DESIGN.md 6/C16",
        note=NOTE + "three-fold re-resampling only approximates equal spacing along the original curve; shortest_path contract assumed.",
        technique="Lean 4 proof (case analysis on sign patterns, barycentric algebra, BFS induction on simple paths) tied by concolic tracing of level_length and differential driver"),
    "C17": dict(
        text="PARTIAL. Theorems relative to an orthonormal eigenbasis from the external eig: c_min <= c_max, mean and Gauss are the symmetric "
             "functions, u_min/u_max/normal orthonormal, right-handed (triple product 1) and on the side of the vertex normal (degenerate "
             "exactly when the vertex normal vanishes); curvature_tria's directions are unit, orthogonal and in the triangle plane; the "
             "anisotropic stiffness form is symmetric, constant-annihilating, PSD for non-negative weights, never above the isotropic energy "
             "for weights <= 1 (Bessel) and equal to it for weights 1 (Parseval in the plane); exp(-a|c|) in (0,1]. The eig output is "
             "captured and the post-processing compared with the model vertex by vertex. Monitored: orthonormality of LAPACK's vectors; "
             "similarity invariance of the values (oracle); sphere/cylinder clauses are shape-family statements, not proved. "
             "curvature_tria (pooling, projection, floors, cross product) is re-traced from source on every run given a symbolic output of "
             "curvature() and bridged to the model by proof.",
        ref="DESIGN.md 6/C17",
        note=NOTE + "tensor assembly (arccos, edge tensors) before the eigen-decomposition is not modelled; LAPACK contract assumed.",
        technique="Lean 4 proof of the frame post-processing and anisotropic form algebra, tied by symbolic tracing of curvature_tria, captured eigen-decompositions and differential driver"),
    "C18": dict(
        text="PARTIAL. Theorems: inverse_stereographic always lands on the unit sphere; both stereographic pairs are mutually inverse (the "
             "unrepaired final step was the mirror image); Moebius maps preserve cross-ratios and their images are on the sphere; the "
             "Beltrami coefficient of z -> a z + b conj(z), embedded isometrically anywhere in space, is b/a on every triangle; the "
             "generalised Laplacian block is symmetric with zero row sums and the landmark elimination gives exact landmarks and the "
             "original equation at all other rows; Euler guard and landmark count. Building blocks, the captured linear system of "
             "linear_beltrami_solver and the Moebius step are compared with the model. Monitored, not proved: orientation preservation "
             "(recorded finding F17 on coarse meshes), optimiser descent.",
        ref="DESIGN.md 6/C18",
        note=NOTE + "harmonic / quasi-conformal solves and L-BFGS-B assumed (monitored).",
        technique="Lean 4 proof (field identities over pairs / Mathlib complex numbers, elimination argument) tied by captured-argument comparison and differential driver"),
}

NOT_YET = {}


def main():
    props = [json.loads(l) for l in open(os.path.join(HERE, "properties.jsonl"))]
    ids = [p["id"] for p in props]
    checks = []
    for pid in ids:
        if pid in CHECKS:
            c = CHECKS[pid]
            checks.append(dict(
                property_id=pid,
                quick_cmd="/venv/bin/python check.py %s --tier quick" % pid,
                thorough_cmd="/venv/bin/python check.py %s --tier thorough" % pid,
                evidence_file="evidence/%s.json" % pid,
                replay_cmd_template="/venv/bin/python check.py %s --replay {path}" % pid,
                engine="lean4-lapyverif",
                level_claimed=dict(category="proof", text=c["text"], design_ref=c["ref"]),
                level_note=c["note"],
                technique=c["technique"],
            ))
    na = [dict(property_id=pid, reason=NOT_YET.get(pid, "check not built yet in this session (planned, see DESIGN.md section 6)"))
          for pid in ids if pid not in CHECKS]
    man = dict(
        version=1,
        setup_cmd="/venv/bin/python tools/regen.py && cd lean && lake build LapyVerif lapydrv",
        hooks=dict(guard="LAPY_VERIF", enable="no source hooks are needed: external kernels are wrapped from the harness process",
                   baseline_off_cmd="cd /repo && /venv/bin/python -m pytest -ra -q -p no:cacheprovider --timeout=900 --continue-on-collection-errors",
                   source_commits=[], add_only=True),
        engines=[dict(name="lean4-lapyverif", path="lean/", serves_properties=sorted(CHECKS),
                      kind_free_text="Lean 4 model + theorems (lake project), symbolic-tracing translator and differential driver (vcheck/)")],
        checks=checks,
        notes="Single entry point check.py; see DESIGN.md. known_findings.json lists recorded findings.",
        not_applicable=na,
    )
    with open(os.path.join(HERE, "MANIFEST.json"), "w") as f:
        json.dump(man, f, indent=1)
    try:
        import jsonschema
        jsonschema.validate(man, json.load(open("/root/.vp/MANIFEST.schema.json")))
        print("MANIFEST.json valid; %d checks, %d not_applicable" % (len(checks), len(na)))
    except ImportError:
        print("jsonschema not available; written without validation")


if __name__ == "__main__":
    sys.exit(main())
