#!/usr/bin/env python3
"""developer tool: run every registered quick (or thorough) check for several seeds in parallel; the last pass uses seed 0 so that the
evidence files left in evidence/ come from the unchanged tree with the default seed"""
import json, os, subprocess, sys, time
from concurrent.futures import ThreadPoolExecutor
HERE = os.path.dirname(os.path.dirname(os.path.abspath(__file__)))
man = json.load(open(os.path.join(HERE, "MANIFEST.json")))
tier = sys.argv[1] if len(sys.argv) > 1 else "quick"
seeds = [int(x) for x in sys.argv[2:]] or [1, 2, 0]
def run(args):
    pid, seed = args
    env = dict(os.environ, VERIF_SEED=str(seed))
    t0 = time.time()
    p = subprocess.run(["/venv/bin/python", "check.py", pid, "--tier", tier], cwd=HERE, env=env, capture_output=True, text=True)
    last = [l for l in p.stdout.strip().split("\n") if l][-1:] or [p.stderr[-200:]]
    bad = [l for l in p.stdout.split("\n") if "VIOLATION" in l or "Traceback" in l or "broken ties" in l or l.startswith("  ")]
    return pid, seed, p.returncode, time.time() - t0, last[0], bad
ids = [c["property_id"] for c in man["checks"]]
ok = True
for seed in seeds:
    with ThreadPoolExecutor(8) as ex:
        for pid, sd, rc, dt, last, bad in ex.map(run, [(i, seed) for i in ids]):
            print("%s seed %d rc %d %.0fs  %s" % (pid, sd, rc, dt, last[:150]))
            for b in bad[:6]:
                print("      " + b[:300])
            ok = ok and rc == 0
print("ALL OK" if ok else "SOME FAILED")
