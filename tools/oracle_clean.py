#!/venv/bin/python
"""developer tool: run a property's direct oracle over its search stream on the current tree (must find nothing)"""
import importlib, os, sys, time
sys.path.insert(0, os.path.dirname(os.path.dirname(os.path.abspath(__file__))))
from vcheck import repo  # noqa
for prop in sys.argv[1:]:
    for seed in (0, 1, 2):
        mod = importlib.import_module("vcheck.props." + prop)
        chk = mod.Check(os.environ.get("TIER", "quick"), seed)
        t0 = time.time(); n = 0; bad = None; known = False
        for c in chk.search_cases():
            n += 1
            from vcheck import gen as _gen
            _gen.use(c)
            v = chk.oracle(c)
            _gen.use(None)
            if v is not None:
                if isinstance(getattr(v, "case", None), dict) and v.case.get("input_class"):
                    known = True; continue          # class of a recorded finding
                bad = v; break
        print(prop, "seed", seed, "cases", n, "%.1fs" % (time.time() - t0), "CLEAN" if bad is None else "ALARM %s: %s [%s]" % (bad.clause, bad.what, c.get("name")))
