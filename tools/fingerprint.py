#!/usr/bin/env python3
"""developer tool: record the fingerprints (hash of the docstring-free AST) of every function of /repo/lapy against which the
hand-written parts of the model were validated.  Run after the model has been (re-)validated on the clean tree; the result,
model_fingerprints.json, is committed.  check.py compares it with the current source: a changed function is not an alarm, but the
property's correspondence is then run at the thorough tier's size (see DESIGN.md 11.8)."""
import json, os, sys
sys.path.insert(0, os.path.dirname(os.path.dirname(os.path.abspath(__file__))))
from vcheck import repo, astx  # noqa
fp = astx.fingerprints()
out = os.path.join(repo.VERIF, "model_fingerprints.json")
json.dump(dict(repo_head=os.popen("git -C %s rev-parse --short HEAD" % repo.REPO).read().strip(), functions=fp), open(out, "w"), indent=0, sort_keys=True)
print("%d functions fingerprinted -> %s" % (len(fp), out))
