#!/usr/bin/env python3
"""developer tool: run every seeded change under seeded/ against its property's check and record the outcome in meta.json
   (key "evaluation").  usage: seedall.py [tier] [ids...]"""
import json, os, subprocess, sys
HERE = os.path.dirname(os.path.dirname(os.path.abspath(__file__)))
tier = sys.argv[1] if len(sys.argv) > 1 else "quick"
ids = sys.argv[2:] or sorted(os.listdir(os.path.join(HERE, "seeded")))
for d in ids:
    p = os.path.join(HERE, "seeded", d)
    if not os.path.exists(os.path.join(p, "patch.diff")):
        continue
    out = subprocess.run([sys.executable, os.path.join(HERE, "tools", "seedtest.py"), "run", p, tier], capture_output=True, text=True).stdout
    try:
        r = json.loads(out)
    except Exception:
        print(d, "seedtest failed:", out[-300:]); continue
    tail = r["tail"]
    viol = [l for l in tail if l.startswith("VIOLATION")]
    fi = [l for l in tail if l.startswith("failing input")]
    ties = [l for l in tail if l.startswith("broken ties")]
    ev = dict(tier=tier, exit_code=r["rc"], detected=bool(viol) and r["rc"] == 1,
              failing_input_found=bool(fi) and not any("no-failing-input-found" in l for l in viol),
              broken=ties[0] if ties else None, failing_input=fi[0] if fi else None, wall_s=r["wall_s"],
              command="git -C /repo apply seeded/%s/patch.diff; /venv/bin/python check.py %s --tier %s; git -C /repo checkout -- ." % (d, r["property"], tier))
    mp = os.path.join(p, "meta.json")
    m = json.load(open(mp))
    seed = os.environ.get("VERIF_SEED", "0")
    ev["seed"] = int(seed)
    m.setdefault("evaluation", {})[tier if seed == "0" else "%s-seed%s" % (tier, seed)] = ev
    json.dump(m, open(mp, "w"), indent=1)
    print(d, "detected" if ev["detected"] else "MISSED", "failing-input" if ev["failing_input_found"] else "no-failing-input", ev["wall_s"])
