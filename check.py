#!/venv/bin/python
"""Single entry point:  check.py <Cxx> --tier quick|thorough   |   check.py <Cxx> --replay <file>

Decision procedure (DESIGN.md 2.1): translate -> prove (lake build + axiom audit) -> correspond/monitor -> decide.
A broken obligation or correspondence is not by itself a violation: it triggers the failing-input search on the
implementation.  Exit 0 = property shown to hold; exit 1 + `VIOLATION property=<id> replay=<path>`; exit 2 = infrastructure.
"""
import argparse
import importlib
import json
import os
import sys
import time
import traceback

HERE = os.path.dirname(os.path.abspath(__file__))
sys.path.insert(0, HERE)

from vcheck import repo, lean, core  # noqa: E402


def write_replay(prop, seed, n, payload):
    os.makedirs(core.REPLAY_DIR, exist_ok=True)
    path = os.path.join(core.REPLAY_DIR, "%s-%d-%d.json" % (prop, seed, n))
    with open(path, "w") as f:
        json.dump(core.jsonable(payload), f, indent=1)
    return path


def known_match(prop, violation, known):
    for k in known:
        if k.get("property") == prop and k.get("status") == "open" and k.get("clause") == violation.clause:
            sig = k.get("input_class")
            if sig is None or sig == (violation.case or {}).get("input_class"):
                return k
    return None


def small_json(f):
    """a broken tie as it goes into the evidence file: the input is kept only when it is small (the replay file holds it in full)"""
    j = f.to_json()
    if len(json.dumps(j.get("case"))) > 20000:
        j["case"] = "(input omitted from the evidence: %d characters; see the replay file)" % len(json.dumps(j["case"]))
    return j


def main():
    ap = argparse.ArgumentParser()
    ap.add_argument("prop")
    ap.add_argument("--tier", default=os.environ.get("VERIF_TIER", "quick"), choices=["quick", "thorough"])
    ap.add_argument("--replay")
    a = ap.parse_args()
    seed = int(os.environ.get("VERIF_SEED", "0"))
    t0 = time.time()
    mod = importlib.import_module("vcheck.props." + a.prop)
    chk = mod.Check(a.tier, seed)
    # functions of the property's files whose source differs from the one the hand-written model was validated against: not an alarm
    # (the ties below decide), but the correspondence and the search then run at the thorough tier's size even in the quick tier
    drift = []
    try:
        from vcheck import astx as _astx
        with open(os.path.join(os.path.dirname(os.path.abspath(__file__)), "properties.jsonl")) as f:
            files = [json.loads(l) for l in f if l.strip()]
        files = [p for p in files if p["id"] == a.prop][0]["anchors"]["files"]
        drift = _astx.drift(files)
    except Exception:
        drift = []
    if drift and a.tier == "quick" and not a.replay and os.environ.get("VERIF_NO_ESCALATION") != "1":
        chk.quick = False
        os.environ["VERIF_ESCALATED"] = "1"
        print("source drift in %d function(s) of %s (%s%s): correspondence runs at thorough size" % (len(drift), a.prop, ", ".join(drift[:3]), " ..." if len(drift) > 3 else ""))

    if a.replay:
        with open(a.replay) as f:
            rp = json.load(f)
        res = chk.replay(rp)
        if res is None:
            print("replay: property holds on this input (or the named obligation checks again)")
            return 0
        print("replay: still failing: %s" % res)
        print("VIOLATION property=%s replay=%s" % (a.prop, a.replay))
        return 1

    failures = []
    stats = core.Stats()
    known = core.load_known()
    # watchdog: implementation code that never returns (Python-level loops) must not hang the check
    import signal

    class Deadline(Exception):
        pass

    def on_deadline(signum, frame):
        raise Deadline("phase exceeded its time limit")
    phase_limit = 1200 if a.tier == "quick" else 3000
    try:
        signal.signal(signal.SIGALRM, on_deadline)
    except Exception:
        pass

    # 1-2. translate (regenerate the model parts that come from the source)
    try:
        chk.translate()
    except Exception:
        failures.append(core.Failure("translate", "translator of " + a.prop, traceback.format_exc()))

    # 3. prove
    try:
        aud = lean.audit(chk.audit_mod)
    except Exception:
        print("infrastructure error in lean audit:\n" + traceback.format_exc())
        return 2
    for name, why in aud["failed"].items():
        failures.append(core.Failure("obligation", name, why + "\n" + "\n".join(aud.get("errors", [])[:6])
                                     + "\nfailing declarations: " + ", ".join(aud.get("failed_decls", []))))

    # 4-5. correspond + monitor
    try:
        drv = lean.Driver()
    except Exception:
        print("infrastructure error: driver\n" + traceback.format_exc())
        return 2
    try:
        signal.setitimer(signal.ITIMER_REAL, phase_limit)
        failures += chk.correspond(drv, stats)
        from vcheck import reuse as _reuse
        failures += _reuse.check(a.prop, stats, chk.quick)        # statelessness: used-then-changed objects vs fresh objects
    except Exception:
        failures.append(core.Failure("correspondence", "harness of " + a.prop, traceback.format_exc()))
    finally:
        try:
            signal.setitimer(signal.ITIMER_REAL, 0)
        except Exception:
            pass
        drv.close()
        from vcheck import gen as _gen
        _gen.use(None)

    # known findings listed for this property are replayed on every run
    nviol = 0
    for k in known:
        if k.get("property") == a.prop and k.get("status") == "open":
            still = chk.known_finding(k)
            if still:
                print("KNOWN-FINDING: property=%s %s" % (a.prop, k["what"]))

    # 6. decide
    rc = 0
    if failures:
        # distinct ties that broke
        names = []
        for f in failures:
            if f.name not in names:
                names.append(f.name)
        print("broken ties (%d): %s" % (len(names), "; ".join(names[:8])))
        for f in failures:
            if "Traceback" in f.detail:
                print("  %s: %s" % (f.name, " | ".join(f.detail.strip().split("\n")[-3:])))
        viol = None
        try:
            signal.setitimer(signal.ITIMER_REAL, phase_limit)
            viol = chk.search(failures, stats)
            signal.setitimer(signal.ITIMER_REAL, 0)
        except Exception:
            print("failing-input search crashed:\n" + traceback.format_exc())
        if viol is not None and known_match(a.prop, viol, known):
            k = known_match(a.prop, viol, known)
            print("KNOWN-FINDING: property=%s %s" % (a.prop, k["what"]))
            viol = None
        if viol is not None:
            path = write_replay(a.prop, seed, 0, dict(property=a.prop, kind="failing-input", clause=viol.clause,
                                                      what=viol.what, input=viol.case, observed=viol.observed,
                                                      expected=viol.expected, seed=seed,
                                                      broken=[f.to_json() for f in failures[:5]]))
            print("failing input: %s — %s" % (viol.clause, viol.what))
            print("VIOLATION property=%s replay=%s" % (a.prop, path))
            nviol = 1
            rc = 1
        elif failures:
            path = write_replay(a.prop, seed, 0, dict(property=a.prop, kind="broken-obligation", seed=seed,
                                                      broken=[f.to_json() for f in failures[:10]],
                                                      lean_log=aud["log"][-6000:] if not aud["build_ok"] else ""))
            print("no failing input found; no longer shown to hold: %s" % "; ".join(names[:5]))
            print("VIOLATION property=%s replay=%s no-failing-input-found" % (a.prop, path))
            nviol = 1
            rc = 1

    # 7. evidence
    cov = dict(
        obligations=len(aud["obligations"]), discharged=len(aud["discharged"]),
        checker_cmd="cd lean && lake build %s && lake env lean %s  (#print axioms of every listed theorem)" % (
            chk.audit_mod, os.path.relpath(lean.module_file(chk.audit_mod), lean.LEAN_DIR)),
        trusted_base=core.TRUSTED_BASE + list(getattr(chk, "trusted", [])),
        theorems=aud["obligations"],
        evaluations=stats.evaluations, distinct_nontrivial=len(stats.distinct),
        rule=getattr(chk, "rule", ""), samples=stats.samples or [dict(obligation=n) for n in aud["obligations"][:3]],
        input_distribution=stats.hist, monitors=stats.monitors,
        broken_ties=[small_json(f) for f in failures[:10]],
        lean_build_s=aud.get("build_s"),
        model_source_drift=drift,
    )
    if a.tier == "thorough" and rc == 0:
        # independent re-check of the compiled theorem modules of this property (default: its Props file)
        mods = getattr(chk, "leanchecker_mods", None) or ["LapyVerif.Props." + a.prop]
        ok, out = lean.leanchecker(mods)
        cov["leanchecker"] = dict(modules=mods, ok=ok, tail=out[-400:])
        if not ok:
            print("infrastructure: leanchecker rejected the compiled modules\n" + out[-2000:])
            return 2
    ev = dict(property_id=a.prop, tier=a.tier, seed=seed, level="proof", coverage=cov,
              assumptions=list(getattr(chk, "assumptions", [])), wall_s=round(time.time() - t0, 2), violations=nviol)
    os.makedirs(core.EVID_DIR, exist_ok=True)
    with open(os.path.join(core.EVID_DIR, a.prop + ".json"), "w") as f:
        json.dump(core.jsonable(ev), f, indent=1)
    print("%s %s: obligations %d/%d, correspondence evaluations %d (%d distinct non-trivial), %.1fs -> %s" % (
        a.prop, a.tier, cov["discharged"], cov["obligations"], stats.evaluations, len(stats.distinct),
        time.time() - t0, "OK" if rc == 0 else "VIOLATION"))
    return rc


if __name__ == "__main__":
    sys.exit(main())
