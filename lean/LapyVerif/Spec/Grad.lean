import LapyVerif.Lemmas.BridgeTac
/-
  Specification side, independent of the code's formulas: gradient of the linear interpolant on a triangle /
  tetrahedron, element measures.  The gradient is *characterised* (`gradTri_char`, `gradTri_unique`), not assumed.
-/
namespace LapyVerif.Spec
open LapyVerif V3

/-- twice the area vector of the triangle `(v1,v2,v3)` -/
def triN (v1 v2 v3 : V3 ℝ) : V3 ℝ := cross (v2 - v1) (v3 - v1)

noncomputable def triArea (v1 v2 v3 : V3 ℝ) : ℝ := Real.sqrt (normSq (triN v1 v2 v3)) / 2

/-- gradient of the linear interpolant of the corner values `f1 f2 f3` -/
noncomputable def gradTri (v1 v2 v3 : V3 ℝ) (f1 f2 f3 : ℝ) : V3 ℝ :=
  let n := triN v1 v2 v3
  smul (1 / normSq n) (cross n (smul f1 (v3 - v2) + smul f2 (v1 - v3) + smul f3 (v2 - v1)))

theorem dot_smul (c : ℝ) (a b : V3 ℝ) : dot (smul c a) b = c * dot a b := by
  v3_flat; ring

theorem gradTri_char (v1 v2 v3 : V3 ℝ) (f1 f2 f3 : ℝ) (hn : normSq (triN v1 v2 v3) ≠ 0) :
    dot (gradTri v1 v2 v3 f1 f2 f3) (v2 - v1) = f2 - f1 ∧
    dot (gradTri v1 v2 v3 f1 f2 f3) (v3 - v1) = f3 - f1 ∧
    dot (gradTri v1 v2 v3 f1 f2 f3) (triN v1 v2 v3) = 0 := by
  set w := cross (triN v1 v2 v3) (smul f1 (v3 - v2) + smul f2 (v1 - v3) + smul f3 (v2 - v1)) with hw
  have e1 : dot w (v2 - v1) = normSq (triN v1 v2 v3) * (f2 - f1) := by
    simp only [hw, triN]; v3_flat; ring
  have e2 : dot w (v3 - v1) = normSq (triN v1 v2 v3) * (f3 - f1) := by
    simp only [hw, triN]; v3_flat; ring
  have e3 : dot w (triN v1 v2 v3) = 0 := by
    simp only [hw, triN]; v3_flat; ring
  have hg : gradTri v1 v2 v3 f1 f2 f3 = smul (1 / normSq (triN v1 v2 v3)) w := rfl
  rw [hg, dot_smul, dot_smul, dot_smul, e1, e2, e3]
  refine ⟨?_, ?_, ?_⟩
  · field_simp
  · field_simp
  · simp

/-- the three equations determine the vector: the gradient of the linear interpolant is the unique solution -/
theorem gradTri_unique (v1 v2 v3 : V3 ℝ) (f1 f2 f3 : ℝ) (hn : normSq (triN v1 v2 v3) ≠ 0) (g : V3 ℝ)
    (h1 : dot g (v2 - v1) = f2 - f1) (h2 : dot g (v3 - v1) = f3 - f1) (h3 : dot g (triN v1 v2 v3) = 0) :
    g = gradTri v1 v2 v3 f1 f2 f3 := by
  obtain ⟨c1, c2, c3⟩ := gradTri_char v1 v2 v3 f1 f2 f3 hn
  set g' := gradTri v1 v2 v3 f1 f2 f3 with hg'
  -- d := g - g' is orthogonal to a basis
  have d1 : dot (g - g') (v2 - v1) = 0 := by
    have : dot (g - g') (v2 - v1) = dot g (v2 - v1) - dot g' (v2 - v1) := by v3_flat; ring
    rw [this, h1, c1]; ring
  have d2 : dot (g - g') (v3 - v1) = 0 := by
    have : dot (g - g') (v3 - v1) = dot g (v3 - v1) - dot g' (v3 - v1) := by v3_flat; ring
    rw [this, h2, c2]; ring
  have d3 : dot (g - g') (triN v1 v2 v3) = 0 := by
    have : dot (g - g') (triN v1 v2 v3) = dot g (triN v1 v2 v3) - dot g' (triN v1 v2 v3) := by v3_flat; ring
    rw [this, h3, c3]; ring
  -- N * d = (d·n) n + ((d·a)(b×n) + (d·b)(n×a))  for a = v2-v1, b = v3-v1, n = a×b
  have key : ∀ d a b : V3 ℝ, dot d a = 0 → dot d b = 0 → dot d (cross a b) = 0 →
      normSq (cross a b) * d.x = 0 ∧ normSq (cross a b) * d.y = 0 ∧ normSq (cross a b) * d.z = 0 := by
    intro d a b ha hb hc
    have ex : normSq (cross a b) * d.x = dot d (cross a b) * (cross a b).x + dot d a * (cross b (cross a b)).x
        + dot d b * (cross (cross a b) a).x := by v3_flat; ring
    have ey : normSq (cross a b) * d.y = dot d (cross a b) * (cross a b).y + dot d a * (cross b (cross a b)).y
        + dot d b * (cross (cross a b) a).y := by v3_flat; ring
    have ez : normSq (cross a b) * d.z = dot d (cross a b) * (cross a b).z + dot d a * (cross b (cross a b)).z
        + dot d b * (cross (cross a b) a).z := by v3_flat; ring
    rw [ex, ey, ez, ha, hb, hc]; simp
  obtain ⟨kx, ky, kz⟩ := key (g - g') (v2 - v1) (v3 - v1) d1 d2 d3
  have hN : normSq (cross (v2 - v1) (v3 - v1)) ≠ 0 := hn
  have zx := (mul_eq_zero.mp kx).resolve_left hN
  have zy := (mul_eq_zero.mp ky).resolve_left hN
  have zz := (mul_eq_zero.mp kz).resolve_left hN
  simp only [sub_x, sub_y, sub_z] at zx zy zz
  apply V3.ext' <;> linarith

end LapyVerif.Spec

namespace LapyVerif.Spec
open LapyVerif V3

/-- six times the signed volume of the tetrahedron -/
def tetDet (v1 v2 v3 v4 : V3 ℝ) : ℝ := dot (v2 - v1) (cross (v3 - v1) (v4 - v1))

noncomputable def tetVolume (v1 v2 v3 v4 : V3 ℝ) : ℝ := |tetDet v1 v2 v3 v4| / 6

/-- gradient of the linear interpolant on a tetrahedron (Cramer's rule for the three difference equations) -/
noncomputable def gradTet (v1 v2 v3 v4 : V3 ℝ) (f1 f2 f3 f4 : ℝ) : V3 ℝ :=
  smul (1 / tetDet v1 v2 v3 v4)
    (smul (f2 - f1) (cross (v3 - v1) (v4 - v1)) + smul (f3 - f1) (cross (v4 - v1) (v2 - v1))
      + smul (f4 - f1) (cross (v2 - v1) (v3 - v1)))

theorem gradTet_char (v1 v2 v3 v4 : V3 ℝ) (f1 f2 f3 f4 : ℝ) (hd : tetDet v1 v2 v3 v4 ≠ 0) :
    dot (gradTet v1 v2 v3 v4 f1 f2 f3 f4) (v2 - v1) = f2 - f1 ∧
    dot (gradTet v1 v2 v3 v4 f1 f2 f3 f4) (v3 - v1) = f3 - f1 ∧
    dot (gradTet v1 v2 v3 v4 f1 f2 f3 f4) (v4 - v1) = f4 - f1 := by
  set w := smul (f2 - f1) (cross (v3 - v1) (v4 - v1)) + smul (f3 - f1) (cross (v4 - v1) (v2 - v1))
      + smul (f4 - f1) (cross (v2 - v1) (v3 - v1)) with hw
  have e1 : dot w (v2 - v1) = tetDet v1 v2 v3 v4 * (f2 - f1) := by simp only [hw, tetDet]; v3_flat; ring
  have e2 : dot w (v3 - v1) = tetDet v1 v2 v3 v4 * (f3 - f1) := by simp only [hw, tetDet]; v3_flat; ring
  have e3 : dot w (v4 - v1) = tetDet v1 v2 v3 v4 * (f4 - f1) := by simp only [hw, tetDet]; v3_flat; ring
  have hg : gradTet v1 v2 v3 v4 f1 f2 f3 f4 = smul (1 / tetDet v1 v2 v3 v4) w := rfl
  rw [hg, dot_smul, dot_smul, dot_smul, e1, e2, e3]
  refine ⟨?_, ?_, ?_⟩ <;> field_simp

/-- the three difference equations determine the gradient -/
theorem gradTet_unique (v1 v2 v3 v4 : V3 ℝ) (f1 f2 f3 f4 : ℝ) (hd : tetDet v1 v2 v3 v4 ≠ 0) (g : V3 ℝ)
    (h1 : dot g (v2 - v1) = f2 - f1) (h2 : dot g (v3 - v1) = f3 - f1) (h3 : dot g (v4 - v1) = f4 - f1) :
    g = gradTet v1 v2 v3 v4 f1 f2 f3 f4 := by
  obtain ⟨c1, c2, c3⟩ := gradTet_char v1 v2 v3 v4 f1 f2 f3 f4 hd
  set g' := gradTet v1 v2 v3 v4 f1 f2 f3 f4
  have d1 : dot (g - g') (v2 - v1) = 0 := by
    have : dot (g - g') (v2 - v1) = dot g (v2 - v1) - dot g' (v2 - v1) := by v3_flat; ring
    rw [this, h1, c1]; ring
  have d2 : dot (g - g') (v3 - v1) = 0 := by
    have : dot (g - g') (v3 - v1) = dot g (v3 - v1) - dot g' (v3 - v1) := by v3_flat; ring
    rw [this, h2, c2]; ring
  have d3 : dot (g - g') (v4 - v1) = 0 := by
    have : dot (g - g') (v4 - v1) = dot g (v4 - v1) - dot g' (v4 - v1) := by v3_flat; ring
    rw [this, h3, c3]; ring
  -- det(a,b,c) • d = (d·a)(b×c) + (d·b)(c×a) + (d·c)(a×b)
  have key : ∀ d a b c : V3 ℝ, dot d a = 0 → dot d b = 0 → dot d c = 0 →
      dot a (cross b c) * d.x = 0 ∧ dot a (cross b c) * d.y = 0 ∧ dot a (cross b c) * d.z = 0 := by
    intro d a b c ha hb hc
    have ex : dot a (cross b c) * d.x = dot d a * (cross b c).x + dot d b * (cross c a).x + dot d c * (cross a b).x := by
      v3_flat; ring
    have ey : dot a (cross b c) * d.y = dot d a * (cross b c).y + dot d b * (cross c a).y + dot d c * (cross a b).y := by
      v3_flat; ring
    have ez : dot a (cross b c) * d.z = dot d a * (cross b c).z + dot d b * (cross c a).z + dot d c * (cross a b).z := by
      v3_flat; ring
    rw [ex, ey, ez, ha, hb, hc]; simp
  obtain ⟨kx, ky, kz⟩ := key (g - g') (v2 - v1) (v3 - v1) (v4 - v1) d1 d2 d3
  have zx := (mul_eq_zero.mp kx).resolve_left hd
  have zy := (mul_eq_zero.mp ky).resolve_left hd
  have zz := (mul_eq_zero.mp kz).resolve_left hd
  simp only [sub_x, sub_y, sub_z] at zx zy zz
  apply V3.ext' <;> linarith

end LapyVerif.Spec
