import LapyVerif.Props.Examples
/- axiom audit of the non-vacuity examples -/
#print axioms LapyVerif.Props.Examples.nd_sq
#print axioms LapyVerif.Props.Examples.nd_tri
#print axioms LapyVerif.Props.Examples.nd_tet
#print axioms LapyVerif.Props.Examples.ex_stiff_form
#print axioms LapyVerif.Props.Examples.ex_stiff_entry
#print axioms LapyVerif.Props.Examples.ex_mass_total
#print axioms LapyVerif.Props.Examples.key01_mem
#print axioms LapyVerif.Props.Examples.ex_mass_total_tet
#print axioms LapyVerif.Props.Examples.key01_mem_tet
#print axioms LapyVerif.Props.Examples.reduce3
#print axioms LapyVerif.Props.Examples.ex_interior_eq
#print axioms LapyVerif.Props.Examples.ndln_sq
#print axioms LapyVerif.Props.Examples.nddet_tet
#print axioms LapyVerif.Props.Examples.ex_heat_conservation
#print axioms LapyVerif.Props.Examples.ex_heron_345
#print axioms LapyVerif.Props.Examples.ex_quality_equilateral
#print axioms LapyVerif.Props.Examples.ex_quality_right
#print axioms LapyVerif.Props.Examples.ndN_tri
#print axioms LapyVerif.Props.Examples.ex_area_sq
#print axioms LapyVerif.Props.Examples.ex_area_scaled
