import LapyVerif.Model.Refine
import LapyVerif.Model.TetTopo
