import LapyVerif.Props.C18
import LapyVerif.Bridge.Spectral2
/- axiom audit of C18 -/
#print axioms LapyVerif.Props.C18.invStereo_unit
#print axioms LapyVerif.Props.C18.invStereoSouth_unit
#print axioms LapyVerif.Props.C18.stereo_invStereo
#print axioms LapyVerif.Props.C18.invStereo_stereo
#print axioms LapyVerif.Props.C18.south_pair
#print axioms LapyVerif.Props.C18.south_mirror
#print axioms LapyVerif.Props.C18.mobius_unit
#print axioms LapyVerif.Props.C18.toC_cdiv
#print axioms LapyVerif.Props.C18.mobius_cross_ratio_C
#print axioms LapyVerif.Props.C18.mobius_cross_ratio
#print axioms LapyVerif.Props.C18.ddx_affine
#print axioms LapyVerif.Props.C18.ddy_affine
#print axioms LapyVerif.Props.C18.beltrami1_eq
#print axioms LapyVerif.Props.C18.beltrami_affine
#print axioms LapyVerif.Props.C18.lbs_block_symm
#print axioms LapyVerif.Props.C18.lbs_block_entry_symm
#print axioms LapyVerif.Props.C18.lbs_block_const
#print axioms LapyVerif.Props.C18.lbs_rowsum
#print axioms LapyVerif.Props.C18.lbsMatrix_symm
#print axioms LapyVerif.Props.C18.lbsMatrix_rowsum
#print axioms LapyVerif.Props.C18.lbsEliminate_row
#print axioms LapyVerif.Props.C18.lbsEliminate_entries
#print axioms LapyVerif.Props.C18.lbsRhs_landmark
#print axioms LapyVerif.Props.C18.lbs_eliminate_spec
#print axioms LapyVerif.Props.C18.eulerGuard_spec
#print axioms LapyVerif.Props.C18.fixnum_spec
#print axioms LapyVerif.Props.C18.fixnum_eq
#print axioms LapyVerif.Bridge.misc_invstereo
#print axioms LapyVerif.Bridge.census_HeatKernel_pcCount
#print axioms LapyVerif.Bridge.census_Misc_pcCount
