import LapyVerif.Model.Conformal
