import LapyVerif.Props.C12
import LapyVerif.Model.Refine
import LapyVerif.Model.TetTopo
import LapyVerif.Bridge.TetOrient
/- axiom audit of C12 (`TetMesh.is_oriented`, `orient_`, `boundary_tria`) -/
#print axioms LapyVerif.Props.C12.isOriented_nil
#print axioms LapyVerif.Props.C12.isOriented_iff
#print axioms LapyVerif.Props.C12.signedVol_swap
#print axioms LapyVerif.Props.C12.orient_fst
#print axioms LapyVerif.Props.C12.orient_snd
#print axioms LapyVerif.Props.C12.orient_spec
#print axioms LapyVerif.Props.C12.orient_oriented
#print axioms LapyVerif.Props.C12.orient_of_no_neg
#print axioms LapyVerif.Props.C12.orient_idempotent
#print axioms LapyVerif.Props.C12.allFaces_length
#print axioms LapyVerif.Props.C12.sort3_spec
#print axioms LapyVerif.Props.C12.mem_boundaryFaces_iff
#print axioms LapyVerif.Props.C12.boundaryFaces_spec
#print axioms LapyVerif.Props.C12.boundaryFaces_nodup
#print axioms LapyVerif.Props.C12.boundaryFaces_sorted
#print axioms LapyVerif.Props.C12.bnd_owner
#print axioms LapyVerif.Props.C12.bnd_outward
#print axioms LapyVerif.Props.C12.bnd_outward'
#print axioms LapyVerif.Props.C12.bnd_outward_mesh
#print axioms LapyVerif.Props.C12.face_volume_sum
#print axioms LapyVerif.Props.C12.face_reverse
#print axioms LapyVerif.Props.C12.cone_oddPerm
#print axioms LapyVerif.Props.C12.oppositeShared_iff
#print axioms LapyVerif.Props.C12.bnd_volume_cone
#print axioms LapyVerif.Props.C12.bnd_volume
#print axioms LapyVerif.Props.C12.bnd_closed_edges
#print axioms LapyVerif.Props.C12.isClosed_of_even
#print axioms LapyVerif.Props.C12.bnd_closed
#print axioms LapyVerif.Props.C12.ts2_oriented
#print axioms LapyVerif.Props.C12.ts2_boundary
#print axioms LapyVerif.Bridge.tet_vols
#print axioms LapyVerif.Bridge.tet_pc
#print axioms LapyVerif.Bridge.tet_orient
#print axioms LapyVerif.Bridge.tet_is_oriented_facts
#print axioms LapyVerif.Bridge.census_TetOrient_pcOrientCount
