import LapyVerif.Model.Level
