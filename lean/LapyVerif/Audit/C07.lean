import LapyVerif.Props.C07b
import LapyVerif.Bridge.Fem
import LapyVerif.Bridge.Spectral2
import LapyVerif.Bridge.VertexMeasures
import LapyVerif.Bridge.SolverGlue
/- axiom audit of C07 -/
#print axioms LapyVerif.Props.C07.form_heatMat
#print axioms LapyVerif.Props.C07.form_one_eq_sum_rows
#print axioms LapyVerif.Props.C07.heat_conservation
#print axioms LapyVerif.Props.C07.seedVec_sum
#print axioms LapyVerif.Props.C07.kernel_entry
#print axioms LapyVerif.Props.C07.kernel_symm
#print axioms LapyVerif.Props.C07.diagonal_eq_kernel
#print axioms LapyVerif.Props.C01.stiff_form_symm
#print axioms LapyVerif.Props.C01.stiff_const_zero
#print axioms LapyVerif.Props.C02.lumped_diagonal
#print axioms LapyVerif.Bridge.fem_tria_A
#print axioms LapyVerif.Bridge.fem_tria_BL
#print axioms LapyVerif.Bridge.fem_tet_A
#print axioms LapyVerif.Bridge.fem_tet_BL
#print axioms LapyVerif.Props.C07.anisoWeights_pos
#print axioms LapyVerif.Props.C07.solverAniso_mass
#print axioms LapyVerif.Props.C07.heat_conservation_aniso
#print axioms LapyVerif.Props.C17.stiffAniso_symm
#print axioms LapyVerif.Props.C17.stiffAniso_const_zero
#print axioms LapyVerif.Bridge.heat_kernel
#print axioms LapyVerif.Bridge.heat_kernel_scalar
#print axioms LapyVerif.Bridge.heat_diagonal
#print axioms LapyVerif.Bridge.misc_tetavg
#print axioms LapyVerif.Bridge.vm_avg
#print axioms LapyVerif.Bridge.glue_heat
#print axioms LapyVerif.Bridge.glue_heat_keys
#print axioms LapyVerif.Bridge.glue_heat_rhs
#print axioms LapyVerif.Bridge.glue_calls
#print axioms LapyVerif.Bridge.glue_calls_names
#print axioms LapyVerif.Bridge.census_FemTria_pcCount
#print axioms LapyVerif.Bridge.census_FemTriaMass_pcCount
#print axioms LapyVerif.Bridge.census_FemTriaAniso_pcCount
#print axioms LapyVerif.Bridge.census_FemTet_pcCount
#print axioms LapyVerif.Bridge.census_SolverGlue_pcCount
#print axioms LapyVerif.Bridge.census_HeatKernel_pcCount
#print axioms LapyVerif.Bridge.census_Misc_pcCount
#print axioms LapyVerif.Bridge.census_VertexMeasures_pcCount
#print axioms LapyVerif.Bridge.census_TransferTri_pcCount
#print axioms LapyVerif.Bridge.diffusion_traced_conservation
