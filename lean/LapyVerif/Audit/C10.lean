import LapyVerif.Model.Orient
/- axiom audit of C10 (theorems are added in Props/C10.lean) -/
