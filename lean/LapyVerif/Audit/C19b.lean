import LapyVerif.Props.C19b
/- axiom audit of C19b -/
#print axioms LapyVerif.Props.C19.maxL_eq_lmax
#print axioms LapyVerif.Props.C19.minL_eq_lmin
#print axioms LapyVerif.Props.C19.meanSel_eq
#print axioms LapyVerif.Props.C19.axisDiff_eq
#print axioms LapyVerif.Props.C19.alignAxis_eq
#print axioms LapyVerif.Props.C19.flow_axis_flip
#print axioms LapyVerif.Props.C19.flow_alignAxis_idem
#print axioms LapyVerif.Props.C19.project100_eq
#print axioms LapyVerif.Props.C19.flow_project_radius
#print axioms LapyVerif.Props.C19.stepMatrix_eq
#print axioms LapyVerif.Props.C19.stepMatrix_eq_solver
#print axioms LapyVerif.Props.C19.flow_step_fixed_model
#print axioms LapyVerif.Props.C19.stepMatrix_form
#print axioms LapyVerif.Props.C19.lumped_form_pos
#print axioms LapyVerif.Props.C19.flow_system_pd
#print axioms LapyVerif.Props.C19.gates_spec
#print axioms LapyVerif.Props.C19.gates_accept_range
#print axioms LapyVerif.Props.C19.stepDiff_nonneg
