import LapyVerif.Model.Transfer
