import LapyVerif.Props.C02b
/- axiom audit of C02b (moment formula = iterated integral) -/
#print axioms LapyVerif.Props.C02.integral_cubic
#print axioms LapyVerif.Props.C02.integral_quadratic
#print axioms LapyVerif.Props.C02.integral_quartic
#print axioms LapyVerif.Props.C02.integral_bernstein3
#print axioms LapyVerif.Props.C02.tri_inner
#print axioms LapyVerif.Props.C02.tri_double_integral
#print axioms LapyVerif.Props.C02.tri_moments
#print axioms LapyVerif.Props.C02.tri_measure
#print axioms LapyVerif.Props.C02.triL2_eq_integral
#print axioms LapyVerif.Props.C02.mass_form_integral
#print axioms LapyVerif.Props.C02.integral_simplex_mid
#print axioms LapyVerif.Props.C02.integral_bernstein4
#print axioms LapyVerif.Props.C02.tet_inner
#print axioms LapyVerif.Props.C02.tet_mid
#print axioms LapyVerif.Props.C02.tet_triple_integral
#print axioms LapyVerif.Props.C02.tetL2_eq_integral
#print axioms LapyVerif.Props.C02.tet_moments
#print axioms LapyVerif.Props.C02.tet_measure
#print axioms LapyVerif.Props.C02.mass_form_integral_tet
#print axioms LapyVerif.Props.C02.ex_nonDegenTri
