import LapyVerif.Props.C02
import LapyVerif.Props.C02b
import LapyVerif.Bridge.Fem
/- axiom audit of C02 -/
#print axioms LapyVerif.Props.C02.mass_form
#print axioms LapyVerif.Spec.triL2_eq_midpoint
#print axioms LapyVerif.Props.C02.mass_form_symm
#print axioms LapyVerif.Props.C02.mass_entry_symm
#print axioms LapyVerif.Props.C02.mass_total
#print axioms LapyVerif.Props.C02.mass_entry_pos
#print axioms LapyVerif.Props.C02.lumped_diagonal
#print axioms LapyVerif.Props.C02.lump_eq_rowsum
#print axioms LapyVerif.Props.C02.lumped_row
#print axioms LapyVerif.Props.C02.standalone_eq_solver
#print axioms LapyVerif.Props.C02.mass_form_tet
#print axioms LapyVerif.Props.C02.mass_form_symm_tet
#print axioms LapyVerif.Props.C02.mass_total_tet
#print axioms LapyVerif.Props.C02.mass_entry_pos_tet
#print axioms LapyVerif.Props.C02.lump_eq_rowsum_tet
#print axioms LapyVerif.Bridge.fem_tria_B
#print axioms LapyVerif.Bridge.fem_tria_BL
#print axioms LapyVerif.Bridge.fem_mass_B
#print axioms LapyVerif.Bridge.fem_mass_BL
#print axioms LapyVerif.Bridge.fem_aniso_B
#print axioms LapyVerif.Bridge.fem_tet_B
#print axioms LapyVerif.Bridge.fem_tet_BL
#print axioms LapyVerif.Props.C02.integral_cubic
#print axioms LapyVerif.Props.C02.integral_quadratic
#print axioms LapyVerif.Props.C02.integral_quartic
#print axioms LapyVerif.Props.C02.integral_bernstein3
#print axioms LapyVerif.Props.C02.tri_inner
#print axioms LapyVerif.Props.C02.tri_double_integral
#print axioms LapyVerif.Props.C02.tri_moments
#print axioms LapyVerif.Props.C02.tri_measure
#print axioms LapyVerif.Props.C02.triL2_eq_integral
#print axioms LapyVerif.Props.C02.mass_form_integral
#print axioms LapyVerif.Props.C02.integral_simplex_mid
#print axioms LapyVerif.Props.C02.integral_bernstein4
#print axioms LapyVerif.Props.C02.tet_inner
#print axioms LapyVerif.Props.C02.tet_mid
#print axioms LapyVerif.Props.C02.tet_triple_integral
#print axioms LapyVerif.Props.C02.tetL2_eq_integral
#print axioms LapyVerif.Props.C02.tet_moments
#print axioms LapyVerif.Props.C02.tet_measure
#print axioms LapyVerif.Props.C02.mass_form_integral_tet
#print axioms LapyVerif.Props.C02.ex_nonDegenTri
