import LapyVerif.Props.C14b
/- axiom audit of C14b (FreeSurfer binary surfaces) -/
#print axioms LapyVerif.Props.C14b.be32_roundtrip
#print axioms LapyVerif.Props.C14b.readBlock_words
#print axioms LapyVerif.Props.C14b.readFs_mesh
#print axioms LapyVerif.Props.C14b.fs_roundtrip
#print axioms LapyVerif.Props.C14b.fs_roundtrip_head210
#print axioms LapyVerif.Props.C14b.fs_bad_magic
#print axioms LapyVerif.Props.C14b.readFs_short
#print axioms LapyVerif.Props.C14b.readBlock_short
#print axioms LapyVerif.Props.C14b.fs_truncated_mesh
#print axioms LapyVerif.Props.C14b.fs_truncated_footer
#print axioms LapyVerif.Props.C14b.readVolInfo_few
#print axioms LapyVerif.Props.C14b.fs_truncated_head
#print axioms LapyVerif.Props.C14b.exSurf_good
#print axioms LapyVerif.FsSurf.readVolInfo_writeInfo
#print axioms LapyVerif.FsSurf.readInfoBody_lines
#print axioms LapyVerif.FsSurf.parseKV_line
#print axioms LapyVerif.FsSurf.fromfile_words
