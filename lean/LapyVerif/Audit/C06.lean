import LapyVerif.Props.C06
import LapyVerif.Bridge.DiffGeo
import LapyVerif.Bridge.Fem
import LapyVerif.Bridge.Dispatch
/- axiom audit of C06 -/
#print axioms LapyVerif.Props.C06.triGrad_eq_spec
#print axioms LapyVerif.Props.C06.triGrad_char
#print axioms LapyVerif.Props.C06.triGrad_tangent
#print axioms LapyVerif.Props.C06.triGrad_affine
#print axioms LapyVerif.Props.C06.tetGrad_eq_spec
#print axioms LapyVerif.Props.C06.tetGrad_char
#print axioms LapyVerif.Props.C06.tetGrad_affine
#print axioms LapyVerif.Props.C06.triDiv_adjoint
#print axioms LapyVerif.Props.C06.triDiv_sum_zero
#print axioms LapyVerif.Props.C06.triDiv2_eq_triDiv
#print axioms LapyVerif.Props.C06.triDiv_grad
#print axioms LapyVerif.Props.C06.tetDiv_adjoint
#print axioms LapyVerif.Props.C06.tetDiv_sum_zero
#print axioms LapyVerif.Props.C06.tetDiv_grad
#print axioms LapyVerif.Props.C06.entry_col0
#print axioms LapyVerif.Bridge.diff_tri_grad
#print axioms LapyVerif.Bridge.diff_tri_div
#print axioms LapyVerif.Bridge.diff_tri_div2
#print axioms LapyVerif.Bridge.DiffTetPos_grad
#print axioms LapyVerif.Bridge.DiffTetNeg_grad
#print axioms LapyVerif.Bridge.DiffTetPos_div
#print axioms LapyVerif.Bridge.DiffTetNeg_div
#print axioms LapyVerif.Bridge.fem_tria_A
#print axioms LapyVerif.Bridge.fem_tet_A
#print axioms LapyVerif.Bridge.census_DiffTri_pcCount
#print axioms LapyVerif.Bridge.census_DiffTetPos_pcCount
#print axioms LapyVerif.Bridge.census_DiffTetNeg_pcCount
#print axioms LapyVerif.Bridge.census_FemTria_pcCount
#print axioms LapyVerif.Bridge.census_FemTriaMass_pcCount
#print axioms LapyVerif.Bridge.census_FemTriaAniso_pcCount
#print axioms LapyVerif.Bridge.census_FemTet_pcCount
#print axioms LapyVerif.Bridge.dispatch_facts
