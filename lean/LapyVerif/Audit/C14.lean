import LapyVerif.Model.Formats
