import LapyVerif.Model.Geo
import LapyVerif.Props.C06
import LapyVerif.Props.C03
import LapyVerif.Bridge.DiffGeo
import LapyVerif.Bridge.Fem
/- axiom audit of C08 (composition theorems are added in Props/C08.lean) -/
#print axioms LapyVerif.Props.C06.triDiv_sum_zero
#print axioms LapyVerif.Props.C06.tetDiv_sum_zero
#print axioms LapyVerif.Props.C06.triDiv_grad
#print axioms LapyVerif.Props.C06.tetDiv_grad
#print axioms LapyVerif.Props.C03.kernel_const_on_components
#print axioms LapyVerif.Props.C03.kernel_const_on_components_tet
#print axioms LapyVerif.Bridge.diff_tri_grad
#print axioms LapyVerif.Bridge.diff_tri_div
#print axioms LapyVerif.Bridge.DiffTetPos_grad
#print axioms LapyVerif.Bridge.DiffTetNeg_grad
#print axioms LapyVerif.Bridge.DiffTetPos_div
#print axioms LapyVerif.Bridge.DiffTetNeg_div
#print axioms LapyVerif.Bridge.fem_tria_A
#print axioms LapyVerif.Bridge.fem_tet_A
