import LapyVerif.Model.Geo
import LapyVerif.Props.C08
import LapyVerif.Props.C06
import LapyVerif.Props.C03
import LapyVerif.Bridge.DiffGeo
import LapyVerif.Bridge.Fem
import LapyVerif.Bridge.Poisson
import LapyVerif.Bridge.GeoGlue
import LapyVerif.Bridge.Dispatch
/- axiom audit of C08 (ingredients, then the composition theorems of Props/C08.lean) -/
#print axioms LapyVerif.Props.C06.triDiv_sum_zero
#print axioms LapyVerif.Props.C06.tetDiv_sum_zero
#print axioms LapyVerif.Props.C06.triDiv_grad
#print axioms LapyVerif.Props.C06.tetDiv_grad
#print axioms LapyVerif.Props.C03.kernel_const_on_components
#print axioms LapyVerif.Props.C03.kernel_const_on_components_tet
#print axioms LapyVerif.Bridge.diff_tri_grad
#print axioms LapyVerif.Bridge.diff_tri_div
#print axioms LapyVerif.Bridge.DiffTetPos_grad
#print axioms LapyVerif.Bridge.DiffTetNeg_grad
#print axioms LapyVerif.Bridge.DiffTetPos_div
#print axioms LapyVerif.Bridge.DiffTetNeg_div
#print axioms LapyVerif.Bridge.fem_tria_A
#print axioms LapyVerif.Bridge.fem_tet_A
#print axioms LapyVerif.Props.C08.geo_rhs_compatible
#print axioms LapyVerif.Props.C08.geo_rhs_compatible_tet
#print axioms LapyVerif.Props.C08.rot_rhs_compatible
#print axioms LapyVerif.Props.C08.geo_rhs_compatible_components
#print axioms LapyVerif.Props.C08.geo_rhs_compatible_components_tet
#print axioms LapyVerif.Props.C08.runMin_spec
#print axioms LapyVerif.Props.C08.shiftMin_eq
#print axioms LapyVerif.Props.C08.shiftMin_spec
#print axioms LapyVerif.Props.C08.shiftMin_nil
#print axioms LapyVerif.Props.C08.normSq_nonneg
#print axioms LapyVerif.Props.C08.normSq_ne_zero_of_ne
#print axioms LapyVerif.Props.C08.normalizeRow_eq
#print axioms LapyVerif.Props.C08.normalizeRow_unit
#print axioms LapyVerif.Props.C08.normalizeRow_zero
#print axioms LapyVerif.Props.C08.mulVec_add
#print axioms LapyVerif.Props.C08.triGrad_affine_flat
#print axioms LapyVerif.Props.C08.geo_field_affine_tri
#print axioms LapyVerif.Props.C08.geo_affine_tri
#print axioms LapyVerif.Props.C08.geo_solution_affine
#print axioms LapyVerif.Props.C08.geo_field_affine_tet
#print axioms LapyVerif.Props.C08.geo_affine_tet
#print axioms LapyVerif.Props.C08.geo_solution_affine_tet
#print axioms LapyVerif.Props.C08.unitVec_spec
#print axioms LapyVerif.Props.C08.rotZ_spec
#print axioms LapyVerif.Props.C08.triNormal_flat
#print axioms LapyVerif.Props.C08.rot_field_affine
#print axioms LapyVerif.Props.C08.rot_rhs_affine
#print axioms LapyVerif.Props.C08.rot_solution_affine
#print axioms LapyVerif.Props.C08.vtxSq_flat
#print axioms LapyVerif.Props.C08.tsSq_triN
#print axioms LapyVerif.Props.C08.tsSq_nonDegen
#print axioms LapyVerif.Props.C08.tsSq_oriented
#print axioms LapyVerif.Bridge.free_idx
#print axioms LapyVerif.Bridge.poisson_system
#print axioms LapyVerif.Bridge.poisson_result
#print axioms LapyVerif.Bridge.poisson_run
#print axioms LapyVerif.Bridge.poisson_system_neumann
#print axioms LapyVerif.Bridge.poisson_result_neumann
#print axioms LapyVerif.Bridge.poisson_format
#print axioms LapyVerif.Bridge.census_DiffTri_pcCount
#print axioms LapyVerif.Bridge.census_DiffTetPos_pcCount
#print axioms LapyVerif.Bridge.census_DiffTetNeg_pcCount
#print axioms LapyVerif.Bridge.census_FemTria_pcCount
#print axioms LapyVerif.Bridge.census_FemTriaMass_pcCount
#print axioms LapyVerif.Bridge.census_FemTriaAniso_pcCount
#print axioms LapyVerif.Bridge.census_FemTet_pcCount
#print axioms LapyVerif.Bridge.census_PoissonSys_pcCount
#print axioms LapyVerif.Bridge.geo_field
#print axioms LapyVerif.Bridge.rot_field
#print axioms LapyVerif.Bridge.geo_result
#print axioms LapyVerif.Bridge.geo_facts
#print axioms LapyVerif.Bridge.census_GeoGlue_pcCount
#print axioms LapyVerif.Bridge.dispatch_facts
