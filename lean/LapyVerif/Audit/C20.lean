import LapyVerif.Bridge.C20
import LapyVerif.Bridge.ShapeDNA
/- axiom audit of C20 -/
#print axioms LapyVerif.Props.C20.inv_step
#print axioms LapyVerif.Props.C20.inv_history
#print axioms LapyVerif.Props.C20.inv_from_ctor
#print axioms LapyVerif.Props.C20.query_fresh
#print axioms LapyVerif.Props.C20.state_fresh
#print axioms LapyVerif.Props.C20.tet_inv_step
#print axioms LapyVerif.Props.C20.tet_inv_history
#print axioms LapyVerif.Bridge.tri_table_ok
#print axioms LapyVerif.Bridge.tet_table_ok
#print axioms LapyVerif.Bridge.writers_reinit
#print axioms LapyVerif.Bridge.vertex_only
#print axioms LapyVerif.Bridge.ops_present
#print axioms LapyVerif.Bridge.purity_table
#print axioms LapyVerif.Bridge.tri_history
#print axioms LapyVerif.Bridge.tet_history
#print axioms LapyVerif.Bridge.sdna_normalize
#print axioms LapyVerif.Bridge.sdna_facts
#print axioms LapyVerif.Bridge.sdna_fields
#print axioms LapyVerif.Bridge.census_ShapeDNA_pcCount
