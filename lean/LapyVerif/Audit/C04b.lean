import LapyVerif.Props.C04b
/- axiom audit of C04b (model `Spectral.*` vs the C04 theorems) -/
#print axioms LapyVerif.Props.C04.spectral_reweight_eq
#print axioms LapyVerif.Props.C04.spectral_distance_eq
#print axioms LapyVerif.Props.C04.pow23_real
#print axioms LapyVerif.Props.C04.normalizeEv_spec
#print axioms LapyVerif.Props.C04.normalizeEv_scale
#print axioms LapyVerif.Props.C04.dictFields_spec
#print axioms LapyVerif.Props.C04.spectral_shiftMat_eq
#print axioms LapyVerif.rpow_real
