import LapyVerif.Props.C03
import LapyVerif.Bridge.C03
import LapyVerif.Bridge.Fem
import LapyVerif.Bridge.SolverGlue
/- axiom audit of C03 -/
#print axioms LapyVerif.Props.C03.form_scale
#print axioms LapyVerif.Props.C03.form_shiftMat
#print axioms LapyVerif.Props.C03.mulVec_cons
#print axioms LapyVerif.Props.C03.mulVec_scale
#print axioms LapyVerif.Props.C03.mulVec_shiftMat
#print axioms LapyVerif.Props.C03.mulVec_smul
#print axioms LapyVerif.Props.C03.form_eq_sum_mulVec
#print axioms LapyVerif.Props.C03.exists_row_bound
#print axioms LapyVerif.Props.C03.form_of_rows
#print axioms LapyVerif.Props.C03.shift_pd
#print axioms LapyVerif.Props.C03.shift_injective
#print axioms LapyVerif.Props.C03.shift_unique
#print axioms LapyVerif.Props.C03.shift_pairs
#print axioms LapyVerif.Props.C03.shift_pairs_conv
#print axioms LapyVerif.Props.C03.shift_order
#print axioms LapyVerif.Props.C03.shift_back
#print axioms LapyVerif.Props.C03.shift_sorted
#print axioms LapyVerif.Props.C03.gen_eig_nonneg
#print axioms LapyVerif.Props.C03.gen_eig_rayleigh
#print axioms LapyVerif.Props.C03.eig_B_orth
#print axioms LapyVerif.Props.C03.all_zero_of_sum_zero
#print axioms LapyVerif.Props.C03.dot_self_nonneg
#print axioms LapyVerif.Props.C03.eq_zero_of_dot_self
#print axioms LapyVerif.Props.C03.dot_zero_left
#print axioms LapyVerif.Props.C03.kernel_const_on_elements
#print axioms LapyVerif.Props.C03.kernel_const_on_components
#print axioms LapyVerif.Props.C03.energy_zero_of_rows
#print axioms LapyVerif.Props.C03.const_in_kernel
#print axioms LapyVerif.Props.C03.kernel_iff
#print axioms LapyVerif.Props.C03.kernel_const_on_elements_tet
#print axioms LapyVerif.Props.C03.kernel_const_on_components_tet
#print axioms LapyVerif.Props.C03.const_in_kernel_tet
#print axioms LapyVerif.Props.C03.exA_psd
#print axioms LapyVerif.Props.C03.exB_pd
#print axioms LapyVerif.Props.C03.exX_eig
#print axioms LapyVerif.Props.C03.exY_eig
#print axioms LapyVerif.Props.C03.ex_symm
#print axioms LapyVerif.Props.C03.ex_nonDegenTri
#print axioms LapyVerif.Bridge.eigs_sigma_neg
#print axioms LapyVerif.Bridge.eigs_call_shape
#print axioms LapyVerif.Bridge.shiftMat_eq
#print axioms LapyVerif.Bridge.fem_tria_A
#print axioms LapyVerif.Bridge.fem_tria_B
#print axioms LapyVerif.Bridge.fem_tet_A
#print axioms LapyVerif.Bridge.fem_tet_B
#print axioms LapyVerif.Bridge.glue_sigma
#print axioms LapyVerif.Bridge.glue_shifted
#print axioms LapyVerif.Bridge.glue_shifted_keys
#print axioms LapyVerif.Bridge.glue_calls
#print axioms LapyVerif.Bridge.glue_calls_names
