import LapyVerif.Props.C13
import LapyVerif.Bridge.Measures2
import LapyVerif.Bridge.Measures
import LapyVerif.Props.C13b
import LapyVerif.Bridge.VertexMeasures
/- axiom audit of C13 -/
#print axioms LapyVerif.Props.C13.heron_eq_cross
#print axioms LapyVerif.Props.C13.area_eq_sum
#print axioms LapyVerif.Props.C13.volume_open
#print axioms LapyVerif.Props.C13.volume_unoriented
#print axioms LapyVerif.Props.C13.volume_closed
#print axioms LapyVerif.Props.C13.volumeSum_flip
#print axioms LapyVerif.Props.C13.volumeSum_scale
#print axioms LapyVerif.Props.C13.triNormal_spec
#print axioms LapyVerif.Props.C13.weitzenboeck
#print axioms LapyVerif.Props.C13.quality_range
#print axioms LapyVerif.Props.C13.triArea_similarity
#print axioms LapyVerif.Props.C13.heron_similarity
#print axioms LapyVerif.Props.C13.area_similarity
#print axioms LapyVerif.Props.C13.quality_similarity
#print axioms LapyVerif.rows_isIsometry
#print axioms LapyVerif.translate_isIsometry
#print axioms LapyVerif.scale_isSimilarity
#print axioms LapyVerif.Bridge.meas_areas
#print axioms LapyVerif.Bridge.meas_area
#print axioms LapyVerif.Bridge.meas_volume
#print axioms LapyVerif.Bridge.meas_normal
#print axioms LapyVerif.Bridge.meas_qualities
#print axioms LapyVerif.Bridge.meas_total
#print axioms LapyVerif.Lemmas.balanced_sum_zero
#print axioms LapyVerif.Lemmas.balanced_sum_zero_v3
#print axioms LapyVerif.Props.C13.dirKeys_arcBalanced
#print axioms LapyVerif.Props.C13.halfEdgeCount_symm
#print axioms LapyVerif.Props.C13.vector_area_zero
#print axioms LapyVerif.Props.C13.volume_translation_inv
#print axioms LapyVerif.Props.C13.volume_translation_inv'
#print axioms LapyVerif.Bridge.meas_centroid_x
#print axioms LapyVerif.Bridge.meas_centroid_y
#print axioms LapyVerif.Bridge.meas_centroid_z
#print axioms LapyVerif.Bridge.meas_centroid
#print axioms LapyVerif.Bridge.normalize_head
#print axioms LapyVerif.Bridge.gen_normalized_x
#print axioms LapyVerif.Bridge.gen_normalized_y
#print axioms LapyVerif.Bridge.gen_normalized_z
#print axioms LapyVerif.Bridge.meas_normalized
#print axioms LapyVerif.Bridge.vm_vareas
#print axioms LapyVerif.Bridge.vm_avg
#print axioms LapyVerif.Bridge.acc0
#print axioms LapyVerif.Bridge.acc3
#print axioms LapyVerif.Bridge.vm_vnormal0
#print axioms LapyVerif.Bridge.vm_vnormal3
#print axioms LapyVerif.Bridge.vm_offset0
#print axioms LapyVerif.Bridge.census_Measures_pcCount
#print axioms LapyVerif.Bridge.census_VertexMeasures_pcCount
#print axioms LapyVerif.Bridge.census_TransferTri_pcCount
