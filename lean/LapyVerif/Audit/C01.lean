import LapyVerif.Props.C01
import LapyVerif.Bridge.Fem
import LapyVerif.Bridge.SolverAniso
import LapyVerif.Bridge.CurvTria
import LapyVerif.Bridge.Dispatch
/- axiom audit of C01: every property theorem and every bridge it rests on -/
#print axioms LapyVerif.Props.C01.stiff_form
#print axioms LapyVerif.Props.C01.stiff_form_symm
#print axioms LapyVerif.Props.C01.stiff_entry_symm
#print axioms LapyVerif.Props.C01.stiff_const_zero
#print axioms LapyVerif.Props.C01.stiff_psd
#print axioms LapyVerif.Props.C01.stiff_denominators
#print axioms LapyVerif.Props.C01.stiff_form_reorder
#print axioms LapyVerif.Props.C01.stiff_entry_reorder
#print axioms LapyVerif.Props.C01.stiff_form_tet
#print axioms LapyVerif.Props.C01.stiff_form_symm_tet
#print axioms LapyVerif.Props.C01.stiff_entry_symm_tet
#print axioms LapyVerif.Props.C01.stiff_const_zero_tet
#print axioms LapyVerif.Props.C01.stiff_psd_tet
#print axioms LapyVerif.Spec.gradTri_char
#print axioms LapyVerif.Spec.gradTri_unique
#print axioms LapyVerif.Spec.gradTet_char
#print axioms LapyVerif.Spec.gradTet_unique
#print axioms LapyVerif.Bridge.fem_tria_A
#print axioms LapyVerif.Bridge.fem_tria_AL
#print axioms LapyVerif.Bridge.fem_aniso_A
#print axioms LapyVerif.Bridge.fem_tet_A
#print axioms LapyVerif.Bridge.solver_aniso_pc
#print axioms LapyVerif.Bridge.solver_aniso_gen_A
#print axioms LapyVerif.Bridge.solver_aniso_A
#print axioms LapyVerif.Bridge.solver_aniso_scalar
#print axioms LapyVerif.Bridge.solver_aniso_lump_A
#print axioms LapyVerif.Bridge.solver_aniso_B
#print axioms LapyVerif.Bridge.solver_aniso_smooth
#print axioms LapyVerif.Bridge.proj_eq
#print axioms LapyVerif.Bridge.curv_tria_umin
#print axioms LapyVerif.Bridge.curv_tria_umax
#print axioms LapyVerif.Bridge.curv_tria_c
#print axioms LapyVerif.Bridge.curv_tria_smooth
#print axioms LapyVerif.Bridge.census_CurvTria_pcCount
#print axioms LapyVerif.Bridge.census_FemTria_pcCount
#print axioms LapyVerif.Bridge.census_FemTriaMass_pcCount
#print axioms LapyVerif.Bridge.census_FemTriaAniso_pcCount
#print axioms LapyVerif.Bridge.census_FemTet_pcCount
#print axioms LapyVerif.Bridge.census_SolverAniso_pcCount
#print axioms LapyVerif.Bridge.dispatch_facts
