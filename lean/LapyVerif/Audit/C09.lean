import LapyVerif.Model.Topo
/- axiom audit of C09 (theorems are added in Props/C09.lean) -/
