import LapyVerif.Model.Poisson
