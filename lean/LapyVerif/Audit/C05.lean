import LapyVerif.Props.C05
import LapyVerif.Props.C05b
import LapyVerif.Props.C01
import LapyVerif.Bridge.Fem
import LapyVerif.Bridge.Poisson
/- axiom audit of C05 -/
#print axioms LapyVerif.Props.C05.dirichlet_exact
#print axioms LapyVerif.Props.C05.interior_eq
#print axioms LapyVerif.Props.C05.run_spec
#print axioms LapyVerif.Props.C05.rhs_linear
#print axioms LapyVerif.Props.C05.fill_eq_xfun
#print axioms LapyVerif.Props.C05.scatter_of_mem
#print axioms LapyVerif.Props.C05.scatter_of_not_mem
#print axioms LapyVerif.Props.C01.stiff_form
#print axioms LapyVerif.Props.C01.stiff_psd
#print axioms LapyVerif.Bridge.fem_tria_A
#print axioms LapyVerif.Bridge.fem_tria_B
#print axioms LapyVerif.Bridge.fem_tet_A
#print axioms LapyVerif.Bridge.fem_tet_B
#print axioms LapyVerif.Lemmas.telescope_sum_zero_v3
#print axioms LapyVerif.Props.C05.flat_term
#print axioms LapyVerif.Props.C05.affine_harmonic
#print axioms LapyVerif.Props.C05.affine_harmonic_pos
#print axioms LapyVerif.Props.C05.affine_harmonic_reorient
#print axioms LapyVerif.Props.C05.balancedAt_iff
#print axioms LapyVerif.Props.C05.balancedAt_of_interior
#print axioms LapyVerif.Props.C05.balancedAt_of_closed
#print axioms LapyVerif.Bridge.free_idx
#print axioms LapyVerif.Bridge.poisson_system
#print axioms LapyVerif.Bridge.poisson_result
#print axioms LapyVerif.Bridge.poisson_run
#print axioms LapyVerif.Bridge.poisson_system_neumann
#print axioms LapyVerif.Bridge.poisson_result_neumann
#print axioms LapyVerif.Bridge.poisson_format
#print axioms LapyVerif.Bridge.census_FemTria_pcCount
#print axioms LapyVerif.Bridge.census_FemTriaMass_pcCount
#print axioms LapyVerif.Bridge.census_FemTriaAniso_pcCount
#print axioms LapyVerif.Bridge.census_FemTet_pcCount
#print axioms LapyVerif.Bridge.census_PoissonSys_pcCount
#print axioms LapyVerif.Bridge.poisson_traced_spec
#print axioms LapyVerif.Bridge.poisson_traced_matrix
