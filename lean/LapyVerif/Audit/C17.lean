import LapyVerif.Props.C17
import LapyVerif.Bridge.CurvTria
/- axiom audit of C17 -/
#print axioms LapyVerif.Props.C17.argsort3_eq
#print axioms LapyVerif.Props.C17.argsort3_perm
#print axioms LapyVerif.Props.C17.argsort3_stable
#print axioms LapyVerif.Props.C17.argsort3_indices
#print axioms LapyVerif.Props.C17.post_eq
#print axioms LapyVerif.Props.C17.frame_post
#print axioms LapyVerif.Props.C17.frame_post_pairing
#print axioms LapyVerif.Props.C17.frame_post_oriented
#print axioms LapyVerif.Props.C17.frame_post_degenerate
#print axioms LapyVerif.Props.C17.curvTria_frame
#print axioms LapyVerif.Props.C17.curvTria_feeds_aniso
#print axioms LapyVerif.Props.C17.aniso_local_form
#print axioms LapyVerif.Props.C17.iso_local_form
#print axioms LapyVerif.Props.C17.aniso_local_symm
#print axioms LapyVerif.Props.C17.aniso_const_zero
#print axioms LapyVerif.Props.C17.aniso_psd
#print axioms LapyVerif.Props.C17.aniso_le_iso
#print axioms LapyVerif.Props.C17.aniso_one_eq_iso
#print axioms LapyVerif.Props.C17.stiffAniso_form
#print axioms LapyVerif.Props.C17.stiffAniso_symm
#print axioms LapyVerif.Props.C17.stiffAniso_entry_symm
#print axioms LapyVerif.Props.C17.stiffAniso_const_zero
#print axioms LapyVerif.Props.C17.stiffAniso_psd
#print axioms LapyVerif.Props.C17.stiffAniso_le_iso
#print axioms LapyVerif.Props.C17.stiffAniso_one_eq_iso
#print axioms LapyVerif.Props.C17.exp_weight_mem
#print axioms LapyVerif.Bridge.proj_eq
#print axioms LapyVerif.Bridge.curv_tria_umin
#print axioms LapyVerif.Bridge.curv_tria_umax
#print axioms LapyVerif.Bridge.curv_tria_c
#print axioms LapyVerif.Bridge.curv_tria_smooth
#print axioms LapyVerif.Bridge.census_CurvTria_pcCount
