import LapyVerif.Model.Curvature
