import LapyVerif.Bridge.Measures2
/- axiom audit of the centroid / normalize_ bridges -/
#print axioms LapyVerif.Bridge.meas_centroid_x
#print axioms LapyVerif.Bridge.meas_centroid_y
#print axioms LapyVerif.Bridge.meas_centroid_z
#print axioms LapyVerif.Bridge.meas_centroid
#print axioms LapyVerif.Bridge.normalize_head
#print axioms LapyVerif.Bridge.gen_normalized_x
#print axioms LapyVerif.Bridge.gen_normalized_y
#print axioms LapyVerif.Bridge.gen_normalized_z
#print axioms LapyVerif.Bridge.meas_normalized
