import LapyVerif.Model.V3
import LapyVerif.Model.Coo
namespace LapyVerif

/-- a triangle: the row `(t[k,0], t[k,1], t[k,2])` -/
abbrev Tri := Nat × Nat × Nat
/-- a tetrahedron row -/
abbrev Tet := Nat × Nat × Nat × Nat

/-- `np.mean` of a 1-D array -/
def meanL {K : Type} [Zero K] [Add K] [Div K] [NatCast K] (l : List K) : K :=
  l.sum / ((l.length : Nat) : K)

end LapyVerif
