import LapyVerif.Model.Mesh
/-
  Model of the element kernels of `lapy/diffgeo.py`: `tria_compute_gradient`, `tria_compute_divergence`,
  `tria_compute_divergence2`, `tet_compute_gradient`, `tet_compute_divergence` (after the orientation repair F7).
  Divergences are returned as the triplets `((i,0), value)` handed to `csc_matrix` (already scaled by the
  factor the code applies to the dense result), so the summed entry `Coo.entry · i 0` is `vfunc[i]`.
-/
namespace LapyVerif
namespace DiffGeo
open V3

variable {K : Type} [Zero K] [Add K] [Sub K] [Mul K] [Div K] [Neg K] [NatCast K] [HasSqrt K]
variable [LT K] [DecidableRel (α := K) (· < ·)]

/-- `np.sign` -/
def sgn (x : K) : K := if x < 0 then -((1 : Nat) : K) else if 0 < x then ((1 : Nat) : K) else 0

/-- `ln[ln < eps] = 1` -/
def guard1 (x : K) : K := if x < epsK then ((1 : Nat) : K) else x

/-! ### triangles -/

/-- un-normalised normal `n = np.cross(e2, -e1)` and its guarded length -/
def triNormalLen (v0 v1 v2 : V3 K) : V3 K × K :=
  let e2 := v1 - v0; let e1 := v0 - v2
  let n := cross e2 (-e1)
  (n, guard1 (sqrt (normSq n)))

def triGrad1 (v0 v1 v2 : V3 K) (f0 f1 f2 : K) : V3 K :=
  let e2 := v1 - v0; let e0 := v2 - v1; let e1 := v0 - v2
  let (n, ln) := triNormalLen v0 v1 v2
  let lni := ((1 : Nat) : K) / ln
  let nn := smul lni n
  let c := smul f0 e0 + smul f1 e1 + smul f2 e2
  smul lni (cross nn c)

def triGrad (vtx : Nat → V3 K) (ts : List Tri) (f : Nat → K) : List (V3 K) :=
  ts.map fun τ => triGrad1 (vtx τ.1) (vtx τ.2.1) (vtx τ.2.2) (f τ.1) (f τ.2.1) (f τ.2.2)

/-- the three values `x0 x1 x2` of `tria_compute_divergence` for one triangle (before the factor 0.5) -/
def triDiv1 (v0 v1 v2 : V3 K) (X : V3 K) : K × K × K :=
  let e2 := v1 - v0; let e0 := v2 - v1; let e1 := v0 - v2
  let (_, ln) := triNormalLen v0 v1 v2
  let cot0 := dot e2 (-e1) / ln
  let cot1 := dot e0 (-e2) / ln
  let cot2 := dot e1 (-e0) / ln
  let c0 := smul cot0 e0; let c1 := smul cot1 e1; let c2 := smul cot2 e2
  (dot (c2 - c1) X, dot (c0 - c2) X, dot (c1 - c0) X)

def half : K := ((1 : Nat) : K) / ((2 : Nat) : K)

def triDiv (vtx : Nat → V3 K) (ts : List Tri) (X : List (V3 K)) : Coo K :=
  List.flatten <| (ts.zip X).map fun (τ, x) =>
    let (x0, x1, x2) := triDiv1 (vtx τ.1) (vtx τ.2.1) (vtx τ.2.2) x
    [((τ.1, 0), half * x0), ((τ.2.1, 0), half * x1), ((τ.2.2, 0), half * x2)]

/-- `tria_compute_divergence2`: flux through the edge normals -/
def triDiv2_1 (v0 v1 v2 : V3 K) (X : V3 K) : K × K × K :=
  let e2 := v1 - v0; let e0 := v2 - v1; let e1 := v0 - v2
  let (n, ln) := triNormalLen v0 v1 v2
  let lni := ((1 : Nat) : K) / ln
  let nn := smul lni n
  (dot (cross e0 nn) X, dot (cross e1 nn) X, dot (cross e2 nn) X)

def triDiv2 (vtx : Nat → V3 K) (ts : List Tri) (X : List (V3 K)) : Coo K :=
  List.flatten <| (ts.zip X).map fun (τ, x) =>
    let (x0, x1, x2) := triDiv2_1 (vtx τ.1) (vtx τ.2.1) (vtx τ.2.2) x
    [((τ.1, 0), half * x0), ((τ.2.1, 0), half * x1), ((τ.2.2, 0), half * x2)]

/-! ### tetrahedra -/

variable [HasAbs K]

/-- `vol[np.abs(vol) < eps] = 1` on the signed `vol = e3·(e0×e2)` -/
def tetGradVol (v0 v1 v2 v3 : V3 K) : K :=
  let e0 := v1 - v0; let e2 := v0 - v2; let e3 := v3 - v0
  let vol := dot e3 (cross e0 e2)
  if HasAbs.abs vol < epsK then ((1 : Nat) : K) else vol

def tetGrad1 (v0 v1 v2 v3 : V3 K) (f0 f1 f2 f3 : K) : V3 K :=
  let e0 := v1 - v0; let e2 := v0 - v2; let e3 := v3 - v0; let e4 := v3 - v1; let e5 := v3 - v2
  let voli := ((1 : Nat) : K) / tetGradVol v0 v1 v2 v3
  let c1 := smul (f1 - f0) (cross e2 e5)
  let c2 := smul (f2 - f0) (cross e3 e4)
  let c3 := smul (f3 - f0) (cross (-e2) e0)
  smul voli (c1 + c2 + c3)

def tetGrad (vtx : Nat → V3 K) (ts : List Tet) (f : Nat → K) : List (V3 K) :=
  ts.map fun τ => tetGrad1 (vtx τ.1) (vtx τ.2.1) (vtx τ.2.2.1) (vtx τ.2.2.2) (f τ.1) (f τ.2.1) (f τ.2.2.1) (f τ.2.2.2)

/-- the four values `x0..x3` of `tet_compute_divergence` (normals flipped by the orientation sign) -/
def tetDiv1 (v0 v1 v2 v3 : V3 K) (X : V3 K) : K × K × K × K :=
  let e0 := v1 - v0; let e1 := v2 - v1; let e2 := v2 - v0; let e3 := v3 - v0; let e4 := v3 - v1
  let n0 := cross e1 e4; let n1 := cross e3 e2; let n2 := cross e0 e3; let n3 := cross e2 e0
  let s := sgn (dot e3 n3)
  (dot (smul s n0) X, dot (smul s n1) X, dot (smul s n2) X, dot (smul s n3) X)

def tetDiv (vtx : Nat → V3 K) (ts : List Tet) (X : List (V3 K)) : Coo K :=
  let c : K := -(((1 : Nat) : K) / ((6 : Nat) : K))
  List.flatten <| (ts.zip X).map fun (τ, x) =>
    let (x0, x1, x2, x3) := tetDiv1 (vtx τ.1) (vtx τ.2.1) (vtx τ.2.2.1) (vtx τ.2.2.2) x
    [((τ.1, 0), c * x0), ((τ.2.1, 0), c * x1), ((τ.2.2.1, 0), c * x2), ((τ.2.2.2, 0), c * x3)]

end DiffGeo
end LapyVerif

namespace LapyVerif.DiffGeo
/-- `compute_gradient` / `compute_divergence` dispatch on `type(geom).__name__`; anything else raises `ValueError` -/
def dispatchKind (typeName : String) : Except String String :=
  if typeName = "TriaMesh" then .ok "tri" else if typeName = "TetMesh" then .ok "tet" else .error "ValueError"
end LapyVerif.DiffGeo
