import LapyVerif.Model.Mesh
/-
  Model of `lapy/solver.py`: `_fem_tria`, `_fem_tria_aniso`, `fem_tria_mass`, `_fem_tetra`.
  Statement by statement; the vertex array is a function `vtx : Nat → V3 K`
  (the driver passes `fun i => arr[i]!`), the element array a list of index tuples.
-/
namespace LapyVerif
namespace Fem
open V3

variable {K : Type} [Zero K] [Add K] [Sub K] [Mul K] [Div K] [Neg K] [NatCast K] [HasSqrt K]
variable [LT K] [DecidableRel (α := K) (· < ·)] [BEq K]

/-- `vol[vol < eps] = vol_mean` for one entry -/
def clampLt (thr volMean vol : K) : K := if vol < thr then volMean else vol

/-! ### `_fem_tria` -/

/-- `cr = np.cross(v3mv2, v1mv3)` -/
def triCr (v1 v2 v3 : V3 K) : V3 K := cross (v3 - v2) (v1 - v3)
/-- `vol = 2 * np.sqrt(np.sum(cr * cr, axis=1))`  (4 × area) -/
def triVol (v1 v2 v3 : V3 K) : K := ((2 : Nat) : K) * sqrt (normSq (triCr v1 v2 v3))
def triA12 (v1 v2 v3 : V3 K) (vol : K) : K := dot (v3 - v2) (v1 - v3) / vol
def triA23 (v1 v2 v3 : V3 K) (vol : K) : K := dot (v1 - v3) (v2 - v1) / vol
def triA31 (v1 v2 v3 : V3 K) (vol : K) : K := dot (v2 - v1) (v3 - v2) / vol

/-- the nine triplets of one triangle, in the order of `np.column_stack((a12,a12,a23,a23,a31,a31,a11,a22,a33))` -/
def triBlock (τ : Tri) (o12 o23 o31 d1 d2 d3 : K) : Coo K :=
  let (t1, t2, t3) := τ
  [((t1, t2), o12), ((t2, t1), o12), ((t2, t3), o23), ((t3, t2), o23), ((t3, t1), o31), ((t1, t3), o31),
   ((t1, t1), d1), ((t2, t2), d2), ((t3, t3), d3)]

def triBlockA (τ : Tri) (a12 a23 a31 : K) : Coo K :=
  triBlock τ a12 a23 a31 (-a12 - a31) (-a12 - a23) (-a31 - a23)

/-- lumped block: three diagonal triplets -/
def triBlockL (τ : Tri) (b : K) : Coo K :=
  let (t1, t2, t3) := τ
  [((t1, t1), b), ((t2, t2), b), ((t3, t3), b)]

/-- clamped `vol` array of `_fem_tria` (threshold `sys.float_info.epsilon`, replacement `0.0001*mean`) -/
def triVols (vtx : Nat → V3 K) (ts : List Tri) : List K :=
  let raw := ts.map fun τ => triVol (vtx τ.1) (vtx τ.2.1) (vtx τ.2.2)
  let vm := (((1 : Nat) : K) / ((10000 : Nat) : K)) * meanL raw
  raw.map (clampLt epsK vm)

def stiffTria (vtx : Nat → V3 K) (ts : List Tri) : Coo K :=
  List.flatten <| (ts.zip (triVols vtx ts)).map fun (τ, vol) =>
    let v1 := vtx τ.1; let v2 := vtx τ.2.1; let v3 := vtx τ.2.2
    triBlockA τ (triA12 v1 v2 v3 vol) (triA23 v1 v2 v3 vol) (triA31 v1 v2 v3 vol)

def massTria (lump : Bool) (vtx : Nat → V3 K) (ts : List Tri) : Coo K :=
  List.flatten <| (ts.zip (triVols vtx ts)).map fun (τ, vol) =>
    if lump then triBlockL τ (vol / ((12 : Nat) : K))
    else
      let bii := vol / ((24 : Nat) : K); let bij := vol / ((48 : Nat) : K)
      triBlock τ bij bij bij bii bii bii

/-! ### `fem_tria_mass` (stand-alone) -/

/-- `vol = 0.5 * np.sqrt(np.sum(cr * cr, axis=1))` (the area), replaced by `0.001*mean` where `== 0` -/
def triVolsMass (vtx : Nat → V3 K) (ts : List Tri) : List K :=
  let raw := ts.map fun τ => (((1 : Nat) : K) / ((2 : Nat) : K)) * sqrt (normSq (triCr (vtx τ.1) (vtx τ.2.1) (vtx τ.2.2)))
  let vm := (((1 : Nat) : K) / ((1000 : Nat) : K)) * meanL raw
  raw.map fun vol => if vol == 0 then vm else vol

def massTriaStandalone (lump : Bool) (vtx : Nat → V3 K) (ts : List Tri) : Coo K :=
  List.flatten <| (ts.zip (triVolsMass vtx ts)).map fun (τ, vol) =>
    if lump then triBlockL τ (vol / ((3 : Nat) : K))
    else
      let bii := vol / ((6 : Nat) : K); let bij := vol / ((12 : Nat) : K)
      triBlock τ bij bij bij bii bii bii

/-! ### `_fem_tria_aniso` -/

/-- `np.sum(uva * aniso_mat * uvb, axis=1)` with `uve = (u1·e, u2·e)` -/
def anisoDot (u1 u2 : V3 K) (d0 d1 : K) (ea eb : V3 K) : K :=
  dot u1 ea * d0 * dot u1 eb + dot u2 ea * d1 * dot u2 eb

/-- per-triangle inputs: `(u1, u2, aniso_mat[:,0], aniso_mat[:,1])` -/
def stiffTriaAniso (vtx : Nat → V3 K) (ts : List Tri) (us : List (V3 K × V3 K × K × K)) : Coo K :=
  List.flatten <| ((ts.zip (triVols vtx ts)).zip us).map fun ((τ, vol), (u1, u2, d0, d1)) =>
    let v1 := vtx τ.1; let v2 := vtx τ.2.1; let v3 := vtx τ.2.2
    let a12 := anisoDot u1 u2 d0 d1 (v3 - v2) (v1 - v3) / vol
    let a23 := anisoDot u1 u2 d0 d1 (v1 - v3) (v2 - v1) / vol
    let a31 := anisoDot u1 u2 d0 d1 (v2 - v1) (v3 - v2) / vol
    triBlockA τ a12 a23 a31

/-! ### `_fem_tetra` -/

variable [HasAbs K]

/-- `vol = np.abs(np.sum(e4 * np.cross(e1, e3), axis=1))`  (6 × volume) -/
def tetVol (v1 v2 v3 v4 : V3 K) : K :=
  HasAbs.abs (dot (v4 - v1) (cross (v2 - v1) (v1 - v3)))

/-- clamped `vol` array of `_fem_tetra` (`vol == 0` ↦ `0.0001*mean`) -/
def tetVols (vtx : Nat → V3 K) (ts : List Tet) : List K :=
  let raw := ts.map fun τ => tetVol (vtx τ.1) (vtx τ.2.1) (vtx τ.2.2.1) (vtx τ.2.2.2)
  let vm := (((1 : Nat) : K) / ((10000 : Nat) : K)) * meanL raw
  raw.map fun vol => if vol == 0 then vm else vol

/-- the sixteen triplets of one tetrahedron in the code's column order -/
def tetBlock (τ : Tet) (o12 o23 o13 o14 o24 o34 d1 d2 d3 d4 : K) : Coo K :=
  let (t1, t2, t3, t4) := τ
  [((t1, t2), o12), ((t2, t1), o12), ((t2, t3), o23), ((t3, t2), o23), ((t3, t1), o13), ((t1, t3), o13),
   ((t1, t4), o14), ((t4, t1), o14), ((t2, t4), o24), ((t4, t2), o24), ((t3, t4), o34), ((t4, t3), o34),
   ((t1, t1), d1), ((t2, t2), d2), ((t3, t3), d3), ((t4, t4), d4)]

def tetBlockL (τ : Tet) (b : K) : Coo K :=
  let (t1, t2, t3, t4) := τ
  [((t1, t1), b), ((t2, t2), b), ((t3, t3), b), ((t4, t4), b)]

/-- the six off-diagonal values `a12 a13 a14 a23 a24 a34` (before `/ 6.0`) -/
def tetOff (v1 v2 v3 v4 : V3 K) (vol : K) : K × K × K × K × K × K :=
  let e1 := v2 - v1; let e2 := v3 - v2; let e3 := v1 - v3
  let e4 := v4 - v1; let e5 := v4 - v2; let e6 := v4 - v3
  let e11 := dot e1 e1; let e22 := dot e2 e2; let e33 := dot e3 e3
  let e44 := dot e4 e4; let e55 := dot e5 e5; let e66 := dot e6 e6
  let e12 := dot e1 e2; let e13 := dot e1 e3; let e14 := dot e1 e4; let e15 := dot e1 e5
  let e23 := dot e2 e3; let e25 := dot e2 e5; let e26 := dot e2 e6
  let e34 := dot e3 e4; let e36 := dot e3 e6
  ( (-e36 * e26 + e23 * e66) / vol,
    (-e15 * e25 + e12 * e55) / vol,
    (e23 * e26 - e36 * e22) / vol,
    (-e14 * e34 + e13 * e44) / vol,
    (e13 * e34 - e14 * e33) / vol,
    (-e14 * e13 + e11 * e34) / vol )

def stiffTet (vtx : Nat → V3 K) (ts : List Tet) : Coo K :=
  List.flatten <| (ts.zip (tetVols vtx ts)).map fun (τ, vol) =>
    let (a12, a13, a14, a23, a24, a34) := tetOff (vtx τ.1) (vtx τ.2.1) (vtx τ.2.2.1) (vtx τ.2.2.2) vol
    let s : K := ((6 : Nat) : K)
    tetBlock τ (a12 / s) (a23 / s) (a13 / s) (a14 / s) (a24 / s) (a34 / s)
      ((-a12 - a13 - a14) / s) ((-a12 - a23 - a24) / s) ((-a13 - a23 - a34) / s) ((-a14 - a24 - a34) / s)

def massTet (lump : Bool) (vtx : Nat → V3 K) (ts : List Tet) : Coo K :=
  List.flatten <| (ts.zip (tetVols vtx ts)).map fun (τ, vol) =>
    if lump then tetBlockL τ (vol / ((24 : Nat) : K))
    else
      let bii := vol / ((60 : Nat) : K); let bij := vol / ((120 : Nat) : K)
      tetBlock τ bij bij bij bij bij bij bii bii bii bii

/-! ### `Solver.__init__`, anisotropic branch -/

/-- `aniso_mat[:, 0] = exp(-aniso0 * |c2|)`, `aniso_mat[:, 1] = exp(-aniso1 * |c1|)` -/
def anisoWeights [HasExp K] (a0 a1 c1 c2 : K) : K × K :=
  (HasExp.exp (-a0 * HasAbs.abs c2), HasExp.exp (-a1 * HasAbs.abs c1))

/-- `Solver(tria, lump, aniso=(a0, a1))` given the per-triangle output `(u1, u2, c1, c2)` of `curvature_tria`:
    the anisotropic stiffness with the weights above and the (lumped or full) mass matrix — `lump` is passed on. -/
def solverAniso [HasExp K] (lump : Bool) (vtx : Nat → V3 K) (ts : List Tri) (a0 a1 : K) (cur : List (V3 K × V3 K × K × K)) :
    Coo K × Coo K :=
  (stiffTriaAniso vtx ts (cur.map fun (u1, u2, c1, c2) => let w := anisoWeights a0 a1 c1 c2; (u1, u2, w.1, w.2)),
   massTria lump vtx ts)

end Fem
end LapyVerif
