import LapyVerif.Model.Fem
import LapyVerif.Model.Measures
/-
  Model of `lapy/heat.py`: the backward-Euler system of `diffusion` and the spectral `kernel` / `diagonal`
  (after repair F3).
-/
namespace LapyVerif
namespace Heat

variable {K : Type} [Zero K] [Add K] [Sub K] [Mul K] [Div K] [Neg K] [NatCast K]

/-- `hmat = fem.mass + t * fem.stiffness` : a sparse sum is the concatenation of the triplet lists -/
def heatMat (t : K) (A B : Coo K) : Coo K :=
  B ++ A.map fun e => (e.1, t * e.2)

/-- `b0 = zeros(nv); b0[vids] = 1.0` -/
def seedVec (nv : Nat) (vids : List Nat) : List K :=
  (List.range nv).map fun i => if vids.contains i then ((1 : Nat) : K) else 0

/-- `t = m * avg_edge_length ** 2` -/
def time (m ell : K) : K := m * (ell * ell)

variable [HasExp K]

/-- `kernel(t, vfix, evecs, evals, n)[p][s] = Σ_{j<n} evecs[p][j] * (exp(-evals[j]*t[s]) * evecs[vfix][j])`
    (`evecs` as rows per vertex) -/
def kernel (ts : List K) (vfix : Nat) (evecs : List (List K)) (evals : List K) (n : Nat) : List (List K) :=
  let efix := (evecs.getD vfix []).take n
  evecs.map fun row =>
    ts.map fun t =>
      (((row.take n).zip ((evals.take n).zip efix)).map fun (phi, lam, phiq) =>
        phi * (HasExp.exp (-lam * t) * phiq)).sum

/-- `diagonal(t, x, evecs, evals, n)[i][s] = Σ_{j<n} evecs[x_i][j]² * exp(-evals[j]*t[s])` -/
def diagonal (ts : List K) (xs : List Nat) (evecs : List (List K)) (evals : List K) (n : Nat) : List (List K) :=
  xs.map fun x =>
    let row := (evecs.getD x []).take n
    ts.map fun t =>
      ((row.zip (evals.take n)).map fun (phi, lam) => (phi * phi) * HasExp.exp (-(lam * t))).sum

end Heat
end LapyVerif
