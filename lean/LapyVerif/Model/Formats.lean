import LapyVerif.Model.Mesh
/-
  Model of LaPy's text file formats (C14): VTK triangle / tetra writers and readers, OFF and Gmsh-2 ASCII readers,
  the ShapeDNA `.ev` format and the vertex-function format.

  Files are lists of lines.  Numbers are kept as their decimal text (`String` tokens): formatting / parsing of floating
  point numbers is Python's (`str(float32)` / C `strtod`), a parameter of the model with the contract `parse (fmt x) = x`
  that the harness supplies.  `np.fromfile(f, dtype, count, " ")` is modelled on the token stream as observed: it takes up
  to `count` numeric tokens (white space and line breaks are separators, trailing white space is consumed), fails on a
  non-numeric token, returns fewer items at end of file (the following reshape then fails), and leaves the rest of the
  current line for `readline`.  The token `"\n"` marks the end of a line in the stream.
-/
namespace LapyVerif
namespace Formats

/-! ### tokens -/

def isDigit (c : Char) : Bool := '0' ≤ c && c ≤ '9'

/-- unsigned decimal integer -/
def isNatTok (s : String) : Bool := !s.isEmpty && s.all isDigit

def stripSign (s : String) : String :=
  if s.startsWith "-" || s.startsWith "+" then (s.drop 1).toString else s

def isIntTok (s : String) : Bool := isNatTok (stripSign s)

/-- decimal floating-point text: sign, digits with optional fraction, optional exponent; also `nan` / `inf` -/
def isFloatTok (s : String) : Bool :=
  let body := stripSign s
  if body == "nan" || body == "inf" then true else
  let (mant, ex) := match body.splitOn "e" with
    | [m] => (m, none)
    | [m, e] => (m, some e)
    | _ => ("", none)
  let mantOk := match mant.splitOn "." with
    | [a] => isNatTok a
    | [a, b] => (isNatTok a && (b.isEmpty || isNatTok b)) || (a.isEmpty && isNatTok b)
    | _ => false
  mantOk && (match ex with | none => true | some e => isIntTok e)

/-- split at the characters satisfying `p` (empty pieces kept) -/
def splitBy (p : Char → Bool) (s : String) : List String :=
  let (cur, acc) := s.toList.foldl (fun (st : List Char × List String) c =>
    if p c then ([], String.ofList st.1.reverse :: st.2) else (c :: st.1, st.2)) ([], [])
  (String.ofList cur.reverse :: acc).reverse

def words (line : String) : List String :=
  (splitBy (fun c => c == ' ' || c == '\t' || c == '\r' || c == '\n') line).filter (· ≠ "")

def NL : String := "\n"

/-- the token stream of a list of lines -/
def tokenize (lines : List String) : List String := lines.flatMap fun l => words l ++ [NL]

inductive Fail where
  | format        -- the reader reports a format problem (OSError / returns no mesh)
  | data          -- `np.fromfile` / reshape / index errors: malformed or truncated data
deriving Repr, DecidableEq

def dropNL : List String → List String
  | [] => []
  | t :: r => if t == NL then dropNL r else t :: r

/-- `np.fromfile(f, dtype, count, " ")` + reshape: exactly `count` tokens satisfying `ok`, else failure -/
def takeNums (ok : String → Bool) : Nat → List String → List String → Except Fail (List String × List String)
  | 0, acc, toks => .ok (acc.reverse, dropNL toks)
  | _ + 1, _, [] => .error .data
  | n + 1, acc, t :: r =>
    if t == NL then takeNums ok (n + 1) acc r
    else if ok t then takeNums ok n (t :: acc) r else .error .data

/-- `f.readline().split()` on the stream -/
def readLine : List String → List String × List String
  | [] => ([], [])
  | t :: r => if t == NL then ([], r) else let (l, rest) := readLine r; (t :: l, rest)

def chunk (k : Nat) : Nat → List String → List (List String)
  | 0, _ => []
  | n + 1, l => l.take k :: chunk k n (l.drop k)

structure RawMesh where
  coords : List String            -- 3 coordinate tokens per vertex, row-major
  elems : List (List Nat)
deriving Repr

/-! ### VTK -/

/-- `write_vtk` (triangles: `k = 3`, tetrahedra: `k = 4`); `coords` are the `str()` of the coordinates -/
def writeVtk (k : Nat) (coords : List (List String)) (elems : List (List Nat)) : List String :=
  ["# vtk DataFile Version 1.0", "vtk output", "ASCII", "DATASET POLYDATA", s!"POINTS {coords.length} float"] ++
  coords.map (fun r => " ".intercalate r) ++
  [s!"POLYGONS {elems.length} {(k + 1) * elems.length}"] ++
  elems.map fun e => " ".intercalate ((toString k) :: e.map toString)

/-- skip `#` comment lines, then find a line starting with `ASCII` within the next 5 lines -/
def skipToAscii (lines : List String) : Option (List String) :=
  let l1 := lines.dropWhile fun l => l.startsWith "#"
  let rec go : Nat → List String → Option (List String)
    | _, [] => none
    | n, l :: r => if l.startsWith "ASCII" then some r else if n == 0 then none else go (n - 1) r
  go 5 l1

/-- `read_vtk` for triangle (`k = 3`) or tetra (`k = 4`) meshes, POLYGONS / CELLS branch; the triangle reader also
    unrolls TRIANGLE_STRIPS -/
def readVtk (k : Nat) (lines : List String) : Except Fail RawMesh :=
  match skipToAscii lines with
  | none => .error .format
  | some [] => .error .data
  | some (ds :: rest) =>
    if !(ds.startsWith "DATASET POLYDATA" || ds.startsWith "DATASET UNSTRUCTURED_GRID") then .error .format else
    match rest with
    | [] => .error .data
    | pl :: rest =>
      match words pl with
      | [kw, n, ty] =>
        if kw != "POINTS" || (ty != "float" && ty != "double") then .error .format else
        if !isNatTok n then .error .data else
        let pnum := n.toNat!
        match takeNums isFloatTok (3 * pnum) [] (tokenize rest) with
        | .error e => .error e
        | .ok (coords, toks) =>
          let (hd, toks) := readLine toks
          match hd with
          | kw :: a :: b :: _ =>
            if kw == "POLYGONS" || kw == "CELLS" then
              if !(isNatTok a && isNatTok b) then .error .data else
              let tnum := a.toNat!; let ttnum := b.toNat!
              if tnum == 0 then .error .data else
              if ttnum != (k + 1) * tnum then .error .format else
              match takeNums isIntTok ttnum [] toks with
              | .error e => .error e
              | .ok (nums, _) =>
                let rows := chunk (k + 1) tnum nums
                if (rows.getLast?.bind (·.head?)) != some (toString k) then .error .format else
                if nums.any (fun s => s.startsWith "-") then .error .data else
                .ok { coords := coords, elems := rows.map fun r => (r.drop 1).map (·.toNat!) }
            else if kw == "TRIANGLE_STRIPS" && k == 3 then
              if !isNatTok a then .error .data else
              let rec strips : Nat → List String → List (List Nat) → Except Fail (List (List Nat))
                | 0, _, acc => .ok acc
                | m + 1, toks, acc =>
                  let (l, toks') := readLine toks
                  match l with
                  | [] => .error .format
                  | c :: idx =>
                    if !isNatTok c || idx.length != c.toNat! || !idx.all isNatTok then .error .format else
                    let ix := idx.map (·.toNat!)
                    let tri := (List.range (ix.length - 2)).map fun j =>
                      -- larr index ii = j + 2 (1-based positions after the count): even ii keeps the order
                      if j % 2 == 0 then [ix.getD j 0, ix.getD (j + 1) 0, ix.getD (j + 2) 0]
                      else [ix.getD (j + 1) 0, ix.getD j 0, ix.getD (j + 2) 0]
                    strips m toks' (acc ++ tri)
              match strips a.toNat! toks [] with
              | .error e => .error e
              | .ok tr => .ok { coords := coords, elems := tr }
            else .error .format
          | _ => .error .data
      | _ => .error .data

/-! ### OFF (triangles) -/

def readOff (lines : List String) : Except Fail RawMesh :=
  let l1 := lines.dropWhile fun l => l.startsWith "#"
  match l1 with
  | [] => .error .data
  | h :: rest =>
    if !h.startsWith "OFF" then .error .format else
    match rest with
    | [] => .error .data
    | cl :: rest =>
      match words cl with
      | p :: t :: _ =>
        if !(isNatTok p && isNatTok t) then .error .data else
        let pnum := p.toNat!; let tnum := t.toNat!
        match takeNums isFloatTok (3 * pnum) [] (tokenize rest) with
        | .error e => .error e
        | .ok (coords, toks) =>
          match takeNums isIntTok (4 * tnum) [] toks with
          | .error e => .error e
          | .ok (nums, _) =>
            let rows := chunk 4 tnum nums
            if tnum == 0 then .error .data else
            if (rows.map fun r => (r.headD "0").toNat!).foldl max 0 != 3 then .error .format else
            .ok { coords := coords, elems := rows.map fun r => (r.drop 1).map (·.toNat!) }
      | _ => .error .data

/-! ### Gmsh 2 ASCII (tetrahedra; node numbers are 1-based in the file) -/

def readGmsh (lines : List String) : Except Fail RawMesh :=
  match lines with
  | l0 :: l1 :: l2 :: l3 :: l4 :: rest =>
    if !l0.startsWith "$MeshFormat" then .error .format else
    match words l1 with
    | _ :: ft :: _ :: _ =>
      if ft != "0" then .error .format else
      if !l2.startsWith "$EndMeshFormat" || !l3.startsWith "$Nodes" then .error .format else
      if !isNatTok l4.trimAscii.toString then .error .data else
      let pnum := l4.trimAscii.toString.toNat!
      match takeNums isFloatTok (4 * pnum) [] (tokenize rest) with
      | .error e => .error e
      | .ok (nums, toks) =>
        let coords := (chunk 4 pnum nums).flatMap (·.drop 1)
        let (e1, toks) := readLine toks
        let (e2, toks) := readLine toks
        let (e3, toks) := readLine toks
        if !(e1.headD "").startsWith "$EndNodes" || !(e2.headD "").startsWith "$Elements" then .error .format else
        match e3 with
        | [tn] =>
          if !isNatTok tn then .error .data else
          let tnum := tn.toNat!
          let (first, _) := readLine toks
          match first with
          | _ :: ty :: _ =>
            if ty != "4" then .error .format else
            let w := first.length
            match takeNums isIntTok (tnum * w) [] toks with
            | .error e => .error e
            | .ok (nums, toks) =>
              let rows := chunk w tnum nums
              let (e4, _) := readLine toks
              if !(e4.headD "").startsWith "$EndElements" then .error .format else
              if rows.any (fun r => (r.drop (w - 4)).any fun s => s.startsWith "-" || s == "0") then .error .data else
              .ok { coords := coords, elems := rows.map fun r => (r.drop (w - 4)).map fun s => s.toNat! - 1 }
          | _ => .error .data
        | _ => .error .data
    | _ => .error .data
  | _ => .error .data

/-! ### `.ev` files -/

structure EvData where
  strs : List (String × String)        -- Creator, File, User
  ints : List (String × String)        -- Refine, Degree, Dimension, Elements, DoF, NumEW, EulerChar, TimePre, TimeCalcAB, TimeCalcEW
  floats : List (String × String)      -- Area, Volume, BLength
  evals : List String
  evecs : Option (Nat × Nat × List (List String))   -- (rows n, cols k, columns)
deriving Repr

def lookupS (l : List (String × String)) (k : String) : Option String := (l.find? (·.1 == k)).map (·.2)

/-- `write_ev` -/
def writeEv (d : EvData) : List String :=
  let opt := fun (l : List (String × String)) (key label : String) => match lookupS l key with
    | some v => [s!" {label}: {v}"] | none => []
  let optT := fun (key label : String) => match lookupS d.ints key with
    | some v => [s!" {label} : {v}"] | none => []
  let total := match lookupS d.ints "TimePre", lookupS d.ints "TimeCalcAB", lookupS d.ints "TimeCalcEW" with
    | some a, some b, some c => [s!" Time(total ) : {a.toInt! + b.toInt! + c.toInt!}"]
    | _, _, _ => []
  opt d.strs "Creator" "Creator" ++ opt d.strs "File" "File" ++ opt d.strs "User" "User" ++
  opt d.ints "Refine" "Refine" ++ opt d.ints "Degree" "Degree" ++ opt d.ints "Dimension" "Dimension" ++
  opt d.ints "Elements" "Elements" ++ opt d.ints "DoF" "DoF" ++ opt d.ints "NumEW" "NumEW" ++ [""] ++
  opt d.floats "Area" "Area" ++ opt d.floats "Volume" "Volume" ++ opt d.floats "BLength" "BLength" ++
  opt d.ints "EulerChar" "EulerChar" ++ [""] ++
  optT "TimePre" "Time(Pre)" ++ optT "TimeCalcAB" "Time(calcAB)" ++ optT "TimeCalcEW" "Time(calcEW)" ++ total ++ [""] ++
  ["Eigenvalues:", "{ " ++ " ; ".intercalate d.evals ++ " }", ""] ++
  (match d.evecs with
   | none => []
   | some (n, k, cols) =>
     let body := cols.map fun c => "(" ++ ",".intercalate c ++ ")"
     let lines := match body.reverse with
       | [] => []
       | last :: revInit => (revInit.reverse.map (· ++ " ;")) ++ [last ++ " }"]
     ["Eigenvectors:", s!"sizes: {n} {k}", ""] ++
       (match lines with
        | [] => ["{ "]
        | l0 :: ls => ("{ " ++ l0) :: ls))

def stripChars (s : String) (cs : List Char) : String := String.ofList (s.toList.filter fun c => !cs.contains c)

def afterColon (l : String) : String :=
  (String.intercalate ":" ((l.splitOn ":").drop 1)).trimAscii.toString

/-- collect a `{ … }` block starting at the first line containing `{`; returns the concatenated stripped text -/
def braceBlock : List String → Option (String × List String)
  | [] => none
  | l :: r =>
    if !l.contains '{' then braceBlock r
    else
      let rec collect (acc : String) : List String → Option (String × List String)
        | [] => none
        | x :: xs => if x.contains '}' then some (acc ++ x.trimAscii.toString, xs) else collect (acc ++ x.trimAscii.toString) xs
      collect "" (l :: r)

def intKeys : List (String × String) :=
  [("Refine:", "Refine"), ("Degree:", "Degree"), ("Dimension:", "Dimension"), ("Elements:", "Elements"), ("DoF:", "DoF"),
   ("NumEW:", "NumEW"), ("EulerChar:", "EulerChar"), ("Time(calcAB)", "TimeCalcAB"), ("Time(calcEW)", "TimeCalcEW")]

/-- `read_ev` (after repair F8); `none` = an exception is raised -/
def readEv : Nat → List String → EvData → Option EvData
  | 0, _, d => some d
  | _, [], d => some d
  | fuel + 1, l :: rest, d =>
    let t := l.trimAsciiStart.toString
    match [("Creator:", "Creator"), ("File:", "File"), ("User:", "User")].find? (fun p => t.startsWith p.1) with
    | some p => readEv fuel rest { d with strs := d.strs ++ [(p.2, afterColon l)] }
    | none =>
    match intKeys.find? (fun p => t.startsWith p.1) with
    | some p => if isIntTok (afterColon l) then readEv fuel rest { d with ints := d.ints ++ [(p.2, afterColon l)] } else none
    | none =>
    if t.toLower.startsWith "time(pre)" then
      (if isIntTok (afterColon l) then readEv fuel rest { d with ints := d.ints ++ [("TimePre", afterColon l)] } else none)
    else
    match [("Area:", "Area"), ("Volume:", "Volume"), ("BLength:", "BLength")].find? (fun p => t.startsWith p.1) with
    | some p => if isFloatTok (afterColon l) then readEv fuel rest { d with floats := d.floats ++ [(p.2, afterColon l)] } else none
    | none =>
    if t.startsWith "Eigenvalues" then
      match braceBlock rest with
      | none => none
      | some (txt, rest') =>
        let vals := ((stripChars txt ['{', '}']).splitOn ";").map (·.trimAscii.toString)
        if vals.all isFloatTok then readEv fuel rest' { d with evals := vals } else none
    else if t.startsWith "Eigenvectors" then
      match rest.dropWhile (fun x => !x.trimAscii.toString.startsWith "sizes") with
      | [] => none
      | sl :: rest1 =>
        match (words sl).drop 1 with
        | [a, b] =>
          if !(isNatTok a && isNatTok b) then none else
          match braceBlock rest1 with
          | none => none
          | some (txt, rest') =>
            let clean := stripChars txt ['{', '}', '(', ')']
            let toks := words (String.ofList (clean.toList.map fun c => if c == ';' || c == ',' then ' ' else c))
            if !toks.all isFloatTok then none else
            let n := a.toNat!; let k := b.toNat!
            if toks.length == n * k then
              readEv fuel rest' { d with evecs := some (n, k, chunk n k toks) }
            else readEv fuel rest' d
        | _ => none
    else readEv fuel rest d

/-! ### vertex functions -/

def writeVfunc (vals : List String) : List String := ["Solution:", "(" ++ ",".intercalate vals ++ ")"]

/-- `read_vfunc`; `none` = exception (`"Solution:"` missing or a non-numeric entry) -/
def readVfunc (lines : List String) : Option (List String) :=
  let txt := lines.map (·.trimAscii.toString)
  if !txt.contains "Solution:" then none else
  let txt := (txt.erase "Solution:").map fun x => stripChars x ['{', '(', ')', '}']
  let vals := match txt with
    | [one] => splitBy (fun c => c == ',' || c == ';') one
    | _ => txt
  let vals := vals.map (·.trimAscii.toString)
  if vals.all isFloatTok then some vals else none

end Formats
end LapyVerif
