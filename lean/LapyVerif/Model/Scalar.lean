/-
  Scalars of the executable model.  No Mathlib import anywhere under `Model/`.

  Every numeric definition of the model is polymorphic in a scalar type `K` with the
  *unbundled* core classes `Zero Add Sub Mul Div Neg NatCast` plus the small classes
  below.  `K := Float` is the executable instance used by the driver; `K := ℝ`
  (instances in `Lemmas/RealInst.lean`) is the instance the theorems are about;
  `K := Rat` gives exact witnesses for the square-root-free parts.
-/
namespace LapyVerif

class HasSqrt (K : Type) where
  sqrt : K → K
class HasAbs (K : Type) where
  abs : K → K
class HasExp (K : Type) where
  exp : K → K
class HasLog (K : Type) where
  log : K → K

export HasSqrt (sqrt)

instance : NatCast Float := ⟨Float.ofNat⟩
instance : HasSqrt Float := ⟨Float.sqrt⟩
instance : HasAbs Float := ⟨Float.abs⟩
instance : HasExp Float := ⟨Float.exp⟩
instance : HasLog Float := ⟨Float.log⟩

instance : HasAbs Rat := ⟨fun q => if q < 0 then -q else q⟩

/-- `sys.float_info.epsilon = 2^-52`, the absolute degeneracy threshold of the kernels. -/
def epsK {K : Type} [Div K] [NatCast K] : K := ((1 : Nat) : K) / ((4503599627370496 : Nat) : K)

end LapyVerif
