import LapyVerif.Model.Measures
/-
  Model of `TriaMesh.orient_` (after repair F1: the flood is re-seeded in components it cannot reach).

  Mechanism mirrored: half-edge pairing through `np.unique(…, return_counts)` (rejecting edges with more than two
  triangles), the signed triangle-neighbour matrix `tmat` (duplicates summed, plus identity), the flood
  `v ← sign(tmat·v)` on a sparse vector whose exact zeros are dropped (SciPy's sparse product prunes them), with the
  stored-entry count as loop condition, the column swap of the triangles marked −1, and the global flip when the
  enclosed volume is negative.
-/
namespace LapyVerif
namespace Orient

/-- the three half-edges of triangle `k`: `(min, max, k, i<j)` -/
def halfEdgeRows (ts : List Tri) : List (Nat × Nat × Nat × Bool) :=
  (ts.zipIdx).flatMap fun ((t0, t1, t2), k) =>
    [(min t0 t1, max t0 t1, k, decide (t0 < t1)), (min t1 t2, max t1 t2, k, decide (t1 < t2)),
     (min t2 t0, max t2 t0, k, decide (t2 < t0))]

/-- counts `c` of `np.unique(ij, axis=0, return_counts=True)` -/
def edgeCounts (rows : List (Nat × Nat × Nat × Bool)) : List ((Nat × Nat) × Nat) :=
  let keys := (rows.map fun r => (r.1, r.2.1)).eraseDups
  keys.map fun k => (k, (rows.filter fun r => r.1 == k.1 && r.2.1 == k.2).length)

/-- signed neighbour pairs `(A, B, ±1)`: for every undirected edge with exactly two half-edges, `+1` iff they run in
    opposite directions -/
def neighbourPairs (rows : List (Nat × Nat × Nat × Bool)) (counts : List ((Nat × Nat) × Nat)) : List (Nat × Nat × Int) :=
  (counts.filter fun kc => kc.2 == 2).filterMap fun kc =>
    match rows.filter fun r => r.1 == kc.1.1 && r.2.1 == kc.1.2 with
    | [a, b] => some (a.2.2.1, b.2.2.1, if a.2.2.2 != b.2.2.2 then 1 else -1)
    | _ => none

/-- `tmat[k, j]` with duplicates summed, plus the identity -/
def tmatEntry (pairs : List (Nat × Nat × Int)) (k j : Nat) : Int :=
  ((pairs.filter fun p => (p.1 == k && p.2.1 == j) || (p.1 == j && p.2.1 == k)).map (·.2.2)).sum + (if k == j then 1 else 0)

/-- neighbours of `j` in `tmat` (stored column pattern, without the diagonal) -/
def nbrs (pairs : List (Nat × Nat × Int)) (j : Nat) : List Nat :=
  (pairs.filterMap fun p => if p.1 == j then some p.2.1 else if p.2.1 == j then some p.1 else none).eraseDups

abbrev SVec := List (Nat × Int)      -- sparse vector: index ↦ stored value (exact zeros are never stored)

def SVec.get (v : SVec) (k : Nat) : Int := ((v.filter fun e => e.1 == k).map (·.2)).sum

/-- `v = tmat * v; v.data = np.sign(v.data)` with pruning of exact zeros -/
def step (tdim : Nat) (pairs : List (Nat × Nat × Int)) (v : SVec) : SVec :=
  let support := ((v.map (·.1)) ++ (v.flatMap fun e => nbrs pairs e.1)).eraseDups
  (List.range tdim).filterMap fun k =>
    if support.contains k then
      let s := (v.map fun e => tmatEntry pairs k e.1 * e.2).sum
      if s == 0 then none else some (k, Int.sign s)
    else none

/-- column `seed` of `tmat` -/
def column (tdim : Nat) (pairs : List (Nat × Nat × Int)) (seed : Nat) : SVec :=
  (List.range tdim).filterMap fun k =>
    let e := tmatEntry pairs k seed
    if (k == seed || (nbrs pairs seed).contains k) && e != 0 then some (k, e) else none

def addVec (tdim : Nat) (a b : SVec) : SVec :=
  (List.range tdim).filterMap fun k =>
    let s := SVec.get a k + SVec.get b k
    if ((a.map (·.1)).contains k || (b.map (·.1)).contains k) && s != 0 then some (k, s) else none

/-- the flood loop `while len(v.data) < tdim` with re-seeding when stalled; `none` = fuel exhausted (non-termination) -/
def flood (tdim : Nat) (pairs : List (Nat × Nat × Int)) : Nat → SVec → Nat → Option SVec
  | 0, _, _ => none
  | fuel + 1, v, nlast =>
    if v.length < tdim then
      let v1 := if v.length == nlast then
          match (List.range tdim).find? (fun k => !(v.map (·.1)).contains k) with
          | some seed => addVec tdim v (column tdim pairs seed)
          | none => v
        else v
      flood tdim pairs fuel (step tdim pairs v1) v1.length
    else some v

inductive Result (K : Type) where
  | ok (ts : List Tri) (flipped : Nat)
  | valueError
  | diverges

variable {K : Type} [Zero K] [Add K] [Sub K] [Mul K] [Div K] [Neg K] [NatCast K] [HasSqrt K]
variable [LT K] [DecidableRel (α := K) (· < ·)]

def swap01 (τ : Tri) : Tri := (τ.2.1, τ.1, τ.2.2)
def swap12 (τ : Tri) : Tri := (τ.1, τ.2.2, τ.2.1)

/-- first phase: make the triangles consistent (or fail) -/
def consistent (ts : List Tri) : Option (Option (List Tri × Nat)) :=   -- none = diverges, some none = ValueError
  if Topo.isOriented ts then some (some (ts, 0))
  else
    let rows := halfEdgeRows ts
    let counts := edgeCounts rows
    let cs := counts.map (·.2)
    if Topo.maxL cs != 2 || cs.any (· < 1) then some none
    else
      let pairs := neighbourPairs rows counts
      let tdim := (pairs.foldl (fun m p => max m (max p.1 p.2.1)) 0) + 1
      match flood tdim pairs (2 * tdim + 2) (column tdim pairs 0) 0 with
      | none => none
      | some v =>
        let neg := (v.filter fun e => e.2 == -1).map (·.1)
        some (some ((ts.zipIdx).map (fun (τ, k) => if neg.contains k then swap01 τ else τ), neg.length))

def orient (vtx : Nat → V3 K) (ts : List Tri) : Result K :=
  match consistent ts with
  | none => .diverges
  | some none => .valueError
  | some (some (ts1, flipped)) =>
    match Measures.volume vtx ts1 with
    | .error _ => .valueError
    | .ok vol =>
      if vol < 0 then .ok (ts1.map swap12) (ts1.length - flipped)
      else .ok ts1 flipped

end Orient
end LapyVerif
