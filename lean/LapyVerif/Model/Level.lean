import LapyVerif.Model.Topo
/-
  Model of `TriaMesh.level_length` and `TriaMesh.level_path` (incl. `__reduce_edges_to_path`, `__resample_polygon`).
-/
namespace LapyVerif
namespace Level
open V3

variable {K : Type} [Zero K] [Add K] [Sub K] [Mul K] [Div K] [Neg K] [NatCast K] [HasSqrt K]
variable [LT K] [DecidableRel (α := K) (· < ·)]

def one : K := ((1 : Nat) : K)

/-- for one triangle: the isolated corner (index 0/1/2 inside the triple) if the level separates the corners 1:2 -/
def isolated (f0 f1 f2 level : K) : Option Nat :=
  let b0 := decide (level < f0); let b1 := decide (level < f1); let b2 := decide (level < f2)
  let cnt := b0.toNat + b1.toNat + b2.toNat
  if cnt == 1 then (if b0 then some 0 else if b1 then some 1 else some 2)          -- argmax of the flags
  else if cnt == 2 then (if !b0 then some 0 else if !b1 then some 1 else some 2)    -- flags inverted first
  else none

def nth3 (τ : Tri) (k : Nat) : Nat := if k % 3 == 0 then τ.1 else if k % 3 == 1 then τ.2.1 else τ.2.2

/-- crossed triangles with `(tria index, gidx0, gidx1, gidx2)` -/
def crossed (ts : List Tri) (f : Nat → K) (level : K) : List (Nat × Nat × Nat × Nat) :=
  (ts.zipIdx).filterMap fun (τ, k) =>
    (isolated (f τ.1) (f τ.2.1) (f τ.2.2) level).map fun s => (k, nth3 τ s, nth3 τ (s + 1), nth3 τ (s + 2))

/-- point on the edge `(a,b)` at the level: `(1-x) v_a + x v_b`, `x = (level - f_a)/(f_b - f_a)` -/
def crossPoint (vtx : Nat → V3 K) (f : Nat → K) (level : K) (a b : Nat) : V3 K :=
  let x := (level - f a) / (f b - f a)
  smul (one - x) (vtx a) + smul x (vtx b)

def dist (p q : V3 K) : K := sqrt (normSq (p - q))

/-- `level_length` for one level -/
def levelLength (vtx : Nat → V3 K) (ts : List Tri) (f : Nat → K) (level : K) : K :=
  ((crossed ts f level).map fun (_, g0, g1, g2) =>
    dist (crossPoint vtx f level g0 g1) (crossPoint vtx f level g0 g2)).sum

/-! ### `level_path` -/

def sortPair (a b : Nat) : Nat × Nat := (min a b, max a b)

structure PathData (K : Type) where
  edges : List (Nat × Nat)            -- `gg_unique`: sorted unique crossed mesh edges (one point each)
  pts : List (V3 K)                   -- `p`
  segs : List (Nat × Nat × Nat)       -- per crossed triangle: (tria index, point index on edge 1, on edge 2)
  length : K                          -- `llength`

def pathData (vtx : Nat → V3 K) (ts : List Tri) (f : Nat → K) (level : K) : PathData K :=
  let cr := crossed ts f level
  let gg1 := cr.map fun (_, g0, g1, _) => sortPair g0 g1
  let gg2 := cr.map fun (_, g0, _, g2) => sortPair g0 g2
  let uniq := ((gg1 ++ gg2).eraseDups).mergeSort (fun a b => Topo.lexLe a b)
  let pts := uniq.map fun e => crossPoint vtx f level e.1 e.2
  let idx := fun e => (uniq.idxOf? e).getD 0
  let segs := (cr.zip (gg1.zip gg2)).map fun ((k, _), (e1, e2)) => (k, idx e1, idx e2)
  let len := (segs.map fun (_, a, b) => dist (pts.getD a ⟨0, 0, 0⟩) (pts.getD b ⟨0, 0, 0⟩)).sum
  { edges := uniq, pts := pts, segs := segs, length := len }

/-- breadth-first distances from `start` in the undirected graph with edge list `es` on `n` nodes (`none` = unreachable) -/
def bfs (n : Nat) (es : List (Nat × Nat)) (start : Nat) : List (Option Nat) :=
  let nbr := fun i => es.filterMap fun e => if e.1 == i then some e.2 else if e.2 == i then some e.1 else none
  let rec go (fuel : Nat) (frontier : List Nat) (d : Nat) (dist : List (Option Nat)) : List (Option Nat) :=
    match fuel with
    | 0 => dist
    | fuel + 1 =>
      if frontier.isEmpty then dist
      else
        let next := ((frontier.flatMap nbr).eraseDups).filter fun j => (dist.getD j none).isNone
        let dist' := dist.zipIdx.map fun (x, j) => if next.contains j then some (d + 1) else x
        go fuel next (d + 1) dist'
  go n [start] 0 ((List.range n).map fun j => if j == start then some 0 else none)

inductive PathResult (K : Type) where
  | ok (pts : List (V3 K)) (length : K) (tria : List Nat)
  | valueError

/-- `__reduce_edges_to_path` + removal of near-duplicate points; the triangle index of each kept segment -/
def levelPath (vtx : Nat → V3 K) (ts : List Tri) (f : Nat → K) (level : K) : PathResult K :=
  let pd := pathData vtx ts f level
  let es := pd.segs.map fun (_, a, b) => (a, b)
  if es.isEmpty then .valueError else
  let n := (es.foldl (fun m e => max m (max e.1 e.2)) 0) + 1
  let deg := fun i => (es.filter fun e => e.1 == i).length + (es.filter fun e => e.2 == i).length
  let ends := (List.range n).filter fun i => deg i == 1
  if ends.length != 2 then .valueError else
  let start := ends.headD 0
  let d := bfs n es start
  if d.any (·.isNone) then .valueError else
  -- argsort of the distances (distinct on a simple path; ties broken by index)
  let order := ((List.range n).map fun i => ((d.getD i none).getD 0, i)).mergeSort (fun a b => Topo.lexLe a b) |>.map (·.2)
  let path3d := order.map fun i => pd.pts.getD i ⟨0, 0, 0⟩
  -- triangle of each consecutive pair (the segment joining them), `-1 ↦ none` if they are not joined
  let segOf := fun (a b : Nat) => (pd.segs.find? fun s => (s.2.1 == a && s.2.2 == b) || (s.2.1 == b && s.2.2 == a)).map (·.1)
  let pairs := order.zip (order.drop 1)
  let trias := pairs.map fun (a, b) => (segOf a b).getD 0
  -- drop a point whose squared distance to its successor is ≤ 1e-6 (the last point is always kept)
  let eps : K := one / ((1000000 : Nat) : K)
  let dd := (path3d.zip (path3d.drop 1)).map fun (p, q) => normSq (p - q)
  let keepFlags := dd.map fun x => decide (eps < x)
  let kept := ((path3d.zip (keepFlags ++ [true])).filter (·.2)).map (·.1)
  let keptTri := ((trias.zip keepFlags).filter (·.2)).map (·.1)
  .ok kept pd.length keptTri

/-! ### resampling -/

/-- `np.interp(x, xp, fp)` for increasing `xp`: left value up to `xp[0]`, linear on `[xp[j], xp[j+1])`, right value from `xp[-1]` -/
def interp (xp fp : List K) (x : K) : K :=
  let rec go : List K → List K → K
    | x0 :: x1 :: xs, f0 :: f1 :: fs =>
      if x < x1 then ((f1 - f0) / (x1 - x0)) * (x - x0) + f0
      else if xs.isEmpty then f1 else go (x1 :: xs) (f1 :: fs)
    | _, f0 :: _ => f0
    | _, [] => 0
  match xp, fp with
  | x0 :: _, f0 :: _ => if ¬ (x0 < x) then f0 else go xp fp
  | _, _ => 0

/-- one pass of `__resample_polygon` -/
def resample1 (path : List (V3 K)) (n : Nat) : List (V3 K) :=
  let segl := (path.zip (path.drop 1)).map fun (p, q) => dist q p
  let d := segl.foldl (fun acc x => acc ++ [acc.getLastD 0 + x]) [(0 : K)]
  let dmax := d.getLastD 0
  let samples := (List.range n).map fun i =>
    if i + 1 == n then dmax else (((i : Nat) : K)) * (dmax / (((n - 1 : Nat)) : K))
  samples.map fun s => ⟨interp d (path.map (·.x)) s, interp d (path.map (·.y)) s, interp d (path.map (·.z)) s⟩

/-- `__iterative_resample_polygon` with `n_iter = 3` -/
def resample (path : List (V3 K)) (n : Nat) : List (V3 K) :=
  resample1 (resample1 (resample1 path n) n) n

end Level
end LapyVerif
