import LapyVerif.Model.Orient
import LapyVerif.Model.Refine
import LapyVerif.Model.TetTopo
import LapyVerif.Model.Transfer
/-
  Model of the mesh objects as state machines (C20).

  A `TriaMesh` object is `(v, t, adj_sym, adj_dir)`: the adjacency matrices are *cached* at construction and read by
  the queries.  Every in-place operation computes new `(v, t)`; whether the caches are rebuilt (`self.__init__`) is not
  decided here: it is a parameter `reb : Op → Bool` that is instantiated with the table extracted from the source
  (`Generated/Effects.lean`).  A `TetMesh` object is `(v, t, adj_sym)`.
-/
namespace LapyVerif
namespace History
open V3

variable {K : Type} [Zero K] [Add K] [Sub K] [Mul K] [Div K] [Neg K] [NatCast K] [HasSqrt K]
variable [LT K] [DecidableRel (α := K) (· < ·)]

structure TriState (K : Type) where
  v : List (V3 K)
  t : List Tri
  symK : List (Nat × Nat)     -- keys handed to the constructor of `adj_sym` (the cached matrix)
  dirK : List (Nat × Nat)     -- keys of the cached `adj_dir`

/-- the constructor: caches are computed from `t` -/
def TriState.fresh (v : List (V3 K)) (t : List Tri) : TriState K :=
  { v := v, t := t, symK := Topo.symKeys t, dirK := Topo.dirKeys t }

inductive TriOp (K : Type) where
  | orient
  | refine (it : Nat)
  | rmFree
  | normalize
  | smooth (n : Nat)
  | offset (d : K)

/-- name of the method in `lapy/tria_mesh.py` (key of the generated effect table) -/
def TriOp.name : TriOp K → String
  | .orient => "orient_"
  | .refine _ => "refine_"
  | .rmFree => "rm_free_vertices_"
  | .normalize => "normalize_"
  | .smooth _ => "smooth_"
  | .offset _ => "normal_offset_"

def vtxOfList (v : List (V3 K)) : Nat → V3 K := fun i => v.getD i ⟨0, 0, 0⟩

/-- dimension of a sparse matrix built from `keys` without an explicit shape: largest index + 1 (0 if empty) -/
def adjDim (keys : List (Nat × Nat)) : Nat :=
  keys.foldl (fun m k => max m (max k.1 k.2 + 1)) 0

/-- new `(v, t)` computed by an operation; `none` = the operation raised (state unchanged) -/
def triEffect (s : TriState K) : TriOp K → Option (List (V3 K) × List Tri)
  | .orient =>
    match Orient.orient (vtxOfList s.v) s.t with
    | .ok ts _ => some (s.v, ts)
    | _ => none
  | .refine it => some (Refine.refine it s.v s.t)
  | .rmFree =>
    let (r, tn) := RmFree.tri s.v.length s.t
    some (if r.changed then r.keep.map (fun i => s.v.getD i ⟨0, 0, 0⟩) else s.v, tn)
  | .normalize => some (Measures.normalize s.v (vtxOfList s.v) s.t, s.t)
  | .smooth n =>
    -- `adj_sym` has no explicit shape: its dimension is the largest cached index + 1; the product with the
    -- (len(v) x 3) coordinate array raises ValueError when trailing vertices are unused (or the cache is stale)
    if adjDim s.symK != s.v.length then none else
    let f := s.v.map fun p => [p.x, p.y, p.z]
    let g := Transfer.smooth s.symK (Measures.vertexAreas (vtxOfList s.v) s.t) f n
    some (g.map fun r => ⟨r.getD 0 0, r.getD 1 0, r.getD 2 0⟩, s.t)
  | .offset d =>
    match Measures.normalOffset d s.v (vtxOfList s.v) s.t with
    | some vn => some (vn, s.t)
    | none => none

/-- one step: the caches are rebuilt iff the source re-runs the constructor -/
def triStep (reb : String → Bool) (s : TriState K) (op : TriOp K) : TriState K :=
  match triEffect s op with
  | none => s
  | some (v', t') =>
    if reb op.name then TriState.fresh v' t' else { s with v := v', t := t' }

def triRun (reb : String → Bool) (s : TriState K) (ops : List (TriOp K)) : TriState K :=
  ops.foldl (triStep reb) s

/-- the invariant: cached adjacency is what the constructor would compute from the current triangles -/
def TriInv (s : TriState K) : Prop := s.symK = Topo.symKeys s.t ∧ s.dirK = Topo.dirKeys s.t

/-! queries read the caches, exactly where the code does -/
def qClosed (s : TriState K) : Bool := !(Coo.data (s.symK.map fun k => (k, 1))).contains 1
def qManifold (s : TriState K) : Bool := Topo.maxL (Coo.data (s.symK.map fun k => (k, 1))) ≤ 2
def qOriented (s : TriState K) : Bool := Topo.maxL (Coo.data (s.dirK.map fun k => (k, 1))) == 1
def qEuler (s : TriState K) : Int :=
  ((Topo.usedVerts s.t).length : Int) - ((Coo.nnz (s.symK.map fun k => (k, (1 : Nat))) / 2 : Nat) : Int) + (s.t.length : Int)

/-! ### tetrahedral meshes -/

structure TetState (K : Type) where
  v : List (V3 K)
  t : List Tet
  symK : List (Nat × Nat)

def TetState.fresh (v : List (V3 K)) (t : List Tet) : TetState K := { v := v, t := t, symK := TetTopo.symKeys t }

inductive TetOp where
  | orient
  | rmFree

def TetOp.name : TetOp → String
  | .orient => "orient_"
  | .rmFree => "rm_free_vertices_"

def tetEffect (s : TetState K) : TetOp → Option (List (V3 K) × List Tet)
  | .orient =>
    let (tn, n) := TetTopo.orient (vtxOfList s.v) s.t
    if n == 0 then none else some (s.v, tn)      -- "Mesh is oriented, nothing to do": early return, nothing written
  | .rmFree =>
    let (r, tn) := RmFree.tet s.v.length s.t
    if r.changed then some (r.keep.map (fun i => s.v.getD i ⟨0, 0, 0⟩), tn) else none

def tetStep (reb : String → Bool) (s : TetState K) (op : TetOp) : TetState K :=
  match tetEffect s op with
  | none => s
  | some (v', t') => if reb op.name then TetState.fresh v' t' else { s with v := v', t := t' }

def tetRun (reb : String → Bool) (s : TetState K) (ops : List TetOp) : TetState K := ops.foldl (tetStep reb) s

def TetInv (s : TetState K) : Prop := s.symK = TetTopo.symKeys s.t

end History
end LapyVerif

namespace LapyVerif.History

/-- the shape / index checks of `TriaMesh.__init__` on arrays of shape `(vr,vc)` and `(tr,tc)` with largest index `maxT`:
    `.ok (transposeV, transposeT)` or `ValueError` -/
def ctorTri (vr vc tr tc maxT : Nat) : Except String (Bool × Bool) :=
  let tv := decide (vr < vc)
  let tt := decide (tr < tc)
  let vc' := if tv then vr else vc
  let tc' := if tt then tr else tc
  let vnum := max vr vc
  if maxT ≥ vnum then .error "ValueError"
  else if tc' ≠ 3 then .error "ValueError"
  else if vc' ≠ 3 then .error "ValueError"
  else .ok (tv, tt)

/-- `TetMesh.__init__` only checks the index range -/
def ctorTet (vr vc maxT : Nat) : Except String Unit :=
  if maxT ≥ max vr vc then .error "ValueError" else .ok ()

end LapyVerif.History
