import LapyVerif.Model.Conformal
import LapyVerif.Model.Measures
/-
  Model of the objective of `mobius_area_correction_spherical` (lapy/conformal.py): the mean absolute logarithm of the ratio between
  the normalised triangle areas of the Möbius image and those of the original mesh (non-finite terms left out).
-/
namespace LapyVerif
namespace Conformal
open V3

variable {K : Type} [Zero K] [Add K] [Sub K] [Mul K] [Div K] [Neg K] [NatCast K] [HasSqrt K] [HasAbs K] [HasLog K]
variable [LT K] [DecidableRel (α := K) (· < ·)] [BEq K]

/-- areas divided by their sum -/
def normAreas (vtx : Nat → V3 K) (ts : List Tri) : List K :=
  let a := Measures.triAreas vtx ts
  let s := a.sum
  a.map (· / s)

/-- the image of the parameterisation `mapping` under the Möbius transformation with coefficients `a b c d` -/
def mobiusImage (a b c d : C K) (mapping : List (V3 K)) : List (V3 K) :=
  mapping.map fun u => invStereo (mobius a b c d (stereo u))

/-- `d_area(x)`: `mean |log(area_map(x) / area_t)|` over the terms that are finite; `finite` is the harness-side test `np.isfinite` -/
def dArea (finite : K → Bool) (origVtx : Nat → V3 K) (ts : List Tri) (a b c d : C K) (mapping : List (V3 K)) : K :=
  let at' := normAreas origVtx ts
  let img := mobiusImage a b c d mapping
  let av := normAreas (fun i => img.getD i ⟨0, 0, 0⟩) ts
  let terms := ((av.zip at').map fun p => HasAbs.abs (HasLog.log (p.1 / p.2))).filter finite
  terms.sum / ((terms.length : Nat) : K)

end Conformal
end LapyVerif
