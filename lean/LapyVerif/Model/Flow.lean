import LapyVerif.Model.Fem
import LapyVerif.Model.Measures
import LapyVerif.Model.Heat
/-
  Model of `tria_mean_curvature_flow` (one iteration: system, right-hand side, stopping quantity) and of the decision
  logic of `tria_spherical_project` (axis alignment of the three eigenfunctions, radial projection, quality gates).
-/
namespace LapyVerif
namespace Flow
open V3

variable {K : Type} [Zero K] [Add K] [Sub K] [Mul K] [Div K] [Neg K] [NatCast K] [HasSqrt K]
variable [LT K] [DecidableRel (α := K) (· < ·)] [BEq K]

/-- matrix of iteration `k`: `mass + step * a_mat` with the lumped stand-alone mass of the current iterate and the
    stiffness `A0` of the normalised input -/
def stepMatrix (step : K) (A0 : Coo K) (vcur : Nat → V3 K) (ts : List Tri) : Coo K :=
  Heat.heatMat step A0 (Fem.massTriaStandalone true vcur ts)

/-- right-hand side `mass.dot(v)` (three columns) -/
def stepRhs (vcur : List (V3 K)) (ts : List Tri) : List (V3 K) :=
  let vtx := fun i => vcur.getD i ⟨0, 0, 0⟩
  let M := Fem.massTriaStandalone true vtx ts
  (List.range vcur.length).map fun i =>
    ⟨Coo.mulVec M (fun j => (vtx j).x) i, Coo.mulVec M (fun j => (vtx j).y) i, Coo.mulVec M (fun j => (vtx j).z) i⟩

/-- `diff = trace(square(dvᵀ · mass.dot(dv)))` -/
def stepDiff (M : Coo K) (dv : List (V3 K)) : K :=
  let d := fun i => dv.getD i ⟨0, 0, 0⟩
  let col := fun (c : V3 K → K) => ((List.range dv.length).map fun i => c (d i) * Coo.mulVec M (fun j => c (d j)) i).sum
  let a := col (·.x); let b := col (·.y); let cc := col (·.z)
  a * a + b * b + cc * cc

/-- radial projection to radius 100 -/
def project100 (v : V3 K) : V3 K :=
  let d := sqrt (normSq v)
  smul ((100 : Nat) : K) ⟨v.x / d, v.y / d, v.z / d⟩

/-- the four quality gates at the end of `tria_spherical_project` (in the order of the code); `none` = accepted -/
def gates (svol flippedarea spatvol : K) : Option String :=
  let r := fun (a b : Nat) => ((a : Nat) : K) / ((b : Nat) : K)
  if r 95 100 < flippedarea then some "global normal flip"
  else if svol < r 99 100 then some "sphere area fraction should be above .99"
  else if r 8 10000 < flippedarea then some "flipped area fraction should be below .0008"
  else if spatvol < r 6 10 then some "spat vol (orthogonality) should be above .6"
  else none

/-- mean of the selected coordinates -/
def meanSel (p : List K) (sel : List Bool) : K :=
  let xs := ((p.zip sel).filter (·.2)).map (·.1)
  xs.sum / ((xs.length : Nat) : K)

def maxL (l : List K) : K := l.foldl (fun m x => if m < x then x else m) (l.headD 0)
def minL (l : List K) : K := l.foldl (fun m x => if x < m then x else m) (l.headD 0)

/-- `cmax - cmin` along one coordinate for an eigenfunction: mean position where `ev > 0.5 max` minus where `ev < 0.5 min` -/
def axisDiff (ev : List K) (coord : List K) : K :=
  let h : K := ((1 : Nat) : K) / ((2 : Nat) : K)
  let mx := maxL ev; let mn := minL ev
  meanSel coord (ev.map fun e => decide (h * mx < e)) - meanSel coord (ev.map fun e => decide (e < h * mn))

/-- the conditional flip: negate the eigenfunction if it decreases along its axis -/
def alignAxis (ev : List K) (coord : List K) : List K :=
  if axisDiff ev coord < 0 then ev.map (fun e => -e) else ev

end Flow
end LapyVerif
