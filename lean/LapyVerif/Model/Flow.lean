import LapyVerif.Model.Fem
import LapyVerif.Model.Measures
import LapyVerif.Model.Heat
/-
  Model of `tria_mean_curvature_flow` (one iteration: system, right-hand side, stopping quantity) and of the decision
  logic of `tria_spherical_project` (axis alignment of the three eigenfunctions, radial projection, quality gates).
-/
namespace LapyVerif
namespace Flow
open V3

variable {K : Type} [Zero K] [Add K] [Sub K] [Mul K] [Div K] [Neg K] [NatCast K] [HasSqrt K]
variable [LT K] [DecidableRel (α := K) (· < ·)] [BEq K]

/-- matrix of iteration `k`: `mass + step * a_mat` with the lumped stand-alone mass of the current iterate and the
    stiffness `A0` of the normalised input -/
def stepMatrix (step : K) (A0 : Coo K) (vcur : Nat → V3 K) (ts : List Tri) : Coo K :=
  Heat.heatMat step A0 (Fem.massTriaStandalone true vcur ts)

/-- right-hand side `mass.dot(v)` (three columns) -/
def stepRhs (vcur : List (V3 K)) (ts : List Tri) : List (V3 K) :=
  let vtx := fun i => vcur.getD i ⟨0, 0, 0⟩
  let M := Fem.massTriaStandalone true vtx ts
  (List.range vcur.length).map fun i =>
    ⟨Coo.mulVec M (fun j => (vtx j).x) i, Coo.mulVec M (fun j => (vtx j).y) i, Coo.mulVec M (fun j => (vtx j).z) i⟩

/-- `diff = trace(square(dvᵀ · mass.dot(dv)))` -/
def stepDiff (M : Coo K) (dv : List (V3 K)) : K :=
  let d := fun i => dv.getD i ⟨0, 0, 0⟩
  let col := fun (c : V3 K → K) => ((List.range dv.length).map fun i => c (d i) * Coo.mulVec M (fun j => c (d j)) i).sum
  let a := col (·.x); let b := col (·.y); let cc := col (·.z)
  a * a + b * b + cc * cc

/-- radial projection to radius 100 -/
def project100 (v : V3 K) : V3 K :=
  let d := sqrt (normSq v)
  smul ((100 : Nat) : K) ⟨v.x / d, v.y / d, v.z / d⟩

/-- the four quality gates at the end of `tria_spherical_project` (in the order of the code); `none` = accepted -/
def gates (svol flippedarea spatvol : K) : Option String :=
  let r := fun (a b : Nat) => ((a : Nat) : K) / ((b : Nat) : K)
  if r 95 100 < flippedarea then some "global normal flip"
  else if svol < r 99 100 then some "sphere area fraction should be above .99"
  else if r 8 10000 < flippedarea then some "flipped area fraction should be below .0008"
  else if spatvol < r 6 10 then some "spat vol (orthogonality) should be above .6"
  else none

/-- mean of the selected coordinates -/
def meanSel (p : List K) (sel : List Bool) : K :=
  let xs := ((p.zip sel).filter (·.2)).map (·.1)
  xs.sum / ((xs.length : Nat) : K)

def maxL (l : List K) : K := l.foldl (fun m x => if m < x then x else m) (l.headD 0)
def minL (l : List K) : K := l.foldl (fun m x => if x < m then x else m) (l.headD 0)

/-- `cmax - cmin` along one coordinate for an eigenfunction: mean position where `ev > 0.5 max` minus where `ev < 0.5 min` -/
def axisDiff (ev : List K) (coord : List K) : K :=
  let h : K := ((1 : Nat) : K) / ((2 : Nat) : K)
  let mx := maxL ev; let mn := minL ev
  meanSel coord (ev.map fun e => decide (h * mx < e)) - meanSel coord (ev.map fun e => decide (e < h * mn))

/-- the conditional flip: negate the eigenfunction if it decreases along its axis -/
def alignAxis (ev : List K) (coord : List K) : List K :=
  if axisDiff ev coord < 0 then ev.map (fun e => -e) else ev

/-! ### the spectral embedding of `tria_spherical_project` (everything between `eigs` and the curvature flow) -/

variable [HasAbs K]

/-- mean position of the vertices selected by `sel` -/
def meanPos (v : List (V3 K)) (sel : List Bool) : V3 K :=
  ⟨meanSel (v.map (·.x)) sel, meanSel (v.map (·.y)) sel, meanSel (v.map (·.z)) sel⟩

/-- `(cmax, cmin)` of an eigenfunction: mean position where `ev > 0.5 max(ev)` / where `ev < 0.5 min(ev)` -/
def poles (v : List (V3 K)) (ev : List K) : V3 K × V3 K :=
  let h : K := ((1 : Nat) : K) / ((2 : Nat) : K)
  let mx := maxL ev; let mn := minL ev
  (meanPos v (ev.map fun e => decide (h * mx < e)), meanPos v (ev.map fun e => decide (e < h * mn)))

/-- map to `-1..0..+1` keeping the zero level: negative entries are divided by `-min`, positive ones by `max` -/
def unitRange (ev : List K) : List K :=
  let mn := minL ev; let mx := maxL ev
  ev.map fun e => if e < 0 then e / (-mn) else if 0 < e then e / mx else e

/-- the decisions of `tria_spherical_project` given the eigenfunctions 1..3 and the vertices: direction 1 must be the
    y-axis (else `ValueError`), eigenfunctions 2 and 3 are swapped (together with their poles) when 3 is longer along z,
    each is negated when it decreases along its axis, rescaled to `-1..1`; the new coordinates are `(ev3, ev1, ev2)`.
    Returns the embedded vertices and `spatvol`. -/
def embed (v : List (V3 K)) (e1 e2 e3 : List K) : Except String (List (V3 K) × K) :=
  let (cmax1, cmin1) := poles v e1
  let (cmax2, cmin2) := poles v e2
  let (cmax3, cmin3) := poles v e3
  let l11 := HasAbs.abs (cmax1.y - cmin1.y); let l21 := HasAbs.abs (cmax2.y - cmin2.y); let l31 := HasAbs.abs (cmax3.y - cmin3.y)
  if l11 < l21 || l11 < l31 then .error "Direction 1 should be anterior - posterior" else
  let v1 := cmax1 - cmin1
  let e1 := if cmax1.y < cmin1.y then e1.map (fun e => -e) else e1
  let l22 := HasAbs.abs (cmax2.z - cmin2.z); let l32 := HasAbs.abs (cmax3.z - cmin3.z)
  let sw := decide (l22 < l32)
  let (e2, e3) := if sw then (e3, e2) else (e2, e3)
  let (cmax2, cmax3) := if sw then (cmax3, cmax2) else (cmax2, cmax3)
  let (cmin2, cmin3) := if sw then (cmin3, cmin2) else (cmin2, cmin3)
  let v2 := cmax2 - cmin2
  let e2 := if cmax2.z < cmin2.z then e2.map (fun e => -e) else e2
  let v3 := cmax3 - cmin3
  let e3 := if cmax3.x < cmin3.x then e3.map (fun e => -e) else e3
  let nrm := fun (w : V3 K) => smul (((1 : Nat) : K) / sqrt (normSq w)) w
  let spatvol := HasAbs.abs (dot (nrm v1) (cross (nrm v2) (nrm v3)))
  let u1 := unitRange e1; let u2 := unitRange e2; let u3 := unitRange e3
  .ok ((u3.zip (u1.zip u2)).map (fun p => (⟨p.1, p.2.1, p.2.2⟩ : V3 K)), spatvol)

end Flow
end LapyVerif
