import LapyVerif.Model.Mesh
/-
  Model of the connectivity code of `lapy/tria_mesh.py` (integer bookkeeping on the triangle index array).
  It mirrors the mechanism, not the specification: adjacency matrices are COO lists whose duplicates are summed
  (`Coo.entry`), and the predicates read the stored data exactly as the code does.
-/
namespace LapyVerif
namespace Topo

/-- keys of `_construct_adj_sym`, in the code's column order -/
def symKeys (ts : List Tri) : List (Nat × Nat) :=
  ts.flatMap fun (t0, t1, t2) => [(t0, t1), (t1, t0), (t1, t2), (t2, t1), (t2, t0), (t0, t2)]

/-- keys of `_construct_adj_dir` -/
def dirKeys (ts : List Tri) : List (Nat × Nat) :=
  ts.flatMap fun (t0, t1, t2) => [(t0, t1), (t1, t2), (t2, t0)]

def adjSym (ts : List Tri) : Coo Nat := (symKeys ts).map fun k => (k, 1)
def adjDir (ts : List Tri) : Coo Nat := (dirKeys ts).map fun k => (k, 1)

/-- `adj_sym.data` / `adj_dir.data` : one summed value per stored key -/
def symData (ts : List Tri) : List Nat := Coo.data (adjSym ts)
def dirData (ts : List Tri) : List Nat := Coo.data (adjDir ts)

def maxL (l : List Nat) : Nat := l.foldl max 0

/-- `1 not in self.adj_sym.data` -/
def isClosed (ts : List Tri) : Bool := !(symData ts).contains 1
/-- `np.max(self.adj_sym.data) <= 2` -/
def isManifold (ts : List Tri) : Bool := maxL (symData ts) ≤ 2
/-- `np.max(self.adj_dir.data) == 1` -/
def isOriented (ts : List Tri) : Bool := maxL (dirData ts) == 1

/-- `np.unique(self.t.reshape(-1))` as a set of used vertices (sorted ascending) -/
def usedVerts (ts : List Tri) : List Nat :=
  ((ts.flatMap fun (a, b, c) => [a, b, c]).eraseDups).mergeSort

/-- `vnum - enum + tnum` with `enum = int(adj_sym.nnz / 2)` -/
def euler (ts : List Tri) : Int :=
  ((usedVerts ts).length : Int) - ((Coo.nnz (adjSym ts) / 2 : Nat) : Int) + (ts.length : Int)

def hasFreeVertices (nv : Nat) (ts : List Tri) : Bool := nv != (usedVerts ts).length

/-- `adj_sym.getnnz(axis=0)`: stored entries per column, for the `n` columns of the `n×n` matrix -/
def vertexDegrees (nv : Nat) (ts : List Tri) : List Nat :=
  let keys := Coo.keys (adjSym ts)
  (List.range nv).map fun j => (keys.filter fun k => k.2 == j).length

/-! ### `boundary_loops` -/

def lexLe (a b : Nat × Nat) : Bool := a.1 < b.1 || (a.1 == b.1 && a.2 ≤ b.2)

/-- stored keys of `adj_dir` after `adj[inneredges] = 0; eliminate_zeros()` : half-edges whose undirected edge is
    not stored with value 2 in `adj_sym` -/
def boundaryHalfEdges (ts : List Tri) : List (Nat × Nat) :=
  let sym := adjSym ts
  (Coo.keys (adjDir ts)).filter fun k => Coo.entry sym k.1 k.2 != 2

/-- first stored row index of column `j` (CSC keeps row indices sorted) -/
def firstRow (bd : List (Nat × Nat)) (j : Nat) : Option Nat :=
  ((bd.filter fun k => k.2 == j).map (·.1)).min?

/-- first non-empty column -/
def firstCol (bd : List (Nat × Nat)) : Option Nat := (bd.map (·.2)).min?

/-- inner `while not ncol == firstcol` walk; `none` = the walk does not close within the fuel or reads an empty column -/
def walk (bd : List (Nat × Nat)) (first : Nat) : Nat → Nat → List Nat → Option (List Nat)
  | 0, _, _ => none
  | fuel + 1, ncol, acc =>
    if ncol == first then some acc.reverse
    else match firstRow bd ncol with
      | none => none
      | some r => walk bd first fuel r (ncol :: acc)

/-- outer loop: one cycle per round, visited entries (the first entry of every visited column) are removed -/
def loopsFrom : Nat → List (Nat × Nat) → List (List Nat) → Option (List (List Nat))
  | 0, _, _ => none
  | fuel + 1, bd, acc =>
    match firstCol bd with
    | none => some acc.reverse
    | some fc =>
      match firstRow bd fc with
      | none => none
      | some r =>
        match walk bd fc (bd.length + 1) r [fc] with
        | none => none
        | some loop =>
          let visited := loop.filterMap fun c => (firstRow bd c).map fun r => (r, c)
          loopsFrom fuel (bd.filter fun k => !visited.contains k) (loop :: acc)

inductive LoopsResult where
  | loops (l : List (List Nat))
  | valueError
  | diverges
deriving Repr

def boundaryLoops (ts : List Tri) : LoopsResult :=
  if !isManifold ts then .valueError
  else if isClosed ts then .loops []
  else if !isOriented ts then .valueError
  else
    let bd := boundaryHalfEdges ts
    match loopsFrom (bd.length + 1) bd [] with
    | some l => .loops l
    | none => .diverges

/-! ### `edges` -/

/-- half-edges with the index of their triangle (`construct_adj_dir_tidx`, value `tidx+1` summed over duplicates) -/
def dirTidx (ts : List Tri) : Coo Nat :=
  (ts.zipIdx).flatMap fun ((t0, t1, t2), k) => [((t0, t1), k + 1), ((t1, t2), k + 1), ((t2, t0), k + 1)]

structure EdgesResult where
  vids : List (Nat × Nat)
  tids : List (Int × Int)
  bdrv : List (Nat × Nat)
  bdrt : List Int
deriving Repr

/-- `edges(with_boundary)`; `none` = ValueError (not oriented) -/
def edges (ts : List Tri) : Option EdgesResult :=
  if !isOriented ts then none
  else
    let sym := adjSym ts
    let tid := dirTidx ts
    let symKeysU := Coo.keys sym
    let bdKeys := (symKeysU.filter fun k => Coo.entry sym k.1 k.2 == 1).mergeSort (fun a b => lexLe a b)
    -- adjtria with the boundary positions zeroed
    let dirU := (Coo.keys tid).filter fun k => !bdKeys.contains k
    let upper := (dirU.filter fun k => k.1 ≤ k.2).mergeSort (fun a b => lexLe a b)
    let upperT := ((dirU.map fun k => (k.2, k.1)).filter fun k => k.1 ≤ k.2).mergeSort (fun a b => lexLe a b)
    some {
      vids := upper
      tids := (upper.zip upperT).map fun (k, k') =>
        (((Coo.entry tid k.1 k.2 : Nat) : Int) - 1, ((Coo.entry tid k'.2 k'.1 : Nat) : Int) - 1)
      bdrv := bdKeys.filter fun k => Coo.entry tid k.1 k.2 != 0
      bdrt := (bdKeys.filter fun k => Coo.entry tid k.1 k.2 != 0).map fun k => ((Coo.entry tid k.1 k.2 : Nat) : Int) - 1 }

end Topo
end LapyVerif
