import LapyVerif.Model.Topo
/-
  Model of `TriaMesh.refine_` (one step) and `rm_free_vertices_` (triangle and tetra meshes).
-/
namespace LapyVerif
namespace Refine
open V3

/-- the stored entries of `triu(adj_sym, 0, format="csr")` in CSR (row-major) order: the numbering of the new vertices -/
def edgeList (ts : List Tri) : List (Nat × Nat) :=
  (((Topo.symKeys ts).filter fun k => k.1 ≤ k.2).eraseDups).mergeSort (fun a b => Topo.lexLe a b)

/-- `adjtriu[a, b]` after `adjtriu + adjtriu.T`: index of the new vertex on edge `{a,b}` (0 if there is no such edge) -/
def edgeVertex (edges : List (Nat × Nat)) (vno a b : Nat) : Nat :=
  let k := (min a b, max a b)
  match edges.idxOf? k with
  | some i => vno + i
  | none => 0

variable {K : Type} [Zero K] [Add K] [Sub K] [Mul K] [Div K] [Neg K] [NatCast K]

def midpoint (a b : V3 K) : V3 K := smul (((1 : Nat) : K) / ((2 : Nat) : K)) (a + b)

/-- one pass of the `for` loop of `refine_` -/
def refine1 (verts : List (V3 K)) (ts : List Tri) : List (V3 K) × List Tri :=
  let vno := verts.length
  let vtx := fun i => verts.getD i ⟨0, 0, 0⟩
  let edges := edgeList ts
  let vnew := verts ++ edges.map fun k => midpoint (vtx k.1) (vtx k.2)
  let tnew := ts.flatMap fun (t0, t1, t2) =>
    let e1 := edgeVertex edges vno t0 t1
    let e2 := edgeVertex edges vno t1 t2
    let e3 := edgeVertex edges vno t2 t0
    [(t0, e1, e3), (t1, e2, e1), (t2, e3, e2), (e1, e2, e3)]
  (vnew, tnew)

def refine (it : Nat) (verts : List (V3 K)) (ts : List Tri) : List (V3 K) × List Tri :=
  match it with
  | 0 => (verts, ts)
  | n + 1 => let (v, t) := refine1 verts ts; refine n v t

end Refine

namespace RmFree

structure Result where
  keep : List Nat         -- kept original indices (ascending)
  del : List Nat          -- deleted original indices (ascending)
  lookup : Nat → Nat      -- `tlookup = cumsum(vkeep) - 1`
  changed : Bool          -- false = early return (nothing to delete)

/-- `used` = flattened element indices -/
def run (nv : Nat) (used : List Nat) : Result :=
  let keepMask := fun i => used.contains i
  let del := (List.range nv).filter fun i => !keepMask i
  let keep := (List.range nv).filter keepMask
  { keep := if del.isEmpty then List.range nv else keep
    del := del
    lookup := fun i => ((List.range (i + 1)).filter keepMask).length - 1
    changed := !del.isEmpty }

def tri (nv : Nat) (ts : List Tri) : Result × List Tri :=
  let r := run nv (ts.flatMap fun (a, b, c) => [a, b, c])
  (r, if r.changed then ts.map fun (a, b, c) => (r.lookup a, r.lookup b, r.lookup c) else ts)

def tet (nv : Nat) (ts : List Tet) : Result × List Tet :=
  let r := run nv (ts.flatMap fun (a, b, c, d) => [a, b, c, d])
  (r, if r.changed then ts.map fun (a, b, c, d) => (r.lookup a, r.lookup b, r.lookup c, r.lookup d) else ts)

end RmFree
end LapyVerif
