import LapyVerif.Model.Fem
import LapyVerif.Model.Measures
/-
  Model of the glue around the external eigensolver (`Solver.eigs`) and of `lapy/shapedna.py`.
-/
namespace LapyVerif

class HasRpow (K : Type) where
  rpow : K → K → K
instance : HasRpow Float := ⟨Float.pow⟩

namespace Spectral
variable {K : Type} [Zero K] [Add K] [Sub K] [Mul K] [Div K] [Neg K] [NatCast K]

/-- the matrix handed to SuperLU by `eigs`: `self.stiffness - sigma * self.mass` (a sparse sum is a concatenation of triplets) -/
def shiftMat (σ : K) (A B : Coo K) : Coo K := A ++ B.map fun e => (e.1, -σ * e.2)

/-- `reweight_ev`: `evals / np.arange(1, len(evals) + 1)` -/
def reweight (ev : List K) : List K := ev.zipIdx.map fun (x, i) => x / (((i + 1 : Nat)) : K)

variable [HasSqrt K] [HasRpow K]

/-- `compute_distance(ev1, ev2)` (Euclidean) -/
def distance (a b : List K) : K := sqrt (((a.zip b).map fun p => (p.1 - p.2) * (p.1 - p.2)).sum)

/-- `vol ** np.divide(2.0, 3.0)` -/
def pow23 (vol : K) : K := HasRpow.rpow vol (((2 : Nat) : K) / ((3 : Nat) : K))

inductive Method where
  | surface | volume | geometry
deriving Repr, DecidableEq

/-- `normalize_ev(geom, evals, method)` given the measures the code computes: `area` = `geom.area()`, `vol` = enclosed volume
    (`TriaMesh`: of the oriented copy; `TetMesh`: of the oriented boundary surface).  `isTet` selects the `geometry` branch. -/
def normalizeEv (m : Method) (isTet : Bool) (ev : List K) (area vol : K) : List K :=
  match m with
  | .surface => ev.map (· * area)                    -- `vol ** np.divide(2.0, 2.0)` with vol = area: exponent 1
  | .volume => ev.map (· * pow23 vol)
  | .geometry => if isTet then ev.map (· * pow23 vol) else ev.map (· * area)

/-- the integer fields of the dictionary returned by `compute_shapedna`: Refine, Degree, Dimension, Elements, DoF, NumEW -/
def dictFields (isTet : Bool) (nElems nVerts k : Nat) : List (String × Nat) :=
  [("Refine", 0), ("Degree", 1), ("Dimension", if isTet then 3 else 2), ("Elements", nElems), ("DoF", nVerts), ("NumEW", k)]

end Spectral
end LapyVerif
