import LapyVerif.Model.Mesh
/-
  Model of `lapy/tet_mesh.py`: `is_oriented`, `orient_`, `boundary_tria`, `has_free_vertices`, `construct_adj_sym`.
-/
namespace LapyVerif
namespace TetTopo
open V3

variable {K : Type} [Zero K] [Add K] [Sub K] [Mul K] [Div K] [Neg K] [NatCast K]
variable [LT K] [DecidableRel (α := K) (· < ·)]

/-- `vol = e3·(e0×e2)` with `e0 = v1-v0, e2 = v2-v0, e3 = v3-v0` (six times the signed volume) -/
def signedVol (vtx : Nat → V3 K) (τ : Tet) : K :=
  let v0 := vtx τ.1; let v1 := vtx τ.2.1; let v2 := vtx τ.2.2.1; let v3 := vtx τ.2.2.2
  dot (v3 - v0) (cross (v1 - v0) (v2 - v0))

/-- the four-way branch of `TetMesh.is_oriented` (only "all volumes positive" answers `True`); an empty mesh makes
    `np.max` raise, which the constructor excludes -/
def isOriented (vtx : Nat → V3 K) (ts : List Tet) : Bool :=
  let vols := ts.map (signedVol vtx)
  if vols.all (fun x => decide (x < 0)) then false          -- np.max(vol) < 0
  else if vols.all (fun x => decide (0 < x)) then true      -- np.min(vol) > 0
  else false

/-- `orient_`: swap columns 1,2 of exactly the negative tetrahedra; returns the count -/
def orient (vtx : Nat → V3 K) (ts : List Tet) : List Tet × Nat :=
  let neg := ts.map fun τ => decide (signedVol vtx τ < 0)
  let n := (neg.filter id).length
  if n == 0 then (ts, 0)
  else ((ts.zip neg).map (fun (τ, b) => if b then (τ.1, τ.2.2.1, τ.2.1, τ.2.2.2) else τ), n)

/-- sort three indices ascending -/
def sort3 (a b c : Nat) : Nat × Nat × Nat :=
  let lo := min a (min b c); let hi := max a (max b c)
  (lo, a + b + c - lo - hi, hi)

def lex3 (a b : Nat × Nat × Nat) : Bool :=
  a.1 < b.1 || (a.1 == b.1 && (a.2.1 < b.2.1 || (a.2.1 == b.2.1 && a.2.2 ≤ b.2.2)))

/-- `allt`: the four faces `[3,1,2],[2,0,3],[1,3,0],[0,2,1]` stacked block-wise, each with the index of its tetrahedron -/
def allFaces (ts : List Tet) : List (Tri × Nat) :=
  let f : (Tet → Tri) → List (Tri × Nat) := fun pick => (ts.zipIdx).map fun (τ, k) => (pick τ, k)
  f (fun τ => (τ.2.2.2, τ.2.1, τ.2.2.1)) ++ f (fun τ => (τ.2.2.1, τ.1, τ.2.2.2)) ++
  f (fun τ => (τ.2.1, τ.2.2.2, τ.1)) ++ f (fun τ => (τ.1, τ.2.2.1, τ.2.1))

/-- `boundary_tria`: faces whose sorted triple occurs once, in the lexicographic order of the sorted triples
    (`np.unique(axis=0)`), each with its owning tetrahedron -/
def boundaryFaces (ts : List Tet) : List (Tri × Nat) :=
  let all := allFaces ts
  let keyed := all.map fun (f, k) => (sort3 f.1 f.2.1 f.2.2, f, k)
  let once := keyed.filter fun e => (keyed.filter fun e' => e'.1 == e.1).length == 1
  (once.mergeSort fun a b => lex3 a.1 b.1).map fun e => (e.2.1, e.2.2)

/-- keys of `TetMesh.construct_adj_sym` in the code's order -/
def symKeys (ts : List Tet) : List (Nat × Nat) :=
  ts.flatMap fun (t1, t2, t3, t4) =>
    [(t1, t2), (t2, t1), (t2, t3), (t3, t2), (t3, t1), (t1, t3), (t1, t4), (t2, t4), (t3, t4), (t4, t1), (t4, t2), (t4, t3)]

def usedVerts (ts : List Tet) : List Nat := (ts.flatMap fun (a, b, c, d) => [a, b, c, d]).eraseDups

def hasFreeVertices (nv : Nat) (ts : List Tet) : Bool := nv != (usedVerts ts).length

end TetTopo
end LapyVerif
