import LapyVerif.Model.Scalar
/-  3-vectors over an arbitrary scalar type (mirrors the `(n,3)` NumPy rows). -/
namespace LapyVerif

structure V3 (K : Type) where
  x : K
  y : K
  z : K
deriving Repr

namespace V3
variable {K : Type}

def zero [Zero K] : V3 K := ⟨0, 0, 0⟩
instance [Zero K] : Zero (V3 K) := ⟨zero⟩
instance [Zero K] : Inhabited (V3 K) := ⟨zero⟩
def add [Add K] (a b : V3 K) : V3 K := ⟨a.x + b.x, a.y + b.y, a.z + b.z⟩
def sub [Sub K] (a b : V3 K) : V3 K := ⟨a.x - b.x, a.y - b.y, a.z - b.z⟩
def neg [Neg K] (a : V3 K) : V3 K := ⟨-a.x, -a.y, -a.z⟩
def smul [Mul K] (c : K) (a : V3 K) : V3 K := ⟨c * a.x, c * a.y, c * a.z⟩
instance [Add K] : Add (V3 K) := ⟨add⟩
instance [Sub K] : Sub (V3 K) := ⟨sub⟩
instance [Neg K] : Neg (V3 K) := ⟨neg⟩
/-- `np.sum(a * b, axis=1)`: NumPy adds left to right. -/
def dot [Add K] [Mul K] (a b : V3 K) : K := a.x * b.x + a.y * b.y + a.z * b.z
/-- `np.cross(a, b)` -/
def cross [Sub K] [Mul K] (a b : V3 K) : V3 K :=
  ⟨a.y * b.z - a.z * b.y, a.z * b.x - a.x * b.z, a.x * b.y - a.y * b.x⟩
def normSq [Add K] [Mul K] (a : V3 K) : K := dot a a
def norm [Add K] [Mul K] [HasSqrt K] (a : V3 K) : K := sqrt (normSq a)
end V3
end LapyVerif
