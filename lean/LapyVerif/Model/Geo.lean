import LapyVerif.Model.DiffGeo
import LapyVerif.Model.Poisson
import LapyVerif.Model.Measures
/-
  Model of `compute_geodesic_f` / `tria_compute_geodesic_f` / `tria_compute_rotated_f` of `lapy/diffgeo.py`:
  the right-hand sides handed to the Poisson solver and the post-processing.
-/
namespace LapyVerif
namespace Geo
open V3

variable {K : Type} [Zero K] [Add K] [Sub K] [Mul K] [Div K] [Neg K] [NatCast K] [HasSqrt K]
variable [LT K] [DecidableRel (α := K) (· < ·)] [BEq K]

/-- `gradf / sqrt((gradf**2).sum(1))` followed by `np.nan_to_num` (a zero gradient gives 0/0 = nan ↦ 0) -/
def normalizeRow (g : V3 K) : V3 K :=
  let n := sqrt (normSq g)
  if n == 0 then ⟨0, 0, 0⟩ else ⟨g.x / n, g.y / n, g.z / n⟩

/-- triangles: `divf = tria_compute_divergence(tria, normalized gradient)` as triplets `((i,0), value)` -/
def geoRhsTri (vtx : Nat → V3 K) (ts : List Tri) (f : Nat → K) : Coo K :=
  DiffGeo.triDiv vtx ts ((DiffGeo.triGrad vtx ts f).map normalizeRow)

variable [HasAbs K]

def geoRhsTet (vtx : Nat → V3 K) (ts : List Tet) (f : Nat → K) : Coo K :=
  DiffGeo.tetDiv vtx ts ((DiffGeo.tetGrad vtx ts f).map normalizeRow)

/-- `gradf = np.cross(tn, gradf)` with `tn = tria_normals()`, then the integrated divergence -/
def rotRhs (vtx : Nat → V3 K) (ts : List Tri) (f : Nat → K) : Coo K :=
  DiffGeo.triDiv vtx ts
    ((ts.zip (DiffGeo.triGrad vtx ts f)).map fun (τ, g) => cross (Measures.triNormal (vtx τ.1) (vtx τ.2.1) (vtx τ.2.2)) g)

/-- `vf -= min(vf)` -/
def shiftMin (x : List K) : List K :=
  match x with
  | [] => []
  | a :: l => let m := l.foldl (fun m y => if y < m then y else m) a; x.map (· - m)

end Geo
end LapyVerif
