import LapyVerif.Model.Measures
/-
  Model of `map_tfunc_to_vfunc`, `map_vfunc_to_tfunc`, `smooth_vfunc`, `smooth_` of `lapy/tria_mesh.py`
  (functions are lists of rows, one row of `K` per vertex / triangle, so multi-column input is covered).
-/
namespace LapyVerif
namespace Transfer
open V3

variable {K : Type} [Zero K] [Add K] [Sub K] [Mul K] [Div K] [Neg K] [NatCast K] [HasSqrt K]

def rowAdd (a b : List K) : List K := List.zipWith (· + ·) a b
def rowScale (c : K) (a : List K) : List K := a.map (c * ·)
def rowDiv (a : List K) (c : K) : List K := a.map (· / c)
def rowZero (k : Nat) : List K := List.replicate k 0

/-- `map_tfunc_to_vfunc(tfunc, weighted)`: scatter-add of (area-weighted) triangle rows to the three corners, `/ 3` -/
def t2v (nv : Nat) (vtx : Nat → V3 K) (ts : List Tri) (tf : List (List K)) (weighted : Bool) : List (List K) :=
  let cols := (tf.headD []).length
  let areas := Measures.triAreas vtx ts
  let rows := (tf.zip areas).map fun (r, a) => if weighted then r.map (· * a) else r
  (List.range nv).map fun i =>
    let acc := ((ts.zip rows).foldl (fun acc (τ, r) =>
      let acc := if τ.1 = i then rowAdd acc r else acc
      let acc := if τ.2.1 = i then rowAdd acc r else acc
      if τ.2.2 = i then rowAdd acc r else acc) (rowZero cols))
    rowDiv acc ((3 : Nat) : K)

/-- `map_vfunc_to_tfunc`: `sum((vfunc/3)[t], axis=1)` -/
def v2t (ts : List Tri) (vf : List (List K)) : List (List K) :=
  let third := vf.map fun r => rowDiv r ((3 : Nat) : K)
  let get := fun i => third.getD i []
  ts.map fun τ => rowAdd (rowAdd (get τ.1) (get τ.2.1)) (get τ.2.2)

/-- stored pattern of the binarised `adj_sym`: distinct keys in CSC order is irrelevant for the row sums; row `i` -/
def rowNbrs (symKeys : List (Nat × Nat)) (i : Nat) : List Nat :=
  ((symKeys.eraseDups.filter fun k => k.1 == i).map (·.2)).mergeSort

/-- one application of the row-normalised operator of `smooth_vfunc`:
    `adj2[i,j] = 1*area_i`, `rowsum_i = Σ_j adj2[i,j]`, `w_ij = adj2[i,j] * (1/rowsum_i)`, `out_i = Σ_j w_ij f_j` -/
def smooth1 (symKeys : List (Nat × Nat)) (vareas : List K) (f : List (List K)) : List (List K) :=
  let cols := (f.headD []).length
  (List.range f.length).map fun i =>
    let nb := rowNbrs symKeys i
    let ai := vareas.getD i 0
    let rowsum := (nb.map fun _ => ((1 : Nat) : K) * ai).sum
    let inv := ((1 : Nat) : K) / rowsum
    nb.foldl (fun acc j => rowAdd acc (rowScale ((((1 : Nat) : K) * ai) * inv) (f.getD j []))) (rowZero cols)

/-- `smooth_vfunc(vfunc, n)`: one application, then `n-1` more (so `n = 0` also applies once) -/
def smooth (symKeys : List (Nat × Nat)) (vareas : List K) (f : List (List K)) (n : Nat) : List (List K) :=
  (List.range (n - 1)).foldl (fun acc _ => smooth1 symKeys vareas acc) (smooth1 symKeys vareas f)

end Transfer
end LapyVerif
