import LapyVerif.Model.Topo
/-
  Model of the geometric measures of `lapy/tria_mesh.py` (+ `TetMesh.avg_edge_length`).
-/
namespace LapyVerif
namespace Measures
open V3

variable {K : Type} [Zero K] [Add K] [Sub K] [Mul K] [Div K] [Neg K] [NatCast K] [HasSqrt K]
variable [LT K] [DecidableRel (α := K) (· < ·)]

def c (n : Nat) : K := ((n : Nat) : K)

/-- `tria_areas` (Heron) for one triangle -/
def heron (v0 v1 v2 : V3 K) : K :=
  let a := sqrt (normSq (v1 - v0)); let b := sqrt (normSq (v2 - v1)); let cc := sqrt (normSq (v0 - v2))
  let ph := (c 1 / c 2) * (a + b + cc)
  sqrt (ph * (ph - a) * (ph - b) * (ph - cc))

def triAreas (vtx : Nat → V3 K) (ts : List Tri) : List K :=
  ts.map fun τ => heron (vtx τ.1) (vtx τ.2.1) (vtx τ.2.2)

def area (vtx : Nat → V3 K) (ts : List Tri) : K := (triAreas vtx ts).sum

/-- the divergence-theorem sum of `volume()` (without its guards) -/
def volumeSum (vtx : Nat → V3 K) (ts : List Tri) : K :=
  (ts.map fun τ =>
    let v0 := vtx τ.1; let v1 := vtx τ.2.1; let v2 := vtx τ.2.2
    dot v0 (cross (v1 - v0) (v2 - v0))).sum / c 6

/-- `volume()`: `0.0` if not closed, `ValueError` if closed but not oriented -/
def volume (vtx : Nat → V3 K) (ts : List Tri) : Except String K :=
  if !Topo.isClosed ts then .ok 0
  else if !Topo.isOriented ts then .error "ValueError"
  else .ok (volumeSum vtx ts)

/-- cross-product area `0.5*|cr|` used by `vertex_areas` and `centroid` -/
def crossArea (v0 v1 v2 : V3 K) : K := (c 1 / c 2) * sqrt (normSq (cross (v1 - v0) (v2 - v0)))

/-- `vertex_areas`: `bincount(t, area3)/3` — length `max index + 1` -/
def vertexAreas (vtx : Nat → V3 K) (ts : List Tri) : List K :=
  let n := (ts.foldl (fun m τ => max m (max τ.1 (max τ.2.1 τ.2.2) + 1)) 0)
  (List.range n).map fun i =>
    (ts.map fun τ =>
      let a := crossArea (vtx τ.1) (vtx τ.2.1) (vtx τ.2.2)
      (if τ.1 = i then a else 0) + (if τ.2.1 = i then a else 0) + (if τ.2.2 = i then a else 0)).sum / c 3

/-- distinct undirected edges `(i,j)`, `i<j` — the stored entries of `triu(adj_sym, 1)` -/
def undirectedEdges (symKeys : List (Nat × Nat)) : List (Nat × Nat) :=
  (symKeys.filter fun k => k.1 < k.2).eraseDups

def avgEdgeLength (vtx : Nat → V3 K) (ts : List Tri) : K :=
  meanL ((undirectedEdges (Topo.symKeys ts)).map fun k => sqrt (normSq (vtx k.1 - vtx k.2)))

/-- `ln[ln < eps] = 1` -/
def guard1 (x : K) : K := if x < epsK then c 1 else x

def triNormal (v0 v1 v2 : V3 K) : V3 K :=
  let n := cross (v1 - v0) (v2 - v0)
  let ln := guard1 (sqrt (normSq n))
  ⟨n.x / ln, n.y / ln, n.z / ln⟩

def triNormals (vtx : Nat → V3 K) (ts : List Tri) : List (V3 K) :=
  ts.map fun τ => triNormal (vtx τ.1) (vtx τ.2.1) (vtx τ.2.2)

/-- accumulated (area-weighted) corner normals of `vertex_normals`, before normalisation -/
def vertexNormalAcc (vtx : Nat → V3 K) (ts : List Tri) (i : Nat) : V3 K :=
  ts.foldl (fun acc τ =>
    let v0 := vtx τ.1; let v1 := vtx τ.2.1; let v2 := vtx τ.2.2
    let cr0 := cross (v1 - v0) (-(v0 - v2)); let cr1 := cross (v2 - v1) (-(v1 - v0)); let cr2 := cross (v0 - v2) (-(v2 - v1))
    let acc := if τ.1 = i then acc + cr0 else acc
    let acc := if τ.2.1 = i then acc + cr1 else acc
    if τ.2.2 = i then acc + cr2 else acc) ⟨0, 0, 0⟩

/-- `vertex_normals`; `none` = ValueError (not oriented) -/
def vertexNormals (nv : Nat) (vtx : Nat → V3 K) (ts : List Tri) : Option (List (V3 K)) :=
  if !Topo.isOriented ts then none
  else some <| (List.range nv).map fun i =>
    let n := vertexNormalAcc vtx ts i
    let ln := guard1 (sqrt (normSq n))
    ⟨n.x / ln, n.y / ln, n.z / ln⟩

/-- `tria_qualities`: `2*sqrt(3)*|n| / (sum of squared edge lengths)` -/
def triQuality (v0 v1 v2 : V3 K) : K :=
  let n := cross (v1 - v0) (-(v0 - v2))
  let ln := sqrt (normSq n)
  let q := c 2 * sqrt (c 3) * ln
  let es := normSq (v1 - v0) + normSq (v2 - v1) + normSq (v0 - v2)
  q / es

def triQualities (vtx : Nat → V3 K) (ts : List Tri) : List K :=
  ts.map fun τ => triQuality (vtx τ.1) (vtx τ.2.1) (vtx τ.2.2)

/-- `centroid()` → (centroid, total area) -/
def centroid (vtx : Nat → V3 K) (ts : List Tri) : V3 K × K :=
  let areas := ts.map fun τ =>
    (c 1 / c 2) * sqrt (normSq (cross (vtx τ.2.2 - vtx τ.2.1) (vtx τ.1 - vtx τ.2.2)))
  let total := areas.sum
  let cs := (ts.zip areas).map fun (τ, a) =>
    let w := a / total
    let ctr := smul (c 1 / c 3) (vtx τ.1 + vtx τ.2.1 + vtx τ.2.2)
    smul w ctr     -- `centers * areas[:, newaxis]`
  (cs.foldl (· + ·) ⟨0, 0, 0⟩, total)

/-- `normalize_`: `v ↦ (1/sqrt(area)) * (v - centroid)` -/
def normalize (verts : List (V3 K)) (vtx : Nat → V3 K) (ts : List Tri) : List (V3 K) :=
  let (ctr, a) := centroid vtx ts
  let s := c 1 / sqrt a
  verts.map fun v => smul s (v - ctr)

/-- `normal_offset_(d)`: `v + d * n`; `none` = ValueError -/
def normalOffset (d : K) (verts : List (V3 K)) (vtx : Nat → V3 K) (ts : List Tri) : Option (List (V3 K)) :=
  match vertexNormals verts.length vtx ts with
  | none => none
  | some ns => some <| (verts.zip ns).map fun (v, n) => v + smul d n

/-- `TetMesh.avg_edge_length` : keys of `TetMesh.construct_adj_sym` -/
def tetSymKeys (ts : List Tet) : List (Nat × Nat) :=
  ts.flatMap fun (t1, t2, t3, t4) =>
    [(t1, t2), (t2, t1), (t2, t3), (t3, t2), (t3, t1), (t1, t3), (t1, t4), (t2, t4), (t3, t4), (t4, t1), (t4, t2), (t4, t3)]

def tetAvgEdgeLength (vtx : Nat → V3 K) (ts : List Tet) : K :=
  meanL ((undirectedEdges (tetSymKeys ts)).map fun k => sqrt (normSq (vtx k.1 - vtx k.2)))

end Measures
end LapyVerif
