import LapyVerif.Model.Fem
/-
  Model of `Solver.poisson(h, dtup, ntup)`: validation, right-hand side `B(h − n) − A d`, elimination of the Dirichlet
  rows/columns, external solve, re-insertion of the Dirichlet values.  The sparse LU solve is a parameter.
-/
namespace LapyVerif
namespace Poisson

variable {K : Type} [Zero K] [Add K] [Sub K] [Mul K]

/-- scatter `(idx, dat)` into a vector (`csc_matrix((dat,(idx,0)),(dim,1))`: duplicates are summed) -/
def scatter (idx : List Nat) (dat : List K) (i : Nat) : K :=
  (((idx.zip dat).filter fun p => p.1 == i).map (·.2)).sum

inductive Check where
  | ok
  | valueError
deriving Repr, DecidableEq

/-- the argument checks on `dtup` / `ntup` (tuple length, uniqueness, equal positive lengths) -/
def checkD (tupLen : Nat) (didx : List Nat) (nddat : Nat) : Check :=
  if tupLen == 0 then .ok
  else if tupLen != 2 then .valueError
  else if didx.eraseDups.length != didx.length then .valueError
  else if !(didx.length > 0 && didx.length == nddat) then .valueError
  else .ok

def checkN (tupLen : Nat) (nnidx nndat : Nat) : Check :=
  if tupLen == 0 then .ok
  else if tupLen != 2 then .valueError
  else if !(nnidx > 0 && nnidx == nndat) then .valueError
  else .ok

/-- `b = B(h − n) − A d` (the second term only with Dirichlet data) -/
def rhs (A B : Coo K) (h nvec dvec : Nat → K) (hasD : Bool) (i : Nat) : K :=
  let b := Coo.mulVec B (fun j => h j - nvec j) i
  if hasD then b - Coo.mulVec A dvec i else b

/-- indices kept by `mask` (ascending) -/
def freeIdx (dim : Nat) (didx : List Nat) : List Nat := (List.range dim).filter fun i => !didx.contains i

/-- the reduced matrix `A[mask][:, mask]` as triplets over the new numbering -/
def reduce (A : Coo K) (free : List Nat) : Coo K :=
  A.filterMap fun e =>
    match free.idxOf? e.1.1, free.idxOf? e.1.2 with
    | some i, some j => some ((i, j), e.2)
    | _, _ => none

/-- `xfull[mask] = x; xfull[didx] = ddat` -/
def fill (dim : Nat) (didx : List Nat) (ddat : List K) (free : List Nat) (x : List K) : List K :=
  (List.range dim).map fun i =>
    match didx.idxOf? i with
    | some k => ddat.getD k 0
    | none => match free.idxOf? i with
      | some k => x.getD k 0
      | none => 0

/-- the linear system handed to the sparse solver: kept indices, matrix, right-hand side; `none` = ValueError -/
def system (A B : Coo K) (dim : Nat) (h : Nat → K)
    (dLen : Nat) (didx : List Nat) (ddat : List K) (nLen : Nat) (nidx : List Nat) (ndat : List K) :
    Option (List Nat × Coo K × List K) :=
  if checkD dLen didx ddat.length != .ok || checkN nLen nidx.length ndat.length != .ok then none
  else
    let dvec := scatter didx ddat
    let nvec := if nLen == 0 then (fun _ => (0 : K)) else scatter nidx ndat
    let hasD := didx.length > 0
    let b := rhs A B h nvec dvec hasD
    if hasD then
      let free := freeIdx dim didx
      some (free, reduce A free, free.map b)
    else
      some (List.range dim, A, (List.range dim).map b)

/-- the whole routine with an external `solve`; `none` = ValueError -/
def run (solve : Coo K → List K → List K) (A B : Coo K) (dim : Nat) (h : Nat → K)
    (dLen : Nat) (didx : List Nat) (ddat : List K) (nLen : Nat) (nidx : List Nat) (ndat : List K) : Option (List K) :=
  (system A B dim h dLen didx ddat nLen nidx ndat).map fun (free, a, b) =>
    if didx.length > 0 then fill dim didx ddat free (solve a b) else solve a b

/-- the identity "mass matrix" substituted by `compute_geodesic_f` / `compute_rotated_f` -/
def eye (dim : Nat) [NatCast K] : Coo K := (List.range dim).map fun i => ((i, i), ((1 : Nat) : K))

end Poisson
end LapyVerif
