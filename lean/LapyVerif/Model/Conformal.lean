import LapyVerif.Model.Mesh
/-
  Model of the building blocks of `lapy/conformal.py`: stereographic projection pair, Möbius maps, the Beltrami
  coefficient of a planar mesh mapped into space, the generalised Laplacian of `linear_beltrami_solver` with landmark
  elimination.  Complex numbers are pairs `(re, im)`.
-/
namespace LapyVerif
namespace Conformal
open V3

variable {K : Type} [Zero K] [Add K] [Sub K] [Mul K] [Div K] [Neg K] [NatCast K]

abbrev C (K : Type) := K × K
def cadd (a b : C K) : C K := (a.1 + b.1, a.2 + b.2)
def csub (a b : C K) : C K := (a.1 - b.1, a.2 - b.2)
def cmul (a b : C K) : C K := (a.1 * b.1 - a.2 * b.2, a.1 * b.2 + a.2 * b.1)
def cdiv (a b : C K) : C K :=
  let d := b.1 * b.1 + b.2 * b.2
  ((a.1 * b.1 + a.2 * b.2) / d, (a.2 * b.1 - a.1 * b.2) / d)

def one : K := ((1 : Nat) : K)
def two : K := ((2 : Nat) : K)

/-- `stereographic(u)`: north-pole projection `(x + iy)/(1 − z)` -/
def stereo (u : V3 K) : C K := (u.x / (one - u.z), u.y / (one - u.z))

/-- `inverse_stereographic` -/
def invStereo (w : C K) : V3 K :=
  let z := one + w.1 * w.1 + w.2 * w.2
  ⟨two * w.1 / z, two * w.2 / z, (-one + w.1 * w.1 + w.2 * w.2) / z⟩

/-- the south-pole projection used in `spherical_conformal_map`: `(x + iy)/(1 + z)` -/
def stereoSouth (u : V3 K) : C K := (u.x / (one + u.z), u.y / (one + u.z))

/-- final step of `spherical_conformal_map` (after repair F10): inverse projection with `z` negated -/
def invStereoSouth (w : C K) : V3 K := let p := invStereo w; ⟨p.x, p.y, -p.z⟩

/-- `((x0+ix1) z + (x2+ix3)) / ((x4+ix5) z + (x6+ix7))` -/
def mobius (a b c d : C K) (z : C K) : C K := cdiv (cadd (cmul a z) b) (cadd (cmul c z) d)

variable [HasSqrt K]

/-- `beltrami_coefficient` on one triangle with planar corners `p0 p1 p2` (x,y) mapped to `m0 m1 m2` in space -/
def beltrami1 (p0 p1 p2 : C K) (m0 m1 m2 : V3 K) : C K :=
  let e0 := csub p2 p1; let e1 := csub p0 p2; let e2 := csub p1 p0
  let areas2 := e0.1 * e1.2 - e0.2 * e1.1
  let dx := fun (f0 f1 f2 : K) => (e0.2 / areas2) * f0 + (e1.2 / areas2) * f1 + (e2.2 / areas2) * f2
  let dy := fun (f0 f1 f2 : K) => (-(e0.1 / areas2)) * f0 + (-(e1.1 / areas2)) * f1 + (-(e2.1 / areas2)) * f2
  let xu := dx m0.x m1.x m2.x; let xv := dy m0.x m1.x m2.x
  let yu := dx m0.y m1.y m2.y; let yv := dy m0.y m1.y m2.y
  let zu := dx m0.z m1.z m2.z; let zv := dy m0.z m1.z m2.z
  let E := xu * xu + yu * yu + zu * zu
  let G := xv * xv + yv * yv + zv * zv
  let F := xu * xv + yu * yv + zu * zv
  let den := E + G + two * sqrt (E * G - F * F)
  ((E - G) / den, (two * F) / den)

/-- per-triangle block of the generalised Laplacian of `linear_beltrami_solver` (triplets in the code's order) -/
def lbsBlock (τ : Tri) (p0 p1 p2 : C K) (mu : C K) : Coo K :=
  let (t0, t1, t2) := τ
  let n2 := mu.1 * mu.1 + mu.2 * mu.2           -- |mu|^2  (np.abs(mu)**2)
  let af := (one - two * mu.1 + n2) / (one - n2)
  let bf := -two * mu.2 / (one - n2)
  let gf := (one + two * mu.1 + n2) / (one - n2)
  let ux0 := p1.2 - p2.2; let uy0 := p2.1 - p1.1
  let ux1 := p2.2 - p0.2; let uy1 := p0.1 - p2.1
  let ux2 := p0.2 - p1.2; let uy2 := p1.1 - p0.1
  let c0 := sqrt (ux0 * ux0 + uy0 * uy0); let c1 := sqrt (ux1 * ux1 + uy1 * uy1); let c2 := sqrt (ux2 * ux2 + uy2 * uy2)
  let s := (one / two) * (c0 + c1 + c2)
  let area2 := two * sqrt (s * (s - c0) * (s - c1) * (s - c2))
  let v00 := (af * ux0 * ux0 + two * bf * ux0 * uy0 + gf * uy0 * uy0) / area2
  let v11 := (af * ux1 * ux1 + two * bf * ux1 * uy1 + gf * uy1 * uy1) / area2
  let v22 := (af * ux2 * ux2 + two * bf * ux2 * uy2 + gf * uy2 * uy2) / area2
  let v01 := (af * ux1 * ux0 + bf * ux1 * uy0 + bf * ux0 * uy1 + gf * uy1 * uy0) / area2
  let v12 := (af * ux2 * ux1 + bf * ux2 * uy1 + bf * ux1 * uy2 + gf * uy2 * uy1) / area2
  let v20 := (af * ux0 * ux2 + bf * ux0 * uy2 + bf * ux2 * uy0 + gf * uy0 * uy2) / area2
  [((t0, t0), v00), ((t1, t1), v11), ((t2, t2), v22), ((t0, t1), v01), ((t1, t0), v01), ((t1, t2), v12), ((t2, t1), v12),
   ((t2, t0), v20), ((t0, t2), v20)]

def lbsMatrix (pl : Nat → C K) (ts : List Tri) (mus : List (C K)) : Coo K :=
  List.flatten <| (ts.zip mus).map fun (τ, mu) => lbsBlock τ (pl τ.1) (pl τ.2.1) (pl τ.2.2) mu

/-- landmark elimination: rows and columns of the landmarks are zeroed, their diagonal set to 1 -/
def lbsEliminate (A : Coo K) (landmark : List Nat) : Coo K :=
  (A.filter fun e => !landmark.contains e.1.1 && !landmark.contains e.1.2) ++ landmark.map fun l => ((l, l), one)

/-- right-hand side (real or imaginary part): `b = -A[:, landmark]·target`, `b[landmark] = target` -/
def lbsRhs (A : Coo K) (nv : Nat) (landmark : List Nat) (target : List K) : List K :=
  (List.range nv).map fun i =>
    match landmark.idxOf? i with
    | some k => target.getD k 0
    | none => -(((A.filter fun e => e.1.1 == i).map fun e =>
        match landmark.idxOf? e.1.2 with
        | some k => e.2 * target.getD k 0
        | none => 0).sum)

/-- `spherical_conformal_map` rejects every mesh whose Euler characteristic is not 2 -/
def eulerGuard (euler : Int) : Except String Unit := if euler != 2 then .error "ValueError" else .ok ()

/-- `fixnum = max(round(nv/10), 3)` — Python rounds half to even -/
def fixnum (nv : Nat) : Nat :=
  let q := nv / 10; let r := nv % 10
  let rounded := if r < 5 then q else if r > 5 then q + 1 else (if q % 2 == 0 then q else q + 1)
  max rounded 3

end Conformal
end LapyVerif
