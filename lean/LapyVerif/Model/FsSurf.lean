/-
  Model of the FreeSurfer *binary* triangle-surface format (C14, last part).

  Reader: `lapy/_read_geometry.py` (`_fread3`, `read_geometry` with `read_metadata=True`, `_read_volume_info`), as called by
  `read_fssurf`.  Writer: nibabel's `write_geometry` + `_serialize_volume_info` — not LaPy code, it is the *format
  definition* here.

  A file is a list of bytes.  float32 coordinates are their 32-bit patterns (`UInt32`): the model never interprets them.
  int32 values are decoded two's complement (`Int`), as numpy returns them.  Text (stamp, footer values) stays text: byte
  lists, numbers inside the footer are NOT parsed (`astype(int/float)` is not modelled), only the `key = value` structure
  is checked exactly as the code does.

  Modelled numpy facts (checked against numpy 2.4): `np.fromfile(f, dt, count)` returns the complete items that are
  available, at most `count`; a *negative* count means "all that is left"; a short read consumes the trailing partial
  item; `vnum * 3` is int32 arithmetic and wraps; `reshape(n, 3)` demands `3·n` items for `n ≥ 0` and a multiple of 3 for
  negative `n` (any negative entry is the "unknown" dimension).

  Scope: text is decoded as UTF-8 by the code; the model covers ASCII text.  If a byte `≥ 128` occurs in a text part that
  the code decodes (the stamp line, a footer line that is read), the model answers `nonAscii` (Python: either a
  `UnicodeDecodeError` — a `ValueError` — or a decoded non-ASCII string, whose `strip()/split()` use Unicode white space).
-/
namespace LapyVerif
namespace FsSurf

abbrev Bytes := List UInt8

/-! ### big-endian 32-bit words -/

/-- the four big-endian bytes of `n mod 2^32` -/
def be32 (n : Nat) : Bytes :=
  [(n / 16777216 % 256).toUInt8, (n / 65536 % 256).toUInt8, (n / 256 % 256).toUInt8, (n % 256).toUInt8]

def dec32 (a b c d : UInt8) : Nat := a.toNat * 16777216 + b.toNat * 65536 + c.toNat * 256 + d.toNat

/-- two's complement reading of a 32-bit pattern -/
def toI32 (n : Nat) : Int := if n < 2147483648 then (n : Int) else (n : Int) - 4294967296

/-- the 32-bit pattern of an integer (`astype('>i4')` wraps) -/
def patI32 (z : Int) : Nat := (z % 4294967296).toNat

def encI32 (z : Int) : Bytes := be32 (patI32 z)

/-- int32 arithmetic wraps -/
def wrap32 (z : Int) : Int := toI32 (patI32 z)

/-- all complete 4-byte items -/
def items : Bytes → List Nat
  | a :: b :: c :: d :: r => dec32 a b c d :: items r
  | _ => []

/-- up to `n` items; a short read consumes everything (also a trailing partial item) -/
def takeItems : Nat → Bytes → List Nat × Bytes
  | 0, bs => ([], bs)
  | n + 1, a :: b :: c :: d :: r => let (l, rest) := takeItems n r; (dec32 a b c d :: l, rest)
  | _ + 1, _ => ([], [])

/-- `np.fromfile(fobj, ">i4" | ">f4", count)`: the items read (as 32-bit patterns) and the rest of the file -/
def fromfile (count : Int) (bs : Bytes) : List Nat × Bytes :=
  if count < 0 then (items bs, []) else takeItems count.toNat bs

/-! ### text -/

/-- `fobj.readline()`: up to and including the first byte 10, or to the end -/
def readline : Bytes → Bytes × Bytes
  | [] => ([], [])
  | b :: r => if b == 10 then ([10], r) else let (l, rest) := readline r; (b :: l, rest)

/-- `.rstrip(b"\n")` -/
def rstripNL (l : Bytes) : Bytes := (l.reverse.dropWhile (· == 10)).reverse

def isAscii (l : Bytes) : Bool := l.all (· < 128)

/-- `str.isspace` on ASCII: `\t \n \v \f \r`, `\x1c`–`\x1f`, blank -/
def isSpace (b : UInt8) : Bool := (9 ≤ b && b ≤ 13) || (28 ≤ b && b ≤ 32)

/-- `str.strip()` -/
def strip (l : Bytes) : Bytes := ((l.dropWhile isSpace).reverse.dropWhile isSpace).reverse

/-- pieces between the bytes satisfying `p` (`str.split("=")`: empty pieces kept); `cur` is the current piece reversed -/
def splitAt (p : UInt8 → Bool) : Bytes → Bytes → List Bytes
  | cur, [] => [cur.reverse]
  | cur, b :: r => if p b then cur.reverse :: splitAt p [] r else splitAt p (b :: cur) r

/-- `str.split()`: maximal runs of non-space bytes -/
def wsplit (l : Bytes) : List Bytes := (splitAt isSpace [] l).filter (· ≠ [])

/-- ASCII text as bytes -/
def ascii (s : String) : Bytes := s.toList.map fun c => c.toNat.toUInt8

/-! ### data -/

structure VolInfo where
  head : List Int
  valid : Bytes
  filename : Bytes
  volume : List Bytes
  voxelsize : List Bytes
  xras : List Bytes
  yras : List Bytes
  zras : List Bytes
  cras : List Bytes
deriving Repr, DecidableEq

structure Surf where
  stamp : Bytes
  /-- float32 bit patterns, row-major, 3 per vertex -/
  coords : List UInt32
  /-- 3 per face -/
  faces : List Int
  /-- `none` = the empty dict (`volume_info` absent / unknown extension code) -/
  info : Option VolInfo
deriving Repr, DecidableEq

inductive FsFail where
  | valueError     -- bad magic / fewer than 3 bytes; short coordinate or face block (`reshape`)
  | indexError     -- the file ends before `vnum` / `fnum`
  | osError        -- "Error parsing volume info."
  | nonAscii       -- outside the modelled fragment: a decoded text part contains a byte ≥ 128
deriving Repr, DecidableEq

/-! ### writer (nibabel `write_geometry`, `_serialize_volume_info`) -/

/-- `" ".join(tokens)` -/
def joinSp : List Bytes → Bytes
  | [] => []
  | [t] => t
  | t :: r => t ++ 32 :: joinSp r

/-- `f"{key} = {val}\n"` -/
def kvLine (key val : Bytes) : Bytes := key ++ ascii " = " ++ val ++ [10]

def writeInfo (vi : VolInfo) : Bytes :=
  vi.head.flatMap encI32 ++ kvLine (ascii "valid") vi.valid ++ kvLine (ascii "filename") vi.filename ++
  kvLine (ascii "volume") (joinSp vi.volume) ++ kvLine (ascii "voxelsize") (joinSp vi.voxelsize) ++
  kvLine (ascii "xras  ") (joinSp vi.xras) ++ kvLine (ascii "yras  ") (joinSp vi.yras) ++
  kvLine (ascii "zras  ") (joinSp vi.zras) ++ kvLine (ascii "cras  ") (joinSp vi.cras)

/-- the mesh part: magic, stamp line + empty line, counts, coordinates, faces -/
def writeMesh (s : Surf) : Bytes :=
  [255, 255, 254] ++ s.stamp ++ [10, 10] ++ encI32 (s.coords.length / 3 : Nat) ++ encI32 (s.faces.length / 3 : Nat) ++
  s.coords.flatMap (fun w => be32 w.toNat) ++ s.faces.flatMap encI32

def writeFs (s : Surf) : Bytes :=
  writeMesh s ++ (match s.info with | none => [] | some vi => writeInfo vi)

/-! ### reader -/

/-- `np.fromfile(fobj, dt, n * 3).reshape(n, 3)` with `n` an int32 scalar -/
def readBlock (n : Int) (bs : Bytes) : Except FsFail (List Nat × Bytes) :=
  let (l, rest) := fromfile (wrap32 (n * 3)) bs
  if 0 ≤ n then (if (l.length : Int) = 3 * n then .ok (l, rest) else .error .valueError)
  else (if l.length % 3 = 0 then .ok (l, rest) else .error .valueError)

/-- one `key = value` line of the footer: the right-hand side, if the line is well-formed -/
def parseKV (key : Bytes) (r : Bytes) : Except FsFail (Bytes × Bytes) :=
  let (line, rest) := readline r
  if !isAscii line then .error .nonAscii else
  match splitAt (· == 61) [] line with
  | [k, v] => if strip k = key then .ok (v, rest) else .error .osError
  | _ => .error .osError

/-- the eight key lines -/
def readInfoBody (head : List Int) (r : Bytes) : Except FsFail VolInfo := do
  let (v1, r) ← parseKV (ascii "valid") r
  let (v2, r) ← parseKV (ascii "filename") r
  let (v3, r) ← parseKV (ascii "volume") r
  let (v4, r) ← parseKV (ascii "voxelsize") r
  let (v5, r) ← parseKV (ascii "xras") r
  let (v6, r) ← parseKV (ascii "yras") r
  let (v7, r) ← parseKV (ascii "zras") r
  let (v8, _) ← parseKV (ascii "cras") r
  return { head := head, valid := strip v1, filename := strip v2, volume := wsplit v3, voxelsize := wsplit v4,
           xras := wsplit v5, yras := wsplit v6, zras := wsplit v7, cras := wsplit v8 }

/-- `_read_volume_info`; `none` = empty dict (end of file or unknown extension code) -/
def readVolInfo (r : Bytes) : Except FsFail (Option VolInfo) :=
  let (h1, r1) := fromfile 1 r
  if h1 = [20] then (readInfoBody [20] r1).map some
  else
    let (h2, r2) := fromfile 2 r1
    let h := h1 ++ h2
    if h = [2, 0, 20] ∨ h = [2, 1, 20] then (readInfoBody [2, 0, 20] r2).map some
    else .ok none

/-- `read_geometry(path, read_metadata=True)` -/
def readFs (bs : Bytes) : Except FsFail Surf :=
  match bs with
  | b1 :: b2 :: b3 :: r =>
    if !(b1 == 255 && b2 == 255 && b3 == 254) then .error .valueError else
    let (line, r) := readline r
    let stamp := rstripNL line
    if !isAscii stamp then .error .nonAscii else
    let r := match r with
      | 10 :: r' => r'          -- `peek(1)[:1] == b"\n"` → `readline()` consumes just that byte
      | _ => r
    match fromfile 1 r with
    | ([v], r) =>
      match fromfile 1 r with
      | ([f], r) =>
        match readBlock (toI32 v) r with
        | .error e => .error e
        | .ok (cs, r) =>
          match readBlock (toI32 f) r with
          | .error e => .error e
          | .ok (fs, r) =>
            match readVolInfo r with
            | .error e => .error e
            | .ok info => .ok { stamp := stamp, coords := cs.map (·.toUInt32), faces := fs.map toI32, info := info }
      | _ => .error .indexError
    | _ => .error .indexError
  | _ => .error .valueError

end FsSurf
end LapyVerif
