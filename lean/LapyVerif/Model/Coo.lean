import LapyVerif.Model.Scalar
/-
  What `scipy.sparse.csc_matrix((data, (i, j)))` receives: a list of `((i,j), value)` triplets.
  The constructor sums duplicates; `Coo.entry` is that meaning.
-/
namespace LapyVerif

abbrev Coo (K : Type) := List ((Nat × Nat) × K)

namespace Coo
variable {K : Type}


/-- stored value at `(i,j)` after duplicate summation (0 if no triplet has that key) -/
def entry [Zero K] [Add K] (m : Coo K) (i j : Nat) : K :=
  ((List.filter (fun e : (Nat × Nat) × K => e.1.1 == i && e.1.2 == j) m).map (·.2)).sum

/-- distinct keys in order of first appearance -/
def keys (m : Coo K) : List (Nat × Nat) :=
  (List.map (·.1) m).eraseDups

/-- `nnz` of the SciPy matrix: number of distinct keys (SciPy keeps explicit zeros after summation) -/
def nnz (m : Coo K) : Nat := (keys m).length

/-- `.data` of the SciPy matrix as an unordered collection: one summed value per distinct key -/
def data [Zero K] [Add K] (m : Coo K) : List K :=
  (keys m).map fun k => entry m k.1 k.2

/-- `f · M · g` -/
def form [Zero K] [Add K] [Mul K] (m : Coo K) (f g : Nat → K) : K :=
  (List.map (fun e : (Nat × Nat) × K => f e.1.1 * e.2 * g e.1.2) m).sum

/-- `(M g)_i` -/
def mulVec [Zero K] [Add K] [Mul K] (m : Coo K) (g : Nat → K) (i : Nat) : K :=
  ((List.filter (fun e : (Nat × Nat) × K => e.1.1 == i) m).map (fun e => e.2 * g e.1.2)).sum

def transpose (m : Coo K) : Coo K :=
  List.map (fun e : (Nat × Nat) × K => ((e.1.2, e.1.1), e.2)) m

/-- sum of all stored values (`M.sum()`) -/
def total [Zero K] [Add K] (m : Coo K) : K := (List.map (·.2) m).sum

end Coo
end LapyVerif
