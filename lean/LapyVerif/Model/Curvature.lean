import LapyVerif.Model.Measures
/-
  Model of the post-processing in `TriaMesh.curvature` (after the external `np.linalg.eig`) and of `curvature_tria`.
-/
namespace LapyVerif
namespace Curvature
open V3

variable {K : Type} [Zero K] [Add K] [Sub K] [Mul K] [Div K] [Neg K] [NatCast K] [HasSqrt K] [HasAbs K]
variable [LT K] [DecidableRel (α := K) (· < ·)]

structure Frame (K : Type) where
  umin : V3 K
  umax : V3 K
  cmin : K
  cmax : K
  cmean : K
  cgauss : K
  normal : V3 K

/-- stable ascending argsort of three keys (what `np.argsort` does on length-3 rows) -/
def argsort3 (k0 k1 k2 : K) : Nat × Nat × Nat :=
  -- insertion sort of [(k0,0),(k1,1),(k2,2)], stable
  let ins (x : K × Nat) (l : List (K × Nat)) : List (K × Nat) :=
    let rec go : List (K × Nat) → List (K × Nat)
      | [] => [x]
      | y :: ys => if x.1 < y.1 then x :: y :: ys else y :: go ys
    go l
  match ins (k2, 2) (ins (k1, 1) (ins (k0, 0) [])) with
  | [a, b, c] => (a.2, b.2, c.2)
  | _ => (0, 1, 2)

def sgn (x : K) : K := if x < 0 then -((1 : Nat) : K) else if 0 < x then ((1 : Nat) : K) else 0

/-- one vertex: eigenvalues `ev j`, eigenvectors `evec j` (columns of LAPACK's output), vertex normal `vn` -/
def post (ev : Nat → K) (evec : Nat → V3 K) (vn : V3 K) : Frame K :=
  let key := fun j => -(HasAbs.abs (dot (evec j) vn))
  let (i0, i1, i2) := argsort3 (key 0) (key 1) (key 2)
  let umin := evec i2; let umax := evec i1
  let cmin := ev i1; let cmax := ev i2
  let normals := evec i0
  let cmean := (cmin + cmax) / ((2 : Nat) : K)
  let cgauss := cmin * cmax
  -- enforce min < max
  let swap := decide (cmax < cmin)
  let (cmin, cmax, umin, umax) := if swap then (cmax, cmin, umax, umin) else (cmin, cmax, umin, umax)
  let s := sgn (dot normals vn)
  let normals := smul s normals
  let d := dot (cross umin umax) normals
  let umax := if d < 0 then -umax else umax
  { umin := umin, umax := umax, cmin := cmin, cmax := cmax, cmean := cmean, cgauss := cgauss, normal := normals }

/-- `np.maximum(x, 1e-8)` -/
def floor8 (x : K) : K :=
  let e : K := ((1 : Nat) : K) / ((100000000 : Nat) : K)
  if x < e then e else x

/-- `curvature_tria` for one triangle: pooled minimum direction `tumin`, projected to the triangle plane and normalised;
    the second direction is `tn × tumin2` -/
def triaDirs (v0 v1 v2 tumin : V3 K) : V3 K × V3 K :=
  let tn0 := cross (v1 - v0) (v2 - v0)
  let tnl := floor8 (sqrt (normSq tn0))
  let tn : V3 K := ⟨tn0.x / tnl, tn0.y / tnl, tn0.z / tnl⟩
  let p := tumin - smul (dot tn tumin) tn
  let pl := floor8 (sqrt (normSq p))
  let u1 : V3 K := ⟨p.x / pl, p.y / pl, p.z / pl⟩
  (u1, cross tn u1)

end Curvature
end LapyVerif
