import LapyVerif.Generated.Dispatch
/-
  Bridge: dispatch on the NAME of the geometry's type, observed on the real code with recording kernels: `compute_gradient`,
  `compute_divergence`, `compute_rotated_f` (lapy/diffgeo.py) and `Solver.__init__` (lapy/solver.py) hand the geometry and the argument (resp.
  the `lump` flag) to the kernel of the right mesh kind, pass its result on unchanged, and raise `ValueError` — before any kernel is called —
  for every other object — also for objects whose type name merely resembles a supported one (`Mesh`, `Tria`, `Tet`, `TriaMesh2`, `triamesh`) —
  and for `compute_rotated_f` of a tetrahedral mesh.
-/
namespace LapyVerif.Bridge
open LapyVerif

theorem dispatch_facts : Gen.Dispatch.facts =
    [("compute_gradient(TriaMesh)", "-> tria_compute_gradient(geom, arg), result passed on"),
     ("compute_gradient(TetMesh)", "-> tet_compute_gradient(geom, arg), result passed on"),
     ("compute_gradient(VoxelGrid)", "ValueError"),
     ("compute_gradient(Mesh)", "ValueError"),
     ("compute_gradient(Tria)", "ValueError"),
     ("compute_gradient(Tet)", "ValueError"),
     ("compute_gradient(TriaMesh2)", "ValueError"),
     ("compute_gradient(triamesh)", "ValueError"),
     ("compute_divergence(TriaMesh)", "-> tria_compute_divergence(geom, arg), result passed on"),
     ("compute_divergence(TetMesh)", "-> tet_compute_divergence(geom, arg), result passed on"),
     ("compute_divergence(VoxelGrid)", "ValueError"),
     ("compute_divergence(Mesh)", "ValueError"),
     ("compute_divergence(Tria)", "ValueError"),
     ("compute_divergence(Tet)", "ValueError"),
     ("compute_divergence(TriaMesh2)", "ValueError"),
     ("compute_divergence(triamesh)", "ValueError"),
     ("compute_rotated_f(TriaMesh)", "-> tria_compute_rotated_f(geom, arg), result passed on"),
     ("compute_rotated_f(TetMesh)", "ValueError"),
     ("compute_rotated_f(VoxelGrid)", "ValueError"),
     ("compute_rotated_f(Mesh)", "ValueError"),
     ("compute_rotated_f(Tria)", "ValueError"),
     ("compute_rotated_f(Tet)", "ValueError"),
     ("compute_rotated_f(TriaMesh2)", "ValueError"),
     ("compute_rotated_f(triamesh)", "ValueError"),
     ("Solver(TriaMesh, lump=False)", "-> _fem_tria(geom, lump), stiffness / mass = its outputs: True"),
     ("Solver(TriaMesh, lump=True)", "-> _fem_tria(geom, lump), stiffness / mass = its outputs: True"),
     ("Solver(TetMesh, lump=False)", "-> _fem_tetra(geom, lump), stiffness / mass = its outputs: True"),
     ("Solver(TetMesh, lump=True)", "-> _fem_tetra(geom, lump), stiffness / mass = its outputs: True"),
     ("Solver(VoxelGrid, lump=False)", "ValueError"),
     ("Solver(VoxelGrid, lump=True)", "ValueError"),
     ("Solver(Mesh, lump=False)", "ValueError"),
     ("Solver(Mesh, lump=True)", "ValueError"),
     ("Solver(Tria, lump=False)", "ValueError"),
     ("Solver(Tria, lump=True)", "ValueError"),
     ("Solver(Tet, lump=False)", "ValueError"),
     ("Solver(Tet, lump=True)", "ValueError"),
     ("Solver(TriaMesh2, lump=False)", "ValueError"),
     ("Solver(TriaMesh2, lump=True)", "ValueError"),
     ("Solver(triamesh, lump=False)", "ValueError"),
     ("Solver(triamesh, lump=True)", "ValueError")] := by
  decide

end LapyVerif.Bridge
