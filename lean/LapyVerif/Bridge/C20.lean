import LapyVerif.Generated.Effects
import LapyVerif.Props.C20
/-
  Bridge of C20: obligations on the effect table extracted from `/repo` (which methods write `t`, which re-run the
  constructor, which public functions write through a parameter), and the history theorems instantiated with it.
-/
namespace LapyVerif.Bridge
open LapyVerif Props.C20 History

/-- every `TriaMesh` method whose effect can change the triangles re-runs the constructor -/
theorem tri_table_ok : TriTableOk Gen.Effects.rebTri := by unfold TriTableOk; decide

theorem tet_table_ok : TetTableOk Gen.Effects.rebTet := by unfold TetTableOk; decide

/-- syntactically: a method that stores into `self.t` (directly or through an alias) re-runs the constructor -/
theorem writers_reinit :
    (∀ e ∈ Gen.Effects.triTable, e.2.1 = true → e.2.2.2 = true) ∧ (∀ e ∈ Gen.Effects.tetTable, e.2.1 = true → e.2.2.2 = true) := by
  decide

/-- the vertex-only mutators do not store into `self.t` -/
theorem vertex_only :
    ∀ e ∈ Gen.Effects.triTable, (e.1 = "normalize_" ∨ e.1 = "smooth_" ∨ e.1 = "normal_offset_") → e.2.1 = false := by
  decide

/-- all six in-place operations of the model exist in the source -/
theorem ops_present :
    ∀ n ∈ ["orient_", "refine_", "rm_free_vertices_", "normalize_", "smooth_", "normal_offset_"],
      (Gen.Effects.triTable.find? fun e => e.1 == n).isSome = true := by
  decide

/-- no public function or method without trailing underscore writes through a parameter -/
theorem purity_table : Gen.Effects.impure = [] := by decide

variable {K : Type} [Zero K] [Add K] [Sub K] [Mul K] [Div K] [Neg K] [NatCast K] [HasSqrt K]
variable [LT K] [DecidableRel (α := K) (· < ·)]

/-- **C20 for the source as it is now**: after any history of in-place operations on a constructed triangle mesh the
    cached adjacency is what the constructor would compute -/
theorem tri_history (v : List (V3 K)) (t : List Tri) (ops : List (TriOp K)) :
    TriInv (triRun Gen.Effects.rebTri (TriState.fresh v t) ops) :=
  inv_from_ctor _ tri_table_ok v t ops

theorem tet_history (v : List (V3 K)) (t : List Tet) (ops : List TetOp) :
    TetInv (tetRun Gen.Effects.rebTet (TetState.fresh v t) ops) :=
  tet_inv_history _ tet_table_ok _ (show TetInv (TetState.fresh v t) from rfl) ops

end LapyVerif.Bridge
