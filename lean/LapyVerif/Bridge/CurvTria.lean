import LapyVerif.Lemmas.BridgeTac
import LapyVerif.Model.Curvature
import LapyVerif.Generated.CurvTria
/-
  Bridge: `TriaMesh.curvature_tria` (lapy/tria_mesh.py), traced on the boundary of a generic tetrahedron with a symbolic
  per-vertex output of `curvature()`, is the model's `Curvature.triaDirs` applied to the pooled (corner-mean) minimum direction;
  the pooled curvatures are the corner means; `smoothit` is passed on to `curvature()`.
  (`Props/C17.curvTria_frame` proves that these two directions are unit, orthogonal and in the triangle plane.)
-/
set_option linter.unusedTactic false
set_option linter.unusedSimpArgs false
namespace LapyVerif.Bridge
open LapyVerif

theorem proj_eq (a n : V3 ℝ) :
    a - V3.smul (V3.dot n a) n = ⟨a.x - n.x * V3.dot n a, a.y - n.y * V3.dot n a, a.z - n.z * V3.dot n a⟩ := by
  ext <;> (v3_flat; ring)

theorem curv_tria_umin (v0 v1 v2 v3 p0 p1 p2 p3 q0 q1 q2 q3 : V3 ℝ) (c0 c1 c2 c3 e0 e1 e2 e3 : ℝ)
    (h : Gen.CurvTria.pc v0 v1 v2 v3 p0 p1 p2 p3 q0 q1 q2 q3 c0 c1 c2 c3 e0 e1 e2 e3) :
    (let tm : V3 ℝ := ⟨p0.x / 3 + p1.x / 3 + p2.x / 3, p0.y / 3 + p1.y / 3 + p2.y / 3, p0.z / 3 + p1.z / 3 + p2.z / 3⟩
     let d := Curvature.triaDirs v0 v1 v2 tm
     [d.1.x, d.1.y, d.1.z]) = Gen.CurvTria.umin0 v0 v1 v2 v3 p0 p1 p2 p3 q0 q1 q2 q3 c0 c1 c2 c3 e0 e1 e2 e3 := by
  have h1 := h.1
  have h5 := h.2.2.2.2.1
  simp only [Gen.CurvTria.pc, ge_iff_le] at h1 h5
  simp only [Curvature.triaDirs, Curvature.floor8, proj_eq, Gen.CurvTria.umin0, Gen.CurvTria.umin0_0, Gen.CurvTria.umin0_1, Gen.CurvTria.umin0_2]
  v3_flat
  push_cast
  rw [if_neg (not_lt.mpr h1)]
  rw [if_neg (not_lt.mpr h5)]

theorem curv_tria_umax (v0 v1 v2 v3 p0 p1 p2 p3 q0 q1 q2 q3 : V3 ℝ) (c0 c1 c2 c3 e0 e1 e2 e3 : ℝ)
    (h : Gen.CurvTria.pc v0 v1 v2 v3 p0 p1 p2 p3 q0 q1 q2 q3 c0 c1 c2 c3 e0 e1 e2 e3) :
    (let tm : V3 ℝ := ⟨p0.x / 3 + p1.x / 3 + p2.x / 3, p0.y / 3 + p1.y / 3 + p2.y / 3, p0.z / 3 + p1.z / 3 + p2.z / 3⟩
     let d := Curvature.triaDirs v0 v1 v2 tm
     [d.2.x, d.2.y, d.2.z]) = Gen.CurvTria.umax0 v0 v1 v2 v3 p0 p1 p2 p3 q0 q1 q2 q3 c0 c1 c2 c3 e0 e1 e2 e3 := by
  have h1 := h.1
  have h5 := h.2.2.2.2.1
  simp only [Gen.CurvTria.pc, ge_iff_le] at h1 h5
  simp only [Curvature.triaDirs, Curvature.floor8, proj_eq, Gen.CurvTria.umax0, Gen.CurvTria.umax0_0, Gen.CurvTria.umax0_1, Gen.CurvTria.umax0_2]
  v3_flat
  push_cast
  rw [if_neg (not_lt.mpr h1)]
  rw [if_neg (not_lt.mpr h5)]

/-- the pooled curvature values are the corner means of `c_min` / `c_max` -/
theorem curv_tria_c (v0 v1 v2 v3 p0 p1 p2 p3 q0 q1 q2 q3 : V3 ℝ) (c0 c1 c2 c3 e0 e1 e2 e3 : ℝ) :
    Gen.CurvTria.cmin0 v0 v1 v2 v3 p0 p1 p2 p3 q0 q1 q2 q3 c0 c1 c2 c3 e0 e1 e2 e3 = c0 / 3 + c1 / 3 + c2 / 3 ∧
    Gen.CurvTria.cmax0 v0 v1 v2 v3 p0 p1 p2 p3 q0 q1 q2 q3 c0 c1 c2 c3 e0 e1 e2 e3 = e0 / 3 + e1 / 3 + e2 / 3 := by
  simp only [Gen.CurvTria.cmin0, Gen.CurvTria.cmax0, and_self]

/-- `curvature_tria(smoothit)` calls `curvature(smoothit)` exactly once -/
theorem curv_tria_smooth : Gen.CurvTria.smoothSeen = [5] := by decide


/-! ### census of data-dependent decisions: the traced code took exactly the branches the model knows about -/
theorem census_CurvTria_pcCount : Gen.CurvTria.pcCount = 8 := rfl

end LapyVerif.Bridge
