import LapyVerif.Bridge.Measures
import LapyVerif.Props.C19
/-
  Bridge (continued): `centroid()` (vector part) and `normalize_()` traced on the boundary of a generic tetrahedron are
  the model's.  Structured proof: the model side is first brought to the "area-weighted mean of the triangle centres"
  form by `C19.centroid_fst`; after flattening the vectors the four square roots are the same atoms on both sides, so a
  single `ring` (no normalisation under the roots) closes each coordinate.
-/
namespace LapyVerif.Bridge
open LapyVerif

theorem meas_centroid_x (v0 v1 v2 v3 : V3 ℝ) :
    (Measures.centroid (vtx4 v0 v1 v2 v3) T4).1.x = Gen.Measures.centroid_0 v0 v1 v2 v3 := by
  rw [(Props.C19.centroid_fst _ _).1]
  simp only [T4, List.map, List.sum_cons, List.sum_nil, Props.C19.cTerm, Props.C19.totalC, Props.C19.areaC, vtx4,
    Gen.Measures.centroid_0]
  v3_flat
  ring

theorem meas_centroid_y (v0 v1 v2 v3 : V3 ℝ) :
    (Measures.centroid (vtx4 v0 v1 v2 v3) T4).1.y = Gen.Measures.centroid_1 v0 v1 v2 v3 := by
  rw [(Props.C19.centroid_fst _ _).2.1]
  simp only [T4, List.map, List.sum_cons, List.sum_nil, Props.C19.cTerm, Props.C19.totalC, Props.C19.areaC, vtx4,
    Gen.Measures.centroid_1]
  v3_flat
  ring

theorem meas_centroid_z (v0 v1 v2 v3 : V3 ℝ) :
    (Measures.centroid (vtx4 v0 v1 v2 v3) T4).1.z = Gen.Measures.centroid_2 v0 v1 v2 v3 := by
  rw [(Props.C19.centroid_fst _ _).2.2]
  simp only [T4, List.map, List.sum_cons, List.sum_nil, Props.C19.cTerm, Props.C19.totalC, Props.C19.areaC, vtx4,
    Gen.Measures.centroid_2]
  v3_flat
  ring

/-- **`centroid()` (vector part)** of the traced code is the model's -/
theorem meas_centroid (v0 v1 v2 v3 : V3 ℝ) :
    (let c := (Measures.centroid (vtx4 v0 v1 v2 v3) T4).1; [c.x, c.y, c.z]) = Gen.Measures.centroid v0 v1 v2 v3 := by
  simp only [Gen.Measures.centroid, meas_centroid_x, meas_centroid_y, meas_centroid_z]

/-- the first vertex after `normalize_`, in terms of the model's centroid and total area -/
theorem normalize_head (v0 v1 v2 v3 : V3 ℝ) :
    Measures.normalize [v0, v1, v2, v3] (vtx4 v0 v1 v2 v3) T4 =
      [v0, v1, v2, v3].map fun v => V3.smul (1 / Real.sqrt (Measures.centroid (vtx4 v0 v1 v2 v3) T4).2)
        (v - (Measures.centroid (vtx4 v0 v1 v2 v3) T4).1) := by
  simp only [Measures.normalize, Measures.c, sqrt_real]
  push_cast
  rfl

theorem gen_normalized_x (v0 v1 v2 v3 : V3 ℝ) :
    Gen.Measures.normalized0_0 v0 v1 v2 v3
      = 1 / Real.sqrt (Gen.Measures.total v0 v1 v2 v3) * (v0.x - Gen.Measures.centroid_0 v0 v1 v2 v3) := by
  simp only [Gen.Measures.normalized0_0, Gen.Measures.total, Gen.Measures.centroid_0]

theorem gen_normalized_y (v0 v1 v2 v3 : V3 ℝ) :
    Gen.Measures.normalized0_1 v0 v1 v2 v3
      = 1 / Real.sqrt (Gen.Measures.total v0 v1 v2 v3) * (v0.y - Gen.Measures.centroid_1 v0 v1 v2 v3) := by
  simp only [Gen.Measures.normalized0_1, Gen.Measures.total, Gen.Measures.centroid_1]

theorem gen_normalized_z (v0 v1 v2 v3 : V3 ℝ) :
    Gen.Measures.normalized0_2 v0 v1 v2 v3
      = 1 / Real.sqrt (Gen.Measures.total v0 v1 v2 v3) * (v0.z - Gen.Measures.centroid_2 v0 v1 v2 v3) := by
  simp only [Gen.Measures.normalized0_2, Gen.Measures.total, Gen.Measures.centroid_2]

/-- **`normalize_()`** (first vertex) of the traced code is the model's -/
theorem meas_normalized (v0 v1 v2 v3 : V3 ℝ) :
    (match Measures.normalize [v0, v1, v2, v3] (vtx4 v0 v1 v2 v3) T4 with
      | p :: _ => [p.x, p.y, p.z]
      | [] => []) = Gen.Measures.normalized0 v0 v1 v2 v3 := by
  rw [normalize_head]
  simp only [List.map_cons, Gen.Measures.normalized0, gen_normalized_x, gen_normalized_y, gen_normalized_z,
    ← meas_total, ← meas_centroid_x, ← meas_centroid_y, ← meas_centroid_z, V3.smul_x, V3.smul_y, V3.smul_z,
    V3.sub_x, V3.sub_y, V3.sub_z]

end LapyVerif.Bridge
