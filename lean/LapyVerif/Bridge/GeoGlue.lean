import LapyVerif.Lemmas.BridgeTac
import LapyVerif.Model.Geo
import LapyVerif.Generated.GeoGlue
/-
  Bridge: `compute_geodesic_f`, `tria_compute_geodesic_f`, `tria_compute_rotated_f` (lapy/diffgeo.py) traced as protocols (gradient,
  divergence and Solver replaced by recorders on symbols):
  * the field handed to the divergence is the row-normalised gradient (`Geo.normalizeRow`, non-zero gradients) resp. `tn × grad f`;
  * the Solver is built on the geometry (`lump=True` for the generic entry point), its mass matrix is replaced by the identity, `poisson`
    receives the divergence output itself, no boundary data for the geodesic functions and `u(vertex 0) = 0` for the rotated one;
  * the geodesic result is shifted by its minimum (`Geo.shiftMin`), the rotated result is the solver output.
-/
set_option linter.unusedTactic false
set_option linter.unusedSimpArgs false
namespace LapyVerif.Bridge
open LapyVerif

theorem geo_field (g0 g1 n0 n1 : V3 ℝ) (x0 x1 x2 : ℝ) (h0 : Real.sqrt (V3.normSq g0) ≠ 0) (h1 : Real.sqrt (V3.normSq g1) ≠ 0) :
    ([g0, g1].map Geo.normalizeRow).flatMap (fun p => [p.x, p.y, p.z]) = Gen.GeoGlue.geoField g0 g1 n0 n1 x0 x1 x2 ∧
    Gen.GeoGlue.tgeoField g0 g1 n0 n1 x0 x1 x2 = Gen.GeoGlue.geoField g0 g1 n0 n1 x0 x1 x2 := by
  constructor
  · simp only [List.map_cons, List.map_nil, List.flatMap_cons, List.flatMap_nil, List.cons_append, List.nil_append, List.append_nil,
      Geo.normalizeRow, sqrt_real, beq_iff_eq, h0, h1, if_false, Gen.GeoGlue.geoField, Gen.GeoGlue.geoField_0, Gen.GeoGlue.geoField_1,
      Gen.GeoGlue.geoField_2, Gen.GeoGlue.geoField_3, Gen.GeoGlue.geoField_4, Gen.GeoGlue.geoField_5]
    v3_flat
  · simp only [Gen.GeoGlue.geoField, Gen.GeoGlue.tgeoField, Gen.GeoGlue.geoField_0, Gen.GeoGlue.geoField_1,
      Gen.GeoGlue.geoField_2, Gen.GeoGlue.geoField_3, Gen.GeoGlue.geoField_4, Gen.GeoGlue.geoField_5, Gen.GeoGlue.tgeoField_0,
      Gen.GeoGlue.tgeoField_1, Gen.GeoGlue.tgeoField_2, Gen.GeoGlue.tgeoField_3, Gen.GeoGlue.tgeoField_4, Gen.GeoGlue.tgeoField_5]

theorem rot_field (g0 g1 n0 n1 : V3 ℝ) (x0 x1 x2 : ℝ) :
    [V3.cross n0 g0, V3.cross n1 g1].flatMap (fun p => [p.x, p.y, p.z]) = Gen.GeoGlue.rotField g0 g1 n0 n1 x0 x1 x2 := by
  simp only [List.flatMap_cons, List.flatMap_nil, List.cons_append, List.nil_append, List.append_nil, Gen.GeoGlue.rotField,
    Gen.GeoGlue.rotField_0, Gen.GeoGlue.rotField_1, Gen.GeoGlue.rotField_2, Gen.GeoGlue.rotField_3, Gen.GeoGlue.rotField_4,
    Gen.GeoGlue.rotField_5]
  v3_flat

/-- **`vf -= min(vf)`** on the recorded branch (the comparisons `min` asked for are the path condition) -/
theorem geo_result (g0 g1 n0 n1 : V3 ℝ) (x0 x1 x2 : ℝ) (h : Gen.GeoGlue.pc g0 g1 n0 n1 x0 x1 x2) :
    Geo.shiftMin [x0, x1, x2] = Gen.GeoGlue.geoResult g0 g1 n0 n1 x0 x1 x2 ∧
    Gen.GeoGlue.tgeoResult g0 g1 n0 n1 x0 x1 x2 = Gen.GeoGlue.geoResult g0 g1 n0 n1 x0 x1 x2 ∧
    Gen.GeoGlue.rotResult g0 g1 n0 n1 x0 x1 x2 = [x0, x1, x2] := by
  obtain ⟨h1, h2⟩ := h
  refine ⟨?_, ?_, ?_⟩
  · simp only [Geo.shiftMin, List.foldl, h1, if_true, h2, if_false, List.map_cons, List.map_nil, Gen.GeoGlue.geoResult,
      Gen.GeoGlue.geoResult_0, Gen.GeoGlue.geoResult_1, Gen.GeoGlue.geoResult_2]
  · simp only [Gen.GeoGlue.geoResult, Gen.GeoGlue.tgeoResult, Gen.GeoGlue.geoResult_0, Gen.GeoGlue.geoResult_1, Gen.GeoGlue.geoResult_2,
      Gen.GeoGlue.tgeoResult_0, Gen.GeoGlue.tgeoResult_1, Gen.GeoGlue.tgeoResult_2]
  · simp only [Gen.GeoGlue.rotResult, Gen.GeoGlue.rotResult_0, Gen.GeoGlue.rotResult_1, Gen.GeoGlue.rotResult_2]

/-- **what the recorders saw** -/
theorem geo_facts : Gen.GeoGlue.facts =
    [("geo: events", "gradient(geom, vfunc) > divergence(geom, field) > Solver(geom, lump=True) > poisson"),
     ("geo: poisson h is the divergence output", "True"), ("geo: poisson mass", "identity(3)"),
     ("geo: Dirichlet data", "none"), ("geo: Neumann data", "none"),
     ("tgeo: events", "gradient(geom, vfunc) > divergence(geom, field) > Solver(geom, lump=False) > poisson"),
     ("tgeo: poisson h is the divergence output", "True"), ("tgeo: poisson mass", "identity(3)"),
     ("tgeo: Dirichlet data", "none"), ("tgeo: Neumann data", "none"),
     ("rot: events", "gradient(geom, vfunc) > divergence(geom, field) > Solver(geom, lump=False) > poisson"),
     ("rot: poisson h is the divergence output", "True"), ("rot: poisson mass", "identity(3)"),
     ("rot: Dirichlet data", "idx=[0] val=[0.0]"), ("rot: Neumann data", "none")] := by
  decide

/-! ### census of data-dependent decisions -/
theorem census_GeoGlue_pcCount : Gen.GeoGlue.pcCount = 2 := rfl

end LapyVerif.Bridge
