import LapyVerif.Lemmas.BridgeTac
import LapyVerif.Model.Poisson
import LapyVerif.Generated.PoissonSys
/-
  Bridge: `Solver.poisson` (lapy/solver.py) traced on symbolic 4×4 matrices `A`, `B`, a symbolic right-hand side `h`, Dirichlet
  data at the (unsorted) vertices `[2, 0]`, Neumann data at `[3, 2]` (one of them a Dirichlet vertex) and a symbolic output `x`
  of the sparse solve.  What the code hands to `splu(a).solve(b)` — kept indices, reduced matrix, right-hand side
  `B(h − n) − A d` — and what it returns — `x` re-inserted, Dirichlet values in the caller's order — are the model's
  `Poisson.system` / `Poisson.fill`; without Dirichlet data the full matrix is solved and the solver output returned as is.
  The external solve itself is a parameter of the model (contract: `a · solve a b = b`, monitored on every run).
-/
set_option linter.unusedTactic false
set_option linter.unusedSimpArgs false
set_option maxRecDepth 8000
namespace LapyVerif.Bridge
open LapyVerif

def M4 (a00 a01 a02 a03 a10 a11 a12 a13 a20 a21 a22 a23 a30 a31 a32 a33 : ℝ) : Coo ℝ :=
  [((0, 0), a00), ((0, 1), a01), ((0, 2), a02), ((0, 3), a03), ((1, 0), a10), ((1, 1), a11), ((1, 2), a12), ((1, 3), a13),
   ((2, 0), a20), ((2, 1), a21), ((2, 2), a22), ((2, 3), a23), ((3, 0), a30), ((3, 1), a31), ((3, 2), a32), ((3, 3), a33)]

def f4 (f0 f1 f2 f3 : ℝ) : Nat → ℝ := fun i => match i with
  | 0 => f0 | 1 => f1 | 2 => f2 | _ => f3

theorem free_idx : Poisson.freeIdx 4 [2, 0] = [1, 3] := by decide

theorem poisson_system
    (a00 a01 a02 a03 a10 a11 a12 a13 a20 a21 a22 a23 a30 a31 a32 a33 b00 b01 b02 b03 b10 b11 b12 b13 b20 b21 b22 b23 b30 b31 b32 b33 h0 h1 h2 h3 d0 d1 n0 n1 x0 x1 x2 x3 : ℝ) :
    Poisson.system (M4 a00 a01 a02 a03 a10 a11 a12 a13 a20 a21 a22 a23 a30 a31 a32 a33)
        (M4 b00 b01 b02 b03 b10 b11 b12 b13 b20 b21 b22 b23 b30 b31 b32 b33) 4 (f4 h0 h1 h2 h3) 2 [2, 0] [d0, d1] 2 [3, 2] [n0, n1]
      = some ([1, 3],
          Gen.PoissonSys.sysA a00 a01 a02 a03 a10 a11 a12 a13 a20 a21 a22 a23 a30 a31 a32 a33 b00 b01 b02 b03 b10 b11 b12 b13 b20 b21 b22 b23 b30 b31 b32 b33 h0 h1 h2 h3 d0 d1 n0 n1 x0 x1 x2 x3,
          Gen.PoissonSys.sysB a00 a01 a02 a03 a10 a11 a12 a13 a20 a21 a22 a23 a30 a31 a32 a33 b00 b01 b02 b03 b10 b11 b12 b13 b20 b21 b22 b23 b30 b31 b32 b33 h0 h1 h2 h3 d0 d1 n0 n1 x0 x1 x2 x3) := by
  have hc : (Poisson.checkD 2 [2, 0] 2 != .ok || Poisson.checkN 2 2 2 != .ok) = false := by decide
  simp only [Poisson.system, List.length_cons, List.length_nil, hc, Bool.false_eq_true, if_false, free_idx]
  norm_num
  refine ⟨?_, ?_⟩
  · simp only [Poisson.reduce, M4, Gen.PoissonSys.sysA, Gen.PoissonSys.sysA_0, Gen.PoissonSys.sysA_1, Gen.PoissonSys.sysA_2, Gen.PoissonSys.sysA_3]
    rfl
  · simp only [Poisson.rhs, Coo.mulVec, M4, Poisson.scatter, List.filter_cons, List.filter_nil, List.zip_cons_cons, List.zip_nil_right,
      Gen.PoissonSys.sysB, Gen.PoissonSys.sysB_0, Gen.PoissonSys.sysB_1, if_true]
    norm_num [f4]
    constructor <;> ring

/-- **re-insertion**: `xfull[mask] = x; xfull[didx] = ddat` with the Dirichlet values in the caller's order -/
theorem poisson_result
    (a00 a01 a02 a03 a10 a11 a12 a13 a20 a21 a22 a23 a30 a31 a32 a33 b00 b01 b02 b03 b10 b11 b12 b13 b20 b21 b22 b23 b30 b31 b32 b33 h0 h1 h2 h3 d0 d1 n0 n1 x0 x1 x2 x3 : ℝ) :
    Poisson.fill 4 [2, 0] [d0, d1] [1, 3] [x0, x1] = Gen.PoissonSys.result a00 a01 a02 a03 a10 a11 a12 a13 a20 a21 a22 a23 a30 a31 a32 a33 b00 b01 b02 b03 b10 b11 b12 b13 b20 b21 b22 b23 b30 b31 b32 b33 h0 h1 h2 h3 d0 d1 n0 n1 x0 x1 x2 x3 := by
  simp only [Gen.PoissonSys.result, Gen.PoissonSys.result_0, Gen.PoissonSys.result_1, Gen.PoissonSys.result_2, Gen.PoissonSys.result_3]
  rfl

/-- the whole routine for any external solver -/
theorem poisson_run (solve : Coo ℝ → List ℝ → List ℝ)
    (a00 a01 a02 a03 a10 a11 a12 a13 a20 a21 a22 a23 a30 a31 a32 a33 b00 b01 b02 b03 b10 b11 b12 b13 b20 b21 b22 b23 b30 b31 b32 b33 h0 h1 h2 h3 d0 d1 n0 n1 x0 x1 x2 x3 : ℝ)
    (hs : solve (Gen.PoissonSys.sysA a00 a01 a02 a03 a10 a11 a12 a13 a20 a21 a22 a23 a30 a31 a32 a33 b00 b01 b02 b03 b10 b11 b12 b13 b20 b21 b22 b23 b30 b31 b32 b33 h0 h1 h2 h3 d0 d1 n0 n1 x0 x1 x2 x3) (Gen.PoissonSys.sysB a00 a01 a02 a03 a10 a11 a12 a13 a20 a21 a22 a23 a30 a31 a32 a33 b00 b01 b02 b03 b10 b11 b12 b13 b20 b21 b22 b23 b30 b31 b32 b33 h0 h1 h2 h3 d0 d1 n0 n1 x0 x1 x2 x3) = [x0, x1]) :
    Poisson.run solve (M4 a00 a01 a02 a03 a10 a11 a12 a13 a20 a21 a22 a23 a30 a31 a32 a33) (M4 b00 b01 b02 b03 b10 b11 b12 b13 b20 b21 b22 b23 b30 b31 b32 b33) 4 (f4 h0 h1 h2 h3) 2 [2, 0] [d0, d1] 2 [3, 2] [n0, n1]
      = some (Gen.PoissonSys.result a00 a01 a02 a03 a10 a11 a12 a13 a20 a21 a22 a23 a30 a31 a32 a33 b00 b01 b02 b03 b10 b11 b12 b13 b20 b21 b22 b23 b30 b31 b32 b33 h0 h1 h2 h3 d0 d1 n0 n1 x0 x1 x2 x3) := by
  simp only [Poisson.run, poisson_system a00 a01 a02 a03 a10 a11 a12 a13 a20 a21 a22 a23 a30 a31 a32 a33 b00 b01 b02 b03 b10 b11 b12 b13 b20 b21 b22 b23 b30 b31 b32 b33 h0 h1 h2 h3 d0 d1 n0 n1 x0 x1 x2 x3, Option.map_some, List.length_cons, List.length_nil, hs,
    ← poisson_result a00 a01 a02 a03 a10 a11 a12 a13 a20 a21 a22 a23 a30 a31 a32 a33 b00 b01 b02 b03 b10 b11 b12 b13 b20 b21 b22 b23 b30 b31 b32 b33 h0 h1 h2 h3 d0 d1 n0 n1 x0 x1 x2 x3]
  norm_num

/-- **without Dirichlet data** nothing is eliminated: the stiffness matrix itself is factorised, `b = B(h − n)` -/
theorem poisson_system_neumann
    (a00 a01 a02 a03 a10 a11 a12 a13 a20 a21 a22 a23 a30 a31 a32 a33 b00 b01 b02 b03 b10 b11 b12 b13 b20 b21 b22 b23 b30 b31 b32 b33 h0 h1 h2 h3 d0 d1 n0 n1 x0 x1 x2 x3 : ℝ) :
    Poisson.system (M4 a00 a01 a02 a03 a10 a11 a12 a13 a20 a21 a22 a23 a30 a31 a32 a33) (M4 b00 b01 b02 b03 b10 b11 b12 b13 b20 b21 b22 b23 b30 b31 b32 b33) 4 (f4 h0 h1 h2 h3) 0 [] [] 2 [3, 2] [n0, n1]
      = some ([0, 1, 2, 3], Gen.PoissonSys.sysA2 a00 a01 a02 a03 a10 a11 a12 a13 a20 a21 a22 a23 a30 a31 a32 a33 b00 b01 b02 b03 b10 b11 b12 b13 b20 b21 b22 b23 b30 b31 b32 b33 h0 h1 h2 h3 d0 d1 n0 n1 x0 x1 x2 x3, Gen.PoissonSys.sysB2 a00 a01 a02 a03 a10 a11 a12 a13 a20 a21 a22 a23 a30 a31 a32 a33 b00 b01 b02 b03 b10 b11 b12 b13 b20 b21 b22 b23 b30 b31 b32 b33 h0 h1 h2 h3 d0 d1 n0 n1 x0 x1 x2 x3) := by
  have hc : (Poisson.checkD 0 [] 0 != .ok || Poisson.checkN 2 2 2 != .ok) = false := by decide
  simp only [Poisson.system, List.length_cons, List.length_nil, hc, Bool.false_eq_true, if_false]
  norm_num
  refine ⟨by decide, ?_, ?_⟩
  · simp only [M4, Gen.PoissonSys.sysA2, Gen.PoissonSys.sysA2_0, Gen.PoissonSys.sysA2_1, Gen.PoissonSys.sysA2_2, Gen.PoissonSys.sysA2_3,
      Gen.PoissonSys.sysA2_4, Gen.PoissonSys.sysA2_5, Gen.PoissonSys.sysA2_6, Gen.PoissonSys.sysA2_7, Gen.PoissonSys.sysA2_8,
      Gen.PoissonSys.sysA2_9, Gen.PoissonSys.sysA2_10, Gen.PoissonSys.sysA2_11, Gen.PoissonSys.sysA2_12, Gen.PoissonSys.sysA2_13,
      Gen.PoissonSys.sysA2_14, Gen.PoissonSys.sysA2_15]
  · simp only [List.range, List.range.loop, List.map_cons, List.map_nil, Poisson.rhs, Coo.mulVec, M4, Poisson.scatter, List.filter_cons,
      List.filter_nil, List.zip_cons_cons, List.zip_nil_right, Gen.PoissonSys.sysB2, Gen.PoissonSys.sysB2_0, Gen.PoissonSys.sysB2_1,
      Gen.PoissonSys.sysB2_2, Gen.PoissonSys.sysB2_3]
    norm_num [f4]
    refine ⟨?_, ?_, ?_, ?_⟩ <;> ring

/-- and the solver output is returned unchanged -/
theorem poisson_result_neumann
    (a00 a01 a02 a03 a10 a11 a12 a13 a20 a21 a22 a23 a30 a31 a32 a33 b00 b01 b02 b03 b10 b11 b12 b13 b20 b21 b22 b23 b30 b31 b32 b33 h0 h1 h2 h3 d0 d1 n0 n1 x0 x1 x2 x3 : ℝ) :
    Gen.PoissonSys.result2 a00 a01 a02 a03 a10 a11 a12 a13 a20 a21 a22 a23 a30 a31 a32 a33 b00 b01 b02 b03 b10 b11 b12 b13 b20 b21 b22 b23 b30 b31 b32 b33 h0 h1 h2 h3 d0 d1 n0 n1 x0 x1 x2 x3 = [x0, x1, x2, x3] := by
  simp only [Gen.PoissonSys.result2, Gen.PoissonSys.result2_0, Gen.PoissonSys.result2_1, Gen.PoissonSys.result2_2, Gen.PoissonSys.result2_3]

/-- the reduced matrix is handed over in CSC format (what SuperLU expects) -/
theorem poisson_format : Gen.PoissonSys.fmtA = "csc" := by decide



/-- **End-to-end statement about the traced code** (no hand-written model in between): if the vector `(x0, x1)` handed back by the
    sparse solver solves the system the code handed to it, then the vector the code returns takes the prescribed values at the
    Dirichlet vertices `2, 0` (in the caller's order) and satisfies `(A x)_i = (B (h − n))_i` at the free vertices `1, 3`, where
    `n` has the Neumann values `n1` at vertex 2 and `n0` at vertex 3. -/
theorem poisson_traced_spec
    (a00 a01 a02 a03 a10 a11 a12 a13 a20 a21 a22 a23 a30 a31 a32 a33 b00 b01 b02 b03 b10 b11 b12 b13 b20 b21 b22 b23 b30 b31 b32 b33 h0 h1 h2 h3 d0 d1 n0 n1 x0 x1 x2 x3 : ℝ)
    (hs0 : a11 * x0 + a13 * x1 = Gen.PoissonSys.sysB_0 a00 a01 a02 a03 a10 a11 a12 a13 a20 a21 a22 a23 a30 a31 a32 a33 b00 b01 b02 b03 b10 b11 b12 b13 b20 b21 b22 b23 b30 b31 b32 b33 h0 h1 h2 h3 d0 d1 n0 n1 x0 x1 x2 x3)
    (hs1 : a31 * x0 + a33 * x1 = Gen.PoissonSys.sysB_1 a00 a01 a02 a03 a10 a11 a12 a13 a20 a21 a22 a23 a30 a31 a32 a33 b00 b01 b02 b03 b10 b11 b12 b13 b20 b21 b22 b23 b30 b31 b32 b33 h0 h1 h2 h3 d0 d1 n0 n1 x0 x1 x2 x3) :
    ∃ r0 r1 r2 r3 : ℝ,
      Gen.PoissonSys.result a00 a01 a02 a03 a10 a11 a12 a13 a20 a21 a22 a23 a30 a31 a32 a33 b00 b01 b02 b03 b10 b11 b12 b13 b20 b21 b22 b23 b30 b31 b32 b33 h0 h1 h2 h3 d0 d1 n0 n1 x0 x1 x2 x3
        = [r0, r1, r2, r3] ∧
      r2 = d0 ∧ r0 = d1 ∧
      a10 * r0 + a11 * r1 + a12 * r2 + a13 * r3 = b10 * h0 + b11 * h1 + b12 * (h2 - n1) + b13 * (h3 - n0) ∧
      a30 * r0 + a31 * r1 + a32 * r2 + a33 * r3 = b30 * h0 + b31 * h1 + b32 * (h2 - n1) + b33 * (h3 - n0) := by
  refine ⟨d1, x0, d0, x1, ?_, rfl, rfl, ?_, ?_⟩
  · simp only [Gen.PoissonSys.result, Gen.PoissonSys.result_0, Gen.PoissonSys.result_1, Gen.PoissonSys.result_2, Gen.PoissonSys.result_3]
  · simp only [Gen.PoissonSys.sysB_0] at hs0
    linarith
  · simp only [Gen.PoissonSys.sysB_1] at hs1
    linarith

/-- the matrix handed to the solver is the block of `A` on the free vertices `1, 3` -/
theorem poisson_traced_matrix
    (a00 a01 a02 a03 a10 a11 a12 a13 a20 a21 a22 a23 a30 a31 a32 a33 b00 b01 b02 b03 b10 b11 b12 b13 b20 b21 b22 b23 b30 b31 b32 b33 h0 h1 h2 h3 d0 d1 n0 n1 x0 x1 x2 x3 : ℝ) :
    Gen.PoissonSys.sysA a00 a01 a02 a03 a10 a11 a12 a13 a20 a21 a22 a23 a30 a31 a32 a33 b00 b01 b02 b03 b10 b11 b12 b13 b20 b21 b22 b23 b30 b31 b32 b33 h0 h1 h2 h3 d0 d1 n0 n1 x0 x1 x2 x3
      = [((0, 0), a11), ((0, 1), a13), ((1, 0), a31), ((1, 1), a33)] := by
  simp only [Gen.PoissonSys.sysA, Gen.PoissonSys.sysA_0, Gen.PoissonSys.sysA_1, Gen.PoissonSys.sysA_2, Gen.PoissonSys.sysA_3]


/-! ### census of data-dependent decisions: the traced code took exactly the branches the model knows about -/
theorem census_PoissonSys_pcCount : Gen.PoissonSys.pcCount = 0 := rfl

end LapyVerif.Bridge
