import LapyVerif.Generated.Eigs
import LapyVerif.Model.Spectral
import LapyVerif.Props.C03
/-
  Bridge of C03: the shift constant and call structure of `Solver.eigs` extracted from the source.
-/
namespace LapyVerif.Bridge
open LapyVerif

/-- the shift is a negative constant (so `A − σB` is positive definite by `C03.shift_pd`) -/
theorem eigs_sigma_neg : Gen.Eigs.sigmaFound = true ∧ Gen.Eigs.sigmaNum < 0 ∧ 0 < Gen.Eigs.sigmaDen := by decide

/-- the matrix factorised is `A − σB`, and ARPACK is called in shift-invert mode with that factorisation as `OPinv` -/
theorem eigs_call_shape :
    Gen.Eigs.factorised = "self.stiffness - sigma * self.mass" ∧
    Gen.Eigs.eigshCall = "eigsh(self.stiffness, k, self.mass, sigma=sigma, OPinv=op_inv)" ∧
    Gen.Eigs.opInv = "LinearOperator(matvec=lu.solve, shape=self.stiffness.shape, dtype=self.stiffness.dtype)" := by decide

/-- the driver's shift matrix is the one the theorems are about -/
theorem shiftMat_eq (σ : ℝ) (A B : Coo ℝ) : Spectral.shiftMat σ A B = Props.C03.shiftMat σ A B := rfl

end LapyVerif.Bridge
