import LapyVerif.Bridge.Measures
import LapyVerif.Model.Transfer
import LapyVerif.Generated.VertexMeasures
import LapyVerif.Generated.TransferTri
/-
  Bridge: `vertex_areas`, `avg_edge_length`, `vertex_normals`, `normal_offset_`, `map_tfunc_to_vfunc` (plain and
  area-weighted, one and two columns) and `map_vfunc_to_tfunc` of `lapy/tria_mesh.py`, traced on the boundary of a generic
  tetrahedron (every vertex has three incident triangles, so the scatter-add really accumulates), are the model's.
-/
set_option linter.unusedTactic false
set_option linter.unusedSimpArgs false
namespace LapyVerif.Bridge
open LapyVerif

theorem T4_nmax : (T4.foldl (fun m τ => max m (max τ.1 (max τ.2.1 τ.2.2) + 1)) 0) = 4 := by decide

/-- **`vertex_areas`** -/
theorem vm_vareas (v0 v1 v2 v3 : V3 ℝ) (d : ℝ) :
    Measures.vertexAreas (vtx4 v0 v1 v2 v3) T4 = Gen.VertexMeasures.vareas v0 v1 v2 v3 d := by
  simp only [Measures.vertexAreas, T4_nmax]
  simp only [T4, List.range, List.range.loop, List.map_cons, List.map_nil, vtx4, Measures.crossArea, Measures.c,
    Gen.VertexMeasures.vareas, List.sum_cons, List.sum_nil]
  norm_num
  and_intros <;>
  · simp only [Gen.VertexMeasures.vareas_0, Gen.VertexMeasures.vareas_1, Gen.VertexMeasures.vareas_2,
      Gen.VertexMeasures.vareas_3]
    v3_flat
    ring_nf

theorem T4_edges : Measures.undirectedEdges (Topo.symKeys T4) = [(0, 1), (1, 2), (0, 2), (0, 3), (1, 3), (2, 3)] := by
  decide

/-- **`avg_edge_length`** -/
theorem vm_avg (v0 v1 v2 v3 : V3 ℝ) (d : ℝ) :
    Measures.avgEdgeLength (vtx4 v0 v1 v2 v3) T4 = Gen.VertexMeasures.avg v0 v1 v2 v3 d := by
  simp only [Measures.avgEdgeLength, T4_edges, List.map_cons, List.map_nil, meanL, List.sum_cons, List.sum_nil,
    List.length_cons, List.length_nil, vtx4, Gen.VertexMeasures.avg]
  v3_flat
  push_cast
  ring


/-! ### `vertex_normals` / `normal_offset_` -/

/-- accumulated corner normals at vertex 0, in the order `np.add.at` adds them -/
theorem acc0 (v0 v1 v2 v3 : V3 ℝ) :
    Measures.vertexNormalAcc (vtx4 v0 v1 v2 v3) T4 0 =
      (⟨0, 0, 0⟩ : V3 ℝ) + V3.cross (v1 - v0) (-(v0 - v2)) + V3.cross (v3 - v0) (-(v0 - v1)) + V3.cross (v2 - v0) (-(v0 - v3)) := by
  simp only [Measures.vertexNormalAcc, T4, List.foldl, vtx4]
  norm_num

/-- at vertex 3 the code adds column by column (`t[:,1]` of triangles 1 and 3, then `t[:,2]` of triangle 2), the model
    triangle by triangle: the same sum in another order -/
theorem acc3 (v0 v1 v2 v3 : V3 ℝ) :
    Measures.vertexNormalAcc (vtx4 v0 v1 v2 v3) T4 3 =
      (⟨0, 0, 0⟩ : V3 ℝ) + V3.cross (v1 - v3) (-(v3 - v0)) + V3.cross (v2 - v3) (-(v3 - v1)) + V3.cross (v0 - v3) (-(v3 - v2)) := by
  simp only [Measures.vertexNormalAcc, T4, List.foldl, vtx4]
  norm_num
  ext <;> (v3_flat; ring)

theorem vm_vnormal0_nd (v0 v1 v2 v3 : V3 ℝ) (d : ℝ) (h : Gen.VertexMeasures.pc v0 v1 v2 v3 d) :
    ¬ (Real.sqrt (V3.normSq (Measures.vertexNormalAcc (vtx4 v0 v1 v2 v3) T4 0)) < epsK) := by
  rw [epsK_real, acc0]
  have := h.1
  simpa [Gen.VertexMeasures.pc, V3.normSq, V3.dot] using this

theorem vm_vnormal3_nd (v0 v1 v2 v3 : V3 ℝ) (d : ℝ) (h : Gen.VertexMeasures.pc v0 v1 v2 v3 d) :
    ¬ (Real.sqrt (V3.normSq (Measures.vertexNormalAcc (vtx4 v0 v1 v2 v3) T4 3)) < epsK) := by
  rw [epsK_real, acc3]
  have := h.2.2.2
  simpa [Gen.VertexMeasures.pc, V3.normSq, V3.dot] using this

/-- **`vertex_normals`**, vertex 0 -/
theorem vm_vnormal0 (v0 v1 v2 v3 : V3 ℝ) (d : ℝ) (h : Gen.VertexMeasures.pc v0 v1 v2 v3 d) :
    (Measures.vertexNormals 4 (vtx4 v0 v1 v2 v3) T4).map (fun ns => let n := ns.getD 0 ⟨0, 0, 0⟩; [n.x, n.y, n.z])
      = some (Gen.VertexMeasures.vnormal0 v0 v1 v2 v3 d) := by
  have ho : Topo.isOriented T4 = true := by decide
  have h' := vm_vnormal0_nd v0 v1 v2 v3 d h
  simp only [Measures.vertexNormals, ho, Bool.not_true, Bool.false_eq_true, if_false, Option.map_some, List.range,
    List.range.loop, List.map_cons, List.getD_cons_zero, Measures.guard1, sqrt_real, if_neg h']
  simp only [acc0, Gen.VertexMeasures.vnormal0, Option.some.injEq]
  vec_entries' <;>
  · simp only [Gen.VertexMeasures.vnormal0_0, Gen.VertexMeasures.vnormal0_1, Gen.VertexMeasures.vnormal0_2]
    v3_flat

/-- **`vertex_normals`**, vertex 3 (accumulation order of the code differs from the model's) -/
theorem vm_vnormal3 (v0 v1 v2 v3 : V3 ℝ) (d : ℝ) (h : Gen.VertexMeasures.pc v0 v1 v2 v3 d) :
    (Measures.vertexNormals 4 (vtx4 v0 v1 v2 v3) T4).map (fun ns => let n := ns.getD 3 ⟨0, 0, 0⟩; [n.x, n.y, n.z])
      = some (Gen.VertexMeasures.vnormal3 v0 v1 v2 v3 d) := by
  have ho : Topo.isOriented T4 = true := by decide
  have h' := vm_vnormal3_nd v0 v1 v2 v3 d h
  simp only [Measures.vertexNormals, ho, Bool.not_true, Bool.false_eq_true, if_false, Option.map_some, List.range,
    List.range.loop, List.map_cons, List.getD_cons_zero, List.getD_cons_succ, Measures.guard1, sqrt_real, if_neg h']
  simp only [acc3, Gen.VertexMeasures.vnormal3, Option.some.injEq]
  vec_entries' <;>
  · simp only [Gen.VertexMeasures.vnormal3_0, Gen.VertexMeasures.vnormal3_1, Gen.VertexMeasures.vnormal3_2]
    v3_flat

/-- **`normal_offset_(d)`**, vertex 0: `v + d * n` -/
theorem vm_offset0 (v0 v1 v2 v3 : V3 ℝ) (d : ℝ) (h : Gen.VertexMeasures.pc v0 v1 v2 v3 d) :
    (Measures.normalOffset d [v0, v1, v2, v3] (vtx4 v0 v1 v2 v3) T4).map
        (fun ps => let p := ps.getD 0 ⟨0, 0, 0⟩; [p.x, p.y, p.z])
      = some (Gen.VertexMeasures.offset0 v0 v1 v2 v3 d) := by
  have ho : Topo.isOriented T4 = true := by decide
  have h' := vm_vnormal0_nd v0 v1 v2 v3 d h
  simp only [Measures.normalOffset, Measures.vertexNormals, ho, Bool.not_true, Bool.false_eq_true, if_false,
    List.length_cons, List.length_nil, Option.map_some, List.range, List.range.loop, List.map_cons, List.zip_cons_cons,
    List.getD_cons_zero, Measures.guard1, sqrt_real, if_neg h']
  simp only [acc0, Gen.VertexMeasures.offset0, Option.some.injEq]
  vec_entries' <;>
  · simp only [Gen.VertexMeasures.offset0_0, Gen.VertexMeasures.offset0_1, Gen.VertexMeasures.offset0_2]
    v3_flat

/-! ### `map_tfunc_to_vfunc` / `map_vfunc_to_tfunc` -/

/-- **`map_tfunc_to_vfunc(tfunc)`**, two columns: scatter-add to the three corners, `/ 3` -/
theorem tr_t2v (v0 v1 v2 v3 : V3 ℝ) (f00 f01 f10 f11 f20 f21 f30 f31 : ℝ) :
    (Transfer.t2v 4 (vtx4 v0 v1 v2 v3) T4 [[f00, f01], [f10, f11], [f20, f21], [f30, f31]] false).flatten
      = Gen.TransferTri.t2v v0 v1 v2 v3 f00 f01 f10 f11 f20 f21 f30 f31 := by
  simp only [Transfer.t2v, T4, Measures.triAreas, List.map_cons, List.map_nil, List.zip_cons_cons, List.zip_nil_right,
    List.headD_cons, List.length_cons, List.length_nil, List.range, List.range.loop, List.foldl, Transfer.rowZero,
    Transfer.rowAdd, Transfer.rowDiv, List.replicate, Bool.false_eq_true, if_false]
  norm_num
  simp only [Gen.TransferTri.t2v, List.cons.injEq, and_true]
  and_intros <;>
  · simp only [Gen.TransferTri.t2v_0, Gen.TransferTri.t2v_1, Gen.TransferTri.t2v_2, Gen.TransferTri.t2v_3,
      Gen.TransferTri.t2v_4, Gen.TransferTri.t2v_5, Gen.TransferTri.t2v_6, Gen.TransferTri.t2v_7]
    ring


/-- one-column input (`tfunc.ndim == 1` → `[:, newaxis]`, squeezed on return) -/
theorem tr_t2v1 (v0 v1 v2 v3 : V3 ℝ) (f00 f01 f10 f11 f20 f21 f30 f31 : ℝ) :
    (Transfer.t2v 4 (vtx4 v0 v1 v2 v3) T4 [[f00], [f10], [f20], [f30]] false).flatten
      = Gen.TransferTri.t2v1 v0 v1 v2 v3 f00 f01 f10 f11 f20 f21 f30 f31 := by
  simp only [Transfer.t2v, T4, Measures.triAreas, List.map_cons, List.map_nil, List.zip_cons_cons, List.zip_nil_right,
    List.headD_cons, List.length_cons, List.length_nil, List.range, List.range.loop, List.foldl, Transfer.rowZero,
    Transfer.rowAdd, Transfer.rowDiv, List.replicate, Bool.false_eq_true, if_false]
  norm_num
  simp only [Gen.TransferTri.t2v1, List.cons.injEq, and_true]
  and_intros <;>
  · simp only [Gen.TransferTri.t2v1_0, Gen.TransferTri.t2v1_1, Gen.TransferTri.t2v1_2, Gen.TransferTri.t2v1_3]
    ring

/-- **`map_vfunc_to_tfunc`**, two columns: `sum((vfunc/3)[t], axis=1)` -/
theorem tr_v2t (v0 v1 v2 v3 : V3 ℝ) (f00 f01 f10 f11 f20 f21 f30 f31 : ℝ) :
    (Transfer.v2t T4 [[f00, f01], [f10, f11], [f20, f21], [f30, f31]]).flatten
      = Gen.TransferTri.v2t v0 v1 v2 v3 f00 f01 f10 f11 f20 f21 f30 f31 := by
  simp only [Transfer.v2t, T4, List.map_cons, List.map_nil, List.getD_cons_zero, List.getD_cons_succ, Transfer.rowAdd,
    Transfer.rowDiv, List.zipWith_cons_cons, List.zipWith_nil_right, List.flatten_cons, List.flatten_nil,
    List.cons_append, List.nil_append, Gen.TransferTri.v2t, List.cons.injEq, and_true]
  and_intros <;>
  · simp only [Gen.TransferTri.v2t_0, Gen.TransferTri.v2t_1, Gen.TransferTri.v2t_2, Gen.TransferTri.v2t_3,
      Gen.TransferTri.v2t_4, Gen.TransferTri.v2t_5, Gen.TransferTri.v2t_6, Gen.TransferTri.v2t_7]
    push_cast
    ring

/-- **`map_tfunc_to_vfunc(tfunc, weighted=True)`**: rows multiplied by the Heron areas of `tria_areas()` first -/
theorem tr_t2vw (v0 v1 v2 v3 : V3 ℝ) (f00 f01 f10 f11 f20 f21 f30 f31 : ℝ) :
    (Transfer.t2v 4 (vtx4 v0 v1 v2 v3) T4 [[f00, f01], [f10, f11], [f20, f21], [f30, f31]] true).flatten
      = Gen.TransferTri.t2vw v0 v1 v2 v3 f00 f01 f10 f11 f20 f21 f30 f31 := by
  simp only [Transfer.t2v, meas_areas, Gen.Measures.areas]
  simp only [T4, List.map_cons, List.map_nil, List.zip_cons_cons, List.zip_nil_right,
    List.headD_cons, List.length_cons, List.length_nil, List.range, List.range.loop, List.foldl, Transfer.rowZero,
    Transfer.rowAdd, Transfer.rowDiv, List.replicate, if_true]
  norm_num
  simp only [Gen.TransferTri.t2vw, List.cons.injEq, and_true]
  and_intros <;>
  · simp only [Gen.TransferTri.t2vw_0, Gen.TransferTri.t2vw_1, Gen.TransferTri.t2vw_2, Gen.TransferTri.t2vw_3,
      Gen.TransferTri.t2vw_4, Gen.TransferTri.t2vw_5, Gen.TransferTri.t2vw_6, Gen.TransferTri.t2vw_7,
      Gen.Measures.areas_0, Gen.Measures.areas_1, Gen.Measures.areas_2, Gen.Measures.areas_3]
    ring

/-! ### census of data-dependent decisions: the traced code took exactly the branches the model knows about -/
theorem census_VertexMeasures_pcCount : Gen.VertexMeasures.pcCount = 4 := rfl
theorem census_TransferTri_pcCount : Gen.TransferTri.pcCount = 0 := rfl

end LapyVerif.Bridge
