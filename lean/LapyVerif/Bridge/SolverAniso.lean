import LapyVerif.Bridge.Fem
import LapyVerif.Generated.SolverAniso
/-
  Bridge: the anisotropic branch of `Solver.__init__` (lapy/solver.py), traced with a symbolic per-triangle output
  `(u1, u2, c1, c2)` of `curvature_tria`, is the model's `Fem.solverAniso`: the weights are `exp(-a0*|c2|)` (column 0) and
  `exp(-a1*|c1|)` (column 1), a scalar `aniso` is used for both, `lump` is passed on to the mass matrix, and `aniso_smooth` is
  what `curvature_tria` receives.
-/
set_option linter.unusedTactic false
set_option linter.unusedSimpArgs false
set_option maxRecDepth 4000
namespace LapyVerif.Bridge
open LapyVerif

theorem solver_aniso_pc (v0 v1 v2 u1 u2 : V3 ℝ) (c1 c2 a0 a1 : ℝ) (h : Gen.SolverAniso.pc v0 v1 v2 u1 u2 c1 c2 a0 a1) (d0 d1 : ℝ) :
    Gen.FemTriaAniso.pc v0 v1 v2 u1 u2 d0 d1 := by
  simpa [Gen.SolverAniso.pc, Gen.FemTriaAniso.pc] using h

/-- the traced constructor output is the traced kernel at the weights `exp(-a0*|c2|)`, `exp(-a1*|c1|)` -/
theorem solver_aniso_gen_A (v0 v1 v2 u1 u2 : V3 ℝ) (c1 c2 a0 a1 : ℝ) :
    Gen.SolverAniso.A v0 v1 v2 u1 u2 c1 c2 a0 a1
      = Gen.FemTriaAniso.A v0 v1 v2 u1 u2 (Real.exp (-a0 * |c2|)) (Real.exp (-a1 * |c1|)) := by
  simp only [Gen.SolverAniso.A, Gen.FemTriaAniso.A, Gen.SolverAniso.A_0, Gen.SolverAniso.A_1, Gen.SolverAniso.A_2,
    Gen.SolverAniso.A_3, Gen.SolverAniso.A_4, Gen.SolverAniso.A_5, Gen.SolverAniso.A_6, Gen.SolverAniso.A_7, Gen.SolverAniso.A_8,
    Gen.FemTriaAniso.A_0, Gen.FemTriaAniso.A_1, Gen.FemTriaAniso.A_2, Gen.FemTriaAniso.A_3, Gen.FemTriaAniso.A_4,
    Gen.FemTriaAniso.A_5, Gen.FemTriaAniso.A_6, Gen.FemTriaAniso.A_7, Gen.FemTriaAniso.A_8]

/-- **`Solver(tria, lump=False, aniso=(a0, a1))`**: stiffness -/
theorem solver_aniso_A (v0 v1 v2 u1 u2 : V3 ℝ) (c1 c2 a0 a1 : ℝ) (h : Gen.SolverAniso.pc v0 v1 v2 u1 u2 c1 c2 a0 a1) :
    (Fem.solverAniso false (vtx3 v0 v1 v2) [(0, 1, 2)] a0 a1 [(u1, u2, c1, c2)]).1 = Gen.SolverAniso.A v0 v1 v2 u1 u2 c1 c2 a0 a1 := by
  rw [solver_aniso_gen_A, ← fem_aniso_A v0 v1 v2 u1 u2 _ _ (solver_aniso_pc v0 v1 v2 u1 u2 c1 c2 a0 a1 h _ _)]
  simp only [Fem.solverAniso, Fem.anisoWeights, List.map_cons, List.map_nil, exp_real, abs_real]

/-- a scalar `aniso` is used for both directions -/
theorem solver_aniso_scalar (v0 v1 v2 u1 u2 : V3 ℝ) (c1 c2 a0 a1 : ℝ) :
    Gen.SolverAniso.As v0 v1 v2 u1 u2 c1 c2 a0 a1 = Gen.SolverAniso.A v0 v1 v2 u1 u2 c1 c2 a0 a0 := by
  simp only [Gen.SolverAniso.A, Gen.SolverAniso.As, Gen.SolverAniso.A_0, Gen.SolverAniso.A_1, Gen.SolverAniso.A_2,
    Gen.SolverAniso.A_3, Gen.SolverAniso.A_4, Gen.SolverAniso.A_5, Gen.SolverAniso.A_6, Gen.SolverAniso.A_7, Gen.SolverAniso.A_8,
    Gen.SolverAniso.As_0, Gen.SolverAniso.As_1, Gen.SolverAniso.As_2, Gen.SolverAniso.As_3, Gen.SolverAniso.As_4,
    Gen.SolverAniso.As_5, Gen.SolverAniso.As_6, Gen.SolverAniso.As_7, Gen.SolverAniso.As_8]

/-- the stiffness matrix does not depend on `lump` -/
theorem solver_aniso_lump_A (v0 v1 v2 u1 u2 : V3 ℝ) (c1 c2 a0 a1 : ℝ) :
    Gen.SolverAniso.AL v0 v1 v2 u1 u2 c1 c2 a0 a1 = Gen.SolverAniso.A v0 v1 v2 u1 u2 c1 c2 a0 a1 := by
  simp only [Gen.SolverAniso.A, Gen.SolverAniso.AL, Gen.SolverAniso.A_0, Gen.SolverAniso.A_1, Gen.SolverAniso.A_2,
    Gen.SolverAniso.A_3, Gen.SolverAniso.A_4, Gen.SolverAniso.A_5, Gen.SolverAniso.A_6, Gen.SolverAniso.A_7, Gen.SolverAniso.A_8,
    Gen.SolverAniso.AL_0, Gen.SolverAniso.AL_1, Gen.SolverAniso.AL_2, Gen.SolverAniso.AL_3, Gen.SolverAniso.AL_4,
    Gen.SolverAniso.AL_5, Gen.SolverAniso.AL_6, Gen.SolverAniso.AL_7, Gen.SolverAniso.AL_8]

/-- **mass matrix of the anisotropic Solver** (full): the isotropic one -/
theorem solver_aniso_B (v0 v1 v2 u1 u2 : V3 ℝ) (c1 c2 a0 a1 : ℝ) (h : Gen.SolverAniso.pc v0 v1 v2 u1 u2 c1 c2 a0 a1) :
    (Fem.solverAniso false (vtx3 v0 v1 v2) [(0, 1, 2)] a0 a1 [(u1, u2, c1, c2)]).2 = Gen.SolverAniso.B v0 v1 v2 u1 u2 c1 c2 a0 a1 := by
  have e : Gen.SolverAniso.B v0 v1 v2 u1 u2 c1 c2 a0 a1 = Gen.FemTriaAniso.B v0 v1 v2 u1 u2 0 0 := by
    simp only [Gen.SolverAniso.B, Gen.FemTriaAniso.B, Gen.SolverAniso.B_0, Gen.SolverAniso.B_1, Gen.SolverAniso.B_2,
      Gen.SolverAniso.B_3, Gen.SolverAniso.B_4, Gen.SolverAniso.B_5, Gen.SolverAniso.B_6, Gen.SolverAniso.B_7, Gen.SolverAniso.B_8,
      Gen.FemTriaAniso.B_0, Gen.FemTriaAniso.B_1, Gen.FemTriaAniso.B_2, Gen.FemTriaAniso.B_3, Gen.FemTriaAniso.B_4,
      Gen.FemTriaAniso.B_5, Gen.FemTriaAniso.B_6, Gen.FemTriaAniso.B_7, Gen.FemTriaAniso.B_8]
  rw [e, ← fem_aniso_B v0 v1 v2 u1 u2 0 0 (solver_aniso_pc v0 v1 v2 u1 u2 c1 c2 a0 a1 h 0 0)]
  simp only [Fem.solverAniso]

/-- `aniso_smooth` is the `smoothit` argument of `curvature_tria`, once per constructor call -/
theorem solver_aniso_smooth : Gen.SolverAniso.smoothSeen = [[7], [7], [7]] := by decide


/-! ### census of data-dependent decisions: the traced code took exactly the branches the model knows about -/
theorem census_SolverAniso_pcCount : Gen.SolverAniso.pcCount = 1 := rfl

end LapyVerif.Bridge
