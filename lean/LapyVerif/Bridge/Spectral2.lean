import LapyVerif.Lemmas.BridgeTac
import LapyVerif.Model.Heat
import LapyVerif.Model.Spectral
import LapyVerif.Model.Conformal
import LapyVerif.Model.Measures
import LapyVerif.Generated.HeatKernel
import LapyVerif.Generated.Misc
/-
  Bridge: `heat.kernel`, `heat.diagonal` (lapy/heat.py), `inverse_stereographic` (lapy/conformal.py), `reweight_ev`
  (lapy/shapedna.py) and `TetMesh.avg_edge_length` (lapy/tet_mesh.py), traced on symbolic input, are the model's.
-/
set_option linter.unusedTactic false
set_option linter.unusedSimpArgs false
namespace LapyVerif.Bridge
open LapyVerif

macro "vec_entries2" : tactic =>
  `(tactic| (simp only [List.cons.injEq, and_true]; and_intros))

/-- **`heat.kernel(t, vfix = 1, evecs (3×3), evals, n = 2)`**, two times: the traced code is the model's spectral sum -/
theorem heat_kernel (e00 e01 e02 e10 e11 e12 e20 e21 e22 l0 l1 l2 t0 t1 : ℝ) :
    (Heat.kernel [t0, t1] 1 [[e00, e01, e02], [e10, e11, e12], [e20, e21, e22]] [l0, l1, l2] 2).flatten
      = Gen.HeatKernel.kernel e00 e01 e02 e10 e11 e12 e20 e21 e22 l0 l1 l2 t0 t1 := by
  simp only [Heat.kernel, List.getD_cons_succ, List.getD_cons_zero, List.take_succ_cons, List.take_zero, List.map_cons,
    List.map_nil, List.zip_cons_cons, List.zip_nil_right, List.sum_cons, List.sum_nil, List.flatten_cons, List.flatten_nil,
    List.cons_append, List.nil_append, List.append_nil, Gen.HeatKernel.kernel, exp_real]
  vec_entries2 <;>
  · simp only [Gen.HeatKernel.kernel_0, Gen.HeatKernel.kernel_1, Gen.HeatKernel.kernel_2, Gen.HeatKernel.kernel_3,
      Gen.HeatKernel.kernel_4, Gen.HeatKernel.kernel_5]
    ring

/-- scalar time, all three eigenpairs, `vfix = 0` -/
theorem heat_kernel_scalar (e00 e01 e02 e10 e11 e12 e20 e21 e22 l0 l1 l2 t0 t1 : ℝ) :
    (Heat.kernel [t0] 0 [[e00, e01, e02], [e10, e11, e12], [e20, e21, e22]] [l0, l1, l2] 3).flatten
      = Gen.HeatKernel.kernel1 e00 e01 e02 e10 e11 e12 e20 e21 e22 l0 l1 l2 t0 t1 := by
  simp only [Heat.kernel, List.getD_cons_succ, List.getD_cons_zero, List.take_succ_cons, List.take_zero, List.map_cons,
    List.map_nil, List.zip_cons_cons, List.zip_nil_right, List.sum_cons, List.sum_nil, List.flatten_cons, List.flatten_nil,
    List.cons_append, List.nil_append, List.append_nil, Gen.HeatKernel.kernel1, exp_real]
  vec_entries2 <;>
  · simp only [Gen.HeatKernel.kernel1_0, Gen.HeatKernel.kernel1_1, Gen.HeatKernel.kernel1_2]
    ring

/-- **`heat.diagonal(t, x = [2, 0], evecs, evals, n = 2)`** -/
theorem heat_diagonal (e00 e01 e02 e10 e11 e12 e20 e21 e22 l0 l1 l2 t0 t1 : ℝ) :
    (Heat.diagonal [t0, t1] [2, 0] [[e00, e01, e02], [e10, e11, e12], [e20, e21, e22]] [l0, l1, l2] 2).flatten
      = Gen.HeatKernel.diagonal e00 e01 e02 e10 e11 e12 e20 e21 e22 l0 l1 l2 t0 t1 := by
  simp only [Heat.diagonal, List.getD_cons_succ, List.getD_cons_zero, List.take_succ_cons, List.take_zero, List.map_cons,
    List.map_nil, List.zip_cons_cons, List.zip_nil_right, List.sum_cons, List.sum_nil, List.flatten_cons, List.flatten_nil,
    List.cons_append, List.nil_append, List.append_nil, Gen.HeatKernel.diagonal, exp_real]
  vec_entries2 <;>
  · simp only [Gen.HeatKernel.diagonal_0, Gen.HeatKernel.diagonal_1, Gen.HeatKernel.diagonal_2, Gen.HeatKernel.diagonal_3]
    ring

/-- **`inverse_stereographic`** (two-column input) -/
theorem misc_invstereo (v0 v1 v2 v3 : V3 ℝ) (x y l0 l1 l2 l3 : ℝ) :
    (let p := Conformal.invStereo (x, y); [p.x, p.y, p.z]) = Gen.Misc.invstereo v0 v1 v2 v3 x y l0 l1 l2 l3 := by
  simp only [Conformal.invStereo, Conformal.one, Conformal.two, Gen.Misc.invstereo]
  vec_entries2 <;>
  · simp only [Gen.Misc.invstereo_0, Gen.Misc.invstereo_1, Gen.Misc.invstereo_2]
    push_cast
    ring

/-- **`reweight_ev`** on four eigenvalues -/
theorem misc_reweight (v0 v1 v2 v3 : V3 ℝ) (x y l0 l1 l2 l3 : ℝ) :
    Spectral.reweight [l0, l1, l2, l3] = Gen.Misc.reweight v0 v1 v2 v3 x y l0 l1 l2 l3 := by
  simp only [Spectral.reweight, List.zipIdx_cons, List.zipIdx_nil, List.map_cons, List.map_nil, Gen.Misc.reweight,
    Gen.Misc.reweight_0, Gen.Misc.reweight_1, Gen.Misc.reweight_2, Gen.Misc.reweight_3]
  push_cast
  norm_num

theorem tet_edges1 : Measures.undirectedEdges (Measures.tetSymKeys [(0, 1, 2, 3)]) = [(0, 1), (1, 2), (0, 2), (0, 3), (1, 3), (2, 3)] := by
  decide

/-- **`TetMesh.avg_edge_length`** on one tetrahedron -/
theorem misc_tetavg (v0 v1 v2 v3 : V3 ℝ) (x y l0 l1 l2 l3 : ℝ) :
    Measures.tetAvgEdgeLength (vtx4 v0 v1 v2 v3) [(0, 1, 2, 3)] = Gen.Misc.tetavg v0 v1 v2 v3 x y l0 l1 l2 l3 := by
  simp only [Measures.tetAvgEdgeLength, tet_edges1, List.map_cons, List.map_nil, meanL, List.sum_cons, List.sum_nil,
    List.length_cons, List.length_nil, vtx4, Gen.Misc.tetavg]
  v3_flat
  push_cast
  ring


/-! ### census of data-dependent decisions: the traced code took exactly the branches the model knows about -/
theorem census_HeatKernel_pcCount : Gen.HeatKernel.pcCount = 0 := rfl
theorem census_Misc_pcCount : Gen.Misc.pcCount = 0 := rfl

end LapyVerif.Bridge
