import LapyVerif.Lemmas.BridgeTac
import LapyVerif.Model.Flow
import LapyVerif.Generated.FlowGlue
/-
  Bridge: `tria_mean_curvature_flow` (lapy/diffgeo.py) traced as a protocol — the mesh class, the Solver and `spsolve` replaced by
  recorders on symbols (4 vertices, the concolic run takes two iterations and stops on `diff < stop_eps`):
  * order of the calls: copy of the argument's arrays, `normalize_`, `Solver(normalised, lump=True)` once; then per iteration
    `fem_tria_mass(current, lump=True)`, `spsolve`, `normalize_`; the working mesh is returned, the argument is untouched;
  * system of iteration k: `M_k + step·A0` (`Heat.heatMat step A0 M_k` = `Flow.stepMatrix`) with right-hand side `M_k · V_k`, where `V_k` is the
    *normalised* previous iterate;
  * stopping quantity: `Flow.stepDiff M_k (V_(k+1) − V_k)`, compared with `stop_eps` by `<`.
-/
set_option linter.unusedTactic false
set_option linter.unusedSimpArgs false
set_option maxRecDepth 8000
namespace LapyVerif.Bridge
open LapyVerif

def Mat4 (a00 a01 a02 a03 a10 a11 a12 a13 a20 a21 a22 a23 a30 a31 a32 a33 : ℝ) : Coo ℝ :=
  [((0, 0), a00), ((0, 1), a01), ((0, 2), a02), ((0, 3), a03), ((1, 0), a10), ((1, 1), a11), ((1, 2), a12), ((1, 3), a13),
   ((2, 0), a20), ((2, 1), a21), ((2, 2), a22), ((2, 3), a23), ((3, 0), a30), ((3, 1), a31), ((3, 2), a32), ((3, 3), a33)]

/-- lumped mass matrix with diagonal `d` -/
def Diag4 (d0 d1 d2 d3 : ℝ) : Coo ℝ := [((0, 0), d0), ((1, 1), d1), ((2, 2), d2), ((3, 3), d3)]

/-- **order of the calls** -/
theorem flow_events : Gen.FlowGlue.events =
    ["mesh(v, t) constructed from the argument's arrays", "normalize_", "Solver(normalised mesh, lump=True)",
     "fem_tria_mass(current mesh, lump=True)", "spsolve", "normalize_",
     "fem_tria_mass(current mesh, lump=True)", "spsolve", "normalize_",
     "returns the working mesh", "argument arrays untouched"] ∧ Gen.FlowGlue.nSystems = 2 := by
  decide

/-- **matrix of iteration 1**: `M_0 + step·A0` -/
theorem flow_sysA1 (a00 a01 a02 a03 a10 a11 a12 a13 a20 a21 a22 a23 a30 a31 a32 a33 m00 m01 m02 m03 m10 m11 m12 m13 step stop w000 w001 w002 w010 w011 w012 w020 w021 w022 w030 w031 w032 w100 w101 w102 w110 w111 w112 w120 w121 w122 w130 w131 w132 w200 w201 w202 w210 w211 w212 w220 w221 w222 w230 w231 w232 y000 y001 y002 y010 y011 y012 y020 y021 y022 y030 y031 y032 y100 y101 y102 y110 y111 y112 y120 y121 y122 y130 y131 y132 : ℝ) :
    ∀ e ∈ Gen.FlowGlue.sysA1 a00 a01 a02 a03 a10 a11 a12 a13 a20 a21 a22 a23 a30 a31 a32 a33 m00 m01 m02 m03 m10 m11 m12 m13 step stop w000 w001 w002 w010 w011 w012 w020 w021 w022 w030 w031 w032 w100 w101 w102 w110 w111 w112 w120 w121 w122 w130 w131 w132 w200 w201 w202 w210 w211 w212 w220 w221 w222 w230 w231 w232 y000 y001 y002 y010 y011 y012 y020 y021 y022 y030 y031 y032 y100 y101 y102 y110 y111 y112 y120 y121 y122 y130 y131 y132,
      Coo.entry (Heat.heatMat step (Mat4 a00 a01 a02 a03 a10 a11 a12 a13 a20 a21 a22 a23 a30 a31 a32 a33) (Diag4 m00 m01 m02 m03)) e.1.1 e.1.2 = e.2 := by
  intro e he
  simp only [Gen.FlowGlue.sysA1, List.mem_cons, List.not_mem_nil, or_false] at he
  rcases he with rfl | rfl | rfl | rfl | rfl | rfl | rfl | rfl | rfl | rfl | rfl | rfl | rfl | rfl | rfl | rfl <;>
  · simp only [Coo.entry, Heat.heatMat, Mat4, Diag4, List.map_cons, List.map_nil, List.cons_append, List.nil_append, List.filter_cons,
      List.filter_nil, Gen.FlowGlue.sysA1_0, Gen.FlowGlue.sysA1_1, Gen.FlowGlue.sysA1_2, Gen.FlowGlue.sysA1_3, Gen.FlowGlue.sysA1_4, Gen.FlowGlue.sysA1_5, Gen.FlowGlue.sysA1_6, Gen.FlowGlue.sysA1_7, Gen.FlowGlue.sysA1_8, Gen.FlowGlue.sysA1_9, Gen.FlowGlue.sysA1_10, Gen.FlowGlue.sysA1_11, Gen.FlowGlue.sysA1_12, Gen.FlowGlue.sysA1_13, Gen.FlowGlue.sysA1_14, Gen.FlowGlue.sysA1_15]
    norm_num

/-- **matrix of iteration 2**: `M_1 + step·A0` with the SAME stiffness `A0` and the mass of the current iterate -/
theorem flow_sysA2 (a00 a01 a02 a03 a10 a11 a12 a13 a20 a21 a22 a23 a30 a31 a32 a33 m00 m01 m02 m03 m10 m11 m12 m13 step stop w000 w001 w002 w010 w011 w012 w020 w021 w022 w030 w031 w032 w100 w101 w102 w110 w111 w112 w120 w121 w122 w130 w131 w132 w200 w201 w202 w210 w211 w212 w220 w221 w222 w230 w231 w232 y000 y001 y002 y010 y011 y012 y020 y021 y022 y030 y031 y032 y100 y101 y102 y110 y111 y112 y120 y121 y122 y130 y131 y132 : ℝ) :
    ∀ e ∈ Gen.FlowGlue.sysA2 a00 a01 a02 a03 a10 a11 a12 a13 a20 a21 a22 a23 a30 a31 a32 a33 m00 m01 m02 m03 m10 m11 m12 m13 step stop w000 w001 w002 w010 w011 w012 w020 w021 w022 w030 w031 w032 w100 w101 w102 w110 w111 w112 w120 w121 w122 w130 w131 w132 w200 w201 w202 w210 w211 w212 w220 w221 w222 w230 w231 w232 y000 y001 y002 y010 y011 y012 y020 y021 y022 y030 y031 y032 y100 y101 y102 y110 y111 y112 y120 y121 y122 y130 y131 y132,
      Coo.entry (Heat.heatMat step (Mat4 a00 a01 a02 a03 a10 a11 a12 a13 a20 a21 a22 a23 a30 a31 a32 a33) (Diag4 m10 m11 m12 m13)) e.1.1 e.1.2 = e.2 := by
  intro e he
  simp only [Gen.FlowGlue.sysA2, List.mem_cons, List.not_mem_nil, or_false] at he
  rcases he with rfl | rfl | rfl | rfl | rfl | rfl | rfl | rfl | rfl | rfl | rfl | rfl | rfl | rfl | rfl | rfl <;>
  · simp only [Coo.entry, Heat.heatMat, Mat4, Diag4, List.map_cons, List.map_nil, List.cons_append, List.nil_append, List.filter_cons,
      List.filter_nil, Gen.FlowGlue.sysA2_0, Gen.FlowGlue.sysA2_1, Gen.FlowGlue.sysA2_2, Gen.FlowGlue.sysA2_3, Gen.FlowGlue.sysA2_4, Gen.FlowGlue.sysA2_5, Gen.FlowGlue.sysA2_6, Gen.FlowGlue.sysA2_7, Gen.FlowGlue.sysA2_8, Gen.FlowGlue.sysA2_9, Gen.FlowGlue.sysA2_10, Gen.FlowGlue.sysA2_11, Gen.FlowGlue.sysA2_12, Gen.FlowGlue.sysA2_13, Gen.FlowGlue.sysA2_14, Gen.FlowGlue.sysA2_15]
    norm_num

/-- **right-hand sides**: `M_k · V_k` row by row, `V_0` the normalised input and `V_1` the NORMALISED result of step 1 -/
theorem flow_rhs (a00 a01 a02 a03 a10 a11 a12 a13 a20 a21 a22 a23 a30 a31 a32 a33 m00 m01 m02 m03 m10 m11 m12 m13 step stop w000 w001 w002 w010 w011 w012 w020 w021 w022 w030 w031 w032 w100 w101 w102 w110 w111 w112 w120 w121 w122 w130 w131 w132 w200 w201 w202 w210 w211 w212 w220 w221 w222 w230 w231 w232 y000 y001 y002 y010 y011 y012 y020 y021 y022 y030 y031 y032 y100 y101 y102 y110 y111 y112 y120 y121 y122 y130 y131 y132 : ℝ) :
    Gen.FlowGlue.sysB1 a00 a01 a02 a03 a10 a11 a12 a13 a20 a21 a22 a23 a30 a31 a32 a33 m00 m01 m02 m03 m10 m11 m12 m13 step stop w000 w001 w002 w010 w011 w012 w020 w021 w022 w030 w031 w032 w100 w101 w102 w110 w111 w112 w120 w121 w122 w130 w131 w132 w200 w201 w202 w210 w211 w212 w220 w221 w222 w230 w231 w232 y000 y001 y002 y010 y011 y012 y020 y021 y022 y030 y031 y032 y100 y101 y102 y110 y111 y112 y120 y121 y122 y130 y131 y132 = [m00 * w000, m00 * w001, m00 * w002, m01 * w010, m01 * w011, m01 * w012,
                    m02 * w020, m02 * w021, m02 * w022, m03 * w030, m03 * w031, m03 * w032] ∧
    Gen.FlowGlue.sysB2 a00 a01 a02 a03 a10 a11 a12 a13 a20 a21 a22 a23 a30 a31 a32 a33 m00 m01 m02 m03 m10 m11 m12 m13 step stop w000 w001 w002 w010 w011 w012 w020 w021 w022 w030 w031 w032 w100 w101 w102 w110 w111 w112 w120 w121 w122 w130 w131 w132 w200 w201 w202 w210 w211 w212 w220 w221 w222 w230 w231 w232 y000 y001 y002 y010 y011 y012 y020 y021 y022 y030 y031 y032 y100 y101 y102 y110 y111 y112 y120 y121 y122 y130 y131 y132 = [m10 * w100, m10 * w101, m10 * w102, m11 * w110, m11 * w111, m11 * w112,
                    m12 * w120, m12 * w121, m12 * w122, m13 * w130, m13 * w131, m13 * w132] := by
  constructor
  · simp only [Gen.FlowGlue.sysB1, Gen.FlowGlue.sysB1_0, Gen.FlowGlue.sysB1_1, Gen.FlowGlue.sysB1_2, Gen.FlowGlue.sysB1_3, Gen.FlowGlue.sysB1_4, Gen.FlowGlue.sysB1_5, Gen.FlowGlue.sysB1_6, Gen.FlowGlue.sysB1_7, Gen.FlowGlue.sysB1_8, Gen.FlowGlue.sysB1_9, Gen.FlowGlue.sysB1_10, Gen.FlowGlue.sysB1_11, List.cons.injEq, and_true]
    refine ⟨?_, ?_, ?_, ?_, ?_, ?_, ?_, ?_, ?_, ?_, ?_, ?_⟩ <;> ring
  · simp only [Gen.FlowGlue.sysB2, Gen.FlowGlue.sysB2_0, Gen.FlowGlue.sysB2_1, Gen.FlowGlue.sysB2_2, Gen.FlowGlue.sysB2_3, Gen.FlowGlue.sysB2_4, Gen.FlowGlue.sysB2_5, Gen.FlowGlue.sysB2_6, Gen.FlowGlue.sysB2_7, Gen.FlowGlue.sysB2_8, Gen.FlowGlue.sysB2_9, Gen.FlowGlue.sysB2_10, Gen.FlowGlue.sysB2_11, List.cons.injEq, and_true]
    refine ⟨?_, ?_, ?_, ?_, ?_, ?_, ?_, ?_, ?_, ?_, ?_, ?_⟩ <;> ring

/-- **stopping quantity of iteration 1** is the model's `stepDiff` of `V_1 − V_0` in the mass of iteration 1 -/
theorem flow_diff1 (a00 a01 a02 a03 a10 a11 a12 a13 a20 a21 a22 a23 a30 a31 a32 a33 m00 m01 m02 m03 m10 m11 m12 m13 step stop w000 w001 w002 w010 w011 w012 w020 w021 w022 w030 w031 w032 w100 w101 w102 w110 w111 w112 w120 w121 w122 w130 w131 w132 w200 w201 w202 w210 w211 w212 w220 w221 w222 w230 w231 w232 y000 y001 y002 y010 y011 y012 y020 y021 y022 y030 y031 y032 y100 y101 y102 y110 y111 y112 y120 y121 y122 y130 y131 y132 : ℝ) :
    Flow.stepDiff (Diag4 m00 m01 m02 m03)
        [⟨w100 - w000, w101 - w001, w102 - w002⟩, ⟨w110 - w010, w111 - w011, w112 - w012⟩,
         ⟨w120 - w020, w121 - w021, w122 - w022⟩, ⟨w130 - w030, w131 - w031, w132 - w032⟩]
      = Gen.FlowGlue.diff1 a00 a01 a02 a03 a10 a11 a12 a13 a20 a21 a22 a23 a30 a31 a32 a33 m00 m01 m02 m03 m10 m11 m12 m13 step stop w000 w001 w002 w010 w011 w012 w020 w021 w022 w030 w031 w032 w100 w101 w102 w110 w111 w112 w120 w121 w122 w130 w131 w132 w200 w201 w202 w210 w211 w212 w220 w221 w222 w230 w231 w232 y000 y001 y002 y010 y011 y012 y020 y021 y022 y030 y031 y032 y100 y101 y102 y110 y111 y112 y120 y121 y122 y130 y131 y132 := by
  simp only [Flow.stepDiff, Coo.mulVec, Diag4, List.length_cons, List.length_nil, List.range, List.range.loop, List.map_cons, List.map_nil,
    List.getD_cons_zero, List.getD_cons_succ, List.filter_cons, List.filter_nil, List.sum_cons, List.sum_nil, Gen.FlowGlue.diff1]
  norm_num
  ring

/-- **the decisions taken**: iteration 1 continues because `¬ diff1 < stop_eps`, iteration 2 stops because `diff2 < stop_eps` -/
theorem flow_pc (a00 a01 a02 a03 a10 a11 a12 a13 a20 a21 a22 a23 a30 a31 a32 a33 m00 m01 m02 m03 m10 m11 m12 m13 step stop w000 w001 w002 w010 w011 w012 w020 w021 w022 w030 w031 w032 w100 w101 w102 w110 w111 w112 w120 w121 w122 w130 w131 w132 w200 w201 w202 w210 w211 w212 w220 w221 w222 w230 w231 w232 y000 y001 y002 y010 y011 y012 y020 y021 y022 y030 y031 y032 y100 y101 y102 y110 y111 y112 y120 y121 y122 y130 y131 y132 : ℝ) :
    Gen.FlowGlue.pc a00 a01 a02 a03 a10 a11 a12 a13 a20 a21 a22 a23 a30 a31 a32 a33 m00 m01 m02 m03 m10 m11 m12 m13 step stop w000 w001 w002 w010 w011 w012 w020 w021 w022 w030 w031 w032 w100 w101 w102 w110 w111 w112 w120 w121 w122 w130 w131 w132 w200 w201 w202 w210 w211 w212 w220 w221 w222 w230 w231 w232 y000 y001 y002 y010 y011 y012 y020 y021 y022 y030 y031 y032 y100 y101 y102 y110 y111 y112 y120 y121 y122 y130 y131 y132 ↔ (¬ (Gen.FlowGlue.diff1 a00 a01 a02 a03 a10 a11 a12 a13 a20 a21 a22 a23 a30 a31 a32 a33 m00 m01 m02 m03 m10 m11 m12 m13 step stop w000 w001 w002 w010 w011 w012 w020 w021 w022 w030 w031 w032 w100 w101 w102 w110 w111 w112 w120 w121 w122 w130 w131 w132 w200 w201 w202 w210 w211 w212 w220 w221 w222 w230 w231 w232 y000 y001 y002 y010 y011 y012 y020 y021 y022 y030 y031 y032 y100 y101 y102 y110 y111 y112 y120 y121 y122 y130 y131 y132 < stop) ∧ Gen.FlowGlue.diff2 a00 a01 a02 a03 a10 a11 a12 a13 a20 a21 a22 a23 a30 a31 a32 a33 m00 m01 m02 m03 m10 m11 m12 m13 step stop w000 w001 w002 w010 w011 w012 w020 w021 w022 w030 w031 w032 w100 w101 w102 w110 w111 w112 w120 w121 w122 w130 w131 w132 w200 w201 w202 w210 w211 w212 w220 w221 w222 w230 w231 w232 y000 y001 y002 y010 y011 y012 y020 y021 y022 y030 y031 y032 y100 y101 y102 y110 y111 y112 y120 y121 y122 y130 y131 y132 < stop) := by
  simp only [Gen.FlowGlue.pc, Gen.FlowGlue.diff1, Gen.FlowGlue.diff2]

/-! ### census of data-dependent decisions -/
theorem census_FlowGlue_pcCount : Gen.FlowGlue.pcCount = 2 := rfl

end LapyVerif.Bridge
