import LapyVerif.Bridge.Measures
import LapyVerif.Model.Level
import LapyVerif.Generated.LevelLength
/-
  Bridge: `TriaMesh.level_length` traced on the boundary of a generic tetrahedron, for two crossing patterns, is the model's
  `Level.levelLength` under the recorded path condition (the comparisons `vfunc[t] > level` the code asked for).
  Pattern A: vertex 0 alone above the level (three crossed triangles, each with one flag set).
  Pattern B: vertices 0 and 1 above (four crossed triangles; two of them go through the "invert the flags" branch).
-/
set_option linter.unusedTactic false
set_option linter.unusedSimpArgs false
namespace LapyVerif.Bridge
open LapyVerif

/-- a vertex function on four vertices -/
def fn4 (f0 f1 f2 f3 : ℝ) : Nat → ℝ := fun i => match i with
  | 0 => f0 | 1 => f1 | 2 => f2 | _ => f3

theorem fn4_0 (f0 f1 f2 f3 : ℝ) : fn4 f0 f1 f2 f3 0 = f0 := rfl
theorem fn4_1 (f0 f1 f2 f3 : ℝ) : fn4 f0 f1 f2 f3 1 = f1 := rfl
theorem fn4_2 (f0 f1 f2 f3 : ℝ) : fn4 f0 f1 f2 f3 2 = f2 := rfl
theorem fn4_3 (f0 f1 f2 f3 : ℝ) : fn4 f0 f1 f2 f3 3 = f3 := rfl
theorem vtx4_0 (a b c d : V3 ℝ) : vtx4 a b c d 0 = a := rfl
theorem vtx4_1 (a b c d : V3 ℝ) : vtx4 a b c d 1 = b := rfl
theorem vtx4_2 (a b c d : V3 ℝ) : vtx4 a b c d 2 = c := rfl
theorem vtx4_3 (a b c d : V3 ℝ) : vtx4 a b c d 3 = d := rfl

/-- **`level_length`, pattern A** -/
theorem level_length_A (v0 v1 v2 v3 : V3 ℝ) (f0 f1 f2 f3 lev : ℝ) (h : Gen.LevelLength.pcA v0 v1 v2 v3 f0 f1 f2 f3 lev) :
    Level.levelLength (vtx4 v0 v1 v2 v3) T4 (fn4 f0 f1 f2 f3) lev = Gen.LevelLength.lenA v0 v1 v2 v3 f0 f1 f2 f3 lev := by
  obtain ⟨h0, h1, h2, h3⟩ := h
  have h0' : lev < f0 := h0
  have h1' : ¬ lev < f1 := h1
  have h2' : ¬ lev < f2 := h2
  have h3' : ¬ lev < f3 := h3
  simp only [Level.levelLength, Level.crossed, T4, List.zipIdx_cons, List.zipIdx_nil, List.filterMap_cons,
    List.filterMap_nil, Level.isolated, fn4_0, fn4_1, fn4_2, fn4_3, h0', h1', h2', h3', decide_true, decide_false, Bool.toNat_true,
    Bool.toNat_false]
  norm_num [Level.nth3, Level.crossPoint, Level.dist, Level.one, vtx4_0, vtx4_1, vtx4_2, vtx4_3, fn4_0, fn4_1, fn4_2, fn4_3, Gen.LevelLength.lenA]
  v3_flat
  ring

/-- **`level_length`, pattern B** -/
theorem level_length_B (v0 v1 v2 v3 : V3 ℝ) (f0 f1 f2 f3 lev : ℝ) (h : Gen.LevelLength.pcB v0 v1 v2 v3 f0 f1 f2 f3 lev) :
    Level.levelLength (vtx4 v0 v1 v2 v3) T4 (fn4 f0 f1 f2 f3) lev = Gen.LevelLength.lenB v0 v1 v2 v3 f0 f1 f2 f3 lev := by
  obtain ⟨h0, h1, h2, h3⟩ := h
  have h0' : lev < f0 := h0
  have h1' : lev < f1 := h1
  have h2' : ¬ lev < f2 := h2
  have h3' : ¬ lev < f3 := h3
  simp only [Level.levelLength, Level.crossed, T4, List.zipIdx_cons, List.zipIdx_nil, List.filterMap_cons,
    List.filterMap_nil, Level.isolated, fn4_0, fn4_1, fn4_2, fn4_3, h0', h1', h2', h3', decide_true, decide_false, Bool.toNat_true,
    Bool.toNat_false]
  norm_num [Level.nth3, Level.crossPoint, Level.dist, Level.one, vtx4_0, vtx4_1, vtx4_2, vtx4_3, fn4_0, fn4_1, fn4_2, fn4_3, Gen.LevelLength.lenB]
  v3_flat
  ring

/-- an array of levels gives the single-level lengths one by one -/
theorem level_lengths_A (v0 v1 v2 v3 : V3 ℝ) (f0 f1 f2 f3 lev : ℝ) :
    Gen.LevelLength.lensA v0 v1 v2 v3 f0 f1 f2 f3 lev
      = [Gen.LevelLength.lenA v0 v1 v2 v3 f0 f1 f2 f3 lev, Gen.LevelLength.lenA v0 v1 v2 v3 f0 f1 f2 f3 lev] := by
  simp only [Gen.LevelLength.lensA, Gen.LevelLength.lensA_0, Gen.LevelLength.lensA_1, Gen.LevelLength.lenA]

theorem level_lengths_B (v0 v1 v2 v3 : V3 ℝ) (f0 f1 f2 f3 lev : ℝ) :
    Gen.LevelLength.lensB v0 v1 v2 v3 f0 f1 f2 f3 lev
      = [Gen.LevelLength.lenB v0 v1 v2 v3 f0 f1 f2 f3 lev, Gen.LevelLength.lenB v0 v1 v2 v3 f0 f1 f2 f3 lev] := by
  simp only [Gen.LevelLength.lensB, Gen.LevelLength.lensB_0, Gen.LevelLength.lensB_1, Gen.LevelLength.lenB]


/-! ### census of data-dependent decisions: the traced code took exactly the branches the model knows about -/
theorem census_LevelLength_pcACount : Gen.LevelLength.pcACount = 4 := rfl
theorem census_LevelLength_pcBCount : Gen.LevelLength.pcBCount = 4 := rfl

end LapyVerif.Bridge
