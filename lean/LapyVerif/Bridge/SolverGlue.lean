import LapyVerif.Lemmas.BridgeTac
import LapyVerif.Model.Spectral
import LapyVerif.Model.Heat
import LapyVerif.Generated.SolverGlue
/-
  Bridge: the glue of `Solver.eigs` (lapy/solver.py) and `heat.diffusion` (lapy/heat.py) traced on symbolic 3×3 matrices with the
  external kernels (`splu`, `eigsh`) replaced by recorders:
  * the matrix factorised by `eigs` is `A − σB` entry by entry, with the shift `σ = −1/100 < 0` also handed to `eigsh`;
  * `eigsh` receives `(A, k, M = B, sigma = σ, OPinv = LinearOperator(lu.solve))` and its output is returned unchanged;
  * `diffusion` factorises `B + (m·ℓ²)·A` (`ℓ` = `avg_edge_length()`), solves for the indicator vector of the seed vertices, builds
    its Solver with `lump=True` and the caller's `aniso`, and returns the solver output unchanged.
-/
set_option linter.unusedTactic false
set_option linter.unusedSimpArgs false
namespace LapyVerif.Bridge
open LapyVerif

def M3 (a00 a01 a02 a10 a11 a12 a20 a21 a22 : ℝ) : Coo ℝ :=
  [((0, 0), a00), ((0, 1), a01), ((0, 2), a02), ((1, 0), a10), ((1, 1), a11), ((1, 2), a12), ((2, 0), a20), ((2, 1), a21), ((2, 2), a22)]

/-- the shift handed to `eigsh` and used in the factorised matrix is negative -/
theorem glue_sigma (a00 a01 a02 a10 a11 a12 a20 a21 a22 b00 b01 b02 b10 b11 b12 b20 b21 b22 m ell : ℝ) :
    Gen.SolverGlue.sigma a00 a01 a02 a10 a11 a12 a20 a21 a22 b00 b01 b02 b10 b11 b12 b20 b21 b22 m ell = -(1 / 100) ∧
    Gen.SolverGlue.sigma a00 a01 a02 a10 a11 a12 a20 a21 a22 b00 b01 b02 b10 b11 b12 b20 b21 b22 m ell < 0 := by
  simp only [Gen.SolverGlue.sigma]
  norm_num

/-- **matrix factorised by `eigs`** = the model's `A − σB`, entry by entry -/
theorem glue_shifted (a00 a01 a02 a10 a11 a12 a20 a21 a22 b00 b01 b02 b10 b11 b12 b20 b21 b22 m ell : ℝ) :
    ∀ e ∈ Gen.SolverGlue.shifted a00 a01 a02 a10 a11 a12 a20 a21 a22 b00 b01 b02 b10 b11 b12 b20 b21 b22 m ell,
      Coo.entry (Spectral.shiftMat (-(1 / 100) : ℝ) (M3 a00 a01 a02 a10 a11 a12 a20 a21 a22) (M3 b00 b01 b02 b10 b11 b12 b20 b21 b22)) e.1.1 e.1.2 = e.2 := by
  intro e he
  simp only [Gen.SolverGlue.shifted, List.mem_cons, List.not_mem_nil, or_false] at he
  rcases he with rfl | rfl | rfl | rfl | rfl | rfl | rfl | rfl | rfl <;>
  · simp only [Coo.entry, Spectral.shiftMat, M3, List.map_cons, List.map_nil, List.cons_append, List.nil_append, List.filter_cons,
      List.filter_nil, Gen.SolverGlue.shifted_0, Gen.SolverGlue.shifted_1, Gen.SolverGlue.shifted_2, Gen.SolverGlue.shifted_3,
      Gen.SolverGlue.shifted_4, Gen.SolverGlue.shifted_5, Gen.SolverGlue.shifted_6, Gen.SolverGlue.shifted_7, Gen.SolverGlue.shifted_8]
    norm_num
    try ring

/-- the recorded matrix has one entry per position of the 3×3 pattern -/
theorem glue_shifted_keys (a00 a01 a02 a10 a11 a12 a20 a21 a22 b00 b01 b02 b10 b11 b12 b20 b21 b22 m ell : ℝ) :
    (Gen.SolverGlue.shifted a00 a01 a02 a10 a11 a12 a20 a21 a22 b00 b01 b02 b10 b11 b12 b20 b21 b22 m ell).map (·.1)
      = [(0, 0), (0, 1), (0, 2), (1, 0), (1, 1), (1, 2), (2, 0), (2, 1), (2, 2)] := by
  simp only [Gen.SolverGlue.shifted, List.map_cons, List.map_nil]

/-- **backward-Euler matrix of `diffusion`** = the model's `B + tA` with `t = m·ℓ²` -/
theorem glue_heat (a00 a01 a02 a10 a11 a12 a20 a21 a22 b00 b01 b02 b10 b11 b12 b20 b21 b22 m ell : ℝ) :
    ∀ e ∈ Gen.SolverGlue.heatMat a00 a01 a02 a10 a11 a12 a20 a21 a22 b00 b01 b02 b10 b11 b12 b20 b21 b22 m ell,
      Coo.entry (Heat.heatMat (Heat.time m ell) (M3 a00 a01 a02 a10 a11 a12 a20 a21 a22) (M3 b00 b01 b02 b10 b11 b12 b20 b21 b22)) e.1.1 e.1.2 = e.2 := by
  intro e he
  simp only [Gen.SolverGlue.heatMat, List.mem_cons, List.not_mem_nil, or_false] at he
  rcases he with rfl | rfl | rfl | rfl | rfl | rfl | rfl | rfl | rfl <;>
  · simp only [Coo.entry, Heat.heatMat, Heat.time, M3, List.map_cons, List.map_nil, List.cons_append, List.nil_append, List.filter_cons,
      List.filter_nil, Gen.SolverGlue.heatMat_0, Gen.SolverGlue.heatMat_1, Gen.SolverGlue.heatMat_2, Gen.SolverGlue.heatMat_3,
      Gen.SolverGlue.heatMat_4, Gen.SolverGlue.heatMat_5, Gen.SolverGlue.heatMat_6, Gen.SolverGlue.heatMat_7, Gen.SolverGlue.heatMat_8]
    norm_num

theorem glue_heat_keys (a00 a01 a02 a10 a11 a12 a20 a21 a22 b00 b01 b02 b10 b11 b12 b20 b21 b22 m ell : ℝ) :
    (Gen.SolverGlue.heatMat a00 a01 a02 a10 a11 a12 a20 a21 a22 b00 b01 b02 b10 b11 b12 b20 b21 b22 m ell).map (·.1)
      = [(0, 0), (0, 1), (0, 2), (1, 0), (1, 1), (1, 2), (2, 0), (2, 1), (2, 2)] := by
  simp only [Gen.SolverGlue.heatMat, List.map_cons, List.map_nil]

/-- **right-hand side of `diffusion`** = indicator of the seed vertices `[2, 0]` -/
theorem glue_heat_rhs (a00 a01 a02 a10 a11 a12 a20 a21 a22 b00 b01 b02 b10 b11 b12 b20 b21 b22 m ell : ℝ) :
    Heat.seedVec 3 [2, 0] = Gen.SolverGlue.heatRhs a00 a01 a02 a10 a11 a12 a20 a21 a22 b00 b01 b02 b10 b11 b12 b20 b21 b22 m ell := by
  simp only [Gen.SolverGlue.heatRhs, Gen.SolverGlue.heatRhs_0, Gen.SolverGlue.heatRhs_1, Gen.SolverGlue.heatRhs_2, Heat.seedVec]
  norm_num [List.range, List.range.loop]

/-- every recorded fact about the external calls holds -/
theorem glue_calls : ∀ f ∈ Gen.SolverGlue.callFacts, f.2 = true := by decide

/-- and the list of facts is the expected one (nothing silently dropped) -/
theorem glue_calls_names : Gen.SolverGlue.callFacts.map (·.1) =
    ["eigsh.A is self.stiffness", "eigsh.k is k", "eigsh.M is self.mass", "eigsh positional args = 3", "eigsh keywords = OPinv, sigma",
     "OPinv.matvec is lu.solve", "OPinv.shape = shape of A", "eigs returns eigsh's output unchanged",
     "diffusion: Solver(geometry, lump=True, aniso=aniso)", "diffusion returns the solver output unchanged", "diffusion: matrix format csc"] := by
  decide



/-- **End-to-end statement about the traced `diffusion`** (no hand-written model in between): if the vector `u` handed back by the sparse
    solver solves the system the code handed to it, and the stiffness matrix annihilates constants from the left (zero column sums, C01),
    then the total heat `Σ_i Σ_j B_ij u_j` equals the number of seed vertices (2) — whatever the time `m·ℓ²`. -/
theorem diffusion_traced_conservation
    (a00 a01 a02 a10 a11 a12 a20 a21 a22 b00 b01 b02 b10 b11 b12 b20 b21 b22 m ell u0 u1 u2 : ℝ)
    (hA : a00 + a10 + a20 = 0 ∧ a01 + a11 + a21 = 0 ∧ a02 + a12 + a22 = 0)
    (h0 : Gen.SolverGlue.heatMat_0 a00 a01 a02 a10 a11 a12 a20 a21 a22 b00 b01 b02 b10 b11 b12 b20 b21 b22 m ell * u0
        + Gen.SolverGlue.heatMat_1 a00 a01 a02 a10 a11 a12 a20 a21 a22 b00 b01 b02 b10 b11 b12 b20 b21 b22 m ell * u1
        + Gen.SolverGlue.heatMat_2 a00 a01 a02 a10 a11 a12 a20 a21 a22 b00 b01 b02 b10 b11 b12 b20 b21 b22 m ell * u2
        = Gen.SolverGlue.heatRhs_0 a00 a01 a02 a10 a11 a12 a20 a21 a22 b00 b01 b02 b10 b11 b12 b20 b21 b22 m ell)
    (h1 : Gen.SolverGlue.heatMat_3 a00 a01 a02 a10 a11 a12 a20 a21 a22 b00 b01 b02 b10 b11 b12 b20 b21 b22 m ell * u0
        + Gen.SolverGlue.heatMat_4 a00 a01 a02 a10 a11 a12 a20 a21 a22 b00 b01 b02 b10 b11 b12 b20 b21 b22 m ell * u1
        + Gen.SolverGlue.heatMat_5 a00 a01 a02 a10 a11 a12 a20 a21 a22 b00 b01 b02 b10 b11 b12 b20 b21 b22 m ell * u2
        = Gen.SolverGlue.heatRhs_1 a00 a01 a02 a10 a11 a12 a20 a21 a22 b00 b01 b02 b10 b11 b12 b20 b21 b22 m ell)
    (h2 : Gen.SolverGlue.heatMat_6 a00 a01 a02 a10 a11 a12 a20 a21 a22 b00 b01 b02 b10 b11 b12 b20 b21 b22 m ell * u0
        + Gen.SolverGlue.heatMat_7 a00 a01 a02 a10 a11 a12 a20 a21 a22 b00 b01 b02 b10 b11 b12 b20 b21 b22 m ell * u1
        + Gen.SolverGlue.heatMat_8 a00 a01 a02 a10 a11 a12 a20 a21 a22 b00 b01 b02 b10 b11 b12 b20 b21 b22 m ell * u2
        = Gen.SolverGlue.heatRhs_2 a00 a01 a02 a10 a11 a12 a20 a21 a22 b00 b01 b02 b10 b11 b12 b20 b21 b22 m ell) :
    (b00 + b10 + b20) * u0 + (b01 + b11 + b21) * u1 + (b02 + b12 + b22) * u2 = 2 := by
  obtain ⟨c0, c1, c2⟩ := hA
  simp only [Gen.SolverGlue.heatMat_0, Gen.SolverGlue.heatMat_1, Gen.SolverGlue.heatMat_2, Gen.SolverGlue.heatMat_3, Gen.SolverGlue.heatMat_4,
    Gen.SolverGlue.heatMat_5, Gen.SolverGlue.heatMat_6, Gen.SolverGlue.heatMat_7, Gen.SolverGlue.heatMat_8, Gen.SolverGlue.heatRhs_0,
    Gen.SolverGlue.heatRhs_1, Gen.SolverGlue.heatRhs_2] at h0 h1 h2
  have e0 : a20 = -(a00 + a10) := by linarith
  have e1 : a21 = -(a01 + a11) := by linarith
  have e2 : a22 = -(a02 + a12) := by linarith
  subst e0 e1 e2
  nlinarith [h0, h1, h2]



/-- **End-to-end statement about the traced `eigs`**: for the matrix the code factorises, every generalised eigenpair `A x = λ B x`
    satisfies `(factorised) x = (λ − σ) B x` with the recorded `σ = −1/100`; since `λ ≥ 0 > σ` (C01/C02) the factor `λ − σ` is positive, so
    ARPACK's largest `1/(λ − σ)` are the smallest `λ` (Props/C03 `shift_order`). -/
theorem eigs_traced_shift
    (a00 a01 a02 a10 a11 a12 a20 a21 a22 b00 b01 b02 b10 b11 b12 b20 b21 b22 m ell lam x0 x1 x2 : ℝ)
    (h0 : a00 * x0 + a01 * x1 + a02 * x2 = lam * (b00 * x0 + b01 * x1 + b02 * x2))
    (h1 : a10 * x0 + a11 * x1 + a12 * x2 = lam * (b10 * x0 + b11 * x1 + b12 * x2))
    (h2 : a20 * x0 + a21 * x1 + a22 * x2 = lam * (b20 * x0 + b21 * x1 + b22 * x2)) :
    let S := fun k => [Gen.SolverGlue.shifted_0, Gen.SolverGlue.shifted_1, Gen.SolverGlue.shifted_2, Gen.SolverGlue.shifted_3, Gen.SolverGlue.shifted_4,
      Gen.SolverGlue.shifted_5, Gen.SolverGlue.shifted_6, Gen.SolverGlue.shifted_7, Gen.SolverGlue.shifted_8].getD k (fun _ _ _ _ _ _ _ _ _ _ _ _ _ _ _ _ _ _ _ _ => 0)
        a00 a01 a02 a10 a11 a12 a20 a21 a22 b00 b01 b02 b10 b11 b12 b20 b21 b22 m ell
    let sg := Gen.SolverGlue.sigma a00 a01 a02 a10 a11 a12 a20 a21 a22 b00 b01 b02 b10 b11 b12 b20 b21 b22 m ell
    S 0 * x0 + S 1 * x1 + S 2 * x2 = (lam - sg) * (b00 * x0 + b01 * x1 + b02 * x2) ∧
    S 3 * x0 + S 4 * x1 + S 5 * x2 = (lam - sg) * (b10 * x0 + b11 * x1 + b12 * x2) ∧
    S 6 * x0 + S 7 * x1 + S 8 * x2 = (lam - sg) * (b20 * x0 + b21 * x1 + b22 * x2) := by
  simp only [List.getD_cons_zero, List.getD_cons_succ, Gen.SolverGlue.shifted_0, Gen.SolverGlue.shifted_1, Gen.SolverGlue.shifted_2,
    Gen.SolverGlue.shifted_3, Gen.SolverGlue.shifted_4, Gen.SolverGlue.shifted_5, Gen.SolverGlue.shifted_6, Gen.SolverGlue.shifted_7,
    Gen.SolverGlue.shifted_8, Gen.SolverGlue.sigma]
  refine ⟨?_, ?_, ?_⟩ <;> linarith


/-! ### census of data-dependent decisions: the traced code took exactly the branches the model knows about -/
theorem census_SolverGlue_pcCount : Gen.SolverGlue.pcCount = 0 := rfl

end LapyVerif.Bridge
