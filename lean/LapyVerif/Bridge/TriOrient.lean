import LapyVerif.Bridge.Measures
import LapyVerif.Model.Orient
import LapyVerif.Generated.TriOrient
/-
  Bridge: `TriaMesh.orient_` (lapy/tria_mesh.py) traced on the boundary of a generic tetrahedron with symbolic vertices.  The flood is index
  arithmetic (it runs on concrete numbers while tracing); the one decision that depends on the coordinates is the sign of the enclosed volume.
  A: all triangles wound inward — the flood changes nothing, `volume() < 0` at the sample, every triangle is reversed, `T − 0` is returned.
  B: one triangle reversed — the flood repairs exactly that one, `volume() ≥ 0`, `1` is returned.
  In both cases the quantity compared with zero is the model's `Measures.volumeSum` and, under the recorded decision, the rewritten triangle
  array and the returned count are the model's `Orient.orient`.
-/
set_option linter.unusedTactic false
set_option linter.unusedSimpArgs false
set_option maxRecDepth 20000
namespace LapyVerif.Bridge
open LapyVerif

theorem tri_orient_volA (v0 v1 v2 v3 : V3 ℝ) :
    Measures.volumeSum (vtx4 v0 v1 v2 v3) Gen.TriOrient.inputA = Gen.TriOrient.volA v0 v1 v2 v3 := by
  simp only [Measures.volumeSum, Gen.TriOrient.inputA, List.map_cons, List.map_nil, vtx4, Measures.c, Gen.TriOrient.volA, List.sum_cons,
    List.sum_nil]
  v3_flat
  push_cast
  ring

theorem tri_orient_consistentA : Orient.consistent Gen.TriOrient.inputA = some (some (Gen.TriOrient.inputA, 0)) := by decide

theorem tri_orient_A (v0 v1 v2 v3 : V3 ℝ) (h : Gen.TriOrient.pcA v0 v1 v2 v3) :
    Orient.orient (vtx4 v0 v1 v2 v3) Gen.TriOrient.inputA = .ok Gen.TriOrient.resultA Gen.TriOrient.countA := by
  have hv : Gen.TriOrient.volA v0 v1 v2 v3 < 0 := by
    simpa [Gen.TriOrient.pcA, Gen.TriOrient.volA] using h
  have hc : Topo.isClosed Gen.TriOrient.inputA = true := by decide
  have ho : Topo.isOriented Gen.TriOrient.inputA = true := by decide
  simp only [Orient.orient, tri_orient_consistentA, Measures.volume, hc, ho, Bool.not_true, Bool.false_eq_true, if_false,
    tri_orient_volA, hv, if_true]
  have e1 : List.map Orient.swap12 Gen.TriOrient.inputA = Gen.TriOrient.resultA := by decide
  have e2 : Gen.TriOrient.inputA.length - 0 = Gen.TriOrient.countA := by decide
  rw [e1, e2]

theorem tri_orient_volB (v0 v1 v2 v3 : V3 ℝ) :
    Measures.volumeSum (vtx4 v0 v1 v2 v3) Gen.TriOrient.resultB = Gen.TriOrient.volB v0 v1 v2 v3 := by
  simp only [Measures.volumeSum, Gen.TriOrient.resultB, List.map_cons, List.map_nil, vtx4, Measures.c, Gen.TriOrient.volB, List.sum_cons,
    List.sum_nil]
  v3_flat
  push_cast
  ring

/-- the flood (index arithmetic only) repairs exactly the reversed triangle -/
theorem tri_orient_consistentB : Orient.consistent Gen.TriOrient.inputB = some (some (Gen.TriOrient.resultB, 1)) := by decide

theorem tri_orient_B (v0 v1 v2 v3 : V3 ℝ) (h : Gen.TriOrient.pcB v0 v1 v2 v3) :
    Orient.orient (vtx4 v0 v1 v2 v3) Gen.TriOrient.inputB = .ok Gen.TriOrient.resultB Gen.TriOrient.countB := by
  have hv : ¬ Gen.TriOrient.volB v0 v1 v2 v3 < 0 := by
    simpa [Gen.TriOrient.pcB, Gen.TriOrient.volB] using h
  have hc : Topo.isClosed Gen.TriOrient.resultB = true := by decide
  have ho : Topo.isOriented Gen.TriOrient.resultB = true := by decide
  simp only [Orient.orient, tri_orient_consistentB, Measures.volume, hc, ho, Bool.not_true, Bool.false_eq_true, if_false,
    tri_orient_volB, hv, Gen.TriOrient.countB]

/-! ### census of data-dependent decisions -/
theorem census_TriOrient_pcACount : Gen.TriOrient.pcACount = 1 := rfl
theorem census_TriOrient_pcBCount : Gen.TriOrient.pcBCount = 1 := rfl

end LapyVerif.Bridge
