import LapyVerif.Lemmas.BridgeTac
import LapyVerif.Model.Fem
import LapyVerif.Generated.FemTria
import LapyVerif.Generated.FemTriaMass
import LapyVerif.Generated.FemTriaAniso
import LapyVerif.Generated.FemTet
/-
  Bridge: what `/repo`'s FEM kernels compute *now* on one generic element (traced into `Generated/`)
  is the model's output, under the traced path condition.  A change of a weight, sign, operand or index in
  `lapy/solver.py` changes the generated term and one of these proofs stops closing.
-/
set_option linter.unusedTactic false
namespace LapyVerif.Bridge
open LapyVerif

/-! ### `_fem_tria` -/

theorem fem_tria_nd (v0 v1 v2 : V3 ℝ) (h : Gen.FemTria.pc v0 v1 v2) : ¬ (Fem.triVol v0 v1 v2 < epsK) := by
  rw [epsK_real]
  simpa [Gen.FemTria.pc, Fem.triVol, Fem.triCr, V3.normSq, V3.dot] using h

theorem fem_tria_A (v0 v1 v2 : V3 ℝ) (h : Gen.FemTria.pc v0 v1 v2) :
    Fem.stiffTria (vtx3 v0 v1 v2) [(0, 1, 2)] = Gen.FemTria.A v0 v1 v2 := by
  have h' := fem_tria_nd v0 v1 v2 h
  simp only [Fem.stiffTria, Fem.triVols, List.map, vtx3, Fem.clampLt, if_neg h', List.zip_cons_cons, List.zip_nil_right,
    List.flatten_cons, List.flatten_nil, List.append_nil, Fem.triBlockA, Fem.triBlock, Gen.FemTria.A]
  coo_entries <;>
  · simp only [Fem.triA12, Fem.triA23, Fem.triA31, Fem.triVol, Fem.triCr,
      Gen.FemTria.A_0, Gen.FemTria.A_1, Gen.FemTria.A_2, Gen.FemTria.A_3, Gen.FemTria.A_4, Gen.FemTria.A_5,
      Gen.FemTria.A_6, Gen.FemTria.A_7, Gen.FemTria.A_8]
    v3_flat
    push_cast
    ring

/-- the stiffness matrix does not depend on `lump` -/
theorem fem_tria_AL (v0 v1 v2 : V3 ℝ) : Gen.FemTria.AL v0 v1 v2 = Gen.FemTria.A v0 v1 v2 := by
  simp only [Gen.FemTria.AL, Gen.FemTria.A]
  coo_entries <;>
  · simp only [Gen.FemTria.A_0, Gen.FemTria.A_1, Gen.FemTria.A_2, Gen.FemTria.A_3, Gen.FemTria.A_4, Gen.FemTria.A_5,
      Gen.FemTria.A_6, Gen.FemTria.A_7, Gen.FemTria.A_8,
      Gen.FemTria.AL_0, Gen.FemTria.AL_1, Gen.FemTria.AL_2, Gen.FemTria.AL_3, Gen.FemTria.AL_4, Gen.FemTria.AL_5,
      Gen.FemTria.AL_6, Gen.FemTria.AL_7, Gen.FemTria.AL_8]

theorem fem_tria_B (v0 v1 v2 : V3 ℝ) (h : Gen.FemTria.pc v0 v1 v2) :
    Fem.massTria false (vtx3 v0 v1 v2) [(0, 1, 2)] = Gen.FemTria.B v0 v1 v2 := by
  have h' := fem_tria_nd v0 v1 v2 h
  simp only [Fem.massTria, Fem.triVols, List.map, vtx3, Fem.clampLt, if_neg h', List.zip_cons_cons, List.zip_nil_right,
    List.flatten_cons, List.flatten_nil, List.append_nil, Fem.triBlock, Gen.FemTria.B, Bool.false_eq_true, if_false]
  coo_entries <;>
  · simp only [Fem.triVol, Fem.triCr,
      Gen.FemTria.B_0, Gen.FemTria.B_1, Gen.FemTria.B_2, Gen.FemTria.B_3, Gen.FemTria.B_4, Gen.FemTria.B_5,
      Gen.FemTria.B_6, Gen.FemTria.B_7, Gen.FemTria.B_8]
    v3_flat
    push_cast
    ring

theorem fem_tria_BL (v0 v1 v2 : V3 ℝ) (h : Gen.FemTria.pc v0 v1 v2) :
    Fem.massTria true (vtx3 v0 v1 v2) [(0, 1, 2)] = Gen.FemTria.BL v0 v1 v2 := by
  have h' := fem_tria_nd v0 v1 v2 h
  simp only [Fem.massTria, Fem.triVols, List.map, vtx3, Fem.clampLt, if_neg h', List.zip_cons_cons, List.zip_nil_right,
    List.flatten_cons, List.flatten_nil, List.append_nil, Fem.triBlockL, Gen.FemTria.BL, if_true]
  coo_entries <;>
  · simp only [Fem.triVol, Fem.triCr, Gen.FemTria.BL_0, Gen.FemTria.BL_1, Gen.FemTria.BL_2]
    v3_flat
    push_cast
    ring

/-! ### `fem_tria_mass` -/

theorem fem_mass_nd (v0 v1 v2 : V3 ℝ) (h : Gen.FemTriaMass.pc v0 v1 v2) :
    ¬ ((((1 : Nat) : ℝ) / ((2 : Nat) : ℝ)) * sqrt (V3.normSq (Fem.triCr v0 v1 v2)) = 0) := by
  simpa [Gen.FemTriaMass.pc, Fem.triCr, V3.normSq, V3.dot] using h

theorem fem_mass_B (v0 v1 v2 : V3 ℝ) (h : Gen.FemTriaMass.pc v0 v1 v2) :
    Fem.massTriaStandalone false (vtx3 v0 v1 v2) [(0, 1, 2)] = Gen.FemTriaMass.B v0 v1 v2 := by
  have h' := fem_mass_nd v0 v1 v2 h
  simp only [Fem.massTriaStandalone, Fem.triVolsMass, List.map, vtx3, beq_iff_eq, if_neg h', List.zip_cons_cons,
    List.zip_nil_right, List.flatten_cons, List.flatten_nil, List.append_nil, Fem.triBlock, Gen.FemTriaMass.B,
    Bool.false_eq_true, if_false]
  coo_entries <;>
  · simp only [Fem.triCr, Gen.FemTriaMass.B_0, Gen.FemTriaMass.B_1, Gen.FemTriaMass.B_2, Gen.FemTriaMass.B_3, Gen.FemTriaMass.B_4, Gen.FemTriaMass.B_5, Gen.FemTriaMass.B_6, Gen.FemTriaMass.B_7, Gen.FemTriaMass.B_8]
    v3_flat
    push_cast
    ring

theorem fem_mass_BL (v0 v1 v2 : V3 ℝ) (h : Gen.FemTriaMass.pc v0 v1 v2) :
    Fem.massTriaStandalone true (vtx3 v0 v1 v2) [(0, 1, 2)] = Gen.FemTriaMass.BL v0 v1 v2 := by
  have h' := fem_mass_nd v0 v1 v2 h
  simp only [Fem.massTriaStandalone, Fem.triVolsMass, List.map, vtx3, beq_iff_eq, if_neg h', List.zip_cons_cons,
    List.zip_nil_right, List.flatten_cons, List.flatten_nil, List.append_nil, Fem.triBlockL, Gen.FemTriaMass.BL, if_true]
  coo_entries <;>
  · simp only [Fem.triCr, Gen.FemTriaMass.BL_0, Gen.FemTriaMass.BL_1, Gen.FemTriaMass.BL_2]
    v3_flat
    push_cast
    ring

/-! ### `_fem_tria_aniso` -/

theorem fem_aniso_nd (v0 v1 v2 u1 u2 : V3 ℝ) (d0 d1 : ℝ) (h : Gen.FemTriaAniso.pc v0 v1 v2 u1 u2 d0 d1) :
    ¬ (Fem.triVol v0 v1 v2 < epsK) := by
  rw [epsK_real]
  simpa [Gen.FemTriaAniso.pc, Fem.triVol, Fem.triCr, V3.normSq, V3.dot] using h

theorem fem_aniso_A (v0 v1 v2 u1 u2 : V3 ℝ) (d0 d1 : ℝ) (h : Gen.FemTriaAniso.pc v0 v1 v2 u1 u2 d0 d1) :
    Fem.stiffTriaAniso (vtx3 v0 v1 v2) [(0, 1, 2)] [(u1, u2, d0, d1)] = Gen.FemTriaAniso.A v0 v1 v2 u1 u2 d0 d1 := by
  have h' := fem_aniso_nd v0 v1 v2 u1 u2 d0 d1 h
  simp only [Fem.stiffTriaAniso, Fem.triVols, List.map, vtx3, Fem.clampLt, if_neg h', List.zip_cons_cons,
    List.zip_nil_right, List.flatten_cons, List.flatten_nil, List.append_nil, Fem.triBlockA, Fem.triBlock,
    Gen.FemTriaAniso.A]
  coo_entries <;>
  · simp only [Fem.anisoDot, Fem.triVol, Fem.triCr, Gen.FemTriaAniso.A_0, Gen.FemTriaAniso.A_1, Gen.FemTriaAniso.A_2, Gen.FemTriaAniso.A_3, Gen.FemTriaAniso.A_4, Gen.FemTriaAniso.A_5, Gen.FemTriaAniso.A_6, Gen.FemTriaAniso.A_7, Gen.FemTriaAniso.A_8]
    v3_flat
    push_cast
    ring

theorem fem_aniso_B (v0 v1 v2 u1 u2 : V3 ℝ) (d0 d1 : ℝ) (h : Gen.FemTriaAniso.pc v0 v1 v2 u1 u2 d0 d1) :
    Fem.massTria false (vtx3 v0 v1 v2) [(0, 1, 2)] = Gen.FemTriaAniso.B v0 v1 v2 u1 u2 d0 d1 := by
  have h' := fem_aniso_nd v0 v1 v2 u1 u2 d0 d1 h
  simp only [Fem.massTria, Fem.triVols, List.map, vtx3, Fem.clampLt, if_neg h', List.zip_cons_cons, List.zip_nil_right,
    List.flatten_cons, List.flatten_nil, List.append_nil, Fem.triBlock, Gen.FemTriaAniso.B, Bool.false_eq_true, if_false]
  coo_entries <;>
  · simp only [Fem.triVol, Fem.triCr, Gen.FemTriaAniso.B_0, Gen.FemTriaAniso.B_1, Gen.FemTriaAniso.B_2, Gen.FemTriaAniso.B_3, Gen.FemTriaAniso.B_4, Gen.FemTriaAniso.B_5, Gen.FemTriaAniso.B_6, Gen.FemTriaAniso.B_7, Gen.FemTriaAniso.B_8]
    v3_flat
    push_cast
    ring

/-! ### `_fem_tetra` -/

theorem fem_tet_nd (v0 v1 v2 v3 : V3 ℝ) (h : Gen.FemTet.pc v0 v1 v2 v3) : ¬ (Fem.tetVol v0 v1 v2 v3 = 0) := by
  simpa [Gen.FemTet.pc, Fem.tetVol, V3.dot] using h

theorem fem_tet_A (v0 v1 v2 v3 : V3 ℝ) (h : Gen.FemTet.pc v0 v1 v2 v3) :
    Fem.stiffTet (vtx4 v0 v1 v2 v3) [(0, 1, 2, 3)] = Gen.FemTet.A v0 v1 v2 v3 := by
  have h' := fem_tet_nd v0 v1 v2 v3 h
  simp only [Fem.stiffTet, Fem.tetVols, List.map, vtx4, beq_iff_eq, if_neg h', List.zip_cons_cons, List.zip_nil_right,
    List.flatten_cons, List.flatten_nil, List.append_nil, Fem.tetBlock, Fem.tetOff, Gen.FemTet.A]
  coo_entries <;>
  · simp only [Fem.tetVol, Gen.FemTet.A_0, Gen.FemTet.A_1, Gen.FemTet.A_2, Gen.FemTet.A_3, Gen.FemTet.A_4, Gen.FemTet.A_5, Gen.FemTet.A_6, Gen.FemTet.A_7, Gen.FemTet.A_8, Gen.FemTet.A_9, Gen.FemTet.A_10, Gen.FemTet.A_11, Gen.FemTet.A_12, Gen.FemTet.A_13, Gen.FemTet.A_14, Gen.FemTet.A_15]
    v3_flat
    push_cast
    ring

theorem fem_tet_B (v0 v1 v2 v3 : V3 ℝ) (h : Gen.FemTet.pc v0 v1 v2 v3) :
    Fem.massTet false (vtx4 v0 v1 v2 v3) [(0, 1, 2, 3)] = Gen.FemTet.B v0 v1 v2 v3 := by
  have h' := fem_tet_nd v0 v1 v2 v3 h
  simp only [Fem.massTet, Fem.tetVols, List.map, vtx4, beq_iff_eq, if_neg h', List.zip_cons_cons, List.zip_nil_right,
    List.flatten_cons, List.flatten_nil, List.append_nil, Fem.tetBlock, Gen.FemTet.B, Bool.false_eq_true, if_false]
  coo_entries <;>
  · simp only [Fem.tetVol, Gen.FemTet.B_0, Gen.FemTet.B_1, Gen.FemTet.B_2, Gen.FemTet.B_3, Gen.FemTet.B_4, Gen.FemTet.B_5, Gen.FemTet.B_6, Gen.FemTet.B_7, Gen.FemTet.B_8, Gen.FemTet.B_9, Gen.FemTet.B_10, Gen.FemTet.B_11, Gen.FemTet.B_12, Gen.FemTet.B_13, Gen.FemTet.B_14, Gen.FemTet.B_15]
    v3_flat
    push_cast
    ring

theorem fem_tet_BL (v0 v1 v2 v3 : V3 ℝ) (h : Gen.FemTet.pc v0 v1 v2 v3) :
    Fem.massTet true (vtx4 v0 v1 v2 v3) [(0, 1, 2, 3)] = Gen.FemTet.BL v0 v1 v2 v3 := by
  have h' := fem_tet_nd v0 v1 v2 v3 h
  simp only [Fem.massTet, Fem.tetVols, List.map, vtx4, beq_iff_eq, if_neg h', List.zip_cons_cons, List.zip_nil_right,
    List.flatten_cons, List.flatten_nil, List.append_nil, Fem.tetBlockL, Gen.FemTet.BL, if_true]
  coo_entries <;>
  · simp only [Fem.tetVol, Gen.FemTet.BL_0, Gen.FemTet.BL_1, Gen.FemTet.BL_2, Gen.FemTet.BL_3]
    v3_flat
    push_cast
    ring


/-! ### census of data-dependent decisions: the traced code took exactly the branches the model knows about -/
theorem census_FemTria_pcCount : Gen.FemTria.pcCount = 1 := rfl
theorem census_FemTriaMass_pcCount : Gen.FemTriaMass.pcCount = 1 := rfl
theorem census_FemTriaAniso_pcCount : Gen.FemTriaAniso.pcCount = 1 := rfl
theorem census_FemTet_pcCount : Gen.FemTet.pcCount = 1 := rfl

end LapyVerif.Bridge
