import LapyVerif.Lemmas.BridgeTac
import LapyVerif.Model.Measures
import LapyVerif.Generated.Measures
/-
  Bridge: the measure routines of `lapy/tria_mesh.py`, traced on the boundary of a generic tetrahedron
  (4 triangles, closed and oriented, so that `volume()` takes its main branch), are the model's.
-/
set_option linter.unusedTactic false
namespace LapyVerif.Bridge
open LapyVerif

def T4 : List Tri := [(0, 1, 2), (0, 3, 1), (0, 2, 3), (1, 3, 2)]

macro "vec_entries'" : tactic =>
  `(tactic| (simp only [List.cons.injEq, and_true]; and_intros))

theorem meas_areas (v0 v1 v2 v3 : V3 ℝ) :
    Measures.triAreas (vtx4 v0 v1 v2 v3) T4 = Gen.Measures.areas v0 v1 v2 v3 := by
  simp only [Measures.triAreas, T4, List.map, vtx4, Measures.heron, Measures.c, Gen.Measures.areas]
  vec_entries' <;>
  · simp only [Gen.Measures.areas_0, Gen.Measures.areas_1, Gen.Measures.areas_2, Gen.Measures.areas_3]
    v3_flat
    push_cast
    ring_nf

theorem meas_area (v0 v1 v2 v3 : V3 ℝ) :
    Measures.area (vtx4 v0 v1 v2 v3) T4 = Gen.Measures.area v0 v1 v2 v3 := by
  simp only [Measures.area, Measures.triAreas, T4, List.map, vtx4, Measures.heron, Measures.c, Gen.Measures.area,
    List.sum_cons, List.sum_nil]
  v3_flat
  push_cast
  ring_nf

theorem meas_volume (v0 v1 v2 v3 : V3 ℝ) :
    Measures.volume (vtx4 v0 v1 v2 v3) T4 = .ok (Gen.Measures.volume v0 v1 v2 v3) := by
  have hc : Topo.isClosed T4 = true := by decide
  have ho : Topo.isOriented T4 = true := by decide
  simp only [Measures.volume, hc, ho, Bool.not_true, Bool.false_eq_true, if_false]
  congr 1
  simp only [Measures.volumeSum, T4, List.map, vtx4, Measures.c, Gen.Measures.volume, List.sum_cons, List.sum_nil]
  v3_flat
  push_cast
  ring

theorem meas_normal_nd (v0 v1 v2 v3 : V3 ℝ) (h : Gen.Measures.pc v0 v1 v2 v3) :
    ¬ (Real.sqrt (V3.normSq (V3.cross (v1 - v0) (v2 - v0))) < epsK) := by
  rw [epsK_real]
  have := h.1
  simpa [Gen.Measures.pc, V3.normSq, V3.dot] using this

theorem meas_normal (v0 v1 v2 v3 : V3 ℝ) (h : Gen.Measures.pc v0 v1 v2 v3) :
    (let n := Measures.triNormal v0 v1 v2; [n.x, n.y, n.z]) = Gen.Measures.normal0 v0 v1 v2 v3 := by
  have h' := meas_normal_nd v0 v1 v2 v3 h
  simp only [Measures.triNormal, Measures.guard1, sqrt_real, if_neg h', Gen.Measures.normal0]
  vec_entries' <;>
  · simp only [Gen.Measures.normal0_0, Gen.Measures.normal0_1, Gen.Measures.normal0_2]
    v3_flat

theorem meas_qualities (v0 v1 v2 v3 : V3 ℝ) :
    Measures.triQualities (vtx4 v0 v1 v2 v3) T4 = Gen.Measures.qualities v0 v1 v2 v3 := by
  simp only [Measures.triQualities, T4, List.map, vtx4, Measures.triQuality, Measures.c, Gen.Measures.qualities]
  vec_entries' <;>
  · simp only [Gen.Measures.qualities_0, Gen.Measures.qualities_1, Gen.Measures.qualities_2, Gen.Measures.qualities_3]
    v3_flat
    push_cast
    ring_nf

theorem meas_total (v0 v1 v2 v3 : V3 ℝ) :
    (Measures.centroid (vtx4 v0 v1 v2 v3) T4).2 = Gen.Measures.total v0 v1 v2 v3 := by
  simp only [Measures.centroid, T4, List.map, vtx4, Measures.c, Gen.Measures.total, List.sum_cons, List.sum_nil]
  v3_flat
  push_cast
  ring_nf

/- `centroid` (vector part) and `normalize_` are traced into `Generated/Measures.lean` as well, but their terms (four
   square-root atoms under a common denominator) are too large for an unstructured `ring_nf` bridge within the default
   heartbeat budget; they are tied to the model by the differential check only (stated in the evidence of C13). -/


/-! ### census of data-dependent decisions: the traced code took exactly the branches the model knows about -/
theorem census_Measures_pcCount : Gen.Measures.pcCount = 4 := rfl

end LapyVerif.Bridge
