import LapyVerif.Lemmas.BridgeTac
import LapyVerif.Model.DiffGeo
import LapyVerif.Generated.DiffTri
import LapyVerif.Generated.DiffTetPos
import LapyVerif.Generated.DiffTetNeg
/-
  Bridge: the gradient / divergence kernels of `lapy/diffgeo.py`, traced on one generic element, are the model's.
  The tetrahedral kernels are traced once on a positively and once on a negatively oriented sample element
  (the code branches on the orientation sign).
-/
set_option linter.unusedTactic false
namespace LapyVerif.Bridge
open LapyVerif

macro "vec_entries" : tactic =>
  `(tactic| (simp only [List.cons.injEq, and_true]; and_intros))

/-! ### triangles -/

theorem diff_tri_nd (v0 v1 v2 : V3 ℝ) (f0 f1 f2 : ℝ) (X : V3 ℝ) (h : Gen.DiffTri.pc v0 v1 v2 f0 f1 f2 X) :
    (DiffGeo.triNormalLen v0 v1 v2).2 = Real.sqrt (V3.normSq (V3.cross (v1 - v0) (-(v0 - v2)))) := by
  have h' : ¬ (Real.sqrt (V3.normSq (V3.cross (v1 - v0) (-(v0 - v2)))) < epsK) := by
    rw [epsK_real]
    simpa [Gen.DiffTri.pc, V3.normSq, V3.dot] using h
  simp only [DiffGeo.triNormalLen, DiffGeo.guard1, sqrt_real, if_neg h']

theorem diff_tri_grad (v0 v1 v2 : V3 ℝ) (f0 f1 f2 : ℝ) (X : V3 ℝ) (h : Gen.DiffTri.pc v0 v1 v2 f0 f1 f2 X) :
    (let g := DiffGeo.triGrad1 v0 v1 v2 f0 f1 f2; [g.x, g.y, g.z]) = Gen.DiffTri.grad v0 v1 v2 f0 f1 f2 X := by
  have hl := diff_tri_nd v0 v1 v2 f0 f1 f2 X h
  simp only [DiffGeo.triGrad1, Gen.DiffTri.grad]
  rw [show DiffGeo.triNormalLen v0 v1 v2 = (V3.cross (v1 - v0) (-(v0 - v2)), (DiffGeo.triNormalLen v0 v1 v2).2) from rfl, hl]
  vec_entries <;>
  · simp only [Gen.DiffTri.grad_0, Gen.DiffTri.grad_1, Gen.DiffTri.grad_2]
    v3_flat
    push_cast
    ring

theorem diff_tri_div (v0 v1 v2 : V3 ℝ) (f0 f1 f2 : ℝ) (X : V3 ℝ) (h : Gen.DiffTri.pc v0 v1 v2 f0 f1 f2 X) :
    (let m := DiffGeo.triDiv (vtx3 v0 v1 v2) [(0, 1, 2)] [X]; [Coo.entry m 0 0, Coo.entry m 1 0, Coo.entry m 2 0])
      = Gen.DiffTri.div v0 v1 v2 f0 f1 f2 X := by
  have hl := diff_tri_nd v0 v1 v2 f0 f1 f2 X h
  simp only [DiffGeo.triDiv, DiffGeo.triDiv1, List.zip_cons_cons, List.zip_nil_right, List.map, List.flatten_cons,
    List.flatten_nil, List.append_nil, vtx3, Gen.DiffTri.div]
  rw [show DiffGeo.triNormalLen v0 v1 v2 = (V3.cross (v1 - v0) (-(v0 - v2)), (DiffGeo.triNormalLen v0 v1 v2).2) from rfl, hl]
  simp [Coo.entry]
  and_intros <;>
  · simp only [Gen.DiffTri.div_0, Gen.DiffTri.div_1, Gen.DiffTri.div_2, DiffGeo.half]
    v3_flat
    push_cast
    ring

theorem diff_tri_div2 (v0 v1 v2 : V3 ℝ) (f0 f1 f2 : ℝ) (X : V3 ℝ) (h : Gen.DiffTri.pc v0 v1 v2 f0 f1 f2 X) :
    (let m := DiffGeo.triDiv2 (vtx3 v0 v1 v2) [(0, 1, 2)] [X]; [Coo.entry m 0 0, Coo.entry m 1 0, Coo.entry m 2 0])
      = Gen.DiffTri.div2 v0 v1 v2 f0 f1 f2 X := by
  have hl := diff_tri_nd v0 v1 v2 f0 f1 f2 X h
  simp only [DiffGeo.triDiv2, DiffGeo.triDiv2_1, List.zip_cons_cons, List.zip_nil_right, List.map, List.flatten_cons,
    List.flatten_nil, List.append_nil, vtx3, Gen.DiffTri.div2]
  rw [show DiffGeo.triNormalLen v0 v1 v2 = (V3.cross (v1 - v0) (-(v0 - v2)), (DiffGeo.triNormalLen v0 v1 v2).2) from rfl, hl]
  simp [Coo.entry]
  and_intros <;>
  · simp only [Gen.DiffTri.div2_0, Gen.DiffTri.div2_1, Gen.DiffTri.div2_2, DiffGeo.half]
    v3_flat
    push_cast
    ring

/-! ### tetrahedra -/

theorem DiffTetPos_vol (v0 v1 v2 v3 : V3 ℝ) (f0 f1 f2 f3 : ℝ) (X : V3 ℝ) (h : Gen.DiffTetPos.pc v0 v1 v2 v3 f0 f1 f2 f3 X) :
    DiffGeo.tetGradVol v0 v1 v2 v3 = V3.dot (v3 - v0) (V3.cross (v1 - v0) (v0 - v2)) := by
  have h' : ¬ (|V3.dot (v3 - v0) (V3.cross (v1 - v0) (v0 - v2))| < epsK) := by
    rw [epsK_real]
    have := h.1
    simpa [Gen.DiffTetPos.pc, V3.dot] using this
  simp only [DiffGeo.tetGradVol, abs_real, if_neg h']

theorem DiffTetPos_grad (v0 v1 v2 v3 : V3 ℝ) (f0 f1 f2 f3 : ℝ) (X : V3 ℝ) (h : Gen.DiffTetPos.pc v0 v1 v2 v3 f0 f1 f2 f3 X) :
    (let g := DiffGeo.tetGrad1 v0 v1 v2 v3 f0 f1 f2 f3; [g.x, g.y, g.z]) = Gen.DiffTetPos.grad v0 v1 v2 v3 f0 f1 f2 f3 X := by
  have hv := DiffTetPos_vol v0 v1 v2 v3 f0 f1 f2 f3 X h
  simp only [DiffGeo.tetGrad1, Gen.DiffTetPos.grad, hv]
  vec_entries <;>
  · simp only [Gen.DiffTetPos.grad_0, Gen.DiffTetPos.grad_1, Gen.DiffTetPos.grad_2]
    v3_flat
    push_cast
    ring

theorem DiffTetNeg_vol (v0 v1 v2 v3 : V3 ℝ) (f0 f1 f2 f3 : ℝ) (X : V3 ℝ) (h : Gen.DiffTetNeg.pc v0 v1 v2 v3 f0 f1 f2 f3 X) :
    DiffGeo.tetGradVol v0 v1 v2 v3 = V3.dot (v3 - v0) (V3.cross (v1 - v0) (v0 - v2)) := by
  have h' : ¬ (|V3.dot (v3 - v0) (V3.cross (v1 - v0) (v0 - v2))| < epsK) := by
    rw [epsK_real]
    have := h.1
    simpa [Gen.DiffTetNeg.pc, V3.dot] using this
  simp only [DiffGeo.tetGradVol, abs_real, if_neg h']

theorem DiffTetNeg_grad (v0 v1 v2 v3 : V3 ℝ) (f0 f1 f2 f3 : ℝ) (X : V3 ℝ) (h : Gen.DiffTetNeg.pc v0 v1 v2 v3 f0 f1 f2 f3 X) :
    (let g := DiffGeo.tetGrad1 v0 v1 v2 v3 f0 f1 f2 f3; [g.x, g.y, g.z]) = Gen.DiffTetNeg.grad v0 v1 v2 v3 f0 f1 f2 f3 X := by
  have hv := DiffTetNeg_vol v0 v1 v2 v3 f0 f1 f2 f3 X h
  simp only [DiffGeo.tetGrad1, Gen.DiffTetNeg.grad, hv]
  vec_entries <;>
  · simp only [Gen.DiffTetNeg.grad_0, Gen.DiffTetNeg.grad_1, Gen.DiffTetNeg.grad_2]
    v3_flat
    push_cast
    ring

theorem DiffTetPos_div (v0 v1 v2 v3 : V3 ℝ) (f0 f1 f2 f3 : ℝ) (X : V3 ℝ) (h : Gen.DiffTetPos.pc v0 v1 v2 v3 f0 f1 f2 f3 X) :
    (let m := DiffGeo.tetDiv (vtx4 v0 v1 v2 v3) [(0, 1, 2, 3)] [X];
      [Coo.entry m 0 0, Coo.entry m 1 0, Coo.entry m 2 0, Coo.entry m 3 0]) = Gen.DiffTetPos.div v0 v1 v2 v3 f0 f1 f2 f3 X := by
  have hs : V3.dot (v3 - v0) (V3.cross (v2 - v0) (v1 - v0)) < 0 := by
    have := h.2
    simpa [Gen.DiffTetPos.pc, V3.dot] using this
  simp only [DiffGeo.tetDiv, DiffGeo.tetDiv1, DiffGeo.sgn, if_pos hs, List.zip_cons_cons, List.zip_nil_right, List.map,
    List.flatten_cons, List.flatten_nil, List.append_nil, vtx4, Gen.DiffTetPos.div]
  simp [Coo.entry]
  and_intros <;>
  · simp only [Gen.DiffTetPos.div_0, Gen.DiffTetPos.div_1, Gen.DiffTetPos.div_2, Gen.DiffTetPos.div_3]
    v3_flat
    push_cast
    ring

theorem DiffTetNeg_div (v0 v1 v2 v3 : V3 ℝ) (f0 f1 f2 f3 : ℝ) (X : V3 ℝ) (h : Gen.DiffTetNeg.pc v0 v1 v2 v3 f0 f1 f2 f3 X) :
    (let m := DiffGeo.tetDiv (vtx4 v0 v1 v2 v3) [(0, 1, 2, 3)] [X];
      [Coo.entry m 0 0, Coo.entry m 1 0, Coo.entry m 2 0, Coo.entry m 3 0]) = Gen.DiffTetNeg.div v0 v1 v2 v3 f0 f1 f2 f3 X := by
  have hs : 0 < V3.dot (v3 - v0) (V3.cross (v2 - v0) (v1 - v0)) := by
    have := h.2.2
    simpa [Gen.DiffTetNeg.pc, V3.dot] using this
  have hs' : ¬ (V3.dot (v3 - v0) (V3.cross (v2 - v0) (v1 - v0)) < 0) := not_lt.mpr hs.le
  simp only [DiffGeo.tetDiv, DiffGeo.tetDiv1, DiffGeo.sgn, if_neg hs', if_pos hs, List.zip_cons_cons, List.zip_nil_right,
    List.map, List.flatten_cons, List.flatten_nil, List.append_nil, vtx4, Gen.DiffTetNeg.div]
  simp [Coo.entry]
  and_intros <;>
  · simp only [Gen.DiffTetNeg.div_0, Gen.DiffTetNeg.div_1, Gen.DiffTetNeg.div_2, Gen.DiffTetNeg.div_3]
    v3_flat
    push_cast
    ring


/-! ### census of data-dependent decisions: the traced code took exactly the branches the model knows about -/
theorem census_DiffTri_pcCount : Gen.DiffTri.pcCount = 1 := rfl
theorem census_DiffTetPos_pcCount : Gen.DiffTetPos.pcCount = 2 := rfl
theorem census_DiffTetNeg_pcCount : Gen.DiffTetNeg.pcCount = 3 := rfl

end LapyVerif.Bridge
