import LapyVerif.Bridge.Measures
import LapyVerif.Model.Refine
import LapyVerif.Generated.RefineTri
/-
  Bridge: `TriaMesh.refine_(1)` (lapy/tria_mesh.py) traced on the boundary of a generic tetrahedron with symbolic vertices is the body of the model's
  `Refine.refine1` at the upper-triangular edge numbering: the four old vertices are kept, the six new ones are the edge midpoints in the order of the upper-triangular edge numbering,
  and the sixteen triangles (concrete indices) are the model's children — numbering included.
-/
set_option linter.unusedTactic false
set_option linter.unusedSimpArgs false
set_option maxRecDepth 20000
namespace LapyVerif.Bridge
open LapyVerif

/-- the body of `Refine.refine1` with the edge numbering as a parameter -/
noncomputable def refineBody (edges : List (Nat × Nat)) (verts : List (V3 ℝ)) (ts : List Tri) : List (V3 ℝ) × List Tri :=
  let vno := verts.length
  let vtx := fun i => verts.getD i ⟨0, 0, 0⟩
  let vnew := verts ++ edges.map fun k => Refine.midpoint (vtx k.1) (vtx k.2)
  let tnew := ts.flatMap fun (t0, t1, t2) =>
    let e1 := Refine.edgeVertex edges vno t0 t1
    let e2 := Refine.edgeVertex edges vno t1 t2
    let e3 := Refine.edgeVertex edges vno t2 t0
    [(t0, e1, e3), (t1, e2, e1), (t2, e3, e2), (e1, e2, e3)]
  (vnew, tnew)

/-- `refine1` is that body at the model's edge numbering (sorted distinct undirected edges) -/
theorem refine1_eq_body (verts : List (V3 ℝ)) (ts : List Tri) :
    Refine.refine1 verts ts = refineBody (Refine.edgeList ts) verts ts := rfl

/-- the upper-triangular numbering of the six edges of the tetrahedron boundary (what `Refine.edgeList T4` evaluates to; the merge sort is
    defined by well-founded recursion, which the kernel does not unfold, so this value is tied by the differential run of the compiled model) -/
def E6 : List (Nat × Nat) := [(0, 1), (0, 2), (0, 3), (1, 2), (1, 3), (2, 3)]

/-- **connectivity**: the sixteen triangles of the traced code, numbering included -/
theorem refine_trias (v0 v1 v2 v3 : V3 ℝ) :
    (refineBody E6 [v0, v1, v2, v3] T4).2 = Gen.RefineTri.trias := by
  simp only [refineBody, List.length_cons, List.length_nil]
  decide

/-- **coordinates**: old vertices unchanged, new vertices at the edge midpoints, in edge order -/
theorem refine_verts (v0 v1 v2 v3 : V3 ℝ) :
    ((refineBody E6 [v0, v1, v2, v3] T4).1.flatMap fun p => [p.x, p.y, p.z]) = Gen.RefineTri.verts v0 v1 v2 v3 := by
  simp only [refineBody, E6, List.map_cons, List.map_nil, List.cons_append, List.nil_append, List.append_nil,
    List.getD_cons_zero, List.getD_cons_succ, Refine.midpoint, List.flatMap_cons, List.flatMap_nil, Gen.RefineTri.verts]
  simp only [Gen.RefineTri.verts_0, Gen.RefineTri.verts_1, Gen.RefineTri.verts_2, Gen.RefineTri.verts_3, Gen.RefineTri.verts_4,
    Gen.RefineTri.verts_5, Gen.RefineTri.verts_6, Gen.RefineTri.verts_7, Gen.RefineTri.verts_8, Gen.RefineTri.verts_9,
    Gen.RefineTri.verts_10, Gen.RefineTri.verts_11, Gen.RefineTri.verts_12, Gen.RefineTri.verts_13, Gen.RefineTri.verts_14,
    Gen.RefineTri.verts_15, Gen.RefineTri.verts_16, Gen.RefineTri.verts_17, Gen.RefineTri.verts_18, Gen.RefineTri.verts_19,
    Gen.RefineTri.verts_20, Gen.RefineTri.verts_21, Gen.RefineTri.verts_22, Gen.RefineTri.verts_23, Gen.RefineTri.verts_24,
    Gen.RefineTri.verts_25, Gen.RefineTri.verts_26, Gen.RefineTri.verts_27, Gen.RefineTri.verts_28, Gen.RefineTri.verts_29]
  v3_flat
  push_cast
  rfl

theorem census_RefineTri_pcCount : Gen.RefineTri.pcCount = 0 := rfl

end LapyVerif.Bridge
