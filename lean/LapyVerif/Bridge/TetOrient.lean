import LapyVerif.Lemmas.BridgeTac
import LapyVerif.Model.TetTopo
import LapyVerif.Generated.TetOrient
/-
  Bridge: `TetMesh.orient_` / `TetMesh.is_oriented` (lapy/tet_mesh.py) traced on two tetrahedra sharing a face, `[[0,1,2,3],[1,3,2,4]]`, the
  first positively and the second negatively oriented at the concolic sample point: the quantities the code compares with zero are the model's
  `TetTopo.signedVol`, and under the recorded decisions the rewritten element array and the returned count are the model's `TetTopo.orient`.
-/
set_option linter.unusedTactic false
set_option linter.unusedSimpArgs false
namespace LapyVerif.Bridge
open LapyVerif

def vtx5 (a b c d e : V3 ℝ) : Nat → V3 ℝ := fun i => match i with
  | 0 => a | 1 => b | 2 => c | 3 => d | _ => e

/-- the two volumes the code compares with zero -/
theorem tet_vols (v0 v1 v2 v3 v4 : V3 ℝ) :
    TetTopo.signedVol (vtx5 v0 v1 v2 v3 v4) (0, 1, 2, 3) = Gen.TetOrient.vol0 v0 v1 v2 v3 v4 ∧
    TetTopo.signedVol (vtx5 v0 v1 v2 v3 v4) (1, 3, 2, 4) = Gen.TetOrient.vol1 v0 v1 v2 v3 v4 := by
  constructor <;>
  · simp only [TetTopo.signedVol, vtx5, Gen.TetOrient.vol0, Gen.TetOrient.vol1]
    v3_flat
    try ring

/-- the recorded decisions are `¬ vol0 < 0` and `vol1 < 0` -/
theorem tet_pc (v0 v1 v2 v3 v4 : V3 ℝ) :
    Gen.TetOrient.pcOrient v0 v1 v2 v3 v4 ↔ (¬ Gen.TetOrient.vol0 v0 v1 v2 v3 v4 < 0 ∧ Gen.TetOrient.vol1 v0 v1 v2 v3 v4 < 0) := by
  simp only [Gen.TetOrient.pcOrient, Gen.TetOrient.vol0, Gen.TetOrient.vol1]

/-- **`orient_`**: under the recorded decisions the model swaps vertices 1, 2 of exactly the second tetrahedron and returns 1 — what the code did -/
theorem tet_orient (v0 v1 v2 v3 v4 : V3 ℝ) (h : Gen.TetOrient.pcOrient v0 v1 v2 v3 v4) :
    TetTopo.orient (vtx5 v0 v1 v2 v3 v4) [(0, 1, 2, 3), (1, 3, 2, 4)] = (Gen.TetOrient.orientResult, Gen.TetOrient.orientCount) := by
  obtain ⟨h0, h1⟩ := (tet_pc v0 v1 v2 v3 v4).mp h
  rw [← (tet_vols v0 v1 v2 v3 v4).1] at h0
  rw [← (tet_vols v0 v1 v2 v3 v4).2] at h1
  simp only [TetTopo.orient, List.map_cons, List.map_nil, h0, h1, decide_false, decide_true, List.filter_cons, List.filter_nil, id,
    Bool.false_eq_true, if_false, if_true, List.length_cons, List.length_nil, List.zip_cons_cons, List.zip_nil_right,
    Gen.TetOrient.orientResult, Gen.TetOrient.orientCount]
  decide

/-- `is_oriented` answered False on the mixed pair, True after `orient_`, False on an all-negative pair -/
theorem tet_is_oriented_facts : Gen.TetOrient.isOrientedFacts = [("mixed", false), ("oriented", true), ("allneg", false)] := by decide

/-! ### census of data-dependent decisions -/
theorem census_TetOrient_pcOrientCount : Gen.TetOrient.pcOrientCount = 2 := rfl

end LapyVerif.Bridge
