import LapyVerif.Lemmas.BridgeTac
import LapyVerif.Props.C04b
import LapyVerif.Generated.ShapeDNA
/-
  Bridge: `normalize_ev` and `compute_shapedna` (lapy/shapedna.py) traced as protocols (geometry classes and Solver are recorders; the
  real power `x ** (2/3)` is the binder `pw`, instantiated with `Real.rpow`):
  * `normalize_ev` multiplies by `area` (surface; geometry of a triangle mesh) resp. `vol^(2/3)` (volume; geometry of a tetra mesh) — the model's
    `Spectral.normalizeEv`; the volume is that of an oriented COPY of a triangle mesh (the argument is never oriented), resp. of the oriented
    boundary surface of a tetra mesh;
  * `compute_shapedna` builds `Solver(geom, lump, aniso, aniso_smooth, use_cholmod)`, calls `eigs(k)`, passes its outputs on unchanged and
    reports `Refine = 0, Degree = 1, Dimension = 2 | 3, Elements = |t|, DoF = |v|, NumEW = k` — the model's `Spectral.dictFields`.
-/
set_option linter.unusedTactic false
set_option linter.unusedSimpArgs false
namespace LapyVerif.Bridge
open LapyVerif

theorem sdna_normalize (l0 l1 l2 ar vol : ℝ) :
    Spectral.normalizeEv .surface false [l0, l1, l2] ar vol = Gen.ShapeDNA.normTriSurface Real.rpow l0 l1 l2 ar vol ∧
    Spectral.normalizeEv .volume false [l0, l1, l2] ar vol = Gen.ShapeDNA.normTriVolume Real.rpow l0 l1 l2 ar vol ∧
    Spectral.normalizeEv .geometry false [l0, l1, l2] ar vol = Gen.ShapeDNA.normTriGeometry Real.rpow l0 l1 l2 ar vol ∧
    Spectral.normalizeEv .volume true [l0, l1, l2] ar vol = Gen.ShapeDNA.normTetVolume Real.rpow l0 l1 l2 ar vol ∧
    Spectral.normalizeEv .geometry true [l0, l1, l2] ar vol = Gen.ShapeDNA.normTetGeometry Real.rpow l0 l1 l2 ar vol := by
  refine ⟨?_, ?_, ?_, ?_, ?_⟩ <;>
  · simp only [Spectral.normalizeEv, Spectral.pow23, HasRpow.rpow, List.map_cons, List.map_nil, Bool.false_eq_true, if_false, if_true,
      Gen.ShapeDNA.normTriSurface, Gen.ShapeDNA.normTriVolume, Gen.ShapeDNA.normTriGeometry, Gen.ShapeDNA.normTetVolume, Gen.ShapeDNA.normTetGeometry,
      Gen.ShapeDNA.normTriSurface_0, Gen.ShapeDNA.normTriSurface_1, Gen.ShapeDNA.normTriSurface_2,
      Gen.ShapeDNA.normTriVolume_0, Gen.ShapeDNA.normTriVolume_1, Gen.ShapeDNA.normTriVolume_2,
      Gen.ShapeDNA.normTriGeometry_0, Gen.ShapeDNA.normTriGeometry_1, Gen.ShapeDNA.normTriGeometry_2,
      Gen.ShapeDNA.normTetVolume_0, Gen.ShapeDNA.normTetVolume_1, Gen.ShapeDNA.normTetVolume_2,
      Gen.ShapeDNA.normTetGeometry_0, Gen.ShapeDNA.normTetGeometry_1, Gen.ShapeDNA.normTetGeometry_2]
    try push_cast
    try rfl

theorem sdna_facts : Gen.ShapeDNA.facts =
    [("normalize_ev TriaMesh surface", "area of the argument"),
     ("normalize_ev TriaMesh volume", "orient_ on a copy built from (v, t) > volume of a copy built from (v, t)"),
     ("normalize_ev TriaMesh geometry", "area of the argument"),
     ("normalize_ev TetMesh volume", "boundary_tria of the argument > orient_ on boundary_tria() > volume of boundary_tria()"),
     ("normalize_ev TetMesh geometry", "boundary_tria of the argument > orient_ on boundary_tria() > volume of boundary_tria()"),
     ("compute_shapedna TriaMesh fields", "Refine=0, Degree=1, Dimension=2, Elements=7, DoF=5, NumEW=6"),
     ("compute_shapedna TriaMesh keys", "Degree Dimension DoF Eigenvalues Eigenvectors Elements NumEW Refine"),
     ("compute_shapedna TriaMesh solver", "Solver(geom, aniso=(1.0, 2.0), aniso_smooth=4, lump=True, use_cholmod=False) eigs(k=6) outputs passed on: True"),
     ("compute_shapedna TetMesh fields", "Refine=0, Degree=1, Dimension=3, Elements=7, DoF=5, NumEW=6"),
     ("compute_shapedna TetMesh keys", "Degree Dimension DoF Eigenvalues Eigenvectors Elements NumEW Refine"),
     ("compute_shapedna TetMesh solver", "Solver(geom, aniso=(1.0, 2.0), aniso_smooth=4, lump=True, use_cholmod=False) eigs(k=6) outputs passed on: True")] := by
  decide

/-- the integer fields are the model's `dictFields` for 7 elements, 5 vertices, k = 6 -/
theorem sdna_fields :
    Spectral.dictFields false 7 5 6 = [("Refine", 0), ("Degree", 1), ("Dimension", 2), ("Elements", 7), ("DoF", 5), ("NumEW", 6)] ∧
    Spectral.dictFields true 7 5 6 = [("Refine", 0), ("Degree", 1), ("Dimension", 3), ("Elements", 7), ("DoF", 5), ("NumEW", 6)] := by
  decide

/-! ### census of data-dependent decisions -/
theorem census_ShapeDNA_pcCount : Gen.ShapeDNA.pcCount = 0 := rfl

end LapyVerif.Bridge
