import LapyVerif.Lemmas.Loops
/-
  C09 — connectivity queries of `TriaMesh` (`is_closed`, `is_manifold`, `is_oriented`, `euler`, `has_free_vertices`,
  `vertex_degrees`, `boundary_loops`, `edges`) say what their names say.

  All theorems are about the executable model `Model/Topo.lean` (which is tied to `/repo` elsewhere) for EVERY
  triangle list — no bound on the number of triangles.  The only mesh hypothesis is `Distinct ts` (every triangle has
  three different vertex indices); it is necessary: for `ts = [(0,0,1)]` the key `(0,0)` is stored in `adj_sym`
  and `(0,1)` is stored with value 2 although only one triangle contains the edge `{0,1}`.
-/
namespace LapyVerif.Props.C09
open LapyVerif Lemmas

/-! ## definitions -/

/-- each triangle has pairwise distinct vertices -/
def Distinct (ts : List Tri) : Prop := ∀ τ ∈ ts, τ.1 ≠ τ.2.1 ∧ τ.2.1 ≠ τ.2.2 ∧ τ.2.2 ≠ τ.1

instance (ts : List Tri) : Decidable (Distinct ts) := by unfold Distinct; infer_instance

/-- `v` is a vertex of `τ` -/
def isVert (τ : Tri) (v : Nat) : Bool := v == τ.1 || v == τ.2.1 || v == τ.2.2

/-- `{a,b}` is an (undirected) edge of `τ`: both are vertices of `τ` and `a ≠ b` -/
def hasEdge (τ : Tri) (a b : Nat) : Bool := isVert τ a && isVert τ b && a != b

/-- `a→b` is one of the three directed half-edges `t0→t1`, `t1→t2`, `t2→t0` of `τ` -/
def hasHalfEdge (τ : Tri) (a b : Nat) : Bool :=
  (a == τ.1 && b == τ.2.1) || (a == τ.2.1 && b == τ.2.2) || (a == τ.2.2 && b == τ.1)

/-- number of triangles that contain the undirected edge `{a,b}` -/
def edgeCount (ts : List Tri) (a b : Nat) : Nat := (ts.filter fun τ => hasEdge τ a b).length

/-- number of triangles that contain the directed half-edge `a→b` -/
def halfEdgeCount (ts : List Tri) (a b : Nat) : Nat := (ts.filter fun τ => hasHalfEdge τ a b).length

/-- the six symmetric keys of one triangle, in the code's order -/
def triSymKeys (τ : Tri) : List (Nat × Nat) :=
  [(τ.1, τ.2.1), (τ.2.1, τ.1), (τ.2.1, τ.2.2), (τ.2.2, τ.2.1), (τ.2.2, τ.1), (τ.1, τ.2.2)]

/-- the three directed keys of one triangle -/
def triDirKeys (τ : Tri) : List (Nat × Nat) := [(τ.1, τ.2.1), (τ.2.1, τ.2.2), (τ.2.2, τ.1)]

/-- the three vertices of one triangle -/
def triVerts (τ : Tri) : List Nat := [τ.1, τ.2.1, τ.2.2]

/-- all vertex slots of the triangle array (`t.reshape(-1)`) -/
def allVerts (ts : List Tri) : List Nat := ts.flatMap triVerts

/-- the distinct undirected edges, each once as `(a,b)` with `a < b` (see `mem_undirEdges`, `nodup_undirEdges`) -/
def undirEdges (ts : List Tri) : List (Nat × Nat) :=
  ((ts.flatMap triSymKeys).eraseDups).filter fun k => decide (k.1 < k.2)

/-- number of distinct undirected edges -/
def numEdges (ts : List Tri) : Nat := (undirEdges ts).length

/-- the distinct neighbours of vertex `j` (see `mem_neighbours`, `nodup_neighbours`) -/
def neighbours (ts : List Tri) (j : Nat) : List Nat :=
  ((allVerts ts).filter fun i => decide (0 < edgeCount ts i j)).eraseDups

/-- every index of the triangle array is `< nv` -/
def InRange (nv : Nat) (ts : List Tri) : Prop := ∀ τ ∈ ts, τ.1 < nv ∧ τ.2.1 < nv ∧ τ.2.2 < nv

instance (nv : Nat) (ts : List Tri) : Decidable (InRange nv ts) := by unfold InRange; infer_instance

/-- boundary of a tetrahedron: closed, manifold, oriented -/
def tetra : List Tri := [(0, 1, 2), (0, 3, 1), (0, 2, 3), (1, 3, 2)]
/-- two triangles sharing the edge `{1,2}`, consistently oriented: open, manifold, oriented -/
def strip : List Tri := [(0, 1, 2), (1, 3, 2)]
/-- the same strip with the second triangle flipped: open, manifold, not oriented -/
def stripFlipped : List Tri := [(0, 1, 2), (1, 2, 3)]
/-- three triangles around one edge `{0,1}`: not manifold -/
def fan3 : List Tri := [(0, 1, 2), (0, 1, 3), (0, 1, 4)]

/-! ## the model's key lists, triangle by triangle -/

theorem symKeys_eq (ts : List Tri) : Topo.symKeys ts = ts.flatMap triSymKeys := by
  unfold Topo.symKeys
  congr 1

theorem dirKeys_eq (ts : List Tri) : Topo.dirKeys ts = ts.flatMap triDirKeys := by
  unfold Topo.dirKeys
  congr 1

theorem adjSym_eq (ts : List Tri) : Topo.adjSym ts = unit (Topo.symKeys ts) := rfl
theorem adjDir_eq (ts : List Tri) : Topo.adjDir ts = unit (Topo.dirKeys ts) := rfl

theorem count_triSymKeys (τ : Tri) (a b : Nat) (h : τ.1 ≠ τ.2.1 ∧ τ.2.1 ≠ τ.2.2 ∧ τ.2.2 ≠ τ.1) :
    (triSymKeys τ).count (a, b) = if hasEdge τ a b then 1 else 0 := by
  obtain ⟨t0, t1, t2⟩ := τ
  obtain ⟨h01, h12, h20⟩ := h
  simp only [triSymKeys, hasEdge, isVert, List.count_cons, List.count_nil, beq_iff_eq, Prod.mk.injEq,
    Bool.and_eq_true, Bool.or_eq_true, bne_iff_ne] at *
  grind

theorem count_triDirKeys (τ : Tri) (a b : Nat) (h : τ.1 ≠ τ.2.1 ∧ τ.2.1 ≠ τ.2.2 ∧ τ.2.2 ≠ τ.1) :
    (triDirKeys τ).count (a, b) = if hasHalfEdge τ a b then 1 else 0 := by
  obtain ⟨t0, t1, t2⟩ := τ
  obtain ⟨h01, h12, h20⟩ := h
  simp only [triDirKeys, hasHalfEdge, List.count_cons, List.count_nil, beq_iff_eq, Prod.mk.injEq,
    Bool.and_eq_true, Bool.or_eq_true] at *
  grind

theorem Distinct.tail {τ : Tri} {ts : List Tri} (h : Distinct (τ :: ts)) : Distinct ts :=
  fun σ hσ => h σ (List.mem_cons_of_mem _ hσ)

/-- stored symmetric value = number of triangles containing the edge (also for `a = b`: both are 0) -/
theorem count_symKeys (ts : List Tri) (hd : Distinct ts) (a b : Nat) :
    (Topo.symKeys ts).count (a, b) = edgeCount ts a b := by
  rw [symKeys_eq]
  induction ts with
  | nil => simp [edgeCount]
  | cons τ ts ih =>
    have hτ := hd τ List.mem_cons_self
    have ih' := ih hd.tail
    simp only [List.flatMap_cons, List.count_append, ih', count_triSymKeys τ a b hτ, edgeCount,
      List.filter_cons]
    split <;> simp [Nat.add_comm]

/-- stored directed value = number of triangles containing the half-edge -/
theorem count_dirKeys (ts : List Tri) (hd : Distinct ts) (a b : Nat) :
    (Topo.dirKeys ts).count (a, b) = halfEdgeCount ts a b := by
  rw [dirKeys_eq]
  induction ts with
  | nil => simp [halfEdgeCount]
  | cons τ ts ih =>
    have hτ := hd τ List.mem_cons_self
    have ih' := ih hd.tail
    simp only [List.flatMap_cons, List.count_append, ih', count_triDirKeys τ a b hτ, halfEdgeCount,
      List.filter_cons]
    split <;> simp [Nat.add_comm]

theorem edgeCount_comm (ts : List Tri) (a b : Nat) : edgeCount ts a b = edgeCount ts b a := by
  unfold edgeCount
  congr 1
  apply List.filter_congr
  intro τ _
  show (isVert τ a && isVert τ b && a != b) = (isVert τ b && isVert τ a && b != a)
  rw [Bool.and_comm (isVert τ a) (isVert τ b), bne_comm]

theorem edgeCount_self (ts : List Tri) (a : Nat) : edgeCount ts a a = 0 := by
  simp [edgeCount, hasEdge]

theorem edgeCount_pos_iff (ts : List Tri) (a b : Nat) :
    0 < edgeCount ts a b ↔ ∃ τ ∈ ts, hasEdge τ a b = true := by
  simp [edgeCount, List.length_pos_iff_exists_mem, List.mem_filter]

/-! ## 1. entries of the adjacency matrices -/

/-- `adj_sym[a,b]` is the number of occurrences of the key, and for a mesh with non-degenerate index triples
    that is the number of triangles containing the undirected edge `{a,b}`.
    (The second part holds for `a = b` too, see `count_symKeys`; the hypothesis `a ≠ b` is kept as in the task
    statement.) -/
theorem entry_adjSym (ts : List Tri) (a b : Nat) :
    Coo.entry (Topo.adjSym ts) a b = (Topo.symKeys ts).count (a, b) ∧
    (Distinct ts → a ≠ b → (Topo.symKeys ts).count (a, b) = edgeCount ts a b) :=
  ⟨entry_unit _ a b, fun hd _ => count_symKeys ts hd a b⟩

/-- `adj_dir[a,b]` is the number of triangles containing the half-edge `a→b` -/
theorem entry_adjDir (ts : List Tri) (a b : Nat) :
    Coo.entry (Topo.adjDir ts) a b = (Topo.dirKeys ts).count (a, b) ∧
    (Distinct ts → (Topo.dirKeys ts).count (a, b) = halfEdgeCount ts a b) :=
  ⟨entry_unit _ a b, fun hd => count_dirKeys ts hd a b⟩

theorem entry_adjSym_eq (ts : List Tri) (hd : Distinct ts) (a b : Nat) :
    Coo.entry (Topo.adjSym ts) a b = edgeCount ts a b := by
  rw [(entry_adjSym ts a b).1, count_symKeys ts hd]

theorem entry_adjDir_eq (ts : List Tri) (hd : Distinct ts) (a b : Nat) :
    Coo.entry (Topo.adjDir ts) a b = halfEdgeCount ts a b := by
  rw [(entry_adjDir ts a b).1, count_dirKeys ts hd]

example : Distinct tetra := by decide
example : Distinct strip := by decide
example : Coo.entry (Topo.adjSym tetra) 1 2 = 2 ∧ edgeCount tetra 1 2 = 2 := by decide
example : Coo.entry (Topo.adjSym strip) 0 1 = 1 ∧ edgeCount strip 0 1 = 1 := by decide
example : Coo.entry (Topo.adjDir strip) 1 2 = 1 ∧ Coo.entry (Topo.adjDir strip) 2 1 = 1 ∧
    halfEdgeCount strip 1 2 = 1 := by decide
/-- `Distinct` is necessary: a degenerate triple stores 2 where one triangle contains the edge -/
example : Coo.entry (Topo.adjSym [(0, 0, 1)]) 0 1 = 2 ∧ edgeCount [(0, 0, 1)] 0 1 = 1 := by decide

/-! ## 2.–4. closed / manifold / oriented -/

/-- `is_closed`: no undirected edge belongs to exactly one triangle -/
theorem isClosed_iff (ts : List Tri) (hd : Distinct ts) :
    Topo.isClosed ts = true ↔ ∀ a b, edgeCount ts a b ≠ 1 := by
  unfold Topo.isClosed Topo.symData
  rw [adjSym_eq, Bool.not_eq_true', ← Bool.not_eq_true, contains_one_data_unit]
  constructor
  · intro h a b hab
    exact h ⟨(a, b), by rw [count_symKeys ts hd]; exact hab⟩
  · rintro h ⟨⟨a, b⟩, hk⟩
    rw [count_symKeys ts hd] at hk
    exact h a b hk

example : Topo.isClosed tetra = true := by decide
example : ∀ a b, edgeCount tetra a b ≠ 1 := (isClosed_iff tetra (by decide)).1 (by decide)
example : Topo.isClosed strip = false := by decide
example : ¬ ∀ a b, edgeCount strip a b ≠ 1 := fun h => h 0 1 (by decide)

/-- `is_manifold`: every undirected edge belongs to at most two triangles -/
theorem isManifold_iff (ts : List Tri) (hd : Distinct ts) :
    Topo.isManifold ts = true ↔ ∀ a b, edgeCount ts a b ≤ 2 := by
  unfold Topo.isManifold Topo.symData
  rw [adjSym_eq, decide_eq_true_eq, maxL_data_unit_le]
  constructor
  · intro h a b
    rw [← count_symKeys ts hd]; exact h (a, b)
  · rintro h ⟨a, b⟩
    rw [count_symKeys ts hd]; exact h a b

example : Topo.isManifold tetra = true := by decide
example : Topo.isManifold strip = true := by decide
example : ∀ a b, edgeCount strip a b ≤ 2 := (isManifold_iff strip (by decide)).1 (by decide)
example : Distinct fan3 ∧ Topo.isManifold fan3 = false := by decide
example : ¬ ∀ a b, edgeCount fan3 a b ≤ 2 := fun h => absurd (h 0 1) (by decide)

/-- `is_oriented`: no directed half-edge occurs in two triangles — and the mesh is not empty
    (`np.max(...) == 1` is false, in fact raises, for an empty triangle array). -/
theorem isOriented_iff (ts : List Tri) (hd : Distinct ts) :
    Topo.isOriented ts = true ↔ ts ≠ [] ∧ ∀ a b, halfEdgeCount ts a b ≤ 1 := by
  unfold Topo.isOriented Topo.dirData
  rw [adjDir_eq, beq_iff_eq, maxL_data_unit_eq_one]
  have hne : Topo.dirKeys ts ≠ [] ↔ ts ≠ [] := by
    cases ts with
    | nil => simp [Topo.dirKeys]
    | cons τ ts => simp [dirKeys_eq, triDirKeys]
  rw [hne]
  constructor
  · rintro ⟨h1, h⟩
    refine ⟨h1, fun a b => ?_⟩
    rw [← count_dirKeys ts hd]; exact h (a, b)
  · rintro ⟨h1, h⟩
    refine ⟨h1, ?_⟩
    rintro ⟨a, b⟩
    rw [count_dirKeys ts hd]; exact h a b

example : Topo.isOriented tetra = true := by decide
example : Topo.isOriented strip = true := by decide
example : ∀ a b, halfEdgeCount strip a b ≤ 1 := ((isOriented_iff strip (by decide)).1 (by decide)).2
example : Distinct stripFlipped ∧ Topo.isOriented stripFlipped = false := by decide
example : ¬ ∀ a b, halfEdgeCount stripFlipped a b ≤ 1 := fun h => absurd (h 1 2) (by decide)
example : Topo.isOriented [] = false := by decide

/-! ## 5. number of stored entries, Euler characteristic -/

theorem keys_adjSym (ts : List Tri) : Coo.keys (Topo.adjSym ts) = (Topo.symKeys ts).eraseDups := by
  rw [adjSym_eq, keys_unit]

theorem mem_keys_adjSym (ts : List Tri) (k : Nat × Nat) :
    k ∈ Coo.keys (Topo.adjSym ts) ↔ k ∈ Topo.symKeys ts := by
  rw [keys_adjSym, List.mem_eraseDups]

theorem mem_triSymKeys_swap (τ : Tri) (a b : Nat) : (a, b) ∈ triSymKeys τ → (b, a) ∈ triSymKeys τ := by
  simp only [triSymKeys, List.mem_cons, Prod.mk.injEq, List.not_mem_nil, or_false]
  grind

theorem mem_symKeys_swap (ts : List Tri) (a b : Nat) : (a, b) ∈ Topo.symKeys ts → (b, a) ∈ Topo.symKeys ts := by
  simp only [symKeys_eq, List.mem_flatMap]
  rintro ⟨τ, hτ, h⟩
  exact ⟨τ, hτ, mem_triSymKeys_swap τ a b h⟩

theorem mem_symKeys_iff (ts : List Tri) (hd : Distinct ts) (a b : Nat) :
    (a, b) ∈ Topo.symKeys ts ↔ 0 < edgeCount ts a b := by
  rw [← count_symKeys ts hd, List.count_pos_iff]

theorem nodup_keys_adjSym (ts : List Tri) : (Coo.keys (Topo.adjSym ts)).Nodup := by
  rw [keys_adjSym]; exact nodup_eraseDups _

/-- `undirEdges` lists exactly the pairs `a < b` that are an edge of some triangle … -/
theorem mem_undirEdges (ts : List Tri) (hd : Distinct ts) (a b : Nat) :
    (a, b) ∈ undirEdges ts ↔ a < b ∧ 0 < edgeCount ts a b := by
  unfold undirEdges
  rw [← symKeys_eq, List.mem_filter, List.mem_eraseDups, mem_symKeys_iff ts hd]
  simp [and_comm]

/-- … each once -/
theorem nodup_undirEdges (ts : List Tri) : (undirEdges ts).Nodup :=
  (nodup_eraseDups _).filter _

/-- `adj_sym` has a symmetric sparsity pattern with empty diagonal and stores two entries per undirected edge -/
theorem nnz_adjSym (ts : List Tri) (hd : Distinct ts) :
    (∀ a b, (a, b) ∈ Coo.keys (Topo.adjSym ts) ↔ (b, a) ∈ Coo.keys (Topo.adjSym ts)) ∧
    (∀ a, (a, a) ∉ Coo.keys (Topo.adjSym ts)) ∧
    Coo.nnz (Topo.adjSym ts) = 2 * numEdges ts := by
  have hsym : ∀ a b, (a, b) ∈ Coo.keys (Topo.adjSym ts) → (b, a) ∈ Coo.keys (Topo.adjSym ts) := by
    intro a b
    rw [mem_keys_adjSym, mem_keys_adjSym]
    exact mem_symKeys_swap ts a b
  have hdiag : ∀ a, (a, a) ∉ Coo.keys (Topo.adjSym ts) := by
    intro a
    rw [mem_keys_adjSym, mem_symKeys_iff ts hd, edgeCount_self]
    omega
  refine ⟨fun a b => ⟨hsym a b, hsym b a⟩, hdiag, ?_⟩
  unfold Coo.nnz
  rw [length_symm_nodup _ (nodup_keys_adjSym ts) hsym hdiag, keys_adjSym, symKeys_eq]
  rfl

theorem usedVerts_eq (ts : List Tri) : Topo.usedVerts ts = ((allVerts ts).eraseDups).mergeSort := by
  unfold Topo.usedVerts allVerts
  congr 2

theorem usedVerts_perm (ts : List Tri) : (Topo.usedVerts ts).Perm (allVerts ts).eraseDups := by
  rw [usedVerts_eq]; exact List.mergeSort_perm _ _

/-- `np.unique` has no duplicates -/
theorem nodup_usedVerts (ts : List Tri) : (Topo.usedVerts ts).Nodup :=
  (usedVerts_perm ts).nodup_iff.mpr (nodup_eraseDups _)

/-- `np.unique` lists exactly the indices occurring in the triangle array -/
theorem mem_usedVerts (ts : List Tri) (v : Nat) :
    v ∈ Topo.usedVerts ts ↔ ∃ τ ∈ ts, v = τ.1 ∨ v = τ.2.1 ∨ v = τ.2.2 := by
  rw [(usedVerts_perm ts).mem_iff, List.mem_eraseDups]
  simp [allVerts, triVerts]

theorem length_usedVerts (ts : List Tri) : (Topo.usedVerts ts).length = (allVerts ts).eraseDups.length :=
  (usedVerts_perm ts).length_eq

/-- `euler = V − E + F` with `V` = number of used vertices, `E` = number of distinct undirected edges,
    `F` = number of triangles -/
theorem euler_spec (ts : List Tri) (hd : Distinct ts) :
    Topo.euler ts = ((Topo.usedVerts ts).length : Int) - (numEdges ts : Int) + (ts.length : Int) := by
  unfold Topo.euler
  rw [(nnz_adjSym ts hd).2.2, Nat.mul_div_cancel_left _ (by decide : 0 < 2)]

example : Coo.nnz (Topo.adjSym tetra) = 12 ∧ numEdges tetra = 6 := by decide
example : Topo.euler tetra = 2 := by
  rw [euler_spec tetra (by decide), length_usedVerts]; decide
example : Topo.euler strip = 1 := by
  rw [euler_spec strip (by decide), length_usedVerts]; decide
/-- without `Distinct` a diagonal key is stored and `nnz` is odd -/
example : (0, 0) ∈ Coo.keys (Topo.adjSym [(0, 0, 1)]) ∧ Coo.nnz (Topo.adjSym [(0, 0, 1)]) = 3 := by decide

/-! ## 6. free vertices -/

/-- `has_free_vertices`: some vertex index `< nv` is used by no triangle (needs all indices in range; otherwise
    an out-of-range index is counted as used, e.g. `nv = 3`, `ts = [(0,1,5)]` gives `false` although 2 is free) -/
theorem hasFree_iff (nv : Nat) (ts : List Tri) (hr : InRange nv ts) :
    Topo.hasFreeVertices nv ts = true ↔ ∃ v < nv, ∀ τ ∈ ts, v ≠ τ.1 ∧ v ≠ τ.2.1 ∧ v ≠ τ.2.2 := by
  have hlt : ∀ x ∈ Topo.usedVerts ts, x < nv := by
    intro x hx
    obtain ⟨τ, hτ, h⟩ := (mem_usedVerts ts x).1 hx
    have := hr τ hτ
    omega
  have key := nodup_length_eq_iff (Topo.usedVerts ts) nv (nodup_usedVerts ts) hlt
  unfold Topo.hasFreeVertices
  rw [bne_iff_ne, Ne, eq_comm, key]
  simp only [mem_usedVerts]
  constructor
  · intro h
    by_contra hc
    apply h
    intro v hv
    by_contra hv'
    apply hc
    refine ⟨v, hv, fun τ hτ => ?_⟩
    by_contra h3
    apply hv'
    exact ⟨τ, hτ, by omega⟩
  · rintro ⟨v, hv, h⟩ hall
    obtain ⟨τ, hτ, h'⟩ := hall v hv
    have := h τ hτ
    omega

example : InRange 4 tetra := by decide
example : Topo.hasFreeVertices 4 tetra = false := by
  unfold Topo.hasFreeVertices; rw [length_usedVerts]; decide
example : InRange 5 tetra ∧ ∃ v < 5, ∀ τ ∈ tetra, v ≠ τ.1 ∧ v ≠ τ.2.1 ∧ v ≠ τ.2.2 :=
  ⟨by decide, 4, by decide, by decide⟩
example : Topo.hasFreeVertices 5 tetra = true :=
  (hasFree_iff 5 tetra (by decide)).2 ⟨4, by decide, by decide⟩

/-! ## 7. vertex degrees -/

theorem isVert_of_hasEdge {τ : Tri} {a b : Nat} (h : hasEdge τ a b = true) : isVert τ a = true := by
  simp only [hasEdge, Bool.and_eq_true] at h
  exact h.1.1

theorem mem_allVerts (ts : List Tri) (v : Nat) : v ∈ allVerts ts ↔ ∃ τ ∈ ts, isVert τ v = true := by
  simp [allVerts, triVerts, isVert, or_assoc]

/-- the neighbour list contains exactly the vertices joined to `j` by an edge … -/
theorem mem_neighbours (ts : List Tri) (i j : Nat) : i ∈ neighbours ts j ↔ 0 < edgeCount ts i j := by
  unfold neighbours
  rw [List.mem_eraseDups, List.mem_filter, decide_eq_true_eq, mem_allVerts]
  constructor
  · exact fun h => h.2
  · intro h
    refine ⟨?_, h⟩
    obtain ⟨τ, hτ, he⟩ := (edgeCount_pos_iff ts i j).1 h
    exact ⟨τ, hτ, isVert_of_hasEdge he⟩

/-- … each once -/
theorem nodup_neighbours (ts : List Tri) (j : Nat) : (neighbours ts j).Nodup := nodup_eraseDups _

theorem length_vertexDegrees (nv : Nat) (ts : List Tri) : (Topo.vertexDegrees nv ts).length = nv := by
  simp [Topo.vertexDegrees]

/-- `vertex_degrees[j]` is the number of distinct neighbours of `j` -/
theorem vertexDegrees_spec (nv : Nat) (ts : List Tri) (hd : Distinct ts) (j : Nat) (hj : j < nv) :
    (Topo.vertexDegrees nv ts)[j]? = some (neighbours ts j).length := by
  unfold Topo.vertexDegrees
  simp only [List.getElem?_map, List.getElem?_range hj, Option.map_some, Option.some.injEq]
  have hnd : ((Coo.keys (Topo.adjSym ts)).filter fun k => k.2 == j).Nodup := (nodup_keys_adjSym ts).filter _
  rw [← List.length_map (f := Prod.fst)]
  apply length_eq_of_nodup_of_mem_iff
  · apply hnd.map_on
    rintro ⟨a, b⟩ hx ⟨c, d⟩ hy h
    simp only [List.mem_filter, beq_iff_eq] at hx hy
    simp only at h
    rw [h, hx.2, hy.2]
  · exact nodup_neighbours ts j
  · intro i
    rw [mem_neighbours, ← mem_symKeys_iff ts hd, ← mem_keys_adjSym]
    simp only [List.mem_map, List.mem_filter, beq_iff_eq, Prod.exists, exists_and_right, exists_eq_right]

example : Topo.vertexDegrees 4 tetra = [3, 3, 3, 3] := by decide
example : (neighbours tetra 0).length = 3 := by decide
example : Topo.vertexDegrees 5 strip = [2, 3, 3, 2, 0] := by decide
example : (Topo.vertexDegrees 5 strip)[1]? = some (neighbours strip 1).length :=
  vertexDegrees_spec 5 strip (by decide) 1 (by decide)

/-! ## 8. `boundary_loops` error paths -/

theorem loops_errors (ts : List Tri) :
    (Topo.isManifold ts = false → Topo.boundaryLoops ts = .valueError) ∧
    (Topo.isManifold ts = true → Topo.isClosed ts = true → Topo.boundaryLoops ts = .loops []) ∧
    (Topo.isManifold ts = true → Topo.isClosed ts = false → Topo.isOriented ts = false →
      Topo.boundaryLoops ts = .valueError) := by
  refine ⟨?_, ?_, ?_⟩
  · intro h; simp [Topo.boundaryLoops, h]
  · intro h1 h2; simp [Topo.boundaryLoops, h1, h2]
  · intro h1 h2 h3; simp [Topo.boundaryLoops, h1, h2, h3]

example : Topo.isManifold fan3 = false ∧ Topo.boundaryLoops fan3 = .valueError :=
  ⟨by decide, (loops_errors fan3).1 (by decide)⟩
example : Topo.boundaryLoops tetra = .loops [] := (loops_errors tetra).2.1 (by decide) (by decide)
example : Topo.boundaryLoops stripFlipped = .valueError :=
  (loops_errors stripFlipped).2.2 (by decide) (by decide) (by decide)

/-! ## 9. `edges` error path -/

theorem edges_error (ts : List Tri) (h : Topo.isOriented ts = false) : Topo.edges ts = none := by
  simp [Topo.edges, h]

example : Topo.edges stripFlipped = none := edges_error _ (by decide)
example : Topo.edges [] = none := edges_error _ (by decide)


/-! ## stretch (a): `edges` on an oriented mesh -/

def triDirTid (x : Tri × Nat) : Coo Nat :=
  [((x.1.1, x.1.2.1), x.2 + 1), ((x.1.2.1, x.1.2.2), x.2 + 1), ((x.1.2.2, x.1.1), x.2 + 1)]

theorem dirTidx_eq (ts : List Tri) : Topo.dirTidx ts = ts.zipIdx.flatMap triDirTid := by
  unfold Topo.dirTidx
  congr 1

theorem entry_append (l₁ l₂ : Coo Nat) (a b : Nat) :
    Coo.entry (l₁ ++ l₂) a b = Coo.entry l₁ a b + Coo.entry l₂ a b := by
  simp [Coo.entry, List.filter_append, List.map_append, List.sum_append]

theorem entry_triDirTid (τ : Tri) (k a b : Nat) (h : τ.1 ≠ τ.2.1 ∧ τ.2.1 ≠ τ.2.2 ∧ τ.2.2 ≠ τ.1) :
    Coo.entry (triDirTid (τ, k)) a b = if hasHalfEdge τ a b then k + 1 else 0 := by
  obtain ⟨t0, t1, t2⟩ := τ
  obtain ⟨h01, h12, h20⟩ := h
  simp only [triDirTid, Coo.entry, hasHalfEdge, List.filter_cons, List.filter_nil, beq_iff_eq,
    Bool.and_eq_true, Bool.or_eq_true] at *
  split_ifs <;> simp <;> omega

/-- `D n ts`: the tidx triplets when the first triangle has index `n` -/
theorem map_fst_tid (ts : List Tri) (n : Nat) :
    ((ts.zipIdx n).flatMap triDirTid).map (·.1) = ts.flatMap triDirKeys := by
  induction ts generalizing n with
  | nil => simp
  | cons τ ts ih =>
    simp only [List.zipIdx_cons, List.flatMap_cons, List.map_append, ih]
    rfl

theorem keys_dirTidx (ts : List Tri) : Coo.keys (Topo.dirTidx ts) = (Topo.dirKeys ts).eraseDups := by
  unfold Coo.keys
  rw [dirTidx_eq, map_fst_tid, dirKeys_eq]

theorem halfEdgeCount_cons (τ : Tri) (ts : List Tri) (a b : Nat) :
    halfEdgeCount (τ :: ts) a b = (if hasHalfEdge τ a b then 1 else 0) + halfEdgeCount ts a b := by
  simp only [halfEdgeCount, List.filter_cons]
  split <;> simp [Nat.add_comm]

theorem edgeCount_cons (τ : Tri) (ts : List Tri) (a b : Nat) :
    edgeCount (τ :: ts) a b = (if hasEdge τ a b then 1 else 0) + edgeCount ts a b := by
  simp only [edgeCount, List.filter_cons]
  split <;> simp [Nat.add_comm]

theorem entry_tid_aux (ts : List Tri) (hd : Distinct ts) (a b : Nat) (n : Nat) :
    (halfEdgeCount ts a b = 0 → Coo.entry ((ts.zipIdx n).flatMap triDirTid) a b = 0) ∧
    (halfEdgeCount ts a b = 1 → ∃ p τ, ts[p]? = some τ ∧ hasHalfEdge τ a b = true ∧
      Coo.entry ((ts.zipIdx n).flatMap triDirTid) a b = n + p + 1) := by
  induction ts generalizing n with
  | nil => simp [halfEdgeCount, Coo.entry]
  | cons τ ts ih =>
    have hτ := hd τ List.mem_cons_self
    obtain ⟨ih0, ih1⟩ := ih hd.tail (n + 1)
    simp only [List.zipIdx_cons, List.flatMap_cons, entry_append, entry_triDirTid τ n a b hτ,
      halfEdgeCount_cons]
    by_cases hh : hasHalfEdge τ a b = true
    · simp only [hh, if_true]
      refine ⟨by omega, fun h => ?_⟩
      refine ⟨0, τ, by simp, hh, ?_⟩
      rw [ih0 (by omega)]
    · simp only [hh]
      refine ⟨fun h => by simpa using ih0 (by simpa using h), fun h => ?_⟩
      obtain ⟨p, σ, hp, hσ, he⟩ := ih1 (by simpa using h)
      refine ⟨p + 1, σ, by simpa using hp, hσ, ?_⟩
      simp only [Bool.false_eq_true, if_false, he]; omega

/-- if exactly one triangle contains the half-edge `a→b`, the stored tidx value is its index + 1 -/
theorem entry_dirTidx (ts : List Tri) (hd : Distinct ts) (a b : Nat) (h : halfEdgeCount ts a b = 1) :
    ∃ p τ, ts[p]? = some τ ∧ hasHalfEdge τ a b = true ∧ Coo.entry (Topo.dirTidx ts) a b = p + 1 := by
  obtain ⟨p, τ, h1, h2, h3⟩ := (entry_tid_aux ts hd a b 0).2 h
  exact ⟨p, τ, h1, h2, by rw [dirTidx_eq, h3]; omega⟩

theorem halfEdge_index_unique (ts : List Tri) (a b : Nat) (h : halfEdgeCount ts a b ≤ 1) (p q : Nat) (τ σ : Tri)
    (hp : ts[p]? = some τ) (hq : ts[q]? = some σ) (hτ : hasHalfEdge τ a b = true) (hσ : hasHalfEdge σ a b = true) :
    p = q := by
  induction ts generalizing p q with
  | nil => simp at hp
  | cons ρ ts ih =>
    rw [halfEdgeCount_cons] at h
    have hpos : ∀ (r : Nat) (ρ' : Tri), ts[r]? = some ρ' → hasHalfEdge ρ' a b = true → 0 < halfEdgeCount ts a b := by
      intro r ρ' hr hρ'
      unfold halfEdgeCount
      apply List.length_pos_iff_exists_mem.mpr
      exact ⟨ρ', List.mem_filter.mpr ⟨List.mem_of_getElem? hr, hρ'⟩⟩
    cases p with
    | zero =>
      cases q with
      | zero => rfl
      | succ q =>
        simp only [List.getElem?_cons_zero, Option.some.injEq] at hp
        simp only [List.getElem?_cons_succ] at hq
        subst hp
        have := hpos q σ hq hσ
        simp only [hτ, if_true] at h; omega
    | succ p =>
      cases q with
      | zero =>
        simp only [List.getElem?_cons_zero, Option.some.injEq] at hq
        simp only [List.getElem?_cons_succ] at hp
        subst hq
        have := hpos p τ hp hτ
        simp only [hσ, if_true] at h; omega
      | succ q =>
        simp only [List.getElem?_cons_succ] at hp hq
        rw [ih (by omega) p q hp hq]

theorem hasEdge_eq_or (τ : Tri) (a b : Nat) (h : τ.1 ≠ τ.2.1 ∧ τ.2.1 ≠ τ.2.2 ∧ τ.2.2 ≠ τ.1) :
    hasEdge τ a b = (hasHalfEdge τ a b || hasHalfEdge τ b a) ∧
    ¬ (hasHalfEdge τ a b = true ∧ hasHalfEdge τ b a = true) := by
  obtain ⟨t0, t1, t2⟩ := τ
  obtain ⟨h01, h12, h20⟩ := h
  rw [Bool.eq_iff_iff]
  simp only [hasEdge, isVert, hasHalfEdge, beq_iff_eq, Bool.and_eq_true, Bool.or_eq_true, bne_iff_ne] at *
  grind

/-- every triangle containing `{a,b}` contains exactly one of `a→b`, `b→a` -/
theorem edgeCount_eq_add (ts : List Tri) (hd : Distinct ts) (a b : Nat) :
    edgeCount ts a b = halfEdgeCount ts a b + halfEdgeCount ts b a := by
  induction ts with
  | nil => simp [edgeCount, halfEdgeCount]
  | cons τ ts ih =>
    have hτ := hasEdge_eq_or τ a b (hd τ List.mem_cons_self)
    rw [edgeCount_cons, halfEdgeCount_cons, halfEdgeCount_cons, ih hd.tail, hτ.1]
    by_cases h1 : hasHalfEdge τ a b = true <;> by_cases h2 : hasHalfEdge τ b a = true
    · exact absurd ⟨h1, h2⟩ hτ.2
    · simp [h1, h2]; omega
    · simp [h1, h2]; omega
    · simp [h1, h2]

theorem halfEdgeCount_le_one (ts : List Tri) (hd : Distinct ts) (ho : Topo.isOriented ts = true) (a b : Nat) :
    halfEdgeCount ts a b ≤ 1 := ((isOriented_iff ts hd).1 ho).2 a b

/-- for non-degenerate index triples, oriented implies manifold -/
theorem isManifold_of_isOriented (ts : List Tri) (hd : Distinct ts) (ho : Topo.isOriented ts = true) :
    Topo.isManifold ts = true := by
  rw [isManifold_iff ts hd]
  intro a b
  have h1 := halfEdgeCount_le_one ts hd ho a b
  have h2 := halfEdgeCount_le_one ts hd ho b a
  rw [edgeCount_eq_add ts hd]; omega

/-! ### the pieces of `edges` -/

/-- boundary keys: stored symmetric keys with value 1, sorted -/
def bdKeys (ts : List Tri) : List (Nat × Nat) :=
  ((Coo.keys (Topo.adjSym ts)).filter fun k => Coo.entry (Topo.adjSym ts) k.1 k.2 == 1).mergeSort
    (fun a b => Topo.lexLe a b)

/-- stored half-edge keys that are not boundary keys -/
def interiorHalfEdges (ts : List Tri) : List (Nat × Nat) :=
  (Coo.keys (Topo.dirTidx ts)).filter fun k => !(bdKeys ts).contains k

def upperKeys (ts : List Tri) : List (Nat × Nat) :=
  ((interiorHalfEdges ts).filter fun k => k.1 ≤ k.2).mergeSort (fun a b => Topo.lexLe a b)

def upperKeysT (ts : List Tri) : List (Nat × Nat) :=
  (((interiorHalfEdges ts).map fun k => (k.2, k.1)).filter fun k => k.1 ≤ k.2).mergeSort
    (fun a b => Topo.lexLe a b)

theorem edges_eq (ts : List Tri) (ho : Topo.isOriented ts = true) :
    ∃ r, Topo.edges ts = some r ∧ r.vids = upperKeys ts ∧
      r.tids = ((upperKeys ts).zip (upperKeysT ts)).map fun (k, k') =>
        (((Coo.entry (Topo.dirTidx ts) k.1 k.2 : Nat) : Int) - 1,
         ((Coo.entry (Topo.dirTidx ts) k'.2 k'.1 : Nat) : Int) - 1) := by
  unfold Topo.edges
  simp only [ho, Bool.not_true, Bool.false_eq_true, if_false]
  exact ⟨_, rfl, rfl, rfl⟩

theorem lexLe_trans (a b c : Nat × Nat) : Topo.lexLe a b = true → Topo.lexLe b c = true → Topo.lexLe a c = true := by
  simp only [Topo.lexLe, Bool.or_eq_true, Bool.and_eq_true, decide_eq_true_eq, beq_iff_eq]
  omega

theorem lexLe_total (a b : Nat × Nat) : (Topo.lexLe a b || Topo.lexLe b a) = true := by
  simp only [Topo.lexLe, Bool.or_eq_true, Bool.and_eq_true, decide_eq_true_eq, beq_iff_eq]
  omega

theorem lexLe_antisymm (a b : Nat × Nat) : Topo.lexLe a b = true → Topo.lexLe b a = true → a = b := by
  obtain ⟨a1, a2⟩ := a
  obtain ⟨b1, b2⟩ := b
  simp only [Topo.lexLe, Bool.or_eq_true, Bool.and_eq_true, decide_eq_true_eq, beq_iff_eq, Prod.mk.injEq]
  omega

theorem pairwise_sortLex (l : List (Nat × Nat)) :
    (l.mergeSort fun a b => Topo.lexLe a b).Pairwise fun a b => Topo.lexLe a b = true :=
  List.pairwise_mergeSort (le := fun a b => Topo.lexLe a b) lexLe_trans lexLe_total l

/-- sorting two duplicate-free lists with the same members gives the same list -/
theorem sortLex_eq (l₁ l₂ : List (Nat × Nat)) (d₁ : l₁.Nodup) (d₂ : l₂.Nodup) (h : ∀ k, k ∈ l₁ ↔ k ∈ l₂) :
    (l₁.mergeSort fun a b => Topo.lexLe a b) = l₂.mergeSort fun a b => Topo.lexLe a b := by
  apply List.Perm.eq_of_pairwise (le := fun a b => Topo.lexLe a b = true)
  · intro a b _ _; exact lexLe_antisymm a b
  · exact pairwise_sortLex l₁
  · exact pairwise_sortLex l₂
  · exact ((List.mergeSort_perm l₁ _).trans ((List.perm_ext_iff_of_nodup d₁ d₂).2 h)).trans
      (List.mergeSort_perm l₂ _).symm

theorem mem_bdKeys (ts : List Tri) (hd : Distinct ts) (a b : Nat) :
    (a, b) ∈ bdKeys ts ↔ edgeCount ts a b = 1 := by
  unfold bdKeys
  rw [(List.mergeSort_perm _ _).mem_iff, List.mem_filter, mem_keys_adjSym, mem_symKeys_iff ts hd,
    beq_iff_eq, entry_adjSym_eq ts hd]
  dsimp only
  omega

theorem mem_interiorHalfEdges (ts : List Tri) (hd : Distinct ts) (a b : Nat) :
    (a, b) ∈ interiorHalfEdges ts ↔ 0 < halfEdgeCount ts a b ∧ edgeCount ts a b ≠ 1 := by
  unfold interiorHalfEdges
  rw [List.mem_filter, keys_dirTidx, List.mem_eraseDups, ← List.count_pos_iff, count_dirKeys ts hd,
    Bool.not_eq_true', ← Bool.not_eq_true, List.contains_iff_mem, mem_bdKeys ts hd]

theorem mem_interiorHalfEdges' (ts : List Tri) (hd : Distinct ts) (ho : Topo.isOriented ts = true) (a b : Nat) :
    (a, b) ∈ interiorHalfEdges ts ↔ edgeCount ts a b = 2 := by
  rw [mem_interiorHalfEdges ts hd, edgeCount_eq_add ts hd]
  have h1 := halfEdgeCount_le_one ts hd ho a b
  have h2 := halfEdgeCount_le_one ts hd ho b a
  omega

theorem nodup_interiorHalfEdges (ts : List Tri) : (interiorHalfEdges ts).Nodup := by
  unfold interiorHalfEdges
  rw [keys_dirTidx]
  exact (nodup_eraseDups _).filter _

theorem mem_upperKeys (ts : List Tri) (hd : Distinct ts) (ho : Topo.isOriented ts = true) (a b : Nat) :
    (a, b) ∈ upperKeys ts ↔ a < b ∧ edgeCount ts a b = 2 := by
  unfold upperKeys
  rw [(List.mergeSort_perm _ _).mem_iff, List.mem_filter, mem_interiorHalfEdges' ts hd ho, decide_eq_true_eq]
  constructor
  · rintro ⟨h1, h2⟩
    refine ⟨?_, h1⟩
    have : a ≠ b := by rintro rfl; rw [edgeCount_self] at h1; omega
    show a < b
    have h2' : a ≤ b := h2
    omega
  · rintro ⟨h1, h2⟩; exact ⟨h2, Nat.le_of_lt h1⟩

theorem nodup_upperKeys (ts : List Tri) : (upperKeys ts).Nodup :=
  (List.mergeSort_perm _ _).nodup_iff.mpr ((nodup_interiorHalfEdges ts).filter _)

theorem upperKeysT_eq (ts : List Tri) (hd : Distinct ts) (ho : Topo.isOriented ts = true) :
    upperKeysT ts = upperKeys ts := by
  unfold upperKeysT upperKeys
  apply sortLex_eq
  · apply List.Nodup.filter
    apply (nodup_interiorHalfEdges ts).map
    rintro ⟨a, b⟩ ⟨c, d⟩ h
    simp only [Prod.mk.injEq] at h
    simp [h.1, h.2]
  · exact (nodup_interiorHalfEdges ts).filter _
  · rintro ⟨a, b⟩
    simp only [List.mem_filter, List.mem_map, Prod.exists, Prod.mk.injEq, decide_eq_true_eq]
    constructor
    · rintro ⟨⟨c, d, h, rfl, rfl⟩, hle⟩
      rw [mem_interiorHalfEdges' ts hd ho] at h ⊢
      rw [edgeCount_comm]; exact ⟨h, hle⟩
    · rintro ⟨h, hle⟩
      refine ⟨⟨b, a, ?_, rfl, rfl⟩, hle⟩
      rw [mem_interiorHalfEdges' ts hd ho] at h ⊢
      rw [edgeCount_comm]; exact h

/-- `edges`: for an oriented mesh with non-degenerate index triples (such a mesh is manifold, see
    `isManifold_of_isOriented`), `vids` lists exactly the undirected edges shared by two triangles, each once, as
    `(i,j)` with `i < j`, in lexicographic order; `tids[n] = (p, q)` where `p` is the index of the triangle
    containing the half-edge `i→j` and `q ≠ p` the index of the one containing `j→i` (these indices are unique,
    see `halfEdge_index_unique`). -/
theorem edges_spec (ts : List Tri) (hd : Distinct ts) (ho : Topo.isOriented ts = true) :
    ∃ r, Topo.edges ts = some r ∧
      r.vids.Nodup ∧
      r.vids.Pairwise (fun a b => Topo.lexLe a b = true) ∧
      (∀ i j, (i, j) ∈ r.vids ↔ i < j ∧ edgeCount ts i j = 2) ∧
      r.tids.length = r.vids.length ∧
      ∀ (n i j : Nat), r.vids[n]? = some (i, j) →
        ∃ (p q : Nat) (τp τq : Tri), r.tids[n]? = some ((p : Int), (q : Int)) ∧ p ≠ q ∧
          ts[p]? = some τp ∧ hasHalfEdge τp i j = true ∧
          ts[q]? = some τq ∧ hasHalfEdge τq j i = true := by
  obtain ⟨r, hr, hv, ht⟩ := edges_eq ts ho
  rw [upperKeysT_eq ts hd ho, zip_self, List.map_map] at ht
  refine ⟨r, hr, ?_, ?_, ?_, ?_, ?_⟩
  · rw [hv]; exact nodup_upperKeys ts
  · rw [hv]; exact pairwise_sortLex _
  · rw [hv]; exact mem_upperKeys ts hd ho
  · rw [ht, hv, List.length_map]
  · intro n i j hn
    rw [hv] at hn
    have hmem : (i, j) ∈ upperKeys ts := List.mem_of_getElem? hn
    obtain ⟨hlt, h2⟩ := (mem_upperKeys ts hd ho i j).1 hmem
    have h1 := halfEdgeCount_le_one ts hd ho i j
    have h1' := halfEdgeCount_le_one ts hd ho j i
    rw [edgeCount_eq_add ts hd] at h2
    obtain ⟨p, τp, hp, hτp, hep⟩ := entry_dirTidx ts hd i j (by omega)
    obtain ⟨q, τq, hq, hτq, heq⟩ := entry_dirTidx ts hd j i (by omega)
    refine ⟨p, q, τp, τq, ?_, ?_, hp, hτp, hq, hτq⟩
    · rw [ht, List.getElem?_map, hn]
      simp only [Option.map_some, Function.comp_apply, hep, heq, Option.some.injEq, Prod.mk.injEq]
      constructor <;> omega
    · rintro rfl
      rw [hp] at hq
      simp only [Option.some.injEq] at hq
      subst hq
      exact (hasEdge_eq_or τp i j (hd τp (List.mem_of_getElem? hp))).2 ⟨hτp, hτq⟩

example : ∃ r, Topo.edges tetra = some r ∧ (0, 1) ∈ r.vids ∧ (1, 0) ∉ r.vids := by
  obtain ⟨r, hr, _, _, hm, _⟩ := edges_spec tetra (by decide) (by decide)
  exact ⟨r, hr, (hm 0 1).2 (by decide), fun h => absurd ((hm 1 0).1 h).1 (by decide)⟩
example : ∃ r, Topo.edges strip = some r ∧ (1, 2) ∈ r.vids ∧ (0, 1) ∉ r.vids := by
  obtain ⟨r, hr, _, _, hm, _⟩ := edges_spec strip (by decide) (by decide)
  exact ⟨r, hr, (hm 1 2).2 (by decide), fun h => absurd ((hm 0 1).1 h).2 (by decide)⟩

/-! ## stretch (b): `boundary_loops` on a boundary whose predecessor map is a permutation

`Lemmas.PermLike bd`: `bd` is duplicate-free, every vertex has at most one outgoing half-edge and every vertex with
an outgoing half-edge has an incoming one.  (Then, by counting, every vertex has exactly one incoming half-edge as
well, so "at most one incoming" need not be assumed.)  `Lemmas.cycleEdges l` are the half-edges
`(l[k+1], l[k])` of the cyclic vertex list `l`, including the closing one `(l[0], l[last])`. -/

theorem cycleEdges_consecutive (l : List Nat) (k : Nat) (h : k + 1 < l.length) :
    (l[k + 1], l[k]) ∈ cycleEdges l := by
  unfold cycleEdges
  have hk : k < ((l.drop 1 ++ l.take 1).zip l).length := by simp; omega
  have hk1 : k < (l.drop 1).length := by simp; omega
  have e : ((l.drop 1 ++ l.take 1).zip l)[k] = (l[k + 1], l[k]) := by
    rw [List.getElem_zip, List.getElem_append_left hk1, List.getElem_drop]
    simp [Nat.add_comm]
  rw [← e]; exact List.getElem_mem hk

theorem cycleEdges_closing (l : List Nat) (h : 0 < l.length) :
    (l[0], l[l.length - 1]) ∈ cycleEdges l := by
  unfold cycleEdges
  have hk : l.length - 1 < ((l.drop 1 ++ l.take 1).zip l).length := by simp; omega
  have hk1 : (l.drop 1).length ≤ l.length - 1 := by simp
  have e : ((l.drop 1 ++ l.take 1).zip l)[l.length - 1] = (l[0], l[l.length - 1]) := by
    rw [List.getElem_zip, List.getElem_append_right hk1]
    simp
  rw [← e]; exact List.getElem_mem hk

/-- `loopsFrom` with the fuel the model supplies terminates; every returned loop is a non-empty duplicate-free vertex
    list whose consecutive entries `(l[k+1], l[k])` and closing pair `(l[0], l[last])` are half-edges of `bd`;
    and the half-edges of all loops together are exactly the half-edges of `bd`, each used once. -/
theorem loops_spec (bd : List (Nat × Nat)) (hP : PermLike bd) :
    ∃ loops, Topo.loopsFrom (bd.length + 1) bd [] = some loops ∧
      (∀ l ∈ loops, l.Nodup ∧ l ≠ []) ∧
      (∀ l ∈ loops, ∀ (k : Nat) (h : k + 1 < l.length), (l[k + 1], l[k]) ∈ bd) ∧
      (∀ l ∈ loops, ∀ (h : 0 < l.length), (l[0], l[l.length - 1]) ∈ bd) ∧
      (loops.flatMap cycleEdges).Perm bd := by
  obtain ⟨loops, hl, hall, hperm⟩ := loopsFrom_spec (bd.length + 1) bd [] hP (by omega)
  have hsub : ∀ l ∈ loops, ∀ e ∈ cycleEdges l, e ∈ bd := by
    intro l hl' e he
    exact hperm.mem_iff.mp (List.mem_flatMap.mpr ⟨l, hl', he⟩)
  refine ⟨loops, by simpa using hl, hall, ?_, ?_, hperm⟩
  · intro l hl' k h; exact hsub l hl' _ (cycleEdges_consecutive l k h)
  · intro l hl' h; exact hsub l hl' _ (cycleEdges_closing l h)

/-- consequence for `boundary_loops`: on an open oriented manifold mesh whose boundary half-edges are
    permutation-like the result is a list of loops (neither `ValueError` nor non-termination) with the properties
    of `loops_spec`. -/
theorem boundaryLoops_spec (ts : List Tri) (hm : Topo.isManifold ts = true) (hc : Topo.isClosed ts = false)
    (ho : Topo.isOriented ts = true) (hP : PermLike (Topo.boundaryHalfEdges ts)) :
    ∃ loops, Topo.boundaryLoops ts = .loops loops ∧
      (∀ l ∈ loops, l.Nodup ∧ l ≠ []) ∧
      (loops.flatMap cycleEdges).Perm (Topo.boundaryHalfEdges ts) := by
  obtain ⟨loops, hl, hall, _, _, hperm⟩ := loops_spec _ hP
  refine ⟨loops, ?_, hall, hperm⟩
  simp only [Topo.boundaryLoops, hm, hc, ho, Bool.not_true, Bool.false_eq_true, if_false, hl]

theorem boundaryHalfEdges_strip : Topo.boundaryHalfEdges strip = [(0, 1), (2, 0), (1, 3), (3, 2)] := by decide

example : PermLike (Topo.boundaryHalfEdges strip) := by
  rw [boundaryHalfEdges_strip]
  refine ⟨by decide, ?_, ?_⟩
  · intro a c c'
    simp only [List.mem_cons, Prod.mk.injEq, List.not_mem_nil, or_false]
    omega
  · intro a c
    simp only [List.mem_cons, Prod.mk.injEq, List.not_mem_nil, or_false]
    rintro (h | h | h | h)
    · exact ⟨2, by omega⟩
    · exact ⟨3, by omega⟩
    · exact ⟨0, by omega⟩
    · exact ⟨1, by omega⟩
example : Topo.loopsFrom 5 [(0, 1), (2, 0), (1, 3), (3, 2)] [] = some [[0, 2, 3, 1]] := by decide
example : cycleEdges [0, 2, 3, 1] = [(2, 0), (3, 2), (1, 3), (0, 1)] := by decide
example : Topo.boundaryLoops strip = .loops [[0, 2, 3, 1]] := by rfl
/-- `PermLike` is sufficient, not necessary: on a "bow-tie" boundary (vertex 0 has two outgoing and two incoming
    half-edges) the hypothesis fails, and the code still returns two loops, both through vertex 0. -/
example : Topo.loopsFrom 7 [(0, 1), (1, 2), (2, 0), (0, 3), (3, 4), (4, 0)] [] = some [[0, 2, 1], [0, 4, 3]] := by
  decide
example : ¬ PermLike [(0, 1), (1, 2), (2, 0), (0, 3), (3, 4), (4, 0)] := by
  intro h
  have := h.out_unique 0 1 3 (by decide) (by decide)
  omega

end LapyVerif.Props.C09
