import Mathlib.Analysis.SpecialFunctions.Pow.Real
import LapyVerif.Lemmas.Isometry
import LapyVerif.Props.C02
/-
  C04 — ShapeDNA is invariant under isometry and relabelling and scales as 1/s², at the matrix level.
  Model: `Fem.stiffTria`, `Fem.massTria`, `Fem.stiffTet`, `Fem.massTet` (COO triplet lists).
-/
namespace LapyVerif.Props.C04
open LapyVerif V3

/-- multiply every stored value by `c` -/
def scaleCoo (c : ℝ) (m : Coo ℝ) : Coo ℝ := m.map fun e => (e.1, c * e.2)

/-! ## 1. triangles under a similarity -/

theorem triVol_similarity {s : ℝ} {T : V3 ℝ → V3 ℝ} (h : IsSimilarity s T) (v1 v2 v3 : V3 ℝ) :
    Fem.triVol (T v1) (T v2) (T v3) = s * s * Fem.triVol v1 v2 v3 := by
  simp only [Fem.triVol, Fem.triCr, sqrt_real]
  rw [sim_cross_normSq h, Real.sqrt_mul (mul_nonneg (mul_self_nonneg s) (mul_self_nonneg s)),
    Real.sqrt_mul_self (mul_self_nonneg s)]
  ring

theorem triA_similarity {s : ℝ} {T : V3 ℝ → V3 ℝ} (h : IsSimilarity s T) (hs : s ≠ 0) (v1 v2 v3 : V3 ℝ) :
    Fem.triA12 (T v1) (T v2) (T v3) (Fem.triVol (T v1) (T v2) (T v3)) = Fem.triA12 v1 v2 v3 (Fem.triVol v1 v2 v3) ∧
    Fem.triA23 (T v1) (T v2) (T v3) (Fem.triVol (T v1) (T v2) (T v3)) = Fem.triA23 v1 v2 v3 (Fem.triVol v1 v2 v3) ∧
    Fem.triA31 (T v1) (T v2) (T v3) (Fem.triVol (T v1) (T v2) (T v3)) = Fem.triA31 v1 v2 v3 (Fem.triVol v1 v2 v3) := by
  have hss : s * s ≠ 0 := mul_ne_zero hs hs
  simp only [Fem.triA12, Fem.triA23, Fem.triA31, triVol_similarity h, sim_dot h]
  exact ⟨mul_div_mul_left _ _ hss, mul_div_mul_left _ _ hss, mul_div_mul_left _ _ hss⟩

/-- **the stiffness matrix of a triangle mesh is invariant under every similarity** (triplet for triplet): each entry
    is a ratio (dot product of two edges)/(4·area).  The guard of the code is absolute (`vol < eps`), so the
    non-degeneracy of the image mesh is a separate hypothesis. -/
theorem stiffTria_similarity {s : ℝ} {T : V3 ℝ → V3 ℝ} (h : IsSimilarity s T) (hs : s ≠ 0)
    (vtx : Nat → V3 ℝ) (ts : List Tri) (hnd : NonDegenTri vtx ts) (hnd' : NonDegenTri (fun i => T (vtx i)) ts) :
    Fem.stiffTria (fun i => T (vtx i)) ts = Fem.stiffTria vtx ts := by
  rw [C01.stiffTria_blocks _ ts hnd', C01.stiffTria_blocks vtx ts hnd]
  congr 1
  apply List.map_congr_left
  intro τ _
  obtain ⟨e1, e2, e3⟩ := triA_similarity h hs (vtx τ.1) (vtx τ.2.1) (vtx τ.2.2)
  simp only [e1, e2, e3]

theorem map_flatten_blocks {α : Type} (l : List α) (blk : α → Coo ℝ) (F : (Nat × Nat) × ℝ → (Nat × Nat) × ℝ) :
    ((l.map blk).flatten).map F = (l.map fun a => (blk a).map F).flatten := by
  rw [List.map_flatten, List.map_map]; rfl

/-- **the mass matrix of a triangle mesh scales with `s²`** (both lumping modes) -/
theorem massTria_similarity {s : ℝ} {T : V3 ℝ → V3 ℝ} (h : IsSimilarity s T) (lump : Bool)
    (vtx : Nat → V3 ℝ) (ts : List Tri) (hnd : NonDegenTri vtx ts) (hnd' : NonDegenTri (fun i => T (vtx i)) ts) :
    Fem.massTria lump (fun i => T (vtx i)) ts = (Fem.massTria lump vtx ts).map fun e => (e.1, s * s * e.2) := by
  rw [C02.massTria_blocks lump _ ts hnd', C02.massTria_blocks lump vtx ts hnd, map_flatten_blocks]
  congr 1
  apply List.map_congr_left
  intro τ _
  obtain ⟨t1, t2, t3⟩ := τ
  cases lump <;>
  · simp only [C02.triMassBlock, Bool.false_eq_true, if_false, if_true, Fem.triBlock, Fem.triBlockL, triVol_similarity h,
      List.map_cons, List.map_nil, mul_div_assoc]

/-- isometries (rotations, reflections, translations and their compositions) leave both matrices unchanged -/
theorem stiffTria_isometry {T : V3 ℝ → V3 ℝ} (h : IsIsometry T)
    (vtx : Nat → V3 ℝ) (ts : List Tri) (hnd : NonDegenTri vtx ts) (hnd' : NonDegenTri (fun i => T (vtx i)) ts) :
    Fem.stiffTria (fun i => T (vtx i)) ts = Fem.stiffTria vtx ts :=
  stiffTria_similarity ((isSimilarity_one_iff T).mpr h) one_ne_zero vtx ts hnd hnd'

/-- an isometry does not change the volumes the guard looks at: the image mesh is non-degenerate iff the mesh is -/
theorem nonDegenTri_isometry {T : V3 ℝ → V3 ℝ} (h : IsIsometry T) (vtx : Nat → V3 ℝ) (ts : List Tri)
    (hnd : NonDegenTri vtx ts) : NonDegenTri (fun i => T (vtx i)) ts := by
  intro τ hτ
  have := triVol_similarity ((isSimilarity_one_iff T).mpr h) (vtx τ.1) (vtx τ.2.1) (vtx τ.2.2)
  simp only [this, one_mul]
  exact hnd τ hτ

theorem massTria_isometry {T : V3 ℝ → V3 ℝ} (h : IsIsometry T) (lump : Bool)
    (vtx : Nat → V3 ℝ) (ts : List Tri) (hnd : NonDegenTri vtx ts) :
    Fem.massTria lump (fun i => T (vtx i)) ts = Fem.massTria lump vtx ts := by
  rw [massTria_similarity ((isSimilarity_one_iff T).mpr h) lump vtx ts hnd (nonDegenTri_isometry h vtx ts hnd)]
  simp

theorem stiffTria_isometry' {T : V3 ℝ → V3 ℝ} (h : IsIsometry T)
    (vtx : Nat → V3 ℝ) (ts : List Tri) (hnd : NonDegenTri vtx ts) :
    Fem.stiffTria (fun i => T (vtx i)) ts = Fem.stiffTria vtx ts :=
  stiffTria_isometry h vtx ts hnd (nonDegenTri_isometry h vtx ts hnd)

/-! ## 2. tetrahedra under a similarity -/

/-- `|det'| = |s|³ |det|` -/
theorem tetVol_similarity {s : ℝ} {T : V3 ℝ → V3 ℝ} (h : IsSimilarity s T) (v1 v2 v3 v4 : V3 ℝ) :
    Fem.tetVol (T v1) (T v2) (T v3) (T v4) = |s| * (s * s) * Fem.tetVol v1 v2 v3 v4 := by
  simp only [Fem.tetVol, abs_real]
  have hsq := sim_triple_sq h v4 v1 v2 v1 v1 v3
  set D' := dot (T v4 - T v1) (cross (T v2 - T v1) (T v1 - T v3))
  set D := dot (v4 - v1) (cross (v2 - v1) (v1 - v3))
  have h2 : D' * D' = (s * s * s * D) * (s * s * s * D) := by rw [hsq]; ring
  have h3 : |D'| = |s * s * s * D| := abs_eq_abs.mpr (mul_self_eq_mul_self_iff.mp h2)
  rw [h3, abs_mul, abs_mul, abs_mul_self]
  ring

theorem nonDegenTet_similarity {s : ℝ} {T : V3 ℝ → V3 ℝ} (h : IsSimilarity s T) (hs : s ≠ 0) (vtx : Nat → V3 ℝ)
    (ts : List Tet) (hnd : NonDegenTet vtx ts) : NonDegenTet (fun i => T (vtx i)) ts := by
  intro τ hτ
  rw [tetVol_similarity h]
  exact mul_ne_zero (mul_ne_zero (abs_ne_zero.mpr hs) (mul_ne_zero hs hs)) (hnd τ hτ)

/-- the un-clamped stiffness block of one tetrahedron -/
noncomputable def tetStiffBlock (vtx : Nat → V3 ℝ) (τ : Tet) : Coo ℝ :=
  let o := Fem.tetOff (vtx τ.1) (vtx τ.2.1) (vtx τ.2.2.1) (vtx τ.2.2.2)
    (Fem.tetVol (vtx τ.1) (vtx τ.2.1) (vtx τ.2.2.1) (vtx τ.2.2.2))
  Fem.tetBlock τ (o.1 / 6) (o.2.2.2.1 / 6) (o.2.1 / 6) (o.2.2.1 / 6) (o.2.2.2.2.1 / 6) (o.2.2.2.2.2 / 6)
    ((-o.1 - o.2.1 - o.2.2.1) / 6) ((-o.1 - o.2.2.2.1 - o.2.2.2.2.1) / 6)
    ((-o.2.1 - o.2.2.2.1 - o.2.2.2.2.2) / 6) ((-o.2.2.1 - o.2.2.2.2.1 - o.2.2.2.2.2) / 6)

theorem stiffTet_blocks (vtx : Nat → V3 ℝ) (ts : List Tet) (h : NonDegenTet vtx ts) :
    Fem.stiffTet vtx ts = (ts.map (tetStiffBlock vtx)).flatten := by
  unfold Fem.stiffTet
  rw [C01.tetVols_nondegen vtx ts h, zip_map_self]
  rfl

/-- the six off-diagonal values (numerators of degree 4 in the edges over a volume of degree 3) scale with `|s|` -/
theorem tetOff_similarity {s : ℝ} {T : V3 ℝ → V3 ℝ} (h : IsSimilarity s T) (hs : s ≠ 0) (v1 v2 v3 v4 : V3 ℝ) (vol : ℝ)
    (hv : vol ≠ 0) :
    Fem.tetOff (T v1) (T v2) (T v3) (T v4) (|s| * (s * s) * vol) =
      (|s| * (Fem.tetOff v1 v2 v3 v4 vol).1, |s| * (Fem.tetOff v1 v2 v3 v4 vol).2.1,
       |s| * (Fem.tetOff v1 v2 v3 v4 vol).2.2.1, |s| * (Fem.tetOff v1 v2 v3 v4 vol).2.2.2.1,
       |s| * (Fem.tetOff v1 v2 v3 v4 vol).2.2.2.2.1, |s| * (Fem.tetOff v1 v2 v3 v4 vol).2.2.2.2.2) := by
  have ha : |s| ≠ 0 := abs_ne_zero.mpr hs
  have hss : s * s = |s| * |s| := (abs_mul_abs_self s).symm
  simp only [Fem.tetOff, sim_dot h, Prod.mk.injEq]
  rw [hss]
  refine ⟨?_, ?_, ?_, ?_, ?_, ?_⟩ <;> (field_simp)

theorem tetStiffBlock_similarity {s : ℝ} {T : V3 ℝ → V3 ℝ} (h : IsSimilarity s T) (hs : s ≠ 0) (vtx : Nat → V3 ℝ)
    (τ : Tet) (hv : Fem.tetVol (vtx τ.1) (vtx τ.2.1) (vtx τ.2.2.1) (vtx τ.2.2.2) ≠ 0) :
    tetStiffBlock (fun i => T (vtx i)) τ = (tetStiffBlock vtx τ).map fun e => (e.1, |s| * e.2) := by
  obtain ⟨t1, t2, t3, t4⟩ := τ
  simp only [tetStiffBlock, tetVol_similarity h, tetOff_similarity h hs _ _ _ _ _ hv, Fem.tetBlock, List.map_cons,
    List.map_nil, List.cons.injEq, Prod.mk.injEq, true_and, and_true]
  refine ⟨?_, ?_, ?_, ?_, ?_, ?_, ?_, ?_, ?_, ?_, ?_, ?_, ?_, ?_, ?_, ?_⟩ <;> ring

/-- **the stiffness matrix of a tetrahedral mesh scales with `|s|`** -/
theorem stiffTet_similarity {s : ℝ} {T : V3 ℝ → V3 ℝ} (h : IsSimilarity s T) (hs : s ≠ 0)
    (vtx : Nat → V3 ℝ) (ts : List Tet) (hnd : NonDegenTet vtx ts) :
    Fem.stiffTet (fun i => T (vtx i)) ts = (Fem.stiffTet vtx ts).map fun e => (e.1, |s| * e.2) := by
  rw [stiffTet_blocks _ ts (nonDegenTet_similarity h hs vtx ts hnd), stiffTet_blocks vtx ts hnd, map_flatten_blocks]
  congr 1
  apply List.map_congr_left
  intro τ hτ
  exact tetStiffBlock_similarity h hs vtx τ (hnd τ hτ)

/-- **the mass matrix of a tetrahedral mesh scales with `|s|³`** (both lumping modes) -/
theorem massTet_similarity {s : ℝ} {T : V3 ℝ → V3 ℝ} (h : IsSimilarity s T) (hs : s ≠ 0) (lump : Bool)
    (vtx : Nat → V3 ℝ) (ts : List Tet) (hnd : NonDegenTet vtx ts) :
    Fem.massTet lump (fun i => T (vtx i)) ts = (Fem.massTet lump vtx ts).map fun e => (e.1, |s| * (s * s) * e.2) := by
  rw [C02.massTet_blocks lump _ ts (nonDegenTet_similarity h hs vtx ts hnd), C02.massTet_blocks lump vtx ts hnd,
    map_flatten_blocks]
  congr 1
  apply List.map_congr_left
  intro τ _
  obtain ⟨t1, t2, t3, t4⟩ := τ
  cases lump <;>
  · simp only [C02.tetMassBlock, Bool.false_eq_true, if_false, if_true, Fem.tetBlock, Fem.tetBlockL, tetVol_similarity h,
      List.map_cons, List.map_nil, mul_div_assoc]

theorem stiffTet_isometry {T : V3 ℝ → V3 ℝ} (h : IsIsometry T)
    (vtx : Nat → V3 ℝ) (ts : List Tet) (hnd : NonDegenTet vtx ts) :
    Fem.stiffTet (fun i => T (vtx i)) ts = Fem.stiffTet vtx ts := by
  rw [stiffTet_similarity ((isSimilarity_one_iff T).mpr h) one_ne_zero vtx ts hnd]
  simp

theorem massTet_isometry {T : V3 ℝ → V3 ℝ} (h : IsIsometry T) (lump : Bool)
    (vtx : Nat → V3 ℝ) (ts : List Tet) (hnd : NonDegenTet vtx ts) :
    Fem.massTet lump (fun i => T (vtx i)) ts = Fem.massTet lump vtx ts := by
  rw [massTet_similarity ((isSimilarity_one_iff T).mpr h) one_ne_zero lump vtx ts hnd]
  simp

/-! ## 3. relabelling the vertices -/

/-- rename row and column indices of a triplet list -/
def relabelCoo (π : Nat → Nat) (m : Coo ℝ) : Coo ℝ := m.map fun e => ((π e.1.1, π e.1.2), e.2)

def relabelTri (π : Nat → Nat) (τ : Tri) : Tri := (π τ.1, π τ.2.1, π τ.2.2)
def relabelTet (π : Nat → Nat) (τ : Tet) : Tet := (π τ.1, π τ.2.1, π τ.2.2.1, π τ.2.2.2)

theorem triVols_relabel (π : Nat → Nat) (vtx vtx' : Nat → V3 ℝ) (hv : ∀ i, vtx' (π i) = vtx i) (ts : List Tri) :
    Fem.triVols vtx' (ts.map (relabelTri π)) = Fem.triVols vtx ts := by
  unfold Fem.triVols
  simp only [List.map_map, Function.comp_def, relabelTri, hv]

theorem tetVols_relabel (π : Nat → Nat) (vtx vtx' : Nat → V3 ℝ) (hv : ∀ i, vtx' (π i) = vtx i) (ts : List Tet) :
    Fem.tetVols vtx' (ts.map (relabelTet π)) = Fem.tetVols vtx ts := by
  unfold Fem.tetVols
  simp only [List.map_map, Function.comp_def, relabelTet, hv]

theorem flatten_zip_relabel {α : Type} (ρ : α → α) (F : (Nat × Nat) × ℝ → (Nat × Nat) × ℝ)
    (blk blk' : α × ℝ → Coo ℝ) (hblk : ∀ a v, blk' (ρ a, v) = (blk (a, v)).map F) (l : List α) (vols : List ℝ) :
    (((l.map ρ).zip vols).map blk').flatten = ((((l.zip vols).map blk).flatten).map F) := by
  rw [List.map_flatten, List.map_map, List.zip_map_left, List.map_map]
  congr 1
  apply List.map_congr_left
  rintro ⟨a, v⟩ _
  exact hblk a v

/-- **relabelling the vertices relabels the triplets** (triangles, stiffness).  Only `vtx' (π i) = vtx i` is used: no
    injectivity, no non-degeneracy (the clamped volume list is literally the same). -/
theorem stiffTria_relabel (π : Nat → Nat) (vtx vtx' : Nat → V3 ℝ) (hv : ∀ i, vtx' (π i) = vtx i) (ts : List Tri) :
    Fem.stiffTria vtx' (ts.map fun τ => (π τ.1, π τ.2.1, π τ.2.2)) =
      (Fem.stiffTria vtx ts).map fun e => ((π e.1.1, π e.1.2), e.2) := by
  have := triVols_relabel π vtx vtx' hv ts
  unfold relabelTri at this
  unfold Fem.stiffTria
  rw [this]
  apply flatten_zip_relabel
  rintro ⟨t1, t2, t3⟩ v
  simp only [hv, Fem.triBlockA, Fem.triBlock, List.map_cons, List.map_nil]

theorem massTria_relabel (lump : Bool) (π : Nat → Nat) (vtx vtx' : Nat → V3 ℝ) (hv : ∀ i, vtx' (π i) = vtx i)
    (ts : List Tri) :
    Fem.massTria lump vtx' (ts.map fun τ => (π τ.1, π τ.2.1, π τ.2.2)) =
      (Fem.massTria lump vtx ts).map fun e => ((π e.1.1, π e.1.2), e.2) := by
  have := triVols_relabel π vtx vtx' hv ts
  unfold relabelTri at this
  unfold Fem.massTria
  rw [this]
  apply flatten_zip_relabel
  rintro ⟨t1, t2, t3⟩ v
  cases lump <;> simp only [Fem.triBlockL, Fem.triBlock, List.map_cons, List.map_nil, Bool.false_eq_true, if_false, if_true]

theorem stiffTet_relabel (π : Nat → Nat) (vtx vtx' : Nat → V3 ℝ) (hv : ∀ i, vtx' (π i) = vtx i) (ts : List Tet) :
    Fem.stiffTet vtx' (ts.map fun τ => (π τ.1, π τ.2.1, π τ.2.2.1, π τ.2.2.2)) =
      (Fem.stiffTet vtx ts).map fun e => ((π e.1.1, π e.1.2), e.2) := by
  have := tetVols_relabel π vtx vtx' hv ts
  unfold relabelTet at this
  unfold Fem.stiffTet
  rw [this]
  apply flatten_zip_relabel
  rintro ⟨t1, t2, t3, t4⟩ v
  simp only [hv, Fem.tetBlock, List.map_cons, List.map_nil]

theorem massTet_relabel (lump : Bool) (π : Nat → Nat) (vtx vtx' : Nat → V3 ℝ) (hv : ∀ i, vtx' (π i) = vtx i)
    (ts : List Tet) :
    Fem.massTet lump vtx' (ts.map fun τ => (π τ.1, π τ.2.1, π τ.2.2.1, π τ.2.2.2)) =
      (Fem.massTet lump vtx ts).map fun e => ((π e.1.1, π e.1.2), e.2) := by
  have := tetVols_relabel π vtx vtx' hv ts
  unfold relabelTet at this
  unfold Fem.massTet
  rw [this]
  apply flatten_zip_relabel
  rintro ⟨t1, t2, t3, t4⟩ v
  cases lump <;> simp only [Fem.tetBlockL, Fem.tetBlock, List.map_cons, List.map_nil, Bool.false_eq_true, if_false, if_true]

/-- **entries of a relabelled matrix**: for injective `π` the `(π i, π j)` entry of the relabelled triplet list is the
    `(i, j)` entry of the original one (applies to all four matrices through the `_relabel` theorems) -/
theorem relabel_entry (π : Nat → Nat) (hπ : Function.Injective π) (m : Coo ℝ) (i j : Nat) :
    Coo.entry (m.map fun e => ((π e.1.1, π e.1.2), e.2)) (π i) (π j) = Coo.entry m i j := by
  induction m with
  | nil => rfl
  | cons e m ih =>
    have h1 : Coo.entry ((e :: m).map fun e => ((π e.1.1, π e.1.2), e.2)) (π i) (π j)
        = Coo.entry [((π e.1.1, π e.1.2), e.2)] (π i) (π j)
          + Coo.entry (m.map fun e => ((π e.1.1, π e.1.2), e.2)) (π i) (π j) := by
      rw [← Coo.entry_append]; rfl
    have h2 : Coo.entry (e :: m) i j = Coo.entry [e] i j + Coo.entry m i j := by
      rw [← Coo.entry_append]; rfl
    rw [h1, h2, ih]
    congr 1
    by_cases ha : e.1.1 = i <;> by_cases hb : e.1.2 = j <;>
      simp [Coo.entry, ha, hb, hπ.eq_iff]

/-- entries outside the range of `π` vanish -/
theorem relabel_entry_outside (π : Nat → Nat) (m : Coo ℝ) (r c : Nat) (h : (∀ i, π i ≠ r) ∨ (∀ j, π j ≠ c)) :
    Coo.entry (m.map fun e => ((π e.1.1, π e.1.2), e.2)) r c = 0 := by
  unfold Coo.entry
  have : List.filter (fun e : (Nat × Nat) × ℝ => e.1.1 == r && e.1.2 == c) (m.map fun e => ((π e.1.1, π e.1.2), e.2)) = [] := by
    rw [List.filter_eq_nil_iff]
    intro e he
    obtain ⟨e', _, rfl⟩ := List.mem_map.mp he
    rcases h with h | h
    · simp [h e'.1.1]
    · simp [h e'.1.2]
  rw [this]; simp

theorem stiffTria_relabel_entry (π : Nat → Nat) (hπ : Function.Injective π) (vtx vtx' : Nat → V3 ℝ)
    (hv : ∀ i, vtx' (π i) = vtx i) (ts : List Tri) (i j : Nat) :
    Coo.entry (Fem.stiffTria vtx' (ts.map fun τ => (π τ.1, π τ.2.1, π τ.2.2))) (π i) (π j)
      = Coo.entry (Fem.stiffTria vtx ts) i j := by
  rw [stiffTria_relabel π vtx vtx' hv ts, relabel_entry π hπ]

theorem massTria_relabel_entry (lump : Bool) (π : Nat → Nat) (hπ : Function.Injective π) (vtx vtx' : Nat → V3 ℝ)
    (hv : ∀ i, vtx' (π i) = vtx i) (ts : List Tri) (i j : Nat) :
    Coo.entry (Fem.massTria lump vtx' (ts.map fun τ => (π τ.1, π τ.2.1, π τ.2.2))) (π i) (π j)
      = Coo.entry (Fem.massTria lump vtx ts) i j := by
  rw [massTria_relabel lump π vtx vtx' hv ts, relabel_entry π hπ]

theorem stiffTet_relabel_entry (π : Nat → Nat) (hπ : Function.Injective π) (vtx vtx' : Nat → V3 ℝ)
    (hv : ∀ i, vtx' (π i) = vtx i) (ts : List Tet) (i j : Nat) :
    Coo.entry (Fem.stiffTet vtx' (ts.map fun τ => (π τ.1, π τ.2.1, π τ.2.2.1, π τ.2.2.2))) (π i) (π j)
      = Coo.entry (Fem.stiffTet vtx ts) i j := by
  rw [stiffTet_relabel π vtx vtx' hv ts, relabel_entry π hπ]

theorem massTet_relabel_entry (lump : Bool) (π : Nat → Nat) (hπ : Function.Injective π) (vtx vtx' : Nat → V3 ℝ)
    (hv : ∀ i, vtx' (π i) = vtx i) (ts : List Tet) (i j : Nat) :
    Coo.entry (Fem.massTet lump vtx' (ts.map fun τ => (π τ.1, π τ.2.1, π τ.2.2.1, π τ.2.2.2))) (π i) (π j)
      = Coo.entry (Fem.massTet lump vtx ts) i j := by
  rw [massTet_relabel lump π vtx vtx' hv ts, relabel_entry π hπ]

/-! ## 4. independence of the order of the elements and of the vertex order inside an element -/

theorem nonDegenTri_perm {vtx : Nat → V3 ℝ} {ts ts' : List Tri} (hp : ts.Perm ts') (h : NonDegenTri vtx ts) :
    NonDegenTri vtx ts' := fun τ hτ => h τ (hp.mem_iff.mpr hτ)

theorem nonDegenTet_perm {vtx : Nat → V3 ℝ} {ts ts' : List Tet} (hp : ts.Perm ts') (h : NonDegenTet vtx ts) :
    NonDegenTet vtx ts' := fun τ hτ => h τ (hp.mem_iff.mpr hτ)

/-- the mass form as a sum over the elements, either lumping -/
theorem massTria_form_blocks (lump : Bool) (vtx : Nat → V3 ℝ) (ts : List Tri) (h : NonDegenTri vtx ts) (f g : Nat → ℝ) :
    Coo.form (Fem.massTria lump vtx ts) f g = (ts.map fun τ => Coo.form (C02.triMassBlock lump vtx τ) f g).sum := by
  rw [C02.massTria_blocks lump vtx ts h, Coo.form_flatten, List.map_map]; rfl

theorem massTet_form_blocks (lump : Bool) (vtx : Nat → V3 ℝ) (ts : List Tet) (h : NonDegenTet vtx ts) (f g : Nat → ℝ) :
    Coo.form (Fem.massTet lump vtx ts) f g = (ts.map fun τ => Coo.form (C02.tetMassBlock lump vtx τ) f g).sum := by
  rw [C02.massTet_blocks lump vtx ts h, Coo.form_flatten, List.map_map]; rfl

/-- **permuting the list of triangles does not change the stiffness form / any stored entry** -/
theorem stiff_form_perm (vtx : Nat → V3 ℝ) (ts ts' : List Tri) (hp : ts.Perm ts') (h : NonDegenTri vtx ts)
    (f g : Nat → ℝ) : Coo.form (Fem.stiffTria vtx ts') f g = Coo.form (Fem.stiffTria vtx ts) f g := by
  rw [C01.stiff_form vtx ts' (nonDegenTri_perm hp h), C01.stiff_form vtx ts h]
  exact ((hp.map _).sum_eq).symm

theorem elem_perm (vtx : Nat → V3 ℝ) (ts ts' : List Tri) (hp : ts.Perm ts') (h : NonDegenTri vtx ts) (i j : Nat) :
    Coo.entry (Fem.stiffTria vtx ts') i j = Coo.entry (Fem.stiffTria vtx ts) i j := by
  rw [Coo.entry_eq_form, Coo.entry_eq_form, stiff_form_perm vtx ts ts' hp h]

theorem mass_form_perm (lump : Bool) (vtx : Nat → V3 ℝ) (ts ts' : List Tri) (hp : ts.Perm ts') (h : NonDegenTri vtx ts)
    (f g : Nat → ℝ) : Coo.form (Fem.massTria lump vtx ts') f g = Coo.form (Fem.massTria lump vtx ts) f g := by
  rw [massTria_form_blocks lump vtx ts' (nonDegenTri_perm hp h), massTria_form_blocks lump vtx ts h]
  exact ((hp.map _).sum_eq).symm

theorem elem_perm_mass (lump : Bool) (vtx : Nat → V3 ℝ) (ts ts' : List Tri) (hp : ts.Perm ts') (h : NonDegenTri vtx ts)
    (i j : Nat) : Coo.entry (Fem.massTria lump vtx ts') i j = Coo.entry (Fem.massTria lump vtx ts) i j := by
  rw [Coo.entry_eq_form, Coo.entry_eq_form, mass_form_perm lump vtx ts ts' hp h]

theorem stiff_form_perm_tet (vtx : Nat → V3 ℝ) (ts ts' : List Tet) (hp : ts.Perm ts') (h : NonDegenTet vtx ts)
    (f g : Nat → ℝ) : Coo.form (Fem.stiffTet vtx ts') f g = Coo.form (Fem.stiffTet vtx ts) f g := by
  rw [C01.stiff_form_tet vtx ts' (nonDegenTet_perm hp h), C01.stiff_form_tet vtx ts h]
  exact ((hp.map _).sum_eq).symm

theorem elem_perm_tet (vtx : Nat → V3 ℝ) (ts ts' : List Tet) (hp : ts.Perm ts') (h : NonDegenTet vtx ts) (i j : Nat) :
    Coo.entry (Fem.stiffTet vtx ts') i j = Coo.entry (Fem.stiffTet vtx ts) i j := by
  rw [Coo.entry_eq_form, Coo.entry_eq_form, stiff_form_perm_tet vtx ts ts' hp h]

theorem mass_form_perm_tet (lump : Bool) (vtx : Nat → V3 ℝ) (ts ts' : List Tet) (hp : ts.Perm ts')
    (h : NonDegenTet vtx ts) (f g : Nat → ℝ) :
    Coo.form (Fem.massTet lump vtx ts') f g = Coo.form (Fem.massTet lump vtx ts) f g := by
  rw [massTet_form_blocks lump vtx ts' (nonDegenTet_perm hp h), massTet_form_blocks lump vtx ts h]
  exact ((hp.map _).sum_eq).symm

theorem elem_perm_mass_tet (lump : Bool) (vtx : Nat → V3 ℝ) (ts ts' : List Tet) (hp : ts.Perm ts')
    (h : NonDegenTet vtx ts) (i j : Nat) :
    Coo.entry (Fem.massTet lump vtx ts') i j = Coo.entry (Fem.massTet lump vtx ts) i j := by
  rw [Coo.entry_eq_form, Coo.entry_eq_form, mass_form_perm_tet lump vtx ts ts' hp h]

theorem nonDegenTri_reorder (vtx : Nat → V3 ℝ) (ts : List Tri) (h : NonDegenTri vtx ts)
    (σ : Tri → Tri) (hσ : ∀ τ, σ τ = τ ∨ σ τ = C01.swapTri τ ∨ σ τ = C01.rotTri τ) : NonDegenTri vtx (ts.map σ) := by
  intro τ' hτ'
  obtain ⟨τ, hτ, rfl⟩ := List.mem_map.mp hτ'
  rcases hσ τ with e | e | e <;> rw [e]
  · exact h τ hτ
  · simp only [C01.swapTri]; rw [C01.triVol_swap]; exact h τ hτ
  · simp only [C01.rotTri]; rw [C01.triVol_rot]; exact h τ hτ

/-- **the mass matrix does not depend on the vertex order (orientation included) of any triangle** -/
theorem mass_form_reorder (lump : Bool) (vtx : Nat → V3 ℝ) (ts : List Tri) (h : NonDegenTri vtx ts)
    (σ : Tri → Tri) (hσ : ∀ τ, σ τ = τ ∨ σ τ = C01.swapTri τ ∨ σ τ = C01.rotTri τ) (f g : Nat → ℝ) :
    Coo.form (Fem.massTria lump vtx (ts.map σ)) f g = Coo.form (Fem.massTria lump vtx ts) f g := by
  rw [massTria_form_blocks lump vtx _ (nonDegenTri_reorder vtx ts h σ hσ), massTria_form_blocks lump vtx ts h,
    List.map_map]
  congr 1
  apply List.map_congr_left
  intro τ _
  obtain ⟨t1, t2, t3⟩ := τ
  rcases hσ (t1, t2, t3) with e | e | e <;> simp only [Function.comp, e]
  · cases lump <;>
    · simp only [C01.swapTri, C02.triMassBlock, C01.triVol_swap (vtx t1) (vtx t2) (vtx t3), Bool.false_eq_true, if_false,
        if_true, Fem.triBlock, Fem.triBlockL, Coo.form, List.map, List.sum_cons, List.sum_nil]
      ring
  · cases lump <;>
    · simp only [C01.rotTri, C02.triMassBlock, C01.triVol_rot (vtx t1) (vtx t2) (vtx t3), Bool.false_eq_true, if_false,
        if_true, Fem.triBlock, Fem.triBlockL, Coo.form, List.map, List.sum_cons, List.sum_nil]
      ring

theorem mass_entry_reorder (lump : Bool) (vtx : Nat → V3 ℝ) (ts : List Tri) (h : NonDegenTri vtx ts)
    (σ : Tri → Tri) (hσ : ∀ τ, σ τ = τ ∨ σ τ = C01.swapTri τ ∨ σ τ = C01.rotTri τ) (i j : Nat) :
    Coo.entry (Fem.massTria lump vtx (ts.map σ)) i j = Coo.entry (Fem.massTria lump vtx ts) i j := by
  rw [Coo.entry_eq_form, Coo.entry_eq_form, mass_form_reorder lump vtx ts h σ hσ]

/-! ### tetrahedra: the generators `0↔1`, `1↔2`, `2↔3` of S₄ -/

def swap01 (τ : Tet) : Tet := (τ.2.1, τ.1, τ.2.2.1, τ.2.2.2)
def swap12 (τ : Tet) : Tet := (τ.1, τ.2.2.1, τ.2.1, τ.2.2.2)
def swap23 (τ : Tet) : Tet := (τ.1, τ.2.1, τ.2.2.2, τ.2.2.1)

theorem tetDet_swap01 (v1 v2 v3 v4 : V3 ℝ) : Spec.tetDet v2 v1 v3 v4 = - Spec.tetDet v1 v2 v3 v4 := by
  simp only [Spec.tetDet]; v3_flat; ring
theorem tetDet_swap12 (v1 v2 v3 v4 : V3 ℝ) : Spec.tetDet v1 v3 v2 v4 = - Spec.tetDet v1 v2 v3 v4 := by
  simp only [Spec.tetDet]; v3_flat; ring
theorem tetDet_swap23 (v1 v2 v3 v4 : V3 ℝ) : Spec.tetDet v1 v2 v4 v3 = - Spec.tetDet v1 v2 v3 v4 := by
  simp only [Spec.tetDet]; v3_flat; ring

theorem tetVol_swap01 (v1 v2 v3 v4 : V3 ℝ) : Fem.tetVol v2 v1 v3 v4 = Fem.tetVol v1 v2 v3 v4 := by
  rw [FemTet.tetVol_eq, FemTet.tetVol_eq, tetDet_swap01, abs_neg]
theorem tetVol_swap12 (v1 v2 v3 v4 : V3 ℝ) : Fem.tetVol v1 v3 v2 v4 = Fem.tetVol v1 v2 v3 v4 := by
  rw [FemTet.tetVol_eq, FemTet.tetVol_eq, tetDet_swap12, abs_neg]
theorem tetVol_swap23 (v1 v2 v3 v4 : V3 ℝ) : Fem.tetVol v1 v2 v4 v3 = Fem.tetVol v1 v2 v3 v4 := by
  rw [FemTet.tetVol_eq, FemTet.tetVol_eq, tetDet_swap23, abs_neg]

theorem tetVolume_swap01 (v1 v2 v3 v4 : V3 ℝ) : Spec.tetVolume v2 v1 v3 v4 = Spec.tetVolume v1 v2 v3 v4 := by
  rw [Spec.tetVolume, Spec.tetVolume, tetDet_swap01, abs_neg]
theorem tetVolume_swap12 (v1 v2 v3 v4 : V3 ℝ) : Spec.tetVolume v1 v3 v2 v4 = Spec.tetVolume v1 v2 v3 v4 := by
  rw [Spec.tetVolume, Spec.tetVolume, tetDet_swap12, abs_neg]
theorem tetVolume_swap23 (v1 v2 v3 v4 : V3 ℝ) : Spec.tetVolume v1 v2 v4 v3 = Spec.tetVolume v1 v2 v3 v4 := by
  rw [Spec.tetVolume, Spec.tetVolume, tetDet_swap23, abs_neg]

/-- the gradient of the linear interpolant does not depend on the numbering of the corners -/
theorem gradTet_swap01 (v1 v2 v3 v4 : V3 ℝ) (f1 f2 f3 f4 : ℝ) :
    Spec.gradTet v2 v1 v3 v4 f2 f1 f3 f4 = Spec.gradTet v1 v2 v3 v4 f1 f2 f3 f4 := by
  unfold Spec.gradTet
  rw [tetDet_swap01]
  generalize Spec.tetDet v1 v2 v3 v4 = D
  apply V3.ext' <;> (v3_flat; rw [one_div, one_div, inv_neg]; ring)

theorem gradTet_swap12 (v1 v2 v3 v4 : V3 ℝ) (f1 f2 f3 f4 : ℝ) :
    Spec.gradTet v1 v3 v2 v4 f1 f3 f2 f4 = Spec.gradTet v1 v2 v3 v4 f1 f2 f3 f4 := by
  unfold Spec.gradTet
  rw [tetDet_swap12]
  generalize Spec.tetDet v1 v2 v3 v4 = D
  apply V3.ext' <;> (v3_flat; rw [one_div, one_div, inv_neg]; ring)

theorem gradTet_swap23 (v1 v2 v3 v4 : V3 ℝ) (f1 f2 f3 f4 : ℝ) :
    Spec.gradTet v1 v2 v4 v3 f1 f2 f4 f3 = Spec.gradTet v1 v2 v3 v4 f1 f2 f3 f4 := by
  unfold Spec.gradTet
  rw [tetDet_swap23]
  generalize Spec.tetDet v1 v2 v3 v4 = D
  apply V3.ext' <;> (v3_flat; rw [one_div, one_div, inv_neg]; ring)

theorem nonDegenTet_reorder (vtx : Nat → V3 ℝ) (ts : List Tet) (h : NonDegenTet vtx ts)
    (σ : Tet → Tet) (hσ : ∀ τ, σ τ = τ ∨ σ τ = swap01 τ ∨ σ τ = swap12 τ ∨ σ τ = swap23 τ) :
    NonDegenTet vtx (ts.map σ) := by
  intro τ' hτ'
  obtain ⟨τ, hτ, rfl⟩ := List.mem_map.mp hτ'
  rcases hσ τ with e | e | e | e <;> rw [e]
  · exact h τ hτ
  · simp only [swap01]; rw [tetVol_swap01]; exact h τ hτ
  · simp only [swap12]; rw [tetVol_swap12]; exact h τ hτ
  · simp only [swap23]; rw [tetVol_swap23]; exact h τ hτ

/-- **re-ordering the vertices of any subset of the tetrahedra** — by the transpositions `0↔1`, `1↔2`, `2↔3`, which
    generate all 24 orders (iterate the theorem), either orientation — **leaves the stiffness form, hence every stored
    entry, unchanged** -/
theorem stiff_form_reorder_tet (vtx : Nat → V3 ℝ) (ts : List Tet) (h : NonDegenTet vtx ts)
    (σ : Tet → Tet) (hσ : ∀ τ, σ τ = τ ∨ σ τ = swap01 τ ∨ σ τ = swap12 τ ∨ σ τ = swap23 τ) (f g : Nat → ℝ) :
    Coo.form (Fem.stiffTet vtx (ts.map σ)) f g = Coo.form (Fem.stiffTet vtx ts) f g := by
  rw [C01.stiff_form_tet vtx _ (nonDegenTet_reorder vtx ts h σ hσ), C01.stiff_form_tet vtx ts h, List.map_map]
  congr 1
  apply List.map_congr_left
  intro τ _
  rcases hσ τ with e | e | e | e <;> simp only [Function.comp, e]
  · simp only [swap01, gradTet_swap01, tetVolume_swap01]
  · simp only [swap12, gradTet_swap12, tetVolume_swap12]
  · simp only [swap23, gradTet_swap23, tetVolume_swap23]

theorem stiff_entry_reorder_tet (vtx : Nat → V3 ℝ) (ts : List Tet) (h : NonDegenTet vtx ts)
    (σ : Tet → Tet) (hσ : ∀ τ, σ τ = τ ∨ σ τ = swap01 τ ∨ σ τ = swap12 τ ∨ σ τ = swap23 τ) (i j : Nat) :
    Coo.entry (Fem.stiffTet vtx (ts.map σ)) i j = Coo.entry (Fem.stiffTet vtx ts) i j := by
  rw [Coo.entry_eq_form, Coo.entry_eq_form, stiff_form_reorder_tet vtx ts h σ hσ]

theorem mass_form_reorder_tet (lump : Bool) (vtx : Nat → V3 ℝ) (ts : List Tet) (h : NonDegenTet vtx ts)
    (σ : Tet → Tet) (hσ : ∀ τ, σ τ = τ ∨ σ τ = swap01 τ ∨ σ τ = swap12 τ ∨ σ τ = swap23 τ) (f g : Nat → ℝ) :
    Coo.form (Fem.massTet lump vtx (ts.map σ)) f g = Coo.form (Fem.massTet lump vtx ts) f g := by
  rw [massTet_form_blocks lump vtx _ (nonDegenTet_reorder vtx ts h σ hσ), massTet_form_blocks lump vtx ts h,
    List.map_map]
  congr 1
  apply List.map_congr_left
  intro τ _
  obtain ⟨t1, t2, t3, t4⟩ := τ
  rcases hσ (t1, t2, t3, t4) with e | e | e | e <;> simp only [Function.comp, e]
  · cases lump <;>
    · simp only [swap01, C02.tetMassBlock, tetVol_swap01 (vtx t1) (vtx t2) (vtx t3) (vtx t4), Bool.false_eq_true,
        if_false, if_true, Fem.tetBlock, Fem.tetBlockL, Coo.form, List.map, List.sum_cons, List.sum_nil]
      ring
  · cases lump <;>
    · simp only [swap12, C02.tetMassBlock, tetVol_swap12 (vtx t1) (vtx t2) (vtx t3) (vtx t4), Bool.false_eq_true,
        if_false, if_true, Fem.tetBlock, Fem.tetBlockL, Coo.form, List.map, List.sum_cons, List.sum_nil]
      ring
  · cases lump <;>
    · simp only [swap23, C02.tetMassBlock, tetVol_swap23 (vtx t1) (vtx t2) (vtx t3) (vtx t4), Bool.false_eq_true,
        if_false, if_true, Fem.tetBlock, Fem.tetBlockL, Coo.form, List.map, List.sum_cons, List.sum_nil]
      ring

theorem mass_entry_reorder_tet (lump : Bool) (vtx : Nat → V3 ℝ) (ts : List Tet) (h : NonDegenTet vtx ts)
    (σ : Tet → Tet) (hσ : ∀ τ, σ τ = τ ∨ σ τ = swap01 τ ∨ σ τ = swap12 τ ∨ σ τ = swap23 τ) (i j : Nat) :
    Coo.entry (Fem.massTet lump vtx (ts.map σ)) i j = Coo.entry (Fem.massTet lump vtx ts) i j := by
  rw [Coo.entry_eq_form, Coo.entry_eq_form, mass_form_reorder_tet lump vtx ts h σ hσ]

/-! ## 5. transport of generalized eigenpairs -/

theorem mulVec_scale (c : ℝ) (m : Coo ℝ) (x : Nat → ℝ) (i : Nat) :
    Coo.mulVec (m.map fun e => (e.1, c * e.2)) x i = c * Coo.mulVec m x i := by
  induction m with
  | nil => simp [Coo.mulVec]
  | cons e m ih =>
    have h1 : ∀ (e : (Nat × Nat) × ℝ) (m : Coo ℝ), Coo.mulVec (e :: m) x i = Coo.mulVec [e] x i + Coo.mulVec m x i := by
      intro e m; rw [← Coo.mulVec_append]; rfl
    rw [List.map_cons, h1, h1 e m, ih, mul_add]
    congr 1
    by_cases h : e.1.1 = i <;> simp [Coo.mulVec, h, mul_assoc]

/-- **transport of a generalized eigenpair under scaling of the two matrices**: if `A x = λ B x` then
    `(αA) x = (αλ/β) (βB) x` -/
theorem pencil_transport (A B : Coo ℝ) (x : Nat → ℝ) (lam α β : ℝ) (hβ : β ≠ 0)
    (h : ∀ i, Coo.mulVec A x i = lam * Coo.mulVec B x i) :
    ∀ i, Coo.mulVec (A.map fun e => (e.1, α * e.2)) x i
        = (α * lam / β) * Coo.mulVec (B.map fun e => (e.1, β * e.2)) x i := by
  intro i
  rw [mulVec_scale, mulVec_scale, h i]
  field_simp

/-- triangle meshes: a similarity with factor `s` maps the eigenpair `(λ, x)` to `(λ/s², x)` -/
theorem pencil_similarity_tria {s : ℝ} {T : V3 ℝ → V3 ℝ} (hT : IsSimilarity s T) (hs : s ≠ 0) (lump : Bool)
    (vtx : Nat → V3 ℝ) (ts : List Tri) (hnd : NonDegenTri vtx ts) (hnd' : NonDegenTri (fun i => T (vtx i)) ts)
    (x : Nat → ℝ) (lam : ℝ)
    (h : ∀ i, Coo.mulVec (Fem.stiffTria vtx ts) x i = lam * Coo.mulVec (Fem.massTria lump vtx ts) x i) :
    ∀ i, Coo.mulVec (Fem.stiffTria (fun i => T (vtx i)) ts) x i
        = (lam / (s * s)) * Coo.mulVec (Fem.massTria lump (fun i => T (vtx i)) ts) x i := by
  intro i
  rw [stiffTria_similarity hT hs vtx ts hnd hnd', massTria_similarity hT lump vtx ts hnd hnd']
  have := pencil_transport _ _ x lam 1 (s * s) (mul_ne_zero hs hs) h i
  simpa using this

/-- tetrahedral meshes: stiffness scales with `|s|`, mass with `|s|³`, so again `λ ↦ λ/s²` -/
theorem pencil_similarity_tet {s : ℝ} {T : V3 ℝ → V3 ℝ} (hT : IsSimilarity s T) (hs : s ≠ 0) (lump : Bool)
    (vtx : Nat → V3 ℝ) (ts : List Tet) (hnd : NonDegenTet vtx ts) (x : Nat → ℝ) (lam : ℝ)
    (h : ∀ i, Coo.mulVec (Fem.stiffTet vtx ts) x i = lam * Coo.mulVec (Fem.massTet lump vtx ts) x i) :
    ∀ i, Coo.mulVec (Fem.stiffTet (fun i => T (vtx i)) ts) x i
        = (lam / (s * s)) * Coo.mulVec (Fem.massTet lump (fun i => T (vtx i)) ts) x i := by
  intro i
  rw [stiffTet_similarity hT hs vtx ts hnd, massTet_similarity hT hs lump vtx ts hnd]
  have ha : |s| ≠ 0 := abs_ne_zero.mpr hs
  have := pencil_transport _ _ x lam |s| (|s| * (s * s)) (mul_ne_zero ha (mul_ne_zero hs hs)) h i
  rw [this]
  congr 1
  field_simp

/-- forms of a relabelled matrix -/
theorem form_relabel (π : Nat → Nat) (m : Coo ℝ) (f g f' g' : Nat → ℝ) (hf : ∀ i, f' (π i) = f i)
    (hg : ∀ i, g' (π i) = g i) :
    Coo.form (m.map fun e => ((π e.1.1, π e.1.2), e.2)) f' g' = Coo.form m f g := by
  induction m with
  | nil => rfl
  | cons e m ih => rw [List.map_cons, Coo.form_cons, Coo.form_cons, ih, hf, hg]

/-- rows of a relabelled matrix (injective `π`) -/
theorem mulVec_relabel (π : Nat → Nat) (hπ : Function.Injective π) (m : Coo ℝ) (x y : Nat → ℝ)
    (hy : ∀ i, y (π i) = x i) (i : Nat) :
    Coo.mulVec (m.map fun e => ((π e.1.1, π e.1.2), e.2)) y (π i) = Coo.mulVec m x i := by
  rw [Coo.mulVec_eq_form, Coo.mulVec_eq_form]
  apply form_relabel
  · intro k; simp [hπ.eq_iff]
  · exact hy

theorem mulVec_relabel_outside (π : Nat → Nat) (m : Coo ℝ) (y : Nat → ℝ) (r : Nat) (hr : ∀ i, π i ≠ r) :
    Coo.mulVec (m.map fun e => ((π e.1.1, π e.1.2), e.2)) y r = 0 := by
  unfold Coo.mulVec
  have : List.filter (fun e : (Nat × Nat) × ℝ => e.1.1 == r) (m.map fun e => ((π e.1.1, π e.1.2), e.2)) = [] := by
    rw [List.filter_eq_nil_iff]
    intro e he
    obtain ⟨e', _, rfl⟩ := List.mem_map.mp he
    simp [hr e'.1.1]
  rw [this]; simp

/-- **transport of a generalized eigenpair under relabelling**: `(λ, x)` for `(A, B)` becomes `(λ, y)` with
    `y (π i) = x i` for the relabelled pair — on *every* row (rows outside the range of `π` are empty) -/
theorem pencil_relabel (π : Nat → Nat) (hπ : Function.Injective π) (A B : Coo ℝ) (x y : Nat → ℝ) (lam : ℝ)
    (hy : ∀ i, y (π i) = x i) (h : ∀ i, Coo.mulVec A x i = lam * Coo.mulVec B x i) :
    ∀ r, Coo.mulVec (A.map fun e => ((π e.1.1, π e.1.2), e.2)) y r
        = lam * Coo.mulVec (B.map fun e => ((π e.1.1, π e.1.2), e.2)) y r := by
  intro r
  by_cases hr : ∃ i, π i = r
  · obtain ⟨i, rfl⟩ := hr
    rw [mulVec_relabel π hπ A x y hy, mulVec_relabel π hπ B x y hy, h i]
  · have hr' : ∀ i, π i ≠ r := fun i hi => hr ⟨i, hi⟩
    rw [mulVec_relabel_outside π A y r hr', mulVec_relabel_outside π B y r hr', mul_zero]

/-! ## 6. normalisation, reweighting, distance -/

/-- `λ·area` (surfaces) and `λ·vol^(2/3)` (solids) do not depend on the scale -/
theorem normalize_ev_scale (s lam area vol : ℝ) (hs : 0 < s) (hvol : 0 < vol) :
    (lam / (s * s)) * (s * s * area) = lam * area ∧
    (lam / (s * s)) * (s * s * s * vol) ^ ((2 : ℝ) / 3) = lam * vol ^ ((2 : ℝ) / 3) := by
  have hss : s * s ≠ 0 := (mul_pos hs hs).ne'
  constructor
  · field_simp
  · have h3 : (s * s * s) ^ ((2 : ℝ) / 3) = s * s := by
      have e1 : s * s * s = s ^ ((3 : ℕ) : ℝ) := by rw [Real.rpow_natCast]; ring
      rw [e1, ← Real.rpow_mul hs.le]
      have : ((3 : ℕ) : ℝ) * ((2 : ℝ) / 3) = ((2 : ℕ) : ℝ) := by push_cast; norm_num
      rw [this, Real.rpow_natCast]; ring
    rw [Real.mul_rpow (by positivity) hvol.le, h3]
    field_simp

/-- `reweight_ev`: divide the `i`-th eigenvalue by `i+1` -/
noncomputable def reweight (ev : List ℝ) : List ℝ := ev.zipIdx.map fun (x, i) => x / ((i : ℝ) + 1)

/-- Euclidean distance of two (truncated to equal length by `zip`) spectra -/
noncomputable def dist (a b : List ℝ) : ℝ := Real.sqrt ((a.zip b).map (fun p => (p.1 - p.2) ^ 2)).sum

theorem reweight_spec (ev : List ℝ) (i : Nat) : (reweight ev)[i]? = ev[i]?.map (· / ((i : ℝ) + 1)) := by
  simp only [reweight, List.getElem?_map, List.getElem?_zipIdx, Option.map_map]
  cases ev[i]? <;> simp

theorem reweight_length (ev : List ℝ) : (reweight ev).length = ev.length := by simp [reweight]

theorem dist_comm (a b : List ℝ) : dist a b = dist b a := by
  unfold dist
  congr 1
  rw [← List.zip_swap a b, List.map_map]
  congr 1
  apply List.map_congr_left
  intro p _
  simp only [Function.comp, Prod.fst_swap, Prod.snd_swap]; ring

theorem dist_self (a : List ℝ) : dist a a = 0 := by
  unfold dist
  have : ((a.zip a).map (fun p => (p.1 - p.2) ^ 2)).sum = 0 := by
    induction a with
    | nil => simp
    | cons x t ih => simp [ih]
  rw [this, Real.sqrt_zero]

theorem sumsq_nonneg (a b : List ℝ) : 0 ≤ ((a.zip b).map (fun p => (p.1 - p.2) ^ 2)).sum := by
  apply List.sum_nonneg
  intro x hx
  obtain ⟨p, _, rfl⟩ := List.mem_map.mp hx
  positivity

theorem dist_nonneg (a b : List ℝ) : 0 ≤ dist a b := Real.sqrt_nonneg _

theorem eq_of_sumsq_zero : ∀ (a b : List ℝ), a.length = b.length →
    ((a.zip b).map (fun p => (p.1 - p.2) ^ 2)).sum = 0 → a = b
  | [], [], _, _ => rfl
  | [], _ :: _, h, _ => by simp at h
  | _ :: _, [], h, _ => by simp at h
  | x :: a, y :: b, hl, h => by
    simp only [List.zip_cons_cons, List.map_cons, List.sum_cons] at h
    have h1 : 0 ≤ (x - y) ^ 2 := by positivity
    have h2 := sumsq_nonneg a b
    have hx : (x - y) ^ 2 = 0 := by linarith
    have hs : ((a.zip b).map (fun p => (p.1 - p.2) ^ 2)).sum = 0 := by linarith
    have : x = y := by
      have := pow_eq_zero_iff (two_ne_zero) |>.mp hx
      linarith
    rw [this, eq_of_sumsq_zero a b (by simpa using hl) hs]

/-- for spectra of equal length, distance `0` means equality -/
theorem dist_eq_zero (a b : List ℝ) (hl : a.length = b.length) (h : dist a b = 0) : a = b := by
  unfold dist at h
  exact eq_of_sumsq_zero a b hl ((Real.sqrt_eq_zero (sumsq_nonneg a b)).mp h)

theorem dist_spec (a b : List ℝ) :
    dist a b = dist b a ∧ dist a a = 0 ∧ 0 ≤ dist a b ∧ (a.length = b.length → dist a b = 0 → a = b) :=
  ⟨dist_comm a b, dist_self a, dist_nonneg a b, dist_eq_zero a b⟩

/-- without the length hypothesis the last claim fails: `zip` truncates -/
example : dist [1] [1, 2] = 0 ∧ ([1] : List ℝ) ≠ [1, 2] := by
  constructor
  · simp [dist]
  · simp

/-! ## non-vacuity -/

section Examples

/-- the unit right triangle / unit tetrahedron -/
noncomputable def vtxE : Nat → V3 ℝ := vtx4 ⟨0, 0, 0⟩ ⟨1, 0, 0⟩ ⟨0, 1, 0⟩ ⟨0, 0, 1⟩

theorem ex_triVol : Fem.triVol (vtxE 0) (vtxE 1) (vtxE 2) = 2 := by
  simp only [Fem.triVol, Fem.triCr, vtxE, vtx4]; v3_flat; norm_num

theorem ex_nonDegenTri : NonDegenTri vtxE [(0, 1, 2)] := by
  intro τ hτ
  simp only [List.mem_cons, List.not_mem_nil, or_false] at hτ
  subst hτ
  rw [ex_triVol, epsK_real]; norm_num

/-- the hypotheses of `stiffTria_similarity` / `massTria_similarity` are satisfiable with `s = 2` -/
theorem ex_nonDegenTri_scaled : NonDegenTri (fun i => smul 2 (vtxE i)) [(0, 1, 2)] := by
  intro τ hτ
  simp only [List.mem_cons, List.not_mem_nil, or_false] at hτ
  subst hτ
  rw [triVol_similarity (scale_isSimilarity 2), ex_triVol, epsK_real]; norm_num

example : Fem.stiffTria (fun i => smul 2 (vtxE i)) [(0, 1, 2)] = Fem.stiffTria vtxE [(0, 1, 2)] :=
  stiffTria_similarity (scale_isSimilarity 2) (by norm_num) vtxE _ ex_nonDegenTri ex_nonDegenTri_scaled

example : Fem.massTria true (fun i => smul 2 (vtxE i)) [(0, 1, 2)] =
    (Fem.massTria true vtxE [(0, 1, 2)]).map fun e => (e.1, 2 * 2 * e.2) :=
  massTria_similarity (scale_isSimilarity 2) true vtxE _ ex_nonDegenTri ex_nonDegenTri_scaled

/-- an isometry that is not the identity: the point reflection -/
example : Fem.stiffTria (fun i => -(vtxE i)) [(0, 1, 2)] = Fem.stiffTria vtxE [(0, 1, 2)] :=
  stiffTria_isometry' neg_isIsometry vtxE _ ex_nonDegenTri

theorem ex_nonDegenTet : NonDegenTet vtxE [(0, 1, 2, 3)] := by
  intro τ hτ
  simp only [List.mem_cons, List.not_mem_nil, or_false] at hτ
  subst hτ
  have : Fem.tetVol (vtxE 0) (vtxE 1) (vtxE 2) (vtxE 3) = 1 := by
    simp only [Fem.tetVol, vtxE, vtx4, abs_real]; v3_flat; norm_num
  rw [this]; norm_num

example : Fem.stiffTet (fun i => smul (-3) (vtxE i)) [(0, 1, 2, 3)] =
    (Fem.stiffTet vtxE [(0, 1, 2, 3)]).map fun e => (e.1, |(-3 : ℝ)| * e.2) :=
  stiffTet_similarity (scale_isSimilarity (-3)) (by norm_num) vtxE _ ex_nonDegenTet

/-- a concrete relabelling: shift all indices by one -/
example : Fem.stiffTria (fun i => vtxE (i - 1)) [(1, 2, 3)] =
    (Fem.stiffTria vtxE [(0, 1, 2)]).map fun e => ((e.1.1 + 1, e.1.2 + 1), e.2) :=
  stiffTria_relabel (· + 1) vtxE (fun i => vtxE (i - 1)) (fun i => by simp) [(0, 1, 2)]

/-- a concrete entry: `A₀₁ = (v3−v2)·(v1−v3)/vol = −1/2` (cotangent weight `−½ cot 45°`) -/
example : Coo.entry (Fem.stiffTria vtxE [(0, 1, 2)]) 0 1 = -1 / 2 := by
  rw [C01.stiffTria_blocks vtxE _ ex_nonDegenTri]
  simp only [List.map_cons, List.map_nil, List.flatten_cons, List.flatten_nil, List.append_nil, ex_triVol]
  simp [Coo.entry, Fem.triBlockA, Fem.triBlock, Fem.triA12, vtxE, vtx4, V3.dot]

end Examples

end LapyVerif.Props.C04
