import LapyVerif.Lemmas.FsLemmas
/-
  C14 (last part) — the FreeSurfer binary surface format: what `write_geometry` writes is read back unchanged by
  `read_geometry(…, read_metadata=True)`; files with a wrong magic number are rejected; truncated files fail or give the
  same mesh (never a different one).
  Model: `Model/FsSurf.lean` (bytes; float32 as bit patterns; footer numbers as unparsed ASCII tokens).
-/
namespace LapyVerif.Props.C14b
open LapyVerif FsSurf

/-! ## 32-bit big-endian words -/

/-- decoding the four big-endian bytes of `n < 2^32` gives `n`; for a signed `z` in int32 range the two's complement
    reading of its four bytes gives `z` -/
theorem be32_roundtrip :
    (∀ n : Nat, n < 4294967296 → ∀ r : Bytes, items (be32 n ++ r) = n :: items r ∧ fromfile 1 (be32 n ++ r) = ([n], r)) ∧
    (∀ z : Int, -2147483648 ≤ z → z < 2147483648 → ∀ r : Bytes,
      (fromfile 1 (encI32 z ++ r)).1.map toI32 = [z] ∧ (fromfile 1 (encI32 z ++ r)).2 = r) := by
  refine ⟨fun n hn r => ⟨items_be32 n hn r, ?_⟩, fun z h1 h2 r => ?_⟩
  · have := fromfile_words [n] (by simpa using hn) r 1 (by rfl)
    simpa using this
  · have := fromfile_words [patI32 z] (by simpa using patI32_lt z) r 1 (by rfl)
    simp only [List.flatMap_cons, List.flatMap_nil, List.append_nil] at this
    unfold encI32
    rw [this]
    simp [toI32_patI32 z h1 h2]

/-! ## well-formed surfaces -/

/-- the footer: a known extension code and admissible values (`GoodVal`: stripped, one line, no `=`, ASCII;
    `GoodTok`: non-empty, no white space, no `=`, ASCII) -/
def GoodInfo (vi : VolInfo) : Prop := (vi.head = [20] ∨ vi.head = [2, 0, 20]) ∧ GoodInfoVals vi

instance (vi : VolInfo) : Decidable (GoodInfo vi) := by unfold GoodInfo; infer_instance

/-- the mesh part: the stamp is one ASCII line; three coordinates per vertex, three indices per face, fewer than
    `2^31` numbers in each block (so that `vnum * 3` does not wrap); face indices in int32 range -/
def FsGoodMesh (s : Surf) : Prop :=
  (∀ b ∈ s.stamp, b ≠ 10 ∧ b < 128) ∧ s.coords.length % 3 = 0 ∧ s.coords.length < 2147483648 ∧
  s.faces.length % 3 = 0 ∧ s.faces.length < 2147483648 ∧ ∀ z ∈ s.faces, -2147483648 ≤ z ∧ z < 2147483648

def FsGood (s : Surf) : Prop :=
  FsGoodMesh s ∧ match s.info with | none => True | some vi => GoodInfo vi

instance (s : Surf) : Decidable (FsGoodMesh s) := by unfold FsGoodMesh; infer_instance
instance (s : Surf) : Decidable (FsGood s) := by
  unfold FsGood
  cases s.info with
  | none => infer_instance
  | some vi => infer_instance

/-! ## the mesh part is read back, whatever follows it -/

theorem map_toUInt32 (l : List UInt32) : (l.map (·.toNat)).map (·.toUInt32) = l := by
  rw [List.map_map]
  conv => rhs; rw [← List.map_id l]
  apply List.map_congr_left
  intro w _
  simp

theorem map_toI32 (l : List Int) (h : ∀ z ∈ l, -2147483648 ≤ z ∧ z < 2147483648) : (l.map patI32).map toI32 = l := by
  rw [List.map_map]
  conv => rhs; rw [← List.map_id l]
  apply List.map_congr_left
  intro z hz
  exact toI32_patI32 z (h z hz).1 (h z hz).2

/-- a block of `3·n` words is read by `readBlock n` -/
theorem readBlock_words (l : List Nat) (hl : ∀ n ∈ l, n < 4294967296) (h3 : l.length % 3 = 0) (hlt : l.length < 2147483648)
    (rest : Bytes) : readBlock (toI32 (patI32 ((l.length / 3 : Nat) : Int))) (l.flatMap be32 ++ rest) = .ok (l, rest) := by
  have hq : l.length / 3 < 2147483648 := by omega
  rw [patI32_natCast _ (by omega), toI32_natCast _ hq]
  unfold readBlock
  have hc : wrap32 (((l.length / 3 : Nat) : Int) * 3) = (l.length : Int) := by
    rw [wrap32_small _ (by omega) (by omega)]; omega
  rw [hc, fromfile_words l hl rest _ rfl]
  simp only
  rw [if_pos (by omega), if_pos (by omega)]

/-- **the mesh part of a written file is read back, and the rest of the file is handed to `_read_volume_info`** —
    for every continuation `tail`, well-formed or not -/
theorem readFs_mesh (s : Surf) (h : FsGoodMesh s) (tail : Bytes) :
    readFs (writeMesh s ++ tail) =
      match readVolInfo tail with
      | .error e => .error e
      | .ok info => .ok { s with info := info } := by
  obtain ⟨hst, hc3, hclt, hf3, hflt, hfr⟩ := h
  have hfile : writeMesh s ++ tail = 255 :: 255 :: 254 :: (s.stamp ++ 10 :: (10 ::
      ([patI32 ((s.coords.length / 3 : Nat) : Int)].flatMap be32 ++ ([patI32 ((s.faces.length / 3 : Nat) : Int)].flatMap be32 ++
        ((s.coords.map (·.toNat)).flatMap be32 ++ ((s.faces.map patI32).flatMap be32 ++ tail)))))) := by
    simp [writeMesh, encI32, List.flatMap_map, List.append_assoc]
    rfl
  have hasc : isAscii s.stamp = true := (isAscii_iff _).2 fun b hb => (hst b hb).2
  have hcw : ∀ n ∈ s.coords.map (·.toNat), n < 4294967296 := by
    intro n hn
    obtain ⟨w, _, rfl⟩ := List.mem_map.mp hn
    exact w.toNat_lt
  have hfw : ∀ n ∈ s.faces.map patI32, n < 4294967296 := by
    intro n hn
    obtain ⟨z, _, rfl⟩ := List.mem_map.mp hn
    exact patI32_lt z
  have hcb := readBlock_words (s.coords.map (·.toNat)) hcw (by simpa using hc3) (by simpa using hclt)
  have hfb := readBlock_words (s.faces.map patI32) hfw (by simpa using hf3) (by simpa using hflt)
  simp only [List.length_map] at hcb hfb
  rw [hfile]
  unfold readFs
  simp only [show ((255 : UInt8) == 255 && (255 : UInt8) == 255 && (254 : UInt8) == 254) = true by decide, Bool.not_true,
    Bool.false_eq_true, if_false, readline_line s.stamp _ fun b hb => (hst b hb).1,
    rstripNL_line s.stamp fun b hb => (hst b hb).1, hasc]
  rw [fromfile_words [_] (by simpa using patI32_lt _) _ 1 (by rfl)]
  simp only []
  rw [fromfile_words [_] (by simpa using patI32_lt _) _ 1 (by rfl)]
  simp only [hcb, hfb, map_toUInt32, map_toI32 s.faces hfr]
  cases readVolInfo tail <;> rfl

/-! ## round trip -/

/-- **`read_geometry ∘ write_geometry = id`**: stamp, coordinate bit patterns, faces (values, order, winding) and the
    complete footer are read back unchanged -/
theorem fs_roundtrip (s : Surf) (h : FsGood s) : readFs (writeFs s) = .ok s := by
  obtain ⟨hm, hi⟩ := h
  unfold writeFs
  rw [readFs_mesh s hm]
  cases hinfo : s.info with
  | none =>
    simp only [readVolInfo_nil]
    cases s
    simp only at hinfo
    rw [hinfo]
  | some vi =>
    rw [hinfo] at hi
    have := readVolInfo_writeInfo vi (hi.1.elim Or.inl fun h => Or.inr (Or.inl h)) hi.2 []
    rw [List.append_nil] at this
    have hn : normHead vi.head = vi.head := by
      rcases hi.1 with h | h <;> rw [h] <;> rfl
    simp only [this, hn]
    cases s
    simp only at hinfo
    rw [hinfo]

/-- a footer with extension code `[2,1,20]` is accepted too; the reader stores `[2,0,20]` -/
theorem fs_roundtrip_head210 (s : Surf) (hm : FsGoodMesh s) (vi : VolInfo) (hs : s.info = some vi)
    (hh : vi.head = [2, 1, 20]) (hv : GoodInfoVals vi) :
    readFs (writeFs s) = .ok { s with info := some { vi with head := [2, 0, 20] } } := by
  unfold writeFs
  rw [readFs_mesh s hm, hs]
  have := readVolInfo_writeInfo vi (Or.inr (Or.inr hh)) hv []
  rw [List.append_nil] at this
  simp only [this, hh, normHead, if_true]

/-! ## wrong magic number -/

/-- **every byte list that does not start with 255, 255, 254 (in particular every list shorter than 3) is rejected with
    `ValueError`** -/
theorem fs_bad_magic (bs : Bytes) (h : ¬ ∃ r, bs = 255 :: 255 :: 254 :: r) : readFs bs = .error .valueError := by
  unfold readFs
  match bs with
  | [] => rfl
  | [_] => rfl
  | [_, _] => rfl
  | b1 :: b2 :: b3 :: r =>
    simp only
    by_cases hb : (b1 == 255 && b2 == 255 && b3 == 254) = true
    · exfalso
      simp only [Bool.and_eq_true, beq_iff_eq] at hb
      exact h ⟨r, by rw [hb.1.1, hb.1.2, hb.2]⟩
    · simp only [hb, Bool.not_false, if_true]

/-! ## truncated files -/

/-- the reader after the two counts (same code as in `readFs`) -/
def readBlocks (stamp : Bytes) (v f : Int) (r : Bytes) : Except FsFail Surf :=
  match readBlock v r with
  | .error e => .error e
  | .ok (cs, r) =>
    match readBlock f r with
    | .error e => .error e
    | .ok (fs, r) =>
      match readVolInfo r with
      | .error e => .error e
      | .ok info => .ok { stamp := stamp, coords := cs.map (·.toUInt32), faces := fs.map toI32, info := info }

/-- the reader after the stamp line(s) -/
def readCounts (stamp : Bytes) (r : Bytes) : Except FsFail Surf :=
  match fromfile 1 r with
  | ([v], r) =>
    match fromfile 1 r with
    | ([f], r) => readBlocks stamp (toI32 v) (toI32 f) r
    | _ => .error .indexError
  | _ => .error .indexError

/-- the reader after the magic number -/
def readBody (r : Bytes) : Except FsFail Surf :=
  let (line, r) := readline r
  let stamp := rstripNL line
  if !isAscii stamp then .error .nonAscii else
  let r := match r with
    | 10 :: r' => r'
    | _ => r
  readCounts stamp r

theorem readFs_magic (r : Bytes) : readFs (255 :: 255 :: 254 :: r) = readBody r := rfl

theorem readFs_short (bs : Bytes) (h : bs.length < 3) : readFs bs = .error .valueError := by
  apply fs_bad_magic
  rintro ⟨r, rfl⟩
  simp at h
  omega

theorem readCounts_short1 (stamp r : Bytes) (h : r.length < 4) : readCounts stamp r = .error .indexError := by
  unfold readCounts fromfile
  simp only [show ¬ (1 : Int) < 0 by decide, if_false, show (1 : Int).toNat = 1 from rfl, takeItems_one_short r h]

theorem readCounts_short2 (stamp r : Bytes) (v : Nat) (hv : v < 4294967296) (h : r.length < 4) :
    readCounts stamp (be32 v ++ r) = .error .indexError := by
  unfold readCounts
  have := fromfile_words [v] (by simpa using hv) r 1 (by rfl)
  simp only [List.flatMap_cons, List.flatMap_nil, List.append_nil] at this
  rw [this]
  simp only
  unfold fromfile
  simp only [show ¬ (1 : Int) < 0 by decide, if_false, show (1 : Int).toNat = 1 from rfl, takeItems_one_short r h]

theorem readCounts_full (stamp r : Bytes) (v f : Nat) (hv : v < 4294967296) (hf : f < 4294967296) :
    readCounts stamp (be32 v ++ (be32 f ++ r)) = readBlocks stamp (toI32 v) (toI32 f) r := by
  unfold readCounts
  have h1 := fromfile_words [v] (by simpa using hv) (be32 f ++ r) 1 (by rfl)
  have h2 := fromfile_words [f] (by simpa using hf) r 1 (by rfl)
  simp only [List.flatMap_cons, List.flatMap_nil, List.append_nil] at h1 h2
  rw [h1]
  simp only
  rw [h2]

/-- a block that ends too early: `reshape` fails -/
theorem readBlock_short (k : Nat) (hk : k < 2147483648) (h3 : k % 3 = 0) (bs : Bytes) (h : bs.length < 4 * k) :
    readBlock (toI32 (patI32 ((k / 3 : Nat) : Int))) bs = .error .valueError := by
  have hq : k / 3 < 2147483648 := by omega
  rw [patI32_natCast _ (by omega), toI32_natCast _ hq]
  unfold readBlock
  have hc : wrap32 (((k / 3 : Nat) : Int) * 3) = (k : Int) := by
    rw [wrap32_small _ (by omega) (by omega)]; omega
  rw [hc]
  unfold fromfile
  rw [if_neg (by omega), Int.toNat_natCast]
  have hlen := takeItems_short k bs h
  generalize takeItems k bs = res at hlen
  obtain ⟨l, rest⟩ := res
  simp only at hlen ⊢
  rw [if_pos (by omega), if_neg (by omega)]

theorem length_flatMap_be32 (l : List Nat) : (l.flatMap be32).length = 4 * l.length := by
  induction l with
  | nil => rfl
  | cons n l ih => rw [List.flatMap_cons, List.length_append, ih, length_be32, List.length_cons]; omega

section trunc
variable (s : Surf) (h : FsGoodMesh s)
include h

/-- **a file that ends inside the mesh part is rejected** — never a different mesh: `ValueError` if not even the magic
    number is complete, `IndexError` if the file ends before the two counts are complete, `ValueError` (reshape) if it
    ends inside the coordinate or the face block -/
theorem fs_truncated_mesh (m : Nat) (hm : m < (writeMesh s).length) :
    readFs ((writeFs s).take m) =
      .error (if m < 3 then .valueError else if m < s.stamp.length + 13 then .indexError else .valueError) := by
  obtain ⟨hst, hc3, hclt, hf3, hflt, hfr⟩ := h
  have htake : (writeFs s).take m = (writeMesh s).take m := by
    unfold writeFs
    rw [List.take_append_of_le_length (Nat.le_of_lt hm)]
  rw [htake]
  obtain ⟨cw, hcw⟩ : ∃ cw, cw = s.coords.map (·.toNat) := ⟨_, rfl⟩
  obtain ⟨fw, hfw⟩ : ∃ fw, fw = s.faces.map patI32 := ⟨_, rfl⟩
  have hcwb : ∀ n ∈ cw, n < 4294967296 := by
    intro n hn
    rw [hcw] at hn
    obtain ⟨w, _, rfl⟩ := List.mem_map.mp hn
    exact w.toNat_lt
  have hfwb : ∀ n ∈ fw, n < 4294967296 := by
    intro n hn
    rw [hfw] at hn
    obtain ⟨z, _, rfl⟩ := List.mem_map.mp hn
    exact patI32_lt z
  have hcl : cw.length = s.coords.length := by simp [hcw]
  have hfl : fw.length = s.faces.length := by simp [hfw]
  obtain ⟨V, hV⟩ : ∃ V, V = patI32 ((s.coords.length / 3 : Nat) : Int) := ⟨_, rfl⟩
  obtain ⟨F, hF⟩ : ∃ F, F = patI32 ((s.faces.length / 3 : Nat) : Int) := ⟨_, rfl⟩
  have hfile : writeMesh s = 255 :: 255 :: 254 :: (s.stamp ++ 10 :: (10 :: (be32 V ++ (be32 F ++
      (cw.flatMap be32 ++ fw.flatMap be32))))) := by
    simp [writeMesh, encI32, List.flatMap_map, List.append_assoc, hcw, hfw, hV, hF]
    rfl
  have hlen : (writeMesh s).length = 3 + s.stamp.length + 2 + 4 + 4 + 4 * s.coords.length + 4 * s.faces.length := by
    rw [hfile]
    simp only [List.length_cons, List.length_append, length_be32, length_flatMap_be32, hcl, hfl]
    omega
  have hasc : ∀ (q : Bytes), (∀ b ∈ q, b ∈ s.stamp) → isAscii q = true :=
    fun q hq => (isAscii_iff _).2 fun b hb => (hst b (hq b hb)).2
  rw [hfile]
  by_cases h3 : m < 3
  · rw [if_pos h3]
    apply readFs_short
    rw [List.length_take]; omega
  rw [if_neg h3]
  obtain ⟨j, rfl⟩ : ∃ j, m = j + 3 := ⟨m - 3, by omega⟩
  simp only [List.take_succ_cons]
  rw [readFs_magic]
  by_cases hj1 : j ≤ s.stamp.length
  · -- inside the stamp line
    rw [if_pos (by omega), List.take_append_of_le_length hj1]
    have hno : ∀ b ∈ s.stamp.take j, b ≠ 10 := fun b hb => (hst b (List.mem_of_mem_take hb)).1
    unfold readBody
    simp only [readline_noNL _ hno, rstripNL_noNL _ hno, hasc _ fun b hb => List.mem_of_mem_take hb, Bool.not_true,
      Bool.false_eq_true, if_false]
    exact readCounts_short1 _ [] (by simp)
  have hno : ∀ b ∈ s.stamp, b ≠ 10 := fun b hb => (hst b hb).1
  by_cases hj2 : j = s.stamp.length + 1
  · -- right after the first line break
    rw [if_pos (by omega), hj2, List.take_append, List.take_of_length_le (by omega)]
    simp only [show s.stamp.length + 1 - s.stamp.length = 1 by omega, List.take_succ_cons, List.take_zero]
    unfold readBody
    simp only [readline_line s.stamp [] hno, rstripNL_line s.stamp hno, hasc s.stamp fun b hb => hb, Bool.not_true,
      Bool.false_eq_true, if_false]
    exact readCounts_short1 _ [] (by simp)
  obtain ⟨i, rfl⟩ : ∃ i, j = s.stamp.length + 2 + i := ⟨j - s.stamp.length - 2, by omega⟩
  rw [List.take_append, List.take_of_length_le (by omega)]
  simp only [show s.stamp.length + 2 + i - s.stamp.length = i + 2 by omega, List.take_succ_cons]
  have hbody : ∀ r : Bytes, readBody (s.stamp ++ 10 :: 10 :: r) = readCounts s.stamp r := by
    intro r
    unfold readBody
    simp only [readline_line s.stamp _ hno, rstripNL_line s.stamp hno, hasc s.stamp fun b hb => hb, Bool.not_true,
      Bool.false_eq_true, if_false]
  rw [hbody]
  by_cases hi1 : i < 4
  · -- inside `vnum`
    rw [if_pos (by omega)]
    apply readCounts_short1
    rw [List.length_take]; omega
  by_cases hi2 : i < 8
  · -- inside `fnum`
    rw [if_pos (by omega), List.take_append, List.take_of_length_le (by rw [length_be32]; omega)]
    apply readCounts_short2 _ _ _ (by rw [hV]; exact patI32_lt _)
    rw [List.length_take, length_be32]; omega
  -- inside the coordinate or the face block
  rw [if_neg (by omega)]
  obtain ⟨i', rfl⟩ : ∃ i', i = 8 + i' := ⟨i - 8, by omega⟩
  rw [List.take_append, List.take_of_length_le (by rw [length_be32]; omega), length_be32, List.take_append,
    List.take_of_length_le (by rw [length_be32]; omega), length_be32,
    show 8 + i' - 4 - 4 = i' by omega,
    readCounts_full _ _ _ _ (by rw [hV]; exact patI32_lt _) (by rw [hF]; exact patI32_lt _)]
  unfold readBlocks
  by_cases hi3 : i' < 4 * s.coords.length
  · -- the coordinate block is short
    rw [hV, readBlock_short s.coords.length hclt hc3 _ (by rw [List.length_take]; omega)]
  · -- the face block is short
    rw [List.take_append, List.take_of_length_le (by rw [length_flatMap_be32, hcl]; omega), length_flatMap_be32, hcl]
    have hcb := readBlock_words cw hcwb (by rw [hcl]; exact hc3) (by rw [hcl]; exact hclt)
    rw [hcl] at hcb
    rw [hV, hcb]
    simp only
    rw [hF, readBlock_short s.faces.length hflt hf3 _ (by
      rw [List.length_take, length_flatMap_be32, hfl]; omega)]

/-- **a file that ends inside the footer gives an error or the same mesh** (stamp, coordinates, faces unchanged; only the
    footer information can be missing or incomplete) -/
theorem fs_truncated_footer (m : Nat) (hm : (writeMesh s).length ≤ m) :
    (∃ e, readFs ((writeFs s).take m) = .error e) ∨
    (∃ info', readFs ((writeFs s).take m) = .ok { s with info := info' }) := by
  obtain ⟨ft, hft⟩ : ∃ ft, writeFs s = writeMesh s ++ ft := ⟨_, rfl⟩
  rw [hft, List.take_append, List.take_of_length_le hm, readFs_mesh s h]
  cases readVolInfo _ with
  | error e => exact Or.inl ⟨e, rfl⟩
  | ok info => exact Or.inr ⟨info, rfl⟩
end trunc

theorem takeItems_total (k : Nat) (bs : Bytes) :
    (takeItems k bs).1.length * 4 + (takeItems k bs).2.length ≤ bs.length := by
  induction k generalizing bs with
  | zero => simp [takeItems]
  | succ k ih =>
    match bs with
    | a :: b :: c :: d :: r =>
      have := ih r
      simp only [takeItems, List.length_cons]
      omega
    | [] => simp [takeItems]
    | [_] => simp [takeItems]
    | [_, _] => simp [takeItems]
    | [_, _, _] => simp [takeItems]

/-- fewer than 12 bytes that do not start with the word 20: no footer information -/
theorem readVolInfo_few (bs : Bytes) (h : bs.length < 12) (h1 : (fromfile 1 bs).1 ≠ [20]) : readVolInfo bs = .ok none := by
  unfold readVolInfo
  have e1 : fromfile 1 bs = takeItems 1 bs := by unfold fromfile; simp
  have e2 : ∀ r, fromfile 2 r = takeItems 2 r := by intro r; unfold fromfile; simp
  rw [e1] at h1 ⊢
  have t1 := takeItems_total 1 bs
  generalize takeItems 1 bs = res1 at h1 t1
  obtain ⟨a, r1⟩ := res1
  simp only at h1 t1 ⊢
  rw [if_neg h1, e2]
  have t2 := takeItems_total 2 r1
  generalize takeItems 2 r1 = res2 at t2
  obtain ⟨b, r2⟩ := res2
  simp only at t2 ⊢
  have hl : (a ++ b).length < 3 := by rw [List.length_append]; omega
  rw [if_neg]
  rintro (he | he) <;> (rw [he] at hl; simp at hl)

/-- inside the extension code (the first 4 resp. 12 bytes of the footer) the answer is the mesh without footer
    information (`info := none`, Python: the empty dict with a warning) -/
theorem fs_truncated_head (s : Surf) (h : FsGood s) (vi : VolInfo) (hs : s.info = some vi) (j : Nat)
    (hj : j < 4 * vi.head.length) :
    readFs ((writeFs s).take ((writeMesh s).length + j)) = .ok { s with info := none } := by
  obtain ⟨hmesh, hi⟩ := h
  rw [hs] at hi
  have htake : (writeFs s).take ((writeMesh s).length + j) = writeMesh s ++ (writeInfo vi).take j := by
    unfold writeFs
    rw [hs, List.take_append, List.take_of_length_le (by omega)]
    simp
  rw [htake, readFs_mesh s hmesh, writeInfo_eq]
  have hnone : readVolInfo ((vi.head.flatMap encI32 ++ infoLines vi).take j) = .ok none := by
    have e1 : ∀ r, fromfile 1 r = takeItems 1 r := by intro r; unfold fromfile; simp
    rcases hi.1 with hh | hh
    · rw [hh] at hj ⊢
      have hj' : j < 4 := by simpa using hj
      apply readVolInfo_few
      · rw [List.length_take]; omega
      · rw [e1, takeItems_one_short _ (by rw [List.length_take]; omega)]
        decide
    · rw [hh] at hj ⊢
      have e : ([2, 0, 20] : List Int).flatMap encI32 = 0 :: 0 :: 0 :: 2 :: [0, 0, 0, 0, 0, 0, 0, 20] := by decide
      rw [e]
      have hj' : j < 12 := by simpa using hj
      apply readVolInfo_few
      · rw [List.length_take]; omega
      · by_cases h4 : j < 4
        · rw [e1, takeItems_one_short _ (by rw [List.length_take]; omega)]
          decide
        · obtain ⟨i, rfl⟩ : ∃ i, j = i + 4 := ⟨j - 4, by omega⟩
          simp only [List.cons_append, List.take_succ_cons, e1, takeItems]
          decide
  rw [hnone]

/-! ## non-vacuity: two triangles with a footer -/

/-- a unit square split into two triangles (coordinates as float32 bit patterns: `0x3f800000` = 1.0), with the footer
    FreeSurfer writes -/
def exSurf : Surf :=
  { stamp := ascii "created by lapy on Mon Jan  1 00:00:00 2024"
    coords := [0, 0, 0, 0x3f800000, 0, 0, 0x3f800000, 0x3f800000, 0, 0, 0x3f800000, 0]
    faces := [0, 1, 2, 0, 2, 3]
    info := some
      { head := [2, 0, 20], valid := ascii "1  # volume info valid", filename := ascii "../mri/filled-pretess255.mgz"
        volume := [ascii "256", ascii "256", ascii "256"]
        voxelsize := [ascii "1.000000000000000e+00", ascii "1.000000000000000e+00", ascii "1.000000000000000e+00"]
        xras := [ascii "-1", ascii "0", ascii "0"], yras := [ascii "0", ascii "0", ascii "-1"]
        zras := [ascii "0", ascii "1", ascii "0"], cras := [ascii "0.5", ascii "-17.25", ascii "3"] } }

theorem exSurf_good : FsGood exSurf := by decide

/-- evaluation helper: the reader's answer is `ok s` -/
def isOk (r : Except FsFail Surf) (s : Surf) : Bool :=
  match r with
  | .ok s' => decide (s' = s)
  | .error _ => false

theorem eq_of_isOk {r : Except FsFail Surf} {s : Surf} (h : isOk r s = true) : r = .ok s := by
  cases r with
  | error e => simp [isOk] at h
  | ok s' => simp only [isOk, decide_eq_true_eq] at h; rw [h]

example : readFs (writeFs exSurf) = .ok exSurf := fs_roundtrip exSurf exSurf_good
/-- the same by evaluation (kernel reduction, no axioms) -/
example : readFs (writeFs exSurf) = .ok exSurf := eq_of_isOk (by decide +kernel)
set_option maxRecDepth 100000 in
example : (writeFs exSurf).length = 379 ∧ (writeMesh exSurf).length = 128 := by decide
/-- the file ends in the middle of the coordinate block / of the counts / after two bytes -/
example : readFs ((writeFs exSurf).take 80) = .error .valueError := by rfl
example : readFs ((writeFs exSurf).take 50) = .error .indexError := by rfl
example : readFs ((writeFs exSurf).take 2) = .error .valueError := by rfl
/-- the file ends inside the extension code: the mesh without footer information -/
example : readFs ((writeFs exSurf).take 133) = .ok { exSurf with info := none } := eq_of_isOk (by decide +kernel)
/-- the file ends inside the key lines -/
example : readFs ((writeFs exSurf).take 200) = .error .osError := by rfl
/-- a different magic number -/
example : readFs (255 :: 255 :: 255 :: (writeFs exSurf).drop 3) = .error .valueError :=
  fs_bad_magic _ (by
    rintro ⟨r, h⟩
    injection h with _ h
    injection h with _ h
    injection h with h _
    exact absurd h (by decide))
/-- a negative face index is read back as such -/
example : readFs (writeFs { exSurf with faces := [0, 1, -1, 0, 2, 3], info := none }) =
    .ok { exSurf with faces := [0, 1, -1, 0, 2, 3], info := none } := fs_roundtrip _ (by decide)

end LapyVerif.Props.C14b
