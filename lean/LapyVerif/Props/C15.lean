import LapyVerif.Props.C13
import LapyVerif.Props.C09
import LapyVerif.Lemmas.TransferLemmas
import LapyVerif.Model.History
/-
  C15 — transfer between triangle and vertex functions, and smoothing.

  Model: `Model/Transfer.lean` (functions are lists of rows).  The statements are made column by column through
  `col k f := f.map (·.getD k 0)` for rectangular input (`Rect cols f`: every row has `cols` entries); the
  correspondence with single-column versions (`t2vScalar`, `smooth1S`, `smoothS`) is `col_t2v`, `smooth1_spec`,
  `smooth_spec` in `Lemmas/TransferLemmas.lean` and holds for every column index `k` (columns `k ≥ cols` read 0 on both
  sides).
-/
namespace LapyVerif.Props.C15
open LapyVerif Transfer TransferLemmas
open LapyVerif.Props.C09 (InRange)

/-- the element area of the specification, `½‖(v1−v0)×(v2−v0)‖` -/
noncomputable def areaOf (vtx : Nat → V3 ℝ) (τ : Tri) : ℝ := Spec.triArea (vtx τ.1) (vtx τ.2.1) (vtx τ.2.2)

theorem triAreas_eq (vtx : Nat → V3 ℝ) (ts : List Tri) : Measures.triAreas vtx ts = ts.map (areaOf vtx) := by
  unfold Measures.triAreas areaOf
  apply List.map_congr_left
  intro τ _
  exact C13.heron_eq_cross _ _ _

/-! ## 1./2. `map_tfunc_to_vfunc`: what is scattered arrives -/

theorem sum_corner (nv : Nat) (τ : Tri) (h : τ.1 < nv ∧ τ.2.1 < nv ∧ τ.2.2 < nv) (x : ℝ) :
    ((List.range nv).map fun i => corner τ i * x / 3).sum = x := by
  have e : (fun i => corner τ i * x / 3)
      = fun i => ((if τ.1 = i then x / 3 else 0) + (if τ.2.1 = i then x / 3 else 0)) + (if τ.2.2 = i then x / 3 else 0) := by
    funext i
    unfold corner
    split_ifs <;> ring
  rw [e, sum_map_add', sum_map_add', sum_range_indicator, sum_range_indicator, sum_range_indicator,
    if_pos h.1, if_pos h.2.1, if_pos h.2.2]
  ring

/-- exchange of the two sums: every scattered value arrives three times a third -/
theorem sum_scatter (nv : Nat) (L : List (Tri × ℝ)) (hL : ∀ p ∈ L, p.1.1 < nv ∧ p.1.2.1 < nv ∧ p.1.2.2 < nv) :
    ((List.range nv).map fun i => (L.map fun p => corner p.1 i * p.2).sum / 3).sum = (L.map (·.2)).sum := by
  induction L with
  | nil => simp
  | cons p L ih =>
    have e : (fun i => ((p :: L).map fun q => corner q.1 i * q.2).sum / 3)
        = fun i => corner p.1 i * p.2 / 3 + (L.map fun q => corner q.1 i * q.2).sum / 3 := by
      funext i
      rw [List.map_cons, List.sum_cons]; ring
    rw [e, sum_map_add', sum_corner nv p.1 (hL p List.mem_cons_self), ih (fun q hq => hL q (List.mem_cons_of_mem _ hq)),
      List.map_cons, List.sum_cons]

theorem t2vScalar_sum (nv : Nat) (vtx : Nat → V3 ℝ) (ts : List Tri) (g : List ℝ) (w : Bool) (hr : InRange nv ts) :
    (t2vScalar nv vtx ts g w).sum = (wvals vtx ts g w).sum := by
  unfold t2vScalar
  rw [sum_scatter nv _ (fun p hp => hr p.1 (List.of_mem_zip hp).1)]
  congr 1
  apply List.map_snd_zip
  simp [wvals, Measures.triAreas]

/-- **`t2v_sum`.**  Unweighted transfer conserves the column sums: `Σ_{i<nv} out_i = Σ_τ f_τ`. -/
theorem t2v_sum {cols : Nat} (nv : Nat) (vtx : Nat → V3 ℝ) (ts : List Tri) (tf : List (List ℝ)) (k : Nat)
    (hr : InRange nv ts) (hlen : tf.length = ts.length) (hrect : Rect cols tf) :
    (col k (t2v nv vtx ts tf false)).sum = (col k tf).sum := by
  rw [col_t2v nv vtx ts hrect, t2vScalar_sum nv vtx ts _ _ hr]
  congr 1
  unfold wvals
  simp only [Bool.false_eq_true, ↓reduceIte]
  apply List.map_fst_zip
  simp [col_length, Measures.triAreas, hlen]

/-- **`t2v_weighted_sum`.**  With `weighted = true` the vertex sum is `Σ_τ f_τ · area(τ)`, `area = ½‖(v1−v0)×(v2−v0)‖`
    (no hypothesis on the number of rows: extra rows / triangles are dropped by the `zip` on both sides). -/
theorem t2v_weighted_sum {cols : Nat} (nv : Nat) (vtx : Nat → V3 ℝ) (ts : List Tri) (tf : List (List ℝ)) (k : Nat)
    (hr : InRange nv ts) (hrect : Rect cols tf) :
    (col k (t2v nv vtx ts tf true)).sum = (((col k tf).zip ts).map fun p => p.1 * areaOf vtx p.2).sum := by
  rw [col_t2v nv vtx ts hrect, t2vScalar_sum nv vtx ts _ _ hr]
  unfold wvals
  rw [triAreas_eq, List.zip_map_right, List.map_map]
  rfl

theorem zip_map_self {α β : Type} (l : List α) (f : α → β) : l.zip (l.map f) = l.map fun x => (x, f x) := by
  induction l with
  | nil => rfl
  | cons a l ih => simp [ih]

/-- `Σ_{τ ∋ i} area(τ) / 3` (a triangle counts once per corner at `i`) -/
noncomputable def vertexAreaAt (vtx : Nat → V3 ℝ) (ts : List Tri) (i : Nat) : ℝ :=
  (ts.map fun τ => corner τ i * areaOf vtx τ).sum / 3

theorem crossArea_eq (v0 v1 v2 : V3 ℝ) : Measures.crossArea v0 v1 v2 = Spec.triArea v0 v1 v2 := by
  unfold Measures.crossArea Spec.triArea Spec.triN Measures.c
  simp only [sqrt_real]
  push_cast
  ring

/-- `vertex_areas` is the list of the `vertexAreaAt`, for the indices up to the largest one used -/
theorem vertexAreas_eq (vtx : Nat → V3 ℝ) (ts : List Tri) :
    Measures.vertexAreas vtx ts = (List.range (Measures.vertexAreas vtx ts).length).map (vertexAreaAt vtx ts) := by
  have hl : (Measures.vertexAreas vtx ts).length
      = ts.foldl (fun m τ => max m (max τ.1 (max τ.2.1 τ.2.2) + 1)) 0 := by simp [Measures.vertexAreas]
  rw [hl]
  unfold Measures.vertexAreas vertexAreaAt
  apply List.map_congr_left
  intro i _
  simp only [crossArea_eq, Measures.c]
  push_cast
  congr 2
  apply List.map_congr_left
  intro τ _
  unfold corner areaOf
  split_ifs <;> ring

/-- **`t2v_one_eq_vertex_areas`.**  The weighted transfer of the constant 1 is `Σ_{τ∋i} area(τ)/3` at vertex `i` … -/
theorem t2v_one_eq_vertex_areas (nv : Nat) (vtx : Nat → V3 ℝ) (ts : List Tri) :
    col 0 (t2v nv vtx ts (ts.map fun _ => [1]) true) = (List.range nv).map (vertexAreaAt vtx ts) := by
  have hrect : Rect 1 (ts.map fun _ => ([1] : List ℝ)) := by
    intro r hr; rw [List.mem_map] at hr; obtain ⟨_, _, rfl⟩ := hr; rfl
  have hc : col 0 (ts.map fun _ => ([1] : List ℝ)) = ts.map fun _ => (1 : ℝ) := by simp [col]
  have hw : wvals vtx ts (ts.map fun _ => (1 : ℝ)) true = ts.map (areaOf vtx) := by
    unfold wvals
    rw [triAreas_eq, List.zip_map', List.map_map]
    apply List.map_congr_left
    intro τ _
    simp
  rw [col_t2v nv vtx ts hrect, hc]
  unfold t2vScalar vertexAreaAt
  rw [hw, zip_map_self]
  simp only [List.map_map, Function.comp_def]

/-- … which is `vertex_areas()` when `nv` is the length of that array (largest used index + 1) -/
theorem t2v_one_eq_vertexAreas (nv : Nat) (vtx : Nat → V3 ℝ) (ts : List Tri)
    (hnv : nv = (Measures.vertexAreas vtx ts).length) :
    col 0 (t2v nv vtx ts (ts.map fun _ => [1]) true) = Measures.vertexAreas vtx ts := by
  rw [t2v_one_eq_vertex_areas, hnv, ← vertexAreas_eq]

/-- entry by entry, for every index below both lengths -/
theorem t2v_one_getD (nv : Nat) (vtx : Nat → V3 ℝ) (ts : List Tri) (i : Nat) (hi : i < nv)
    (hi' : i < (Measures.vertexAreas vtx ts).length) :
    (col 0 (t2v nv vtx ts (ts.map fun _ => [1]) true)).getD i 0 = (Measures.vertexAreas vtx ts).getD i 0 := by
  rw [t2v_one_eq_vertex_areas, vertexAreas_eq]
  simp [List.getD_eq_getElem?_getD, hi, hi']

/-! ## 3. constants are NOT mapped to constants by `map_tfunc_to_vfunc` (finding F9) -/

/-- number of corner incidences of vertex `i` (number of triangles at `i` when triangles have distinct vertices) -/
def incidence (ts : List Tri) (i : Nat) : Nat := (C09.allVerts ts).count i

theorem sum_corner_eq_incidence (ts : List Tri) (i : Nat) : (ts.map fun τ => corner τ i).sum = (incidence ts i : ℝ) := by
  unfold incidence C09.allVerts
  induction ts with
  | nil => simp
  | cons τ ts ih =>
    rw [List.map_cons, List.sum_cons, ih, List.flatMap_cons, List.count_append]
    unfold corner C09.triVerts
    simp only [List.count_cons, List.count_nil, beq_iff_eq]
    push_cast
    ring

/-- **`t2v_const_partial`.**  The clause "maps constants to constants" is FALSE for the unweighted
    `map_tfunc_to_vfunc`: the constant `c` is mapped to `c · incidence(i) / 3` at vertex `i`
    (counterexample: `t2v_const_counterexample`). -/
theorem t2v_const_partial (nv : Nat) (vtx : Nat → V3 ℝ) (ts : List Tri) (c : ℝ) :
    col 0 (t2v nv vtx ts (ts.map fun _ => [c]) false) = (List.range nv).map fun i => c * (incidence ts i : ℝ) / 3 := by
  have hrect : Rect 1 (ts.map fun _ => ([c] : List ℝ)) := by
    intro r hr; rw [List.mem_map] at hr; obtain ⟨_, _, rfl⟩ := hr; rfl
  have hc : col 0 (ts.map fun _ => ([c] : List ℝ)) = ts.map fun _ => c := by simp [col]
  have hw : wvals vtx ts (ts.map fun _ => c) false = ts.map fun _ => c := by
    unfold wvals
    rw [triAreas_eq, List.zip_map', List.map_map]
    apply List.map_congr_left
    intro τ _
    simp
  rw [col_t2v nv vtx ts hrect, hc]
  unfold t2vScalar
  rw [hw, zip_map_self]
  apply List.map_congr_left
  intro i _
  simp only [List.map_map, Function.comp_def]
  rw [sum_map_mul_right', sum_corner_eq_incidence]
  ring

/-- … hence the image of a non-zero constant is constant iff all vertices have the same number of incidences -/
theorem t2v_const_iff (nv : Nat) (vtx : Nat → V3 ℝ) (ts : List Tri) (c : ℝ) (hc : c ≠ 0) :
    (∀ i j, i < nv → j < nv → (col 0 (t2v nv vtx ts (ts.map fun _ => [c]) false)).getD i 0
        = (col 0 (t2v nv vtx ts (ts.map fun _ => [c]) false)).getD j 0) ↔
    (∀ i j, i < nv → j < nv → incidence ts i = incidence ts j) := by
  rw [t2v_const_partial]
  have key : ∀ i, i < nv → ((List.range nv).map fun i => c * (incidence ts i : ℝ) / 3).getD i 0
      = c * (incidence ts i : ℝ) / 3 := by
    intro i hi; simp [List.getD_eq_getElem?_getD, hi]
  constructor
  · intro h i j hi hj
    have := h i j hi hj
    rw [key i hi, key j hj] at this
    have h3 : c * (incidence ts i : ℝ) = c * (incidence ts j : ℝ) := by linarith
    exact_mod_cast mul_left_cancel₀ hc h3
  · intro h i j hi hj
    rw [key i hi, key j hj, h i j hi hj]

/-- a strip of three triangles on five vertices -/
def strip3 : List Tri := [(0, 1, 2), (1, 3, 2), (2, 3, 4)]

/-- **`t2v_const_counterexample`**: on `strip3` the constant 1 maps to `[1/3, 2/3, 1, 2/3, 1/3]`, for any coordinates -/
theorem t2v_const_counterexample (vtx : Nat → V3 ℝ) :
    col 0 (t2v 5 vtx strip3 (strip3.map fun _ => [1]) false) = [1 / 3, 2 / 3, 1, 2 / 3, 1 / 3] := by
  rw [t2v_const_partial]
  have h0 : incidence strip3 0 = 1 := by decide
  have h1 : incidence strip3 1 = 2 := by decide
  have h2 : incidence strip3 2 = 3 := by decide
  have h3 : incidence strip3 3 = 2 := by decide
  have h4 : incidence strip3 4 = 1 := by decide
  simp only [List.range_succ, List.range_zero, List.nil_append, List.cons_append, List.map_cons, List.map_nil, h0, h1,
    h2, h3, h4]
  norm_num

/-! ## 4. `map_vfunc_to_tfunc`: mean of the three corners -/

/-- **`v2t_mean`** -/
theorem v2t_mean {cols : Nat} (ts : List Tri) (vf : List (List ℝ)) (k : Nat) (hr : InRange vf.length ts)
    (hrect : Rect cols vf) :
    col k (v2t ts vf) = ts.map fun τ =>
      ((col k vf).getD τ.1 0 + (col k vf).getD τ.2.1 0 + (col k vf).getD τ.2.2 0) / 3 := by
  rw [v2t_eq]
  unfold col
  rw [List.map_map]
  apply List.map_congr_left
  intro τ hτ
  obtain ⟨h0, h1, h2⟩ := hr τ hτ
  have l0 := hrect.getD h0
  have l1 := hrect.getD h1
  have l2 := hrect.getD h2
  have e := fun j => getD_col k vf j
  unfold col at e
  simp only [Function.comp]
  rw [getD_rowAdd (by rw [length_rowAdd, length_rowDiv, length_rowDiv, length_rowDiv, l0, l1, l2, Nat.min_self]),
    getD_rowAdd (by rw [length_rowDiv, length_rowDiv, l0, l1]), getD_rowDiv, getD_rowDiv, getD_rowDiv, e, e, e]
  push_cast
  ring

theorem row_thirds (r : List ℝ) :
    rowAdd (rowAdd (rowDiv r ((3 : Nat) : ℝ)) (rowDiv r ((3 : Nat) : ℝ))) (rowDiv r ((3 : Nat) : ℝ)) = r := by
  induction r with
  | nil => rfl
  | cons x r ih =>
    simp only [rowAdd, rowDiv, List.map_cons, List.zipWith_cons_cons] at ih ⊢
    rw [ih]
    congr 1
    push_cast
    ring

/-- **`v2t_const`**: a constant vertex function (all rows equal to `r`) is mapped to the constant triangle function -/
theorem v2t_const (nv : Nat) (ts : List Tri) (r : List ℝ) (hr : InRange nv ts) :
    v2t ts (List.replicate nv r) = List.replicate ts.length r := by
  rw [v2t_eq, List.eq_replicate_iff]
  refine ⟨by simp, ?_⟩
  intro x hx
  rw [List.mem_map] at hx
  obtain ⟨τ, hτ, rfl⟩ := hx
  obtain ⟨h0, h1, h2⟩ := hr τ hτ
  have e : ∀ j, j < nv → (List.replicate nv r).getD j [] = r := by
    intro j hj; simp [List.getD_eq_getElem?_getD, hj]
  rw [e _ h0, e _ h1, e _ h2, row_thirds]

/-! ## 5. `smooth_vfunc`: a row-stochastic neighbour average -/

/-- number of stored neighbours of row `i` -/
def deg (sk : List (Nat × Nat)) (i : Nat) : Nat := (rowNbrs sk i).length

/-- the smoothing weights: `1/deg i` on the edge neighbours of `i`, zero elsewhere -/
noncomputable def W (sk : List (Nat × Nat)) (i j : Nat) : ℝ := if j ∈ rowNbrs sk i then 1 / (deg sk i : ℝ) else 0

/-- the stored neighbours of row `i` are the `j` with a stored key `(i,j)`, each once -/
theorem mem_rowNbrs (ts : List Tri) (i j : Nat) : j ∈ rowNbrs (Topo.symKeys ts) i ↔ (i, j) ∈ Topo.symKeys ts :=
  TransferLemmas.mem_rowNbrs _ i j

theorem nodup_rowNbrs (sk : List (Nat × Nat)) (i : Nat) : (rowNbrs sk i).Nodup := TransferLemmas.nodup_rowNbrs sk i

/-- same members as the neighbour list of C09 (for triangles with distinct vertices) -/
theorem mem_rowNbrs_iff_neighbours (ts : List Tri) (hd : C09.Distinct ts) (i j : Nat) :
    j ∈ rowNbrs (Topo.symKeys ts) i ↔ j ∈ C09.neighbours ts i := by
  rw [mem_rowNbrs, C09.mem_symKeys_iff ts hd, C09.mem_neighbours, C09.edgeCount_comm]

theorem nbrsInRange_symKeys {n : Nat} {ts : List Tri} (hr : InRange n ts) : NbrsInRange (Topo.symKeys ts) n := by
  intro i j hj
  rw [TransferLemmas.mem_rowNbrs, C09.symKeys_eq, List.mem_flatMap] at hj
  obtain ⟨τ, hτ, hm⟩ := hj
  obtain ⟨h0, h1, h2⟩ := hr τ hτ
  simp only [C09.triSymKeys, List.mem_cons, Prod.mk.injEq, List.not_mem_nil, or_false] at hm
  omega

theorem W_nonneg (sk : List (Nat × Nat)) (i j : Nat) : 0 ≤ W sk i j := by
  unfold W; split
  · positivity
  · exact le_refl 0

/-- the weights are supported on the edge neighbours -/
theorem W_support (ts : List Tri) (i j : Nat) (h : W (Topo.symKeys ts) i j ≠ 0) : (i, j) ∈ Topo.symKeys ts := by
  unfold W at h
  split at h
  · rename_i hm; exact (mem_rowNbrs ts i j).1 hm
  · exact absurd rfl h

/-- the weights of a row sum to one -/
theorem W_sum_one (sk : List (Nat × Nat)) (i : Nat) (hd : 0 < deg sk i) :
    ((rowNbrs sk i).map (W sk i)).sum = 1 := by
  have : (rowNbrs sk i).map (W sk i) = (rowNbrs sk i).map fun _ => 1 / (deg sk i : ℝ) := by
    apply List.map_congr_left
    intro j hj; unfold W; rw [if_pos hj]
  rw [this, sum_map_const']
  have : (0 : ℝ) < (deg sk i : ℝ) := by exact_mod_cast hd
  unfold deg at *
  field_simp

/-- the area factor cancels: `(1·a_i) · (1 / (deg_i · 1·a_i)) = 1/deg_i` -/
theorem wgt_eq (sk : List (Nat × Nat)) (va : List ℝ) (i : Nat) (ha : va.getD i 0 ≠ 0) (hd : 0 < deg sk i) :
    wgt sk va i = 1 / (deg sk i : ℝ) := by
  unfold wgt
  rw [sum_map_const']
  have : (0 : ℝ) < (deg sk i : ℝ) := by exact_mod_cast hd
  unfold deg at *
  push_cast
  field_simp

/-- hypotheses under which smoothing is an average: neighbours are valid indices, every vertex has a non-zero area
    and at least one neighbour -/
structure Good (sk : List (Nat × Nat)) (va : List ℝ) (n : Nat) : Prop where
  inRange : NbrsInRange sk n
  area : ∀ i, i < n → va.getD i 0 ≠ 0
  nbr : ∀ i, i < n → 0 < deg sk i

theorem getD_smooth1S (sk : List (Nat × Nat)) (va g : List ℝ) (i : Nat) (hi : i < g.length) :
    (smooth1S sk va g).getD i 0 = ((rowNbrs sk i).map fun j => wgt sk va i * g.getD j 0).sum := by
  simp [smooth1S, List.getD_eq_getElem?_getD, hi]

/-- **`smooth1_weights`.**  `(smooth1 f)_i = Σ_{j ∈ nbr i} (1/deg i) · f_j`, column by column. -/
theorem smooth1_weights {cols : Nat} (sk : List (Nat × Nat)) (va : List ℝ) (f : List (List ℝ)) (k : Nat)
    (hrect : Rect cols f) (hin : NbrsInRange sk f.length) (i : Nat) (hi : i < f.length)
    (ha : va.getD i 0 ≠ 0) (hd : 0 < deg sk i) :
    (col k (smooth1 sk va f)).getD i 0 = ((rowNbrs sk i).map fun j => W sk i j * (col k f).getD j 0).sum := by
  rw [(smooth1_spec va hrect hin k).2, getD_smooth1S _ _ _ _ (by rw [col_length]; exact hi), wgt_eq sk va i ha hd]
  apply congrArg
  apply List.map_congr_left
  intro j hj
  unfold W; rw [if_pos hj]

/-! ### linearity -/

/-- `α·f + β·g` entry by entry -/
def lin (α β : ℝ) (f g : List ℝ) : List ℝ := List.zipWith (fun x y => α * x + β * y) f g

theorem getD_lin (α β : ℝ) {f g : List ℝ} (h : f.length = g.length) (j : Nat) :
    (lin α β f g).getD j 0 = α * f.getD j 0 + β * g.getD j 0 := by
  unfold lin
  by_cases hj : j < f.length
  · have hj' : j < g.length := h ▸ hj
    simp [List.getD_eq_getElem?_getD, List.getElem?_zipWith, List.getElem?_eq_getElem hj, List.getElem?_eq_getElem hj']
  · have hj' : ¬ j < g.length := h ▸ hj
    simp [List.getD_eq_getElem?_getD, List.getElem?_zipWith, List.getElem?_eq_none (Nat.le_of_not_lt hj),
      List.getElem?_eq_none (Nat.le_of_not_lt hj')]

/-- **`smooth_linear`** (one application) — no hypothesis on areas or degrees -/
theorem smooth1S_linear (sk : List (Nat × Nat)) (va : List ℝ) (α β : ℝ) (f g : List ℝ) (h : f.length = g.length) :
    smooth1S sk va (lin α β f g) = lin α β (smooth1S sk va f) (smooth1S sk va g) := by
  have hl : (lin α β f g).length = f.length := by simp [lin, h]
  apply List.ext_getElem
  · simp [lin, smooth1S, h]
  · intro i h1 h2
    have hi : i < f.length := by rw [smooth1S_length, hl] at h1; exact h1
    have e1 := getD_smooth1S sk va (lin α β f g) i (by rw [hl]; exact hi)
    have e2 := getD_lin α β (f := smooth1S sk va f) (g := smooth1S sk va g) (by simp [smooth1S_length, h]) i
    rw [List.getD_eq_getElem?_getD, List.getElem?_eq_getElem h1, Option.getD_some] at e1
    rw [List.getD_eq_getElem?_getD, List.getElem?_eq_getElem h2, Option.getD_some] at e2
    rw [e1, e2, getD_smooth1S _ _ _ _ hi, getD_smooth1S _ _ _ _ (h ▸ hi), ← sum_map_mul_left', ← sum_map_mul_left',
      ← sum_map_add']
    apply congrArg
    apply List.map_congr_left
    intro j _
    rw [getD_lin α β h]
    ring

/-! ### iteration -/

/-- **`smooth_iter`**: `n = 0` and `n = 1` apply the operator once, each further unit of `n` once more -/
theorem smooth_zero (sk : List (Nat × Nat)) (va : List ℝ) (f : List (List ℝ)) : smooth sk va f 0 = smooth1 sk va f := rfl
theorem smooth_one (sk : List (Nat × Nat)) (va : List ℝ) (f : List (List ℝ)) : smooth sk va f 1 = smooth1 sk va f := rfl
theorem smooth_iter (sk : List (Nat × Nat)) (va : List ℝ) (f : List (List ℝ)) (n : Nat) :
    smooth sk va f (n + 2) = smooth1 sk va (smooth sk va f (n + 1)) := by
  unfold smooth
  rw [show n + 2 - 1 = n + 1 from rfl, show n + 1 - 1 = n from rfl, List.range_succ, List.foldl_append]
  rfl

theorem smoothS_zero (sk : List (Nat × Nat)) (va g : List ℝ) : smoothS sk va g 0 = smooth1S sk va g := rfl
theorem smoothS_one (sk : List (Nat × Nat)) (va g : List ℝ) : smoothS sk va g 1 = smooth1S sk va g := rfl
theorem smoothS_iter (sk : List (Nat × Nat)) (va g : List ℝ) (n : Nat) :
    smoothS sk va g (n + 2) = smooth1S sk va (smoothS sk va g (n + 1)) := by
  unfold smoothS
  rw [show n + 2 - 1 = n + 1 from rfl, show n + 1 - 1 = n from rfl, List.range_succ, List.foldl_append]
  rfl

/-- induction principle for statements about `smoothS … n` -/
theorem smoothS_induction (sk : List (Nat × Nat)) (va g : List ℝ) (P : List ℝ → Prop)
    (h1 : P (smooth1S sk va g)) (hstep : ∀ x, P x → P (smooth1S sk va x)) (n : Nat) : P (smoothS sk va g n) := by
  match n with
  | 0 => exact h1
  | 1 => exact h1
  | n + 2 =>
    rw [smoothS_iter]
    exact hstep _ (smoothS_induction sk va g P h1 hstep (n + 1))

theorem smoothS_length (sk : List (Nat × Nat)) (va g : List ℝ) (n : Nat) : (smoothS sk va g n).length = g.length :=
  smoothS_induction sk va g (fun x => x.length = g.length) (smooth1S_length _ _ _)
    (fun x hx => by rw [smooth1S_length, hx]) n

/-- **`smooth_linear`** for any number of iterations -/
theorem smoothS_linear (sk : List (Nat × Nat)) (va : List ℝ) (α β : ℝ) (f g : List ℝ) (h : f.length = g.length)
    (n : Nat) : smoothS sk va (lin α β f g) n = lin α β (smoothS sk va f n) (smoothS sk va g n) := by
  match n with
  | 0 => exact smooth1S_linear sk va α β f g h
  | 1 => exact smooth1S_linear sk va α β f g h
  | n + 2 =>
    rw [smoothS_iter, smoothS_iter, smoothS_iter, smoothS_linear sk va α β f g h (n + 1)]
    exact smooth1S_linear sk va α β _ _ (by rw [smoothS_length, smoothS_length, h])

/-- linearity for the list-of-rows model, column by column -/
theorem smooth_linear {cols : Nat} (sk : List (Nat × Nat)) (va : List ℝ) (α β : ℝ) (F G H : List (List ℝ))
    (hF : Rect cols F) (hG : Rect cols G) (hH : Rect cols H) (hlen : G.length = H.length) (hFG : F.length = G.length)
    (hin : NbrsInRange sk F.length) (k n : Nat) (hcomb : col k F = lin α β (col k G) (col k H)) :
    col k (smooth sk va F n) = lin α β (col k (smooth sk va G n)) (col k (smooth sk va H n)) := by
  rw [(smooth_spec va hF hin k n).2.2, (smooth_spec va hG (hFG ▸ hin) k n).2.2,
    (smooth_spec va hH (hlen ▸ hFG ▸ hin) k n).2.2, hcomb]
  exact smoothS_linear sk va α β _ _ (by rw [col_length, col_length, hlen]) n

/-! ### constants and the maximum principle -/

theorem smooth1S_entry {sk : List (Nat × Nat)} {va : List ℝ} {n : Nat} (hg : Good sk va n) (g : List ℝ)
    (hlen : g.length = n) (i : Nat) (hi : i < n) :
    (smooth1S sk va g).getD i 0 = ((rowNbrs sk i).map fun j => 1 / (deg sk i : ℝ) * g.getD j 0).sum := by
  rw [getD_smooth1S _ _ _ _ (hlen ▸ hi), wgt_eq sk va i (hg.area i hi) (hg.nbr i hi)]

/-- **`smooth_range`** (one application): a convex combination stays between any bounds of the input -/
theorem smooth1S_range {sk : List (Nat × Nat)} {va : List ℝ} {n : Nat} (hg : Good sk va n) (g : List ℝ)
    (hlen : g.length = n) (lo hi : ℝ) (hb : ∀ x ∈ g, lo ≤ x ∧ x ≤ hi) :
    ∀ y ∈ smooth1S sk va g, lo ≤ y ∧ y ≤ hi := by
  intro y hy
  obtain ⟨i, hi', rfl⟩ := List.getElem_of_mem hy
  have hin' : i < n := by rw [smooth1S_length, hlen] at hi'; exact hi'
  have e := smooth1S_entry hg g hlen i hin'
  rw [List.getD_eq_getElem?_getD, List.getElem?_eq_getElem hi', Option.getD_some] at e
  rw [e]
  have hd : (0 : ℝ) < (deg sk i : ℝ) := by exact_mod_cast hg.nbr i hin'
  have hbj : ∀ j ∈ rowNbrs sk i, lo ≤ g.getD j 0 ∧ g.getD j 0 ≤ hi := by
    intro j hj
    have hjn : j < g.length := hlen ▸ hg.inRange i j hj
    rw [List.getD_eq_getElem?_getD, List.getElem?_eq_getElem hjn, Option.getD_some]
    exact hb _ (List.getElem_mem hjn)
  have hconst : ∀ c : ℝ, ((rowNbrs sk i).map fun _ => 1 / (deg sk i : ℝ) * c).sum = c := by
    intro c
    rw [sum_map_const']
    unfold deg at *
    field_simp
  constructor
  · rw [← hconst lo]
    apply List.sum_le_sum
    intro j hj
    exact mul_le_mul_of_nonneg_left (hbj j hj).1 (by positivity)
  · rw [← hconst hi]
    apply List.sum_le_sum
    intro j hj
    exact mul_le_mul_of_nonneg_left (hbj j hj).2 (by positivity)

/-- **`smooth_const`** (one application): constants are fixed -/
theorem smooth1S_const {sk : List (Nat × Nat)} {va : List ℝ} {n : Nat} (hg : Good sk va n) (c : ℝ) :
    smooth1S sk va (List.replicate n c) = List.replicate n c := by
  rw [List.eq_replicate_iff]
  refine ⟨by simp [smooth1S_length], ?_⟩
  intro y hy
  have := smooth1S_range hg (List.replicate n c) (by simp) c c (by
    intro x hx; rw [List.mem_replicate] at hx; rw [hx.2]; exact ⟨le_refl _, le_refl _⟩) y hy
  linarith [this.1, this.2]

theorem smoothS_const {sk : List (Nat × Nat)} {va : List ℝ} {n : Nat} (hg : Good sk va n) (c : ℝ) (m : Nat) :
    smoothS sk va (List.replicate n c) m = List.replicate n c :=
  smoothS_induction sk va _ (fun x => x = List.replicate n c) (smooth1S_const hg c)
    (fun x hx => by rw [hx]; exact smooth1S_const hg c) m

theorem smoothS_range {sk : List (Nat × Nat)} {va : List ℝ} {n : Nat} (hg : Good sk va n) (g : List ℝ)
    (hlen : g.length = n) (lo hi : ℝ) (hb : ∀ x ∈ g, lo ≤ x ∧ x ≤ hi) (m : Nat) :
    ∀ y ∈ smoothS sk va g m, lo ≤ y ∧ y ≤ hi :=
  (smoothS_induction sk va g (fun x => x.length = n ∧ ∀ y ∈ x, lo ≤ y ∧ y ≤ hi)
    ⟨by rw [smooth1S_length, hlen], smooth1S_range hg g hlen lo hi hb⟩
    (fun x hx => ⟨by rw [smooth1S_length, hx.1], smooth1S_range hg x hx.1 lo hi hx.2⟩) m).2

/-- **`smooth_range`** for the list-of-rows model: every column of `smooth1 f` stays within the bounds of that column -/
theorem smooth_range {cols : Nat} {sk : List (Nat × Nat)} {va : List ℝ} (f : List (List ℝ)) (hrect : Rect cols f)
    (hg : Good sk va f.length) (k : Nat) (lo hi : ℝ) (hb : ∀ x ∈ col k f, lo ≤ x ∧ x ≤ hi) :
    ∀ y ∈ col k (smooth1 sk va f), lo ≤ y ∧ y ≤ hi := by
  rw [(smooth1_spec va hrect hg.inRange k).2]
  exact smooth1S_range hg _ (col_length k f) lo hi hb

/-- **`smooth_range_iter`**: the same after any number of iterations (`smooth_vfunc(f, n)`) -/
theorem smooth_range_iter {cols : Nat} {sk : List (Nat × Nat)} {va : List ℝ} (f : List (List ℝ)) (hrect : Rect cols f)
    (hg : Good sk va f.length) (k : Nat) (lo hi : ℝ) (hb : ∀ x ∈ col k f, lo ≤ x ∧ x ≤ hi) (n : Nat) :
    ∀ y ∈ col k (smooth sk va f n), lo ≤ y ∧ y ≤ hi := by
  rw [(smooth_spec va hrect hg.inRange k n).2.2]
  exact smoothS_range hg _ (col_length k f) lo hi hb n

/-- **`smooth_const`**: a constant vertex function (all rows equal to `r`) is reproduced in every column, for any
    number of iterations -/
theorem smooth_const {sk : List (Nat × Nat)} {va : List ℝ} {nv : Nat} (hg : Good sk va nv) (r : List ℝ) (k n : Nat) :
    col k (smooth sk va (List.replicate nv r) n) = List.replicate nv (r.getD k 0) := by
  have hrect : Rect r.length (List.replicate nv r) := by
    intro x hx; rw [(List.mem_replicate.1 hx).2]
  have hlen : (List.replicate nv r).length = nv := by simp
  rw [(smooth_spec va hrect (by rw [hlen]; exact hg.inRange) k n).2.2]
  have : col k (List.replicate nv r) = List.replicate nv (r.getD k 0) := by simp [col]
  rw [this]
  exact smoothS_const hg _ n

/-! ## 6. `smooth_` acts in place on the coordinates -/

/-- **`smooth_inplace`**: `smooth_(n)` leaves the triangles alone and replaces the vertex coordinates by
    `smooth_vfunc(v, n)` computed with the cached adjacency and the current vertex areas -/
theorem smooth_inplace (s : History.TriState ℝ) (n : Nat) (hdim : History.adjDim s.symK = s.v.length) :
    History.triEffect s (.smooth n) =
      some ((Transfer.smooth s.symK (Measures.vertexAreas (History.vtxOfList s.v) s.t)
          (s.v.map fun p => [p.x, p.y, p.z]) n).map (fun r => ⟨r.getD 0 0, r.getD 1 0, r.getD 2 0⟩), s.t) := by
  simp [History.triEffect, hdim]

/-- when the cached adjacency does not have one row per vertex (trailing unused vertices, or a stale cache) `smooth_`
    raises (`ValueError` of the sparse product) and changes nothing -/
theorem smooth_inplace_err (s : History.TriState ℝ) (n : Nat) (hdim : History.adjDim s.symK ≠ s.v.length) :
    History.triEffect s (.smooth n) = none := by
  simp [History.triEffect, hdim]

/-- coordinate by coordinate: the new `x`-coordinates are the scalar smoothing of the old `x`-coordinates (likewise
    `y`, `z`), hence stay inside the bounding box when `Good` holds -/
theorem smooth_inplace_x (s : History.TriState ℝ) (n : Nat) (hin : NbrsInRange s.symK s.v.length)
    {v' : List (V3 ℝ)} {t' : List Tri} (h : History.triEffect s (.smooth n) = some (v', t')) :
    t' = s.t ∧
    v'.map (·.x) = smoothS s.symK (Measures.vertexAreas (History.vtxOfList s.v) s.t) (s.v.map (·.x)) n ∧
    v'.map (·.y) = smoothS s.symK (Measures.vertexAreas (History.vtxOfList s.v) s.t) (s.v.map (·.y)) n ∧
    v'.map (·.z) = smoothS s.symK (Measures.vertexAreas (History.vtxOfList s.v) s.t) (s.v.map (·.z)) n := by
  by_cases hdim : History.adjDim s.symK = s.v.length
  swap
  · rw [smooth_inplace_err s n hdim] at h; cases h
  rw [smooth_inplace s n hdim] at h
  cases h
  have hrect : Rect 3 (s.v.map fun p => [p.x, p.y, p.z]) := by
    intro r hr; rw [List.mem_map] at hr; obtain ⟨_, _, rfl⟩ := hr; rfl
  have hl : (s.v.map fun p => [p.x, p.y, p.z]).length = s.v.length := by simp
  have sp := fun k => (smooth_spec (Measures.vertexAreas (History.vtxOfList s.v) s.t) hrect (hl ▸ hin) k n).2.2
  refine ⟨rfl, ?_, ?_, ?_⟩
  · have := sp 0
    simp only [col, List.map_map, Function.comp_def] at this ⊢
    simpa using this
  · have := sp 1
    simp only [col, List.map_map, Function.comp_def] at this ⊢
    simpa using this
  · have := sp 2
    simp only [col, List.map_map, Function.comp_def] at this ⊢
    simpa using this

/-! ## non-vacuity: the unit square split into two triangles -/

def sq : List Tri := [(0, 1, 2), (1, 3, 2)]
/-- corners of the unit square in the plane `z = 0` -/
noncomputable def vtxSq : Nat → V3 ℝ := vtx4 ⟨0, 0, 0⟩ ⟨1, 0, 0⟩ ⟨0, 1, 0⟩ ⟨1, 1, 0⟩

theorem sq_inRange : InRange 4 sq := by decide

theorem areaOf_sq0 : areaOf vtxSq (0, 1, 2) = 1 / 2 := by
  simp only [areaOf, Spec.triArea, Spec.triN, vtxSq, vtx4]
  v3_flat
  norm_num
theorem areaOf_sq1 : areaOf vtxSq (1, 3, 2) = 1 / 2 := by
  simp only [areaOf, Spec.triArea, Spec.triN, vtxSq, vtx4]
  v3_flat
  norm_num

/-- `t2v_sum`: two columns, the column sums 4 and 6 are conserved -/
example : (col 0 (t2v 4 vtxSq sq [[1, 2], [3, 4]] false)).sum = 4 ∧ (col 1 (t2v 4 vtxSq sq [[1, 2], [3, 4]] false)).sum = 6 := by
  have hrect : Rect 2 [[1, 2], [3, (4 : ℝ)]] := by intro r hr; simp at hr; rcases hr with rfl | rfl <;> rfl
  rw [t2v_sum 4 vtxSq sq _ 0 sq_inRange rfl hrect, t2v_sum 4 vtxSq sq _ 1 sq_inRange rfl hrect]
  constructor <;> norm_num [col]

/-- `t2v_weighted_sum`: both triangles have area ½ -/
example : (col 0 (t2v 4 vtxSq sq [[1, 2], [3, 4]] true)).sum = 2 := by
  have hrect : Rect 2 [[1, 2], [3, (4 : ℝ)]] := by intro r hr; simp at hr; rcases hr with rfl | rfl <;> rfl
  rw [t2v_weighted_sum 4 vtxSq sq _ 0 sq_inRange hrect]
  simp only [col, sq, List.map_cons, List.map_nil, List.zip_cons_cons, List.zip_nil_right, List.sum_cons, List.sum_nil,
    areaOf_sq0, areaOf_sq1]
  norm_num


theorem vertexAreas_sq_length : (Measures.vertexAreas vtxSq sq).length = 4 := by
  simp [Measures.vertexAreas, sq]

theorem vertexAreaAt_sq (i : Nat) : vertexAreaAt vtxSq sq i = (corner (0, 1, 2) i * (1 / 2) + corner (1, 3, 2) i * (1 / 2)) / 3 := by
  simp only [vertexAreaAt, sq, List.map_cons, List.map_nil, List.sum_cons, List.sum_nil, areaOf_sq0, areaOf_sq1, add_zero]

/-- `t2v_one_eq_vertexAreas`: the vertex areas of the square are `[1/6, 1/3, 1/3, 1/6]` (they add up to the area 1) -/
example : col 0 (t2v 4 vtxSq sq (sq.map fun _ => [1]) true) = Measures.vertexAreas vtxSq sq :=
  t2v_one_eq_vertexAreas 4 vtxSq sq vertexAreas_sq_length.symm
theorem vertexAreas_sq : Measures.vertexAreas vtxSq sq = [1 / 6, 1 / 3, 1 / 3, 1 / 6] := by
  rw [vertexAreas_eq, vertexAreas_sq_length]
  simp only [List.range_succ, List.range_zero, List.nil_append, List.cons_append, List.map_cons, List.map_nil,
    vertexAreaAt_sq, corner]
  norm_num

/-- `t2v_const_partial` on the square: the constant 1 becomes `[1/3, 2/3, 2/3, 1/3]` -/
example : col 0 (t2v 4 vtxSq sq (sq.map fun _ => [1]) false) = [1 / 3, 2 / 3, 2 / 3, 1 / 3] := by
  rw [t2v_const_partial]
  have h0 : incidence sq 0 = 1 := by decide
  have h1 : incidence sq 1 = 2 := by decide
  have h2 : incidence sq 2 = 2 := by decide
  have h3 : incidence sq 3 = 1 := by decide
  simp only [List.range_succ, List.range_zero, List.nil_append, List.cons_append, List.map_cons, List.map_nil, h0, h1,
    h2, h3]
  norm_num

/-- `v2t_mean`, `v2t_const` -/
example : col 0 (v2t sq [[0], [3], [6], [9]]) = [3, 6] := by
  have hrect : Rect 1 [[0], [3], [6], [(9 : ℝ)]] := by
    intro r hr; simp at hr; rcases hr with rfl | rfl | rfl | rfl <;> rfl
  rw [v2t_mean sq _ 0 (by decide) hrect]
  norm_num [col, sq]
example : v2t sq (List.replicate 4 [(5 : ℝ), 7]) = List.replicate 2 [5, 7] := v2t_const 4 sq [5, 7] sq_inRange

/-- the hypotheses `Good` hold on the square with its true vertex areas -/
theorem deg_eq (sk : List (Nat × Nat)) (i : Nat) :
    deg sk i = ((sk.eraseDups.filter fun k => k.1 == i).map (·.2)).length := by
  simp [deg, rowNbrs]

theorem sq_good : Good (Topo.symKeys sq) (Measures.vertexAreas vtxSq sq) 4 where
  inRange := nbrsInRange_symKeys sq_inRange
  area := by
    intro i hi
    rw [vertexAreas_sq]
    have : i = 0 ∨ i = 1 ∨ i = 2 ∨ i = 3 := by omega
    rcases this with rfl | rfl | rfl | rfl <;> norm_num
  nbr := by
    intro i hi
    rw [deg_eq]
    have : i = 0 ∨ i = 1 ∨ i = 2 ∨ i = 3 := by omega
    rcases this with rfl | rfl | rfl | rfl <;> decide

/-- the coordinate rows of the square -/
def sqRows : List (List ℝ) := [[0, 0, 0], [1, 0, 0], [0, 1, 0], [1, 1, 0]]
theorem sqRows_rect : Rect 3 sqRows := by
  intro r hr; simp [sqRows] at hr; rcases hr with rfl | rfl | rfl | rfl <;> rfl

/-- `smooth_range_iter`: after any number of smoothing steps the `x`-coordinates stay in `[0,1]` -/
example (n : Nat) : ∀ y ∈ col 0 (smooth (Topo.symKeys sq) (Measures.vertexAreas vtxSq sq) sqRows n), 0 ≤ y ∧ y ≤ 1 := by
  apply smooth_range_iter sqRows sqRows_rect (by simpa [sqRows] using sq_good) 0 0 1
  intro x hx
  simp [col, sqRows] at hx
  rcases hx with rfl | rfl | rfl | rfl <;> norm_num

/-- `smooth_const` -/
example (n : Nat) : col 1 (smooth (Topo.symKeys sq) (Measures.vertexAreas vtxSq sq) (List.replicate 4 [5, 7]) n)
    = List.replicate 4 7 := smooth_const sq_good [5, 7] 1 n

/-- `smooth1_weights`: the weights at vertex 0 (two neighbours) are `1/2` on the neighbours -/
example : deg (Topo.symKeys sq) 0 = 2 ∧ W (Topo.symKeys sq) 0 1 = 1 / 2 ∧ W (Topo.symKeys sq) 0 3 = 0 := by
  have hd : deg (Topo.symKeys sq) 0 = 2 := by rw [deg_eq]; decide
  refine ⟨hd, ?_, ?_⟩
  · unfold W; rw [if_pos ((mem_rowNbrs sq 0 1).2 (by decide)), hd]; norm_num
  · unfold W; rw [if_neg (fun h => absurd ((mem_rowNbrs sq 0 3).1 h) (by decide))]

/-- `smooth_inplace`: `smooth_(3)` on the square keeps the triangles and smooths the coordinates -/
example : ∃ v', History.triEffect (History.TriState.fresh [⟨0, 0, 0⟩, ⟨1, 0, 0⟩, ⟨0, 1, 0⟩, ⟨(1 : ℝ), 1, 0⟩] sq) (.smooth 3)
    = some (v', sq) := ⟨_, smooth_inplace _ 3 (by decide)⟩

end LapyVerif.Props.C15
