import LapyVerif.Lemmas.EmbedLemmas
/-
  C19c — the decision pipeline of `tria_spherical_project` between `eigs` and the curvature flow (`Flow.embed`):
  direction-1 test, swap of eigenfunctions 2 and 3 together with their poles, sign flips, rescaling to `-1..1`,
  new coordinates `(ev3, ev1, ev2)`.
-/
namespace LapyVerif.Props.C19
open LapyVerif V3 Flow EmbedLemmas

/-! ### the quantities the code decides on -/

/-- extent `|cmax.y − cmin.y|` of the pole pair of an eigenfunction along `y` -/
noncomputable def yExt (v : List (V3 ℝ)) (e : List ℝ) : ℝ := |(poles v e).1.y - (poles v e).2.y|
/-- extent along `z` -/
noncomputable def zExt (v : List (V3 ℝ)) (e : List ℝ) : ℝ := |(poles v e).1.z - (poles v e).2.z|

/-- the eigenfunction used for direction 2: the one of `e2`, `e3` that is longer along `z` (`e2` on a tie) -/
noncomputable def second (v : List (V3 ℝ)) (e2 e3 : List ℝ) : List ℝ := if zExt v e2 < zExt v e3 then e3 else e2
/-- the other one, used for direction 3 -/
noncomputable def third (v : List (V3 ℝ)) (e2 e3 : List ℝ) : List ℝ := if zExt v e2 < zExt v e3 then e2 else e3

/-- the three aligned eigenfunctions that `embed` rescales: negated when they decrease along their axis (`y`, `z`, `x`) -/
noncomputable def aligned1 (v : List (V3 ℝ)) (e1 : List ℝ) : List ℝ :=
  if (poles v e1).1.y < (poles v e1).2.y then e1.map (fun e => -e) else e1
noncomputable def aligned2 (v : List (V3 ℝ)) (e2 e3 : List ℝ) : List ℝ :=
  if (poles v (second v e2 e3)).1.z < (poles v (second v e2 e3)).2.z then (second v e2 e3).map (fun e => -e)
  else second v e2 e3
noncomputable def aligned3 (v : List (V3 ℝ)) (e2 e3 : List ℝ) : List ℝ :=
  if (poles v (third v e2 e3)).1.x < (poles v (third v e2 e3)).2.x then (third v e2 e3).map (fun e => -e)
  else third v e2 e3

/-- normalisation `w / ‖w‖` as the code writes it -/
noncomputable def nrm (w : V3 ℝ) : V3 ℝ := smul (1 / Real.sqrt (normSq w)) w
/-- `cmax − cmin` -/
noncomputable def poleDiff (v : List (V3 ℝ)) (e : List ℝ) : V3 ℝ := (poles v e).1 - (poles v e).2
/-- `spatvol = |n1 · (n2 × n3)|` of the three normalised pole directions (after the swap) -/
noncomputable def spatvol (v : List (V3 ℝ)) (e1 e2 e3 : List ℝ) : ℝ :=
  |dot (nrm (poleDiff v e1)) (cross (nrm (poleDiff v (second v e2 e3))) (nrm (poleDiff v (third v e2 e3))))|

/-- the new vertex list `(ev3, ev1, ev2)` -/
def zip3 (a b c : List ℝ) : List (V3 ℝ) := (a.zip (b.zip c)).map fun p => ⟨p.1, p.2.1, p.2.2⟩

def embedMsg : String := "Direction 1 should be anterior - posterior"

/-! ### equation lemmas for the model definition (the definition itself is a chain of destructuring `let`s) -/

theorem embed_raw (v : List (V3 ℝ)) (e1 e2 e3 : List ℝ) :
    Flow.embed v e1 e2 e3 =
      (let p1 := poles v e1; let p2 := poles v e2; let p3 := poles v e3
       let l11 := |p1.1.y - p1.2.y|; let l21 := |p2.1.y - p2.2.y|; let l31 := |p3.1.y - p3.2.y|
       if (decide (l11 < l21) || decide (l11 < l31)) = true then .error "Direction 1 should be anterior - posterior" else
       let sw := decide (|p2.1.z - p2.2.z| < |p3.1.z - p3.2.z|)
       let s := if sw = true then e3 else e2
       let t := if sw = true then e2 else e3
       let cmax2 := if sw = true then p3.1 else p2.1
       let cmax3 := if sw = true then p2.1 else p3.1
       let cmin2 := if sw = true then p3.2 else p2.2
       let cmin3 := if sw = true then p2.2 else p3.2
       let a1 := if p1.1.y < p1.2.y then e1.map (fun e => -e) else e1
       let a2 := if cmax2.z < cmin2.z then s.map (fun e => -e) else s
       let a3 := if cmax3.x < cmin3.x then t.map (fun e => -e) else t
       let nrm := fun (w : V3 ℝ) => smul (((1 : Nat) : ℝ) / Real.sqrt (normSq w)) w
       .ok (((unitRange a3).zip ((unitRange a1).zip (unitRange a2))).map (fun p => (⟨p.1, p.2.1, p.2.2⟩ : V3 ℝ)),
         |dot (nrm (p1.1 - p1.2)) (cross (nrm (cmax2 - cmin2)) (nrm (cmax3 - cmin3)))|)) := by
  unfold Flow.embed
  cases hsw : decide (|(poles v e2).1.z - (poles v e2).2.z| < |(poles v e3).1.z - (poles v e3).2.z|) <;>
    simp only [abs_real, sqrt_real, hsw] <;> rfl

/-- **the model in readable form** -/
theorem embed_eq (v : List (V3 ℝ)) (e1 e2 e3 : List ℝ) :
    Flow.embed v e1 e2 e3 =
      if yExt v e1 < yExt v e2 ∨ yExt v e1 < yExt v e3 then .error embedMsg
      else .ok (zip3 (unitRange (aligned3 v e2 e3)) (unitRange (aligned1 v e1)) (unitRange (aligned2 v e2 e3)),
        spatvol v e1 e2 e3) := by
  rw [embed_raw]
  simp only [Bool.or_eq_true, decide_eq_true_eq, Nat.cast_one]
  by_cases herr : yExt v e1 < yExt v e2 ∨ yExt v e1 < yExt v e3
  · rw [if_pos herr, if_pos (by simpa [yExt] using herr)]; rfl
  · rw [if_neg herr, if_neg (by simpa [yExt] using herr)]
    by_cases hsw : zExt v e2 < zExt v e3
    · have hsw' := hsw; unfold zExt at hsw'
      simp only [hsw', ↓reduceIte, zip3, spatvol, aligned1, aligned2, aligned3, second, third, hsw, nrm, poleDiff]
    · have hsw' := hsw; unfold zExt at hsw'
      simp only [hsw', ↓reduceIte, zip3, spatvol, aligned1, aligned2, aligned3, second, third, hsw, nrm, poleDiff]

/-! ### 5. when `embed` raises -/

/-- **`embed_error_iff`**: `ValueError` iff eigenfunction 1 is not the longest along `y` -/
theorem embed_error_iff (v : List (V3 ℝ)) (e1 e2 e3 : List ℝ) :
    (∃ msg, Flow.embed v e1 e2 e3 = .error msg) ↔ yExt v e1 < yExt v e2 ∨ yExt v e1 < yExt v e3 := by
  rw [embed_eq]
  by_cases h : yExt v e1 < yExt v e2 ∨ yExt v e1 < yExt v e3
  · rw [if_pos h]; exact ⟨fun _ => h, fun _ => ⟨_, rfl⟩⟩
  · rw [if_neg h]
    constructor
    · rintro ⟨msg, hm⟩; cases hm
    · intro h'; exact absurd h' h

theorem embed_ok_iff (v : List (V3 ℝ)) (e1 e2 e3 : List ℝ) :
    (∃ r, Flow.embed v e1 e2 e3 = .ok r) ↔ yExt v e2 ≤ yExt v e1 ∧ yExt v e3 ≤ yExt v e1 := by
  rw [embed_eq]
  by_cases h : yExt v e1 < yExt v e2 ∨ yExt v e1 < yExt v e3
  · rw [if_pos h]
    constructor
    · rintro ⟨r, hr⟩; cases hr
    · rintro ⟨h1, h2⟩; rcases h with h | h <;> linarith
  · rw [if_neg h]
    rw [not_or, not_lt, not_lt] at h
    exact ⟨fun _ => h, fun _ => ⟨_, rfl⟩⟩

/-! ### 4. the sign decisions -/

/-- **`embed_axis_signs` (a)**: what an `.ok` result consists of -/
theorem embed_axis_signs {v : List (V3 ℝ)} {e1 e2 e3 : List ℝ} {vn : List (V3 ℝ)} {s : ℝ}
    (h : Flow.embed v e1 e2 e3 = .ok (vn, s)) :
    vn = zip3 (unitRange (aligned3 v e2 e3)) (unitRange (aligned1 v e1)) (unitRange (aligned2 v e2 e3)) ∧
    s = spatvol v e1 e2 e3 := by
  rw [embed_eq] at h
  split at h
  · cases h
  · injection h with h; injection h with h1 h2
    exact ⟨h1.symm, h2.symm⟩

/-- negating an eigenfunction swaps its two poles -/
theorem poles_neg (v : List (V3 ℝ)) (ev : List ℝ) :
    poles v (ev.map Neg.neg) = ((poles v ev).2, (poles v ev).1) := EmbedLemmas.poles_neg v ev

/-- **`embed_axis_signs` (b)**: each aligned eigenfunction does not decrease along its own axis -/
theorem aligned1_axis (v : List (V3 ℝ)) (e1 : List ℝ) :
    (poles v (aligned1 v e1)).1.y ≥ (poles v (aligned1 v e1)).2.y := by
  unfold aligned1
  split
  · rename_i h; rw [EmbedLemmas.poles_neg]; exact le_of_lt h
  · rename_i h; exact not_lt.1 h

theorem aligned2_axis (v : List (V3 ℝ)) (e2 e3 : List ℝ) :
    (poles v (aligned2 v e2 e3)).1.z ≥ (poles v (aligned2 v e2 e3)).2.z := by
  unfold aligned2
  split
  · rename_i h; rw [EmbedLemmas.poles_neg]; exact le_of_lt h
  · rename_i h; exact not_lt.1 h

theorem aligned3_axis (v : List (V3 ℝ)) (e2 e3 : List ℝ) :
    (poles v (aligned3 v e2 e3)).1.x ≥ (poles v (aligned3 v e2 e3)).2.x := by
  unfold aligned3
  split
  · rename_i h; rw [EmbedLemmas.poles_neg]; exact le_of_lt h
  · rename_i h; exact not_lt.1 h

/-! ### 3. the order in which eigenfunctions 2 and 3 are supplied does not matter -/

theorem second_symm {v : List (V3 ℝ)} {e2 e3 : List ℝ} (hne : zExt v e2 ≠ zExt v e3) :
    second v e2 e3 = second v e3 e2 := by
  unfold second
  rcases lt_or_gt_of_ne hne with h | h
  · rw [if_pos h, if_neg (not_lt.2 (le_of_lt h))]
  · rw [if_neg (not_lt.2 (le_of_lt h)), if_pos h]

theorem third_symm {v : List (V3 ℝ)} {e2 e3 : List ℝ} (hne : zExt v e2 ≠ zExt v e3) :
    third v e2 e3 = third v e3 e2 := by
  unfold third
  rcases lt_or_gt_of_ne hne with h | h
  · rw [if_pos h, if_neg (not_lt.2 (le_of_lt h))]
  · rw [if_neg (not_lt.2 (le_of_lt h)), if_pos h]

/-- **`embed_swap_symm`**: if the two `z`-extents differ, supplying eigenfunctions 2 and 3 in the other order gives
    the same result (vertices and `spatvol`) — the swap moves the eigenfunctions *together with their poles*. -/
theorem embed_swap_symm (v : List (V3 ℝ)) (e1 e2 e3 : List ℝ)
    (hne : |(poles v e2).1.z - (poles v e2).2.z| ≠ |(poles v e3).1.z - (poles v e3).2.z|) :
    Flow.embed v e1 e2 e3 = Flow.embed v e1 e3 e2 := by
  have hne' : zExt v e2 ≠ zExt v e3 := hne
  rw [embed_eq, embed_eq]
  have hs := second_symm hne'
  have ht := third_symm hne'
  have hcond : (yExt v e1 < yExt v e2 ∨ yExt v e1 < yExt v e3) ↔ (yExt v e1 < yExt v e3 ∨ yExt v e1 < yExt v e2) := or_comm
  simp only [hcond, aligned2, aligned3, spatvol, hs, ht]

/-- on a tie `l22 = l32` the vertex part does depend on the order (eigenfunction 2 stays in place), but `spatvol` is
    symmetric in every case: it is the absolute value of a triple product -/
theorem spatvol_symm (v : List (V3 ℝ)) (e1 e2 e3 : List ℝ) : spatvol v e1 e2 e3 = spatvol v e1 e3 e2 := by
  by_cases hne : zExt v e2 = zExt v e3
  · -- tie: the roles of 2 and 3 are exchanged, the triple product changes sign
    have h1 : second v e2 e3 = e2 := by unfold second; rw [if_neg (by rw [hne]; exact lt_irrefl _)]
    have h2 : third v e2 e3 = e3 := by unfold third; rw [if_neg (by rw [hne]; exact lt_irrefl _)]
    have h3 : second v e3 e2 = e3 := by unfold second; rw [if_neg (by rw [hne]; exact lt_irrefl _)]
    have h4 : third v e3 e2 = e2 := by unfold third; rw [if_neg (by rw [hne]; exact lt_irrefl _)]
    unfold spatvol
    rw [h1, h2, h3, h4, ← abs_neg]
    congr 1
    v3_flat
    ring
  · unfold spatvol; rw [second_symm hne, third_symm hne]

/-! ### 1./2. lengths and bounds -/

theorem zip3_length (a b c : List ℝ) : (zip3 a b c).length = min a.length (min b.length c.length) := by
  simp [zip3]

theorem aligned1_length (v : List (V3 ℝ)) (e1 : List ℝ) : (aligned1 v e1).length = e1.length := by
  unfold aligned1; split <;> simp

theorem second_third_length (v : List (V3 ℝ)) (e2 e3 : List ℝ) (h : e2.length = e3.length) :
    (aligned2 v e2 e3).length = e2.length ∧ (aligned3 v e2 e3).length = e2.length := by
  unfold aligned2 aligned3 second third
  constructor <;> split <;> split <;> simp [h]

/-- **`embed_length`** -/
theorem embed_length {v : List (V3 ℝ)} {e1 e2 e3 : List ℝ} {vn : List (V3 ℝ)} {s : ℝ}
    (h : Flow.embed v e1 e2 e3 = .ok (vn, s)) (h1 : e1.length = v.length) (h2 : e2.length = v.length)
    (h3 : e3.length = v.length) : vn.length = v.length := by
  rw [(embed_axis_signs h).1, zip3_length, unitRange_length, unitRange_length, unitRange_length, aligned1_length,
    (second_third_length v e2 e3 (h2.trans h3.symm)).1, (second_third_length v e2 e3 (h2.trans h3.symm)).2, h1, h2]
  simp

/-- **`unitRange_bounds`**: entry by entry — the value stays in `[-1,1]`, keeps its sign, and the extreme entries
    are mapped to `±1` -/
theorem unitRange_bounds {ev : List ℝ} (hmn : Flow.minL ev < 0) (hmx : 0 < Flow.maxL ev) (i : Nat)
    (hi : i < ev.length) :
    (-1 : ℝ) ≤ (unitRange ev)[i]'(by rw [unitRange_length]; exact hi) ∧
    (unitRange ev)[i]'(by rw [unitRange_length]; exact hi) ≤ 1 ∧
    (ev[i] < 0 → (unitRange ev)[i]'(by rw [unitRange_length]; exact hi) < 0) ∧
    (0 < ev[i] → 0 < (unitRange ev)[i]'(by rw [unitRange_length]; exact hi)) ∧
    (ev[i] = 0 → (unitRange ev)[i]'(by rw [unitRange_length]; exact hi) = 0) ∧
    (ev[i] = Flow.maxL ev → (unitRange ev)[i]'(by rw [unitRange_length]; exact hi) = 1) ∧
    (ev[i] = Flow.minL ev → (unitRange ev)[i]'(by rw [unitRange_length]; exact hi) = -1) := by
  have e : (unitRange ev)[i]'(by rw [unitRange_length]; exact hi) = rescale (Flow.minL ev) (Flow.maxL ev) ev[i] := by
    simp [unitRange_eq]
  rw [e]
  exact rescale_spec hmn hmx (List.getElem_mem hi)

/-- every entry of `unitRange ev` is in `[-1,1]`, and `1`, `-1` are attained -/
theorem unitRange_mem_bounds {ev : List ℝ} (hmn : Flow.minL ev < 0) (hmx : 0 < Flow.maxL ev) :
    (∀ u ∈ unitRange ev, -1 ≤ u ∧ u ≤ 1) ∧ (1 : ℝ) ∈ unitRange ev ∧ (-1 : ℝ) ∈ unitRange ev := by
  have hne : ev ≠ [] := by
    rintro rfl; simp [Flow.maxL] at hmx
  refine ⟨?_, ?_, ?_⟩
  · intro u hu
    rw [unitRange_eq, List.mem_map] at hu
    obtain ⟨e, he, rfl⟩ := hu
    exact ⟨(rescale_spec hmn hmx he).1, (rescale_spec hmn hmx he).2.1⟩
  · rw [unitRange_eq, List.mem_map]
    exact ⟨_, maxL_mem hne, (rescale_spec hmn hmx (maxL_mem hne)).2.2.2.2.2.1 rfl⟩
  · rw [unitRange_eq, List.mem_map]
    exact ⟨_, minL_mem hne, (rescale_spec hmn hmx (minL_mem hne)).2.2.2.2.2.2 rfl⟩

/-- "takes both signs" is not affected by the sign flip -/
theorem bothSigns_neg {e : List ℝ} (h : Flow.minL e < 0 ∧ 0 < Flow.maxL e) :
    Flow.minL (e.map fun x => -x) < 0 ∧ 0 < Flow.maxL (e.map fun x => -x) := by
  rw [minL_neg, maxL_neg]; constructor <;> linarith [h.1, h.2]

theorem mem_zip3 {a b c : List ℝ} {p : V3 ℝ} (h : p ∈ zip3 a b c) : p.x ∈ a ∧ p.y ∈ b ∧ p.z ∈ c := by
  unfold zip3 at h
  rw [List.mem_map] at h
  obtain ⟨q, hq, rfl⟩ := h
  have h1 := List.of_mem_zip hq
  have h2 := List.of_mem_zip h1.2
  exact ⟨h1.1, h2.1, h2.2⟩

/-- **`embed_coords_bounded`**: when each of the three eigenfunctions takes both signs, every coordinate of every
    returned vertex lies in `[-1,1]` -/
theorem embed_coords_bounded {v : List (V3 ℝ)} {e1 e2 e3 : List ℝ} {vn : List (V3 ℝ)} {s : ℝ}
    (h : Flow.embed v e1 e2 e3 = .ok (vn, s))
    (b1 : Flow.minL e1 < 0 ∧ 0 < Flow.maxL e1) (b2 : Flow.minL e2 < 0 ∧ 0 < Flow.maxL e2)
    (b3 : Flow.minL e3 < 0 ∧ 0 < Flow.maxL e3) :
    ∀ p ∈ vn, (-1 ≤ p.x ∧ p.x ≤ 1) ∧ (-1 ≤ p.y ∧ p.y ≤ 1) ∧ (-1 ≤ p.z ∧ p.z ≤ 1) := by
  have ha1 : Flow.minL (aligned1 v e1) < 0 ∧ 0 < Flow.maxL (aligned1 v e1) := by
    unfold aligned1; split
    · exact bothSigns_neg b1
    · exact b1
  have hs : Flow.minL (second v e2 e3) < 0 ∧ 0 < Flow.maxL (second v e2 e3) := by
    unfold second; split
    · exact b3
    · exact b2
  have ht : Flow.minL (third v e2 e3) < 0 ∧ 0 < Flow.maxL (third v e2 e3) := by
    unfold third; split
    · exact b2
    · exact b3
  have ha2 : Flow.minL (aligned2 v e2 e3) < 0 ∧ 0 < Flow.maxL (aligned2 v e2 e3) := by
    unfold aligned2; split
    · exact bothSigns_neg hs
    · exact hs
  have ha3 : Flow.minL (aligned3 v e2 e3) < 0 ∧ 0 < Flow.maxL (aligned3 v e2 e3) := by
    unfold aligned3; split
    · exact bothSigns_neg ht
    · exact ht
  intro p hp
  rw [(embed_axis_signs h).1] at hp
  obtain ⟨hx, hy, hz⟩ := mem_zip3 hp
  exact ⟨(unitRange_mem_bounds ha3.1 ha3.2).1 _ hx, (unitRange_mem_bounds ha1.1 ha1.2).1 _ hy,
    (unitRange_mem_bounds ha2.1 ha2.2).1 _ hz⟩

/-! ### 6. non-vacuity: the scaled octahedron (evaluated over ℝ) -/

/-- the octahedron vertices scaled by (1, 2, 1.5) -/
noncomputable def octV : List (V3 ℝ) := [⟨1, 0, 0⟩, ⟨-1, 0, 0⟩, ⟨0, 2, 0⟩, ⟨0, -2, 0⟩, ⟨0, 0, 3 / 2⟩, ⟨0, 0, -(3 / 2)⟩]
noncomputable def octE1 : List ℝ := [0, 0, 1, -1, 0, 0]
noncomputable def octE2 : List ℝ := [0, 0, 0, 0, 1, -1]
noncomputable def octE3 : List ℝ := [1, -1, 0, 0, 0, 0]

theorem oct_max1 : Flow.maxL octE1 = 1 ∧ Flow.minL octE1 = -1 := by
  rw [maxL_eq_lmax, minL_eq_lmin]; constructor <;> simp [lmax, lmin, octE1]
theorem oct_max2 : Flow.maxL octE2 = 1 ∧ Flow.minL octE2 = -1 := by
  rw [maxL_eq_lmax, minL_eq_lmin]; constructor <;> simp [lmax, lmin, octE2]
theorem oct_max3 : Flow.maxL octE3 = 1 ∧ Flow.minL octE3 = -1 := by
  rw [maxL_eq_lmax, minL_eq_lmin]; constructor <;> simp [lmax, lmin, octE3]

theorem oct_poles1 : poles octV octE1 = (⟨0, 2, 0⟩, ⟨0, -2, 0⟩) := by
  unfold poles
  rw [oct_max1.1, oct_max1.2]
  simp only [octE1, octV, meanPos, meanSel, List.map_cons, List.map_nil]
  norm_num [List.filter_cons]


theorem oct_poles2 : poles octV octE2 = (⟨0, 0, 3 / 2⟩, ⟨0, 0, -(3 / 2)⟩) := by
  unfold poles
  rw [oct_max2.1, oct_max2.2]
  simp only [octE2, octV, meanPos, meanSel, List.map_cons, List.map_nil]
  norm_num [List.filter_cons]

theorem oct_poles3 : poles octV octE3 = (⟨1, 0, 0⟩, ⟨-1, 0, 0⟩) := by
  unfold poles
  rw [oct_max3.1, oct_max3.2]
  simp only [octE3, octV, meanPos, meanSel, List.map_cons, List.map_nil]
  norm_num [List.filter_cons]

theorem oct_unit1 : unitRange octE1 = octE1 := by
  rw [unitRange_eq, oct_max1.1, oct_max1.2]; norm_num [octE1, rescale]
theorem oct_unit2 : unitRange octE2 = octE2 := by
  rw [unitRange_eq, oct_max2.1, oct_max2.2]; norm_num [octE2, rescale]
theorem oct_unit3 : unitRange octE3 = octE3 := by
  rw [unitRange_eq, oct_max3.1, oct_max3.2]; norm_num [octE3, rescale]

theorem sqrt_16 : Real.sqrt 16 = 4 := by rw [show (16 : ℝ) = 4 ^ 2 by norm_num, Real.sqrt_sq (by norm_num)]
theorem sqrt_9 : Real.sqrt 9 = 3 := by rw [show (9 : ℝ) = 3 ^ 2 by norm_num, Real.sqrt_sq (by norm_num)]
theorem sqrt_4 : Real.sqrt 4 = 2 := by rw [show (4 : ℝ) = 2 ^ 2 by norm_num, Real.sqrt_sq (by norm_num)]

/-- **non-vacuity (over ℝ)**: on the scaled octahedron with the coordinate functions as eigenfunctions `embed` accepts,
    does not swap, does not flip, and returns the unit octahedron in the order `(ev3, ev1, ev2)` with `spatvol = 1` -/
theorem embed_oct : Flow.embed octV octE1 octE2 octE3
    = .ok ([⟨1, 0, 0⟩, ⟨-1, 0, 0⟩, ⟨0, 1, 0⟩, ⟨0, -1, 0⟩, ⟨0, 0, 1⟩, ⟨0, 0, -1⟩], 1) := by
  have y1 : yExt octV octE1 = 4 := by rw [yExt, oct_poles1]; norm_num
  have y2 : yExt octV octE2 = 0 := by rw [yExt, oct_poles2]; norm_num
  have y3 : yExt octV octE3 = 0 := by rw [yExt, oct_poles3]; norm_num
  have z2 : zExt octV octE2 = 3 := by rw [zExt, oct_poles2]; norm_num
  have z3 : zExt octV octE3 = 0 := by rw [zExt, oct_poles3]; norm_num
  have hs : second octV octE2 octE3 = octE2 := by rw [second, z2, z3]; norm_num
  have ht : third octV octE2 octE3 = octE3 := by rw [third, z2, z3]; norm_num
  have a1 : aligned1 octV octE1 = octE1 := by rw [aligned1, oct_poles1]; norm_num
  have a2 : aligned2 octV octE2 octE3 = octE2 := by rw [aligned2, hs, oct_poles2]; norm_num
  have a3 : aligned3 octV octE2 octE3 = octE3 := by rw [aligned3, ht, oct_poles3]; norm_num
  have sv : spatvol octV octE1 octE2 octE3 = 1 := by
    rw [spatvol, hs, ht]
    simp only [poleDiff, oct_poles1, oct_poles2, oct_poles3, nrm]
    v3_flat
    norm_num [sqrt_16, sqrt_9, sqrt_4]
  rw [embed_eq, y1, y2, y3, if_neg (by norm_num), a1, a2, a3, oct_unit1, oct_unit2, oct_unit3, sv]
  simp [zip3, octE1, octE2, octE3]

/-- the swap (here: of the arguments) is taken back: `embed_swap_symm` applies since `l22 = 3 ≠ 0 = l32` -/
example : Flow.embed octV octE1 octE3 octE2
    = .ok ([⟨1, 0, 0⟩, ⟨-1, 0, 0⟩, ⟨0, 1, 0⟩, ⟨0, -1, 0⟩, ⟨0, 0, 1⟩, ⟨0, 0, -1⟩], 1) := by
  rw [← embed_swap_symm octV octE1 octE2 octE3 (by rw [oct_poles2, oct_poles3]; norm_num), embed_oct]

/-- the error branch: with the `z`-function supplied as eigenfunction 1 the direction-1 test fails -/
example : ∃ msg, Flow.embed octV octE2 octE1 octE3 = .error msg := by
  rw [embed_error_iff]
  left
  rw [yExt, yExt, oct_poles1, oct_poles2]; norm_num

/-- `embed_length`, `embed_coords_bounded` on the octahedron -/
example : ∀ p ∈ ([⟨1, 0, 0⟩, ⟨-1, 0, 0⟩, ⟨0, 1, 0⟩, ⟨0, -1, 0⟩, ⟨0, 0, 1⟩, ⟨0, 0, -1⟩] : List (V3 ℝ)),
    (-1 ≤ p.x ∧ p.x ≤ 1) ∧ (-1 ≤ p.y ∧ p.y ≤ 1) ∧ (-1 ≤ p.z ∧ p.z ≤ 1) :=
  embed_coords_bounded embed_oct (by rw [oct_max1.1, oct_max1.2]; norm_num) (by rw [oct_max2.1, oct_max2.2]; norm_num)
    (by rw [oct_max3.1, oct_max3.2]; norm_num)

end LapyVerif.Props.C19
